/-
  C05 (follow-up wp-c05b) — the linear step bound for the volume / file / section parsers.

  `Cost.steps` (parser calls + iterations of the structural loops, TotalSteps.lean) of one call is at most

        2 · (bytes the call consumed, or had in hand when it failed) + 2 · (bytes decoders returned) + small

  on *every* run — success, ordinary error, or fault — by the same mutual induction on the fuel as
  `mutual_post`.  Accounting (amortised): every call and every loop iteration is paid by bytes that no sibling
  uses — a section by its own `ExtendedSize ≥ 1` bytes, a file by its size, a volume by the 4-byte section
  header in front of it (its own `DataOffset` may be 0), a decoded payload by `Cost.dec`.  This is "never
  loops without consuming input" stated positively.  Block-map reads (`Cost.blk`) are not part of it: see
  TotalSteps.lean.
-/
import FianoModel.Uefi.TotalStepsSim
import FianoModel.Uefi.TotalAsmAlloc
import FianoModel.Uefi.TotalFvSafe

namespace Fiano.Uefi.Total
open Fiano GoM Fiano.Uefi CostM

/-! ### a Hoare triple for `CostM`: `Q` on a value, `E` on every error / fault — both see the counter -/

def PostC {α} (x : CostM α) (m : Meter) (k : Cost) (Q : α → Meter → Cost → Prop) (E : Cost → Prop) : Prop :=
  match x m k with
  | (.ok (a, m'), k') => Q a m' k'
  | (.error _, k') => E k'

theorem postC_pure {α} {a : α} {m : Meter} {k : Cost} {Q : α → Meter → Cost → Prop} {E : Cost → Prop}
    (h : Q a m k) : PostC (pure a : CostM α) m k Q E := h

theorem postC_err {α} {m : Meter} {k : Cost} {Q : α → Meter → Cost → Prop} {E : Cost → Prop}
    (h : E k) : PostC (errC : CostM α) m k Q E := h

theorem postC_liftFault {α} {f : Fault} {m : Meter} {k : Cost} {Q : α → Meter → Cost → Prop} {E : Cost → Prop}
    (h : E k) : PostC (liftC (fun _ => .error f) : CostM α) m k Q E := h

theorem postC_bind {α β} {x : CostM α} {f : α → CostM β} {m : Meter} {k : Cost}
    {R : α → Meter → Cost → Prop} {Q : β → Meter → Cost → Prop} {E : Cost → Prop}
    (hx : PostC x m k R E) (hf : ∀ a m' k', R a m' k' → PostC (f a) m' k' Q E) : PostC (x >>= f) m k Q E := by
  unfold PostC at hx ⊢
  show match bindC x f m k with | (.ok (a, m'), k') => Q a m' k' | (.error _, k') => E k'
  unfold bindC
  cases hxm : x m k with
  | mk r k' =>
    rw [hxm] at hx
    cases r with
    | ok v =>
      obtain ⟨a, m'⟩ := v
      simp only [] at hx ⊢
      exact hf a m' k' hx
    | error e => simpa using hx

theorem postC_bind_lift {α β} {x : GoM α} {f : α → CostM β} {m : Meter} {k : Cost}
    {R : α → Meter → Prop} {Q : β → Meter → Cost → Prop} {E : Cost → Prop}
    (hp : Post' x m R) (he : E k) (hf : ∀ a m', R a m' → PostC (f a) m' k Q E) :
    PostC (liftC x >>= f) m k Q E := by
  refine postC_bind (R := fun a m' k' => R a m' ∧ k' = k) ?_ ?_
  · unfold PostC liftC
    unfold Post' at hp
    cases hx : x m with
    | ok v => obtain ⟨a, m'⟩ := v; rw [hx] at hp; exact ⟨hp, rfl⟩
    | error e => exact he
  · rintro a m' k' ⟨hr, hk⟩
    subst hk
    exact hf a m' hr

theorem postC_bind_call {α β} {c : Meter → Cost → Cost} {x : GoM α} {f : α → CostM β} {m : Meter} {k : Cost}
    {Q : β → Meter → Cost → Prop} {E : Cost → Prop}
    (he : ∀ e, x m = .error e → E (c m k))
    (hf : ∀ a m', x m = .ok (a, m') → PostC (f a) m' (c m k) Q E) : PostC (callC c x >>= f) m k Q E := by
  refine postC_bind (R := fun a m' k' => x m = .ok (a, m') ∧ k' = c m k) ?_ ?_
  · unfold PostC callC
    cases hx : x m with
    | ok v => obtain ⟨a, m'⟩ := v; exact ⟨rfl, rfl⟩
    | error e => exact he e hx
  · rintro a m' k' ⟨hr, hk⟩
    subst hk
    exact hf a m' hr

theorem postC_bind_tick {α} {x : CostM α} {m : Meter} {k : Cost} {Q : α → Meter → Cost → Prop} {E : Cost → Prop}
    (h : PostC x m { k with steps := k.steps + 1 } Q E) : PostC (tickC >>= fun _ => x) m k Q E := by
  refine postC_bind (R := fun _ m' k' => m' = m ∧ k' = { k with steps := k.steps + 1 }) ?_ ?_
  · exact ⟨rfl, rfl⟩
  · rintro _ m' k' ⟨hm, hk⟩
    subst hm hk
    exact h

theorem postC_bind_blk {α} {x : CostM α} {m : Meter} {k : Cost} {Q : α → Meter → Cost → Prop} {E : Cost → Prop}
    (h : PostC x m { k with blk := k.blk + 1 } Q E) : PostC (blkC >>= fun _ => x) m k Q E := by
  refine postC_bind (R := fun _ m' k' => m' = m ∧ k' = { k with blk := k.blk + 1 }) ?_ ?_
  · exact ⟨rfl, rfl⟩
  · rintro _ m' k' ⟨hm, hk⟩
    subst hm hk
    exact h

theorem postC_bind_dec {α} {n : Nat} {x : CostM α} {m : Meter} {k : Cost} {Q : α → Meter → Cost → Prop}
    {E : Cost → Prop} (h : PostC x m { k with dec := k.dec + n } Q E) : PostC (decC n >>= fun _ => x) m k Q E := by
  refine postC_bind (R := fun _ m' k' => m' = m ∧ k' = { k with dec := k.dec + n }) ?_ ?_
  · exact ⟨rfl, rfl⟩
  · rintro _ m' k' ⟨hm, hk⟩
    subst hm hk
    exact h

theorem postC_ite {α} {c : Prop} [Decidable c] {x y : CostM α} {m : Meter} {k : Cost}
    {Q : α → Meter → Cost → Prop} {E : Cost → Prop}
    (hx : c → PostC x m k Q E) (hy : ¬ c → PostC y m k Q E) : PostC (if c then x else y) m k Q E := by
  split
  · exact hx ‹_›
  · exact hy ‹_›

theorem postC_mono {α} {x : CostM α} {m : Meter} {k : Cost} {Q Q' : α → Meter → Cost → Prop} {E E' : Cost → Prop}
    (h : PostC x m k Q E) (hq : ∀ a m' k', Q a m' k' → Q' a m' k') (he : ∀ k', E k' → E' k') : PostC x m k Q' E' := by
  unfold PostC at *
  cases hx : x m k with
  | mk r k' =>
    rw [hx] at h
    cases r with
    | ok v => obtain ⟨a, m'⟩ := v; exact hq a m' k' h
    | error e => exact he k' h

/-- what a triple about the counting body says about the *model's* run and the cost function -/
theorem postC_model {α} {x : CostM α} {y : GoM α} {m : Meter} {k : Cost} {Q : α → Meter → Cost → Prop}
    {E : Cost → Prop} (hs : Sim x y) (hp : PostC x m k Q E) :
    (∀ a m', y m = .ok (a, m') → Q a m' (costOf x m k)) ∧ (∀ e, y m = .error e → E (costOf x m k)) := by
  unfold PostC at hp
  have h1 := hs m k
  unfold costOf
  cases hx : x m k with
  | mk r k' =>
    rw [hx] at hp h1
    simp only [] at h1
    constructor
    · intro a m' hy
      rw [← h1] at hy
      subst hy
      exact hp
    · intro e hy
      rw [← h1] at hy
      subst hy
      exact hp

/-- whatever happens, the cost satisfies what both `Q` and `E` imply -/
theorem postC_cost {α} {x : CostM α} {m : Meter} {k : Cost} {P : Cost → Prop}
    (hp : PostC x m k (fun _ _ k' => P k') P) : P (costOf x m k) := by
  unfold PostC at hp
  unfold costOf
  cases hx : x m k with
  | mk r k' =>
    rw [hx] at hp
    cases r with
    | ok v => obtain ⟨a, m'⟩ := v; exact hp
    | error e => exact hp

/-! ### the bounds -/

/-- a call that consumed `c` bytes (or had `c` in hand when it failed): it is paid by `2c + e`, and by the
    decoded bytes -/
def Bd (k k' : Cost) (c e : Nat) : Prop :=
  k'.steps + 1 + 2 * k.dec ≤ k.steps + 2 * c + e + 2 * k'.dec ∧ k.dec ≤ k'.dec

/-- a loop over a range of `r` bytes -/
def Ld (k k' : Cost) (r : Nat) : Prop :=
  k'.steps + 2 * k.dec ≤ k.steps + 2 * r + 2 * k'.dec ∧ k.dec ≤ k'.dec

/-- the file loop of a volume: one more step (a volume shorter than a file header still enters the loop once) -/
def Ld1 (k k' : Cost) (r : Nat) : Prop :=
  k'.steps + 2 * k.dec ≤ k.steps + 2 * r + 1 + 2 * k'.dec ∧ k.dec ≤ k'.dec

/-- the cost of `inner` on a decoded payload is a loop bound over that payload -/
def InnerBd (ic : InnerCost) : Prop :=
  ∀ enc st m k, enc.length < 2 ^ 63 → Ld k (ic enc st m k) enc.length

/-- the cost of the NVAR hook on `nb`: at most `2·|nb| + 3` steps, no decoding -/
def NvarBd (nc : NvarCost) : Prop :=
  ∀ nb pol m k, (nc nb pol m k).steps ≤ k.steps + 2 * nb.length + 3 ∧ (nc nb pol m k).dec = k.dec

theorem post'_copyOutG {site : String} {b : Bytes} {n : Nat} {m : Meter} {Q : Bytes → Meter → Prop}
    (hq : n ≤ b.length → ∀ m', Q (b.take n) m') : Post' (copyOutG site b n) m Q := by
  unfold copyOutG
  refine post'_bind (post'_sliceToG (fun hn => ?_))
  refine post'_bind (post'_allocG ?_)
  exact post'_pure (hq hn _)

theorem readBlocksC_post (length : Nat) : ∀ (fuel : Nat) (r : Bytes) (pos : Nat) (m : Meter) (k : Cost),
    PostC (readBlocksC length fuel r pos) m k (fun _ _ k' => k'.steps = k.steps ∧ k'.dec = k.dec)
      (fun k' => k'.steps = k.steps ∧ k'.dec = k.dec)
  | 0, r, pos, m, k => by
    rw [readBlocksC]
    refine postC_ite (fun _ => postC_err ⟨rfl, rfl⟩) (fun _ => ?_)
    exact ⟨rfl, rfl⟩
  | fuel+1, r, pos, m, k => by
    rw [readBlocksC]
    refine postC_ite (fun _ => postC_err ⟨rfl, rfl⟩) (fun _ => ?_)
    simp only []
    refine postC_bind_blk ?_
    refine postC_bind_lift (R := fun _ _ => True) (post'_binaryReadG (fun _ => trivial)) ⟨rfl, rfl⟩ ?_
    rintro ⟨e, r'⟩ m1 _
    simp only []
    refine postC_ite (fun _ => postC_pure ⟨rfl, rfl⟩) (fun _ => ?_)
    refine postC_bind_lift (R := fun _ _ => True) (post'_allocG trivial) ⟨rfl, rfl⟩ ?_
    intro _ m2 _
    refine postC_bind (readBlocksC_post length fuel r' (pos + 8) m2 _) ?_
    intro rest m3 k3 hk3
    exact postC_pure hk3

/-! ### one induction step per function -/

def SecCQ (buf : Bytes) (k : Cost) (r : Section × St) (k' : Cost) : Prop :=
  Bd k k' (max r.1.info.extSize 1) 0 ∧ r.1.info.extSize ≤ buf.length

def FvCQ (data : Bytes) (k : Cost) (r : Fv × St) (k' : Cost) : Prop :=
  Bd k k' r.1.info.length 3 ∧ r.1.info.length ≤ data.length

theorem sectionC_step (h : HooksG) (inner : Inner) (ic : InnerCost) (nc : NvarCost) (fuel : Nat)
    (hic : InnerBd ic) (hcodec : CodecBounded h)
    (ihFv : ∀ data o r st m k, data.length < 2^63 → 5 * data.length + 4 < fuel →
       PostC (fvC h inner ic nc fuel data o r st) m k (fun x _ k' => FvCQ data k x k') (fun k' => Bd k k' data.length 3))
    (buf : Bytes) (order : Nat) (st : St) (m : Meter) (k : Cost)
    (hb : buf.length < 2^63) (h1 : 1 ≤ buf.length) (hf : 5 * buf.length < fuel + 1) :
    PostC (sectionC h inner ic nc (fuel+1) buf order st) m k (fun r _ k' => SecCQ buf k r k')
      (fun k' => Bd k k' buf.length 0) := by
  rw [sectionC]
  refine postC_bind_tick ?_
  have hE : Bd k { k with steps := k.steps + 1 } buf.length 0 := by
    simp only [Bd]; omega
  have hQ : ∀ ext, ext ≤ buf.length → Bd k { k with steps := k.steps + 1 } (max ext 1) 0 ∧ ext ≤ buf.length := by
    intro ext he
    simp only [Bd]; omega
  refine postC_bind_lift (R := fun _ _ => True) (post'_binaryReadG (fun _ => trivial)) hE ?_
  rintro ⟨hb4, r1⟩ m1 _
  simp only []
  refine postC_bind_lift (R := fun r _ => r.2.1 = 4 ∨ r.2.1 = 8) ?_ hE ?_
  · split
    · split
      · refine post'_bind (post'_binaryReadG (fun _ => ?_))
        simp only []
        split
        · exact post'_err
        · exact post'_pure (Or.inr rfl)
      · exact post'_pure (Or.inl rfl)
    · exact post'_pure (Or.inl rfl)
  rintro ⟨ext, hs, r2⟩ m2 hhs
  simp only [] at hhs ⊢
  refine postC_ite (fun _ => postC_err hE) (fun hext => ?_)
  have hext' : ext ≤ buf.length := by omega
  refine postC_bind_lift (R := fun r _ => r = buf.take ext) (post'_copyOutG (fun _ _ => rfl)) hE ?_
  intro sbuf m3 hsb
  subst hsb
  have hlen : (buf.take ext).length = ext := by simp; omega
  refine postC_ite (fun _ => ?_) (fun _ => ?_)
  · -- GUID defined
    refine postC_bind_lift (R := fun _ _ => True) (post'_binaryReadG (fun _ => trivial)) hE ?_
    rintro ⟨tb, _⟩ m4 _
    simp only []
    refine postC_ite (fun _ => ?_) (fun _ => postC_pure (hQ ext hext'))
    split
    · rename_i c hc
      refine postC_ite (fun _ => postC_err hE) (fun _ => ?_)
      refine postC_bind_lift (R := fun _ _ => True) (post'_sliceFromG trivial) hE ?_
      intro payload m5 _
      refine postC_bind_lift (R := fun r _ => ∀ out, r = some out → out.length < 2^63) ?_ hE ?_
      · split
        · exact post'_pure (by simp)
        · refine post'_bind (post'_sliceFromG ?_)
          exact post'_of_post (hcodec _ c _ _ hc)
      intro dec m6 hdec
      split
      · rename_i enc
        refine postC_bind_dec ?_
        have hL := hic enc st m6 { steps := k.steps + 1, blk := k.blk, dec := k.dec + enc.length } (hdec enc rfl)
        obtain ⟨hL1, hL2⟩ := hL
        simp only [] at hL1 hL2
        refine postC_bind_call (fun e _ => ?_) (fun r m7 _ => ?_)
        · simp only [Bd]; omega
        · split
          · exact postC_pure ⟨by simp only [Bd, Section.info]; omega, by simpa [Section.info] using hext'⟩
          · exact postC_pure ⟨by simp only [Bd, Section.info]; omega, by simpa [Section.info] using hext'⟩
      · exact postC_pure (hQ ext hext')
    · exact postC_pure (hQ ext hext')
  · refine postC_ite (fun _ => ?_) (fun _ => ?_)
    · -- UI
      refine postC_ite (fun _ => postC_err hE) (fun _ => ?_)
      refine postC_bind_lift (R := fun _ _ => True) (post'_sliceFromG trivial) hE ?_
      intro nb m4 _
      refine postC_bind_lift (R := fun _ _ => True) (post'_of_post (post_mono (post_ucs2 _ _) (fun _ _ _ => trivial))) hE ?_
      intro name m5 _
      exact postC_pure (hQ ext hext')
    · refine postC_ite (fun _ => ?_) (fun _ => ?_)
      · -- version
        refine postC_ite (fun _ => postC_err hE) (fun _ => ?_)
        refine postC_bind_lift (R := fun _ _ => True) (post'_sliceG trivial) hE ?_
        intro bn m4 _
        refine postC_bind_lift (R := fun _ _ => True) (post'_sliceFromG trivial) hE ?_
        intro vb m5 _
        refine postC_bind_lift (R := fun _ _ => True) (post'_of_post (post_mono (post_ucs2 _ _) (fun _ _ _ => trivial))) hE ?_
        intro ver m6 _
        exact postC_pure (hQ ext hext')
      · refine postC_ite (fun _ => ?_) (fun _ => ?_)
        · -- volume image
          refine postC_ite (fun _ => postC_err hE) (fun hvi => ?_)
          refine postC_bind_lift (R := fun r _ => r = (buf.take ext).drop hs) (post'_sliceFromG rfl) hE ?_
          intro vb m4 hvb
          subst hvb
          have hvl : ((buf.take ext).drop hs).length = ext - hs := by simp; omega
          have ih := ihFv ((buf.take ext).drop hs) 0 true st m4 { k with steps := k.steps + 1 }
            (by rw [hvl]; omega) (by rw [hvl]; omega)
          obtain ⟨ihok, iherr⟩ := postC_model (fv_sim h inner ic nc fuel _ 0 true st) ih
          refine postC_bind_call (fun e he => ?_) (fun r m5 hr => ?_)
          · have := iherr e he
            rw [hvl] at this
            simp only [Bd] at this ⊢
            omega
          · obtain ⟨fv, st'⟩ := r
            have := ihok (fv, st') m5 hr
            simp only [FvCQ] at this
            rw [hvl] at this
            refine postC_pure ⟨?_, by simpa [Section.info] using hext'⟩
            simp only [Bd, Section.info] at this ⊢
            omega
        · refine postC_ite (fun _ => ?_) (fun _ => postC_pure (hQ ext hext'))
          refine postC_ite (fun _ => postC_err hE) (fun _ => ?_)
          refine postC_bind_lift (R := fun _ _ => True) (post'_sliceFromG trivial) hE ?_
          intro db m4 _
          split <;> exact postC_pure (hQ ext hext')

theorem sectionsC_step (h : HooksG) (inner : Inner) (ic : InnerCost) (nc : NvarCost) (fuel : Nat)
    (ihSec : ∀ buf order st m k, buf.length < 2^63 → 1 ≤ buf.length → 5 * buf.length < fuel →
       PostC (sectionC h inner ic nc fuel buf order st) m k (fun r _ k' => SecCQ buf k r k') (fun k' => Bd k k' buf.length 0))
    (ihSecs : ∀ fbuf offset ext idx st m k, fbuf.length < 2^63 → ext ≤ fbuf.length → 5 * (fbuf.length - offset) + 1 < fuel →
       PostC (sectionsC h inner ic nc fuel fbuf offset ext idx st) m k (fun _ _ k' => Ld k k' (fbuf.length - offset))
         (fun k' => Ld k k' (fbuf.length - offset)))
    (fbuf : Bytes) (offset ext idx : Nat) (st : St) (m : Meter) (k : Cost)
    (hb : fbuf.length < 2^63) (he : ext ≤ fbuf.length) (hf : 5 * (fbuf.length - offset) + 1 < fuel + 1) :
    PostC (sectionsC h inner ic nc (fuel+1) fbuf offset ext idx st) m k (fun _ _ k' => Ld k k' (fbuf.length - offset))
      (fun k' => Ld k k' (fbuf.length - offset)) := by
  rw [sectionsC]
  refine postC_ite (fun hlt => ?_) (fun _ => postC_pure (by simp only [Ld]; omega))
  simp only []
  refine postC_bind_tick ?_
  have hE : Ld k { k with steps := k.steps + 1 } (fbuf.length - offset) := by simp only [Ld]; omega
  refine postC_bind_lift (R := fun r _ => r = fbuf.drop offset) (post'_sliceFromG rfl) hE ?_
  intro sb m1 hsb
  subst hsb
  have hl : (fbuf.drop offset).length = fbuf.length - offset := by simp
  have ih := ihSec (fbuf.drop offset) idx st m1 { k with steps := k.steps + 1 } (by rw [hl]; omega) (by rw [hl]; omega)
    (by rw [hl]; omega)
  obtain ⟨ihok, iherr⟩ := postC_model (section_sim h inner ic nc fuel _ idx st) ih
  refine postC_bind_call (fun e hee => ?_) (fun r m2 hr => ?_)
  · have := iherr e hee
    rw [hl] at this
    simp only [Bd, Ld] at this ⊢
    omega
  · obtain ⟨s, st'⟩ := r
    have hs := ihok (s, st') m2 hr
    simp only [SecCQ] at hs
    rw [hl] at hs
    obtain ⟨hbd, hsz⟩ := hs
    simp only []
    refine postC_ite (fun _ => postC_err ?_) (fun hnz => ?_)
    · simp only [Bd, Ld] at hbd ⊢; omega
    · have hge := align4G_ge (offset + s.info.extSize) (by omega)
      have hrec := ihSecs fbuf (align4G (offset + s.info.extSize)) ext (idx + 1) st' m2
        (costOf (sectionC h inner ic nc fuel (List.drop offset fbuf) idx st) m1 { k with steps := k.steps + 1 })
        hb he (by omega)
      have hconv : ∀ k3, Ld (costOf (sectionC h inner ic nc fuel (List.drop offset fbuf) idx st) m1
            { k with steps := k.steps + 1 }) k3 (fbuf.length - align4G (offset + s.info.extSize)) →
          Ld k k3 (fbuf.length - offset) := by
        intro k3 hk3
        simp only [Bd, Ld] at hbd hk3 ⊢
        omega
      refine postC_bind (postC_mono hrec (fun _ _ k3 hk3 => hconv k3 hk3) (fun k3 hk3 => hconv k3 hk3)) ?_
      intro r3 m3 k3 hk3
      obtain ⟨ss, st''⟩ := r3
      exact postC_pure hk3

def FileCQ (buf : Bytes) (k : Cost) (r : Option File × St) (k' : Cost) : Prop :=
  match r.1 with
  | some f => Bd k k' (max f.info.extSize 1) 0 ∧ f.info.extSize ≤ buf.length
  | none => Bd k k' 1 0

theorem fileC_step (h : HooksG) (inner : Inner) (ic : InnerCost) (nc : NvarCost) (hnc : NvarBd nc) (fuel : Nat)
    (ihSecs : ∀ fbuf offset ext idx st m k, fbuf.length < 2^63 → ext ≤ fbuf.length → 5 * (fbuf.length - offset) + 1 < fuel →
       PostC (sectionsC h inner ic nc fuel fbuf offset ext idx st) m k (fun _ _ k' => Ld k k' (fbuf.length - offset))
         (fun k' => Ld k k' (fbuf.length - offset)))
    (buf : Bytes) (st : St) (m : Meter) (k : Cost) (hb : buf.length < 2^63) (h1 : 1 ≤ buf.length)
    (hf : 5 * buf.length + 2 < fuel + 1) :
    PostC (fileC h inner ic nc (fuel+1) buf st) m k (fun r _ k' => FileCQ buf k r k') (fun k' => Bd k k' buf.length 0) := by
  rw [fileC]
  refine postC_bind_tick ?_
  have hE : Bd k { k with steps := k.steps + 1 } buf.length 0 := by simp only [Bd]; omega
  refine postC_bind_lift (R := fun _ _ => True) (post'_binaryReadG (fun _ => trivial)) hE ?_
  rintro ⟨hb24, r1⟩ m1 _
  simp only []
  refine postC_bind_lift (R := fun r _ => match r with
      | some i => (i.dataOffset = 24 ∨ i.dataOffset = 32) ∧ i.type = rd hb24 18 1 | none => True) ?_ hE ?_
  · split
    · split
      · refine post'_bind (post'_sliceToG (fun _ => ?_))
        split
        · exact post'_pure trivial
        · exact post'_err
      · refine post'_bind (post'_binaryReadG (fun _ => ?_))
        simp only []
        split
        · exact post'_pure trivial
        · exact post'_pure ⟨Or.inr rfl, rfl⟩
    · exact post'_pure ⟨Or.inl rfl, rfl⟩
  intro hr m2 hdo
  split
  · exact postC_pure (by simp only [FileCQ, Bd]; omega)
  · rename_i i
    simp only [] at hdo
    obtain ⟨hdo, hty⟩ := hdo
    refine postC_ite (fun _ => postC_err hE) (fun hext => ?_)
    have hext' : i.extSize ≤ buf.length := by omega
    refine postC_bind_lift (R := fun r _ => r = buf.take i.extSize) (post'_copyOutG (fun _ _ => rfl)) hE ?_
    intro fbuf m3 hfb
    subst hfb
    have hlen : (buf.take i.extSize).length = i.extSize := by simp; omega
    -- the NVAR hook: RAW files only, and RAW files have no sections
    refine postC_bind (R := fun _ _ k' => k'.dec = k.dec ∧
        ((rd hb24 18 1 = 1 ∧ k'.steps ≤ k.steps + 1 + 2 * (i.extSize - 24) + 3 ∧ 24 < i.extSize) ∨
         (k'.steps = k.steps + 1))) ?_ ?_
    · refine postC_ite (fun hnv => ?_) (fun _ => postC_pure ⟨rfl, Or.inr rfl⟩)
      refine postC_ite (fun _ => postC_err hE) (fun hdl => ?_)
      refine postC_bind_lift (R := fun r _ => r = (buf.take i.extSize).drop i.dataOffset) (post'_sliceFromG rfl) hE ?_
      intro nb m4 hnb
      subst hnb
      have hnl : ((buf.take i.extSize).drop i.dataOffset).length = i.extSize - i.dataOffset := by simp; omega
      have hcost := hnc ((buf.take i.extSize).drop i.dataOffset) st.pol m4 { k with steps := k.steps + 1 }
      rw [hnl] at hcost
      simp only [] at hcost
      unfold PostC callC
      rw [hlen] at hdl
      cases hx : h.nvar (List.drop i.dataOffset (List.take i.extSize buf)) st.pol m4 with
      | ok v =>
        obtain ⟨a, m'⟩ := v
        simp only []
        exact ⟨hcost.2, Or.inl ⟨hnv.1, by omega, by omega⟩⟩
      | error e =>
        simp only [Bd]
        omega
    · intro nvs m4 k4 ⟨hk4d, hk4⟩
      refine postC_ite (fun _ => postC_pure ?_) (fun hsup => ?_)
      · simp only [FileCQ, File.info, Bd]
        refine ⟨?_, hext'⟩
        rcases hk4 with ⟨_, hs, hlt⟩ | hs <;> omega
      · -- sections: not a RAW file
        have hsteps : k4.steps = k.steps + 1 := by
          rcases hk4 with ⟨ht1, _, _⟩ | hs
          · exfalso
            have : supportedFile (rd hb24 18 1) = false := by rw [ht1]; decide
            simp [this] at hsup
          · exact hs
        have hrec := ihSecs (buf.take i.extSize) i.dataOffset i.extSize 0 st m4 k4 (by rw [hlen]; omega)
          (by rw [hlen]; omega) (by rw [hlen]; omega)
        rw [hlen] at hrec
        have hconv : ∀ k5, Ld k4 k5 (i.extSize - i.dataOffset) → Bd k k5 (max i.extSize 1) 0 := by
          intro k5 hk5
          simp only [Bd, Ld] at hk5 ⊢
          omega
        refine postC_bind (postC_mono hrec (fun _ _ k5 hk5 => hconv k5 hk5) (fun k5 hk5 => ?_)) ?_
        · have := hconv k5 hk5
          simp only [Bd] at this ⊢
          omega
        · intro r5 m5 k5 hk5
          obtain ⟨ss, st'⟩ := r5
          refine postC_pure ?_
          simp only [FileCQ, File.info]
          exact ⟨hk5, hext'⟩

theorem filesC_step (h : HooksG) (inner : Inner) (ic : InnerCost) (nc : NvarCost) (fuel : Nat)
    (ihFile : ∀ buf st m k, buf.length < 2^63 → 1 ≤ buf.length → 5 * buf.length + 2 < fuel →
       PostC (fileC h inner ic nc fuel buf st) m k (fun r _ k' => FileCQ buf k r k') (fun k' => Bd k k' buf.length 0))
    (ihFiles : ∀ data offset lh length st m k, data.length < 2^63 → offset < 2^63 → 5 * (data.length - offset) + 3 < fuel →
       PostC (filesC h inner ic nc fuel data offset lh length st) m k (fun _ _ k' => Ld1 k k' (data.length - offset))
         (fun k' => Ld1 k k' (data.length - offset)))
    (data : Bytes) (offset lh length : Nat) (st : St) (m : Meter) (k : Cost)
    (hb : data.length < 2^63) (ho : offset < 2^63) (hf : 5 * (data.length - offset) + 3 < fuel + 1) :
    PostC (filesC h inner ic nc (fuel+1) data offset lh length st) m k (fun _ _ k' => Ld1 k k' (data.length - offset))
      (fun k' => Ld1 k k' (data.length - offset)) := by
  rw [filesC]
  refine postC_ite (fun _ => ?_) (fun _ => postC_pure (by simp only [Ld1]; omega))
  simp only []
  have hge := align8G_ge offset (by omega)
  refine postC_bind_tick ?_
  refine postC_ite (fun _ => postC_err (by simp only [Ld1]; omega)) (fun hlt => ?_)
  have hE : Ld1 k { k with steps := k.steps + 1 } (data.length - offset) := by simp only [Ld1]; omega
  refine postC_bind_lift (R := fun r _ => r = data.drop (align8G offset)) (post'_sliceFromG rfl) hE ?_
  intro fb m1 hfb
  subst hfb
  have hl : (data.drop (align8G offset)).length = data.length - align8G offset := by simp
  have ih := ihFile (data.drop (align8G offset)) st m1 { k with steps := k.steps + 1 } (by rw [hl]; omega)
    (by rw [hl]; omega) (by rw [hl]; omega)
  obtain ⟨ihok, iherr⟩ := postC_model (file_sim h inner ic nc fuel _ st) ih
  refine postC_bind_call (fun e hee => ?_) (fun r m2 hr => ?_)
  · have := iherr e hee
    rw [hl] at this
    simp only [Bd, Ld1] at this ⊢
    omega
  · obtain ⟨fo, st'⟩ := r
    have hq := ihok (fo, st') m2 hr
    simp only [FileCQ] at hq
    simp only []
    split
    · refine postC_pure ?_
      simp only [] at hq
      simp only [Bd, Ld1] at hq ⊢
      omega
    · rename_i f
      simp only [] at hq
      rw [hl] at hq
      obtain ⟨hbd, hsz⟩ := hq
      refine postC_ite (fun _ => postC_err ?_) (fun hnz => ?_)
      · simp only [Bd, Ld1] at hbd ⊢; omega
      · have hrec := ihFiles data (align8G offset + f.info.extSize) lh length st' m2
          (costOf (fileC h inner ic nc fuel (List.drop (align8G offset) data) st) m1 { k with steps := k.steps + 1 })
          hb (by omega) (by omega)
        have hconv : ∀ k3, Ld1 (costOf (fileC h inner ic nc fuel (List.drop (align8G offset) data) st) m1
              { k with steps := k.steps + 1 }) k3 (data.length - (align8G offset + f.info.extSize)) →
            Ld1 k k3 (data.length - offset) := by
          intro k3 hk3
          simp only [Bd, Ld1] at hbd hk3 ⊢
          omega
        refine postC_bind (postC_mono hrec (fun _ _ k3 hk3 => hconv k3 hk3) (fun k3 hk3 => hconv k3 hk3)) ?_
        intro r3 m3 k3 hk3
        obtain ⟨fs, free, st''⟩ := r3
        exact postC_pure hk3

theorem fvC_step (h : HooksG) (inner : Inner) (ic : InnerCost) (nc : NvarCost) (fuel : Nat)
    (ihFiles : ∀ data offset lh length st m k, data.length < 2^63 → offset < 2^63 → 5 * (data.length - offset) + 3 < fuel →
       PostC (filesC h inner ic nc fuel data offset lh length st) m k (fun _ _ k' => Ld1 k k' (data.length - offset))
         (fun k' => Ld1 k k' (data.length - offset)))
    (data : Bytes) (fvOffset : Nat) (resizable : Bool) (st : St) (m : Meter) (k : Cost)
    (hb : data.length < 2^63) (hf : 5 * data.length + 4 < fuel + 1) :
    PostC (fvC h inner ic nc (fuel+1) data fvOffset resizable st) m k (fun r _ k' => FvCQ data k r k')
      (fun k' => Bd k k' data.length 3) := by
  rw [fvC]
  refine postC_bind_tick ?_
  have hE : Bd k { k with steps := k.steps + 1 } data.length 3 := by simp only [Bd]; omega
  refine postC_ite (fun _ => postC_err hE) (fun h64 => ?_)
  refine postC_bind_lift (R := fun r _ => r.1 = data.take 56) (post'_binaryReadG (fun _ => rfl)) hE ?_
  rintro ⟨hd, r1⟩ m1 hhd
  simp only [] at hhd ⊢
  subst hhd
  refine postC_bind (postC_mono (readBlocksC_post _ _ r1 56 m1 _)
    (fun _ _ k2 (hk2 : k2.steps = k.steps + 1 ∧ k2.dec = k.dec) => hk2) (fun k2 hk2 => ?_)) ?_
  · simp only [Bd] at hk2 ⊢; omega
  intro blocks m2 k2 ⟨hk2s, hk2d⟩
  have hE2 : Bd k k2 data.length 3 := by simp only [Bd]; omega
  split
  · exact postC_err hE2
  · rename_i st1 _
    refine postC_ite (fun _ => postC_err hE2) (fun hlen => ?_)
    have he : rd (List.take 56 data) 52 2 < 65536 := rd_lt _ _ _
    have hh : rd (List.take 56 data) 48 2 < 65536 := rd_lt _ _ _
    refine postC_bind_lift (R := fun r _ => r.2 < 4294967296) ?_ hE2 ?_
    · split
      · refine post'_bind (post'_sliceFromG ?_)
        refine post'_bind (post'_binaryReadG (fun h20 => ?_))
        simp only []
        refine post'_pure ?_
        have := fromLE_lt (List.drop 16 (List.take 20 (List.drop (rd (List.take 56 data) 52 2) data)))
        have hl : (List.drop 16 (List.take 20 (List.drop (rd (List.take 56 data) 52 2) data))).length ≤ 4 := by
          simp; omega
        exact Nat.lt_of_lt_of_le this (by
          have : (256:Nat) ^ 4 = 4294967296 := by decide
          rw [← this]; exact Nat.pow_le_pow_right (by omega) hl)
      · exact post'_pure (by decide)
    rintro ⟨fvName, ehs⟩ m3 hehs
    simp only [] at hehs ⊢
    refine postC_bind_lift (R := fun _ _ => True) (post'_copyOutG (fun _ _ => trivial)) hE2 ?_
    intro fbuf m4 _
    have hL : rd (List.take 56 data) 32 8 ≤ data.length := by omega
    refine postC_ite (fun _ => postC_pure ?_) (fun _ => ?_)
    · simp only [FvCQ, Fv.info, Bd]
      omega
    · refine postC_bind_lift (R := fun r _ => r = data.take (rd (List.take 56 data) 32 8)) (post'_sliceToG (fun _ => rfl)) hE2 ?_
      intro clipped m5 hcl
      subst hcl
      have htl : (data.take (rd (List.take 56 data) 32 8)).length = rd (List.take 56 data) 32 8 := by simp; omega
      have hdo : align8G (if (decide (rd (List.take 56 data) 52 2 ≠ 0 ∧ rd (List.take 56 data) 32 8 ≥ 20 ∧
            rd (List.take 56 data) 52 2 ≤ rd (List.take 56 data) 32 8 - 20)) = true
          then rd (List.take 56 data) 52 2 + ehs else rd (List.take 56 data) 48 2) < 2 ^ 63 := by
        split
        · have := align8G_le (rd (List.take 56 data) 52 2 + ehs) (by omega); omega
        · have := align8G_le (rd (List.take 56 data) 48 2) (by omega); omega
      have hrec := ihFiles (data.take (rd (List.take 56 data) 32 8)) _ ((rd (List.take 56 data) 32 8 + 18446744073709551616 - 24) % 18446744073709551616)
        (rd (List.take 56 data) 32 8) st1 m5 k2 (by rw [htl]; omega) hdo (by rw [htl]; omega)
      rw [htl] at hrec
      have hconv : ∀ k3 d, Ld1 k2 k3 (rd (List.take 56 data) 32 8 - d) → Bd k k3 (rd (List.take 56 data) 32 8) 3 := by
        intro k3 d hk3
        simp only [Bd, Ld1] at hk3 ⊢
        omega
      refine postC_bind (postC_mono hrec (fun _ _ k3 hk3 => hconv k3 _ hk3) (fun k3 hk3 => ?_)) ?_
      · have := hconv k3 _ hk3
        simp only [Bd] at this ⊢
        omega
      · intro r6 m6 k6 hk6
        obtain ⟨fs, free, st'⟩ := r6
        refine postC_pure ?_
        simp only [FvCQ, Fv.info]
        exact ⟨hk6, hL⟩

/-- the mutual induction: the step bounds of all five parsers -/
theorem mutual_cost (h : HooksG) (inner : Inner) (ic : InnerCost) (nc : NvarCost)
    (hic : InnerBd ic) (hnc : NvarBd nc) (hcodec : CodecBounded h) : ∀ fuel,
    (∀ buf order st m k, buf.length < 2^63 → 1 ≤ buf.length → 5 * buf.length < fuel →
       PostC (sectionC h inner ic nc fuel buf order st) m k (fun r _ k' => SecCQ buf k r k') (fun k' => Bd k k' buf.length 0)) ∧
    (∀ fbuf offset ext idx st m k, fbuf.length < 2^63 → ext ≤ fbuf.length → 5 * (fbuf.length - offset) + 1 < fuel →
       PostC (sectionsC h inner ic nc fuel fbuf offset ext idx st) m k (fun _ _ k' => Ld k k' (fbuf.length - offset))
         (fun k' => Ld k k' (fbuf.length - offset))) ∧
    (∀ buf st m k, buf.length < 2^63 → 1 ≤ buf.length → 5 * buf.length + 2 < fuel →
       PostC (fileC h inner ic nc fuel buf st) m k (fun r _ k' => FileCQ buf k r k') (fun k' => Bd k k' buf.length 0)) ∧
    (∀ data offset lh length st m k, data.length < 2^63 → offset < 2^63 → 5 * (data.length - offset) + 3 < fuel →
       PostC (filesC h inner ic nc fuel data offset lh length st) m k (fun _ _ k' => Ld1 k k' (data.length - offset))
         (fun k' => Ld1 k k' (data.length - offset))) ∧
    (∀ data o r st m k, data.length < 2^63 → 5 * data.length + 4 < fuel →
       PostC (fvC h inner ic nc fuel data o r st) m k (fun x _ k' => FvCQ data k x k') (fun k' => Bd k k' data.length 3)) := by
  intro fuel
  induction fuel with
  | zero => refine ⟨?_, ?_, ?_, ?_, ?_⟩ <;> intros <;> omega
  | succ fuel ih =>
    obtain ⟨ihSec, ihSecs, ihFile, ihFiles, ihFv⟩ := ih
    refine ⟨?_, ?_, ?_, ?_, ?_⟩
    · intro buf order st m k hb h1 hf
      exact sectionC_step h inner ic nc fuel hic hcodec ihFv buf order st m k hb h1 (by omega)
    · intro fbuf offset ext idx st m k hb he hf
      exact sectionsC_step h inner ic nc fuel ihSec ihSecs fbuf offset ext idx st m k hb he hf
    · intro buf st m k hb h1 hf
      exact fileC_step h inner ic nc hnc fuel ihSecs buf st m k hb h1 hf
    · intro data offset lh length st m k hb ho hf
      exact filesC_step h inner ic nc fuel ihFile ihFiles data offset lh length st m k hb ho hf
    · intro data o r st m k hb hf
      exact fvC_step h inner ic nc fuel ihFiles data o r st m k hb hf

/-! ### decoded payloads -/

/-- what the loop over a decoded payload needs of the section parser it calls and of its cost function -/
def SecCostOk (sec : Bytes → Nat → St → GoM (Section × St)) (sc : Bytes → Nat → St → Meter → Cost → Cost) : Prop :=
  ∀ sb idx st m k, sb.length < 2^63 → 1 ≤ sb.length →
    (∀ r m', sec sb idx st m = .ok (r, m') → SecCQ sb k r (sc sb idx st m k)) ∧
    (∀ e, sec sb idx st m = .error e → Bd k (sc sb idx st m k) sb.length 0)

theorem encapLoopC_post (sec : Bytes → Nat → St → GoM (Section × St)) (sc : Bytes → Nat → St → Meter → Cost → Cost)
    (hsec : SecCostOk sec sc) : ∀ (fuel : Nat) (enc : Bytes) (offset idx : Nat) (st : St) (m : Meter) (k : Cost),
    enc.length < 2^63 → enc.length - offset < fuel →
    PostC (encapLoopC sec sc fuel enc offset idx st) m k (fun _ _ k' => Ld k k' (enc.length - offset))
      (fun k' => Ld k k' (enc.length - offset))
  | 0, enc, offset, idx, st, m, k, hb, hf => by omega
  | fuel+1, enc, offset, idx, st, m, k, hb, hf => by
    rw [encapLoopC]
    refine postC_ite (fun hlt => ?_) (fun _ => postC_pure (by simp only [Ld]; omega))
    simp only []
    refine postC_bind_tick ?_
    have hE : Ld k { k with steps := k.steps + 1 } (enc.length - offset) := by simp only [Ld]; omega
    refine postC_bind_lift (R := fun r _ => r = enc.drop offset) (post'_sliceFromG rfl) hE ?_
    intro sb m1 hsb
    subst hsb
    have hl : (enc.drop offset).length = enc.length - offset := by simp
    obtain ⟨ihok, iherr⟩ := hsec (enc.drop offset) idx st m1 { k with steps := k.steps + 1 } (by rw [hl]; omega)
      (by rw [hl]; omega)
    refine postC_bind_call (fun e hee => ?_) (fun r m2 hr => ?_)
    · have := iherr e hee
      rw [hl] at this
      simp only [Bd, Ld] at this ⊢
      omega
    · obtain ⟨s, st'⟩ := r
      have hs := ihok (s, st') m2 hr
      simp only [SecCQ] at hs
      rw [hl] at hs
      obtain ⟨hbd, hsz⟩ := hs
      simp only []
      refine postC_ite (fun _ => postC_err ?_) (fun hnz => ?_)
      · simp only [Bd, Ld] at hbd ⊢; omega
      · have hge := align4G_ge (offset + s.info.extSize) (by omega)
        have hrec := encapLoopC_post sec sc hsec fuel enc (align4G (offset + s.info.extSize)) (idx + 1) st' m2
          (sc (List.drop offset enc) idx st m1 { k with steps := k.steps + 1 }) hb (by omega)
        have hconv : ∀ k3, Ld (sc (List.drop offset enc) idx st m1 { k with steps := k.steps + 1 }) k3
              (enc.length - align4G (offset + s.info.extSize)) → Ld k k3 (enc.length - offset) := by
          intro k3 hk3
          simp only [Bd, Ld] at hbd hk3 ⊢
          omega
        refine postC_bind (postC_mono hrec (fun _ _ k3 hk3 => hconv k3 hk3) (fun k3 hk3 => hconv k3 hk3)) ?_
        intro r3 m3 k3 hk3
        obtain ⟨ns, st''⟩ := r3
        exact postC_pure hk3

/-- the section parser at its own fuel, with its cost function: what `encapLoopC` and the entry points need -/
theorem secCostOk_of (h : HooksG) (inner : Inner) (ic : InnerCost) (nc : NvarCost)
    (hic : InnerBd ic) (hnc : NvarBd nc) (hcodec : CodecBounded h) :
    SecCostOk (fun sb idx st => parseSectionG h inner (fuelFor sb) sb idx st)
      (fun sb idx st => costOf (sectionC h inner ic nc (fuelFor sb) sb idx st)) := by
  intro sb idx st m k hb h1
  have := (mutual_cost h inner ic nc hic hnc hcodec (fuelFor sb)).1 sb idx st m k hb h1 (by unfold fuelFor; omega)
  exact postC_model (section_sim h inner ic nc (fuelFor sb) sb idx st) this

theorem innerCostZ_bd (h : HooksG) (nc : NvarCost) (hnc : NvarBd nc) (hcodec : CodecBounded h) :
    ∀ z, InnerBd (innerCostZ h nc z)
  | 0 => by
    intro enc st m k _
    simp only [innerCostZ, Ld]
    omega
  | z+1 => by
    intro enc st m k hb
    rw [innerCostZ]
    have hsec := secCostOk_of h (innerZ h z) (innerCostZ h nc z) nc (innerCostZ_bd h nc hnc hcodec z) hnc hcodec
    have := encapLoopC_post _ _ hsec (enc.length + 1) enc 0 0 st m k hb (by omega)
    have hc := postC_cost (P := fun k' => Ld k k' (enc.length - 0)) this
    simpa using hc

/-! ### the entry points: `steps ≤ 2·|buf| + 2·dec + 3` on every run -/

/-- **NewSection**: on every run (value, error or fault) at most `2·|buf| + 2·dec + 1` steps -/
theorem newSectionCost_le (h : HooksG) (nc : NvarCost) (hnc : NvarBd nc) (hcodec : CodecBounded h) (z : Nat)
    (buf : Bytes) (order : Nat) (st : St) (m : Meter) (hb : buf.length < 2^63) (h1 : 1 ≤ buf.length) :
    (newSectionCost h nc z buf order st m).steps ≤ 2 * buf.length + 2 * (newSectionCost h nc z buf order st m).dec := by
  unfold newSectionCost
  have := (mutual_cost h (innerZ h z) (innerCostZ h nc z) nc (innerCostZ_bd h nc hnc hcodec z) hnc hcodec (fuelFor buf)).1
    buf order st m {} hb h1 (by unfold fuelFor; omega)
  have hc := postC_cost (P := fun k' => Bd {} k' buf.length 0) (postC_mono this (fun r _ k' hq => ?_) (fun _ he => he))
  · simp only [Bd] at hc
    omega
  · simp only [SecCQ, Bd] at hq ⊢
    omega

/-- **NewFile** -/
theorem newFileCost_le (h : HooksG) (nc : NvarCost) (hnc : NvarBd nc) (hcodec : CodecBounded h) (z : Nat)
    (buf : Bytes) (st : St) (m : Meter) (hb : buf.length < 2^63) (h1 : 1 ≤ buf.length) :
    (newFileCost h nc z buf st m).steps ≤ 2 * buf.length + 2 * (newFileCost h nc z buf st m).dec := by
  unfold newFileCost
  have := (mutual_cost h (innerZ h z) (innerCostZ h nc z) nc (innerCostZ_bd h nc hnc hcodec z) hnc hcodec (fuelFor buf)).2.2.1
    buf st m {} hb h1 (by unfold fuelFor; omega)
  have hc := postC_cost (P := fun k' => Bd {} k' buf.length 0) (postC_mono this (fun r _ k' hq => ?_) (fun _ he => he))
  · simp only [Bd] at hc
    omega
  · simp only [FileCQ] at hq
    split at hq
    · simp only [Bd] at hq ⊢; omega
    · simp only [Bd] at hq ⊢; omega

/-- **NewFirmwareVolume** -/
theorem newFvCost_le (h : HooksG) (nc : NvarCost) (hnc : NvarBd nc) (hcodec : CodecBounded h) (z : Nat)
    (data : Bytes) (o : Nat) (r : Bool) (st : St) (m : Meter) (hb : data.length < 2^63) :
    (newFvCost h nc z data o r st m).steps ≤ 2 * data.length + 2 * (newFvCost h nc z data o r st m).dec + 2 := by
  unfold newFvCost
  have := (mutual_cost h (innerZ h z) (innerCostZ h nc z) nc (innerCostZ_bd h nc hnc hcodec z) hnc hcodec (fuelFor data)).2.2.2.2
    data o r st m {} hb (by unfold fuelFor; omega)
  have hc := postC_cost (P := fun k' => Bd {} k' data.length 3) (postC_mono this (fun r _ k' hq => ?_) (fun _ he => he))
  · simp only [Bd] at hc
    omega
  · simp only [FvCQ, Bd] at hq ⊢
    omega

end Fiano.Uefi.Total
