/-
  C03 follow-up (wp-c03b), layer 6a: the tree the parser reports for a well-formed image of the
  reference grammar satisfies the invariant — when the image is `tidy`: every sectioned file is below
  16 MiB and the first block size of every FFS volume is a power of two between 8 and 2^31.
-/
import FianoModel.Uefi.ExactTop

namespace Fiano.Uefi.Exact
open Fiano Fiano.Uefi Fiano.Uefi.Spec

def pow2ge8 (n : Nat) : Bool := (List.range 29).any (fun j => n == 2 ^ (j + 3))

theorem pow2ge8_spec (n : Nat) (h : pow2ge8 n = true) : ∃ e, 3 ≤ e ∧ e ≤ 31 ∧ n = 2 ^ e := by
  unfold pow2ge8 at h
  simp only [List.any_eq_true, List.mem_range, beq_iff_eq] at h
  obtain ⟨j, hj, he⟩ := h
  exact ⟨j + 3, by omega, by omega, he⟩

def firstBlockOk : List Block → Bool
  | [] => true
  | b0 :: _ => pow2ge8 b0.size

mutual
def tidySec : SecI → Bool
  | .fvimg fv => tidyFv fv
  | _ => true
def tidySecs : List SecI → Bool
  | [] => true
  | s :: ss => tidySec s && tidySecs ss
def tidyFile : FileI → Bool
  | .leaf _ _ _ _ _ _ _ body => decide (32 + body.length < 2 ^ 62)
  | .sect _ _ _ _ secs => decide (24 + sizeSecs 0 secs < 0xFFFFFF) && tidySecs secs
def tidyFiles : List FileI → Bool
  | [] => true
  | f :: fs => tidyFile f && tidyFiles fs
/-- every sectioned file below 16 MiB; first block size a power of two in [8, 2^31] -/
def tidyFv : FvI → Bool
  | .ffs _ _ _ _ _ blocks _ files _ => firstBlockOk blocks && tidyFiles files
  | .other .. => true
end

def tidyItems : List (Bytes × FvI) → Bool
  | [] => true
  | (_, v) :: is => tidyFv v && tidyItems is

theorem treeSecs_ne (ss : List SecI) (ord : Nat) (h : ss ≠ []) : treeSecs ss ord ≠ [] := by
  cases ss with
  | nil => exact absurd rfl h
  | cons s ss => simp [treeSecs]

theorem treeFiles_ne (fs : List FileI) (h : fs ≠ []) : treeFiles fs ≠ [] := by
  cases fs with
  | nil => exact absurd rfl h
  | cons s ss => simp [treeFiles]

mutual

theorem canon_treeSec : ∀ (s : SecI), wfSec s = true → tidySec s = true → ∀ ord, CanonSec (treeSec s ord)
  | .leaf t ext body, h, _, ord => by
    simp only [wfSec, Bool.and_eq_true] at h
    obtain ⟨⟨hleaf, _⟩, _⟩ := h
    have hleaf' := hleaf
    simp only [leafSecType, Bool.and_eq_true, decide_eq_true_eq, bne_iff_ne, ne_eq, Bool.not_eq_true'] at hleaf
    obtain ⟨⟨⟨⟨⟨_, _⟩, h14⟩, h15⟩, _⟩, hdep⟩ := hleaf
    simp only [treeSec]
    unfold CanonSec
    refine Or.inl ⟨rfl, Or.inr (Or.inr (Or.inr ⟨by simpa [secInfoOf] using h15, by simpa [secInfoOf] using h14,
      by simpa [secInfoOf] using hdep, fun _ => by simp [secInfoOf], .leaf t ext body, ?_, rfl, ?_⟩))⟩
    · simp only [wfSec, Bool.and_eq_true]; exact ⟨⟨hleaf', by assumption⟩, by assumption⟩
    · intro o; simp [treeSec, avSection, avNodes]
  | .guided ext g doff attrs body, h, _, ord => by
    simp only [treeSec]
    unfold CanonSec
    refine Or.inl ⟨rfl, Or.inr (Or.inr (Or.inr ⟨by simp [secInfoOf], by simp [secInfoOf],
      by simp [secInfoOf, isDepexType], fun hc => by simp [secInfoOf] at hc, .guided ext g doff attrs body, h, rfl, ?_⟩))⟩
    intro o; simp [treeSec, avSection, avNodes]
  | .ui name, h, _, ord => by
    simp only [wfSec, Bool.and_eq_true, decide_eq_true_eq] at h
    simp only [treeSec]
    unfold CanonSec
    exact Or.inl ⟨rfl, Or.inl ⟨by simp [canonInfo_type], by simp [canonInfo_ts], h.1, h.2⟩⟩
  | .version build ver, h, _, ord => by
    simp only [wfSec, Bool.and_eq_true, decide_eq_true_eq] at h
    simp only [treeSec]
    unfold CanonSec
    exact Or.inl ⟨rfl, Or.inr (Or.inl ⟨by simp [canonInfo_type], by simp [canonInfo_ts], h.1.1, h.1.2, h.2⟩)⟩
  | .depex t ops, h, _, ord => by
    simp only [wfSec, Bool.and_eq_true, decide_eq_true_eq] at h
    simp only [treeSec]
    unfold CanonSec
    exact Or.inl ⟨rfl, Or.inr (Or.inr (Or.inl ⟨by simp [canonInfo_type, h.1.1], by simp [canonInfo_ts],
      h.1.2, h.2⟩))⟩
  | .fvimg fv, h, ht, ord => by
    simp only [wfSec, Bool.and_eq_true, decide_eq_true_eq] at h
    simp only [tidySec] at ht
    simp only [treeSec]
    unfold CanonSec
    refine Or.inr ⟨by simp [canonInfo_type], by simp [canonInfo_ts], ?_⟩
    simp only [CanonEncap]
    exact canon_treeFv fv h.1 ht 0 true

theorem canon_treeSecs : ∀ (ss : List SecI), wfSecs ss = true → tidySecs ss = true → ∀ ord, CanonSecs (treeSecs ss ord)
  | [], _, _, _ => trivial
  | s :: ss, h, ht, ord => by
    have ⟨hs, hss⟩ := wfSecs_cons h
    simp only [tidySecs, Bool.and_eq_true] at ht
    exact ⟨canon_treeSec s hs ht.1 ord, canon_treeSecs ss hss ht.2 (ord + 1)⟩

theorem canon_treeFile : ∀ (f : FileI), wfFile f = true → tidyFile f = true → CanonFile (treeFile f)
  | .leaf g ckh ckf t a st ext body, h, ht => by
    simp only [tidyFile, decide_eq_true_eq] at ht
    simp only [treeFile]
    unfold CanonFile
    refine ⟨rfl, ?_, Or.inl ⟨rfl, g, ckh, ckf, t, a, st, ext, body, h, rfl, rfl, rfl, rfl, fun _ => rfl⟩⟩
    simp only
    cases ext <;> simp <;> omega
  | .sect g t a st secs, h, ht => by
    have w := wfFile_sect h
    simp only [tidyFile, Bool.and_eq_true, decide_eq_true_eq] at ht
    have hdec : decide (24 + sizeSecs 0 secs ≥ 0xFFFFFF) = false := by simp; omega
    simp only [treeFile, hdec, Bool.false_eq_true, if_false]
    unfold CanonFile
    refine ⟨rfl, by simp only; omega, Or.inr ⟨treeSecs_ne secs 0 w.hne, w.hg, w.ht, sectAttrs_lt _ _ w.ha, w.hst,
      w.hsup, rfl, canon_treeSecs secs w.hsecs ht.2 0⟩⟩

theorem canon_treeFiles : ∀ (fs : List FileI) (off len : Nat), wfFiles off len fs = true → tidyFiles fs = true →
    CanonFiles (treeFiles fs)
  | [], _, _, _, _ => trivial
  | f :: fs, off, len, h, ht => by
    obtain ⟨hwf, _, _, _, hrest⟩ := wfFiles_cons h
    simp only [tidyFiles, Bool.and_eq_true] at ht
    exact ⟨canon_treeFile f hwf ht.1, canon_treeFiles fs _ len hrest ht.2⟩

theorem canon_treeFv : ∀ (v : FvI), wfFv v = true → tidyFv v = true → ∀ off rz, CanonFv (treeFv v off rz)
  | .other zv g attrs rev rsv blocks body, h, _, off, rz => by
    simp only [treeFv]
    unfold CanonFv
    refine Or.inl ⟨rfl, .other zv g attrs rev rsv blocks body, h, rfl, rfl, rfl, ?_⟩
    intro o r; simp [treeFv, avFv, absFiles, avFiles]
  | .ffs zv v3 attrs rev rsv blocks ext files free, h, ht, off, rz => by
    have w := wfFv_ffs h
    simp only [tidyFv, Bool.and_eq_true] at ht
    by_cases hnil : files = []
    · subst hnil
      simp only [treeFv, treeFiles]
      unfold CanonFv
      refine Or.inl ⟨rfl, .ffs zv v3 attrs rev rsv blocks ext [] free, h, rfl, rfl, rfl, ?_⟩
      intro o r; simp [treeFv, treeFiles, avFv, absFiles, avFiles]
    · have hgl := guid_v3_length v3
      have hpre := preBytes_length blocks ext (fun e he => (w.hext e he).1)
      have hend := endFiles_ge files (preLen blocks ext)
      have htake : (serFv (.ffs zv v3 attrs rev rsv blocks ext files free)).take (preLen blocks ext) =
          fvHeaderCk zv (if v3 then guidFFS3 else guidFFS2) (endFiles (preLen blocks ext) files + free) attrs
            (ehoOf blocks ext) rsv rev blocks ++ preBytes blocks ext := by
        simp only [serFv, List.append_assoc]
        rw [← List.append_assoc]
        have hA : (fvHeaderCk zv (if v3 then guidFFS3 else guidFFS2) (endFiles (preLen blocks ext) files + free) attrs
            (ehoOf blocks ext) rsv rev blocks ++ preBytes blocks ext).length = preLen blocks ext := by
          simp only [List.length_append, fvHeaderCk_length _ _ _ _ _ _ _ _ w.hzv hgl]; exact hpre
        exact take_left_len _ _ _ hA
      simp only [treeFv]
      unfold CanonFv
      refine Or.inr ⟨treeFiles_ne files hnil,
        ⟨⟨zv, v3, attrs, rev, rsv, blocks, ext, endFiles (preLen blocks ext) files + free⟩, ?_, ?_, ?_⟩,
        canon_treeFiles files _ _ w.hfiles ht.2⟩
      · refine ⟨w.hzv, w.hattrs, w.hpol, w.hrev, w.hrsv, w.hblocks, w.hhdr, w.hext, w.hlen8, w.hlen64,
          by have := w.hlenlt; simp only; omega, by simp only [Skel.pre]; omega, ?_⟩
        intro b0 bs hb
        simp only at hb
        rw [hb] at ht
        exact pow2ge8_spec _ ht.1
      · exact ⟨rfl, rfl, rfl, rfl, rfl, rfl⟩
      · simp only [Skel.pre, Skel.hdr, Skel.guid]
        exact htake

end

/-- the element list of a parsed region stands for its own volumes -/
theorem rep_treeItems : ∀ (is : List (Bytes × FvI)) (tail : Bytes) (off : Nat), wfItems is tail = true →
    tidyItems is = true → RepItems (treeItems is off) is off
  | [], _, _, _, _ => rfl
  | (p, v) :: is, tail, off, h, ht => by
    obtain ⟨hv, _, hr⟩ := wfItems_cons h
    simp only [tidyItems, Bool.and_eq_true] at ht
    refine ⟨treeFv v (off + p.length) false, treeItems is (off + p.length + sizeFv v), rfl, ?_, ?_⟩
    · refine ⟨canon_treeFv v hv ht.1 _ _, ?_, treeFv_length v _ _, by rw [treeFv_buf]⟩
      cases v <;> rfl
    · exact rep_treeItems is tail _ hr ht.2

theorem rep_treeBios (bi : BiosI) (fr : Option FlashRegion) (h : wfBios bi = true) (ht : tidyItems bi.items = true) :
    RepBios (treeBios bi fr) bi := by
  have h' := h
  simp only [wfBios, Bool.and_eq_true] at h'
  exact ⟨h, rfl, treeItems bi.items 0, rfl, rep_treeItems bi.items bi.tail 0 h'.1.2 ht⟩

end Fiano.Uefi.Exact
