/-
  C09b at image level: from the node-level detection theorems (ValidateLemmas.lean) to
  "parse fails or validate reports an error" for a whole image, for the volume that starts the image:
  its header bytes (`alter_detected_fvHeader_first`) and the protected bytes of the files directly inside
  it (`alter_detected_file_first`, through the file walk `parseFiles_alter`).
  Core Lean only.
-/
import FianoModel.Uefi.ValidateLemmas
import FianoModel.Uefi.ValidateLoc
import FianoModel.Base.ArithTie

namespace Fiano.Uefi
open Fiano Fiano.Uefi.Spec

/-! ### the volume scan at its first two probe positions -/

theorem scanSig_ge : ∀ (n off : Nat) (d : Bytes) (o : Nat), scanSig n off d = some o → off ≤ o
  | 0, _, _, _, h => by simp [scanSig] at h
  | n+1, off, d, o, h => by
    simp only [scanSig] at h
    split at h
    · split at h
      · simp at h; omega
      · have := scanSig_ge n (off + 8) (d.drop 8) o h; omega
    · simp at h

theorem isFvSig_iff (x : Bytes) (h : 4 ≤ x.length) : isFvSig x = true ↔ x.take 4 = [0x5F, 0x46, 0x56, 0x48] := by
  match x, h with
  | a :: b :: c :: d :: rest, _ =>
    simp only [List.take_succ_cons, List.take_zero]
    constructor
    · intro hs
      unfold isFvSig at hs
      split at hs
      · rename_i heq; simp at heq; simp [heq]
      · simp at hs
    · intro e
      simp at e
      obtain ⟨rfl, rfl, rfl, rfl⟩ := e
      rfl

/-- what `findFvOffset b = some 0` says: no signature at the first probe (32), one at the second (40) -/
theorem findFvOffset_zero_iff (b : Bytes) : findFvOffset b = some 0 ↔
    (44 < b.length ∧ isFvSig (b.drop 32) = false ∧ isFvSig (b.drop 40) = true) := by
  unfold findFvOffset
  by_cases hl : b.length < 32
  · simp [hl]; omega
  simp only [hl, if_false]
  obtain ⟨n, hn⟩ : ∃ n, b.length / 8 + 1 = n + 2 := ⟨b.length / 8 - 1, by omega⟩
  rw [hn]
  simp only [scanSig, List.length_drop, List.drop_drop]
  by_cases h36 : 4 < b.length - 32
  · simp only [h36, if_true]
    by_cases hs32 : isFvSig (b.drop 32) = true
    · simp [hs32]
    · simp only [hs32, if_false]
      have hs32' : isFvSig (b.drop 32) = false := by simpa using hs32
      by_cases h44 : 4 < b.length - (32 + 8)
      · simp only [h44, if_true]
        by_cases hs40 : isFvSig (b.drop (32 + 8)) = true
        · simp [hs40, hs32']; omega
        · simp only [hs40, if_false]
          have hs40' : isFvSig (b.drop 40) = false := by simpa using hs40
          constructor
          · intro h
            split at h
            · rename_i o ho
              have := scanSig_ge _ _ _ _ ho
              split at h <;> simp at h; omega
            · simp at h
          · intro ⟨_, _, h⟩; simp [hs40'] at h
      · simp only [h44, if_false]
        constructor
        · intro h; simp at h
        · intro ⟨h, _⟩; omega
  · simp only [h36, if_false]
    constructor
    · intro h; simp at h
    · intro ⟨h, _⟩; omega


theorem findFvOffset_alter_first {b b' : Bytes} {p : Nat} (h0 : findFvOffset b = some 0) (ha : Alter b b' p)
    (hsig : ¬ (40 ≤ p ∧ p < 44)) : findFvOffset b' = some 0 ∨ findFvOffset b' = none := by
  obtain ⟨hl, _, h40⟩ := (findFvOffset_zero_iff b).mp h0
  have hl' : 44 < b'.length := by rw [ha.length_eq]; exact hl
  have h40' : isFvSig (b'.drop 40) = true := by
    rw [isFvSig_iff _ (by rw [List.length_drop]; omega)] at h40 ⊢
    have := ha.slice_eq (off := 40) (len := 4) (by omega)
    unfold slice at this
    rw [this]; exact h40
  cases h32' : isFvSig (b'.drop 32) with
  | false => exact Or.inl ((findFvOffset_zero_iff b').mpr ⟨hl', h32', h40'⟩)
  | true =>
    right
    unfold findFvOffset
    have : ¬ b'.length < 32 := by omega
    simp only [this, if_false]
    obtain ⟨n, hn⟩ : ∃ n, b'.length / 8 + 1 = n + 1 := ⟨b'.length / 8, rfl⟩
    rw [hn]
    simp only [scanSig, List.length_drop, h32', if_true]
    have : 4 < b'.length - 32 := by omega
    simp [this]

/-- errors of a walk that meets a failing volume stay in the result -/
theorem vBios_fv_ne_nil (pol : UInt8) (fr : Option FlashRegion) (buf : Bytes) (n : Nat) (fv : Fv) (es : List BiosElem)
    (h : validateFvNode fv.info fv.buf ≠ []) :
    vBios pol { elems := .fv fv :: es, buf := buf, length := n, fr := fr } ≠ [] := by
  intro e
  simp only [vBios, vBiosElems, List.append_eq_nil_iff] at e
  obtain ⟨_, ⟨he, _⟩, _⟩ := e
  cases fv with
  | mk i bf files =>
    simp only [vFv, List.append_eq_nil_iff] at he
    exact h he.1

theorem parseBiosElems_first (h : Hooks) (fuel : Nat) (buf : Bytes) (abs : Nat) (st : St)
    (h0 : findFvOffset buf = some 0) :
    parseBiosElems h (fuel + 1) buf abs st =
      match parseFv h fuel buf abs false st with
      | .error e => .error e
      | .ok (fv, st') =>
        if fv.info.length = 0 then .error .err else
        match parseBiosElems h fuel (buf.drop fv.info.length) (abs + fv.info.length) st' with
        | .error e => .error e
        | .ok (es, st'') => .ok (.fv fv :: es, st'') := by
  rw [parseBiosElems]
  simp only [h0, Nat.lt_irrefl, if_false, List.nil_append, List.drop_zero, Nat.add_zero, Nat.zero_add]
  cases parseFv h fuel buf abs false st with
  | error e => rfl
  | ok r =>
    obtain ⟨fv, st'⟩ := r
    simp only
    split
    · rfl
    · cases parseBiosElems h fuel (List.drop fv.info.length buf) (abs + fv.info.length) st' with
      | error e => rfl
      | ok r2 => rfl

theorem parseBiosElems_none (h : Hooks) (fuel : Nat) (buf : Bytes) (abs : Nat) (st : St)
    (h0 : findFvOffset buf = none) :
    parseBiosElems h (fuel + 1) buf abs st = .ok (if buf.length ≠ 0 then [.pad buf abs] else [], st) := by
  rw [parseBiosElems]
  simp only [h0]

/-- **C09b at image level, volume header of the first volume.**  `b` is an image without flash
    descriptor whose first volume starts at offset 0 (a firmware-volume file, or a BIOS region that
    begins with a volume).  If `b` parses and validates cleanly and `b'` differs from `b` in exactly one
    byte of that volume's header `[0, HeaderLen)` outside the 4-byte signature, then for `b'` the parser
    fails or validate reports at least one error.
    Hypothesis forced by the proof: the altered image is still not taken for a flash image
    (`findSignature b' = none`; it can only fail for an alteration of the zero-vector bytes 0–3). -/
theorem alter_detected_fvHeader_first (h : Hooks) {b b' : Bytes} {p : Nat}
    (hns : findSignature b = none) (hns' : findSignature b' = none) (h0 : findFvOffset b = some 0)
    (hok : parseValidate h b = .ok []) (ha : Alter b b' p) (hp : p < rd b 48 2) (hsig : ¬ (40 ≤ p ∧ p < 44)) :
    parseValidate h b' ≠ .ok [] := by
  -- the first volume of `b`
  unfold parseValidate parseWith at hok
  rw [hns] at hok
  simp only [parseBios, defaultFuel] at hok
  have hf : b.length + 8 = (b.length + 7) + 1 := by omega
  rw [hf, parseBiosElems_first h _ b 0 {} h0] at hok
  generalize b.length + 7 = fuel at hok
  cases hpf : parseFv h fuel b 0 false {} with
  | error e => rw [hpf] at hok; simp at hok
  | ok r =>
    obtain ⟨fv, st1⟩ := r
    rw [hpf] at hok
    simp only at hok
    have hfvok : validateFvNode fv.info fv.buf = [] := by
      by_cases hz : fv.info.length = 0
      · simp [hz] at hok
      · simp only [hz, if_false] at hok
        cases hrest : parseBiosElems h fuel (List.drop fv.info.length b) (0 + fv.info.length) st1 with
        | error e => rw [hrest] at hok; simp at hok
        | ok r2 =>
          obtain ⟨es, st2⟩ := r2
          rw [hrest] at hok
          simp only [Except.ok.injEq] at hok
          simp only [validate, vBios, vBiosElems, List.append_eq_nil_iff] at hok
          obtain ⟨_, ⟨he, _⟩, _⟩ := hok
          cases fv with
          | mk i bf files =>
            simp only [vFv, List.append_eq_nil_iff] at he
            exact he.1
    have hhl : fv.info.headerLen = rd b 48 2 := (parseFv_ok_fields _ _ _ _ _ _ _ _ hpf).2.2.2.2.1
    -- the altered image
    unfold parseValidate parseWith
    rw [hns']
    simp only [parseBios, defaultFuel]
    have hf' : b'.length + 8 = (b'.length + 7) + 1 := by omega
    rw [hf']
    generalize b'.length + 7 = fuel'
    rcases findFvOffset_alter_first h0 ha hsig with h0' | hnone
    · rw [parseBiosElems_first h _ b' 0 {} h0']
      cases hpf' : parseFv h fuel' b' 0 false {} with
      | error e => simp
      | ok r' =>
        obtain ⟨fv', st1'⟩ := r'
        simp only
        have hbad := fvHeader_alter_detected hpf hfvok ha (by rw [hhl]; exact hp) hpf'
        by_cases hz : fv'.info.length = 0
        · simp [hz]
        · simp only [hz, if_false]
          cases hrest : parseBiosElems h fuel' (List.drop fv'.info.length b') (0 + fv'.info.length) st1' with
          | error e => simp
          | ok r2 =>
            obtain ⟨es', st2'⟩ := r2
            simp only [ne_eq, Except.ok.injEq, validate]
            exact vBios_fv_ne_nil _ _ _ _ _ _ hbad
    · -- the scan no longer finds a volume at all: "no firmware volumes in BIOS Region"
      rw [parseBiosElems_none h _ b' 0 {} hnone]
      have hne : b'.length ≠ 0 := by have := ha.lt; rw [ha.length_eq]; omega
      simp [hne, validate, vBios, BiosElem.isFv]

/-! ### files: what the parser returns does not depend on bytes behind the file -/

/-- `parseFile` looks at the length of its buffer, at the header, and at the bytes of the file:
    an alteration beyond the end of the file does not change what it returns -/
theorem parseFile_alter_beyond {h : Hooks} {fuel : Nat} {buf buf' : Bytes} {st st1 : St} {f : File} {q : Nat}
    (ha : Alter buf buf' q) (hp : parseFile h fuel buf st = .ok (some f, st1))
    (h24 : 24 ≤ f.info.extSize) (hF : f.info.size3 = 0xFFFFFF → 32 ≤ f.info.extSize) (hq : f.info.extSize ≤ q) :
    parseFile h fuel buf' st = .ok (some f, st1) := by
  obtain ⟨i, hfh, _, hext, hs3, _⟩ := parseFile_some_inv hp
  obtain ⟨_, _, hie, _, hi3, _⟩ := fileHeader_some hfh
  cases fuel with
  | zero => simp [parseFile] at hp
  | succ fuel =>
    rw [← hp]
    have el : buf'.length = buf.length := ha.length_eq
    have e0 : slice buf' 0 16 = slice buf 0 16 := ha.slice_eq (by omega)
    have e16 : rd buf' 16 1 = rd buf 16 1 := ha.rd_eq (by omega)
    have e17 : rd buf' 17 1 = rd buf 17 1 := ha.rd_eq (by omega)
    have e18 : rd buf' 18 1 = rd buf 18 1 := ha.rd_eq (by omega)
    have e19 : rd buf' 19 1 = rd buf 19 1 := ha.rd_eq (by omega)
    have e20 : rd buf' 20 3 = rd buf 20 3 := ha.rd_eq (by omega)
    have e23 : rd buf' 23 1 = rd buf 23 1 := ha.rd_eq (by omega)
    have hfh' : fileHeader buf' = fileHeader buf := by
      unfold fileHeader
      by_cases h3 : rd buf 20 3 = 0xFFFFFF
      · have h32 := hF (by rw [hs3, hi3]; exact h3)
        have e24 : rd buf' 24 8 = rd buf 24 8 := ha.rd_eq (by omega)
        have e24t : buf'.take 24 = buf.take 24 := ha.take_le (by omega)
        simp only [el, e0, e16, e17, e18, e19, e20, e23, e24, e24t]
      · simp only [el, e0, e16, e17, e18, e19, e20, e23, h3, if_false]
    have et : buf'.take i.extSize = buf.take i.extSize := ha.take_le (by omega)
    simp only [parseFile, hfh', hfh, et]

/-! ### alignment and offsets of the file walk -/

theorem v_align8_eq (v : Nat) (h : v + 8 < 2 ^ 64) : align8 v = (v + 7) / 8 * 8 := by
  unfold align8 alignGo
  have e1 : (v + 8 + 18446744073709551615) % 18446744073709551616 = v + 7 := by omega
  have e2 : (18446744073709551616 - 8) % 18446744073709551616 = 2 ^ 64 - 2 ^ 3 := by decide
  rw [e1, e2, ArithTie.and_high_mask (v + 7) 3 (by omega) (by omega)]

theorem v_align8_ge (v : Nat) (h : v + 8 < 2 ^ 64) : v ≤ align8 v := by
  rw [v_align8_eq v h]; omega

theorem v_rd_drop (b : Bytes) (o x l : Nat) : rd (b.drop o) x l = rd b (o + x) l := by
  unfold rd slice; rw [List.drop_drop]

theorem parseFile_none {h : Hooks} {fuel : Nat} {buf : Bytes} {st st' : St}
    (hp : parseFile h fuel buf st = .ok (none, st')) : FreeSpaceLike buf := by
  cases fuel with
  | zero => simp [parseFile] at hp
  | succ fuel =>
    simp only [parseFile] at hp
    cases hfh : fileHeader buf with
    | error e => rw [hfh] at hp; simp at hp
    | ok o =>
      cases o with
      | none => exact fileHeader_none hfh
      | some i =>
        rw [hfh] at hp
        simp only at hp
        split at hp
        · simp at hp
        · split at hp
          · simp at hp
          · split at hp <;> simp at hp

/-- one step of the file walk, inverted: a non-empty result -/
theorem parseFiles_cons_inv {h : Hooks} {fuel : Nat} {data : Bytes} {offset lh length : Nat} {st st1 : St}
    {f : File} {fs : List File} {free : Nat}
    (hp : parseFiles h fuel data offset lh length st = .ok (f :: fs, free, st1)) :
    ∃ fuel0 st2, fuel = fuel0 + 1 ∧ offset ≤ lh ∧ align8 offset < data.length ∧
      parseFile h fuel0 (data.drop (align8 offset)) st = .ok (some f, st2) ∧ f.info.extSize ≠ 0 ∧
      parseFiles h fuel0 data (align8 offset + f.info.extSize) lh length st2 = .ok (fs, free, st1) := by
  cases fuel with
  | zero => simp [parseFiles] at hp
  | succ fuel0 =>
    rw [parseFiles] at hp
    by_cases h1 : offset ≤ lh
    · simp only [h1, if_true] at hp
      by_cases h2 : data.length ≤ align8 offset
      · simp [h2] at hp
      · simp only [h2, if_false] at hp
        cases hpf : parseFile h fuel0 (data.drop (align8 offset)) st with
        | error e => rw [hpf] at hp; simp at hp
        | ok r =>
          obtain ⟨fo, st2⟩ := r
          rw [hpf] at hp
          cases fo with
          | none => simp at hp
          | some g =>
            simp only at hp
            by_cases h3 : g.info.extSize = 0
            · simp [h3] at hp
            · simp only [h3, if_false] at hp
              cases hrest : parseFiles h fuel0 data (align8 offset + g.info.extSize) lh length st2 with
              | error e => rw [hrest] at hp; simp at hp
              | ok r2 =>
                obtain ⟨fs2, free2, st3⟩ := r2
                rw [hrest] at hp
                simp only [Except.ok.injEq, Prod.mk.injEq, List.cons.injEq] at hp
                obtain ⟨⟨rfl, rfl⟩, rfl, rfl⟩ := hp
                exact ⟨fuel0, st2, rfl, h1, by omega, hpf, h3, hrest⟩
    · simp [h1] at hp


theorem walk_bounds {h : Hooks} {data : Bytes} {lh length : Nat} {f : File} {post : List File} {free : Nat} {st1 : St}
    (hbig : data.length + 8 < 2 ^ 64) :
    ∀ (pre : List File) (fuel offset : Nat) (st : St),
      parseFiles h fuel data offset lh length st = .ok (pre ++ f :: post, free, st1) → offset + 8 < 2 ^ 64 →
      offset ≤ startAfter pre offset ∧ startAfter pre offset + 8 < 2 ^ 64 ∧
      align8 (startAfter pre offset) + f.info.extSize ≤ data.length
  | [], fuel, offset, st, hp, ho => by
    obtain ⟨fuel0, st2, rfl, _, hlt, hpf, _, _⟩ := parseFiles_cons_inv hp
    obtain ⟨_, _, hle, _, hext, _⟩ := parseFile_ok_fields _ _ _ _ _ _ hpf
    rw [List.length_drop] at hle
    simp only [startAfter]
    omega
  | g :: pre, fuel, offset, st, hp, ho => by
    obtain ⟨fuel0, st2, rfl, _, hlt, hpf, _, hrest⟩ := parseFiles_cons_inv hp
    obtain ⟨_, _, hle, _, hext, _⟩ := parseFile_ok_fields _ _ _ _ _ _ hpf
    rw [List.length_drop] at hle
    have hge := v_align8_ge offset ho
    have := walk_bounds hbig pre fuel0 (align8 offset + g.info.extSize) st2 hrest (by omega)
    simp only [startAfter]
    omega

theorem vFiles_cons_nil {g : File} {gs : List File} (h : vFiles (g :: gs) = []) :
    validateFileNode g.info g.buf = [] ∧ vFiles gs = [] := by
  cases g with
  | mk i b ss =>
    simp only [vFiles, vFile, List.append_eq_nil_iff] at h
    exact ⟨h.1.1, h.2⟩

theorem vFiles_cons_ne {g : File} {gs : List File} (h : validateFileNode g.info g.buf ≠ [] ∨ vFiles gs ≠ []) :
    vFiles (g :: gs) ≠ [] := by
  intro e
  have := vFiles_cons_nil e
  rcases h with h | h
  · exact h this.1
  · exact h this.2

set_option maxRecDepth 8192 in
/-- **file walk**: the walk over `data` found `pre ++ f :: post` and all of them pass; one protected byte
    of `f` is altered; then the walk over the altered bytes — if it succeeds and does not take `f` for free
    space — finds a file that fails its check. -/
theorem parseFiles_alter (h : Hooks) {data data' : Bytes} {lh length : Nat} {f : File} {post : List File}
    {free r : Nat} {st1 : St} (hbig : data.length + 8 < 2 ^ 64) :
    ∀ (pre : List File) (fuel offset : Nat) (st : St),
      parseFiles h fuel data offset lh length st = .ok (pre ++ f :: post, free, st1) →
      vFiles (pre ++ f :: post) = [] → offset + 8 < 2 ^ 64 →
      Alter data data' (align8 (startAfter pre offset) + r) →
      r < f.info.extSize → r ≠ 23 →
      (r < (if isLarge f.info.attrs = true then 32 else 24) ∨ hasChecksum f.info.attrs = true) →
      ¬ FreeSpaceAt data' (align8 (startAfter pre offset)) →
      ∀ fs' free' st1', parseFiles h fuel data' offset lh length st = .ok (fs', free', st1') → vFiles fs' ≠ [] := by
  intro pre
  induction pre with
  | nil =>
    intro fuel offset st hp hv ho ha hr h23 hcl hfree fs' free' st1' hp'
    simp only [startAfter, List.nil_append] at hp hv ha hfree
    obtain ⟨fuel0, st2, rfl, hlt, hdl, hpf, _, _⟩ := parseFiles_cons_inv hp
    have hvf := (vFiles_cons_nil hv).1
    have ha' : Alter (data.drop (align8 offset)) (data'.drop (align8 offset)) r := by
      have := ha.drop_le (n := align8 offset) (by omega)
      rwa [Nat.add_sub_cancel_left] at this
    rw [parseFiles] at hp'
    have hdl' : ¬ data'.length ≤ align8 offset := by rw [ha.length_eq]; omega
    simp only [hlt, if_true, hdl', if_false] at hp'
    cases hpf' : parseFile h fuel0 (data'.drop (align8 offset)) st with
    | error e => rw [hpf'] at hp'; simp at hp'
    | ok rr =>
      obtain ⟨fo, st2'⟩ := rr
      rw [hpf'] at hp'
      cases fo with
      | none =>
        exfalso
        exact hfree (parseFile_none hpf')
      | some f' =>
        simp only at hp'
        have hbad := file_alter_detected hpf hvf ha' hr h23 hcl hpf'
        by_cases h3 : f'.info.extSize = 0
        · simp [h3] at hp'
        · simp only [h3, if_false] at hp'
          cases hrest : parseFiles h fuel0 data' (align8 offset + f'.info.extSize) lh length st2' with
          | error e => rw [hrest] at hp'; simp at hp'
          | ok r2 =>
            obtain ⟨fs2, free2, st3⟩ := r2
            rw [hrest] at hp'
            simp only [Except.ok.injEq, Prod.mk.injEq] at hp'
            obtain ⟨rfl, _, _⟩ := hp'
            exact vFiles_cons_ne (Or.inl hbad)
  | cons g pre ihp =>
    intro fuel offset st hp hv ho ha hr h23 hcl hfree fs' free' st1' hp'
    simp only [startAfter, List.cons_append] at hp hv ha hfree
    obtain ⟨fuel0, st2, rfl, hlt, hdl, hpf, hne0, hrest⟩ := parseFiles_cons_inv hp
    obtain ⟨hvg, hvrest⟩ := vFiles_cons_nil hv
    obtain ⟨_, _, hle, hgbuf, hext, _⟩ := parseFile_ok_fields _ _ _ _ _ _ hpf
    rw [List.length_drop] at hle
    have hge := v_align8_ge offset ho
    have hnext : align8 offset + g.info.extSize + 8 < 2 ^ 64 := by omega
    obtain ⟨hb1, hb2, _⟩ := walk_bounds hbig pre fuel0 _ st2 hrest hnext
    have hge2 := v_align8_ge _ hb2
    -- the file `g` before the altered one is parsed as before
    have okg := (validateFileNode_nil_iff _ _).mp hvg
    have hglen : g.buf.length = g.info.extSize := okg.size
    have ha' : Alter (data.drop (align8 offset)) (data'.drop (align8 offset))
        (align8 (startAfter pre (align8 offset + g.info.extSize)) + r - align8 offset) :=
      ha.drop_le (by omega)
    have hpf' := parseFile_alter_beyond ha' hpf (by have := okg.len; omega)
      (by intro h3; have := okg.extlen h3; omega) (by omega)
    rw [parseFiles] at hp'
    have hdl' : ¬ data'.length ≤ align8 offset := by rw [ha.length_eq]; omega
    simp only [hlt, if_true, hdl', if_false, hpf', hne0] at hp'
    cases hrest' : parseFiles h fuel0 data' (align8 offset + g.info.extSize) lh length st2 with
    | error e => rw [hrest'] at hp'; simp at hp'
    | ok r2 =>
      obtain ⟨fs2, free2, st3⟩ := r2
      rw [hrest'] at hp'
      simp only [Except.ok.injEq, Prod.mk.injEq] at hp'
      obtain ⟨rfl, _, _⟩ := hp'
      have ih := ihp fuel0 _ st2 hrest hvrest hnext ha hr h23 hcl hfree fs2 free2 st3 hrest'
      exact vFiles_cons_ne (Or.inr ih)


/-! ### from the volume to its file walk -/

/-- does the volume header announce an extended header (as `NewFirmwareVolume` decides)? -/
def hasExtOf (data : Bytes) : Bool :=
  decide (rd data 52 2 ≠ 0 ∧ rd data 32 8 ≥ 20 ∧ rd data 52 2 ≤ rd data 32 8 - 20)

/-- `fv.DataOffset` as computed from the bytes -/
def doOf (data : Bytes) : Nat :=
  align8 (if hasExtOf data = true then rd data 52 2 + rd data (rd data 52 2 + 16) 4 else rd data 48 2)

/-- the bytes the volume parser reads before it walks the files: the header and the extended header -/
def fvPrologue (data : Bytes) : Nat :=
  if hasExtOf data = true then max (rd data 48 2) (rd data 52 2 + 20) else rd data 48 2

theorem fvInfoOf_dataOffset (data : Bytes) (blocks : List Block) (off : Nat) (rs : Bool) :
    (fvInfoOf data blocks off rs).dataOffset = doOf data := by
  unfold doOf hasExtOf fvInfoOf
  simp only
  cases decide (rd data 52 2 ≠ 0 ∧ rd data 32 8 ≥ 20 ∧ rd data 52 2 ≤ rd data 32 8 - 20) <;> rfl

set_option maxRecDepth 8192 in
/-- `parseFv` after its guards, for a file system the tool parses -/
theorem parseFv_ffs_eq {h : Hooks} {fuel0 : Nat} {data : Bytes} {off : Nat} {rs : Bool} {st : St} {r : Fv × St}
    (hp : parseFv h (fuel0 + 1) data off rs st = .ok r) :
    ∃ blocks stp, readBlocks (data.drop 56) = .ok blocks ∧
      setPolarity (polOfAttrs (rd data 44 4)) st = .ok stp ∧ ¬ rd data 32 8 > data.length ∧
      ((slice data 16 16 ≠ guidFFS2 ∧ slice data 16 16 ≠ guidFFS3) → r.1.files = []) ∧
      (¬ (slice data 16 16 ≠ guidFFS2 ∧ slice data 16 16 ≠ guidFFS3) →
        r.1.info.dataOffset = doOf data ∧
        ∃ free, parseFiles h fuel0 (data.take (rd data 32 8)) (doOf data)
          ((rd data 32 8 + 18446744073709551616 - 24) % 18446744073709551616) (rd data 32 8) stp =
          .ok (r.1.files, free, r.2)) := by
  simp only [parseFv] at hp
  by_cases h64 : data.length < 64
  · simp [h64] at hp
  rw [if_neg h64] at hp
  cases hrb : readBlocks (data.drop 56) with
  | error e => rw [hrb] at hp; simp at hp
  | ok blocks =>
    rw [hrb] at hp
    simp only at hp
    have ea : (fvInfoOf data blocks off rs).attrs = rd data 44 4 := rfl
    have el : (fvInfoOf data blocks off rs).length = rd data 32 8 := rfl
    have eg : (fvInfoOf data blocks off rs).fsGuid = slice data 16 16 := rfl
    rw [ea, el, eg, fvInfoOf_dataOffset] at hp
    by_cases hbm : 56 + 8 * (blocks.length + 1) > rd data 32 8
    · rw [if_pos hbm] at hp; simp at hp
    rw [if_neg hbm] at hp
    cases hsp : setPolarity (polOfAttrs (rd data 44 4)) st with
    | error e => rw [hsp] at hp; simp at hp
    | ok stp =>
      rw [hsp] at hp
      simp only at hp
      by_cases hL : rd data 32 8 > data.length
      · rw [if_pos hL] at hp; simp at hp
      rw [if_neg hL] at hp
      refine ⟨blocks, stp, rfl, rfl, hL, ?_, ?_⟩
      · intro hg
        rw [if_pos hg] at hp
        simp only [Except.ok.injEq] at hp
        rw [← hp]; rfl
      · intro hg
        rw [if_neg hg] at hp
        cases hpf : parseFiles h fuel0 (data.take (rd data 32 8)) (doOf data)
            ((rd data 32 8 + 18446744073709551616 - 24) % 18446744073709551616) (rd data 32 8) stp with
        | error e => rw [hpf] at hp; simp at hp
        | ok r3 =>
          obtain ⟨fs, free, st'⟩ := r3
          rw [hpf] at hp
          simp only [Except.ok.injEq] at hp
          rw [← hp]
          refine ⟨?_, free, rfl⟩
          simp only [Fv.info]

theorem v_rd_lt (b : Bytes) (o l : Nat) : rd b o l < 256 ^ l := by
  unfold rd
  have h1 := fromLE_lt (slice b o l)
  have h2 : (slice b o l).length ≤ l := by unfold slice; rw [List.length_take]; omega
  exact Nat.lt_of_lt_of_le h1 (Nat.pow_le_pow_right (by omega) h2)

theorem doOf_bound (data : Bytes) : doOf data + 8 < 2 ^ 64 := by
  unfold doOf
  have h1 := v_rd_lt data 52 2
  have h2 := v_rd_lt data (rd data 52 2 + 16) 4
  have h3 := v_rd_lt data 48 2
  have e2 : (256 : Nat) ^ 2 = 65536 := by decide
  have e4 : (256 : Nat) ^ 4 = 4294967296 := by decide
  rw [e2] at h1 h3
  rw [e4] at h2
  split
  · rw [v_align8_eq _ (by omega)]; omega
  · rw [v_align8_eq _ (by omega)]; omega

theorem vFv_nil {fv : Fv} (h : vFv fv = []) : validateFvNode fv.info fv.buf = [] ∧ vFiles fv.files = [] := by
  cases fv with
  | mk i b fs =>
    simp only [vFv, List.append_eq_nil_iff] at h
    exact h

theorem vFv_ne_of_files {fv : Fv} (h : vFiles fv.files ≠ []) : vFv fv ≠ [] := by
  intro e; exact h (vFv_nil e).2

set_option maxRecDepth 8192 in
/-- **volume level, file bytes**: a protected byte of a file directly inside the volume is altered -/
theorem fv_file_alter_detected (h : Hooks) {fuel : Nat} {data data' : Bytes} {off : Nat} {rs : Bool} {st st1 : St}
    {fv : Fv} {pre post : List File} {f : File} {r : Nat}
    (hp : parseFv h fuel data off rs st = .ok (fv, st1)) (hv : vFv fv = [])
    (hfiles : fv.files = pre ++ f :: post)
    (ha : Alter data data' (align8 (startAfter pre fv.info.dataOffset) + r))
    (hr : r < f.info.extSize) (h23 : r ≠ 23)
    (hcl : r < (if isLarge f.info.attrs = true then 32 else 24) ∨ hasChecksum f.info.attrs = true)
    (hpro : fvPrologue data ≤ align8 (startAfter pre fv.info.dataOffset) + r)
    (hbig : data.length + 8 < 2 ^ 64)
    (hfree : ¬ FreeSpaceAt (data'.take (rd data 32 8)) (align8 (startAfter pre fv.info.dataOffset))) :
    ∀ fv' st2, parseFv h fuel data' off rs st = .ok (fv', st2) → vFv fv' ≠ [] := by
  intro fv' st2 hp'
  cases fuel with
  | zero => simp [parseFv] at hp
  | succ fuel0 =>
    obtain ⟨hvn, hvf⟩ := vFv_nil hv
    have okn := (validateFvNode_nil_iff _ _).mp hvn
    obtain ⟨_, hL, hbuf, _, hhl, _, _, _⟩ := parseFv_ok_fields _ _ _ _ _ _ _ _ hp
    obtain ⟨blocks, stp, _, hsp, _, hnon, hffs⟩ := parseFv_ffs_eq hp
    have hg : ¬ (slice data 16 16 ≠ guidFFS2 ∧ slice data 16 16 ≠ guidFFS3) := by
      intro hg
      have := hnon hg
      simp only at this
      rw [hfiles] at this
      simp at this
    obtain ⟨hdo, free, hpf⟩ := hffs hg
    simp only at hdo hpf
    rw [hdo] at ha hpro hfree
    rw [hfiles] at hpf hvf
    -- the altered byte lies behind everything the volume parser reads before the walk
    have h64 : 64 ≤ rd data 48 2 := by rw [← hhl]; exact okn.hl
    generalize hpd : align8 (startAfter pre (doOf data)) + r = p at ha hpro
    have hpro' : rd data 48 2 ≤ p ∧ (hasExtOf data = true → rd data 52 2 + 20 ≤ p) := by
      unfold fvPrologue at hpro
      cases hx : hasExtOf data
      · simp only [hx, Bool.false_eq_true, if_false] at hpro; exact ⟨hpro, by simp⟩
      · simp only [hx, if_true] at hpro; exact ⟨by omega, by intro _; omega⟩
    have e16 : slice data' 16 16 = slice data 16 16 := ha.slice_eq (by omega)
    have e32 : rd data' 32 8 = rd data 32 8 := ha.rd_eq (by omega)
    have e44 : rd data' 44 4 = rd data 44 4 := ha.rd_eq (by omega)
    have e48 : rd data' 48 2 = rd data 48 2 := ha.rd_eq (by omega)
    have e52 : rd data' 52 2 = rd data 52 2 := ha.rd_eq (by omega)
    have ehx : hasExtOf data' = hasExtOf data := by unfold hasExtOf; rw [e32, e52]
    have edo : doOf data' = doOf data := by
      unfold doOf
      rw [ehx, e48, e52]
      cases hx : hasExtOf data
      · rfl
      · have := hpro'.2 hx
        have : rd data' (rd data 52 2 + 16) 4 = rd data (rd data 52 2 + 16) 4 := ha.rd_eq (by omega)
        simp only [if_true, this]
    obtain ⟨blocks', stp', _, hsp', _, _, hffs'⟩ := parseFv_ffs_eq hp'
    rw [e44, hsp] at hsp'
    simp only [Except.ok.injEq] at hsp'
    subst hsp'
    obtain ⟨_, free', hpf'⟩ := hffs' (by rw [e16]; exact hg)
    simp only at hpf'
    rw [edo, e32] at hpf'
    -- the walk over the clipped buffers
    have hfl : (data.take (rd data 32 8)).length = rd data 32 8 := by rw [List.length_take]; omega
    have hbig2 : (data.take (rd data 32 8)).length + 8 < 2 ^ 64 := by rw [hfl]; omega
    obtain ⟨_, _, hin⟩ := walk_bounds hbig2 pre fuel0 (doOf data) stp hpf (doOf_bound data)
    rw [hfl] at hin
    have hpL : p < rd data 32 8 := by omega
    have ha2 : Alter (data.take (rd data 32 8)) (data'.take (rd data 32 8)) p := ha.take_gt hpL
    rw [← hpd] at ha2
    have := parseFiles_alter h hbig2 pre fuel0 (doOf data) stp hpf hvf (doOf_bound data) ha2 hr h23 hcl hfree
      fv'.files free' st2 hpf'
    exact vFv_ne_of_files this


/-! ### image level -/

theorem isFvSig_congr (x y : Bytes) (hx : 4 ≤ x.length) (hy : 4 ≤ y.length) (h : x.take 4 = y.take 4) :
    isFvSig x = isFvSig y := by
  have h1 := isFvSig_iff x hx
  have h2 := isFvSig_iff y hy
  rw [h] at h1
  cases hx' : isFvSig x <;> cases hy' : isFvSig y <;> simp_all

theorem findFvOffset_alter_far {b b' : Bytes} {p : Nat} (h0 : findFvOffset b = some 0) (ha : Alter b b' p)
    (hp : 44 ≤ p) : findFvOffset b' = some 0 := by
  obtain ⟨hl, h32, h40⟩ := (findFvOffset_zero_iff b).mp h0
  have hl' : 44 < b'.length := by rw [ha.length_eq]; exact hl
  have e32 : (b'.drop 32).take 4 = (b.drop 32).take 4 := ha.slice_eq (off := 32) (len := 4) (by omega)
  have e40 : (b'.drop 40).take 4 = (b.drop 40).take 4 := ha.slice_eq (off := 40) (len := 4) (by omega)
  refine (findFvOffset_zero_iff b').mpr ⟨hl', ?_, ?_⟩
  · rw [isFvSig_congr _ _ (by rw [List.length_drop]; omega) (by rw [List.length_drop]; omega) e32]; exact h32
  · rw [isFvSig_congr _ _ (by rw [List.length_drop]; omega) (by rw [List.length_drop]; omega) e40]; exact h40

theorem findSignature_alter_far {b b' : Bytes} {p : Nat} (ha : Alter b b' p) (hp : 20 ≤ p) :
    findSignature b' = findSignature b := by
  unfold findSignature
  rw [ha.length_eq, ha.slice_eq (off := 16) (len := 4) (by omega), ha.slice_eq (off := 0) (len := 4) (by omega)]

set_option maxRecDepth 8192 in
/-- **C09b at image level, files of the first volume.**  `b` is an image without flash descriptor whose
    first volume `fv` starts at offset 0; `b` parses and validates cleanly; `f` is a file directly inside
    `fv` (`fv.files = pre ++ f :: post`, so it starts at offset `o = align8 (startAfter pre DataOffset)`);
    `b'` differs from `b` in exactly the byte at `o + r`, a protected byte of `f`: a header byte other than
    `State` (size, attributes and `IntegrityCheck.File` included), or any byte of `f` when it carries the
    body-checksum attribute.  Then for `b'` the parser fails or validate reports at least one error.
    Hypotheses forced by the proof: the byte lies behind the volume header and extended header
    (`fvPrologue`; true of every file byte of a well-formed image); the image is shorter than 2^64 − 8 bytes;
    and the altered header is not the free-space marker (size FFFFFF followed by eight erased bytes) —
    at that excluded point the real code misses the alteration (known finding F-C09-freespace). -/
theorem alter_detected_file_first (h : Hooks) {b b' : Bytes} {fv : Fv} {st1 : St} {pre post : List File}
    {f : File} {r : Nat}
    (hns : findSignature b = none) (h0 : findFvOffset b = some 0) (hok : parseValidate h b = .ok [])
    (hfv : parseFv h (b.length + 7) b 0 false {} = .ok (fv, st1))
    (hfiles : fv.files = pre ++ f :: post)
    (ha : Alter b b' (align8 (startAfter pre fv.info.dataOffset) + r))
    (hr : r < f.info.extSize) (h23 : r ≠ 23)
    (hcl : r < (if isLarge f.info.attrs = true then 32 else 24) ∨ hasChecksum f.info.attrs = true)
    (hpro : fvPrologue b ≤ align8 (startAfter pre fv.info.dataOffset) + r)
    (hbig : b.length + 8 < 2 ^ 64)
    (hfree : ¬ FreeSpaceAt (b'.take (rd b 32 8)) (align8 (startAfter pre fv.info.dataOffset))) :
    parseValidate h b' ≠ .ok [] := by
  -- the first volume of `b` validates
  unfold parseValidate parseWith at hok
  rw [hns] at hok
  simp only [parseBios, defaultFuel] at hok
  have hf : b.length + 8 = (b.length + 7) + 1 := by omega
  rw [hf, parseBiosElems_first h _ b 0 {} h0, hfv] at hok
  simp only at hok
  have hvfv : vFv fv = [] := by
    by_cases hz : fv.info.length = 0
    · simp [hz] at hok
    · simp only [hz, if_false] at hok
      cases hrest : parseBiosElems h (b.length + 7) (List.drop fv.info.length b) (0 + fv.info.length) st1 with
      | error e => rw [hrest] at hok; simp at hok
      | ok r2 =>
        obtain ⟨es, st2⟩ := r2
        rw [hrest] at hok
        simp only [Except.ok.injEq] at hok
        simp only [validate, vBios, vBiosElems, List.append_eq_nil_iff] at hok
        exact hok.2.1.1
  -- the altered byte is far behind the places the image-level scan looks at
  obtain ⟨hvn, _⟩ := vFv_nil hvfv
  have okn := (validateFvNode_nil_iff _ _).mp hvn
  have hhl : fv.info.headerLen = rd b 48 2 := (parseFv_ok_fields _ _ _ _ _ _ _ _ hfv).2.2.2.2.1
  have h64 : 64 ≤ align8 (startAfter pre fv.info.dataOffset) + r := by
    have : rd b 48 2 ≤ fvPrologue b := by unfold fvPrologue; split <;> omega
    have := okn.hl
    omega
  have hns' : findSignature b' = none := by rw [findSignature_alter_far ha (by omega)]; exact hns
  have h0' := findFvOffset_alter_far h0 ha (by omega)
  unfold parseValidate parseWith
  rw [hns']
  simp only [parseBios, defaultFuel]
  have hf' : b'.length + 8 = (b.length + 7) + 1 := by rw [ha.length_eq]
  rw [hf', parseBiosElems_first h _ b' 0 {} h0']
  cases hpf' : parseFv h (b.length + 7) b' 0 false {} with
  | error e => simp
  | ok r' =>
    obtain ⟨fv', st1'⟩ := r'
    simp only
    have hbad := fv_file_alter_detected h hfv hvfv hfiles ha hr h23 hcl hpro hbig hfree fv' st1' hpf'
    by_cases hz : fv'.info.length = 0
    · simp [hz]
    · simp only [hz, if_false]
      cases hrest : parseBiosElems h (b.length + 7) (List.drop fv'.info.length b') (0 + fv'.info.length) st1' with
      | error e => simp
      | ok r2 =>
        obtain ⟨es', st2'⟩ := r2
        simp only [ne_eq, Except.ok.injEq, validate]
        intro e
        simp only [vBios, vBiosElems, List.append_eq_nil_iff] at e
        exact hbad e.2.1.1

end Fiano.Uefi
