/-
  C05 (follow-up wp-c05b) — safety of the Go-semantics model of `visitors.Assemble`, part 2: the recursion
  over the tree (sections, files, volumes), the BIOS region, the flash descriptor, the flash image, and
  the whole run `assembleG`.  On every tree that satisfies `TreeA` — which every tree returned by the
  parser does (`treeA_of_wf`) — `assembleG` returns a value, an ordinary error or `hugeSite`, and the
  tree it returns satisfies `TreeA` again (so it can be edited and assembled again).
-/
import FianoModel.Uefi.TotalAsmSafe

namespace Fiano.Uefi.Total
open Fiano GoM Fiano.Uefi

/-- a non-resizable volume whose buffer has its header length keeps both -/
def FvKeep (v r : Fv) : Prop :=
  r.info.resizable = v.info.resizable ∧
  (v.info.resizable = false → v.buf.length = v.info.length → r.buf.length = v.buf.length ∧ r.info.length = v.info.length)

mutual

theorem asmSection_post (sg : Bool) (h : AsmHooksG) (he : EncOk h) (hn : NvAsmOk h) :
    ∀ (s : Section) (st : St) (m : Meter), SecA sg s → PostA (asmSectionG h s st) m (fun r _ => SecA sg r.1)
  | .mk i buf encap, st, m, hw => by
    rw [asmSectionG]
    simp only [SecA] at hw
    refine postA_bind' (asmNodes_post sg h he hn encap st m hw.2) ?_
    rintro ⟨encap', st1⟩ m1 hen
    simp only [] at hen ⊢
    split
    · refine postA_bind' (regenLeafG_post i m1) ?_
      intro r m2 _
      split
      · exact postA_pure (by simp only [SecA, NodesA]; exact ⟨hw.1, trivial⟩)
      · rename_i body
        refine postA_bind' (genSecHeaderG_post i body m2 hw.1) ?_
        rintro ⟨i', buf'⟩ m3 ⟨ht, hts⟩
        simp only [] at ht hts ⊢
        exact postA_pure (by simp only [SecA, NodesA]; exact ⟨fun h2 => hts (by rw [← ht]; exact h2), trivial⟩)
    · rename_i x xs
      refine postA_bind' (joinPad4G_post _ [] 0 m1) ?_
      rintro ⟨secData, dl⟩ m2 _
      simp only []
      refine postA_bind' (R := fun _ _ => True) ?_ ?_
      · refine postA_ite (fun h2 => ?_) (fun _ => postA_pure trivial)
        split
        · rename_i hnone
          have := hw.1 h2
          simp [hnone] at this
        · rename_i g hg
          refine postA_ite (fun _ => ?_) (fun _ => postA_pure trivial)
          split
          · exact postA_err
          · rename_i enc henc
            refine postA_bind' (he g.guid enc secData m2 henc) ?_
            intro r m3 _
            split
            · exact postA_pure trivial
            · exact postA_err
      · intro body m3 _
        refine postA_bind' (genSecHeaderG_post i body m3 hw.1) ?_
        rintro ⟨i', buf'⟩ m4 ⟨ht, hts⟩
        simp only [] at ht hts ⊢
        exact postA_pure (by simp only [SecA]; exact ⟨fun h2 => hts (by rw [← ht]; exact h2), hen⟩)

theorem asmNodes_post (sg : Bool) (h : AsmHooksG) (he : EncOk h) (hn : NvAsmOk h) :
    ∀ (ns : List Node) (st : St) (m : Meter), NodesA sg ns → PostA (asmNodesG h ns st) m (fun r _ => NodesA sg r.1)
  | [], st, m, _ => by rw [asmNodesG]; exact postA_pure (by simp [NodesA])
  | .sec s :: ns, st, m, hw => by
    rw [asmNodesG]
    simp only [NodesA] at hw
    refine postA_bind' (asmSection_post sg h he hn s st m hw.1) ?_
    rintro ⟨s', st1⟩ m1 hs
    refine postA_bind' (asmNodes_post sg h he hn ns st1 m1 hw.2) ?_
    rintro ⟨ns', st2⟩ m2 hns
    exact postA_pure (by simp only [NodesA]; exact ⟨hs, hns⟩)
  | .fv v :: ns, st, m, hw => by
    rw [asmNodesG]
    simp only [NodesA] at hw
    refine postA_bind' (asmFv_post sg h he hn v st m hw.1) ?_
    rintro ⟨v', st1⟩ m1 hv
    refine postA_bind' (asmNodes_post sg h he hn ns st1 m1 hw.2) ?_
    rintro ⟨ns', st2⟩ m2 hns
    exact postA_pure (by simp only [NodesA]; exact ⟨hv.1, hns⟩)

theorem asmSections_post (sg : Bool) (h : AsmHooksG) (he : EncOk h) (hn : NvAsmOk h) :
    ∀ (ss : List Section) (st : St) (m : Meter), SecsA sg ss → PostA (asmSectionsG h ss st) m (fun r _ => SecsA sg r.1)
  | [], st, m, _ => by rw [asmSectionsG]; exact postA_pure (by simp [SecsA])
  | s :: ss, st, m, hw => by
    rw [asmSectionsG]
    simp only [SecsA] at hw
    refine postA_bind' (asmSection_post sg h he hn s st m hw.1) ?_
    rintro ⟨s', st1⟩ m1 hs
    refine postA_bind' (asmSections_post sg h he hn ss st1 m1 hw.2) ?_
    rintro ⟨ss', st2⟩ m2 hss
    exact postA_pure (by simp only [SecsA]; exact ⟨hs, hss⟩)

theorem asmFile_post (sg : Bool) (h : AsmHooksG) (he : EncOk h) (hn : NvAsmOk h) :
    ∀ (f : File) (st : St) (m : Meter), FileA sg f → PostA (asmFileG h f st) m (fun r _ => FileA sg r.1)
  | .mk i buf secs, st, m, hw => by
    rw [asmFileG]
    simp only [FileA] at hw
    split
    · rename_i nv _
      refine postA_bind' (hn nv st.pol m) ?_
      intro nv' m1 _
      simp only []
      refine postA_bind' (checksumAndAssembleG_post _ _ _) ?_
      rintro ⟨i2, buf'⟩ m2 hb
      exact postA_pure (by simp only [FileA]; exact ⟨hb, hw.2⟩)
    · refine postA_bind' (asmSections_post sg h he hn secs st m hw.2) ?_
      rintro ⟨secs', st1⟩ m1 hss
      simp only [] at hss ⊢
      split
      · exact postA_pure (by simp only [FileA, SecsA]; exact ⟨hw.1, trivial⟩)
      · refine postA_bind' (joinPad4G_post _ [] 0 m1) ?_
        rintro ⟨fileData, dLen⟩ m2 _
        simp only []
        refine postA_bind' (checksumAndAssembleG_post _ _ _) ?_
        rintro ⟨i2, buf'⟩ m3 hb
        exact postA_pure (by simp only [FileA]; exact ⟨hb, hss⟩)

theorem asmFiles_post (sg : Bool) (h : AsmHooksG) (he : EncOk h) (hn : NvAsmOk h) :
    ∀ (fs : List File) (st : St) (m : Meter), FilesA sg fs →
      PostA (asmFilesG h fs st) m (fun r _ => FilesA sg r.1 ∧ (r.1 ≠ [] → fs ≠ []))
  | [], st, m, _ => by rw [asmFilesG]; exact postA_pure (by simp [FilesA])
  | f :: fs, st, m, hw => by
    rw [asmFilesG]
    simp only [FilesA] at hw
    refine postA_bind' (asmFile_post sg h he hn f st m hw.1) ?_
    rintro ⟨f', st1⟩ m1 hf
    refine postA_bind' (asmFiles_post sg h he hn fs st1 m1 hw.2) ?_
    rintro ⟨fs', st2⟩ m2 hfs
    exact postA_pure (by simp only [FilesA]; exact ⟨⟨hf, hfs.1⟩, fun _ => by simp⟩)

theorem asmFv_post (sg : Bool) (h : AsmHooksG) (he : EncOk h) (hn : NvAsmOk h) :
    ∀ (v : Fv) (st : St) (m : Meter), FvA sg v → PostA (asmFvG h v st) m (fun r _ => FvA sg r.1 ∧ FvKeep v r.1)
  | .mk i buf files, st, m, hw => by
    rw [asmFvG]
    simp only [FvA] at hw
    split
    · exact postA_err
    · rename_i st0 _
      refine postA_bind' (asmFiles_post sg h he hn files st0 m hw.2) ?_
      rintro ⟨files', st1⟩ m1 ⟨hfs, hne⟩
      simp only [] at hfs hne ⊢
      split
      · refine postA_pure ⟨by simp only [FvA, FilesA]; exact ⟨fun hx => hw.1 (hx.elim Or.inl (fun hx => absurd rfl hx)), trivial⟩, ?_⟩
        simp [FvKeep, Fv.info, Fv.buf]
      · rename_i x xs
        have hfne : files ≠ [] := hne (by simp)
        obtain ⟨hdo, h60⟩ := hw.1 (Or.inr hfne)
        refine postA_bind' (relayoutFvG_post sg i buf (x :: xs) st1 m1 hdo h60 hfs (by simp)) ?_
        rintro ⟨i', buf', st'⟩ m2 ⟨h1, h2, h3, h4⟩
        simp only [] at h1 h2 h3 h4 ⊢
        refine postA_pure ⟨by simp only [FvA]; exact ⟨fun _ => ⟨h1, h2⟩, hfs⟩, ?_⟩
        simp only [FvKeep, Fv.info, Fv.buf]
        refine ⟨h3, fun hnr hbl => ?_⟩
        have := h4 hnr
        omega

end

/-! ### BIOS region -/

/-- the elements of a BIOS region: volumes are assemblable, not resizable, and as long as their header says -/
def ElemsA (sg : Bool) : List BiosElem → Prop
  | [] => True
  | .pad _ _ :: es => ElemsA sg es
  | .fv v :: es => (FvA sg v ∧ v.info.resizable = false ∧ v.buf.length = v.info.length) ∧ ElemsA sg es

/-- … and together they are not longer than the region -/
def BiosA (sg : Bool) (b : BiosRegion) : Prop := ElemsA sg b.elems ∧ elemsLen b.elems ≤ b.length

theorem asmBiosElems_post (sg : Bool) (h : AsmHooksG) (he : EncOk h) (hn : NvAsmOk h) :
    ∀ (es : List BiosElem) (st : St) (m : Meter), ElemsA sg es →
      PostA (asmBiosElemsG h es st) m (fun r _ => ElemsA sg r.1 ∧ elemsLen r.1 = elemsLen es)
  | [], st, m, _ => by rw [asmBiosElemsG]; exact postA_pure ⟨by simp [ElemsA], rfl⟩
  | .pad b o :: es, st, m, hw => by
    rw [asmBiosElemsG]
    simp only [ElemsA] at hw
    refine postA_bind' (asmBiosElems_post sg h he hn es st m hw) ?_
    rintro ⟨es', st'⟩ m1 ⟨h1, h2⟩
    exact postA_pure ⟨by simp only [ElemsA]; exact h1, by simp only [elemsLen] at h2 ⊢; omega⟩
  | .fv v :: es, st, m, hw => by
    rw [asmBiosElemsG]
    simp only [ElemsA] at hw
    obtain ⟨⟨hva, hnr, hbl⟩, hes⟩ := hw
    refine postA_bind' (asmFv_post sg h he hn v st m hva) ?_
    rintro ⟨v', st1⟩ m1 ⟨hv', hk1, hk2⟩
    simp only [] at hv' hk1 hk2 ⊢
    refine postA_bind' (asmBiosElems_post sg h he hn es st1 m1 hes) ?_
    rintro ⟨es', st2⟩ m2 ⟨h1, h2⟩
    have := hk2 hnr hbl
    refine postA_pure ⟨?_, ?_⟩
    · simp only [ElemsA]
      exact ⟨⟨hv', by rw [hk1]; exact hnr, by omega⟩, h1⟩
    · simp only [elemsLen, BiosElem.buf] at h2 ⊢
      omega

theorem copyElemsG_post : ∀ (es : List BiosElem) (offset : Nat) (fbuf : Bytes) (m : Meter),
    offset + elemsLen es ≤ fbuf.length → fbuf.length < 2 ^ 63 →
    PostA (copyElemsG es offset fbuf) m (fun r _ => r.length = fbuf.length)
  | [], _, fbuf, m, _, _ => by rw [copyElemsG]; exact postA_pure rfl
  | e :: es, offset, fbuf, m, hle, hlt => by
    rw [copyElemsG]
    simp only [elemsLen] at hle
    have hhi : (offset + e.buf.length) % u64 = offset + e.buf.length := by
      simp only [u64]; omega
    simp only [hhi]
    refine postA_bind (postA_sliceG ⟨by omega, by omega⟩ ?_)
    have hsl : (splice fbuf offset e.buf).length = fbuf.length := splice_length _ _ _ (by omega)
    refine postA_mono (copyElemsG_post es _ _ m (by rw [hsl]; omega) (by rw [hsl]; exact hlt)) ?_
    intro r _ hr
    rw [hr, hsl]

theorem asmBiosG_post (sg : Bool) (h : AsmHooksG) (he : EncOk h) (hn : NvAsmOk h) (b : BiosRegion) (st : St) (m : Meter)
    (hw : BiosA sg b) : PostA (asmBiosG h b st) m (fun r _ => BiosA sg r.1 ∧ r.1.fr = b.fr) := by
  unfold asmBiosG
  refine postA_bind' (asmBiosElems_post sg h he hn b.elems st m hw.1) ?_
  rintro ⟨es, st1⟩ m1 ⟨hes, hlen⟩
  simp only [] at hes hlen ⊢
  refine postA_bind (postA_makeG (fun hfit => ?_))
  split
  · exact postA_err
  · split
    · exact postA_err
    · rename_i st2 _
      refine postA_bind' (copyElemsG_post es 0 (List.replicate b.length st2.pol) _ (by simp; have := hw.2; omega)
        (by simpa using hfit)) ?_
      intro fbuf m2 _
      exact postA_pure ⟨⟨hes, by simp only []; have := hw.2; omega⟩, rfl⟩

/-! ### flash descriptor and flash image -/

theorem splice_length_le (b : Bytes) (off : Nat) (d : Bytes) (n : Nat) (hd : d.length ≤ n)
    (hb : off + n ≤ b.length) : (splice b off d).length = b.length :=
  splice_length _ _ _ (by omega)

theorem asmDescriptorG_post (d : Descriptor) (m : Meter) (hw : DescWf d) :
    PostA (asmDescriptorG d) m (fun r _ => DescWf r ∧ r.region = d.region ∧ r.map = d.map) := by
  unfold asmDescriptorG
  obtain ⟨h15, hlen, hms, hrs, hmas⟩ := hw
  try simp only []
  refine postA_bind (postA_sliceG ⟨by omega, by omega⟩ ?_)
  have l1 : (splice d.buf d.mapStart ((d.map.fields.map byte).take 16)).length = 4096 := by
    rw [splice_length_le _ _ _ 16 (List.length_take_le _ _) (by omega), hlen]
  refine postA_bind (postA_sliceG ⟨by omega, by omega⟩ ?_)
  refine postA_bind (postA_sliceFromG (by simp) ?_)
  generalize hrb : List.drop 2 ([0, 0] ++ leN 2 d.region.eraseSize ++ encodeRegions d.region.regions) = rb
  have l2 : (splice (splice d.buf d.mapStart ((d.map.fields.map byte).take 16)) (d.regionStart + 2) (rb.take 62)).length
      = 4096 := by
    rw [splice_length_le _ _ _ 62 (List.length_take_le _ _) (by omega), l1]
  refine postA_bind (postA_sliceG ⟨by omega, by omega⟩ ?_)
  refine postA_pure ⟨⟨h15, ?_, hms, hrs, hmas⟩, rfl, rfl⟩
  simp only []
  rw [splice_length_le _ _ _ 12 (List.length_take_le _ _) (by omega), l2]

/-- a region of a flash image: it has its `FlashRegion`, and a BIOS region is assemblable -/
def RegionA (sg : Bool) : Region → Prop
  | .bios b => BiosA sg b ∧ b.fr.isSome = true
  | _ => True

theorem regionA_fr (sg : Bool) : ∀ (r : Region), RegionA sg r → r.fr.isSome = true
  | .bios b, h => by simpa [Region.fr] using h.2
  | .me _ _, _ => rfl
  | .raw _ _ _, _ => rfl

theorem asmRegions_post (sg : Bool) (h : AsmHooksG) (he : EncOk h) (hn : NvAsmOk h) :
    ∀ (rs : List Region) (st : St) (m : Meter), (∀ r ∈ rs, RegionA sg r) →
      PostA (asmRegionsG h rs st) m (fun r _ => ∀ x ∈ r.1, RegionA sg x)
  | [], st, m, _ => by rw [asmRegionsG]; exact postA_pure (by simp)
  | .bios b :: rs, st, m, hw => by
    rw [asmRegionsG]
    have hb := hw (.bios b) (by simp)
    refine postA_bind' (asmBiosG_post sg h he hn b st m hb.1) ?_
    rintro ⟨b', st1⟩ m1 ⟨hb', hfr⟩
    simp only [] at hb' hfr ⊢
    refine postA_bind' (asmRegions_post sg h he hn rs st1 m1 (fun r hr => hw r (by simp [hr]))) ?_
    rintro ⟨rs', st2⟩ m2 hrs
    refine postA_pure ?_
    intro x hx
    simp only [List.mem_cons] at hx
    rcases hx with hx | hx
    · subst hx; exact ⟨hb', by rw [hfr]; exact hb.2⟩
    · exact hrs x hx
  | .me buf fr :: rs, st, m, hw => by
    rw [asmRegionsG]
    · refine postA_bind' (asmRegions_post sg h he hn rs st m (fun r hr => hw r (by simp [hr]))) ?_
      rintro ⟨rs', st2⟩ m2 hrs
      refine postA_pure ?_
      intro x hx
      simp only [List.mem_cons] at hx
      rcases hx with hx | hx
      · subst hx; trivial
      · exact hrs x hx
    · intro b hb; cases hb
  | .raw buf fr t :: rs, st, m, hw => by
    rw [asmRegionsG]
    · refine postA_bind' (asmRegions_post sg h he hn rs st m (fun r hr => hw r (by simp [hr]))) ?_
      rintro ⟨rs', st2⟩ m2 hrs
      refine postA_pure ?_
      intro x hx
      simp only [List.mem_cons] at hx
      rcases hx with hx | hx
      · subst hx; trivial
      · exact hrs x hx
    · intro b hb; cases hb

theorem setFr_regionA (sg : Bool) (f : FlashRegion) : ∀ (r : Region), RegionA sg r → RegionA sg (r.setFr f)
  | .bios b, h => by
    simp only [Region.setFr, RegionA]
    exact ⟨⟨h.1.1, h.1.2⟩, rfl⟩
  | .me _ _, _ => trivial
  | .raw _ _ _, _ => trivial

theorem repoint_regionA (sg : Bool) (tbl : List FlashRegion) (nr : Nat) (r : Region) (hr : RegionA sg r) :
    RegionA sg (repoint tbl nr r) := by
  unfold repoint
  try simp only []
  split
  · exact hr
  · split
    · exact hr
    · split
      · exact hr
      · split
        · exact setFr_regionA sg _ r hr
        · exact hr

theorem any_isNone_false (sg : Bool) : ∀ (rs : List Region), (∀ r ∈ rs, RegionA sg r) → rs.any (fun r => r.fr.isNone) = false
  | [], _ => rfl
  | r :: rs, h => by
    have h1 := regionA_fr sg r (h r (by simp))
    have h2 := any_isNone_false sg rs (fun x hx => h x (by simp [hx]))
    simp only [List.any_cons, h2, Bool.or_false]
    cases hfr : r.fr with
    | none => simp [hfr] at h1
    | some f => rfl

theorem tileRegionsG_post (sg : Bool) : ∀ (rs : List Region) (offset : Nat) (acc : Bytes) (m : Meter),
    (∀ r ∈ rs, RegionA sg r) → PostA (tileRegionsG rs offset acc) m (fun _ _ => True)
  | [], _, _, m, _ => by rw [tileRegionsG]; exact postA_pure trivial
  | r :: rs, offset, acc, m, h => by
    rw [tileRegionsG]
    have h1 := regionA_fr sg r (h r (by simp))
    split
    · rename_i hnone
      simp [hnone] at h1
    · refine postA_ite (fun _ => postA_err) (fun _ => ?_)
      refine postA_ite (fun _ => postA_err) (fun _ => ?_)
      refine postA_bind (postA_appendG (fun _ => ?_))
      exact tileRegionsG_post sg rs _ _ _ (fun x hx => h x (by simp [hx]))

def FlashA (sg : Bool) (f : Flash) : Prop := DescWf f.ifd ∧ ∀ r ∈ f.regions, RegionA sg r

theorem asmFlashG_post (sg : Bool) (h : AsmHooksG) (he : EncOk h) (hn : NvAsmOk h) (f : Flash) (st : St) (m : Meter)
    (hw : FlashA sg f) : PostA (asmFlashG h f st) m (fun r _ => FlashA sg r.1) := by
  unfold asmFlashG
  refine postA_bind' (asmDescriptorG_post f.ifd m hw.1) ?_
  intro ifd m1 ⟨hd, hreg, hmap⟩
  refine postA_bind' (asmRegions_post sg h he hn f.regions st m1 hw.2) ?_
  rintro ⟨rs, st1⟩ m2 hrs
  simp only [] at hrs ⊢
  have h0 : 0 < ifd.region.regions.length := by have := hd.1; omega
  rw [List.getElem?_eq_getElem h0]
  simp only []
  refine postA_ite (fun _ => postA_err) (fun _ => ?_)
  have hmapA : ∀ x ∈ rs.map (repoint ifd.region.regions ifd.map.numberOfRegions), RegionA sg x := by
    intro x hx
    simp only [List.mem_map] at hx
    obtain ⟨y, hy, hxy⟩ := hx
    subst hxy
    exact repoint_regionA sg _ _ y (hrs y hy)
  rw [any_isNone_false sg _ hmapA]
  simp only [Bool.false_eq_true, if_false]
  have hsortA : ∀ x ∈ sortRegions (rs.map (repoint ifd.region.regions ifd.map.numberOfRegions)), RegionA sg x :=
    fun x hx => hmapA x (mem_sortRegions x _ hx)
  refine postA_bind (postA_makeG (fun _ => ?_))
  refine postA_bind (postA_appendG (fun _ => ?_))
  refine postA_bind' (tileRegionsG_post sg _ 4096 ifd.buf _ hsortA) ?_
  rintro ⟨buf, offset⟩ m3 _
  simp only []
  refine postA_ite (fun _ => postA_err) (fun _ => ?_)
  exact postA_pure ⟨hd, hsortA⟩

/-! ### the whole tree -/

def TreeA (sg : Bool) : Tree → Prop
  | .flash f => FlashA sg f
  | .bios b => BiosA sg b

/-- **Assemble is total on every assemblable tree**, and returns an assemblable tree -/
theorem assembleG_post (sg : Bool) (h : AsmHooksG) (he : EncOk h) (hn : NvAsmOk h) (t : Tree) (st : St) (m : Meter)
    (hw : TreeA sg t) : PostA (assembleG h t st) m (fun r _ => TreeA sg r.1) := by
  unfold assembleG asmTreeG
  cases t with
  | flash f =>
    simp only []
    refine postA_bind' (asmFlashG_post sg h he hn f _ m hw) ?_
    rintro ⟨f', st'⟩ m1 hf
    exact postA_pure hf
  | bios b =>
    simp only []
    refine postA_bind' (asmBiosG_post sg h he hn b _ m hw) ?_
    rintro ⟨b', st'⟩ m1 hb
    exact postA_pure hb.1

/-! ### every tree the parser returns is assemblable -/

theorem elemsA_of_wf : ∀ (es : List BiosElem), ElemsWf es → ElemsFlat es → ElemsA false es
  | [], _, _ => by simp [ElemsA]
  | .pad _ _ :: es, h1, h2 => by
    simp only [ElemsWf, ElemsFlat] at h1 h2
    simp only [ElemsA]
    exact elemsA_of_wf es h1 h2
  | .fv v :: es, h1, h2 => by
    simp only [ElemsWf, ElemsFlat] at h1 h2
    simp only [ElemsA]
    exact ⟨⟨fvA_of_wf v h1.1, h2.1, fvWf_buf_length v h1.1⟩, elemsA_of_wf es h1.2 h2.2⟩

theorem biosA_of_wf (b : BiosRegion) (h : BiosWf b) : BiosA false b :=
  ⟨elemsA_of_wf b.elems h.1 h.2.1, by have := h.2.2; omega⟩

theorem regionA_of_wf : ∀ (r : Region), RegionWfF r → RegionA false r
  | .bios b, h => ⟨biosA_of_wf b h.1, by simpa [Region.fr] using h.2⟩
  | .me _ _, _ => trivial
  | .raw _ _ _, _ => trivial

theorem treeA_of_wf : ∀ (t : Tree), TreeWf t → TreeA false t
  | .flash f, h => ⟨h.1, fun r hr => regionA_of_wf r (h.2 r hr)⟩
  | .bios b, h => biosA_of_wf b h

end Fiano.Uefi.Total
