/-
  Lemmas for property C07: no two nodes are extracted to the same path.

  `pw*` is what the argument needs of a tree: sibling sections have distinct FileOrders, sibling
  volumes distinct offsets, BIOS paddings distinct offsets, regions distinct first components.
  Sibling *files* need nothing: the running index separates them whatever their GUIDs are.
-/
import FianoModel.Uefi.ExtractPathsBase
import FianoModel.Uefi.ExtractNvarParsed

namespace Fiano.Uefi
open Fiano

/-! ### where the entries of a subtree lie -/

mutual
theorem exSection_ext : ∀ (dir : List Comp) (idx : Nat) (s : Section), ∀ e ∈ exSection dir idx s,
    Ext (secDir dir s.info) e.1
  | dir, idx, .mk i buf [], e, he => by
    simp only [exSection, List.mem_singleton] at he
    subst he
    exact Ext.leaf _ _ (slashFree_append (slashFree_decStr _) slashFree_consts.1)
  | dir, idx, .mk i buf (a :: t), e, he => by
    simp only [exSection] at he
    rcases exNodes_ext (secDir dir i) idx (a :: t) e he with ⟨o, _, hx⟩ | ⟨o, _, hx⟩
    · exact hx.up (slashFree_decStr _)
    · exact hx.up (slashFree_hexStr _)
theorem exNodes_ext : ∀ (dir : List Comp) (idx : Nat) (ns : List Node), ∀ e ∈ exNodes dir idx ns,
    (∃ o ∈ nodeOrders ns, Ext (dir ++ [decStr o]) e.1) ∨ (∃ o ∈ nodeOffsets ns, Ext (dir ++ [hexStr o]) e.1)
  | _, _, [], e, he => by simp [exNodes] at he
  | dir, idx, .sec s :: t, e, he => by
    simp only [exNodes, List.mem_append] at he
    rcases he with he | he
    · exact Or.inl ⟨s.info.fileOrder, by simp [nodeOrders], exSection_ext dir idx s e he⟩
    · rcases exNodes_ext dir _ t e he with ⟨o, ho, hx⟩ | ⟨o, ho, hx⟩
      · exact Or.inl ⟨o, by simp [nodeOrders, ho], hx⟩
      · exact Or.inr ⟨o, by simp [nodeOffsets, ho], hx⟩
  | dir, idx, .fv v :: t, e, he => by
    simp only [exNodes, List.mem_append] at he
    rcases he with he | he
    · exact Or.inr ⟨v.info.fvOffset, by simp [nodeOffsets], exFv_ext dir idx v e he⟩
    · rcases exNodes_ext dir _ t e he with ⟨o, ho, hx⟩ | ⟨o, ho, hx⟩
      · exact Or.inl ⟨o, by simp [nodeOrders, ho], hx⟩
      · exact Or.inr ⟨o, by simp [nodeOffsets, ho], hx⟩
theorem exSections_ext : ∀ (dir : List Comp) (idx : Nat) (ss : List Section), ∀ e ∈ exSections dir idx ss,
    ∃ o ∈ secOrders ss, Ext (dir ++ [decStr o]) e.1
  | _, _, [], e, he => by simp [exSections] at he
  | dir, idx, s :: t, e, he => by
    simp only [exSections, List.mem_append] at he
    rcases he with he | he
    · exact ⟨s.info.fileOrder, by simp [secOrders], exSection_ext dir idx s e he⟩
    · obtain ⟨o, ho, hx⟩ := exSections_ext dir _ t e he
      exact ⟨o, by simp only [secOrders, List.map_cons, List.mem_cons]; exact Or.inr ho, hx⟩
theorem exFile_ext : ∀ (pol : Nat) (dir : List Comp) (idx : Nat) (f : File), ∀ e ∈ exFile pol dir idx f,
    Ext (fileDir dir f.info idx) e.1
  | pol, dir, idx, .mk i buf secs, e, he => by
    cases hnv : i.nvar with
    | some nv =>
      simp only [exFile, hnv, nvOfFile] at he
      cases hps : Nvram.parseStore pol (buf.drop i.dataOffset) with
      | error x => rw [hps] at he; cases he
      | ok st =>
        rw [hps] at he
        exact nvEntries_below _ pol (fileDir dir i idx) st.entries e he
    | none =>
      cases secs with
      | nil =>
        simp only [exFile, hnv, List.mem_singleton] at he
        subst he
        exact Ext.leaf _ _ (slashFree_append (slashFree_guidStr _) slashFree_consts.2.1)
      | cons a t =>
        simp only [exFile, hnv] at he
        obtain ⟨o, _, hx⟩ := exSections_ext (fileDir dir i idx) (idx + 1) (a :: t) e he
        exact hx.up (slashFree_decStr _)
theorem exFiles_ext : ∀ (pol : Nat) (dir : List Comp) (idx : Nat) (fs : List File), ∀ e ∈ exFiles pol dir idx fs,
    ∃ g k, idx ≤ k ∧ SlashFree g ∧ Ext (dir ++ [g, decStr k]) e.1
  | _, _, _, [], e, he => by simp [exFiles] at he
  | pol, dir, idx, f :: t, e, he => by
    simp only [exFiles, List.mem_append] at he
    rcases he with he | he
    · exact ⟨guidStr f.info.guid, idx, Nat.le_refl _, slashFree_guidStr _, exFile_ext pol dir idx f e he⟩
    · obtain ⟨g, k, hk, hg, hx⟩ := exFiles_ext pol dir _ t e he
      exact ⟨g, k, by omega, hg, hx⟩
theorem exFv_ext : ∀ (dir : List Comp) (idx : Nat) (v : Fv), ∀ e ∈ exFv dir idx v,
    Ext (fvDir dir v.info) e.1
  | dir, idx, .mk i buf [], e, he => by
    simp only [exFv, List.mem_singleton] at he
    subst he
    exact Ext.leaf _ _ (by simp only [Bool.false_eq_true, ↓reduceIte]; exact slashFree_consts.2.2.2.1)
  | dir, idx, .mk i buf (a :: t), e, he => by
    simp only [exFv, List.mem_cons] at he
    rcases he with rfl | he
    · exact Ext.leaf _ _ (by simp only [↓reduceIte]; exact slashFree_consts.2.2.2.2.1)
    · obtain ⟨g, k, _, hg, hx⟩ := exFiles_ext _ (fvDir dir i) idx (a :: t) e he
      exact hx.up2 hg (slashFree_decStr _)
end

/-! ### distinct paths -/

theorem not_contains {l : List Nat} {x : Nat} (h : (!l.contains x) = true) : x ∉ l := by
  simpa using h

mutual
theorem exSection_nodup : ∀ (dir : List Comp) (idx : Nat) (s : Section), pwSection s = true →
    ((exSection dir idx s).map Prod.fst).Nodup
  | dir, idx, .mk i buf [], _ => by simp [exSection]
  | dir, idx, .mk i buf (a :: t), hw => by
    simp only [pwSection] at hw
    simpa [exSection] using exNodes_nodup (secDir dir i) idx (a :: t) hw
theorem exNodes_nodup : ∀ (dir : List Comp) (idx : Nat) (ns : List Node), pwNodes ns = true →
    ((exNodes dir idx ns).map Prod.fst).Nodup
  | _, _, [], _ => by simp [exNodes]
  | dir, idx, .sec s :: t, hw => by
    simp only [pwNodes, Bool.and_eq_true] at hw
    obtain ⟨⟨h1, h2⟩, h3⟩ := hw
    simp only [exNodes, paths_append, List.nodup_append]
    refine ⟨exSection_nodup dir idx s h1, exNodes_nodup dir _ t h2, ?_⟩
    intro p hp q hq
    simp only [List.mem_map] at hp hq
    obtain ⟨e1, he1, rfl⟩ := hp
    obtain ⟨e2, he2, rfl⟩ := hq
    have hx1 := exSection_ext dir idx s e1 he1
    rcases exNodes_ext dir _ t e2 he2 with ⟨o, ho, hx2⟩ | ⟨o, ho, hx2⟩
    · refine Ext.ne hx1 hx2 (fun hc => ?_)
      have := decStr_inj _ _ hc
      exact not_contains h3 (this ▸ ho)
    · exact Ext.ne hx1 hx2 (decStr_ne_hexStr _ _)
  | dir, idx, .fv v :: t, hw => by
    simp only [pwNodes, Bool.and_eq_true] at hw
    obtain ⟨⟨h1, h2⟩, h3⟩ := hw
    simp only [exNodes, paths_append, List.nodup_append]
    refine ⟨exFv_nodup dir idx v h1, exNodes_nodup dir _ t h2, ?_⟩
    intro p hp q hq
    simp only [List.mem_map] at hp hq
    obtain ⟨e1, he1, rfl⟩ := hp
    obtain ⟨e2, he2, rfl⟩ := hq
    have hx1 := exFv_ext dir idx v e1 he1
    rcases exNodes_ext dir _ t e2 he2 with ⟨o, ho, hx2⟩ | ⟨o, ho, hx2⟩
    · exact Ext.ne hx1 hx2 (fun hc => decStr_ne_hexStr _ _ hc.symm)
    · refine Ext.ne hx1 hx2 (fun hc => ?_)
      have := hexStr_inj _ _ hc
      exact not_contains h3 (this ▸ ho)
theorem exSections_nodup : ∀ (dir : List Comp) (idx : Nat) (ss : List Section), pwSections ss = true →
    ((exSections dir idx ss).map Prod.fst).Nodup
  | _, _, [], _ => by simp [exSections]
  | dir, idx, s :: t, hw => by
    simp only [pwSections, Bool.and_eq_true] at hw
    obtain ⟨⟨h1, h2⟩, h3⟩ := hw
    simp only [exSections, paths_append, List.nodup_append]
    refine ⟨exSection_nodup dir idx s h1, exSections_nodup dir _ t h2, ?_⟩
    intro p hp q hq
    simp only [List.mem_map] at hp hq
    obtain ⟨e1, he1, rfl⟩ := hp
    obtain ⟨e2, he2, rfl⟩ := hq
    have hx1 := exSection_ext dir idx s e1 he1
    obtain ⟨o, ho, hx2⟩ := exSections_ext dir _ t e2 he2
    refine Ext.ne hx1 hx2 (fun hc => ?_)
    have := decStr_inj _ _ hc
    exact not_contains h3 (this ▸ ho)
theorem exFile_nodup : ∀ (pol : Nat) (dir : List Comp) (idx : Nat) (f : File), pwFile f = true →
    ((exFile pol dir idx f).map Prod.fst).Nodup
  | pol, dir, idx, .mk i buf secs, hw => by
    simp only [pwFile] at hw
    cases hnv : i.nvar with
    | some nv =>
      simp only [exFile, hnv, nvOfFile]
      cases hps : Nvram.parseStore pol (buf.drop i.dataOffset) with
      | error x => simp
      | ok st =>
        simp only []
        exact nvEntries_nodup _ pol (fileDir dir i idx) st.entries (parsed_offsDistinct pol _ _ st hps)
    | none =>
      cases secs with
      | nil => simp [exFile, hnv]
      | cons a t => simpa [exFile, hnv] using exSections_nodup (fileDir dir i idx) (idx + 1) (a :: t) hw
theorem exFiles_nodup : ∀ (pol : Nat) (dir : List Comp) (idx : Nat) (fs : List File), pwFiles fs = true →
    ((exFiles pol dir idx fs).map Prod.fst).Nodup
  | _, _, _, [], _ => by simp [exFiles]
  | pol, dir, idx, f :: t, hw => by
    simp only [pwFiles, Bool.and_eq_true] at hw
    obtain ⟨h1, h2⟩ := hw
    simp only [exFiles, paths_append, List.nodup_append]
    refine ⟨exFile_nodup pol dir idx f h1, exFiles_nodup pol dir _ t h2, ?_⟩
    intro p hp q hq
    simp only [List.mem_map] at hp hq
    obtain ⟨e1, he1, rfl⟩ := hp
    obtain ⟨e2, he2, rfl⟩ := hq
    have hx1 := exFile_ext pol dir idx f e1 he1
    obtain ⟨g, k, hk, _, hx2⟩ := exFiles_ext pol dir _ t e2 he2
    refine Ext.ne2 hx1 hx2 (fun hc => ?_)
    have := decStr_inj _ _ hc
    have hpos : 1 ≤ exCntFile f := by
      cases f with
      | mk i b s => unfold exCntFile; split <;> omega
    omega
theorem exFv_nodup : ∀ (dir : List Comp) (idx : Nat) (v : Fv), pwFv v = true →
    ((exFv dir idx v).map Prod.fst).Nodup
  | dir, idx, .mk i buf [], _ => by simp [exFv]
  | dir, idx, .mk i buf (a :: t), hw => by
    simp only [pwFv] at hw
    simp only [exFv, List.map_cons, List.nodup_cons]
    refine ⟨?_, exFiles_nodup _ (fvDir dir i) idx (a :: t) hw⟩
    intro hm
    simp only [List.mem_map] at hm
    obtain ⟨e2, he2, heq⟩ := hm
    obtain ⟨g, k, _, hg, hx2⟩ := exFiles_ext _ (fvDir dir i) idx (a :: t) e2 he2
    have h1 : Ext ((fvDir dir i ++ [g]) ++ [decStr k]) e2.1 := by simpa using hx2
    exact Ext.ne_leaf (h1.up (slashFree_decStr _)) (by simpa [fvLeaf] using heq.symm)
end

/-! ### BIOS region -/

theorem sf_biospad (o : Nat) : SlashFree (biospadPrefix ++ hexStr o) :=
  slashFree_append slashFree_consts.2.2.2.2.2.2.2.2.2.2.2.2 (slashFree_hexStr o)

theorem exBiosElems_ext : ∀ (dir : List Comp) (idx : Nat) (es : List BiosElem), ∀ e ∈ exBiosElems dir idx es,
    (∃ o ∈ padOffsets es, Ext (dir ++ [biospadPrefix ++ hexStr o]) e.1) ∨
      (∃ o ∈ elemFvOffsets es, Ext (dir ++ [hexStr o]) e.1)
  | _, _, [], e, he => by simp [exBiosElems] at he
  | dir, idx, .pad b o :: t, e, he => by
    simp only [exBiosElems, List.mem_cons] at he
    rcases he with rfl | he
    · refine Or.inl ⟨o, by simp [padOffsets], ?_⟩
      have := Ext.leaf (dir ++ [biospadPrefix ++ hexStr o]) namePad slashFree_consts.2.2.2.2.2.1
      simpa [padLeaf] using this
    · rcases exBiosElems_ext dir idx t e he with ⟨o', ho, hx⟩ | ⟨o', ho, hx⟩
      · exact Or.inl ⟨o', by simp [padOffsets, ho], hx⟩
      · exact Or.inr ⟨o', by simp [elemFvOffsets, ho], hx⟩
  | dir, idx, .fv v :: t, e, he => by
    simp only [exBiosElems, List.mem_append] at he
    rcases he with he | he
    · exact Or.inr ⟨v.info.fvOffset, by simp [elemFvOffsets], exFv_ext dir idx v e he⟩
    · rcases exBiosElems_ext dir _ t e he with ⟨o', ho, hx⟩ | ⟨o', ho, hx⟩
      · exact Or.inl ⟨o', by simp [padOffsets, ho], hx⟩
      · exact Or.inr ⟨o', by simp [elemFvOffsets, ho], hx⟩

theorem exBiosElems_nodup : ∀ (dir : List Comp) (idx : Nat) (es : List BiosElem), pwBiosElems es = true →
    ((exBiosElems dir idx es).map Prod.fst).Nodup
  | _, _, [], _ => by simp [exBiosElems]
  | dir, idx, .pad b o :: t, hw => by
    simp only [pwBiosElems, Bool.and_eq_true] at hw
    obtain ⟨h2, h3⟩ := hw
    simp only [exBiosElems, List.map_cons, List.nodup_cons]
    refine ⟨?_, exBiosElems_nodup dir idx t h2⟩
    intro hm
    simp only [List.mem_map] at hm
    obtain ⟨e2, he2, heq⟩ := hm
    have hx1 : Ext (dir ++ [biospadPrefix ++ hexStr o]) (padLeaf dir o) := by
      have := Ext.leaf (dir ++ [biospadPrefix ++ hexStr o]) namePad slashFree_consts.2.2.2.2.2.1
      simpa [padLeaf] using this
    rcases exBiosElems_ext dir idx t e2 he2 with ⟨o', ho, hx2⟩ | ⟨o', ho, hx2⟩
    · refine Ext.ne hx1 hx2 (fun hc => ?_) heq.symm
      have := biospad_inj _ _ hc
      exact not_contains h3 (this ▸ ho)
    · exact Ext.ne hx1 hx2 (biospad_ne_hexStr _ _) heq.symm
  | dir, idx, .fv v :: t, hw => by
    simp only [pwBiosElems, Bool.and_eq_true] at hw
    obtain ⟨⟨h1, h2⟩, h3⟩ := hw
    simp only [exBiosElems, paths_append, List.nodup_append]
    refine ⟨exFv_nodup dir idx v h1, exBiosElems_nodup dir _ t h2, ?_⟩
    intro p hp q hq
    simp only [List.mem_map] at hp hq
    obtain ⟨e1, he1, rfl⟩ := hp
    obtain ⟨e2, he2, rfl⟩ := hq
    have hx1 := exFv_ext dir idx v e1 he1
    rcases exBiosElems_ext dir _ t e2 he2 with ⟨o', ho, hx2⟩ | ⟨o', ho, hx2⟩
    · exact Ext.ne hx1 hx2 (fun hc => biospad_ne_hexStr _ _ hc.symm)
    · refine Ext.ne hx1 hx2 (fun hc => ?_)
      have := hexStr_inj _ _ hc
      exact not_contains h3 (this ▸ ho)

theorem exBios_ext (dir : List Comp) (idx : Nat) (b : BiosRegion) : ∀ e ∈ exBios dir idx b, Ext (biosDir dir) e.1 := by
  intro e he
  unfold exBios at he
  split at he
  · simp only [List.mem_singleton] at he
    subst he
    exact Ext.leaf _ _ slashFree_consts.2.2.2.2.2.2.2.2.2.1
  · rcases exBiosElems_ext (biosDir dir) idx b.elems e he with ⟨o, _, hx⟩ | ⟨o, _, hx⟩
    · exact hx.up (sf_biospad o)
    · exact hx.up (slashFree_hexStr o)

theorem exBios_nodup (dir : List Comp) (idx : Nat) (b : BiosRegion) (hw : pwBiosElems b.elems = true) :
    ((exBios dir idx b).map Prod.fst).Nodup := by
  unfold exBios
  split
  · simp
  · exact exBiosElems_nodup (biosDir dir) idx b.elems hw

/-! ### regions -/

/-- the first path component of a region -/
def regionFirst : Region → Comp
  | .bios _ => nameBios
  | .me _ _ => nameMe
  | .raw _ _ t => regionName t

theorem sf_regionFirst (r : Region) : SlashFree (regionFirst r) := by
  cases r with
  | bios b => exact slashFree_consts.2.2.2.2.2.2.2.2.1
  | me b f => exact slashFree_consts.2.2.2.2.2.2.2.2.2.2.1
  | raw b f t => exact slashFree_regionName t

theorem exRegion_ext (dir : List Comp) (idx : Nat) (r : Region) : ∀ e ∈ exRegion dir idx r,
    Ext (dir ++ [regionFirst r]) e.1 := by
  intro e he
  cases r with
  | bios b => exact exBios_ext dir idx b e he
  | me b f =>
    simp only [exRegion, List.mem_singleton] at he
    subst he
    have := Ext.leaf (dir ++ [nameMe]) nameMeBin slashFree_consts.2.2.2.2.2.2.2.2.2.2.2.1
    simpa [meLeaf, regionFirst] using this
  | raw b f t =>
    simp only [exRegion, List.mem_singleton] at he
    subst he
    have := Ext.leaf (dir ++ [regionName t]) (hexStr (f.baseOffset % 4294967296) ++ extBin)
      (slashFree_append (slashFree_hexStr _) slashFree_consts.2.2.1)
    simpa [rawLeaf, regionFirst] using this

theorem names_ne : nameBios ≠ nameMe ∧ nameIfd ≠ nameBios ∧ nameIfd ≠ nameMe := by decide

/-- regions with different heads are extracted to different paths -/
theorem exRegion_disj (dir : List Comp) (k k' : Nat) (r r' : Region) (hne : regionHead r ≠ regionHead r') :
    ∀ e ∈ exRegion dir k r, ∀ e' ∈ exRegion dir k' r', e.1 ≠ e'.1 := by
  intro e he e' he'
  have hx := exRegion_ext dir k r e he
  have hx' := exRegion_ext dir k' r' e' he'
  cases r with
  | bios b =>
    cases r' with
    | bios b' => exact absurd rfl hne
    | me b' f' => exact Ext.ne hx hx' names_ne.1
    | raw b' f' t' => exact Ext.ne hx hx' (fun hc => (regionName_ne t').2.1 hc.symm)
  | me b f =>
    cases r' with
    | bios b' => exact Ext.ne hx hx' (fun hc => names_ne.1 hc.symm)
    | me b' f' => exact absurd rfl hne
    | raw b' f' t' => exact Ext.ne hx hx' (fun hc => (regionName_ne t').2.2 hc.symm)
  | raw b f t =>
    cases r' with
    | bios b' => exact Ext.ne hx hx' (regionName_ne t).2.1
    | me b' f' => exact Ext.ne hx hx' (regionName_ne t).2.2
    | raw b' f' t' =>
      simp only [exRegion, List.mem_singleton] at he he'
      subst he he'
      intro hc
      simp only [rawLeaf] at hc
      exact hne (by simpa [regionHead] using List.append_cancel_left hc)

theorem exRegions_mem : ∀ (dir : List Comp) (idx : Nat) (rs : List Region), ∀ e ∈ exRegions dir idx rs,
    ∃ r ∈ rs, ∃ k, e ∈ exRegion dir k r
  | _, _, [], e, he => by simp [exRegions] at he
  | dir, idx, r :: t, e, he => by
    simp only [exRegions, List.mem_append] at he
    rcases he with he | he
    · exact ⟨r, by simp, idx, he⟩
    · obtain ⟨r', hr', k, hk⟩ := exRegions_mem dir _ t e he
      exact ⟨r', by simp [hr'], k, hk⟩

theorem exRegion_nodup (dir : List Comp) (idx : Nat) (r : Region)
    (hw : (match r with | .bios b => pwBiosElems b.elems | _ => true) = true) :
    ((exRegion dir idx r).map Prod.fst).Nodup := by
  cases r with
  | bios b => exact exBios_nodup dir idx b hw
  | me b f => simp [exRegion]
  | raw b f t => simp [exRegion]

theorem exRegions_nodup : ∀ (dir : List Comp) (idx : Nat) (rs : List Region), pwRegions rs = true →
    ((exRegions dir idx rs).map Prod.fst).Nodup
  | _, _, [], _ => by simp [exRegions]
  | dir, idx, r :: t, hw => by
    simp only [pwRegions, Bool.and_eq_true] at hw
    obtain ⟨⟨h1, h2⟩, h3⟩ := hw
    simp only [exRegions, paths_append, List.nodup_append]
    refine ⟨exRegion_nodup dir idx r h1, exRegions_nodup dir _ t h2, ?_⟩
    intro p hp q hq
    simp only [List.mem_map] at hp hq
    obtain ⟨e1, he1, rfl⟩ := hp
    obtain ⟨e2, he2, rfl⟩ := hq
    obtain ⟨r', hr', k, hk⟩ := exRegions_mem dir _ t e2 he2
    refine exRegion_disj dir idx k r r' (fun hc => ?_) e1 he1 e2 hk
    have : regionHead r ∈ t.map regionHead := by rw [hc]; exact List.mem_map_of_mem hr'
    simp only [Bool.not_eq_true', List.contains_eq_mem, decide_eq_false_iff_not] at h3
    exact h3 this

/-! ### the whole tree -/

/-- every extracted path is a non-empty list of clean components -/
theorem extractEntries_ext (t : Tree) : ∀ e ∈ extractEntries t, Ext [] e.1 := by
  intro e he
  cases t with
  | flash f =>
    simp only [extractEntries, List.mem_cons] at he
    rcases he with rfl | he
    · exact ⟨[nameIfd, nameIfdBin], by simp, by
        intro c hc
        simp only [List.mem_cons, List.not_mem_nil, or_false] at hc
        rcases hc with rfl | rfl
        · exact slashFree_consts.2.2.2.2.2.2.1
        · exact slashFree_consts.2.2.2.2.2.2.2.1, by simp [ifdLeaf]⟩
    · obtain ⟨r, _, k, hk⟩ := exRegions_mem [] 0 f.regions e he
      exact (exRegion_ext [] k r e hk).up (sf_regionFirst r)
  | bios b =>
    simp only [extractEntries] at he
    exact (exBios_ext [] 0 b e he).up slashFree_consts.2.2.2.2.2.2.2.2.1

/-- no two nodes are extracted to the same list of path components -/
theorem extractEntries_nodup (t : Tree) (hw : pwTree t = true) : ((extractEntries t).map Prod.fst).Nodup := by
  cases t with
  | flash f =>
    simp only [pwTree] at hw
    simp only [extractEntries, List.map_cons, List.nodup_cons]
    refine ⟨?_, exRegions_nodup [] 0 f.regions hw⟩
    intro hm
    simp only [List.mem_map] at hm
    obtain ⟨e2, he2, heq⟩ := hm
    obtain ⟨r, _, k, hk⟩ := exRegions_mem [] 0 f.regions e2 he2
    have hx2 := exRegion_ext [] k r e2 hk
    have hx1 : Ext ([] ++ [nameIfd]) (ifdLeaf []) := by
      have := Ext.leaf ([] ++ [nameIfd]) nameIfdBin slashFree_consts.2.2.2.2.2.2.2.1
      simpa [ifdLeaf] using this
    refine Ext.ne hx1 hx2 (fun hc => ?_) heq.symm
    cases r with
    | bios b => exact names_ne.2.1 hc
    | me b f' => exact names_ne.2.2 hc
    | raw b f' t' => exact (regionName_ne t').1 hc.symm
  | bios b =>
    simp only [pwTree] at hw
    exact exBios_nodup [] 0 b hw

/-- **no two nodes are extracted to the same file**: the `/`-joined paths written by `Extract` are
    pairwise distinct -/
theorem extractDir_nodup (t : Tree) (hw : pwTree t = true) : ((extractDir t).map Prod.fst).Nodup := by
  have h1 := extractEntries_nodup t hw
  have h2 : (extractDir t).map Prod.fst = ((extractEntries t).map Prod.fst).map joinPath := by
    simp [extractDir, flat, List.map_map, Function.comp_def]
  rw [h2]
  apply nodup_map_on joinPath _ _ h1
  intro p hp q hq hpq
  simp only [List.mem_map] at hp hq
  obtain ⟨e1, he1, rfl⟩ := hp
  obtain ⟨e2, he2, rfl⟩ := hq
  have x1 := extractEntries_ext t e1 he1
  have x2 := extractEntries_ext t e2 he2
  exact joinPath_inj _ _ (x1.clean (by simp)) (x2.clean (by simp)) x1.ne_nil x2.ne_nil hpq

end Fiano.Uefi
