/-
  C05 — Go-semantics (GoM) model of the NVAR store parser of pkg/uefi/nvram.go:
    NewNVarStore (entry walk), newNVar, parseHeader, parseNext, parseExtendedHeader, parseDataOnly,
    parseGUID, getGUIDFromStore, parseName, parseContent (nested stores).

  The model follows the code as repaired by wp-c10 (fixes/C05-nvar-bounds.diff):
    * parseHeader refuses `Size < 10` (the header size)   — was: slice panic `[10:5]`, and `Size = 0` never advanced;
    * the UCS-2 name terminator is searched at even offsets only;
    * UCS2ToUTF8 of an empty name does not index `[-1]`.
  and as repaired by wp-nvfix (round 3):
    * NewNVarStore refuses a store whose GUID store has grown into the entries (`FreeSpaceOffset > GUIDStoreOffset`
      after an entry) — was: accepted, the same bytes were entry content and GUID store;
    * newNVar does not read the content of an entry with an extended header as a nested store.
  Every slice / index / make of the Go functions is a faulting primitive; `bytes.Reader` reads and seeks
  are ordinary errors.  Nested stores recurse on the entry's content, which is at least 11 bytes shorter
  than the entry, so fuel `2·|buf| + 3` never runs out (TotalNvarSafe.lean).
-/
import FianoModel.Uefi.TotalFv
import FianoModel.Uefi.Dump

namespace Fiano.Uefi.Total
open Fiano GoM Fiano.Uefi

/-- one parsed entry; `type`: 0 Invalid, 1 Invalid link, 2 Link, 3 Data, 4 Full -/
structure NvE where
  type       : Nat
  size       : Nat
  attrs      : Nat
  offset     : Nat
  nextOffset : Nat
  dataOffset : Nat
  guid       : Bytes := guidZero
  name       : Bytes := []          -- the bytes of the Go string (UTF-8 for UCS-2 names)
  buf        : Bytes
  nested     : Option String := none   -- canonical text of a nested store
  deriving Repr, Inhabited

def NvE.isValid (e : NvE) : Bool := e.type = 2 || e.type = 3 || e.type = 4

/-- the store under construction (`s *NVarStore` of newNVar) and, at the end, the result -/
structure NvS where
  entries : List NvE := []          -- newest last
  guids   : List Bytes := []        -- GUIDStore
  buf     : Bytes
  fso     : Nat := 0                -- FreeSpaceOffset
  gso     : Nat                     -- GUIDStoreOffset
  length  : Nat
  deriving Repr, Inhabited

def nvarSig : Bytes := [0x4E, 0x56, 0x41, 0x52]

/-- UTF-8 bytes of a list of scalar values (what `string(output)` holds) -/
def utf8Enc : List Nat → Bytes
  | [] => []
  | c :: cs =>
    (if c < 0x80 then [byte c]
     else if c < 0x800 then [byte (0xC0 + c / 64), byte (0x80 + c % 64)]
     else if c < 0x10000 then [byte (0xE0 + c / 4096), byte (0x80 + c / 64 % 64), byte (0x80 + c % 64)]
     else [byte (0xF0 + c / 262144), byte (0x80 + c / 4096 % 64), byte (0x80 + c / 64 % 64), byte (0x80 + c % 64)])
    ++ utf8Enc cs

/-- `uefi.IsErased(buf, polarity)` -/
def isErased (b : Bytes) (pol : UInt8) : Bool := b.all (· == pol)

/-- `bytes.IndexByte(b, 0)` -/
def indexZero : Bytes → Option Nat
  | [] => none
  | x :: xs => if x = 0 then some 0 else (indexZero xs).map (· + 1)

/-- repaired UCS-2 terminator search: `for i := 0; i+1 < len(namebuf); i += 2` -/
def indexZero16 : Bytes → Option Nat
  | a :: b :: rest => if a = 0 ∧ b = 0 then some 0 else (indexZero16 rest).map (· + 2)
  | _ => none

/-- `getGUIDFromStore(i)`; returns the GUID and the grown GUID store.  `i+1` is uint8 arithmetic. -/
def getGuidFromStoreG (sbuf : Bytes) (guids : List Bytes) (i : Nat) : GoM (Bytes × List Bytes) := do
  let i1 := (i + 1) % 256
  let guids' ← (
    if guids.length < i1 then
      -- r.Seek(-16*(i+1), io.SeekEnd): a negative position is an error, ZeroGUID is returned
      if sbuf.length < 16 * i1 then pure none
      else do
        allocG (i1 - guids.length) 16               -- make([]guid.GUID, int(i+1)-len(s.GUIDStore))
        -- a[j] for j = i-len … 0 is read front to back from End-16(i+1): a[j] = GUID number len+j
        let a := (List.range (i1 - guids.length)).map (fun j =>
          slice sbuf (sbuf.length - 16 * (guids.length + j + 1)) 16)
        pure (some (guids ++ a))
    else pure (some guids) : GoM (Option (List Bytes)))
  match guids' with
  | none => pure (guidZero, guids)
  | some gs =>
    if i ≥ gs.length then pure (guidZero, gs)
    else
      match gs[i]? with
      | some g => pure (g, gs)
      | none => goPanic "getGUIDFromStore: s.GUIDStore[i]"

/-- the checksum part of `parseExtendedHeader` (extended attribute bit 0) -/
def extChecksumG (vbuf : Bytes) (size extAttrs : Nat) : GoM Unit :=
  if extAttrs &&& 0x01 ≠ 0 then do
    -- storedChecksum = v.buf[int64(Size) - 3]
    let _ ← indexG "parseExtendedHeader: v.buf[Size-3]" vbuf (size - 3)
    -- for i := 4; i < Size; i++ { calculatedChecksum += v.buf[i] … }
    if vbuf.length < size then goPanic "parseExtendedHeader: v.buf[i]" else pure ()
  else pure ()

/-- the timestamp / hash part of `parseExtendedHeader`; `false` = an error was returned -/
def extTailG (vbuf : Bytes) (size attrs extOffset : Nat) : GoM Bool :=
  if attrs &&& 0x40 = 0 then
    -- binary.Read(&timestamp) at ExtOffset+1
    if vbuf.length < extOffset + 9 then pure false else
    if attrs &&& 0x08 ≠ 0 then
      let hashstart := extOffset + 9
      if hashstart + 32 > size then pure false else do
      allocG 32 1                                     -- v.Hash = make([]byte, sha256.Size)
      let _ ← sliceG "parseExtendedHeader: v.buf[hashstart:hashstart+sha256.Size]" vbuf hashstart (hashstart + 32)
      pure true
    else pure true
  else pure true

/-- `parseExtendedHeader`; `false` = an error was returned (the entry becomes Invalid) -/
def parseExtHeaderG (vbuf : Bytes) (size attrs : Nat) : GoM Bool :=
  if attrs &&& 0x10 = 0 then pure true else
  -- r.Seek(-2, io.SeekEnd); binary.Read(&extendedHeaderSize)
  if vbuf.length < 2 then pure false else
  let ehs := rd vbuf (vbuf.length - 2) 2
  -- bodySize := int64(Size) - DataOffset (= 10)
  if (ehs : Int) > (size : Int) - 10 then pure false else
  let extOffset := size - ehs
  -- r.Seek(ExtOffset, io.SeekStart); binary.Read(&extAttributes)
  if vbuf.length < extOffset + 1 then pure false else do
  extChecksumG vbuf size (rd vbuf extOffset 1)
  extTailG vbuf size attrs extOffset

/-- `parseDataOnly`, else `parseGUID` + `parseName`: identity of the entry and the grown GUID store -/
def nvIdentG (s : NvS) (vbuf : Bytes) (attrs : Nat) (e1 : NvE) (offset : Nat) : GoM (NvE × List Bytes) :=
  if attrs &&& 0x08 ≠ 0 then
    match s.entries.find? (fun l => l.isValid && l.nextOffset == offset) with
    | some l => pure ({ e1 with guid := l.guid, name := l.name,
                                type := if e1.nextOffset = 0 then 3 else e1.type }, s.guids)
    | none => pure ({ e1 with type := 1 }, s.guids)
  else do
    let gb ← sliceFromG "parseGUID: v.buf[v.DataOffset:]" vbuf 10
    let (g, guids, dOff) ← (
      if attrs &&& 0x04 ≠ 0 then do
        let (gg, _) ← binaryReadG gb 16
        pure (gg, s.guids, 26)
      else do
        let (ib, _) ← binaryReadG gb 1
        let (gg, gs) ← getGuidFromStoreG s.buf s.guids (fromLE ib)
        pure (gg, gs, 11) : GoM (Bytes × List Bytes × Nat))
    -- parseName
    let nb ← sliceFromG "parseName: v.buf[v.DataOffset:]" vbuf dOff
    if attrs &&& 0x02 ≠ 0 then
      match indexZero nb with
      | none => err
      | some e => do
        let nm ← sliceToG "parseName: namebuf[:end] (ASCII)" nb e
        pure ({ e1 with guid := g, name := nm, dataOffset := dOff + e + 1 }, guids)
    else
      match indexZero16 nb with
      | none => err
      | some e => do
        let nm ← sliceToG "parseName: namebuf[:end] (UCS-2)" nb e
        let cps ← ucs2ToUtf8G nm
        pure ({ e1 with guid := g, name := utf8Enc cps, dataOffset := dOff + e + 2 }, guids)

/-- canonical text of a store: `n=<entries> fso= gso= guids=<n>:<fnv> [type:size:doff:off:next:guid:name:fnv{nested}]…` -/
def nvDump (s : NvS) : String :=
  let es := s.entries.map (fun e =>
    s!"{e.type}:{e.size}:{e.dataOffset}:{e.offset}:{e.nextOffset}:{if e.isValid then hexOf e.guid else "-"}:{if e.isValid then hexOf e.name else "-"}:{fnvOf e.buf}" ++
      (match e.nested with | some t => "{" ++ t ++ "}" | none => ""))
  s!"n={s.entries.length} fso={s.fso} gso={s.gso} guids={s.guids.length}:{fnvOf s.guids.flatten} " ++ joinWith "," es

mutual

/-- `newNVar(buf, offset, s)`: `none` = the rest is erased; returns the entry and the grown GUID store -/
def newNvarG (pol : UInt8) : Nat → Bytes → Nat → NvS → GoM (Option (NvE × List Bytes))
  | 0, _, _, _ => outOfFuel
  | fuel+1, buf, offset, s =>
    if isErased buf pol then pure none else do
    -- parseHeader
    let (hb, _) ← binaryReadG buf 10
    if hb.take 4 ≠ nvarSig then err else
    let size := rd hb 4 2
    let next3 := rd hb 6 3
    let attrs := rd hb 9 1
    if buf.length < size then err else
    if size < 10 then err else do                    -- repaired
    let vbuf ← copyOutG "newNVar: buf[:v.Header.Size]" buf size
    let e0 : NvE := { type := 4, size := size, attrs := attrs, offset := offset, nextOffset := 0,
                      dataOffset := 10, buf := vbuf }
    if attrs &&& 0x80 = 0 then pure (some ({ e0 with type := 0 }, s.guids)) else
    -- parseNext
    if pol ≠ 0xFF ∧ pol ≠ 0 then err else
    let last := if pol = 0xFF then 0xFFFFFF else 0
    let e1 : NvE := { e0 with type := if next3 ≠ last then 2 else 4,
                              nextOffset := if next3 ≠ last then offset + next3 else 0 }
    do
    let okExt ← parseExtHeaderG vbuf size attrs
    if ¬ okExt then pure (some ({ e1 with type := 0 }, s.guids)) else
    -- parseDataOnly / parseGUID / parseName
    let r ← nvIdentG s vbuf attrs e1 offset
    let (e2, guids) := r
    -- if v.Header.Attributes&NVarEntryExtHeader == 0 { _ = v.parseContent(v.buf[v.DataOffset:]) } — errors are
    -- dropped; behind an extended header the content is never read as a nested store (fix wp-nvfix, F-c10c-1)
    if attrs &&& 0x10 = 0 then do
      let content ← sliceFromG "newNVar: v.buf[v.DataOffset:]" vbuf e2.dataOffset
      if content.take 4 = nvarSig ∧ 4 ≤ content.length then do
        let ns ← nvarStoreG pol fuel content
        pure (some ({ e2 with nested := ns }, guids))
      else pure (some (e2, guids))
    else pure (some (e2, guids))
termination_by structural fuel _ _ _ => fuel

/-- the entry loop of `NewNVarStore` -/
def nvarLoopG (pol : UInt8) : Nat → NvS → GoM NvS
  | fuel, s =>
    if s.fso < s.gso then
      match fuel with
      | 0 => outOfFuel
      | fuel+1 => do
        let eb ← sliceG "NewNVarStore: s.buf[s.FreeSpaceOffset:s.GUIDStoreOffset]" s.buf s.fso s.gso
        match ← newNvarG pol fuel eb s.fso s with
        | none => pure s
        | some (e, guids) =>
          -- if s.FreeSpaceOffset > s.GUIDStoreOffset { return nil, err }: the GUID index of this entry grew the
          -- GUID store into the entries (fix wp-nvfix, fixes/C04-nvar-table-overlap.diff)
          if s.fso + e.size > s.length - 16 * guids.length then err else
          nvarLoopG pol fuel { s with entries := s.entries ++ [e], guids := guids, fso := s.fso + e.size,
                                      gso := s.length - 16 * guids.length }
    else pure s
termination_by structural fuel _ => fuel

/-- `NewNVarStore(buf)`; the result is rendered as canonical text; `none` = error -/
def nvarStoreG (pol : UInt8) : Nat → Bytes → GoM (Option String)
  | 0, _ => outOfFuel
  | fuel+1, buf => do
    let own ← cloneG buf                                -- s.buf = make([]byte, len(buf)); copy
    let s0 : NvS := { buf := own, gso := buf.length, length := buf.length }
    -- an error inside is an error of NewNVarStore; the callers of interest only log it
    let r ← catchErrG (nvarLoopG pol fuel s0)
    pure (r.map nvDump)
termination_by structural fuel _ => fuel

end

def nvarFuel (b : Bytes) : Nat := 2 * b.length + 3

/-- `uefi.NewNVarStore(buf)` under erase polarity `pol`: `some text` or `none` (= error) -/
def newNvarStoreG (pol : UInt8) (buf : Bytes) : GoM (Option String) :=
  nvarStoreG pol (nvarFuel buf) buf

/-- the hook used by `parseFileG`: only success / failure and the store's buffer are kept in the tree -/
def nvarHook (buf : Bytes) (pol : UInt8) : GoM (Option NvStore) := do
  match ← newNvarStoreG pol buf with
  | some _ => pure (some { buf := buf, length := buf.length })
  | none => pure none

end Fiano.Uefi.Total
