/-
  Lemmas for property C09.
   1. the single-byte alteration relation `Alter` under take / drop / slice / little-endian reads;
   2. `validateFileNodeGo` never panics (= the pure `validateFileNode`);
   3. what a successful `parseFv` / `parseFile` says about the node it returns (fields are the bytes);
   4. node-level detection: a volume / file node that validates cleanly stops doing so when one
      protected byte of the bytes it was parsed from is altered.
  Core Lean only.
-/
import FianoModel.Uefi.ValidateSpec
import FianoModel.Uefi.ChecksumLemmas

namespace Fiano.Uefi.Spec
variable {b b' : Bytes} {p : Nat}

theorem Alter.length_eq (h : Alter b b' p) : b'.length = b.length := by
  obtain ⟨pre, x, y, post, rfl, rfl, _, _⟩ := h
  simp

theorem Alter.lt (h : Alter b b' p) : p < b.length := by
  obtain ⟨pre, x, y, post, rfl, rfl, rfl, _⟩ := h
  simp

theorem Alter.take_le (h : Alter b b' p) {n : Nat} (hn : n ≤ p) : b'.take n = b.take n := by
  obtain ⟨pre, x, y, post, rfl, rfl, rfl, _⟩ := h
  rw [List.take_append_of_le_length hn, List.take_append_of_le_length hn]

theorem Alter.drop_gt (h : Alter b b' p) {n : Nat} (hn : p < n) : b'.drop n = b.drop n := by
  obtain ⟨pre, x, y, post, rfl, rfl, rfl, _⟩ := h
  rw [List.drop_append, List.drop_append]
  have : n - pre.length = (n - pre.length - 1) + 1 := by omega
  rw [this, List.drop_succ_cons, List.drop_succ_cons]

theorem take_mid (pre post : Bytes) (x : UInt8) (k : Nat) :
    (pre ++ x :: post).take (pre.length + 1 + k) = pre ++ x :: post.take k := by
  rw [List.take_append]
  have : pre.length + 1 + k - pre.length = k + 1 := by omega
  rw [this, List.take_succ_cons, List.take_of_length_le (by omega)]

theorem Alter.take_gt (h : Alter b b' p) {n : Nat} (hn : p < n) : Alter (b.take n) (b'.take n) p := by
  obtain ⟨pre, x, y, post, rfl, rfl, rfl, hxy⟩ := h
  obtain ⟨k, rfl⟩ : ∃ k, n = pre.length + 1 + k := ⟨n - pre.length - 1, by omega⟩
  exact ⟨pre, x, y, post.take k, take_mid .., take_mid .., rfl, hxy⟩

theorem Alter.drop_le (h : Alter b b' p) {n : Nat} (hn : n ≤ p) : Alter (b.drop n) (b'.drop n) (p - n) := by
  obtain ⟨pre, x, y, post, rfl, rfl, rfl, hxy⟩ := h
  refine ⟨pre.drop n, x, y, post, ?_, ?_, by simp, hxy⟩
  · rw [List.drop_append_of_le_length hn]
  · rw [List.drop_append_of_le_length hn]

theorem Alter.ne (h : Alter b b' p) : b ≠ b' := by
  obtain ⟨pre, x, y, post, rfl, rfl, rfl, hxy⟩ := h
  intro e
  have := List.append_cancel_left e
  simp at this
  exact hxy this

/-- `setByte` realises `Alter`: replacing the byte at an existing position by a different value -/
theorem alter_setByte (b : Bytes) (p : Nat) (y : UInt8) (hp : p < b.length) (hy : b[p]'hp ≠ y) :
    Alter b (setByte b p y) p := by
  have hd : b.drop p = b[p] :: b.drop (p + 1) := by
    rw [List.drop_eq_getElem_cons hp]
  refine ⟨b.take p, b[p], y, b.drop (p + 1), ?_, ?_, ?_, hy⟩
  · rw [← hd, List.take_append_drop]
  · unfold setByte; rw [hd]
  · rw [List.length_take]; omega

/-- conversely every alteration is a `setByte` -/
theorem Alter.eq_setByte {b b' : Bytes} {p : Nat} (h : Alter b b' p) : ∃ y, b' = setByte b p y := by
  obtain ⟨pre, x, y, post, rfl, rfl, rfl, _⟩ := h
  refine ⟨y, ?_⟩
  unfold setByte
  simp

end Fiano.Uefi.Spec

namespace Fiano.Uefi.Spec

/-! ### little-endian reads under alteration -/

theorem fromLE_inj : ∀ (a b : Bytes), a.length = b.length → fromLE a = fromLE b → a = b := by
  intro a b hl he
  have h1 := leN_fromLE a
  have h2 := leN_fromLE b
  rw [he, hl] at h1
  rw [← h1, h2]

variable {b b' : Bytes} {p : Nat}

theorem Alter.slice_eq (h : Alter b b' p) {off len : Nat} (hd : off + len ≤ p ∨ p < off) :
    slice b' off len = slice b off len := by
  unfold slice
  rcases hd with hd | hd
  · have h1 := (h.take_le (n := off + len) hd)
    have e : ∀ (l : Bytes), (l.drop off).take len = (l.take (off + len)).drop off := by
      intro l; rw [List.drop_take]; simp
    rw [e, e, h1]
  · rw [h.drop_gt hd]

theorem Alter.slice_alter (h : Alter b b' p) {off len : Nat} (h1 : off ≤ p) (h2 : p < off + len) :
    Alter (slice b off len) (slice b' off len) (p - off) := by
  unfold slice
  exact (h.drop_le h1).take_gt (by omega)

theorem Alter.rd_eq (h : Alter b b' p) {off len : Nat} (hd : off + len ≤ p ∨ p < off) :
    rd b' off len = rd b off len := by
  unfold rd; rw [h.slice_eq hd]

theorem Alter.rd_ne (h : Alter b b' p) {off len : Nat} (h1 : off ≤ p) (h2 : p < off + len) :
    rd b' off len ≠ rd b off len := by
  unfold rd
  have ha := h.slice_alter h1 h2
  intro e
  exact ha.ne (fromLE_inj _ _ ha.length_eq.symm e.symm)

end Fiano.Uefi.Spec

namespace Fiano.Uefi
open Fiano.Uefi.Spec

/-! ### volume nodes -/

/-- what `validateFvNode` accepts -/
structure FvNodeOk (i : FvInfo) (buf : Bytes) : Prop where
  len : 64 ≤ buf.length
  hl : 64 ≤ i.headerLen
  hlbuf : i.headerLen ≤ buf.length
  map : blockMapEnd buf = i.headerLen
  guid : knownFvGuids.contains i.fsGuid = true
  rev : i.revision = 2
  sig : i.signature = fvSignature
  length : i.length = buf.length
  even : i.headerLen % 2 = 0
  sum : sum16 (buf.take i.headerLen) = 0

theorem validateFvNode_nil_iff (i : FvInfo) (buf : Bytes) : validateFvNode i buf = [] ↔ FvNodeOk i buf := by
  simp only [validateFvNode, fvMinSize]
  by_cases h1 : buf.length < 64
  · simp only [h1, if_true]
    constructor
    · intro h; simp at h
    · intro h; have := h.len; omega
  by_cases h2 : i.headerLen < 64
  · simp only [h1, h2, if_true, if_false]
    constructor
    · intro h; simp at h
    · intro h; have := h.hl; omega
  by_cases h3 : buf.length < i.headerLen
  · simp only [h1, h2, h3, if_true, if_false]
    constructor
    · intro h; simp at h
    · intro h; have := h.hlbuf; omega
  simp only [h1, h2, h3, if_false, List.append_eq_nil_iff]
  constructor
  · intro ⟨⟨⟨⟨⟨a, b⟩, c⟩, d⟩, e⟩, f⟩
    by_cases h4 : i.headerLen % 2 ≠ 0
    · simp [h4] at f
    · simp only [h4, if_false] at f
      refine ⟨by omega, by omega, by omega, ?_, ?_, ?_, ?_, ?_, by omega, ?_⟩
      · simpa using a
      · simpa using b
      · simpa using c
      · simpa using d
      · simpa using e
      · simpa using f
  · intro h
    have := h.even
    have hg : i.fsGuid ∈ knownFvGuids := by simpa using h.guid
    simp [h.map, hg, h.rev, h.sig, h.length, h.sum, this]


theorem parseFv_ok_fields (h : Hooks) (fuel : Nat) (data : Bytes) (off : Nat) (rs : Bool) (st st' : St) (fv : Fv)
    (hp : parseFv h fuel data off rs st = .ok (fv, st')) :
    64 ≤ data.length ∧ rd data 32 8 ≤ data.length ∧ fv.buf = data.take (rd data 32 8) ∧
    fv.info.length = rd data 32 8 ∧ fv.info.headerLen = rd data 48 2 ∧ fv.info.signature = rd data 40 4 ∧
    fv.info.revision = rd data 55 1 ∧ fv.info.fsGuid = slice data 16 16 := by
  cases fuel with
  | zero => simp [parseFv] at hp
  | succ fuel =>
    simp only [parseFv] at hp
    by_cases h64 : data.length < 64
    · simp [h64] at hp
    rw [if_neg h64] at hp
    cases hrb : readBlocks (data.drop 56) with
    | error e => rw [hrb] at hp; simp at hp
    | ok blocks =>
      rw [hrb] at hp
      simp only at hp
      by_cases hbm : 56 + 8 * (blocks.length + 1) > (fvInfoOf data blocks off rs).length
      · rw [if_pos hbm] at hp; simp at hp
      rw [if_neg hbm] at hp
      cases hsp : setPolarity (polOfAttrs (fvInfoOf data blocks off rs).attrs) st with
      | error e => rw [hsp] at hp; simp at hp
      | ok stp =>
        rw [hsp] at hp
        simp only at hp
        have hlen : (fvInfoOf data blocks off rs).length = rd data 32 8 := rfl
        by_cases hL : (fvInfoOf data blocks off rs).length > data.length
        · rw [if_pos hL] at hp; simp at hp
        rw [if_neg hL] at hp
        rw [hlen] at hL
        by_cases hg : (fvInfoOf data blocks off rs).fsGuid ≠ guidFFS2 ∧ (fvInfoOf data blocks off rs).fsGuid ≠ guidFFS3
        · rw [if_pos hg] at hp
          simp only [Except.ok.injEq, Prod.mk.injEq] at hp
          obtain ⟨rfl, _⟩ := hp
          exact ⟨by omega, by omega, rfl, rfl, rfl, rfl, rfl, rfl⟩
        · rw [if_neg hg] at hp
          cases hpf : parseFiles h fuel (data.take (fvInfoOf data blocks off rs).length)
              (fvInfoOf data blocks off rs).dataOffset
              (((fvInfoOf data blocks off rs).length + 18446744073709551616 - 24) % 18446744073709551616)
              (fvInfoOf data blocks off rs).length stp with
          | error e => rw [hpf] at hp; simp at hp
          | ok r =>
            obtain ⟨fs, free, st2⟩ := r
            rw [hpf] at hp
            simp only [Except.ok.injEq, Prod.mk.injEq] at hp
            obtain ⟨rfl, _⟩ := hp
            exact ⟨by omega, by omega, rfl, rfl, rfl, rfl, rfl, rfl⟩

theorem blockMapEnd_take_congr (d d' : Bytes) (L : Nat) (h : d'.drop 56 = d.drop 56) :
    blockMapEnd (d'.take L) = blockMapEnd (d.take L) := by
  unfold blockMapEnd fvFixedHeaderSize
  rw [List.drop_take, List.drop_take, h]

/-- **volume header, node level**: if the volume parsed from `data` passes its node check, the volume
    parsed from `data` with one header byte (any byte of `[0, HeaderLen)`) altered does not. -/
theorem fvHeader_alter_detected {h h' : Hooks} {fuel fuel' off off' : Nat} {rs rs' : Bool} {st st1 st' st2 : St}
    {data data' : Bytes} {fv fv' : Fv} {p : Nat}
    (hp : parseFv h fuel data off rs st = .ok (fv, st1))
    (hv : validateFvNode fv.info fv.buf = [])
    (ha : Alter data data' p) (hlt : p < fv.info.headerLen)
    (hp' : parseFv h' fuel' data' off' rs' st' = .ok (fv', st2)) :
    validateFvNode fv'.info fv'.buf ≠ [] := by
  intro hv'
  obtain ⟨_, hL, hbuf, hlen, hhl, _, _, _⟩ := parseFv_ok_fields _ _ _ _ _ _ _ _ hp
  obtain ⟨_, hL', hbuf', hlen', hhl', _, _, _⟩ := parseFv_ok_fields _ _ _ _ _ _ _ _ hp'
  have ok := (validateFvNode_nil_iff _ _).mp hv
  have ok' := (validateFvNode_nil_iff _ _).mp hv'
  have hbl : fv.buf.length = rd data 32 8 := by rw [hbuf, List.length_take]; omega
  have hbl' : fv'.buf.length = rd data' 32 8 := by rw [hbuf', List.length_take]; omega
  by_cases hc : p = 48 ∨ p = 49
  · -- HeaderLen itself: the block map still ends where it ended
    have hne : rd data' 48 2 ≠ rd data 48 2 := ha.rd_ne (by omega) (by omega)
    have hLe : rd data' 32 8 = rd data 32 8 := ha.rd_eq (Or.inl (by omega))
    have hm := ok.map
    have hm' := ok'.map
    rw [hbuf] at hm
    rw [hbuf', hLe, blockMapEnd_take_congr data data' _ (ha.drop_gt (by omega))] at hm'
    rw [hhl] at hm
    rw [hhl'] at hm'
    exact hne (hm'.symm.trans hm)
  · -- any other header byte lies inside the summed range, which has not moved
    have hhe : rd data' 48 2 = rd data 48 2 := ha.rd_eq (by omega)
    have hs := ok.sum
    have hs' := ok'.sum
    have h1 := ok.hlbuf
    have h1' := ok'.hlbuf
    rw [hbuf, List.take_take] at hs
    rw [hbuf', List.take_take] at hs'
    rw [hhl] at hs h1 hlt
    rw [hhl', hhe] at hs' h1'
    rw [hbl] at h1
    rw [hbl'] at h1'
    rw [Nat.min_eq_left h1] at hs
    rw [Nat.min_eq_left h1'] at hs'
    have hA := ha.take_gt hlt
    have hev : (data.take (rd data 48 2)).length % 2 = 0 := by
      rw [List.length_take]; have := ok.even; rw [hhl] at this; omega
    obtain ⟨pre, x, y, post, e1, e2, _, hxy⟩ := hA
    rw [e1] at hs hev
    rw [e2] at hs'
    exact sum16_alter pre post x y hxy hev (hs.trans hs'.symm)

/-! ### file nodes -/

/-- the extended size the parser computes from the header bytes -/
def extOf (buf : Bytes) : Nat := if rd buf 20 3 = 0xFFFFFF then rd buf 24 8 else rd buf 20 3

/-- what `fileHeader` returns for a file -/
theorem fileHeader_some {buf : Bytes} {i : FileInfo} (hf : fileHeader buf = .ok (some i)) :
    24 ≤ buf.length ∧ (rd buf 20 3 = 0xFFFFFF → 32 ≤ buf.length) ∧ i.extSize = extOf buf ∧ extOf buf ≤ buf.length ∧
    i.size3 = rd buf 20 3 ∧ i.attrs = rd buf 19 1 ∧ i.ckFile = rd buf 17 1 ∧ i.state = rd buf 23 1 := by
  unfold fileHeader at hf
  unfold extOf
  by_cases h24 : buf.length < 24
  · simp [h24] at hf
  rw [if_neg h24] at hf
  by_cases h3 : rd buf 20 3 = 0xFFFFFF
  · by_cases h32 : buf.length < 32
    · simp only [h3, h32, if_true] at hf
      by_cases he : (buf.take 24).all (· == 0xFF) = true
      · simp [he] at hf
      · simp [he] at hf
    · by_cases hff : rd buf 24 8 = 0xFFFFFFFFFFFFFFFF
      · simp [h3, h32, hff] at hf
      · simp only [h3, h32, hff, if_true, if_false] at hf
        split at hf
        · simp at hf
        · simp only [Except.ok.injEq, Option.some.injEq] at hf
          subst hf
          rename_i hle
          simp [h3]; omega
  · simp only [h3, if_false] at hf
    split at hf
    · simp at hf
    · simp only [Except.ok.injEq, Option.some.injEq] at hf
      subst hf
      rename_i hle
      simp [h3]; omega

/-- what the reader takes for free space: `Size = FFFFFF` and either an all-ones extended size or (repaired
    reader, fixes/C02-erased-tail-24) an erased 24-byte header with fewer than 8 bytes behind it -/
def FreeSpaceLike (buf : Bytes) : Prop :=
  rd buf 20 3 = 0xFFFFFF ∧
    (rd buf 24 8 = 0xFFFFFFFFFFFFFFFF ∨ (buf.length < 32 ∧ (buf.take 24).all (· == 0xFF) = true))

/-- the reader takes what it finds at offset `o` of `x` for free space -/
def FreeSpaceAt (x : Bytes) (o : Nat) : Prop := FreeSpaceLike (x.drop o)

theorem fileHeader_none {buf : Bytes} (hf : fileHeader buf = .ok none) : FreeSpaceLike buf := by
  unfold fileHeader at hf
  unfold FreeSpaceLike
  by_cases h24 : buf.length < 24
  · simp [h24] at hf
  rw [if_neg h24] at hf
  by_cases h3 : rd buf 20 3 = 0xFFFFFF
  · by_cases h32 : buf.length < 32
    · by_cases he : (buf.take 24).all (· == 0xFF) = true
      · exact ⟨h3, Or.inr ⟨h32, he⟩⟩
      · simp only [h3, h32, if_true, he] at hf
        simp at hf
    · by_cases hff : rd buf 24 8 = 0xFFFFFFFFFFFFFFFF
      · exact ⟨h3, Or.inl hff⟩
      · simp only [h3, h32, hff, if_true, if_false] at hf
        split at hf <;> simp at hf
  · simp only [h3, if_false] at hf
    split at hf <;> simp at hf

/-- `parseFile` = `fileHeader`, then the NVAR / section parsers on the clipped buffer -/
theorem parseFile_some_inv {h : Hooks} {fuel : Nat} {buf : Bytes} {st st' : St} {f : File}
    (hp : parseFile h fuel buf st = .ok (some f, st')) :
    ∃ i, fileHeader buf = .ok (some i) ∧ f.buf = buf.take i.extSize ∧ f.info.extSize = i.extSize ∧
      f.info.size3 = i.size3 ∧ f.info.attrs = i.attrs ∧ f.info.ckFile = i.ckFile ∧ f.info.state = i.state := by
  cases fuel with
  | zero => simp [parseFile] at hp
  | succ fuel =>
    simp only [parseFile] at hp
    cases hfh : fileHeader buf with
    | error e => rw [hfh] at hp; simp at hp
    | ok o =>
      rw [hfh] at hp
      cases o with
      | none => simp at hp
      | some i =>
        simp only at hp
        refine ⟨i, rfl, ?_⟩
        split at hp
        · simp at hp
        · split at hp
          · simp only [Except.ok.injEq, Prod.mk.injEq, Option.some.injEq] at hp
            obtain ⟨rfl, _⟩ := hp
            exact ⟨rfl, rfl, rfl, rfl, rfl, rfl⟩
          · split at hp
            · simp at hp
            · simp only [Except.ok.injEq, Prod.mk.injEq, Option.some.injEq] at hp
              obtain ⟨rfl, _⟩ := hp
              exact ⟨rfl, rfl, rfl, rfl, rfl, rfl⟩

theorem parseFile_ok_fields (h : Hooks) (fuel : Nat) (buf : Bytes) (st st' : St) (f : File)
    (hp : parseFile h fuel buf st = .ok (some f, st')) :
    24 ≤ buf.length ∧ (rd buf 20 3 = 0xFFFFFF → 32 ≤ buf.length) ∧ extOf buf ≤ buf.length ∧
    f.buf = buf.take (extOf buf) ∧ f.info.extSize = extOf buf ∧
    f.info.size3 = rd buf 20 3 ∧ f.info.attrs = rd buf 19 1 ∧ f.info.ckFile = rd buf 17 1 ∧
    f.info.state = rd buf 23 1 := by
  obtain ⟨i, hfh, hb, he, h3, ha, hc, hs⟩ := parseFile_some_inv hp
  obtain ⟨a, b, c, d, e3, ea, ec, es⟩ := fileHeader_some hfh
  exact ⟨a, b, d, by rw [hb, c], by rw [he, c], by rw [h3, e3], by rw [ha, ea], by rw [hc, ec], by rw [hs, es]⟩

theorem u8_sub2_cancel {a a' c d : UInt8} (h : a - c - d = 0) (h' : a' - c - d = 0) : a = a' := by
  have e := h.trans h'.symm
  have := congrArg UInt8.toNat e
  simp only [UInt8.toNat_sub] at this
  apply UInt8.toNat_inj.mp
  have := a.toNat_lt
  have := a'.toNat_lt
  have := c.toNat_lt
  have := d.toNat_lt
  omega

/-- what `validateFileNode` accepts -/
structure FileNodeOk (i : FileInfo) (buf : Bytes) : Prop where
  len : 24 ≤ buf.length
  large_iff : isLarge i.attrs = true ↔ i.size3 = 0xFFFFFF
  extlen : i.size3 = 0xFFFFFF → 32 ≤ buf.length
  copy : i.size3 ≠ 0xFFFFFF → i.size3 = i.extSize
  size : buf.length = i.extSize
  hdr : checksumHeader i buf = 0
  body : if hasChecksum i.attrs = true then sum8 (buf.drop (if isLarge i.attrs = true then 32 else 24)) + byte i.ckFile = 0
         else i.ckFile = emptyBodyChecksum

theorem fileSizeCheck_none_iff (i : FileInfo) (n : Nat) : fileSizeCheck i n = none ↔
    ((isLarge i.attrs = true ↔ i.size3 = 0xFFFFFF) ∧ (i.size3 = 0xFFFFFF → 32 ≤ n) ∧
     (i.size3 ≠ 0xFFFFFF → i.size3 = i.extSize)) := by
  unfold fileSizeCheck
  by_cases h1 : i.size3 = 0xFFFFFF <;> by_cases h2 : n < 32 <;> by_cases h3 : isLarge i.attrs = true <;>
    by_cases h4 : i.extSize = i.size3 <;> simp [h1, h2, h3, h4, eq_comm (a := i.size3) (b := i.extSize)] <;> omega

theorem validateFileNode_nil_iff (i : FileInfo) (buf : Bytes) : validateFileNode i buf = [] ↔ FileNodeOk i buf := by
  simp only [validateFileNode]
  by_cases h1 : buf.length < 24
  · simp only [h1, if_true]
    constructor
    · intro h; simp at h
    · intro h; have := h.len; omega
  simp only [h1, if_false]
  cases hc : fileSizeCheck i buf.length with
  | some e =>
    simp only
    constructor
    · intro h; simp at h
    · intro h
      have : fileSizeCheck i buf.length = none := (fileSizeCheck_none_iff _ _).mpr ⟨h.large_iff, h.extlen, h.copy⟩
      rw [this] at hc; simp at hc
  | none =>
    obtain ⟨a, b, c⟩ := (fileSizeCheck_none_iff _ _).mp hc
    simp only
    by_cases h2 : buf.length ≠ i.extSize
    · rw [if_pos h2]
      constructor
      · intro h; simp at h
      · intro h; exact absurd h.size h2
    rw [if_neg h2]
    simp only [List.append_eq_nil_iff]
    have h2' : buf.length = i.extSize := by omega
    constructor
    · intro ⟨x, y⟩
      refine ⟨by omega, a, b, c, h2', ?_, ?_⟩
      · simpa using x
      · cases h3 : hasChecksum i.attrs
        · simp only [h3, Bool.false_eq_true, not_false_eq_true, if_true, if_false] at y ⊢
          simpa using y
        · simp only [h3, not_true_eq_false, if_false, if_true] at y ⊢
          simpa using y
    · intro h
      refine ⟨by simp [h.hdr], ?_⟩
      have hb := h.body
      cases h3 : hasChecksum i.attrs
      · simp only [h3, Bool.false_eq_true, if_false] at hb
        simp [hb]
      · simp only [h3, if_true] at hb
        simp [hb]

/-- `case *uefi.File` never panics: after the large-bit fix the body slice is always in range -/
theorem validateFileNodeGo_eq (i : FileInfo) (buf : Bytes) :
    validateFileNodeGo i buf = .ok (validateFileNode i buf) := by
  simp only [validateFileNodeGo, validateFileNode]
  by_cases h1 : buf.length < 24
  · simp [h1]
  simp only [h1, if_false]
  cases hc : fileSizeCheck i buf.length with
  | some e => simp
  | none =>
    obtain ⟨a, b, _⟩ := (fileSizeCheck_none_iff _ _).mp hc
    simp only
    by_cases h2 : buf.length ≠ i.extSize
    · rw [if_pos h2, if_pos h2]
    rw [if_neg h2, if_neg h2]
    by_cases h3 : hasChecksum i.attrs = true
    · have : ¬ ((if isLarge i.attrs = true then 32 else 24) > buf.length) := by
        by_cases h4 : isLarge i.attrs = true
        · have := b (a.mp h4); simp [h4]; omega
        · simp [h4]; omega
      simp [h3, this]
    · simp [h3]


/-- header length announced by the attribute byte -/
def hsOf (buf : Bytes) : Nat := if isLarge (rd buf 19 1) = true then 32 else 24

/-- the integrity conditions of a file (PI 1.7 vol. 3, 3.2.3) on the bytes the file was parsed from;
    `buf` may extend beyond the file -/
structure FileBytesOk (buf : Bytes) : Prop where
  len24 : 24 ≤ buf.length
  ext_le : extOf buf ≤ buf.length
  large_iff : isLarge (rd buf 19 1) = true ↔ rd buf 20 3 = 0xFFFFFF
  hs_le : hsOf buf ≤ extOf buf
  hdr : sum8 (buf.take (hsOf buf)) - byte (rd buf 17 1) - byte (rd buf 23 1) = 0
  body : if hasChecksum (rd buf 19 1) = true then
           sum8 ((buf.take (extOf buf)).drop (hsOf buf)) + byte (rd buf 17 1) = 0
         else rd buf 17 1 = emptyBodyChecksum

theorem fileBytesOk_of_parse {h : Hooks} {fuel : Nat} {buf : Bytes} {st st' : St} {f : File}
    (hp : parseFile h fuel buf st = .ok (some f, st')) (hv : validateFileNode f.info f.buf = []) :
    FileBytesOk buf := by
  obtain ⟨l24, _, hle, hbuf, hext, hs3, hat, hck, hst⟩ := parseFile_ok_fields _ _ _ _ _ _ hp
  have ok := (validateFileNode_nil_iff _ _).mp hv
  have hlen : f.buf.length = extOf buf := by rw [hbuf, List.length_take]; omega
  have hli := ok.large_iff
  rw [hat, hs3] at hli
  have hsle : hsOf buf ≤ extOf buf := by
    unfold hsOf
    by_cases hl : isLarge (rd buf 19 1) = true
    · have := ok.extlen (by rw [hs3]; exact hli.mp hl)
      simp [hl]; omega
    · have := ok.len
      simp [hl]; omega
  refine ⟨l24, hle, hli, hsle, ?_, ?_⟩
  · have := ok.hdr
    unfold checksumHeader at this
    rw [hat, hck, hst] at this
    have e : min (if isLarge (rd buf 19 1) = true then 32 else 24) f.buf.length = hsOf buf := by
      unfold hsOf at *; omega
    simp only [e] at this
    rw [hbuf, List.take_take, Nat.min_eq_left hsle] at this
    exact this
  · have := ok.body
    rw [hat, hck, hbuf] at this
    exact this

/-- **file, spec level**: two byte strings that both satisfy the file integrity conditions cannot differ
    in exactly one byte of the file that is a header byte other than `State` (this includes the size
    field, the attribute byte and `IntegrityCheck.File`), or any byte of the file when the checksum
    attribute is set. -/
theorem fileBytesOk_alter {buf buf' : Bytes} {p : Nat} (ok : FileBytesOk buf) (ok' : FileBytesOk buf')
    (ha : Alter buf buf' p) (hin : p < extOf buf) (hst : p ≠ 23)
    (hcl : p < hsOf buf ∨ hasChecksum (rd buf 19 1) = true) : False := by
  -- the large attribute, hence the header length, is the same on both sides
  have hlarge : isLarge (rd buf' 19 1) = isLarge (rd buf 19 1) := by
    by_cases h19 : p = 19
    · have e3 : rd buf' 20 3 = rd buf 20 3 := ha.rd_eq (by omega)
      have := ok.large_iff
      have := ok'.large_iff
      rw [e3] at this
      cases h1 : isLarge (rd buf' 19 1) <;> cases h2 : isLarge (rd buf 19 1) <;> simp_all
    · by_cases hsz : 20 ≤ p ∧ p ≤ 22
      · have e : rd buf' 19 1 = rd buf 19 1 := ha.rd_eq (by omega)
        rw [e]
      · have e : rd buf' 19 1 = rd buf 19 1 := ha.rd_eq (by omega)
        rw [e]
  have hhs : hsOf buf' = hsOf buf := by unfold hsOf; rw [hlarge]
  have hhs24 : 24 ≤ hsOf buf := by unfold hsOf; split <;> omega
  have hhs32 : hsOf buf ≤ 32 := by unfold hsOf; split <;> omega
  by_cases hp : p < hsOf buf
  · -- a header byte: the summed range [0, hs) is the same, one byte in it differs
    have hA := ha.take_gt hp
    obtain ⟨pre, x, y, post, e1, e2, _, hxy⟩ := hA
    have hne := sum8_alter pre post x y hxy
    rw [← e1, ← e2] at hne
    have hh := ok.hdr
    have hh' := ok'.hdr
    rw [hhs] at hh'
    have e23 : rd buf' 23 1 = rd buf 23 1 := ha.rd_eq (by omega)
    rw [e23] at hh'
    by_cases h17 : p = 17
    · -- IntegrityCheck.File: the body has not changed
      have hb := ok.body
      have hb' := ok'.body
      have e19 : rd buf' 19 1 = rd buf 19 1 := ha.rd_eq (by omega)
      have e20 : rd buf' 20 3 = rd buf 20 3 := ha.rd_eq (by omega)
      have e24 : rd buf' 24 8 = rd buf 24 8 := ha.rd_eq (by omega)
      have eE : extOf buf' = extOf buf := by unfold extOf; rw [e20, e24]
      rw [e19, eE, hhs] at hb'
      cases hck : hasChecksum (rd buf 19 1)
      · simp only [hck, Bool.false_eq_true, if_false] at hb hb'
        exact ha.rd_ne (off := 17) (len := 1) (by omega) (by omega) (hb'.trans hb.symm)
      · simp only [hck, if_true] at hb hb'
        have ed : (buf'.take (extOf buf)).drop (hsOf buf) = (buf.take (extOf buf)).drop (hsOf buf) := by
          rw [List.drop_take, List.drop_take, ha.drop_gt (by omega)]
        rw [ed] at hb'
        have ec : byte (rd buf' 17 1) = byte (rd buf 17 1) := u8_add_left_cancel (hb'.trans hb.symm)
        rw [ec] at hh'
        exact hne (u8_sub2_cancel hh hh')
    · have e17 : rd buf' 17 1 = rd buf 17 1 := ha.rd_eq (by omega)
      rw [e17] at hh'
      exact hne (u8_sub2_cancel hh hh')
  · -- a body byte of a file with the checksum attribute
    have hck : hasChecksum (rd buf 19 1) = true := by
      rcases hcl with h | h
      · exact absurd h hp
      · exact h
    have e17 : rd buf' 17 1 = rd buf 17 1 := ha.rd_eq (by omega)
    have e19 : rd buf' 19 1 = rd buf 19 1 := ha.rd_eq (by omega)
    have e20 : rd buf' 20 3 = rd buf 20 3 := ha.rd_eq (by omega)
    have eE : extOf buf' = extOf buf := by
      unfold extOf
      rw [e20]
      by_cases hF : rd buf 20 3 = 0xFFFFFF
      · have : hsOf buf = 32 := by unfold hsOf; rw [ok.large_iff.mpr hF]; rfl
        have e24 : rd buf' 24 8 = rd buf 24 8 := ha.rd_eq (by omega)
        rw [e24]
      · simp [hF]
    have hb := ok.body
    have hb' := ok'.body
    rw [e19, eE, hhs, e17] at hb'
    simp only [hck, if_true] at hb hb'
    have hA := (ha.take_gt hin).drop_le (Nat.le_of_not_lt hp)
    obtain ⟨pre, x, y, post, e1, e2, _, hxy⟩ := hA
    have hne := sum8_alter pre post x y hxy
    rw [← e1, ← e2] at hne
    exact hne (u8_add_right_cancel (hb.trans hb'.symm))

/-- **file, node level**: if the file parsed from `buf` passes its node check, the file parsed from
    `buf` with one protected byte altered does not (the parser may also refuse, or — when the size
    field has become FFFFFF and eight erased bytes follow — report free space instead of a file:
    that outcome is not covered here, see `x-size-becomes-freespace`). -/
theorem file_alter_detected {h h' : Hooks} {fuel fuel' : Nat} {st st1 st' st2 : St} {buf buf' : Bytes}
    {f f' : File} {p : Nat}
    (hp : parseFile h fuel buf st = .ok (some f, st1)) (hv : validateFileNode f.info f.buf = [])
    (ha : Alter buf buf' p) (hin : p < f.info.extSize) (hst : p ≠ 23)
    (hcl : p < (if isLarge f.info.attrs = true then 32 else 24) ∨ hasChecksum f.info.attrs = true)
    (hp' : parseFile h' fuel' buf' st' = .ok (some f', st2)) :
    validateFileNode f'.info f'.buf ≠ [] := by
  intro hv'
  obtain ⟨_, _, _, _, hext, _, hat, _, _⟩ := parseFile_ok_fields _ _ _ _ _ _ hp
  rw [hext] at hin
  rw [hat] at hcl
  exact fileBytesOk_alter (fileBytesOk_of_parse hp hv) (fileBytesOk_of_parse hp' hv') ha hin hst hcl

end Fiano.Uefi
