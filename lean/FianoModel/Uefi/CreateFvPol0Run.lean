/-
  C02 (follow-up wp-c02c, round 3): a run whose tree holds a top-level volume of the wrong erase polarity
  (`Poisoned`, Uefi/CreateFvPol0.lean) stays so and writes nothing — for the whole edit language (`run3`:
  the modelled operations, create-fv, nvram-compact).  Hence `create-fv` under erase polarity 0 is inside
  the statement of C02: every later save fails and no output is written.
-/
import FianoModel.Uefi.CreateFvPol0
import FianoModel.Uefi.EditValidOpsDefs

namespace Fiano.Uefi.Pol0
open Fiano

theorem poisoned_of_attrs {pol : UInt8} {t t' : Tree} (h : ∀ a ∈ attrsTree t, a ∈ attrsTree t')
    (hp : Poisoned pol t) : Poisoned pol t' := by
  obtain ⟨a, hm, hne⟩ := hp
  exact ⟨a, h a hm, hne⟩

theorem poisoned_rw {pol : UInt8} {E : Editor} {t t' : Tree} (h : rwTree E t = .ok t') (hp : Poisoned pol t) :
    Poisoned pol t' :=
  poisoned_of_attrs (fun a hm => by rw [rwTree_attrs E t t' h]; exact hm) hp

/-- the process polarity is set (a volume was parsed) -/
def PolSet (s : Run) : Prop := s.st.pol ≠ 0xF0

theorem step_poisoned (h : Hooks) (op : Op) (s s' : Run) (hs : step h op s = .ok s') (hset : PolSet s)
    (hp : Poisoned s.st.pol s.tree) :
    Poisoned s'.st.pol s'.tree ∧ s'.st.pol = s.st.pol ∧ s'.outs = s.outs := by
  unfold step at hs
  split at hs
  · unfold stepNil at hs
    split at hs
    · split at hs <;> cases hs
    · cases hs; exact ⟨hp, rfl, rfl⟩
    · cases hs; exact ⟨hp, rfl, rfl⟩
    · cases hs
  · split at hs
    · split at hs
      · cases hs
      · cases hs; exact ⟨hp, rfl, rfl⟩
    · rename_i p w nf
      split at hs
      · cases hs
      · rename_i t ht
        cases hs
        unfold insertOp at ht
        split at ht
        · cases ht
        · cases ht
        · split at ht
          · exact ⟨poisoned_rw ht hp, rfl, rfl⟩
          · exact ⟨poisoned_rw ht hp, rfl, rfl⟩
    · rename_i p pad
      split at hs
      · cases hs
      · rename_i t ht
        cases hs
        exact ⟨poisoned_rw ht hp, rfl, rfl⟩
    · rename_i p body
      split at hs
      · cases hs
      · rename_i t ht
        cases hs
        unfold replacePe32Op at ht
        split at ht
        · cases ht
        · split at ht
          · exact ⟨poisoned_rw ht hp, rfl, rfl⟩
          · cases ht
    · split at hs
      · cases hs
      · rename_i t st ht
        exact absurd hp (asmTree_clean h s.tree t { s.st with ffs3 := false } st ht hset)
    · split at hs
      · cases hs
      · cases hs; exact ⟨hp, rfl, rfl⟩

theorem step3_poisoned (h : Hooks) (c : NvCompactFn) (op : Op3) (s s' : Run) (hs : step3 h c op s = .ok s')
    (hset : PolSet s) (hp : Poisoned s.st.pol s.tree) :
    Poisoned s'.st.pol s'.tree ∧ s'.st.pol = s.st.pol ∧ s'.outs = s.outs := by
  cases op with
  | nvCompact =>
    rw [step3] at hs
    split at hs
    · cases hs
    · split at hs
      · cases hs
      · rename_i t ht
        cases hs
        exact ⟨poisoned_rw ht hp, rfl, rfl⟩
  | base op2 =>
    rw [step3] at hs
    cases op2 with
    | base op => rw [step2] at hs; exact step_poisoned h op s s' hs hset hp
    | createFv a z n =>
      rw [step2] at hs
      split at hs
      · cases hs
      · rename_i t ht
        cases hs
        exact ⟨poisoned_of_attrs (createFvOp_attrs _ _ _ _ _ _ ht).1 hp, rfl, rfl⟩

/-- **a poisoned run writes nothing** -/
theorem run3_poisoned (h : Hooks) (c : NvCompactFn) : ∀ (ops : List Op3) (s s' : Run), run3 h c ops s = .ok s' →
    PolSet s → Poisoned s.st.pol s.tree → s'.outs = s.outs
  | [], s, s', hr, _, _ => by rw [run3] at hr; cases hr; rfl
  | op :: ops, s, s', hr, hset, hp => by
    rw [run3] at hr
    split at hr
    · cases hr
    · rename_i s1 hs1
      obtain ⟨h1, h2, h3⟩ := step3_poisoned h c op s s1 hs1 hset hp
      rw [← h3]
      exact run3_poisoned h c ops s1 s' hr (by unfold PolSet; rw [h2]; exact hset) h1

/-- **`create-fv` under erase polarity 0**: if `create-fv` succeeds in a process whose erase polarity is
    set and is not 0xFF, then whatever follows on the command line (modelled operations, further
    create-fv, nvram-compact, saves), a run that succeeds has written no further image: every later
    `save` fails ("conflicting erase polarities") -/
theorem createFv_wrong_polarity_writes_nothing (h : Hooks) (c : NvCompactFn) (a z : Nat) (n : Guid) (ops : List Op3)
    (s r : Run) (hset : PolSet s) (hpol : s.st.pol ≠ 0xFF)
    (hr : run3 h c (.base (.createFv a z n) :: ops) s = .ok r) : r.outs = s.outs := by
  rw [run3] at hr
  split at hr
  · cases hr
  · rename_i s1 hs1
    have hs1' := hs1
    rw [step3, step2] at hs1'
    split at hs1'
    · cases hs1'
    · rename_i t ht
      cases hs1'
      have hp := createFvOp_poisons _ _ _ _ _ _ ht hpol
      exact run3_poisoned h c ops { s with tree := t } r hr hset hp

end Fiano.Uefi.Pol0
