/-
  C03 follow-up (wp-c03b), byte-level frame, part 3: the flash image with descriptor — for ARBITRARY
  trees and hooks.  The two saved images (with and without the edit) are the same descriptor buffer
  followed by region buffers that are pairwise identical, except those of BIOS regions, which have the
  same length and agree outside the volumes below which the editor fired.
-/
import FianoModel.Uefi.ExactLay
import FianoModel.Uefi.ExactFlash
import FianoModel.Uefi.Lemmas.Frame

namespace Fiano.Uefi.Exact
open Fiano Fiano.Uefi

/-- what the two assembled nodes of one region may differ in: nothing — or, for a BIOS region `b` of
    the edited tree, bytes inside the volumes below which the editor fired -/
def RegFrame (E : Editor) (orig : List Region) (r1 r2 : Region) : Prop :=
  r1 = r2 ∨ ∃ b ba bb, Region.bios b ∈ orig ∧ r1 = .bios ba ∧ r2 = .bios bb ∧ bb.fr = ba.fr ∧
    ba.buf.length = bb.buf.length ∧ ∀ j, ¬ InDirty E b.elems j → ba.buf[j]? = bb.buf[j]?

def Pair2 (R : Region → Region → Prop) : List Region → List Region → Prop
  | [], [] => True
  | a :: as, b :: bs => R a b ∧ Pair2 R as bs
  | _, _ => False

def RegionsSized : List Region → Prop
  | [] => True
  | .bios b :: rs => ElemsSized b.elems ∧ RegionsSized rs
  | _ :: rs => RegionsSized rs

theorem regFrame_key (E : Editor) (orig : List Region) (r1 r2 : Region) (h : RegFrame E orig r1 r2) :
    r1.fr = r2.fr ∧ r1.rtype = r2.rtype ∧ r1.buf.length = r2.buf.length := by
  rcases h with rfl | ⟨b, ba, bb, _, rfl, rfl, hfr, hl, _⟩
  · exact ⟨rfl, rfl, rfl⟩
  · exact ⟨hfr.symm, rfl, hl⟩

theorem regFrame_mono (E : Editor) (o1 o2 : List Region) (h : ∀ x ∈ o1, x ∈ o2) (r1 r2 : Region)
    (hr : RegFrame E o1 r1 r2) : RegFrame E o2 r1 r2 := by
  rcases hr with rfl | ⟨b, ba, bb, hm, h1, h2, h3, h4, h5⟩
  · exact Or.inl rfl
  · exact Or.inr ⟨b, ba, bb, h _ hm, h1, h2, h3, h4, h5⟩

theorem pair2_mono (R S : Region → Region → Prop) (h : ∀ a b, R a b → S a b) : ∀ (l1 l2 : List Region),
    Pair2 R l1 l2 → Pair2 S l1 l2
  | [], [], _ => trivial
  | [], _ :: _, hp => by cases hp
  | _ :: _, [], hp => by cases hp
  | a :: as, b :: bs, hp => ⟨h a b hp.1, pair2_mono R S h as bs hp.2⟩

/-! ### Assemble on the regions, in parallel -/

theorem asmBiosElems_ffs3 (h : Hooks) : ∀ (es : List BiosElem) (st : St) (as : List BiosElem) (s1 : St),
    st.ffs3 = false → asmBiosElems h es st = .ok (as, s1) → s1.ffs3 = false
  | [], st, as, s1, hf, h1 => by
    simp only [asmBiosElems, Except.ok.injEq, Prod.mk.injEq] at h1
    rw [← h1.2]; exact hf
  | .pad p o :: es, st, as, s1, hf, h1 => by
    rw [asmBiosElems] at h1
    split at h1
    · cases h1
    rename_i a1 s2 h2
    cases h1
    exact asmBiosElems_ffs3 h es st a1 s1 hf h2
  | .fv v :: es, st, as, s1, hf, h1 => by
    rw [asmBiosElems] at h1
    split at h1
    · cases h1
    rename_i v1 s2 hv
    split at h1
    · cases h1
    rename_i a1 s3 h2
    cases h1
    exact asmBiosElems_ffs3 h es s2 a1 s1 (asmFv_state h v st v1 s2 hv hf).1 h2

theorem bios_frame_ffs3 (h : Hooks) (b ba : BiosRegion) (st sa : St) (hf : st.ffs3 = false)
    (ha : asmBios h b st = .ok (ba, sa)) : sa.ffs3 = false := by
  unfold asmBios at ha
  simp only at ha
  split at ha
  · cases ha
  rename_i as s1 h1
  split at ha
  · cases ha
  split at ha
  · cases ha
  rename_i s1' hp1
  split at ha
  · cases ha
  cases ha
  rw [(setPolarity_ok _ _ _ hp1).2.1]
  exact asmBiosElems_ffs3 h b.elems st as s1 hf h1

theorem asm_regions_frame (h : Hooks) (E : Editor) : ∀ (rs rs2 : List Region) (st : St) (la : List Region) (sa : St)
    (lb : List Region) (sb : St), rwRegions E rs = .ok rs2 → RegionsSized rs → st.ffs3 = false →
    asmRegions h rs st = .ok (la, sa) → asmRegions h rs2 st = .ok (lb, sb) →
    sb = sa ∧ Pair2 (RegFrame E rs) la lb
  | [], rs2, st, la, sa, lb, sb, hrw, _, _, ha, hb => by
    simp only [rwRegions, Except.ok.injEq] at hrw
    subst hrw
    simp only [asmRegions, Except.ok.injEq, Prod.mk.injEq] at ha hb
    obtain ⟨rfl, rfl⟩ := ha
    obtain ⟨rfl, rfl⟩ := hb
    exact ⟨rfl, trivial⟩
  | .bios b :: rs, rs2, st, la, sa, lb, sb, hrw, hs, hf, ha, hb => by
    rw [rwRegions] at hrw
    split at hrw
    · cases hrw
    rename_i b2 hb2
    split at hrw
    · cases hrw
    rename_i rs2' hrs2
    cases hrw
    rw [asmRegions] at ha hb
    split at ha
    · cases ha
    rename_i ba s1 h1
    split at ha
    · cases ha
    rename_i la' s1' h1'
    cases ha
    split at hb
    · cases hb
    rename_i bb s2 h2
    split at hb
    · cases hb
    rename_i lb' s2' h2'
    cases hb
    obtain ⟨e1, e2, e3, e4, _, e6⟩ := bios_frame h E b b2 ba bb st s1 s2 hb2 hs.1 hf h1 h2
    subst e1
    have hf1 := bios_frame_ffs3 h b ba st s2 hf h1
    obtain ⟨i1, i2⟩ := asm_regions_frame h E rs rs2' s2 la' sa lb' sb hrs2 hs.2 hf1 h1' h2'
    refine ⟨i1, Or.inr ⟨b, ba, bb, List.mem_cons_self, rfl, rfl, e4, by rw [e2, e3], e6⟩, ?_⟩
    exact pair2_mono _ _ (fun a c => regFrame_mono E rs _ (fun x hx => List.mem_cons_of_mem _ hx) a c) _ _ i2
  | .me x y :: rs, rs2, st, la, sa, lb, sb, hrw, hs, hf, ha, hb => by
    have hne : ∀ b, Region.me x y ≠ .bios b := fun b hb => by cases hb
    rw [rwRegions_nonbios E _ _ hne] at hrw
    split at hrw
    · cases hrw
    rename_i rs2' hrs2
    cases hrw
    simp only [asmRegions] at ha hb
    split at ha
    · cases ha
    rename_i la' s1' h1'
    cases ha
    split at hb
    · cases hb
    rename_i lb' s2' h2'
    cases hb
    obtain ⟨i1, i2⟩ := asm_regions_frame h E rs rs2' st la' sa lb' sb hrs2 hs hf h1' h2'
    exact ⟨i1, Or.inl rfl,
      pair2_mono _ _ (fun a c => regFrame_mono E rs _ (fun x hx => List.mem_cons_of_mem _ hx) a c) _ _ i2⟩
  | .raw x y z :: rs, rs2, st, la, sa, lb, sb, hrw, hs, hf, ha, hb => by
    have hne : ∀ b, Region.raw x y z ≠ .bios b := fun b hb => by cases hb
    rw [rwRegions_nonbios E _ _ hne] at hrw
    split at hrw
    · cases hrw
    rename_i rs2' hrs2
    cases hrw
    simp only [asmRegions] at ha hb
    split at ha
    · cases ha
    rename_i la' s1' h1'
    cases ha
    split at hb
    · cases hb
    rename_i lb' s2' h2'
    cases hb
    obtain ⟨i1, i2⟩ := asm_regions_frame h E rs rs2' st la' sa lb' sb hrs2 hs hf h1' h2'
    exact ⟨i1, Or.inl rfl,
      pair2_mono _ _ (fun a c => regFrame_mono E rs _ (fun x hx => List.mem_cons_of_mem _ hx) a c) _ _ i2⟩

/-! ### re-pointing and sorting keep the pairing -/

theorem regFrame_setFr (E : Editor) (orig : List Region) (x : FlashRegion) (r1 r2 : Region)
    (h : RegFrame E orig r1 r2) : RegFrame E orig (r1.setFr x) (r2.setFr x) := by
  rcases h with rfl | ⟨b, ba, bb, hm, rfl, rfl, hfr, hl, hj⟩
  · exact Or.inl rfl
  · exact Or.inr ⟨b, { ba with fr := some x }, { bb with fr := some x }, hm, rfl, rfl, rfl, hl, hj⟩

theorem regFrame_repoint (E : Editor) (orig : List Region) (tbl : List FlashRegion) (nr : Nat) (r1 r2 : Region)
    (h : RegFrame E orig r1 r2) : RegFrame E orig (repoint tbl nr r1) (repoint tbl nr r2) := by
  have hk := (regFrame_key E orig r1 r2 h).2.1
  unfold repoint
  dsimp only
  rw [← hk]
  split
  · exact h
  · split
    · exact h
    · split
      · exact h
      · split
        · exact regFrame_setFr E orig _ r1 r2 h
        · exact h

theorem pair2_map_repoint (E : Editor) (orig : List Region) (tbl : List FlashRegion) (nr : Nat) :
    ∀ (l1 l2 : List Region), Pair2 (RegFrame E orig) l1 l2 →
      Pair2 (RegFrame E orig) (l1.map (repoint tbl nr)) (l2.map (repoint tbl nr))
  | [], [], _ => trivial
  | [], _ :: _, hp => by cases hp
  | _ :: _, [], hp => by cases hp
  | a :: as, b :: bs, hp => ⟨regFrame_repoint E orig tbl nr a b hp.1, pair2_map_repoint E orig tbl nr as bs hp.2⟩

theorem pair2_insert (E : Editor) (orig : List Region) (a b : Region) (hab : RegFrame E orig a b) :
    ∀ (l1 l2 : List Region), Pair2 (RegFrame E orig) l1 l2 →
      Pair2 (RegFrame E orig) (insertRegion a l1) (insertRegion b l2)
  | [], [], _ => ⟨hab, trivial⟩
  | [], _ :: _, hp => by cases hp
  | _ :: _, [], hp => by cases hp
  | x :: xs, y :: ys, hp => by
    have k1 := (regFrame_key E orig a b hab).1
    have k2 := (regFrame_key E orig x y hp.1).1
    simp only [insertRegion, k1, k2]
    split
    · exact ⟨hab, hp⟩
    · exact ⟨hp.1, pair2_insert E orig a b hab xs ys hp.2⟩

theorem pair2_sort (E : Editor) (orig : List Region) : ∀ (l1 l2 : List Region), Pair2 (RegFrame E orig) l1 l2 →
    Pair2 (RegFrame E orig) (sortRegions l1) (sortRegions l2)
  | [], [], _ => trivial
  | [], _ :: _, hp => by cases hp
  | _ :: _, [], hp => by cases hp
  | a :: as, b :: bs, hp => by
    have ih := pair2_sort E orig as bs hp.2
    unfold sortRegions at ih ⊢
    simp only [List.foldr_cons]
    exact pair2_insert E orig a b hp.1 _ _ ih

/-- **byte-level frame, flash image**: `asm (op t)` and `asm t` are the same descriptor buffer
    followed by region buffers (in flash order) that are pairwise identical — except those of BIOS
    regions, which have the same length and agree at every offset (relative to the region start) that
    does not lie inside a volume below which the editor fired.  The k-th region buffer starts at
    `4096 +` the sum of the lengths of the region buffers before it. -/
theorem tree_frame_flash (h : Hooks) (E : Editor) (f : Flash) (u ta ua : Tree) (st sa sb : St)
    (hrw : rwTree E (.flash f) = .ok u) (hs : RegionsSized f.regions) (hf : st.ffs3 = false)
    (ha : asmTreeWith h (.flash f) st = .ok (ta, sa)) (hb : asmTreeWith h u st = .ok (ua, sb)) :
    sb = sa ∧ ∃ (d : Bytes) (ra rb : List Region),
      ta.buf = d ++ (ra.map Region.buf).flatten ∧ ua.buf = d ++ (rb.map Region.buf).flatten ∧
      Pair2 (RegFrame E f.regions) ra rb := by
  rw [rwTree] at hrw
  split at hrw
  · cases hrw
  rename_i rs2 hrs2
  cases hrw
  unfold asmTreeWith at ha hb
  simp only at ha hb
  split at ha
  · cases ha
  rename_i fa s1 h1
  cases ha
  split at hb
  · cases hb
  rename_i fb s2 h2
  cases hb
  have hba := asmFlash_buf h f fa st sa h1
  have hbb := asmFlash_buf h _ fb st sb h2
  -- unfold both runs
  unfold asmFlash at h1 h2
  simp only at h1 h2
  split at h1
  · cases h1
  rename_i ifd hifd
  rw [hifd] at h2
  simp only at h2
  split at h1
  · cases h1
  rename_i la s1' hla
  split at h2
  · cases h2
  rename_i lb s2' hlb
  obtain ⟨e1, hp⟩ := asm_regions_frame h E f.regions rs2 st la s1' lb s2' hrs2 hs hf hla hlb
  subst e1
  split at h1
  · cases h1
  rename_i b0 btl hb0
  rw [hb0] at h2
  simp only at h2
  split at h1
  · cases h1
  split at h2
  · cases h2
  split at h1
  · cases h1
  rename_i bufa offa hta
  split at h2
  · cases h2
  rename_i bufb offb htb
  split at h1
  · cases h1
  split at h2
  · cases h2
  cases h1
  cases h2
  simp only [Tree.buf] at hba hbb ⊢
  refine ⟨?_, ifd.buf, _, _, hba, hbb, ?_⟩
  · first | rfl | trivial
  rw [← hb0]
  exact pair2_sort E f.regions _ _ (pair2_map_repoint E f.regions _ _ _ _ hp)

end Fiano.Uefi.Exact
