/-
  C03 follow-up (wp-c03b), layer 3b: grammar-side lemmas — the volume built from a header skeleton and
  a padded file list is well formed; pad files are transparent for the abstract view; small files
  never ask for FFSv3; the files fit when the last one ends inside the volume.
-/
import FianoModel.Uefi.ExactAsmBase

namespace Fiano.Uefi.Exact
open Fiano Fiano.Uefi Fiano.Uefi.Spec

/-! ### trees of lists -/

theorem treeFiles_append (a b : List FileI) : treeFiles (a ++ b) = treeFiles a ++ treeFiles b := by
  induction a with
  | nil => simp [treeFiles]
  | cons f fs ih => simp [treeFiles, ih]

theorem treeFile_padI_isPad (n : Nat) : (treeFile (padI n)).isPad = true := by
  unfold padI
  simp [treeFile, File.isPad, File.info]

theorem avFile_padI (n : Nat) : avFile (treeFile (padI n)) = [] := by
  unfold padI
  simp [treeFile, avFile, avSections]

theorem absFiles_padBefore (off attrs : Nat) : absFiles (treeFiles (padBefore off attrs)) = [] := by
  unfold padBefore
  split
  · rfl
  · simp [treeFiles, absFiles, treeFile_padI_isPad]

theorem avFiles_padBefore (off attrs : Nat) : avFiles (treeFiles (padBefore off attrs)) = [] := by
  unfold padBefore
  split
  · rfl
  · simp [treeFiles, avFiles, avFile_padI]

/-- pad files synthesised by the loop are invisible in the abstract view -/
theorem abs_withPads : ∀ (fis : List FileI) (off : Nat),
    absFiles (treeFiles (withPads off fis)) = absFiles (treeFiles fis) ∧
    avFiles (treeFiles (withPads off fis)) = avFiles (treeFiles fis)
  | [], _ => by simp [withPads]
  | f :: fs, off => by
    have ih := abs_withPads fs (fileStart off (storedAttrs f) + sizeFile f)
    simp only [withPads, treeFiles_append, absFiles_append, avFiles_append, absFiles_padBefore, avFiles_padBefore,
      List.nil_append, treeFiles]
    constructor
    · rw [absFiles_cons, absFiles_cons, ih.1]
    · simp only [avFiles, ih.2]

/-! ### the files fit -/

/-- the files fit as soon as the last one ends inside the volume (a file is at least its 24-byte
    header, so every header lies inside the walk range; round 3: no condition on a header-only last
    file any more, the reader takes it since fix cce350a) -/
theorem fits_of : ∀ (fis : List FileI) (off len : Nat), layEnd off fis ≤ len → Fits off len fis
  | [], _, _, _ => trivial
  | f :: fs, off, len, hle => by
    have hge := sizeFile_ge f
    simp only [layEnd] at hle
    have h1 := le_layEnd fs (fileStart off (storedAttrs f) + sizeFile f)
    exact ⟨by omega, by omega, fits_of fs _ len hle⟩

/-! ### small files never ask for FFSv3 -/

mutual
theorem anyBigSec_size : ∀ s : SecI, anyBigSec s = true → 0xFFFFFF < sizeSec s
  | .leaf .., h => by simp [anyBigSec] at h
  | .guided .., h => by simp [anyBigSec] at h
  | .ui name, h => by simpa [anyBigSec, bigSize, sizeSec] using h
  | .version _ ver, h => by simpa [anyBigSec, bigSize, sizeSec] using h
  | .depex _ ops, h => by simpa [anyBigSec, bigSize, sizeSec] using h
  | .fvimg fv, h => by simpa [anyBigSec, bigSize, sizeSec] using h
end

theorem anyBigSecs_size : ∀ (ss : List SecI) (n : Nat), anyBigSecs ss = true → 0xFFFFFF < sizeSecs n ss
  | [], _, h => by simp [anyBigSecs] at h
  | s :: ss, n, h => by
    simp only [anyBigSecs, Bool.or_eq_true] at h
    simp only [sizeSecs]
    have hge := sizeSecs_ge ss (alignUp n 4 + sizeSec s)
    rcases h with h | h
    · have := anyBigSec_size s h; omega
    · exact anyBigSecs_size ss _ h

theorem anyBigFiles_small : ∀ (fis : List FileI), (∀ f ∈ fis, sizeFile f < 0xFFFFFF) → anyBigFiles fis = false
  | [], _ => rfl
  | .leaf .. :: fs, h => by
    simp only [anyBigFiles]
    exact anyBigFiles_small fs (fun g hg => h g (List.mem_cons_of_mem _ hg))
  | .sect g t a st secs :: fs, h => by
    have h1 := h _ List.mem_cons_self
    simp only [sizeFile] at h1
    have ih := anyBigFiles_small fs (fun g hg => h g (List.mem_cons_of_mem _ hg))
    simp only [anyBigFiles, ih, Bool.or_false, Bool.or_eq_false_iff, decide_eq_false_iff_not]
    constructor
    · intro hc; rw [if_pos hc] at h1; omega
    · cases hb : anyBigSecs secs with
      | false => rfl
      | true =>
        have := anyBigSecs_size secs 0 hb
        split at h1 <;> omega

theorem sizeFile_withPads : ∀ (fis : List FileI) (off : Nat), (∀ f ∈ fis, sizeFile f < 0xFFFFFF) →
    layEnd off fis < 0xFFFFFF → ∀ f ∈ withPads off fis, sizeFile f < 0xFFFFFF
  | [], _, _, _, f, hf => by simp [withPads] at hf
  | g :: gs, off, hs, hl, f, hf => by
    simp only [layEnd] at hl
    have hmono := le_layEnd gs (fileStart off (storedAttrs g) + sizeFile g)
    have hspec := fileStart_spec off (storedAttrs g)
    simp only [withPads, List.mem_append, List.mem_cons] at hf
    rcases hf with hf | hf | hf
    · unfold padBefore at hf
      split at hf
      · cases hf
      · simp only [List.mem_singleton] at hf
        subst hf
        rw [sizeFile_padI _ (by omega)]
        omega
    · subst hf; exact hs _ List.mem_cons_self
    · exact sizeFile_withPads gs _ (fun x hx => hs x (List.mem_cons_of_mem _ hx)) hl f hf

theorem wfFile_withPads : ∀ (fis : List FileI) (off : Nat), (∀ f ∈ fis, wfFile f = true) →
    layEnd off fis < 2 ^ 62 → ∀ f ∈ withPads off fis, wfFile f = true
  | [], _, _, _, f, hf => by simp [withPads] at hf
  | g :: gs, off, hwf, hl, f, hf => by
    simp only [layEnd] at hl
    have hmono := le_layEnd gs (fileStart off (storedAttrs g) + sizeFile g)
    have hspec := fileStart_spec off (storedAttrs g)
    simp only [withPads, List.mem_append, List.mem_cons] at hf
    rcases hf with hf | hf | hf
    · unfold padBefore at hf
      split at hf
      · cases hf
      · simp only [List.mem_singleton] at hf
        subst hf
        exact wfFile_padI _ (by omega) (by omega)
    · subst hf; exact hwf _ List.mem_cons_self
    · exact wfFile_withPads gs _ (fun x hx => hwf x (List.mem_cons_of_mem _ hx)) hl f hf

/-- the length of a serialised file area is its end offset (no layout condition needed) -/
theorem length_serFiles' : ∀ (l : List FileI) (off : Nat), (∀ f ∈ l, wfFile f = true) →
    off + (serFiles off l).length = endFiles off l
  | [], off, _ => by simp [serFiles, endFiles]
  | f :: fs, off, hw => by
    have h1 := length_serFile f (hw f List.mem_cons_self)
    have h2 := length_serFiles' fs (alignUp off 8 + sizeFile f) (fun g hg' => hw g (List.mem_cons_of_mem _ hg'))
    have := alignUp_ge off 8 (by decide)
    simp only [serFiles, endFiles, List.length_append, ffs, List.length_replicate, h1]
    omega

/-! ### the volume of a skeleton -/

theorem serFv_vol (k : Skel) (files : List FileI) (h : endFiles k.pre files ≤ k.len) :
    serFv (k.vol files) =
      fvHeaderCk k.zv k.guid k.len k.attrs (ehoOf k.blocks k.ext) k.rsv k.rev k.blocks ++
        (preBytes k.blocks k.ext ++ serFiles k.pre files ++ ffs (k.len - endFiles k.pre files)) := by
  have e : endFiles (preLen k.blocks k.ext) files + (k.len - endFiles (preLen k.blocks k.ext) files) = k.len := by
    unfold Skel.pre at h; omega
  simp only [Skel.vol, serFv, Skel.pre, Skel.guid, e, List.append_assoc]

theorem sizeFv_vol (k : Skel) (files : List FileI) (h : endFiles k.pre files ≤ k.len) : sizeFv (k.vol files) = k.len := by
  unfold Skel.pre at h
  simp only [Skel.vol, sizeFv, Skel.pre]
  omega

/-- the volume built from a well-formed header and a well-formed file area is well formed -/
theorem wfFv_vol (k : Skel) (hk : k.Ok) (files : List FileI) (hlt : k.len < 2 ^ 62) (hb : files = [] ∨ k.blocks ≠ [])
    (hfiles : wfFiles k.pre k.len files = true) (hend : endFiles k.pre files ≤ k.len)
    (hbig : anyBigFiles files = false) : wfFv (k.vol files) = true := by
  unfold Skel.pre at hfiles hend
  have e : endFiles (preLen k.blocks k.ext) files + (k.len - endFiles (preLen k.blocks k.ext) files) = k.len := by
    omega
  simp only [Skel.vol, Skel.pre, wfFv, e, Bool.and_eq_true, decide_eq_true_eq, beq_iff_eq, bne_iff_ne, Bool.or_eq_true,
    List.isEmpty_iff, Bool.not_eq_true', List.isEmpty_eq_false_iff, hbig, Bool.not_false, true_or, and_true]
  refine ⟨⟨⟨⟨⟨⟨⟨⟨⟨⟨⟨⟨hk.hzv, hk.hattrs⟩, hk.hpol⟩, hk.hrev⟩, hk.hrsv⟩, hk.hblocks⟩, hk.hhdr⟩, hb⟩, ?_⟩,
    hk.hlen8⟩, hlt⟩, hk.hlen64⟩, hfiles⟩
  cases hx : k.ext with
  | none => trivial
  | some ex =>
    obtain ⟨h1, h2, h3, h4⟩ := hk.hext ex hx
    rw [hx] at h2 h4
    simp only [Bool.and_eq_true, decide_eq_true_eq, beq_iff_eq]
    exact ⟨⟨⟨h1, h2⟩, h3⟩, h4⟩

end Fiano.Uefi.Exact
