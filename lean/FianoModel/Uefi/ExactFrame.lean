/-
  C03 follow-up (wp-c03b), byte-level frame, part 1: what `Assemble` leaves in the process state, the
  length of a re-laid volume, and the element list of a BIOS region — for ARBITRARY trees and hooks
  (no grammar, no invariant).

  `quiet…` says that an editor fires nowhere below a node (as in Uefi/FrameLemmas.lean; declared
  again here, in namespace `Fiano.Uefi.Exact`, because that file sits in the lemma library of C02,
  which could not be imported next to the library of C01 when this was written).  A quiet node is returned identical by the rewriting; assembled from the same
  process state it yields the same bytes.  The state between the top-level volumes depends on their
  attribute words only, which an edit never touches.
-/
import FianoModel.Uefi.ExactOps

namespace Fiano.Uefi.Exact
open Fiano Fiano.Uefi

/-! ### "the editor does not fire anywhere below this node" -/
mutual
def quietSection (E : Editor) : Section → Bool
  | .mk _ _ encap => quietNodes E encap
def quietNodes (E : Editor) : List Node → Bool
  | [] => true
  | .sec s :: ns => quietSection E s && quietNodes E ns
  | .fv v :: ns => quietFv E v && quietNodes E ns
def quietSections (E : Editor) : List Section → Bool
  | [] => true
  | s :: ss => quietSection E s && quietSections E ss
def quietFile (E : Editor) : File → Bool
  | .mk i buf secs => (E.file (.mk i buf secs)).isNone && (i.nvar.isSome || quietSections E secs)
def quietFiles (E : Editor) : List File → Bool
  | [] => true
  | f :: fs => quietFile E f && quietFiles E fs
def quietFv (E : Editor) : Fv → Bool
  | .mk i buf files => (E.fv (.mk i buf files)).isNone && quietFiles E files
end

mutual
theorem rwSection_quiet (E : Editor) : ∀ (s : Section), quietSection E s = true → rwSection E s = .ok s
  | .mk i buf encap => by
    intro h
    rw [quietSection] at h
    rw [rwSection, rwNodes_quiet E encap h]
theorem rwNodes_quiet (E : Editor) : ∀ (ns : List Node), quietNodes E ns = true → rwNodes E ns = .ok ns
  | [] => by intro _; rw [rwNodes]
  | .sec s :: ns => by
    intro h
    rw [quietNodes, Bool.and_eq_true] at h
    rw [rwNodes, rwSection_quiet E s h.1, rwNodes_quiet E ns h.2]
  | .fv v :: ns => by
    intro h
    rw [quietNodes, Bool.and_eq_true] at h
    rw [rwNodes, rwFv_quiet E v h.1, rwNodes_quiet E ns h.2]
theorem rwSections_quiet (E : Editor) : ∀ (ss : List Section), quietSections E ss = true → rwSections E ss = .ok ss
  | [] => by intro _; rw [rwSections]
  | s :: ss => by
    intro h
    rw [quietSections, Bool.and_eq_true] at h
    rw [rwSections, rwSection_quiet E s h.1, rwSections_quiet E ss h.2]
theorem rwFile_quiet (E : Editor) : ∀ (f : File), quietFile E f = true → rwFile E f = .ok (some f)
  | .mk i buf secs => by
    intro h
    rw [quietFile, Bool.and_eq_true] at h
    have hn : E.file (.mk i buf secs) = none := by
      cases hx : E.file (.mk i buf secs) <;> simp_all
    rw [rwFile, hn]
    simp only
    by_cases hv : i.nvar.isSome = true
    · rw [if_pos hv]
    · rw [if_neg hv]
      have : quietSections E secs = true := by
        have := h.2
        simp only [Bool.or_eq_true] at this
        rcases this with h1 | h1
        · exact absurd h1 hv
        · exact h1
      rw [rwSections_quiet E secs this]
theorem rwFiles_quiet (E : Editor) : ∀ (fs : List File), quietFiles E fs = true → rwFiles E fs = .ok fs
  | [] => by intro _; rw [rwFiles]
  | f :: fs => by
    intro h
    rw [quietFiles, Bool.and_eq_true] at h
    rw [rwFiles, rwFile_quiet E f h.1, rwFiles_quiet E fs h.2]
theorem rwFv_quiet (E : Editor) : ∀ (v : Fv), quietFv E v = true → rwFv E v = .ok v
  | .mk i buf files => by
    intro h
    rw [quietFv, Bool.and_eq_true] at h
    have hn : E.fv (.mk i buf files) = none := by
      cases hx : E.fv (.mk i buf files) <;> simp_all
    rw [rwFv, hn]
    simp only
    rw [rwFiles_quiet E files h.2]
end

/-! ### the process state: erase polarity -/

theorem setPolarity_ok (ep : UInt8) (st st' : St) (h : setPolarity ep st = .ok st') :
    st'.pol = ep ∧ st'.ffs3 = st.ffs3 ∧ (st.pol ≠ 0xF0 → st' = st) ∧ (ep = 0xFF ∨ ep = 0) := by
  unfold setPolarity at h
  split at h
  · cases h
  rename_i hv
  have hep : ep = 0xFF ∨ ep = 0 := by
    by_cases h1 : ep = 0xFF
    · exact Or.inl h1
    · by_cases h2 : ep = 0
      · exact Or.inr h2
      · exact absurd ⟨h1, h2⟩ hv
  split at h
  · rename_i hne
    split at h
    · cases h
    · rename_i heq
      cases h
      have : st.pol = ep := by
        by_cases hc : st.pol = ep
        · exact hc
        · exact absurd hc heq
      exact ⟨this, rfl, fun _ => rfl, hep⟩
  · rename_i hne
    cases h
    exact ⟨rfl, rfl, fun hc => absurd (by
      by_cases hx : st.pol = 0xF0
      · exact hx
      · exact absurd hx hne) hc, hep⟩

theorem noteLarge_pol' (n : Nat) (st : St) : (noteLarge n st).pol = st.pol := by
  unfold noteLarge; split <;> rfl

theorem finishFv_state (i : FvInfo) (fbuf : Bytes) (st : St) (i' : FvInfo) (out : Bytes) (st' : St)
    (h : finishFv i fbuf st = .ok (i', out, st')) : st' = { st with ffs3 := false } := by
  unfold finishFv at h
  by_cases hc : i.length < fbuf.length ∧ ¬ i.resizable = true
  · rw [if_pos hc] at h; cases h
  · rw [if_neg hc] at h
    simp only at h
    split at h
    · cases h
    · split at h
      · cases h
      · split at h
        · cases h
        · cases h; rfl

theorem relayoutFv_state (i : FvInfo) (buf : Bytes) (files : List File) (st : St) (i' : FvInfo) (out : Bytes) (st' : St)
    (h : relayoutFv i buf files st = .ok (i', out, st')) : st' = { st with ffs3 := false } := by
  unfold relayoutFv at h
  split at h
  · cases h
  split at h
  · cases h
  split at h
  · cases h
  split at h
  · cases h
  exact finishFv_state _ _ _ _ _ _ h

mutual

theorem asmSection_pol (h : Hooks) : ∀ (s : Section) (st : St) (s' : Section) (st' : St),
    asmSection h s st = .ok (s', st') → st.pol ≠ 0xF0 → st'.pol = st.pol
  | .mk i buf encap, st, s', st', hh, hp => by
    rw [asmSection] at hh
    split at hh
    · cases hh
    rename_i encap' st1 hn
    have h1 := asmNodes_pol h encap st encap' st1 hn hp
    split at hh
    · split at hh
      · cases hh
      · cases hh; exact h1
      · split at hh
        · cases hh
        · cases hh; rw [noteLarge_pol', h1]
    · simp only at hh
      split at hh
      · cases hh
      split at hh
      · cases hh
      · cases hh; rw [noteLarge_pol', h1]

theorem asmNodes_pol (h : Hooks) : ∀ (ns : List Node) (st : St) (ns' : List Node) (st' : St),
    asmNodes h ns st = .ok (ns', st') → st.pol ≠ 0xF0 → st'.pol = st.pol
  | [], st, ns', st', hh, _ => by simp [asmNodes] at hh; rw [hh.2]
  | .sec s :: ns, st, ns', st', hh, hp => by
    rw [asmNodes] at hh
    split at hh
    · cases hh
    rename_i s1 st1 h1
    split at hh
    · cases hh
    rename_i ns1 st2 h2
    cases hh
    have e1 := asmSection_pol h s st s1 st1 h1 hp
    have e2 := asmNodes_pol h ns st1 ns1 st' h2 (by rw [e1]; exact hp)
    rw [e2, e1]
  | .fv v :: ns, st, ns', st', hh, hp => by
    rw [asmNodes] at hh
    split at hh
    · cases hh
    rename_i v1 st1 h1
    split at hh
    · cases hh
    rename_i ns1 st2 h2
    cases hh
    have e1 := asmFv_pol h v st v1 st1 h1 hp
    have e2 := asmNodes_pol h ns st1 ns1 st' h2 (by rw [e1]; exact hp)
    rw [e2, e1]

theorem asmSections_pol (h : Hooks) : ∀ (ss : List Section) (st : St) (ss' : List Section) (st' : St),
    asmSections h ss st = .ok (ss', st') → st.pol ≠ 0xF0 → st'.pol = st.pol
  | [], st, ss', st', hh, _ => by simp [asmSections] at hh; rw [hh.2]
  | s :: ss, st, ss', st', hh, hp => by
    rw [asmSections] at hh
    split at hh
    · cases hh
    rename_i s1 st1 h1
    split at hh
    · cases hh
    rename_i ss1 st2 h2
    cases hh
    have e1 := asmSection_pol h s st s1 st1 h1 hp
    have e2 := asmSections_pol h ss st1 ss1 st' h2 (by rw [e1]; exact hp)
    rw [e2, e1]

theorem asmFile_pol (h : Hooks) : ∀ (f : File) (st : St) (f' : File) (st' : St),
    asmFile h f st = .ok (f', st') → st.pol ≠ 0xF0 → st'.pol = st.pol
  | .mk i buf secs, st, f', st', hh, hp => by
    rw [asmFile] at hh
    split at hh
    · split at hh
      · cases hh
      · simp only at hh
        cases hh
        exact noteLarge_pol' _ _
    · split at hh
      · cases hh
      rename_i secs' st1 h1
      have e1 := asmSections_pol h secs st secs' st1 h1 hp
      split at hh
      · cases hh; exact e1
      · simp only at hh
        cases hh
        rw [noteLarge_pol', e1]

theorem asmFiles_pol (h : Hooks) : ∀ (fs : List File) (st : St) (fs' : List File) (st' : St),
    asmFiles h fs st = .ok (fs', st') → st.pol ≠ 0xF0 → st'.pol = st.pol
  | [], st, fs', st', hh, _ => by simp [asmFiles] at hh; rw [hh.2]
  | f :: fs, st, fs', st', hh, hp => by
    rw [asmFiles] at hh
    split at hh
    · cases hh
    rename_i f1 st1 h1
    split at hh
    · cases hh
    rename_i fs1 st2 h2
    cases hh
    have e1 := asmFile_pol h f st f1 st1 h1 hp
    have e2 := asmFiles_pol h fs st1 fs1 st' h2 (by rw [e1]; exact hp)
    rw [e2, e1]

theorem asmFv_pol (h : Hooks) : ∀ (v : Fv) (st : St) (v' : Fv) (st' : St),
    asmFv h v st = .ok (v', st') → st.pol ≠ 0xF0 → st'.pol = st.pol
  | .mk i buf files, st, v', st', hh, hp => by
    rw [asmFv] at hh
    split at hh
    · cases hh
    rename_i st0 h0
    have e0 := (setPolarity_ok _ _ _ h0).2.2.1 hp
    subst e0
    split at hh
    · cases hh
    rename_i files' st1 h1
    have e1 := asmFiles_pol h files st0 files' st1 h1 hp
    split at hh
    · cases hh; exact e1
    · split at hh
      · cases hh
      rename_i i' b' st2 h2
      cases hh
      rw [relayoutFv_state _ _ _ _ _ _ _ h2]
      exact e1

end

theorem asmFiles_len (h : Hooks) : ∀ (fs : List File) (st : St) (fs' : List File) (st' : St),
    asmFiles h fs st = .ok (fs', st') → fs'.length = fs.length
  | [], _, _, _, hh => by simp [asmFiles] at hh; rw [← hh.1]
  | f :: fs, st, fs', st', hh => by
    rw [asmFiles] at hh
    split at hh
    · cases hh
    · split at hh
      · cases hh
      · rename_i h2
        cases hh
        simp [asmFiles_len h fs _ _ _ h2]

/-- **the state a top-level volume leaves behind** depends on its attribute word only -/
theorem asmFv_state (h : Hooks) (v : Fv) (st : St) (v' : Fv) (st' : St) (hh : asmFv h v st = .ok (v', st'))
    (hf : st.ffs3 = false) : st'.ffs3 = false ∧ st'.pol = polOfAttrs v.info.attrs := by
  obtain ⟨i, buf, files⟩ := v
  rw [asmFv] at hh
  split at hh
  · cases hh
  rename_i st0 h0
  obtain ⟨p0, f0, _, hep⟩ := setPolarity_ok _ _ _ h0
  have hp0 : st0.pol ≠ 0xF0 := by
    rw [p0]; rcases hep with h1 | h1 <;> rw [h1] <;> decide
  split at hh
  · cases hh
  rename_i files' st1 h1
  have e1 := asmFiles_pol h files st0 files' st1 h1 hp0
  split at hh
  · cases hh
    have hl := asmFiles_len h files _ _ _ h1
    have : files = [] := List.length_eq_zero_iff.mp (by rw [← hl]; rfl)
    subst this
    simp only [asmFiles, Except.ok.injEq, Prod.mk.injEq] at h1
    rw [← h1.2]
    exact ⟨by rw [f0]; exact hf, p0⟩
  · split at hh
    · cases hh
    rename_i i' b' st2 h2
    cases hh
    rw [relayoutFv_state _ _ _ _ _ _ _ h2]
    exact ⟨rfl, by simp only [Fv.info]; rw [e1, p0]⟩

/-! ### the length of a re-laid volume -/

theorem patchFvHeader_length (buf : Bytes) (length : Nat) (guid : Option Guid) (count headerLen : Nat) (out : Bytes)
    (h : patchFvHeader buf length guid count headerLen = .ok out) : out.length = buf.length := by
  unfold patchFvHeader at h
  by_cases h60 : buf.length < 60
  · rw [if_pos h60] at h; cases h
  rw [if_neg h60] at h
  have l1 : (splice buf 32 (leN 8 length)).length = buf.length := splice_length _ _ _ (by simp; omega)
  -- the buffer after the optional GUID patch
  have key : ∀ b2 : Bytes, b2.length = buf.length →
      (if headerLen > (splice (splice b2 56 (leN 4 count)) 50 [0, 0]).length then (Except.error Err.err : Except Err Bytes)
       else if headerLen % 2 ≠ 0 then .error .err
       else .ok (splice (splice (splice b2 56 (leN 4 count)) 50 [0, 0]) 50
          (leN 2 ((0 - sum16 ((splice (splice b2 56 (leN 4 count)) 50 [0, 0]).take headerLen)).toNat)))) = .ok out →
      out.length = buf.length := by
    intro b2 l2 hk
    have l3 : (splice b2 56 (leN 4 count)).length = buf.length := by
      rw [splice_length _ _ _ (by simp only [leN_length, l2]; omega), l2]
    have l4 : (splice (splice b2 56 (leN 4 count)) 50 [0, 0]).length = buf.length := by
      rw [splice_length _ _ _ (by simp only [List.length_cons, List.length_nil, l3]; omega), l3]
    split at hk
    · cases hk
    split at hk
    · cases hk
    cases hk
    rw [splice_length _ _ _ (by simp only [leN_length, l4]; omega), l4]
  cases guid with
  | none => exact key _ l1 h
  | some g =>
    exact key _ (by rw [splice_length _ _ _ (by simp only [List.length_take, l1]; omega), l1]) h

theorem finishFv_length (i : FvInfo) (fbuf : Bytes) (st : St) (i' : FvInfo) (out : Bytes) (st' : St)
    (h : finishFv i fbuf st = .ok (i', out, st')) (hnr : i.resizable = false) :
    out.length = i.length ∧ fbuf.length ≤ i.length := by
  unfold finishFv at h
  by_cases hc : i.length < fbuf.length ∧ ¬ i.resizable = true
  · rw [if_pos hc] at h; cases h
  · rw [if_neg hc] at h
    have hng : ¬ i.length < fbuf.length := by
      intro hlt; exact hc ⟨hlt, by rw [hnr]; decide⟩
    simp only [hng, if_false] at h
    split at h
    · cases h
    · split at h
      · cases h
      · rename_i out' hp
        cases h
        rw [patchFvHeader_length _ _ _ _ _ _ hp]
        refine ⟨?_, by omega⟩
        split
        · simp only [List.length_append, List.length_replicate]; omega
        · omega

/-- a top-level volume (it cannot grow) is written with the length it had -/
theorem asmFv_length (h : Hooks) (v : Fv) (st : St) (v' : Fv) (st' : St) (hh : asmFv h v st = .ok (v', st'))
    (hnr : v.info.resizable = false) (hl : v.buf.length = v.info.length) :
    v'.buf.length = v.buf.length := by
  obtain ⟨i, buf, files⟩ := v
  rw [asmFv] at hh
  split at hh
  · cases hh
  split at hh
  · cases hh
  split at hh
  · cases hh; rfl
  · split at hh
    · cases hh
    rename_i i' b' st2 h2
    cases hh
    unfold relayoutFv at h2
    split at h2
    · cases h2
    split at h2
    · cases h2
    split at h2
    · cases h2
    split at h2
    · cases h2
    simp only [Fv.buf, Fv.info] at hl hnr ⊢
    rw [(finishFv_length _ _ _ _ _ _ h2 hnr).1, hl]

/-! ### the element list of a BIOS region -/

/-- top-level volumes cannot grow, and their buffer is the whole volume (true of every parsed and
    of every assembled tree) -/
def ElemsSized : List BiosElem → Prop
  | [] => True
  | .pad _ _ :: es => ElemsSized es
  | .fv v :: es => v.info.resizable = false ∧ v.buf.length = v.info.length ∧ ElemsSized es

/-- byte offset `j` of the region lies inside a volume below which the editor fires -/
def InDirty (E : Editor) : List BiosElem → Nat → Prop
  | [], _ => False
  | .pad b _ :: es, j => b.length ≤ j ∧ InDirty E es (j - b.length)
  | .fv v :: es, j => (quietFv E v = false ∧ j < v.buf.length) ∨ (v.buf.length ≤ j ∧ InDirty E es (j - v.buf.length))

def elemsLen : List BiosElem → Nat
  | [] => 0
  | e :: es => e.buf.length + elemsLen es

theorem st_ext (a b : St) (h1 : a.pol = b.pol) (h2 : a.ffs3 = b.ffs3) : a = b := by
  cases a; cases b; simp_all

theorem asmBiosElems_pol (h : Hooks) : ∀ (es : List BiosElem) (st : St) (as : List BiosElem) (st' : St),
    asmBiosElems h es st = .ok (as, st') → st.pol ≠ 0xF0 → st'.pol = st.pol
  | [], st, as, st', hh, _ => by simp [asmBiosElems] at hh; rw [hh.2]
  | .pad b o :: es, st, as, st', hh, hp => by
    rw [asmBiosElems] at hh
    split at hh
    · cases hh
    rename_i es1 st1 h1
    cases hh
    exact asmBiosElems_pol h es st es1 st' h1 hp
  | .fv v :: es, st, as, st', hh, hp => by
    rw [asmBiosElems] at hh
    split at hh
    · cases hh
    rename_i v1 st1 h1
    split at hh
    · cases hh
    rename_i es1 st2 h2
    cases hh
    have e1 := asmFv_pol h v st v1 st1 h1 hp
    rw [asmBiosElems_pol h es st1 es1 st' h2 (by rw [e1]; exact hp), e1]

theorem polOfAttrs_ne (a : Nat) : polOfAttrs a ≠ 0xF0 := by
  unfold polOfAttrs; split <;> decide

/-- **frame of the element list**: Assemble on the edited elements and on the unedited ones, from the
    same process state, ends in the same state and writes buffers of the same total length that
    agree at every offset outside the volumes below which the editor fired -/
theorem elems_frame (h : Hooks) (E : Editor) : ∀ (es es2 : List BiosElem) (st : St) (as : List BiosElem) (st1 : St)
    (as2 : List BiosElem) (st2 : St), rwBiosElems E es = .ok es2 → ElemsSized es → st.ffs3 = false →
    asmBiosElems h es st = .ok (as, st1) → asmBiosElems h es2 st = .ok (as2, st2) →
    st2 = st1 ∧ st1.ffs3 = false ∧ ((firstFv as).isSome = true → st1.pol ≠ 0xF0) ∧
      (firstFv as2).isSome = (firstFv as).isSome ∧
      (as.map BiosElem.buf).flatten.length = elemsLen es ∧ (as2.map BiosElem.buf).flatten.length = elemsLen es ∧
      ∀ j, ¬ InDirty E es j → (as.map BiosElem.buf).flatten[j]? = (as2.map BiosElem.buf).flatten[j]?
  | [], es2, st, as, st1, as2, st2, hrw, _, hf, h1, h2 => by
    simp only [rwBiosElems, Except.ok.injEq] at hrw
    subst hrw
    simp only [asmBiosElems, Except.ok.injEq, Prod.mk.injEq] at h1 h2
    obtain ⟨rfl, rfl⟩ := h1
    obtain ⟨rfl, rfl⟩ := h2
    exact ⟨rfl, hf, by simp [firstFv], rfl, rfl, rfl, fun _ _ => rfl⟩
  | .pad b o :: es, es2, st, as, st1, as2, st2, hrw, hs, hf, h1, h2 => by
    rw [rwBiosElems] at hrw
    split at hrw
    · cases hrw
    rename_i es2' hrw'
    cases hrw
    rw [asmBiosElems] at h1 h2
    split at h1
    · cases h1
    rename_i a1 s1 h1'
    cases h1
    split at h2
    · cases h2
    rename_i a2 s2 h2'
    cases h2
    obtain ⟨e1, e2, e3, e4, e5, e6, e7⟩ := elems_frame h E es es2' st a1 st1 a2 st2 hrw' hs hf h1' h2'
    refine ⟨e1, e2, by simpa [firstFv] using e3, by simpa [firstFv] using e4, ?_, ?_, ?_⟩
    · simp [BiosElem.buf, elemsLen, e5]
    · simp [BiosElem.buf, elemsLen, e6]
    · intro j hj
      simp only [List.map_cons, List.flatten_cons, BiosElem.buf]
      by_cases hlt : j < b.length
      · rw [List.getElem?_append_left hlt, List.getElem?_append_left hlt]
      · rw [List.getElem?_append_right (by omega), List.getElem?_append_right (by omega)]
        apply e7
        intro hc
        exact hj ⟨by omega, hc⟩
  | .fv v :: es, es2, st, as, st1, as2, st2, hrw, hs, hf, h1, h2 => by
    rw [rwBiosElems] at hrw
    split at hrw
    · cases hrw
    rename_i v2 hv2
    split at hrw
    · cases hrw
    rename_i es2' hrw'
    cases hrw
    rw [asmBiosElems] at h1 h2
    split at h1
    · cases h1
    rename_i va sa hva
    split at h1
    · cases h1
    rename_i a1 s1 h1'
    cases h1
    split at h2
    · cases h2
    rename_i vb sb hvb
    split at h2
    · cases h2
    rename_i a2 s2 h2'
    cases h2
    obtain ⟨hnr, hl, hs'⟩ := hs
    have hsk := rwFv_skel E v v2 hv2
    obtain ⟨fa, pa⟩ := asmFv_state h v st va sa hva hf
    obtain ⟨fb, pb⟩ := asmFv_state h v2 st vb sb hvb hf
    have hsab : sb = sa := st_ext _ _ (by rw [pa, pb, hsk.1]) (by rw [fa, fb])
    subst hsab
    obtain ⟨e1, e2, e3, e4, e5, e6, e7⟩ := elems_frame h E es es2' sb a1 st1 a2 st2 hrw' hs' fb h1' h2'
    have la := asmFv_length h v st va sb hva hnr hl
    have lb : vb.buf.length = v.buf.length := by
      rw [asmFv_length h v2 st vb sb hvb (by rw [hsk.1]; exact hnr) (by rw [hsk.1, hsk.2]; exact hl), hsk.2]
    refine ⟨e1, e2, ?_, by simp [firstFv], ?_, ?_, ?_⟩
    · intro _
      rw [asmBiosElems_pol h es sb a1 st1 h1' (by rw [pb]; exact polOfAttrs_ne _), pb]
      exact polOfAttrs_ne _
    · simp [BiosElem.buf, elemsLen, e5, la]
    · simp [BiosElem.buf, elemsLen, e6, lb]
    · intro j hj
      simp only [List.map_cons, List.flatten_cons, BiosElem.buf]
      by_cases hlt : j < v.buf.length
      · rw [List.getElem?_append_left (by omega), List.getElem?_append_left (by omega)]
        -- inside this volume: the editor must be quiet here
        have hq : quietFv E v = true := by
          cases hq' : quietFv E v with
          | true => rfl
          | false => exact absurd (Or.inl ⟨hq', hlt⟩) hj
        rw [rwFv_quiet E v hq] at hv2
        cases hv2
        rw [hva] at hvb
        cases hvb
        rfl
      · rw [List.getElem?_append_right (by omega), List.getElem?_append_right (by omega), la, lb]
        apply e7
        intro hc
        exact hj (Or.inr ⟨by omega, hc⟩)

/-! ### the BIOS region and the root buffer -/

theorem firstFv_isSome (es : List BiosElem) (v : Fv) (h : firstFv es = some v) : (firstFv es).isSome = true := by
  rw [h]; rfl

/-- **byte-level frame, BIOS region**: the region buffer written after an edit and the one written
    without it have the length of the region and agree at every offset that does not lie inside a
    volume below which the editor fired; the process state afterwards is the same -/
theorem bios_frame (h : Hooks) (E : Editor) (b b2 ba bb : BiosRegion) (st sa sb : St)
    (hrw : rwBios E b = .ok b2) (hs : ElemsSized b.elems) (hf : st.ffs3 = false)
    (ha : asmBios h b st = .ok (ba, sa)) (hb : asmBios h b2 st = .ok (bb, sb)) :
    sb = sa ∧ ba.buf.length = b.length ∧ bb.buf.length = b.length ∧ bb.fr = ba.fr ∧ bb.length = ba.length ∧
      ∀ j, ¬ InDirty E b.elems j → ba.buf[j]? = bb.buf[j]? := by
  unfold rwBios at hrw
  split at hrw
  · cases hrw
  rename_i es2 hes2
  cases hrw
  unfold asmBios at ha hb
  simp only at ha hb
  split at ha
  · cases ha
  rename_i as s1 h1
  split at ha
  · cases ha
  rename_i va hva
  split at ha
  · cases ha
  rename_i s1' hp1
  split at ha
  · cases ha
  rename_i hfit1
  cases ha
  split at hb
  · cases hb
  rename_i as2 s2 h2
  split at hb
  · cases hb
  rename_i vb hvb
  split at hb
  · cases hb
  rename_i s2' hp2
  split at hb
  · cases hb
  rename_i hfit2
  cases hb
  obtain ⟨e1, e2, e3, e4, e5, e6, e7⟩ := elems_frame h E b.elems es2 st as s1 as2 s2 hes2 hs hf h1 h2
  subst e1
  have hne := e3 (firstFv_isSome _ _ hva)
  have x1 := (setPolarity_ok _ _ _ hp1).2.2.1 hne
  have x2 := (setPolarity_ok _ _ _ hp2).2.2.1 hne
  subst x1 x2
  refine ⟨rfl, ?_, ?_, rfl, rfl, ?_⟩
  · simp only [List.length_append, List.length_replicate]; omega
  · simp only [List.length_append, List.length_replicate]; omega
  · intro j hj
    simp only
    by_cases hlt : j < elemsLen b.elems
    · rw [List.getElem?_append_left (by omega), List.getElem?_append_left (by omega)]
      exact e7 j hj
    · rw [List.getElem?_append_right (by omega), List.getElem?_append_right (by omega), e5, e6]

/-- **byte-level frame, image without flash descriptor**: `asm (op t)` and `asm t` have the same
    length and agree on every byte outside the volumes below which the edit worked; the byte range of
    the k-th element of the region starts at the sum of the lengths of the elements before it
    (`InDirty`) -/
theorem tree_frame_bios (h : Hooks) (E : Editor) (b : BiosRegion) (u ta ua : Tree) (st sa sb : St)
    (hrw : rwTree E (.bios b) = .ok u) (hs : ElemsSized b.elems) (hf : st.ffs3 = false)
    (ha : asmTreeWith h (.bios b) st = .ok (ta, sa)) (hb : asmTreeWith h u st = .ok (ua, sb)) :
    sb = sa ∧ ta.buf.length = b.length ∧ ua.buf.length = b.length ∧
      ∀ j, ¬ InDirty E b.elems j → ta.buf[j]? = ua.buf[j]? := by
  rw [rwTree] at hrw
  split at hrw
  · cases hrw
  rename_i b2 hb2
  cases hrw
  unfold asmTreeWith at ha hb
  simp only at ha hb
  split at ha
  · cases ha
  rename_i ba s1 h1
  cases ha
  split at hb
  · cases hb
  rename_i bb s2 h2
  cases hb
  obtain ⟨e1, e2, e3, _, _, e6⟩ := bios_frame h E b b2 ba bb st sa sb hb2 hs hf h1 h2
  exact ⟨e1, e2, e3, e6⟩

end Fiano.Uefi.Exact
