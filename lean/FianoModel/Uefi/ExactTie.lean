/-
  T1 tie for the mutation-freedom of the read-only commands (C03, follow-up wp-c03b).

  Regenerated on every check from pkg/visitors and pkg/uefi (Gen/UefiEditRO.lean,
  Gen/UefiEditROMethods.lean, translator/specs_edit.go):
   * `roeffects`  — for EVERY function declared in find.go, json.go, table.go, count.go, validate.go,
     cat.go, dump.go, comment.go (helpers added later included): each assignment / ++ / -- whose target
     reaches a firmware node, each `append` / `copy` / `delete` / `clear` on a node-rooted slice or
     map, each `&x` of a node-rooted location;
   * `roptrcalls` — the pkg/uefi methods with a POINTER receiver that these functions call on a node;
   * `ropasses`   — the callees that receive a node itself as an argument;
   * `methodeffects` — what each of those pkg/uefi methods (every implementation, every type) does to
     its own receiver, and which pointer-receiver methods it calls in turn.
  Identifier names are normalised (recv / node / local), so a rename is not an alarm; a helper that
  does not touch a node is not an alarm either.  A statement that writes through a node, a call of a
  method outside the closed read-only set, a node handed to an unknown function breaks a theorem here.
-/
import FianoModel.Gen.UefiEditRO
import FianoModel.Gen.UefiEditROMethods

namespace Fiano.Uefi.ExactTie
open Fiano.Gen

/-- the closed set of pkg/uefi pointer-receiver methods the read-only commands reach -/
def roMethods : List String :=
  ["Apply", "ApplyChildren", "BaseOffset", "Buf", "ChecksumHeader", "EndOffset", "FindSignature", "FirstFV",
   "FlashRegion", "GetErasePolarity", "HeaderLen", "IsValid", "String", "Type", "Valid", "ValidRegions"]

/-- callees that may receive a node: formatting / printing / JSON encoding / builtins / the two
    function-valued visitor fields (the selection predicate, the row printer).  Functions and methods
    declared in the same eight files are not listed by the translator: they are inventoried
    themselves (`roeffects`). -/
def pre (p c : String) : Bool := p.toList.isPrefixOf c.toList

def allowedPass (c : String) : Bool :=
  pre "fmt." c || pre "log." c || pre "strings." c || pre "bytes." c ||
  pre "json." c || pre "errors." c || pre "hex." c || pre "strconv." c ||
  c ∈ ["append", "len", "cap", "string", "recv.Predicate", "recv.printRow"]

/-- **no function of the eight read-only commands writes, appends, copies or deletes through a
    firmware node**; the only pointers taken into a node are the two `&f.Header` of `Validate.Visit`
    (aliases that are only read: an assignment through them would be listed as `write node.…`) -/
theorem readonly_effects :
    UefiEditRO.roeffects.all (fun fe => fe.2.all (fun e => e == "addr node.Header")) = true ∧
    (UefiEditRO.roeffects.filter (fun fe => !fe.2.isEmpty)).map (·.1) = ["Validate.Visit"] := by decide

/-- every pointer-receiver method they call on a node is in the closed read-only set -/
theorem readonly_ptrcalls : UefiEditRO.roptrcalls.all (fun m => m ∈ roMethods) = true := by decide

/-- a node is handed only to printing / encoding functions and to helpers of the same files -/
theorem readonly_passes : UefiEditRO.ropasses.all allowedPass = true := by decide

/-- **the read-only set is closed and does not write**: no implementation of a method of the set
    assigns to / appends to / copies into its receiver; it only calls methods of the set -/
theorem methods_readonly :
    UefiEditROMethods.methodeffects.all
      (fun fe => fe.2.all (fun e => roMethods.any (fun m => e == "call " ++ m))) = true := by decide

/-- each method of the set has at least one inventoried implementation -/
theorem methods_cover :
    roMethods.all (fun m => UefiEditROMethods.methodeffects.any
      (fun fe => ("." ++ m).toList.isSuffixOf fe.1.toList)) = true := by
  decide

/-- positive controls: the same extraction sees the mutations of visitors and methods that do mutate -/
theorem controls_seen :
    UefiEditRO.nodeeffects_Flatten_Run =
      ["write node.Elements", "write node.Sections", "write node.Files", "write node.Regions", "write node.Encapsulated"] ∧
    UefiEditRO.nodeeffects_ReplacePE32_Visit = ["write node.Encapsulated"] ∧
    UefiEditRO.nodeptrcalls_ReplacePE32_Visit = ["ApplyChildren", "GenSecHeader", "SetBuf"] ∧
    UefiEditRO.nodeeffects_Remove_Visit =
      ["write node.Files[·]", "write node.Files", "append node.Files[:]", "write node.Files"] ∧
    "append node.Buf()" ∈ UefiEditRO.nodeeffects_Assemble_Visit ∧
    "SetBuf" ∈ UefiEditRO.nodeptrcalls_Assemble_Visit ∧
    UefiEditROMethods.controleffects.lookup "File.SetBuf" = some ["write node.buf"] := by decide

end Fiano.Uefi.ExactTie
