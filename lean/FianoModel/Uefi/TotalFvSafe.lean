/-
  C05 — safety of the GoM volume / file / section parsers (TotalFv.lean):  for *every* byte string the
  result is a value or an ordinary error — never a slice / index panic, never out of fuel — and what is
  returned satisfies the structural invariants (`FvWf` …) that the tree walkers rely on.

  The five mutually recursive functions are handled by one induction on the fuel with the potential
      5 · (bytes left in the current buffer) + rank      rank: section 0, sections 1, file 2, files 3, volume 4
  every call goes to a strictly smaller potential (a loop iteration consumes ≥ 1 byte — these are the
  progress lemmas: file `ExtendedSize ≠ 0`, section size `≠ 0` — and the cycle
  volume → files → file → sections → section → volume consumes ≥ 28 bytes), so fuel `5·|buf| + 8` never
  runs out.  The only hypothesis on the input is `|buf| < 2^63` (a Go slice has an `int` length); it is
  what keeps `uefi.Align4/Align8` (translated from the source, uint64 with wrap-around) from wrapping.
-/
import FianoModel.Uefi.TotalFv
import FianoModel.Base.ArithTie

namespace Fiano.Uefi.Total
open Fiano GoM Fiano.Uefi

/-! ### alignment (about the translated functions, via Base/ArithTie) -/

theorem align4G_eq (v : Nat) (h : v + 4 < 2 ^ 64) : align4G v = (v + 3) / 4 * 4 := by
  unfold align4G
  have hv : (UInt64.ofNat v).toNat = v := by
    simp [UInt64.toNat_ofNat']; omega
  have := ArithTie.align4_spec (UInt64.ofNat v) (by rw [hv]; exact h)
  rw [this, hv]

theorem align8G_eq (v : Nat) (h : v + 8 < 2 ^ 64) : align8G v = (v + 7) / 8 * 8 := by
  unfold align8G
  have hv : (UInt64.ofNat v).toNat = v := by
    simp [UInt64.toNat_ofNat']; omega
  have := ArithTie.align8_spec (UInt64.ofNat v) (by rw [hv]; exact h)
  rw [this, hv]

theorem align4G_ge (v : Nat) (h : v + 4 < 2 ^ 64) : v ≤ align4G v := by
  rw [align4G_eq v h]; omega
theorem align8G_ge (v : Nat) (h : v + 8 < 2 ^ 64) : v ≤ align8G v := by
  rw [align8G_eq v h]; omega
theorem align8G_le (v : Nat) (h : v + 8 < 2 ^ 64) : align8G v ≤ v + 7 := by
  rw [align8G_eq v h]; omega

theorem rd_lt (b : Bytes) (off len : Nat) : rd b off len < 256 ^ len := by
  unfold rd
  have h1 := fromLE_lt (slice b off len)
  have h2 : (slice b off len).length ≤ len := by simp [slice]; omega
  exact Nat.lt_of_lt_of_le h1 (Nat.pow_le_pow_right (by omega) h2)

/-! ### structural invariants of a parsed tree -/

mutual
def SecWf : Section → Prop
  | .mk i buf encap => buf.length = i.extSize ∧ NodesWf encap ∧ (i.type = 2 → i.ts.isSome)
def NodesWf : List Node → Prop
  | [] => True
  | .sec s :: ns => SecWf s ∧ NodesWf ns
  | .fv v :: ns => FvWf v ∧ NodesWf ns
def SecsWf : List Section → Prop
  | [] => True
  | s :: ss => SecWf s ∧ SecsWf ss
def FileWf : File → Prop
  | .mk i buf secs => buf.length = i.extSize ∧ SecsWf secs
def FilesWf : List File → Prop
  | [] => True
  | f :: fs => (FileWf f ∧ f.buf.length ≠ 0) ∧ FilesWf fs
def FvWf : Fv → Prop
  | .mk i buf files => buf.length = i.length ∧ (files ≠ [] → i.dataOffset < i.length) ∧ FilesWf files ∧
      64 ≤ i.length
end

theorem post_ucs2 (b : Bytes) (m : Meter) : Post (ucs2ToUtf8G b) m (fun _ m' => m' = m) := by
  unfold ucs2ToUtf8G
  try simp only []
  split
  · rename_i hl
    have : (utf16Dec b).length - 1 < (utf16Dec b).length := by omega
    rw [List.getElem?_eq_getElem this]
    try simp only []
    split <;> exact post_pure rfl
  · exact post_pure rfl

def InnerOk (inner : Inner) : Prop :=
  ∀ enc st m, enc.length < 2^63 →
    Post (inner enc st) m (fun r _ => match r with | some (ns, _) => NodesWf ns | none => True)

/-- decoders are total (never fault) and what they return is a Go slice -/
def CodecBounded (h : HooksG) : Prop :=
  ∀ g c b m, h.codec g = some c → Post (c.decode b) m (fun r _ => ∀ out, r = some out → out.length < 2^63)

def SecQ (buf : Bytes) (r : Section × St) : Prop := r.1.info.extSize ≤ buf.length ∧ SecWf r.1

theorem section_step (h : HooksG) (inner : Inner) (fuel : Nat) (buf : Bytes) (order : Nat) (st : St) (m : Meter)
    (hinner : InnerOk inner) (hcodec : CodecBounded h)
    (ihFv : ∀ data o r st m, data.length < 2^63 → 5 * data.length + 4 < fuel →
       Post (parseFvG h inner fuel data o r st) m (fun r _ => r.1.info.length ≤ data.length ∧ FvWf r.1))
    (hb : buf.length < 2^63) (hf : 5 * buf.length < fuel + 1) :
    Post (parseSectionG h inner (fuel+1) buf order st) m (fun r _ => SecQ buf r) := by
  rw [parseSectionG]
  refine post_bind (post_binaryReadG ?_)
  intro h4
  try simp only []
  refine post_bind' (R := fun r _ => (r.2.1 = 4 ∨ r.2.1 = 8)) ?_ ?_
  · split
    · split
      · refine post_bind (post_binaryReadG ?_)
        intro _
        try simp only []
        split
        · exact post_err
        · exact post_pure (Or.inr rfl)
      · exact post_pure (Or.inl rfl)
    · exact post_pure (Or.inl rfl)
  · rintro ⟨ext, hs, r2⟩ m1 hhs
    simp only [] at hhs ⊢
    split
    · exact post_err
    · rename_i hext
      refine post_bind (post_copyOutG (by omega) ?_)
      have hlen : (buf.take ext).length = ext := by simp; omega
      split
      · -- GUID defined
        refine post_bind (post_binaryReadG ?_)
        intro _
        try simp only []
        split
        · split
          · split
            · exact post_err
            · rename_i hdo
              refine post_bind (post_sliceFromG (by omega) ?_)
              rename_i c hc
              refine post_bind' (R := fun r _ => ∀ out, r = some out → out.length < 2^63) ?_ ?_
              · split
                · exact post_pure (by simp)
                · rename_i hsk
                  refine post_bind (post_sliceFromG (by simp at hsk ⊢; omega) ?_)
                  exact hcodec _ c _ _ hc
              · intro dec m2 hdec
                split
                · rename_i enc
                  refine post_bind' (hinner enc st _ (hdec enc rfl)) ?_
                  intro r m3 hr
                  split
                  · rename_i ns st' 
                    refine post_pure ⟨by simp [Section.info]; omega, ?_⟩
                    simp [SecWf, hlen]; simpa using hr
                  · exact post_pure ⟨by simp [Section.info]; omega, by simp [SecWf, NodesWf, hlen] <;> assumption⟩
                · exact post_pure ⟨by simp [Section.info]; omega, by simp [SecWf, NodesWf, hlen] <;> assumption⟩
          · exact post_pure ⟨by simp [Section.info]; omega, by simp [SecWf, NodesWf, hlen] <;> assumption⟩
        · exact post_pure ⟨by simp [Section.info]; omega, by simp [SecWf, NodesWf, hlen] <;> assumption⟩
      · split
        · -- UI
          split
          · exact post_err
          · rename_i hui
            refine post_bind (post_sliceFromG (by omega) ?_)
            refine post_bind' (post_ucs2 _ _) ?_
            intro name m2 _
            exact post_pure ⟨by simp [Section.info]; omega, by simp [SecWf, NodesWf, hlen] <;> assumption⟩
        · split
          · -- version
            split
            · exact post_err
            · rename_i hv
              refine post_bind (post_sliceG (by omega) ?_)
              refine post_bind (post_sliceFromG (by omega) ?_)
              refine post_bind' (post_ucs2 _ _) ?_
              intro ver m2 _
              exact post_pure ⟨by simp [Section.info]; omega, by simp [SecWf, NodesWf, hlen] <;> assumption⟩
          · split
            · -- volume image
              split
              · exact post_err
              · rename_i hvi
                refine post_bind (post_sliceFromG (by omega) ?_)
                have hvl : ((buf.take ext).drop hs).length = ext - hs := by simp; omega
                refine post_bind' (ihFv _ 0 true st _ (by rw [hvl]; omega) (by rw [hvl]; omega)) ?_
                rintro ⟨fv, st'⟩ m2 ⟨_, hwf⟩
                exact post_pure ⟨by simp [Section.info]; omega, by simp [SecWf, NodesWf, hlen]; exact ⟨hwf, by assumption⟩⟩
            · split
              · split
                · exact post_err
                · refine post_bind (post_sliceFromG (by omega) ?_)
                  split <;> exact post_pure ⟨by simp [Section.info]; omega, by simp [SecWf, NodesWf, hlen] <;> assumption⟩
              · exact post_pure ⟨by simp [Section.info]; omega, by simp [SecWf, NodesWf, hlen] <;> assumption⟩

def NvarOk (h : HooksG) : Prop := ∀ b p m, Post (h.nvar b p) m (fun _ _ => True)

def FileQ (buf : Bytes) (r : Option File × St) : Prop :=
  match r.1 with
  | some f => f.info.extSize ≤ buf.length ∧ FileWf f
  | none => True

def FilesQ (data : Bytes) (offset : Nat) (r : List File × Nat × St) : Prop :=
  FilesWf r.1 ∧ (r.1 ≠ [] → offset < data.length)

def FvQ (data : Bytes) (r : Fv × St) : Prop := r.1.info.length ≤ data.length ∧ FvWf r.1

/-- … and the volume carries the `resizable` flag it was constructed with -/
def FvQR (data : Bytes) (resizable : Bool) (r : Fv × St) : Prop := FvQ data r ∧ r.1.info.resizable = resizable

theorem readBlocks_post (length : Nat) (fuel : Nat) (r : Bytes) (pos : Nat) (m : Meter)
    (hf : r.length < 8 * fuel) : Post (readBlocksG length fuel r pos) m (fun _ _ => pos + 8 ≤ length) := by
  induction fuel generalizing r pos m with
  | zero => omega
  | succ fuel ih =>
    rw [readBlocksG]
    split
    · exact post_err
    · rename_i hpos
      simp only []
      refine post_bind (post_binaryReadG ?_)
      intro h8
      try simp only []
      split
      · exact post_pure (by omega)
      · refine post_bind (post_allocG ?_)
        refine post_bind' (ih _ _ _ (by simp; omega)) ?_
        intro _ _ _
        exact post_pure (by omega)

theorem sections_step (h : HooksG) (inner : Inner) (fuel : Nat)
    (ihSec : ∀ buf order st m, buf.length < 2^63 → 5 * buf.length < fuel →
       Post (parseSectionG h inner fuel buf order st) m (fun r _ => SecQ buf r))
    (ihSecs : ∀ fbuf offset ext idx st m, fbuf.length < 2^63 → ext ≤ fbuf.length → 5 * (fbuf.length - offset) + 1 < fuel →
       Post (parseSectionsG h inner fuel fbuf offset ext idx st) m (fun r _ => SecsWf r.1))
    (fbuf : Bytes) (offset ext idx : Nat) (st : St) (m : Meter)
    (hb : fbuf.length < 2^63) (he : ext ≤ fbuf.length) (hf : 5 * (fbuf.length - offset) + 1 < fuel + 1) :
    Post (parseSectionsG h inner (fuel+1) fbuf offset ext idx st) m (fun r _ => SecsWf r.1) := by
  rw [parseSectionsG]
  split
  · rename_i hlt
    try simp only []
    refine post_bind (post_sliceFromG (by omega) ?_)
    have hl : (fbuf.drop offset).length = fbuf.length - offset := by simp
    refine post_bind' (ihSec _ idx st _ (by rw [hl]; omega) (by rw [hl]; omega)) ?_
    rintro ⟨s, st'⟩ m1 ⟨hsz, hwf⟩
    simp only [] at hsz hwf ⊢
    split
    · exact post_err
    · rename_i hnz
      rw [hl] at hsz
      have hge := align4G_ge (offset + s.info.extSize) (by omega)
      refine post_bind' (ihSecs fbuf _ ext (idx + 1) st' _ hb he (by omega)) ?_
      rintro ⟨ss, st''⟩ m2 hss
      exact post_pure (by simp [SecsWf]; exact ⟨hwf, hss⟩)
  · exact post_pure (by simp [SecsWf])

theorem file_step (h : HooksG) (inner : Inner) (hnvar : NvarOk h) (fuel : Nat)
    (ihSecs : ∀ fbuf offset ext idx st m, fbuf.length < 2^63 → ext ≤ fbuf.length → 5 * (fbuf.length - offset) + 1 < fuel →
       Post (parseSectionsG h inner fuel fbuf offset ext idx st) m (fun r _ => SecsWf r.1))
    (buf : Bytes) (st : St) (m : Meter) (hb : buf.length < 2^63) (hf : 5 * buf.length + 2 < fuel + 1) :
    Post (parseFileG h inner (fuel+1) buf st) m (fun r _ => FileQ buf r) := by
  rw [parseFileG]
  refine post_bind (post_binaryReadG ?_)
  intro h24
  try simp only []
  refine post_bind' (R := fun r _ => match r with
      | some i => i.dataOffset = 24 ∨ i.dataOffset = 32 | none => True) ?_ ?_
  · split
    · split
      · refine post_bind (post_sliceToG (by omega) ?_)
        split
        · exact post_pure trivial
        · exact post_err
      · refine post_bind (post_binaryReadG ?_)
        intro _
        try simp only []
        split
        · exact post_pure trivial
        · exact post_pure (Or.inr rfl)
    · exact post_pure (Or.inl rfl)
  · intro hr m1 hdo
    split
    · exact post_pure (by simp [FileQ])
    · rename_i i
      simp only [] at hdo
      split
      · exact post_err
      · rename_i hext
        refine post_bind (post_copyOutG (by omega) ?_)
        have hlen : (buf.take i.extSize).length = i.extSize := by simp; omega
        refine post_bind' (R := fun _ _ => True) ?_ ?_
        · split
          · split
            · exact post_err
            · refine post_bind (post_sliceFromG (by omega) ?_)
              exact post_mono (hnvar _ _ _) (fun _ _ _ => trivial)
          · exact post_pure trivial
        · intro nvs m2 _
          split
          · exact post_pure (by simp [FileQ, File.info, FileWf, SecsWf, hlen]; omega)
          · refine post_bind' (ihSecs _ _ _ 0 st _ (by rw [hlen]; omega) (by rw [hlen]; omega) (by rw [hlen]; omega)) ?_
            rintro ⟨ss, st'⟩ m3 hss
            exact post_pure (by simp [FileQ, File.info, FileWf, hlen]; exact ⟨by omega, hss⟩)

theorem files_step (h : HooksG) (inner : Inner) (fuel : Nat)
    (ihFile : ∀ buf st m, buf.length < 2^63 → 5 * buf.length + 2 < fuel →
       Post (parseFileG h inner fuel buf st) m (fun r _ => FileQ buf r))
    (ihFiles : ∀ data offset lh length st m, data.length < 2^63 → offset < 2^63 → 5 * (data.length - offset) + 3 < fuel →
       Post (parseFilesG h inner fuel data offset lh length st) m (fun r _ => FilesQ data offset r))
    (data : Bytes) (offset lh length : Nat) (st : St) (m : Meter)
    (hb : data.length < 2^63) (ho : offset < 2^63) (hf : 5 * (data.length - offset) + 3 < fuel + 1) :
    Post (parseFilesG h inner (fuel+1) data offset lh length st) m (fun r _ => FilesQ data offset r) := by
  rw [parseFilesG]
  split
  · simp only []
    have hge := align8G_ge offset (by omega)
    split
    · exact post_err
    · rename_i hlt
      refine post_bind (post_sliceFromG (by omega) ?_)
      have hl : (data.drop (align8G offset)).length = data.length - align8G offset := by simp
      refine post_bind' (ihFile _ st _ (by rw [hl]; omega) (by rw [hl]; omega)) ?_
      rintro ⟨fo, st'⟩ m1 hq
      simp only [FileQ] at hq ⊢
      split
      · exact post_pure (by simp [FilesQ, FilesWf])
      · rename_i f
        simp only [] at hq
        obtain ⟨hsz, hwf⟩ := hq
        rw [hl] at hsz
        split
        · exact post_err
        · rename_i hnz
          refine post_bind' (ihFiles data _ lh length st' _ hb (by omega) (by omega)) ?_
          rintro ⟨fs, free, st''⟩ m2 ⟨hfs, _⟩
          refine post_pure ⟨?_, fun _ => by omega⟩
          have hbl : f.buf.length = f.info.extSize := by
            cases f with
            | mk i b s => simp [FileWf] at hwf; simp [File.buf, File.info]; exact hwf.1
          simp only [FilesWf]
          exact ⟨⟨hwf, by omega⟩, hfs⟩
  · exact post_pure (by simp [FilesQ, FilesWf])

theorem fv_step (h : HooksG) (inner : Inner) (fuel : Nat)
    (ihFiles : ∀ data offset lh length st m, data.length < 2^63 → offset < 2^63 → 5 * (data.length - offset) + 3 < fuel →
       Post (parseFilesG h inner fuel data offset lh length st) m (fun r _ => FilesQ data offset r))
    (data : Bytes) (fvOffset : Nat) (resizable : Bool) (st : St) (m : Meter)
    (hb : data.length < 2^63) (hf : 5 * data.length + 4 < fuel + 1) :
    Post (parseFvG h inner (fuel+1) data fvOffset resizable st) m (fun r _ => FvQR data resizable r) := by
  rw [parseFvG]
  split
  · exact post_err
  · rename_i h64
    refine post_bind (post_binaryReadG ?_)
    intro _
    try simp only []
    refine post_bind' (readBlocks_post _ _ _ _ _ (by simp; omega)) ?_
    intro blocks m1 hblk
    split
    · exact post_err
    · rename_i st1 _
      split
      · exact post_err
      · rename_i hlen
        have he : rd (List.take 56 data) 52 2 < 65536 := rd_lt _ _ _
        have hh : rd (List.take 56 data) 48 2 < 65536 := rd_lt _ _ _
        refine post_bind' (R := fun r _ => r.2 < 4294967296) ?_ ?_
        · split
          · rename_i hx
            simp at hx
            refine post_bind (post_sliceFromG (by omega) ?_)
            refine post_bind (post_binaryReadG ?_)
            intro h20
            try simp only []
            refine post_pure ?_
            have := fromLE_lt (List.drop 16 (List.take 20 (List.drop (rd (List.take 56 data) 52 2) data)))
            have hl : (List.drop 16 (List.take 20 (List.drop (rd (List.take 56 data) 52 2) data))).length ≤ 4 := by
              simp; omega
            exact Nat.lt_of_lt_of_le this (by
              have : (256:Nat) ^ 4 = 4294967296 := by decide
              rw [← this]; exact Nat.pow_le_pow_right (by omega) hl)
          · exact post_pure (by decide)
        · rintro ⟨fvName, ehs⟩ m2 hehs
          simp only [] at hehs ⊢
          refine post_bind (post_copyOutG (by omega) ?_)
          have htl : (data.take (rd (List.take 56 data) 32 8)).length = rd (List.take 56 data) 32 8 := by
            simp; omega
          split
          · exact post_pure (by simp [FvQR, FvQ, Fv.info, FvWf, FilesWf, htl]; omega)
          · refine post_bind (post_sliceToG (by omega) ?_)
            have hdo : align8G (if (decide (rd (List.take 56 data) 52 2 ≠ 0 ∧ rd (List.take 56 data) 32 8 ≥ 20 ∧
                  rd (List.take 56 data) 52 2 ≤ rd (List.take 56 data) 32 8 - 20)) = true
                then rd (List.take 56 data) 52 2 + ehs else rd (List.take 56 data) 48 2) < 2 ^ 63 := by
              split
              · have := align8G_le (rd (List.take 56 data) 52 2 + ehs) (by omega); omega
              · have := align8G_le (rd (List.take 56 data) 48 2) (by omega); omega
            refine post_bind' (ihFiles _ _ _ _ st1 _ (by rw [htl]; omega) hdo (by rw [htl]; omega)) ?_
            rintro ⟨fs, free, st'⟩ m3 ⟨hfs, hne⟩
            refine post_pure ?_
            simp only [FvQR, FvQ, Fv.info, FvWf, htl]
            rw [htl] at hne
            exact ⟨⟨by omega, trivial, hne, hfs, by omega⟩, trivial⟩

/-- the mutual induction: all five parsers are safe and return well-formed nodes -/
theorem mutual_post (h : HooksG) (inner : Inner) (hinner : InnerOk inner) (hcodec : CodecBounded h) (hnvar : NvarOk h) : ∀ fuel,
    (∀ buf order st m, buf.length < 2^63 → 5 * buf.length < fuel →
       Post (parseSectionG h inner fuel buf order st) m (fun r _ => SecQ buf r)) ∧
    (∀ fbuf offset ext idx st m, fbuf.length < 2^63 → ext ≤ fbuf.length → 5 * (fbuf.length - offset) + 1 < fuel →
       Post (parseSectionsG h inner fuel fbuf offset ext idx st) m (fun r _ => SecsWf r.1)) ∧
    (∀ buf st m, buf.length < 2^63 → 5 * buf.length + 2 < fuel →
       Post (parseFileG h inner fuel buf st) m (fun r _ => FileQ buf r)) ∧
    (∀ data offset lh length st m, data.length < 2^63 → offset < 2^63 → 5 * (data.length - offset) + 3 < fuel →
       Post (parseFilesG h inner fuel data offset lh length st) m (fun r _ => FilesQ data offset r)) ∧
    (∀ data o r st m, data.length < 2^63 → 5 * data.length + 4 < fuel →
       Post (parseFvG h inner fuel data o r st) m (fun x _ => FvQR data r x)) := by
  intro fuel
  induction fuel with
  | zero =>
    refine ⟨?_, ?_, ?_, ?_, ?_⟩ <;> intros <;> omega
  | succ fuel ih =>
    obtain ⟨ihSec, ihSecs, ihFile, ihFiles, ihFv⟩ := ih
    refine ⟨?_, ?_, ?_, ?_, ?_⟩
    · intro buf order st m hb hf
      exact section_step h inner fuel buf order st m hinner hcodec
        (fun data o r st m h1 h2 => post_mono (ihFv data o r st m h1 h2) (fun _ _ hq => hq.1)) hb (by omega)
    · intro fbuf offset ext idx st m hb he hf
      exact sections_step h inner fuel ihSec ihSecs fbuf offset ext idx st m hb he hf
    · intro buf st m hb hf
      exact file_step h inner hnvar fuel ihSecs buf st m hb hf
    · intro data offset lh length st m hb ho hf
      exact files_step h inner fuel ihFile ihFiles data offset lh length st m hb ho hf
    · intro data o r st m hb hf
      exact fv_step h inner fuel ihFiles data o r st m hb hf

/-! ### decoded payloads and the entry points -/

theorem encapLoop_post (sec : Bytes → Nat → St → GoM (Section × St))
    (hsec : ∀ sb idx st m, sb.length < 2^63 → Post (sec sb idx st) m (fun r _ => SecQ sb r))
    (fuel : Nat) (enc : Bytes) (offset idx : Nat) (st : St) (m : Meter)
    (hb : enc.length < 2^63) (hf : enc.length - offset < fuel) :
    Post (encapLoopG sec fuel enc offset idx st) m (fun r _ => NodesWf r.1) := by
  induction fuel generalizing offset idx st m with
  | zero =>
    rw [encapLoopG]
    split
    · omega
    · exact post_pure (by simp [NodesWf])
  | succ fuel ih =>
    rw [encapLoopG]
    split
    · rename_i hlt
      try simp only []
      refine post_bind (post_sliceFromG (by omega) ?_)
      have hl : (enc.drop offset).length = enc.length - offset := by simp
      refine post_bind' (hsec _ idx st _ (by rw [hl]; omega)) ?_
      rintro ⟨s, st'⟩ m1 ⟨hsz, hwf⟩
      simp only [] at hsz hwf ⊢
      split
      · exact post_err
      · rw [hl] at hsz
        have hge := align4G_ge (offset + s.info.extSize) (by omega)
        refine post_bind' (ih _ (idx + 1) st' _ (by omega)) ?_
        rintro ⟨ns, st''⟩ m2 hns
        exact post_pure (by simp [NodesWf]; exact ⟨hwf, hns⟩)
    · exact post_pure (by simp [NodesWf])

theorem innerZ_ok (h : HooksG) (hcodec : CodecBounded h) (hnvar : NvarOk h) : ∀ z, InnerOk (innerZ h z) := by
  intro z
  induction z with
  | zero => intro enc st m _; exact post_pure trivial
  | succ z ih =>
    intro enc st m hb
    rw [innerZ]
    refine post_bind' (encapLoop_post _ ?_ _ enc 0 0 st m hb (by omega)) ?_
    · intro sb idx st m hsb
      exact (mutual_post h (innerZ h z) ih hcodec hnvar (fuelFor sb)).1 sb idx st m hsb (by unfold fuelFor; omega)
    · rintro ⟨ns, st'⟩ m1 hns
      exact post_pure hns

theorem newSectionG_post (h : HooksG) (hcodec : CodecBounded h) (hnvar : NvarOk h) (z : Nat) (buf : Bytes)
    (order : Nat) (st : St) (m : Meter) (hb : buf.length < 2^63) :
    Post (newSectionG h z buf order st) m (fun r _ => SecQ buf r) :=
  (mutual_post h _ (innerZ_ok h hcodec hnvar z) hcodec hnvar _).1 buf order st m hb (by unfold fuelFor; omega)

theorem newFileG_post (h : HooksG) (hcodec : CodecBounded h) (hnvar : NvarOk h) (z : Nat) (buf : Bytes)
    (st : St) (m : Meter) (hb : buf.length < 2^63) :
    Post (newFileG h z buf st) m (fun r _ => FileQ buf r) :=
  (mutual_post h _ (innerZ_ok h hcodec hnvar z) hcodec hnvar _).2.2.1 buf st m hb (by unfold fuelFor; omega)

theorem newFvG_post (h : HooksG) (hcodec : CodecBounded h) (hnvar : NvarOk h) (z : Nat) (data : Bytes)
    (o : Nat) (r : Bool) (st : St) (m : Meter) (hb : data.length < 2^63) :
    Post (newFvG h z data o r st) m (fun x _ => FvQR data r x) :=
  (mutual_post h _ (innerZ_ok h hcodec hnvar z) hcodec hnvar _).2.2.2.2 data o r st m hb (by unfold fuelFor; omega)

/-! ### FindFirmwareVolumeOffset and NewBIOSRegion -/

theorem scanSig_post (data : Bytes) (fuel offset : Nat) (m : Meter) (hf : data.length ≤ offset + 4 + 8 * fuel) :
    Post (scanSigG data fuel offset) m (fun r _ => ∀ o, r = some o → offset ≤ o ∧ o + 4 < data.length) := by
  induction fuel generalizing offset m with
  | zero =>
    rw [scanSigG]
    split
    · omega
    · exact post_pure (by simp)
  | succ fuel ih =>
    rw [scanSigG]
    split
    · rename_i hlt
      try simp only []
      refine post_bind (post_sliceG (by omega) ?_)
      split
      · exact post_pure (by intro o ho; cases ho; omega)
      · refine post_mono (ih (offset + 8) _ (by omega)) ?_
        intro r _ hr o ho
        have := hr o ho
        omega
    · exact post_pure (by simp)

theorem findFvOffset_post (data : Bytes) (m : Meter) :
    Post (findFvOffsetG data) m (fun r _ => ∀ off, r = some off → off + 44 < data.length) := by
  unfold findFvOffsetG
  split
  · exact post_pure (by simp)
  · refine post_bind' (scanSig_post data _ 32 m (by omega)) ?_
    intro r m1 hr
    split
    · rename_i o
      have := hr o rfl
      split
      · exact post_pure (by simp)
      · exact post_pure (by intro off ho; cases ho; omega)
    · exact post_pure (by simp)

def ElemsWf : List BiosElem → Prop
  | [] => True
  | .pad _ _ :: es => ElemsWf es
  | .fv v :: es => FvWf v ∧ ElemsWf es

/-- the volumes found by `NewBIOSRegion` are constructed with `resizable = false` -/
def ElemsFlat : List BiosElem → Prop
  | [] => True
  | .pad _ _ :: es => ElemsFlat es
  | .fv v :: es => v.info.resizable = false ∧ ElemsFlat es

/-- total length of the element buffers -/
def elemsLen : List BiosElem → Nat
  | [] => 0
  | e :: es => e.buf.length + elemsLen es

theorem elemsWf_append (a b : List BiosElem) (ha : ElemsWf a) (hb : ElemsWf b) : ElemsWf (a ++ b) := by
  induction a with
  | nil => simpa using hb
  | cons x xs ih =>
    cases x with
    | pad p o => simp only [List.cons_append, ElemsWf] at ha ⊢; exact ih ha
    | fv v => simp only [List.cons_append, ElemsWf] at ha ⊢; exact ⟨ha.1, ih ha.2⟩

theorem elemsFlat_append (a b : List BiosElem) (ha : ElemsFlat a) (hb : ElemsFlat b) : ElemsFlat (a ++ b) := by
  induction a with
  | nil => simpa using hb
  | cons x xs ih =>
    cases x with
    | pad p o => simp only [List.cons_append, ElemsFlat] at ha ⊢; exact ih ha
    | fv v => simp only [List.cons_append, ElemsFlat] at ha ⊢; exact ⟨ha.1, ih ha.2⟩

theorem elemsLen_append (a b : List BiosElem) : elemsLen (a ++ b) = elemsLen a + elemsLen b := by
  induction a with
  | nil => simp [elemsLen]
  | cons x xs ih => simp only [List.cons_append, elemsLen, ih]; omega

theorem fvWf_buf_length (v : Fv) (h : FvWf v) : v.buf.length = v.info.length := by
  cases v with
  | mk i b fs => simp only [FvWf] at h; simpa [Fv.buf, Fv.info] using h.1

/-- what `NewBIOSRegion`'s element walk returns: well-formed, non-resizable volumes, and the element
    buffers tile the region buffer exactly -/
def ElemsQ (buf : Bytes) (es : List BiosElem) : Prop :=
  ElemsWf es ∧ ElemsFlat es ∧ elemsLen es = buf.length

theorem parseBiosElems_post (h : HooksG) (hcodec : CodecBounded h) (hnvar : NvarOk h) (z : Nat)
    (fuel : Nat) (buf : Bytes) (abs : Nat) (st : St) (m : Meter)
    (hb : buf.length < 2^63) (hf : buf.length < fuel) :
    Post (parseBiosElemsG h z fuel buf abs st) m (fun r _ => ElemsQ buf r.1) := by
  induction fuel generalizing buf abs st m with
  | zero => omega
  | succ fuel ih =>
    rw [parseBiosElemsG]
    refine post_bind' (findFvOffset_post buf m) ?_
    intro r m1 hr
    split
    · refine post_pure ?_
      try simp only []
      split <;> simp [ElemsQ, ElemsWf, ElemsFlat, elemsLen, BiosElem.buf] <;> omega
    · rename_i off
      have hoff := hr off rfl
      try simp only []
      refine post_bind' (R := fun r _ => ElemsWf r ∧ ElemsFlat r ∧ elemsLen r = off) ?_ ?_
      · split
        · refine post_bind (post_sliceToG (by omega) ?_)
          exact post_pure (by simp [ElemsWf, ElemsFlat, elemsLen, BiosElem.buf]; omega)
        · exact post_pure (by simp [ElemsWf, ElemsFlat, elemsLen]; omega)
      · intro pre m2 hpre
        refine post_bind (post_sliceFromG (by omega) ?_)
        have hl : (buf.drop off).length = buf.length - off := by simp
        refine post_bind' (newFvG_post h hcodec hnvar z _ _ false st _ (by rw [hl]; omega)) ?_
        rintro ⟨fv, st'⟩ m3 ⟨⟨hlen, hwf⟩, hrz⟩
        simp only [] at hlen hwf hrz ⊢
        rw [hl] at hlen
        split
        · exact post_err
        · rename_i hnz
          refine post_bind (post_sliceFromG (by omega) ?_)
          refine post_bind' (ih _ _ st' _ (by simp; omega) (by simp; omega)) ?_
          rintro ⟨es, st''⟩ m4 ⟨hes, hfl, hel⟩
          refine post_pure ?_
          try simp only []
          refine ⟨elemsWf_append _ _ hpre.1 (by simp only [ElemsWf]; exact ⟨hwf, hes⟩),
            elemsFlat_append _ _ hpre.2.1 (by simp only [ElemsFlat]; exact ⟨hrz, hfl⟩), ?_⟩
          rw [elemsLen_append, hpre.2.2]
          simp only [elemsLen, BiosElem.buf, fvWf_buf_length fv hwf] at hel ⊢
          simp at hel
          omega

def BiosWf (b : BiosRegion) : Prop :=
  ElemsWf b.elems ∧ ElemsFlat b.elems ∧ elemsLen b.elems = b.length

theorem parseBiosG_post (h : HooksG) (hcodec : CodecBounded h) (hnvar : NvarOk h) (z : Nat)
    (buf : Bytes) (fr : Option FlashRegion) (st : St) (m : Meter) (hb : buf.length < 2^63) :
    Post (parseBiosG h z buf fr st) m (fun r _ => BiosWf r.1) := by
  unfold parseBiosG
  refine post_bind (post_cloneG ?_)
  refine post_bind' (parseBiosElems_post h hcodec hnvar z _ buf 0 st _ hb (by omega)) ?_
  rintro ⟨es, st'⟩ m1 hes
  exact post_pure hes

end Fiano.Uefi.Total
