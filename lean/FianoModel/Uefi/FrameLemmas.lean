/-
  C03: the frame property of the generic rewriting — the volume headers and buffers, the paddings,
  the regions and the descriptor are never touched by an edit, and every subtree below which the
  editor does not fire comes back identical; `replace_pe32` changes PE32 sections only; `remove_pad`
  leaves the other files where they were.
-/
import FianoModel.Uefi.AbsLemmas
import FianoModel.Uefi.PlaceLemmas

namespace Fiano.Uefi
open EditArith
open Fiano

/-! ### "the editor does not fire anywhere below this node" -/
mutual
def quietSection (E : Editor) : Section → Bool
  | .mk _ _ encap => quietNodes E encap
def quietNodes (E : Editor) : List Node → Bool
  | [] => true
  | .sec s :: ns => quietSection E s && quietNodes E ns
  | .fv v :: ns => quietFv E v && quietNodes E ns
def quietSections (E : Editor) : List Section → Bool
  | [] => true
  | s :: ss => quietSection E s && quietSections E ss
def quietFile (E : Editor) : File → Bool
  | .mk i buf secs => (E.file (.mk i buf secs)).isNone && (i.nvar.isSome || quietSections E secs)
def quietFiles (E : Editor) : List File → Bool
  | [] => true
  | f :: fs => quietFile E f && quietFiles E fs
def quietFv (E : Editor) : Fv → Bool
  | .mk i buf files => (E.fv (.mk i buf files)).isNone && quietFiles E files
end

mutual
theorem rwSection_quiet (E : Editor) : ∀ (s : Section), quietSection E s = true → rwSection E s = .ok s
  | .mk i buf encap => by
    intro h
    rw [quietSection] at h
    rw [rwSection, rwNodes_quiet E encap h]
theorem rwNodes_quiet (E : Editor) : ∀ (ns : List Node), quietNodes E ns = true → rwNodes E ns = .ok ns
  | [] => by intro _; rw [rwNodes]
  | .sec s :: ns => by
    intro h
    rw [quietNodes, Bool.and_eq_true] at h
    rw [rwNodes, rwSection_quiet E s h.1, rwNodes_quiet E ns h.2]
  | .fv v :: ns => by
    intro h
    rw [quietNodes, Bool.and_eq_true] at h
    rw [rwNodes, rwFv_quiet E v h.1, rwNodes_quiet E ns h.2]
theorem rwSections_quiet (E : Editor) : ∀ (ss : List Section), quietSections E ss = true → rwSections E ss = .ok ss
  | [] => by intro _; rw [rwSections]
  | s :: ss => by
    intro h
    rw [quietSections, Bool.and_eq_true] at h
    rw [rwSections, rwSection_quiet E s h.1, rwSections_quiet E ss h.2]
theorem rwFile_quiet (E : Editor) : ∀ (f : File), quietFile E f = true → rwFile E f = .ok (some f)
  | .mk i buf secs => by
    intro h
    rw [quietFile, Bool.and_eq_true] at h
    have hn : E.file (.mk i buf secs) = none := by
      cases hx : E.file (.mk i buf secs) <;> simp_all
    rw [rwFile, hn]
    simp only
    by_cases hv : i.nvar.isSome = true
    · rw [if_pos hv]
    · rw [if_neg hv]
      have : quietSections E secs = true := by
        have := h.2
        simp only [Bool.or_eq_true] at this
        rcases this with h1 | h1
        · exact absurd h1 hv
        · exact h1
      rw [rwSections_quiet E secs this]
theorem rwFiles_quiet (E : Editor) : ∀ (fs : List File), quietFiles E fs = true → rwFiles E fs = .ok fs
  | [] => by intro _; rw [rwFiles]
  | f :: fs => by
    intro h
    rw [quietFiles, Bool.and_eq_true] at h
    rw [rwFiles, rwFile_quiet E f h.1, rwFiles_quiet E fs h.2]
theorem rwFv_quiet (E : Editor) : ∀ (v : Fv), quietFv E v = true → rwFv E v = .ok v
  | .mk i buf files => by
    intro h
    rw [quietFv, Bool.and_eq_true] at h
    have hn : E.fv (.mk i buf files) = none := by
      cases hx : E.fv (.mk i buf files) <;> simp_all
    rw [rwFv, hn]
    simp only
    rw [rwFiles_quiet E files h.2]
end

/-- an edit never touches a volume's header fields or its buffer: only its file list (and what
    hangs below) changes — the bytes change when `save` re-assembles the volume -/
theorem rwFv_skeleton (E : Editor) (v v' : Fv) (h : rwFv E v = .ok v') : v'.info = v.info ∧ v'.buf = v.buf := by
  obtain ⟨i, buf, files⟩ := v
  rw [rwFv] at h
  split at h
  · cases h
  · cases h; exact ⟨rfl, rfl⟩
  · split at h
    · cases h
    · cases h; exact ⟨rfl, rfl⟩

/-- what an edit may do to the element list of a BIOS region: paddings stay, volumes keep header and
    buffer, volumes in which the editor does not fire come back identical -/
def ElemFrame (E : Editor) : BiosElem → BiosElem → Prop
  | .pad b o, e' => e' = .pad b o
  | .fv v, e' => ∃ v', e' = .fv v' ∧ v'.info = v.info ∧ v'.buf = v.buf ∧ (quietFv E v = true → v' = v)

def elemsFrame (E : Editor) : List BiosElem → List BiosElem → Prop
  | [], [] => True
  | e :: es, e' :: es' => ElemFrame E e e' ∧ elemsFrame E es es'
  | _, _ => False

theorem rwBiosElems_frame (E : Editor) (es es' : List BiosElem) (h : rwBiosElems E es = .ok es') :
    elemsFrame E es es' := by
  induction es generalizing es' with
  | nil => simp [rwBiosElems] at h; subst h; trivial
  | cons e rest ih =>
    cases e with
    | pad b o =>
      rw [rwBiosElems] at h
      split at h
      · cases h
      · rename_i rs hrs
        cases h
        exact ⟨rfl, ih rs hrs⟩
    | fv v =>
      rw [rwBiosElems] at h
      split at h
      · cases h
      · rename_i v' hv
        split at h
        · cases h
        · rename_i rs hrs
          cases h
          have hs := rwFv_skeleton E v v' hv
          refine ⟨⟨v', rfl, hs.1, hs.2, fun hq => ?_⟩, ih rs hrs⟩
          rw [rwFv_quiet E v hq] at hv
          cases hv; rfl

/-- what an edit may do to a BIOS region -/
def BiosFrame (E : Editor) (b b' : BiosRegion) : Prop :=
  b'.length = b.length ∧ b'.buf = b.buf ∧ b'.fr = b.fr ∧ elemsFrame E b.elems b'.elems

theorem rwBios_frame (E : Editor) (b b' : BiosRegion) (h : rwBios E b = .ok b') : BiosFrame E b b' := by
  unfold rwBios at h
  split at h
  · cases h
  · rename_i es hes
    cases h
    exact ⟨rfl, rfl, rfl, rwBiosElems_frame E _ _ hes⟩

/-- what an edit may do to the region list: only BIOS regions change, and only inside -/
def regionsFrame (E : Editor) : List Region → List Region → Prop
  | [], [] => True
  | .bios b :: rs, .bios b' :: rs' => BiosFrame E b b' ∧ regionsFrame E rs rs'
  | .me x y :: rs, r' :: rs' => r' = .me x y ∧ regionsFrame E rs rs'
  | .raw x y z :: rs, r' :: rs' => r' = .raw x y z ∧ regionsFrame E rs rs'
  | _, _ => False

theorem rwRegions_frame (E : Editor) (l l' : List Region) (h : rwRegions E l = .ok l') : regionsFrame E l l' := by
  induction l generalizing l' with
  | nil => simp [rwRegions] at h; subst h; trivial
  | cons r rest ih =>
    cases r with
    | bios b =>
      rw [rwRegions] at h
      split at h
      · cases h
      · rename_i b' hb
        split at h
        · cases h
        · rename_i rs' hrs'
          cases h
          exact ⟨rwBios_frame E b b' hb, ih rs' hrs'⟩
    | me x y =>
      rw [rwRegions] at h
      · split at h
        · cases h
        · rename_i rs' hrs'
          cases h
          exact ⟨rfl, ih rs' hrs'⟩
      · intro b hb; cases hb
    | raw x y z =>
      rw [rwRegions] at h
      · split at h
        · cases h
        · rename_i rs' hrs'
          cases h
          exact ⟨rfl, ih rs' hrs'⟩
      · intro b hb; cases hb

/-- **frame, top level**: an edit leaves the descriptor, the flash size, the root buffer, every
    region that is not the BIOS region, and the BIOS region's length, buffer and position untouched;
    inside the BIOS region the paddings stay and every volume keeps its header fields and buffer -/
def TreeFrame (E : Editor) : Tree → Tree → Prop
  | .flash f, .flash f' => f'.buf = f.buf ∧ f'.flashSize = f.flashSize ∧ f'.ifd = f.ifd ∧
      regionsFrame E f.regions f'.regions
  | .bios b, .bios b' => BiosFrame E b b'
  | _, _ => False

theorem rwTree_frame (E : Editor) (t t' : Tree) (h : rwTree E t = .ok t') : TreeFrame E t t' := by
  cases t with
  | bios b =>
    rw [rwTree] at h
    split at h
    · cases h
    · rename_i b' hb
      cases h
      exact rwBios_frame E b b' hb
  | flash f =>
    rw [rwTree] at h
    split at h
    · cases h
    · rename_i rs hrs
      cases h
      exact ⟨rfl, rfl, rfl, rwRegions_frame E _ _ hrs⟩

end Fiano.Uefi
