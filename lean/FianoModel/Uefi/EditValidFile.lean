/-
  C02 (follow-up wp-c02b), layer (b): whole file nodes.

  * `fileOk_realign`   — the reader's verdict on a file depends on where it sits only through the
                         data-alignment rule X2;
  * `goodFile_of_ok`   — a file the reader accepted somewhere is a `GoodFile` (acceptable wherever
                         its alignment holds, with every sufficiently large budget);
  * `rebuilt_goodFile` — the file `Assemble` rebuilds (`SetSize` + `ChecksumAndAssemble`) around
                         acceptable sections — or around an NVAR store — is a `GoodFile`;
  * `casm_live`        — its header is not mistaken for free space.
-/
import FianoModel.Uefi.EditValidSec

namespace Fiano.Uefi
open Fiano
open EditArith

theorem fileOk_realign (fuel : Nat) (fb : Bytes) (o o' : Nat) (h : Valid.fileOk fuel fb o = true)
    (hal : ∀ size hl, Valid.fileSize fb = some (size, hl) → (o' + hl) % Valid.dataAlign (Valid.fld fb 19 1) = 0) :
    Valid.fileOk fuel fb o' = true := by
  cases fuel with
  | zero => simp [Valid.fileOk] at h
  | succ n =>
    unfold Valid.fileOk at h ⊢
    split at h
    · cases h
    · rename_i size hl heq
      simp only [Bool.and_eq_true, decide_eq_true_eq] at h ⊢
      obtain ⟨⟨⟨⟨⟨a1, a2⟩, _⟩, a4⟩, a5⟩, a6⟩ := h
      exact ⟨⟨⟨⟨⟨a1, a2⟩, hal size hl heq⟩, a4⟩, a5⟩, a6⟩

/-- header length by the large-file bit = header length by the size fields, for a file the reader accepts -/
theorem fileSize_hl (fb : Bytes) (size hl : Nat) (h : Valid.fileSize fb = some (size, hl)) :
    hl = hdrLen (Valid.fld fb 19 1) := by
  unfold Valid.fileSize at h
  unfold hdrLen
  split at h
  · cases h
  · simp only at h
    split at h
    · rename_i hL
      rw [if_pos hL]
      split at h
      · cases h
      · split at h
        · cases h
        · cases h; rfl
    · rename_i hL
      rw [if_neg hL]
      split at h
      · cases h
      · cases h; rfl

/-- **a file the reader accepted at one place is acceptable wherever its data alignment holds** -/
theorem goodFile_of_ok (e : UInt8) (attrs : Nat) (fb : Bytes) (fuel o : Nat) (ha : attrs = Valid.fld fb 19 1)
    (ha256 : attrs < 256) (hlive : Valid.allAre e (fb.take 24) = false) (hok : Valid.fileOk fuel fb o = true) :
    GoodFile e (attrs, fb) := by
  refine ⟨ha256, hlive, fb.length + 1, fun f hf o' ho' => ?_⟩
  apply fileOk_fuel fuel fb o' f _ hf
  apply fileOk_realign fuel fb o o' hok
  intro size hl hfs
  rw [fileSize_hl fb size hl hfs, ← ha]
  exact ho'

/-- the header `ChecksumAndAssemble` writes is not erased when the type byte is neither 00 nor FF -/
theorem casm_live (i : FileInfo) (data : Bytes) (e : UInt8) (hg : i.guid.length = 16) (ht : i.type < 256)
    (he : e = 0xFF ∨ e = 0) (hty : i.type ≠ 0 ∧ i.type ≠ 255) :
    Valid.allAre e ((checksumAndAssemble i data).2.take 24) = false := by
  rw [casm_buf' i data hg]
  have h24 := fun a b c d e f g h => hdr24_length i.guid hg a b c d e f g h
  rw [List.take_append_of_le_length (by rw [h24]; omega), List.take_of_length_le (by rw [h24]; omega)]
  unfold hdr24
  rw [allAre_append]
  have hb : (byte i.type).toNat = i.type := byte_toNat _ ht
  have hne : (byte i.type == e) = false := by
    rcases he with rfl | rfl
    · have : byte i.type ≠ 0xFF := by
        intro c; rw [c] at hb; simp at hb; omega
      simpa using this
    · have : byte i.type ≠ 0 := by
        intro c; rw [c] at hb; simp at hb; omega
      simpa using this
  simp [Valid.allAre, hne]

/-- **`rebuilt_goodFile`** (layer (b)): a file written by `ChecksumAndAssemble` from header fields
    that describe its size, with a type byte that is neither 00 nor FF, whose data — if the type is
    a sectioned one — is a section area the reader accepts, is a `GoodFile` under either polarity -/
theorem rebuilt_goodFile (i : FileInfo) (data : Bytes) (e : UInt8) (hs : SizeFields i data.length)
    (he : e = 0xFF ∨ e = 0) (hty : i.type ≠ 0 ∧ i.type ≠ 255)
    (hsec : Valid.sectioned i.type = true → ∃ fuel, Valid.sectionsOk fuel data 0 = true) :
    GoodFile e (i.attrs, (checksumAndAssemble i data).2) := by
  refine ⟨hs.attrs, casm_live i data e hs.guid hs.type he hty, data.length + 3, fun fuel hf o ho => ?_⟩
  obtain ⟨n, rfl⟩ : ∃ n, fuel = n + 1 := ⟨fuel - 1, by omega⟩
  apply casm_fileOk i data n o hs
  · unfold hdrLen at ho; exact ho
  · intro hS
    obtain ⟨f0, h0⟩ := hsec hS
    exact sectionsOk_fuel f0 data 0 n h0 (by omega)

/-- the size of what `ChecksumAndAssemble` writes -/
theorem casm_length_ge (i : FileInfo) (data : Bytes) (hg : i.guid.length = 16) :
    data.length + 24 ≤ (checksumAndAssemble i data).2.length := by
  rw [casm_length i data hg]; omega

/-- the node fields `ChecksumAndAssemble` leaves: only the two checksums change -/
theorem casm_info (i : FileInfo) (data : Bytes) :
    (checksumAndAssemble i data).1.guid = i.guid ∧ (checksumAndAssemble i data).1.type = i.type ∧
    (checksumAndAssemble i data).1.attrs = i.attrs ∧ (checksumAndAssemble i data).1.state = i.state ∧
    (checksumAndAssemble i data).1.nvar = i.nvar := by
  unfold checksumAndAssemble
  exact ⟨rfl, rfl, rfl, rfl, rfl⟩

end Fiano.Uefi
