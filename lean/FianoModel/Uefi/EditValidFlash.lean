/-
  C02 (follow-up wp-c02b), layer (d), part 4: the flash image.

  `FlashOk f` — the invariant of a flash tree: the size invariant `Sized`; the descriptor
  re-serialises to itself; the reader's verdict on *any* image made of this descriptor and this many
  further bytes is its verdict on the BIOS region's slice (`FlashHdr`: rules F1–F4 depend on the
  descriptor and the size only); every BIOS region node satisfies `BiosOk`, and there is one.

  **`asmFlash_ok`**: `Assemble` of such a tree writes an image the reader accepts, and the invariant
  holds again.
-/
import FianoModel.Uefi.EditValidBios2
import FianoModel.Uefi.SizeLemmas

namespace Fiano.Uefi
open Fiano
open EditArith

/-- the reader's verdict on an image with descriptor `d` and total size `L` reduces to its verdict on
    the BIOS region at blocks `base … limit` -/
structure FlashHdr (d : Bytes) (L base limit : Nat) : Prop where
  dlen : d.length = 4096
  red  : ∀ X, d.length + X.length = L →
    Valid.validImage (d ++ X) = Valid.biosOk (((d ++ X).drop (base * 4096)).take ((limit + 1 - base) * 4096))

structure FlashOk (f : Flash) : Prop where
  sized : Sized (.flash f)
  desc  : ∀ d', asmDescriptor f.ifd = .ok d' → d' = f.ifd
  hdr   : ∃ base limit rest, f.ifd.region.regions = ⟨base, limit⟩ :: rest ∧ FlashHdr f.ifd.buf f.flashSize base limit
  bios  : ∀ b, .bios b ∈ f.regions → BiosOk b ∧ b.length ≤ f.flashSize
  some  : ∃ b, .bios b ∈ f.regions

/-! ### the tiling check -/

theorem tile_prefix : ∀ (l : List Region) (off : Nat) (acc buf : Bytes) (e : Nat),
    tileRegions l off acc = .ok (buf, e) → ∃ X, buf = acc ++ X := by
  intro l
  induction l with
  | nil => intro off acc buf e h; simp [tileRegions] at h; exact ⟨[], by rw [h.1]; simp⟩
  | cons r rest ih =>
    intro off acc buf e h
    rw [tileRegions] at h
    split at h
    · cases h
    · split at h
      · cases h
      · split at h
        · cases h
        · obtain ⟨X, hX⟩ := ih _ _ _ _ h
          exact ⟨r.buf ++ X, by rw [hX]; simp⟩

/-- every region's buffer sits at its base offset in the assembled image -/
theorem tile_slice : ∀ (l : List Region) (off : Nat) (acc buf : Bytes) (e : Nat),
    tileRegions l off acc = .ok (buf, e) → acc.length = off →
    (∀ r ∈ l, ∃ fr, r.fr = some fr ∧ r.buf.length + fr.baseOffset = fr.endOffset) →
    ∀ r ∈ l, ∀ fr, r.fr = some fr → (buf.drop fr.baseOffset).take r.buf.length = r.buf := by
  intro l
  induction l with
  | nil => intro off acc buf e _ _ _ r hr; cases hr
  | cons x rest ih =>
    intro off acc buf e h hacc hs r hr fr hfr
    obtain ⟨fx, hfx, hlx⟩ := hs x (by simp)
    rw [tileRegions, hfx] at h
    simp only at h
    split at h
    · cases h
    · split at h
      · cases h
      · rename_i h1 h2
        have hbase : fx.baseOffset = off := by omega
        simp only [List.mem_cons] at hr
        rcases hr with rfl | hr
        · rw [hfx] at hfr; cases hfr
          obtain ⟨X, hX⟩ := tile_prefix _ _ _ _ _ h
          rw [hX, hbase, ← hacc]
          rw [List.append_assoc, List.drop_append_of_le_length (by omega), List.drop_of_length_le (by omega)]
          simp
        · exact ih _ _ _ _ h (by simp only [List.length_append]; omega) (fun y hy => hs y (by simp [hy])) r hr fr hfr

/-! ### the regions -/

/-- what `asmRegions` does: BIOS regions are assembled, the others stay -/
theorem asmRegions_ok (h : Hooks) (hlaw : h.NvLaw) (B : Nat) (hB : B < 2 ^ 31) : ∀ (l l' : List Region) (st st' : St),
    asmRegions h l st = .ok (l', st') → (∀ b, .bios b ∈ l → BiosOk b ∧ b.length ≤ B) →
    (∀ b', .bios b' ∈ l' → BiosOk b' ∧ b'.length ≤ B ∧ Valid.biosOk b'.buf = true) ∧
    ((∃ b, .bios b ∈ l) → ∃ b', .bios b' ∈ l') := by
  intro l
  induction l with
  | nil =>
    intro l' st st' ha _
    simp [asmRegions] at ha
    obtain ⟨rfl, _⟩ := ha
    exact ⟨(fun b' hb => by cases hb), (fun ⟨b, hb⟩ => by cases hb)⟩
  | cons r rest ih =>
    intro l' st st' ha hok
    cases r with
    | bios b =>
      rw [asmRegions] at ha
      split at ha
      · cases ha
      · rename_i b1 st1 hb
        split at ha
        · cases ha
        · rename_i rs' st2 hrs
          cases ha
          obtain ⟨hbok, hble⟩ := hok b (by simp)
          obtain ⟨h1, h2, _, _, h5, _⟩ := asmBios_ok h hlaw b b1 st st1 hbok hb (by omega)
          obtain ⟨ih1, _⟩ := ih rs' st1 _ hrs (fun x hx => hok x (by simp [hx]))
          refine ⟨fun b' hb' => ?_, fun _ => ⟨b1, by simp⟩⟩
          simp only [List.mem_cons] at hb'
          rcases hb' with hb' | hb'
          · cases hb'
            exact ⟨h1, by omega, h2⟩
          · exact ih1 b' hb'
    | me x y =>
      rw [asmRegions] at ha
      · split at ha
        · cases ha
        · rename_i rs' st2 hrs
          cases ha
          obtain ⟨ih1, ih2⟩ := ih rs' st _ hrs (fun x hx => hok x (by simp [hx]))
          refine ⟨fun b' hb' => ?_, fun ⟨b, hb⟩ => ?_⟩
          · simp only [List.mem_cons] at hb'
            rcases hb' with hb' | hb'
            · cases hb'
            · exact ih1 b' hb'
          · simp only [List.mem_cons] at hb
            rcases hb with hb | hb
            · cases hb
            · obtain ⟨b', hb'⟩ := ih2 ⟨b, hb⟩
              exact ⟨b', by simp [hb']⟩
      · intro b hb; cases hb
    | raw x y z =>
      rw [asmRegions] at ha
      · split at ha
        · cases ha
        · rename_i rs' st2 hrs
          cases ha
          obtain ⟨ih1, ih2⟩ := ih rs' st _ hrs (fun x hx => hok x (by simp [hx]))
          refine ⟨fun b' hb' => ?_, fun ⟨b, hb⟩ => ?_⟩
          · simp only [List.mem_cons] at hb'
            rcases hb' with hb' | hb'
            · cases hb'
            · exact ih1 b' hb'
          · simp only [List.mem_cons] at hb
            rcases hb with hb | hb
            · cases hb
            · obtain ⟨b', hb'⟩ := ih2 ⟨b, hb⟩
              exact ⟨b', by simp [hb']⟩
      · intro b hb; cases hb

/-- re-pointing a BIOS region changes its table entry only -/
theorem repoint_bios (tbl : List FlashRegion) (nr : Nat) (b : BiosRegion) :
    ∃ fr, repoint tbl nr (.bios b) = .bios { b with fr := fr } := by
  unfold repoint
  simp only
  split
  · exact ⟨b.fr, rfl⟩
  · split
    · exact ⟨b.fr, rfl⟩
    · split
      · exact ⟨b.fr, rfl⟩
      · split
        · exact ⟨_, rfl⟩
        · exact ⟨b.fr, rfl⟩

theorem repoint_bios_inv (tbl : List FlashRegion) (nr : Nat) (r : Region) (b' : BiosRegion)
    (h : repoint tbl nr r = .bios b') : ∃ b fr, r = .bios b ∧ b' = { b with fr := fr } := by
  cases r with
  | bios b =>
    obtain ⟨fr, hfr⟩ := repoint_bios tbl nr b
    rw [hfr] at h
    cases h
    exact ⟨b, fr, rfl, rfl⟩
  | me x y =>
    unfold repoint at h
    simp only at h
    split at h
    · cases h
    · split at h
      · cases h
      · split at h
        · cases h
        · split at h
          · simp [Region.setFr] at h
          · cases h
  | raw x y z =>
    unfold repoint at h
    simp only at h
    split at h
    · cases h
    · split at h
      · cases h
      · split at h
        · cases h
        · split at h
          · simp [Region.setFr] at h
          · cases h

theorem biosOk_fr (b : BiosRegion) (fr : Option FlashRegion) (h : BiosOk b) : BiosOk { b with fr := fr } :=
  ⟨h.elems, h.len⟩

/-- the table entry a BIOS region is re-pointed to -/
theorem repoint_bios_fr (base limit : Nat) (rest : List FlashRegion) (nr : Nat) (b : BiosRegion) :
    (repoint (⟨base, limit⟩ :: rest) nr (.bios b)).fr = some ⟨base, limit⟩ := by
  rw [repoint_fr]
  unfold repointFr
  have h0 : (Region.bios b).rtype = 0 := rfl
  rw [h0]
  split
  · rename_i c; exact absurd c (by decide)
  · split
    · rename_i c; omega
    · split
      · rename_i c; simp at c; omega
      · rfl

/-- **`asmFlash_valid`** (layer (d)): `Assemble` of a flash tree that satisfies the invariant writes an
    image the independent reader accepts (descriptor rules F1–F5, region rules B1–B2, every volume
    valid), and the invariant holds again -/
theorem asmFlash_ok (h : Hooks) (hlaw : h.NvLaw) (f f' : Flash) (st st' : St) (hok : FlashOk f)
    (ha : asmFlash h f st = .ok (f', st')) (hL : f.flashSize < 2 ^ 31) :
    FlashOk f' ∧ Valid.validImage f'.buf = true := by
  obtain ⟨hbl, hfs, hsz'⟩ := asmFlash_sized h f f' st st' ha hok.sized
  unfold asmFlash at ha
  split at ha
  · cases ha
  · rename_i ifd hifd
    have hie : ifd = f.ifd := hok.desc ifd hifd
    subst hie
    split at ha
    · cases ha
    · rename_i rs st1 hrs
      split at ha
      · cases ha
      · rename_i bios brest hb
        split at ha
        · cases ha
        · simp only at ha
          split at ha
          · cases ha
          · rename_i buf offset htile
            split at ha
            · cases ha
            · rename_i hoff
              cases ha
              simp only at hbl hfs hsz' ⊢
              obtain ⟨base, limit, rest', htbl, hhdr⟩ := hok.hdr
              obtain ⟨hb1, hb2⟩ := asmRegions_ok h hlaw f.flashSize hL f.regions rs st _ hrs hok.bios
              obtain ⟨b1, hb1mem⟩ := hb2 hok.some
              -- the assembled BIOS region, re-pointed, in the sorted list
              generalize hRS : sortRegions (rs.map (repoint f.ifd.region.regions f.ifd.map.numberOfRegions)) = RS at *
              have hmemRS : ∀ r, r ∈ RS ↔ ∃ r0 ∈ rs, repoint f.ifd.region.regions f.ifd.map.numberOfRegions r0 = r := by
                intro r
                rw [← hRS, mem_sortRegions, List.mem_map]
              obtain ⟨fr1, hr1⟩ := repoint_bios f.ifd.region.regions f.ifd.map.numberOfRegions b1
              have hr1mem : Region.bios { b1 with fr := fr1 } ∈ RS := (hmemRS _).mpr ⟨_, hb1mem, hr1⟩
              have hsized := hsz'.2
              have hfr1 : (Region.bios { b1 with fr := fr1 }).fr = some ⟨base, limit⟩ := by
                rw [← hr1, htbl]; exact repoint_bios_fr base limit rest' _ b1
              obtain ⟨⟨fr, hfr, hlen⟩, _, _⟩ := hsized _ hr1mem
              rw [hfr1] at hfr
              cases hfr
              have hsl := tile_slice RS 4096 f.ifd.buf buf offset htile hok.sized.1
                (fun r hr => (hsized r hr).1) _ hr1mem _ hfr1
              simp only [Region.buf, FlashRegion.baseOffset, FlashRegion.endOffset] at hsl hlen
              obtain ⟨X, hX⟩ := tile_prefix _ _ _ _ _ htile
              have hred := hhdr.red X (by rw [hX] at hbl; simp only [List.length_append] at hbl; omega)
              have hlen' : b1.buf.length = (limit + 1 - base) * 4096 := by rw [Nat.sub_mul]; omega
              refine ⟨⟨hsz', hok.desc, ⟨base, limit, rest', htbl, hhdr⟩, ?_, ⟨_, hr1mem⟩⟩, ?_⟩
              · intro b hbm
                obtain ⟨r0, hr0, hrep⟩ := (hmemRS _).mp hbm
                obtain ⟨b0, fr0, rfl, rfl⟩ := repoint_bios_inv _ _ _ _ hrep
                obtain ⟨q1, q2, _⟩ := hb1 b0 hr0
                exact ⟨biosOk_fr b0 fr0 q1, q2⟩
              · rw [hX, hred, ← hX, ← hlen', hsl]
                exact (hb1 b1 hb1mem).2.2

end Fiano.Uefi
