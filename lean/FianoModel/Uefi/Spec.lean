/-
  Reference image grammar for property C01 (and the properties built on it).

    Img   = flash image with descriptor and regions in any order  |  bare BIOS region
            (a single firmware volume is a BIOS region with one volume and no padding)
    BiosI = (padding, volume)* ++ trailing padding
    FvI   = FFSv2/FFSv3 volume: header, block map, optional extended header, files, free space
          | volume of another file system (opaque body)
    FileI = leaf file (RAW, PEIM, pad file, any unparsed type, or a header-only file): verbatim body
          | sectioned file: header fields + sections, sizes and checksums computed
    SecI  = leaf section (PE32, TE, PIC, RAW, compatibility16, freeform, disposable, type-1
            compression, unknown types): verbatim body
          | GUID-defined section that is not decoded | UI | version | depex | nested volume image

  `ser : Img → Bytes` writes the image as the PI specification / IFD layout prescribe, `tree` is the
  tree a faithful parser reports, `wf : Img → Bool` the (decidable) well-formedness conditions.
  Written from the formats: alignment is arithmetic (`alignUp`), checksums are "sum to zero".
  Erase polarity 1 (0xFF).  No compressed sections.  Core Lean only.
-/
import FianoModel.Uefi.Assemble

namespace Fiano.Uefi.Spec
open Fiano Fiano.Uefi

def alignUp (n a : Nat) : Nat := (n + a - 1) / a * a
def zeros (n : Nat) : Bytes := List.replicate n 0
def ffs (n : Nat) : Bytes := List.replicate n 0xFF

structure ExtI where
  gap    : Bytes      -- bytes between the end of the block map and the extended header
  fvName : Guid
  data   : Bytes      -- extension entries following the 20-byte extended header
  deriving Repr, Inhabited

mutual
  inductive SecI where
    | leaf (type : Nat) (ext : Bool) (body : Bytes)
    | guided (ext : Bool) (guid : Guid) (dataOffset attrs : Nat) (body : Bytes)
    | ui (name : List Nat)
    | version (build : Nat) (ver : List Nat)
    | depex (type : Nat) (ops : List DepOp)
    | fvimg (fv : FvI)
  inductive FileI where
    | leaf (guid : Guid) (ckh ckf type attrs state : Nat) (ext : Bool) (body : Bytes)
    | sect (guid : Guid) (type attrs state : Nat) (secs : List SecI)
  inductive FvI where
    | ffs (zv : Bytes) (v3 : Bool) (attrs rev rsv : Nat) (blocks : List Block) (ext : Option ExtI)
          (files : List FileI) (free : Nat)
    | other (zv : Bytes) (guid : Guid) (attrs rev rsv : Nat) (blocks : List Block) (body : Bytes)
end

structure BiosI where
  items : List (Bytes × FvI)
  tail  : Bytes

inductive RegI where
  | bios (b : BiosI)                 -- region-table entry 0
  | me (data : Bytes)                -- entry 1
  | raw (idx : Nat) (data : Bytes)   -- entries 2..14
  | gap (data : Bytes)               -- not described by the table

structure FlashI where
  desc    : Bytes                    -- the 4 KiB descriptor, verbatim
  regions : List RegI                -- in flash order

inductive Img where
  | flash (f : FlashI)
  | bios (b : BiosI)

/-! ### sizes (arithmetic only) -/

def secHdrLen (ext : Bool) : Nat := if ext then 8 else 4
/-- size of a section whose header is generated canonically around `n` payload bytes -/
def canonSecSize (n : Nat) : Nat := if n + 4 ≥ 0xFFFFFF then n + 8 else n + 4

def encodeBlocks : List Block → Bytes
  | [] => []
  | b :: bs => leN 4 b.count ++ leN 4 b.size ++ encodeBlocks bs

def fvHdrLen (blocks : List Block) : Nat := 56 + 8 * (blocks.length + 1)

def preLen (blocks : List Block) : Option ExtI → Nat
  | none => fvHdrLen blocks
  | some e => alignUp (fvHdrLen blocks + e.gap.length + 20 + e.data.length) 8

def opsSize : List DepOp → Nat
  | [] => 0
  | d :: ds => (if d.guid.isSome then 17 else 1) + opsSize ds

mutual
  def sizeSec : SecI → Nat
    | .leaf _ ext body => secHdrLen ext + body.length
    | .guided ext _ _ _ body => secHdrLen ext + 20 + body.length
    | .ui name => canonSecSize (utf8ToUcs2 name).length
    | .version _ ver => canonSecSize (2 + (utf8ToUcs2 ver).length)
    | .depex _ ops => canonSecSize (opsSize ops)
    | .fvimg fv => canonSecSize (sizeFv fv)
  /-- length of the section area when it starts at (4-aligned-relative) position `n` -/
  def sizeSecs : Nat → List SecI → Nat
    | n, [] => n
    | n, s :: ss => sizeSecs (alignUp n 4 + sizeSec s) ss
  def sizeFile : FileI → Nat
    | .leaf _ _ _ _ _ _ ext body => (if ext then 32 else 24) + body.length
    | .sect _ _ _ _ secs =>
      let d := sizeSecs 0 secs
      if 24 + d ≥ 0xFFFFFF then 32 + d else 24 + d
  /-- end offset of the file area when it starts at offset `off` -/
  def endFiles : Nat → List FileI → Nat
    | off, [] => off
    | off, f :: fs => endFiles (alignUp off 8 + sizeFile f) fs
  def sizeFv : FvI → Nat
    | .ffs _ _ _ _ _ blocks ext files free => endFiles (preLen blocks ext) files + free
    | .other _ _ _ _ _ blocks body => fvHdrLen blocks + body.length
end

/-! ### serialisation -/

def secHdr (type : Nat) (ext : Bool) (total : Nat) : Bytes :=
  if ext then leN 3 0xFFFFFF ++ [byte type] ++ leN 4 total else leN 3 total ++ [byte type]

/-- a section with the canonical header around `body` -/
def canonSec (type : Nat) (body : Bytes) : Bytes :=
  if body.length + 4 ≥ 0xFFFFFF then secHdr type true (body.length + 8) ++ body
  else secHdr type false (body.length + 4) ++ body

def encodeOps : List DepOp → Bytes
  | [] => []
  | d :: ds => byte d.op :: (d.guid.getD []) ++ encodeOps ds

/-- the file attribute byte as stored: bit 0 (large file) follows the size for sectioned files -/
def sectAttrs (attrs d : Nat) : Nat := if 24 + d ≥ 0xFFFFFF then attrs ||| 1 else attrs &&& 0xFE

def fileHdr (guid : Guid) (ckh ckf : UInt8) (type attrs : Nat) (ext : Bool) (total state : Nat) : Bytes :=
  guid ++ [ckh, ckf, byte type, byte attrs] ++ (if ext then leN 3 0xFFFFFF else leN 3 total) ++ [byte state]
    ++ (if ext then leN 8 total else [])

def fvSigBytes : Bytes := [0x5F, 0x46, 0x56, 0x48]

/-- the volume header up to the end of the block map, with checksum field `ck` -/
def fvHeader (zv : Bytes) (g : Guid) (length attrs : Nat) (ck eho rsv rev : Nat) (blocks : List Block) : Bytes :=
  zv ++ g ++ leN 8 length ++ fvSigBytes ++ leN 4 attrs ++ leN 2 (fvHdrLen blocks) ++ leN 2 ck ++ leN 2 eho
    ++ [byte rsv, byte rev] ++ encodeBlocks blocks ++ zeros 8

/-- header with the checksum that makes its 16-bit words sum to zero -/
def fvHeaderCk (zv : Bytes) (g : Guid) (length attrs eho rsv rev : Nat) (blocks : List Block) : Bytes :=
  fvHeader zv g length attrs (0 - sum16 (fvHeader zv g length attrs 0 eho rsv rev blocks)).toNat eho rsv rev blocks

/-- bytes between the header and the first file -/
def preBytes (blocks : List Block) : Option ExtI → Bytes
  | none => []
  | some e =>
    let x := fvHdrLen blocks + e.gap.length + 20 + e.data.length
    e.gap ++ e.fvName ++ leN 4 (20 + e.data.length) ++ e.data ++ ffs (alignUp x 8 - x)

def ehoOf (blocks : List Block) : Option ExtI → Nat
  | none => 0
  | some e => fvHdrLen blocks + e.gap.length

mutual
  def serSec : SecI → Bytes
    | .leaf type ext body => secHdr type ext (secHdrLen ext + body.length) ++ body
    | .guided ext g doff attrs body =>
      secHdr 0x02 ext (secHdrLen ext + 20 + body.length) ++ g ++ leN 2 doff ++ leN 2 attrs ++ body
    | .ui name => canonSec 0x15 (utf8ToUcs2 name)
    | .version build ver => canonSec 0x14 (leN 2 build ++ utf8ToUcs2 ver)
    | .depex type ops => canonSec type (encodeOps ops)
    | .fvimg fv => canonSec 0x17 (serFv fv)
  /-- sections from relative position `n`, zero padding to 4 before each -/
  def serSecs : Nat → List SecI → Bytes
    | _, [] => []
    | n, s :: ss => zeros (alignUp n 4 - n) ++ serSec s ++ serSecs (alignUp n 4 + sizeSec s) ss
  def serFile : FileI → Bytes
    | .leaf g ckh ckf type attrs state ext body =>
      fileHdr g (byte ckh) (byte ckf) type attrs ext ((if ext then 32 else 24) + body.length) state ++ body
    | .sect g type attrs state secs =>
      let data := serSecs 0 secs
      let large : Bool := 24 + data.length ≥ 0xFFFFFF
      let total := (if large then 32 else 24) + data.length
      let attrs' := sectAttrs attrs data.length
      let ckf : UInt8 := if attrs &&& 0x40 ≠ 0 then 0 - sum8 data else 0xAA
      let ckh : UInt8 := 0 - sum8 (fileHdr g 0 0 type attrs' large total 0)
      fileHdr g ckh ckf type attrs' large total state ++ data
  /-- files from offset `off`, erased padding to 8 before each -/
  def serFiles : Nat → List FileI → Bytes
    | _, [] => []
    | off, f :: fs => ffs (alignUp off 8 - off) ++ serFile f ++ serFiles (alignUp off 8 + sizeFile f) fs
  def serFv : FvI → Bytes
    | .ffs zv v3 attrs rev rsv blocks ext files free =>
      let pre := preLen blocks ext
      let length := endFiles pre files + free
      fvHeaderCk zv (if v3 then guidFFS3 else guidFFS2) length attrs (ehoOf blocks ext) rsv rev blocks
        ++ preBytes blocks ext ++ serFiles pre files ++ ffs free
    | .other zv g attrs rev rsv blocks body =>
      fvHeaderCk zv g (fvHdrLen blocks + body.length) attrs 0 rsv rev blocks ++ body
end

def serItems : List (Bytes × FvI) → Bytes
  | [] => []
  | (p, v) :: is => p ++ serFv v ++ serItems is

def serBios (b : BiosI) : Bytes := serItems b.items ++ b.tail

def RegI.data : RegI → Bytes
  | .bios b => serBios b
  | .me d => d
  | .raw _ d => d
  | .gap d => d

def serRegs : List RegI → Bytes
  | [] => []
  | r :: rs => r.data ++ serRegs rs

def ser : Img → Bytes
  | .flash f => f.desc ++ serRegs f.regions
  | .bios b => serBios b

/-! ### the tree a faithful parser reports -/

def secInfoOf (type : Nat) (ext : Bool) (total ord : Nat) : SecInfo :=
  { size3 := if ext then 0xFFFFFF else total, type := type, extSize := total, fileOrder := ord }

def canonInfo (type n ord : Nat) : SecInfo :=
  if n + 4 ≥ 0xFFFFFF then secInfoOf type true (n + 8) ord else secInfoOf type false (n + 4) ord

def blockOk (b : Block) : Bool := b.count < 4294967296 && b.size < 4294967296 && !(b.count == 0 && b.size == 0)

mutual
  def treeSec : SecI → Nat → Section
    | .leaf type ext body, ord =>
      .mk (secInfoOf type ext (secHdrLen ext + body.length) ord) (serSec (.leaf type ext body)) []
    | .guided ext g doff attrs body, ord =>
      .mk { secInfoOf 0x02 ext (secHdrLen ext + 20 + body.length) ord with
            ts := some ⟨g, doff, attrs, if attrs &&& 1 ≠ 0 then "UNKNOWN" else ""⟩ }
          (serSec (.guided ext g doff attrs body)) []
    | .ui name, ord =>
      .mk { canonInfo 0x15 (utf8ToUcs2 name).length ord with name := name } (serSec (.ui name)) []
    | .version build ver, ord =>
      .mk { canonInfo 0x14 (2 + (utf8ToUcs2 ver).length) ord with build := build, version := ver }
          (serSec (.version build ver)) []
    | .depex type ops, ord =>
      .mk { canonInfo type (opsSize ops) ord with depex := ops } (serSec (.depex type ops)) []
    | .fvimg fv, ord =>
      .mk (canonInfo 0x17 (sizeFv fv) ord) (serSec (.fvimg fv)) [.fv (treeFv fv 0 true)]
  def treeSecs : List SecI → Nat → List Section
    | [], _ => []
    | s :: ss, ord => treeSec s ord :: treeSecs ss (ord + 1)
  def treeFile : FileI → File
    | .leaf g ckh ckf type attrs state ext body =>
      let total := (if ext then 32 else 24) + body.length
      .mk { guid := g, ckHeader := ckh, ckFile := ckf, type := type, attrs := attrs,
            size3 := if ext then 0xFFFFFF else total, state := state, extSize := total,
            dataOffset := if ext then 32 else 24 }
          (serFile (.leaf g ckh ckf type attrs state ext body)) []
    | .sect g type attrs state secs =>
      let d := sizeSecs 0 secs
      let large : Bool := 24 + d ≥ 0xFFFFFF
      let total := (if large then 32 else 24) + d
      let data := serSecs 0 secs
      let attrs' := sectAttrs attrs d
      let ckf : UInt8 := if attrs &&& 0x40 ≠ 0 then 0 - sum8 data else 0xAA
      let ckh : UInt8 := 0 - sum8 (fileHdr g 0 0 type attrs' large total 0)
      .mk { guid := g, ckHeader := ckh.toNat, ckFile := ckf.toNat, type := type, attrs := attrs',
            size3 := if large then 0xFFFFFF else total, state := state, extSize := total,
            dataOffset := if large then 32 else 24 }
          (serFile (.sect g type attrs state secs)) (treeSecs secs 0)
  def treeFiles : List FileI → List File
    | [] => []
    | f :: fs => treeFile f :: treeFiles fs
  def treeFv : FvI → Nat → Bool → Fv
    | .ffs zv v3 attrs rev rsv blocks ext files free, fvOffset, resizable =>
      let pre := preLen blocks ext
      let endF := endFiles pre files
      let length := endF + free
      let g := if v3 then guidFFS3 else guidFFS2
      let eho := ehoOf blocks ext
      let buf := serFv (.ffs zv v3 attrs rev rsv blocks ext files free)
      .mk { fsGuid := g, length := length, signature := 0x4856465F, attrs := attrs,
            headerLen := fvHdrLen blocks,
            checksum := (0 - sum16 (fvHeader zv g length attrs 0 eho rsv rev blocks)).toNat,
            extHeaderOffset := eho, reserved := rsv, revision := rev, blocks := blocks,
            fvName := (ext.map (·.fvName)).getD guidZero,
            extHeaderSize := (ext.map (fun e => 20 + e.data.length)).getD 0,
            dataOffset := pre, fvOffset := fvOffset, resizable := resizable,
            -- the free space a reader finds: an erased header after the last file
            freeSpace := if endF + 24 ≤ length then length - alignUp endF 8 else 0 }
          buf (treeFiles files)
    | .other zv g attrs rev rsv blocks body, fvOffset, resizable =>
      let length := fvHdrLen blocks + body.length
      .mk { fsGuid := g, length := length, signature := 0x4856465F, attrs := attrs,
            headerLen := fvHdrLen blocks,
            checksum := (0 - sum16 (fvHeader zv g length attrs 0 0 rsv rev blocks)).toNat,
            extHeaderOffset := 0, reserved := rsv, revision := rev, blocks := blocks,
            fvName := guidZero, extHeaderSize := 0, dataOffset := fvHdrLen blocks,
            fvOffset := fvOffset, resizable := resizable, freeSpace := 0 }
          (serFv (.other zv g attrs rev rsv blocks body)) []
end

def treeItems : List (Bytes × FvI) → Nat → List BiosElem
  | [], _ => []
  | (p, v) :: is, off =>
    (if p.length ≠ 0 then [BiosElem.pad p off] else []) ++
      .fv (treeFv v (off + p.length) false) :: treeItems is (off + p.length + sizeFv v)

def sizeItems : List (Bytes × FvI) → Nat
  | [] => 0
  | (p, v) :: is => p.length + sizeFv v + sizeItems is

def treeBios (b : BiosI) (fr : Option FlashRegion) : BiosRegion :=
  { elems := treeItems b.items 0 ++
      (if b.tail.length ≠ 0 then [BiosElem.pad b.tail (sizeItems b.items)] else []),
    buf := serBios b, length := (serBios b).length, fr := fr }

/-- the descriptor as decoded from its 4 KiB (exactly what `ParseFlashDescriptor` reads) -/
def mapStartOf (desc : Bytes) : Nat := if slice desc 16 4 = flashSignature then 20 else 4

def treeDesc (desc : Bytes) : Descriptor :=
  let ms := mapStartOf desc
  let map : DescMap := ⟨(slice desc ms 16).map (·.toNat)⟩
  let rs := map.regionBase * 16
  let mas := map.masterBase * 16
  { buf := desc, mapStart := ms, regionStart := rs, masterStart := mas, map := map,
    region := ⟨rd desc (rs + 2) 2, decodeRegions 15 (desc.drop (rs + 4))⟩,
    master := ⟨decodePerms 3 (desc.drop mas)⟩ }

/-- regions in flash order, starting at block `blk` (4 KiB units) -/
def treeRegs (tbl : List FlashRegion) : List RegI → Nat → List Region
  | [], _ => []
  | r :: rs, blk =>
    let n := r.data.length / 4096
    let fr : FlashRegion := ⟨blk, blk + n - 1⟩
    (match r with
      | .bios b => Region.bios (treeBios b (some (tbl.getD 0 fr)))
      | .me d => Region.me d (tbl.getD 1 fr)
      | .raw i d => Region.raw d (tbl.getD i fr) i
      | .gap d => Region.raw d fr (-1)) :: treeRegs tbl rs (blk + n)

def tree : Img → Tree
  | .flash f =>
    let d := treeDesc f.desc
    .flash { buf := ser (.flash f), ifd := d, regions := treeRegs d.region.regions f.regions 1,
             flashSize := (ser (.flash f)).length }
  | .bios b => .bios (treeBios b none)

/-! ### well-formedness -/

def isScalar (c : Nat) : Bool := c < 0x110000 && !(0xD800 ≤ c && c ≤ 0xDFFF)

/-- the GUIDs `compression.CompressorFromGUID` knows (BROTLI, LZMA, LZMAX86, ZLIB) -/
def codecGuids : List Guid :=
  [[0x50,0x20,0x53,0x3D,0xDA,0x5C,0xD0,0x4F,0x87,0x9E,0x0F,0x7F,0x63,0x0D,0x5A,0xFB],
   [0x98,0x58,0x4E,0xEE,0x14,0x39,0x59,0x42,0x9D,0x6E,0xDC,0x7B,0xD7,0x94,0x03,0xCF],
   [0xBD,0xE6,0x2A,0xD4,0x52,0x13,0xFB,0x4B,0x90,0x9A,0xCA,0x72,0xA6,0xEA,0xE8,0x89],
   [0xF5,0x33,0x32,0xCE,0xD6,0x2C,0x87,0x4D,0x91,0x52,0x4A,0x23,0x8B,0xB6,0xD1,0xC4]]

/-- a well-formed dependency expression: known opcodes, a GUID exactly where one is required,
    `END` last and only last -/
def wfOps : List DepOp → Bool
  | [] => false
  | [d] => d.op == 8 && d.guid.isNone
  | d :: ds =>
    d.op ≤ 9 && d.op != 8 &&
      (match d.guid with
       | some g => depHasGuid d.op && g.length == 16
       | none => !depHasGuid d.op) && wfOps ds

/-- section types whose body the tool keeps verbatim -/
def leafSecType (t : Nat) : Bool :=
  t < 256 && t != 0x02 && t != 0x14 && t != 0x15 && t != 0x17 && !isDepexType t

def secSizeOk (ext : Bool) (total : Nat) : Bool :=
  if ext then total < 0xFFFFFFFF else total < 0xFFFFFF

/-- does a sectioned file / section carry the >16 MiB size that makes the tool switch the
    enclosing volume to FFSv3? -/
def bigSize (n : Nat) : Bool := n > 0xFFFFFF

mutual
  def wfSec : SecI → Bool
    | .leaf type ext body =>
      leafSecType type && (!ext || knownSection type) && secSizeOk ext (secHdrLen ext + body.length)
    | .guided ext g doff attrs body =>
      g.length == 16 && doff < 65536 && attrs < 65536 &&
        (attrs &&& 1 == 0 || !codecGuids.contains g) && secSizeOk ext (secHdrLen ext + 20 + body.length)
    | .ui name => name.all isScalar && (utf8ToUcs2 name).length + 8 < 0xFFFFFFFF
    | .version build ver => build < 65536 && ver.all isScalar && (utf8ToUcs2 ver).length + 10 < 0xFFFFFFFF
    | .depex type ops => isDepexType type && wfOps ops && opsSize ops + 8 < 0xFFFFFFFF
    | .fvimg fv => wfFv fv && sizeFv fv + 8 < 0xFFFFFFFF
  def wfSecs : List SecI → Bool
    | [] => true
    | s :: ss => wfSec s && wfSecs ss
  def wfFile : FileI → Bool
    | .leaf g ckh ckf type attrs state ext body =>
      g.length == 16 && ckh < 256 && ckf < 256 && type < 256 && attrs < 256 && state < 256 &&
        (!supportedFile type || body.isEmpty) && !(type == 1 && g == guidNVAR) &&
        (if ext then 32 + body.length < 0xFFFFFFFFFFFFFFFF else 24 + body.length < 0xFFFFFF)
    | .sect g type attrs state secs =>
      g.length == 16 && type < 256 && attrs < 256 && state < 256 && supportedFile type &&
        !secs.isEmpty && wfSecs secs && sizeSecs 0 secs + 32 < 0x4000000000000000
  /-- files laid out from offset `off` in a volume of `length` bytes: each header lies strictly
      inside the walk range, each file fits, and each file with a data alignment sits where the
      alignment rule puts it -/
  def wfFiles : Nat → Nat → List FileI → Bool
    | _, _, [] => true
    | off, length, f :: fs =>
      let al := alignUp off 8
      let attrs := match f with
        | .leaf _ _ _ _ a _ _ _ => a
        | .sect _ _ a _ secs => sectAttrs a (sizeSecs 0 secs)
      let hl := if attrs &&& 1 ≠ 0 then 32 else 24
      wfFile f && al + 24 ≤ length && al + sizeFile f ≤ length &&
        (al + hl) % alignmentOf attrs == 0 && wfFiles (al + sizeFile f) length fs
  /-- some rebuilt file or section is larger than 16 MiB (the tool then switches the volume
      that is assembled next to FFSv3) -/
  def anyBigSec : SecI → Bool
    | .ui name => bigSize (canonSecSize (utf8ToUcs2 name).length)
    | .version _ ver => bigSize (canonSecSize (2 + (utf8ToUcs2 ver).length))
    | .depex _ ops => bigSize (canonSecSize (opsSize ops))
    | .fvimg fv => bigSize (canonSecSize (sizeFv fv))
    | _ => false
  def anyBigSecs : List SecI → Bool
    | [] => false
    | s :: ss => anyBigSec s || anyBigSecs ss
  def anyBigFiles : List FileI → Bool
    | [] => false
    | .leaf .. :: fs => anyBigFiles fs
    | .sect _ _ _ _ secs :: fs => 24 + sizeSecs 0 secs ≥ 0xFFFFFF || anyBigSecs secs || anyBigFiles fs
  /-- every volume with files nested below is FFSv3 -/
  def allV3Sec : SecI → Bool
    | .fvimg fv => allV3Fv fv
    | _ => true
  def allV3Secs : List SecI → Bool
    | [] => true
    | s :: ss => allV3Sec s && allV3Secs ss
  def allV3Files : List FileI → Bool
    | [] => true
    | .leaf .. :: fs => allV3Files fs
    | .sect _ _ _ _ secs :: fs => allV3Secs secs && allV3Files fs
  def allV3Fv : FvI → Bool
    | .ffs _ v3 _ _ _ _ _ files _ => (files.isEmpty || v3) && allV3Files files
    | .other .. => true
  def wfFv : FvI → Bool
    | .ffs zv v3 attrs rev rsv blocks ext files free =>
      let pre := preLen blocks ext
      let length := endFiles pre files + free
      zv.length == 16 && attrs < 4294967296 && attrs &&& 0x800 != 0 && rev < 256 && rsv < 256 &&
        blocks.all blockOk && fvHdrLen blocks < 65536 && (files.isEmpty || !blocks.isEmpty) &&
        (match ext with
         | none => true
         | some e => e.fvName.length == 16 && ehoOf blocks ext < 65536 && 20 + e.data.length < 4294967296 &&
                     ehoOf blocks ext + 20 ≤ length) &&
        length % 8 == 0 && length < 0x4000000000000000 && 64 ≤ length &&
        wfFiles pre length files &&
        -- (no condition on what follows the last file: since fixes 8039e86 / F52 the reader takes an erased
        --  24-byte tail for free space and finds a header that starts exactly at Length-24)
        -- a file or section above 16 MiB forces FFSv3 here and in every nested volume
        (!anyBigFiles files || (v3 && allV3Files files))
    | .other zv g attrs rev rsv blocks body =>
      zv.length == 16 && g.length == 16 && g != guidFFS2 && g != guidFFS3 &&
        attrs < 4294967296 && attrs &&& 0x800 != 0 && rev < 256 && rsv < 256 &&
        blocks.all blockOk && fvHdrLen blocks < 65536 && fvHdrLen blocks + body.length < 0x4000000000000000
end

/-- every volume is well formed, and the volume scan (probing for `_FVH` at 8-byte steps from offset
    32 of what is left of the region) finds each volume exactly at the end of the padding before it:
    the padding is 8-aligned and holds no `_FVH` at a probed position -/
def wfItems : List (Bytes × FvI) → Bytes → Bool
  | [], _ => true
  | (p, v) :: is, tail =>
    wfFv v && findFvOffset (serItems ((p, v) :: is) ++ tail) == some p.length && wfItems is tail

def wfBios (b : BiosI) : Bool :=
  !b.items.isEmpty && wfItems b.items b.tail && findFvOffset b.tail == none

def wfReg : RegI → Bool
  | .bios b => wfBios b
  | _ => true

/-- the region-table entries the reader selects: valid, inside the flash, index below
    NumberOfRegions when that is non-zero -/
def selectEntries (nr flashSize : Nat) : List FlashRegion → Nat → List (Nat × FlashRegion)
  | [], _ => []
  | fr :: frs, i =>
    if nr ≠ 0 ∧ i ≥ nr then []
    else if fr.valid ∧ fr.baseOffset < flashSize ∧ fr.endOffset ≤ flashSize then
      (i, fr) :: selectEntries nr flashSize frs (i + 1)
    else selectEntries nr flashSize frs (i + 1)

def insertEntry (e : Nat × FlashRegion) : List (Nat × FlashRegion) → List (Nat × FlashRegion)
  | [] => [e]
  | x :: xs => if e.2.base < x.2.base then e :: x :: xs else x :: insertEntry e xs

def sortEntries (l : List (Nat × FlashRegion)) : List (Nat × FlashRegion) := l.foldr insertEntry []

def RegI.isGap : RegI → Bool
  | .gap _ => true
  | _ => false

/-- number of 4 KiB blocks of a region -/
def RegI.blocks (r : RegI) : Nat := r.data.length / 4096

/-- the kind of a region agrees with the index of its table entry -/
def kindOk : RegI → Nat → Bool
  | .bios _, i => i == 0
  | .me _, i => i == 1
  | .raw j _, i => i == j && 2 ≤ j
  | .gap _, _ => false

/-- the regions in flash order (starting at block `blk`) agree with the sorted selected table
    entries; gaps fill the rest: every region is a whole number (≥ 1) of 4 KiB blocks, a non-gap
    region is described by the next entry (right index, base and limit), a gap ends at or before the
    next entry -/
def matchRegs : List RegI → Nat → List (Nat × FlashRegion) → Bool
  | [], _, es => es.isEmpty
  | r :: rs, blk, es =>
    r.data.length % 4096 == 0 && 1 ≤ r.blocks &&
    (if r.isGap then
      (match es with
       | [] => true
       | (_, fr) :: _ => blk + r.blocks ≤ fr.base) && matchRegs rs (blk + r.blocks) es
     else
      match es with
      | [] => false
      | (i, fr) :: es' =>
        kindOk r i && fr.base == blk && fr.limit + 1 == blk + r.blocks && matchRegs rs (blk + r.blocks) es')

/-- two gaps never follow each other (the reader reports one gap region) -/
def noAdjacentGaps : List RegI → Bool
  | .gap _ :: .gap _ :: _ => false
  | _ :: rs => noAdjacentGaps rs
  | [] => true

def RegI.isBios : RegI → Bool
  | .bios _ => true
  | _ => false

def wfFlash (f : FlashI) : Bool :=
  let d := treeDesc f.desc
  let total := 4096 + (serRegs f.regions).length
  f.desc.length == 4096 && (findSignature f.desc).isSome &&
    d.regionStart + 64 < 4096 &&
    ((d.region.regions.head?.map (·.valid)).getD false) &&
    total / 4096 < 65536 &&
    f.regions.all wfReg && f.regions.any RegI.isBios && noAdjacentGaps f.regions &&
    matchRegs f.regions 1 (sortEntries (selectEntries d.map.numberOfRegions total d.region.regions 0))

def wf : Img → Bool
  | .flash f => wfFlash f
  -- a bare BIOS region must not look like a flash image (signature at offset 16 or 0)
  | .bios b => wfBios b && (findSignature (serBios b)).isNone

/-- the well-formedness predicate of the reference grammar -/
def WF (i : Img) : Prop := wf i = true

instance (i : Img) : Decidable (WF i) := by unfold WF; infer_instance

end Fiano.Uefi.Spec
