/-
  Property C06 — canonical images.  What a save writes is canonical (`canon_norm`); a canonical
  well-formed image is a fixed point of the normalisation (`norm_fixed`) and can always be rebuilt
  (`ok_of_canon`).
-/
import FianoModel.Uefi.NestedDecLemmas

namespace Fiano.Uefi.Nested
open Fiano Fiano.Uefi Fiano.Uefi.Spec

variable {h : Hooks}

theorem storedAttrs_lt (f : CFile) (hw : wfFile h f = true) : storedAttrs (flatFile f) < 256 := by
  cases f with
  | leaf f =>
    simp only [wfFile, Bool.and_eq_true] at hw
    exact storedAttrs_lt_leaf f hw.1.1.1
  | sect g t a st secs => exact sectAttrs_lt a _ (wfFile_sect hw).ha

/-- files that sit where the placement rule puts them are left where they are: no pad file is added -/
theorem relay_fixed : ∀ (fs : List CFile) (off len : Nat), wfFiles h off len fs = true → relay off fs = fs
  | [], _, _, _ => rfl
  | f :: fs, off, len, hw => by
    obtain ⟨hwf, _, _, hal, hrest⟩ := wfFiles_cons hw
    have hfs := fileStart_fixed off (storedAttrs (flatFile f)) (storedAttrs_lt f hwf) hal
    rw [relay_cons, hfs, if_pos rfl, relay_fixed fs _ len hrest]
    rfl

theorem padsSmall_fixed : ∀ (fs : List CFile) (off len : Nat), wfFiles h off len fs = true →
    okFv.padsSmall off fs = true
  | [], _, _, _ => rfl
  | f :: fs, off, len, hw => by
    obtain ⟨hwf, _, _, hal, hrest⟩ := wfFiles_cons hw
    have hfs := fileStart_fixed off (storedAttrs (flatFile f)) (storedAttrs_lt f hwf) hal
    simp only [okFv.padsSmall, hfs, Nat.sub_self, small, Bool.and_eq_true, decide_eq_true_eq]
    exact ⟨by decide, padsSmall_fixed fs _ len hrest⟩

/-! ### a canonical image is a fixed point -/

mutual
theorem norm_sec : ∀ (s : CSec) (tail : Bytes), wfSec h tail s = true → canonSec h s = true → normSec h s = s
  | .plain _, _, _, _ => rfl
  | .opq .., _, _, _ => rfl
  | .comp ext g doff attrs name payload kids, _, hw, hc => by
    simp only [wfSec, Bool.and_eq_true] at hw
    simp only [canonSec, Bool.and_eq_true, Bool.not_eq_true', beq_iff_eq] at hc
    obtain ⟨⟨⟨he, hd⟩, henc⟩, hk⟩ := hc
    have ih := norm_secs kids 0 hw.1.2 hk
    simp only [normSec, ih, henc, Option.getD_some, he, hd]
  | .fvimg v, _, hw, hc => by
    simp only [wfSec, Bool.and_eq_true] at hw
    simp only [canonSec] at hc
    simp only [normSec, norm_fv v hw.1 hc]
theorem norm_secs : ∀ (ss : List CSec) (u : Nat), wfSecs h u ss = true → canonSecs h ss = true → normSecs h ss = ss
  | [], _, _, _ => rfl
  | s :: ss, u, hw, hc => by
    have ⟨hs, hss⟩ := wfSecs_cons hw
    simp only [canonSecs, Bool.and_eq_true] at hc
    simp only [normSecs, norm_sec s _ hs hc.1, norm_secs ss _ hss hc.2]
theorem norm_file : ∀ (f : CFile), wfFile h f = true → canonFile h f = true → normFile h f = f
  | .leaf _, _, _ => rfl
  | .sect g t a st secs, hw, hc => by
    simp only [canonFile] at hc
    simp only [normFile, norm_secs secs 0 (wfFile_sect hw).hsecs hc]
theorem norm_files : ∀ (fs : List CFile) (off len : Nat), wfFiles h off len fs = true → canonFiles h fs = true →
    normFiles h fs = fs
  | [], _, _, _, _ => rfl
  | f :: fs, off, len, hw, hc => by
    obtain ⟨hwf, _, _, _, hrest⟩ := wfFiles_cons hw
    simp only [canonFiles, Bool.and_eq_true] at hc
    simp only [normFiles, norm_file f hwf hc.1, norm_files fs _ len hrest hc.2]
theorem norm_fv : ∀ (v : CFv), wfFv h v = true → canonFv h v = true → normFv h v = v
  | .other _, _, _ => rfl
  | .ffs zv v3 attrs rev rsv blocks ext files free, hw, hc => by
    have ⟨_, hfiles⟩ := wfFv_ffs hw
    simp only [canonFv] at hc
    have h1 := norm_files files _ _ hfiles hc
    have h2 := relay_fixed files _ _ hfiles
    simp only [normFv, h1, h2, finishLen, Nat.le_add_right, if_true, Nat.add_sub_cancel_left]
end

/-! ### what a save writes is canonical -/

theorem canonFiles_relay : ∀ (fs : List CFile) (off : Nat), canonFiles h (relay off fs) = canonFiles h fs
  | [], _ => rfl
  | f :: fs, off => by
    rw [relay_cons]
    split <;> simp [canonFiles, canonFile, canonFiles_relay fs]

mutual
theorem canon_sec : ∀ (s : CSec), okSec h s = true → canonSec h (normSec h s) = true
  | .plain _, _ => rfl
  | .opq .., _ => rfl
  | .comp ext g doff attrs name payload kids, hok => by
    simp only [okSec, Bool.and_eq_true, decide_eq_true_eq] at hok
    obtain ⟨⟨hk, henc⟩, _⟩ := hok
    cases he : encode? h g (serSecs 0 (flatSecs (normSecs h kids))) with
    | none => rw [he] at henc; simp at henc
    | some p =>
      simp only [normSec, canonSec, he, Option.getD_some, Bool.not_false, beq_self_eq_true, Bool.true_and,
        canon_secs kids hk]
  | .fvimg v, hok => by
    simp only [okSec, Bool.and_eq_true] at hok
    simp only [normSec, canonSec, canon_fv v true hok.1]
theorem canon_secs : ∀ (ss : List CSec), okSecs h ss = true → canonSecs h (normSecs h ss) = true
  | [], _ => rfl
  | s :: ss, hok => by
    simp only [okSecs, Bool.and_eq_true] at hok
    simp only [normSecs, canonSecs, canon_sec s hok.1, canon_secs ss hok.2, Bool.and_self]
theorem canon_file : ∀ (f : CFile), okFile h f = true → canonFile h (normFile h f) = true
  | .leaf _, _ => rfl
  | .sect g t a st secs, hok => by
    simp only [okFile, Bool.and_eq_true] at hok
    simp only [normFile, canonFile, canon_secs secs hok.1]
theorem canon_files : ∀ (fs : List CFile), okFiles h fs = true → canonFiles h (normFiles h fs) = true
  | [], _ => rfl
  | f :: fs, hok => by
    simp only [okFiles, Bool.and_eq_true] at hok
    simp only [normFiles, canonFiles, canon_file f hok.1, canon_files fs hok.2, Bool.and_self]
theorem canon_fv : ∀ (v : CFv) (rz : Bool), okFv h rz v = true → canonFv h (normFv h v) = true
  | .other _, _, _ => rfl
  | .ffs zv v3 attrs rev rsv blocks ext files free, rz, hok => by
    simp only [okFv, Bool.and_eq_true] at hok
    simp only [normFv, canonFv, canonFiles_relay, canon_files files hok.1.1.1]
end

/-! ### a canonical well-formed image can be rebuilt -/

mutual
theorem ok_sec : ∀ (s : CSec) (tail : Bytes), wfSec h tail s = true → canonSec h s = true → okSec h s = true
  | .plain _, _, _, _ => rfl
  | .opq .., _, _, _ => rfl
  | .comp ext g doff attrs name payload kids, _, hw, hc => by
    simp only [wfSec, Bool.and_eq_true, decide_eq_true_eq] at hw
    obtain ⟨⟨⟨⟨hgo, _⟩, _⟩, hkids⟩, hbound⟩ := hw
    have w := guidedOk_spec hgo
    simp only [canonSec, Bool.and_eq_true, Bool.not_eq_true', beq_iff_eq] at hc
    obtain ⟨⟨⟨he, _⟩, henc⟩, hk⟩ := hc
    have hn := norm_secs kids 0 hkids hk
    have hs := w.hsmall
    rw [he] at hs
    simp only [okSec, hn, henc, ok_secs kids 0 hkids hk, small, Bool.true_and, Bool.and_eq_true, decide_eq_true_eq]
    exact ⟨by simp only [secHdrLen, Bool.false_eq_true, if_false] at hs; omega, hbound⟩
  | .fvimg v, _, hw, hc => by
    simp only [wfSec, Bool.and_eq_true] at hw
    simp only [canonSec] at hc
    simp only [okSec, ok_fv v hw.1 hc true, norm_fv v hw.1 hc, hw.2, Bool.and_self]
theorem ok_secs : ∀ (ss : List CSec) (u : Nat), wfSecs h u ss = true → canonSecs h ss = true → okSecs h ss = true
  | [], _, _, _ => rfl
  | s :: ss, u, hw, hc => by
    have ⟨hs, hss⟩ := wfSecs_cons hw
    simp only [canonSecs, Bool.and_eq_true] at hc
    simp only [okSecs, ok_sec s _ hs hc.1, ok_secs ss _ hss hc.2, Bool.and_self]
theorem ok_file : ∀ (f : CFile), wfFile h f = true → canonFile h f = true → okFile h f = true
  | .leaf _, _, _ => rfl
  | .sect g t a st secs, hw, hc => by
    have w := wfFile_sect hw
    simp only [canonFile] at hc
    simp only [okFile, ok_secs secs 0 w.hsecs hc, norm_secs secs 0 w.hsecs hc, small, Bool.true_and,
      decide_eq_true_eq]
    exact w.hsmall
theorem ok_files : ∀ (fs : List CFile) (off len : Nat), wfFiles h off len fs = true → canonFiles h fs = true →
    okFiles h fs = true
  | [], _, _, _, _ => rfl
  | f :: fs, off, len, hw, hc => by
    obtain ⟨hwf, _, _, _, hrest⟩ := wfFiles_cons hw
    simp only [canonFiles, Bool.and_eq_true] at hc
    simp only [okFiles, ok_file f hwf hc.1, ok_files fs _ len hrest hc.2, Bool.and_self]
theorem ok_fv : ∀ (v : CFv), wfFv h v = true → canonFv h v = true → ∀ (rz : Bool), okFv h rz v = true
  | .other _, _, _, _ => rfl
  | .ffs zv v3 attrs rev rsv blocks ext files free, hw, hc, rz => by
    have ⟨w, hfiles⟩ := wfFv_ffs hw
    simp only [canonFv] at hc
    have h1 := norm_files files _ _ hfiles hc
    have h2 := relay_fixed files _ _ hfiles
    have hlt := w.hlenlt
    simp only [okFv, h1, h2, ok_files files _ _ hfiles hc, padsSmall_fixed files _ _ hfiles, Bool.true_and,
      Bool.and_true, Bool.and_eq_true, Bool.or_eq_true, decide_eq_true_eq]
    exact ⟨by omega, Or.inl (by omega)⟩
end

end Fiano.Uefi.Nested
