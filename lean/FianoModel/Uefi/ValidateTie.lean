/-
  T1 tie for the model of visitors.Validate: constants, the file-system GUID table, attribute masks,
  and the inventory of error sites of `Validate.Visit` are compared with the facts regenerated from
  the Go sources on every build (FianoModel/Gen/UefiValidate.lean, UefiValidateV.lean).

  The model follows the code as repaired by fixes/C09-*.diff: `tie_errorSites` (10 sites in the
  volume case, 9 in the file case) and `tie_blockMapEnd` fail on a tree that lacks them.
-/
import FianoModel.Uefi.Validate
import FianoModel.Gen.UefiValidate
import FianoModel.Gen.UefiValidateV

namespace Fiano.Uefi.ValidateTie
open Fiano Fiano.Uefi

def bytesOf (l : List Nat) : Bytes := l.map UInt8.ofNat

/-! ### constants -/
theorem tie_mapMaxBase : mapMaxBase = Gen.UefiValidate.FlashDescriptorMapMaxBase := by decide
theorem tie_fvSizes : fvMinSize = Gen.UefiValidate.FirmwareVolumeMinSize ∧
    fvFixedHeaderSize = Gen.UefiValidate.FirmwareVolumeFixedHeaderSize := by decide
theorem tie_fileHeaderSizes : Gen.UefiValidate.FileHeaderMinLength = 24 ∧
    Gen.UefiValidate.FileHeaderExtMinLength = 32 ∧ Gen.UefiValidate.SectionExtMinLength = 8 := by decide
theorem tie_emptyBodyChecksum : emptyBodyChecksum = Gen.UefiValidate.EmptyBodyChecksum := by decide
theorem tie_fvSignature : fvSignature = fromLE [0x5F, 0x46, 0x56, 0x48] := by decide

/-! ### attribute masks -/
theorem tie_masks : Gen.UefiValidate.masklits_fileAttr_IsLarge = [0x01] ∧
    Gen.UefiValidate.masklits_fileAttr_HasChecksum = [0x40] ∧
    Gen.UefiValidate.masklits_FirmwareVolume_GetErasePolarity = [0x800] := by decide

/-! ### the table of known file systems -/
theorem tie_fvGuidNames : Gen.UefiValidate.FVGUIDs =
    ["AppleBoot", "EVSA", "EVSA2", "FFS1", "FFS2", "FFS3", "NVAR", "PFH1", "PFH2"] := by decide
theorem tie_knownFvGuids : knownFvGuids =
    [bytesOf Gen.UefiValidate.FFS1, bytesOf Gen.UefiValidate.FFS2, bytesOf Gen.UefiValidate.FFS3,
     bytesOf Gen.UefiValidate.EVSA, bytesOf Gen.UefiValidate.NVAR, bytesOf Gen.UefiValidate.EVSA2,
     bytesOf Gen.UefiValidate.AppleBoot, bytesOf Gen.UefiValidate.PFH1, bytesOf Gen.UefiValidate.PFH2] := by decide

/-! ### descriptor map: the three bases validate compares are fields 0, 2, 4 -/
theorem tie_descriptorMap :
    Gen.UefiValidate.layout_FlashDescriptorMap[0]? = some ("ComponentBase", 1) ∧
    Gen.UefiValidate.layout_FlashDescriptorMap[2]? = some ("RegionBase", 1) ∧
    Gen.UefiValidate.layout_FlashDescriptorMap[4]? = some ("MasterBase", 1) ∧
    Gen.UefiValidate.size_FlashDescriptorMap = 16 := by decide

/-! ### error sites of `Validate.Visit`: one `VErr` constructor per `append(v.Errors, …)`
    (MERegion / RawRegion: the `FlashRegion() == nil` site has no counterpart, a region node of the
    model always carries its table entry) -/
theorem tie_errorSites : Gen.UefiValidateV.errsites_Validate_Visit =
    [("*uefi.FlashImage", 1), ("*uefi.FlashDescriptor", 6), ("*uefi.FirmwareVolume", 10), ("*uefi.File", 9),
     ("*uefi.Section", 3), ("*uefi.BIOSRegion", 3), ("*uefi.MERegion", 2), ("*uefi.RawRegion", 2)] := by decide

/-- the literal comparisons of `Visit`: three sums against 0 (volume header, file header, file body)
    and the revision against 2 -/
theorem tie_literals : Gen.UefiValidateV.cmpset_Validate_Visit = [("!=", 0), ("!=", 0), ("!=", 0), ("!=", 2)] := by
  decide
/-- `blockMapEnd` looks for an all-zero entry -/
theorem tie_blockMapEnd : Gen.UefiValidateV.cmpset_blockMapEnd = [("==", 0)] := by decide

end Fiano.Uefi.ValidateTie
