/-
  UEFI core model — the editing visitors of pkg/visitors and the command line that drives them
  (properties C02 and C03):

    find.go          Find.Visit (match-once rule: a file matches itself or through its first matching
                     section; `currentFile` is cleared after one hit and for the descendants of a file
                     that matched itself; files of nested volumes are separate candidates)
    insert.go        Insert.Run / Visit  (front, end, after, before, replace_ffs, dxe; volume- or
                     file-matched), `parseFile` (= uefi.NewFile on the new file's bytes)
    remove.go        Remove.Run / Visit  (remove, remove_pad, PEIM → pad file), as repaired by
                     fixes/C11-remove-visit.diff
    replacepe32.go   ReplacePE32.Run / Visit
    save.go          Save.Visit = Assemble, then one WriteFile
    dump.go          Dump.Visit (read-only, but fails unless exactly one node matches)
    cli.go, utk.go   ParseCLI (every visitor is built *before* the image is read), ExecuteCLI

  Pointer identity.  Go selects nodes by pointer (`f.Files[i] == v.FileMatch`).  A tree value has no
  pointers; the model uses the fact that `Find` decides *locally* whether a file is a match
  (`fileHit`): the file itself satisfies the predicate, or a section reachable from it without
  entering another file does.  `find` below is the literal stateful traversal; `find_length`
  (Uefi/EditLemmas.lean) proves that it reports exactly the `fileHit` files and the `Pred.fv`
  volumes, each once.  The surgery functions locate their target with `fileHit` / `Pred.fv`.

  Regular expressions are not modelled: a selection predicate is an arbitrary `Pred`; the driver
  instantiates it with literal, case-insensitive selectors (`selPred`).

  Not modelled here (T2 + oracles only): repack, create-fv, tighten_me (C12), nvram-compact (C10).
-/
import FianoModel.Uefi.Assemble

namespace Fiano.Uefi
open Fiano

/-- a selection predicate as the CLI builds them: it looks at volumes, files and sections only -/
structure Pred where
  fv   : Fv → Bool := fun _ => false
  file : File → Bool := fun _ => false
  sec  : Section → Bool := fun _ => false

/-- an element of `Find.Matches` -/
inductive Hit where
  | fv (v : Fv)
  | file (f : File)

def Hit.isFv : Hit → Bool
  | .fv _ => true
  | .file _ => false

/-! ### Find.Visit — the literal traversal; `cur` is `Find.currentFile` -/

mutual
def findSection (p : Pred) : Section → Option File → List Hit × Option File
  | .mk i buf encap, cur =>
    let here : List Hit × Option File :=
      match cur with
      | some f => if p.sec (.mk i buf encap) then ([Hit.file f], none) else ([], some f)
      | none => ([], none)
    let r := findNodes p encap here.2
    (here.1 ++ r.1, r.2)
def findNodes (p : Pred) : List Node → Option File → List Hit × Option File
  | [], cur => ([], cur)
  | .sec s :: ns, cur =>
    let a := findSection p s cur
    let b := findNodes p ns a.2
    (a.1 ++ b.1, b.2)
  | .fv v :: ns, cur =>
    let b := findNodes p ns cur
    (findFv p v ++ b.1, b.2)
def findSections (p : Pred) : List Section → Option File → List Hit × Option File
  | [], cur => ([], cur)
  | s :: ss, cur =>
    let a := findSection p s cur
    let b := findSections p ss a.2
    (a.1 ++ b.1, b.2)
/-- the File case: a cloned visitor `v2` carries `currentFile` to the descendants only -/
def findFile (p : Pred) : File → List Hit
  | .mk i buf secs =>
    let self := p.file (.mk i buf secs)
    -- a file with an NVAR store shows the store instead of sections; CLI predicates never match there
    let below : List Hit :=
      if i.nvar.isSome then []
      else (findSections p secs (if self then none else some (.mk i buf secs))).1
    (if self then [Hit.file (.mk i buf secs)] else []) ++ below
def findFiles (p : Pred) : List File → List Hit
  | [] => []
  | f :: fs => findFile p f ++ findFiles p fs
def findFv (p : Pred) : Fv → List Hit
  | .mk i buf files =>
    (if p.fv (.mk i buf files) then [Hit.fv (.mk i buf files)] else []) ++ findFiles p files
end

def findBiosElems (p : Pred) : List BiosElem → List Hit
  | [] => []
  | .pad _ _ :: es => findBiosElems p es
  | .fv v :: es => findFv p v ++ findBiosElems p es

def findRegions (p : Pred) : List Region → List Hit
  | [] => []
  | .bios b :: rs => findBiosElems p b.elems ++ findRegions p rs
  | _ :: rs => findRegions p rs

/-- `Find.Run` on the root -/
def find (p : Pred) : Tree → List Hit
  | .flash f => findRegions p f.regions
  | .bios b => findBiosElems p b.elems

/-! ### the local form of "this file is a match" -/

mutual
/-- this section, or a section below it that is not inside another file, satisfies the predicate -/
def secHit (p : Pred) : Section → Bool
  | .mk i buf encap => p.sec (.mk i buf encap) || nodesHit p encap
def nodesHit (p : Pred) : List Node → Bool
  | [] => false
  | .sec s :: ns => secHit p s || nodesHit p ns
  | .fv _ :: ns => nodesHit p ns
end

def secsHit (p : Pred) : List Section → Bool
  | [] => false
  | s :: ss => secHit p s || secsHit p ss

def fileHit (p : Pred) (f : File) : Bool :=
  p.file f || (f.info.nvar.isNone && secsHit p f.secs)

/-! ### generic top-down rewriting (the shape shared by Insert.Visit, Remove.Visit and
    ReplacePE32.Visit): an editor may *fire* at a volume (replacing its file list) or at a file
    (replacing or dropping it); below a node where it fired nothing else is visited. -/

structure Editor where
  /-- fire at a volume: the new file list -/
  fv   : Fv → Option (Except Err (List File)) := fun _ => none
  /-- fire at a file: its replacement, `none` = the file is dropped from the list -/
  file : File → Option (Except Err (Option File)) := fun _ => none

mutual
def rwSection (E : Editor) : Section → Except Err Section
  | .mk i buf encap =>
    match rwNodes E encap with
    | .error e => .error e
    | .ok encap' => .ok (.mk i buf encap')
def rwNodes (E : Editor) : List Node → Except Err (List Node)
  | [] => .ok []
  | .sec s :: ns =>
    match rwSection E s with
    | .error e => .error e
    | .ok s' =>
      match rwNodes E ns with
      | .error e => .error e
      | .ok ns' => .ok (.sec s' :: ns')
  | .fv v :: ns =>
    match rwFv E v with
    | .error e => .error e
    | .ok v' =>
      match rwNodes E ns with
      | .error e => .error e
      | .ok ns' => .ok (.fv v' :: ns')
def rwSections (E : Editor) : List Section → Except Err (List Section)
  | [] => .ok []
  | s :: ss =>
    match rwSection E s with
    | .error e => .error e
    | .ok s' =>
      match rwSections E ss with
      | .error e => .error e
      | .ok ss' => .ok (s' :: ss')
def rwFile (E : Editor) : File → Except Err (Option File)
  | .mk i buf secs =>
    match E.file (.mk i buf secs) with
    | some r => r
    | none =>
      if i.nvar.isSome then .ok (some (.mk i buf secs))
      else
        match rwSections E secs with
        | .error e => .error e
        | .ok secs' => .ok (some (.mk i buf secs'))
def rwFiles (E : Editor) : List File → Except Err (List File)
  | [] => .ok []
  | f :: fs =>
    match rwFile E f with
    | .error e => .error e
    | .ok r =>
      match rwFiles E fs with
      | .error e => .error e
      | .ok rs =>
        match r with
        | some f' => .ok (f' :: rs)
        | none => .ok rs
def rwFv (E : Editor) : Fv → Except Err Fv
  | .mk i buf files =>
    match E.fv (.mk i buf files) with
    | some (.error e) => .error e
    | some (.ok files') => .ok (.mk i buf files')
    | none =>
      match rwFiles E files with
      | .error e => .error e
      | .ok files' => .ok (.mk i buf files')
end

def rwBiosElems (E : Editor) : List BiosElem → Except Err (List BiosElem)
  | [] => .ok []
  | .pad b o :: es =>
    match rwBiosElems E es with
    | .error e => .error e
    | .ok es' => .ok (.pad b o :: es')
  | .fv v :: es =>
    match rwFv E v with
    | .error e => .error e
    | .ok v' =>
      match rwBiosElems E es with
      | .error e => .error e
      | .ok es' => .ok (.fv v' :: es')

def rwBios (E : Editor) (b : BiosRegion) : Except Err BiosRegion :=
  match rwBiosElems E b.elems with
  | .error e => .error e
  | .ok es => .ok { b with elems := es }

def rwRegions (E : Editor) : List Region → Except Err (List Region)
  | [] => .ok []
  | .bios b :: rs =>
    match rwBios E b with
    | .error e => .error e
    | .ok b' =>
      match rwRegions E rs with
      | .error e => .error e
      | .ok rs' => .ok (.bios b' :: rs')
  | r :: rs =>
    match rwRegions E rs with
    | .error e => .error e
    | .ok rs' => .ok (r :: rs')

def rwTree (E : Editor) : Tree → Except Err Tree
  | .flash f =>
    match rwRegions E f.regions with
    | .error e => .error e
    | .ok rs => .ok (.flash { f with regions := rs })
  | .bios b =>
    match rwBios E b with
    | .error e => .error e
    | .ok b' => .ok (.bios b')

/-! ### pad files as nodes -/

/-- `uefi.CreatePadFile(size)` as a tree node; (Q) the Go constructor leaves `DataOffset` zero -/
def mkPadFile (pol : UInt8) (size : Nat) : Except Err File :=
  if size < 24 then .error .err
  else if pol ≠ 0xFF ∧ pol ≠ 0 then .error .err
  else
    let (attrs, size3, ext) := setSize 0 size false
    let i : FileInfo := { guid := if pol = 0xFF then guidFF else guidZero, ckHeader := 0, ckFile := 0,
                          type := 0xF0, attrs := attrs, size3 := size3,
                          state := (0x07 ^^^ pol).toNat, extSize := ext, dataOffset := 0 }
    let dataLen := if attrs &&& 1 ≠ 0 then size - 32 else size - 24
    let r := checksumAndAssemble i (List.replicate dataLen pol)
    .ok (.mk r.1 r.2 [])

/-! ### Insert -/

inductive Where where
  | front | end_ | after | before | replace | dxe
  deriving DecidableEq, Repr, Inhabited

/-- index of the first file of the list that is a match -/
def hitIndex (p : Pred) : List File → Option Nat
  | [] => none
  | f :: fs => if fileHit p f then some 0 else (hitIndex p fs).map (· + 1)

/-- the list surgery of `Insert.Visit` at matched index `i` -/
def insertAt (w : Where) (nf : File) (files : List File) (i : Nat) : List File :=
  match w with
  | .front => nf :: files
  | .end_ => files ++ [nf]
  | .dxe => files ++ [nf]
  | .after => files.take (i + 1) ++ nf :: files.drop (i + 1)
  | .before => files.take i ++ nf :: files.drop i
  | .replace => files.take i ++ nf :: files.drop (i + 1)

/-- `Insert.Visit`: fires at the volume that holds the matched file -/
def insertFileEditor (p : Pred) (w : Where) (nf : File) : Editor :=
  { fv := fun v => match hitIndex p v.files with
      | some i => some (.ok (insertAt w nf v.files i))
      | none => none }

/-- the volume-matched branch of `Insert.Run` (front and end only) -/
def insertFvEditor (p : Pred) (w : Where) (nf : File) : Editor :=
  { fv := fun v =>
      if p.fv v then
        match w with
        | .front => some (.ok (nf :: v.files))
        | .end_ => some (.ok (v.files ++ [nf]))
        | _ => some (.error .err)
      else none }

/-- `Insert.Run` for a parsed new file -/
def insertOp (p : Pred) (w : Where) (nf : File) (t : Tree) : Except Err Tree :=
  match find p t with
  | [] => .error .err
  | _ :: _ :: _ => .error .err
  | [h] =>
    if h.isFv then rwTree (insertFvEditor p w nf) t
    else rwTree (insertFileEditor p w nf) t

/-- `Insert.Run` when `parseFile` returned the nil `*uefi.File` (a blob that looks like free
    space: nil file, nil error).  The same checks as above; on success Go stores the nil pointer in a
    file list.  `true` = it was stored. -/
def insertNilOp (p : Pred) (w : Where) (t : Tree) : Except Err Unit :=
  match find p t with
  | [] => .error .err
  | _ :: _ :: _ => .error .err
  | [h] => if h.isFv ∧ w ≠ .front ∧ w ≠ .end_ then .error .err else .ok ()

/-! ### Remove -/

def fileTypePEIM : Nat := 0x06
def fileTypeDXECore : Nat := 0x05

/-- `Remove.Visit` (repaired): every matched file of a volume is dropped, or replaced by a pad file
    of the same size when padding is requested or the file is a PEIM; the children of the files
    that stay are visited -/
def removeEditor (p : Pred) (pad : Bool) (pol : UInt8) : Editor :=
  { file := fun f =>
      if fileHit p f then
        if pad ∨ f.info.type = fileTypePEIM then
          match mkPadFile pol f.info.extSize with
          | .error e => some (.error e)
          | .ok pf => some (.ok (some pf))
        else some (.ok none)
      else none }

def removeOp (p : Pred) (pad : Bool) (pol : UInt8) (t : Tree) : Except Err Tree :=
  rwTree (removeEditor p pad pol) t

/-! ### ReplacePE32 -/

def secTypePE32 : Nat := 0x10

mutual
/-- `ReplacePE32.Visit` on a section: every PE32 section reachable without entering a volume gets
    the new body and a regenerated header -/
def pe32Section (body : Bytes) : Section → Except Err Section
  | .mk i buf encap =>
    if i.type = secTypePE32 then
      match genSecHeader i body with
      | .error e => .error e
      | .ok (i', buf') => .ok (.mk i' buf' [])
    else
      match pe32Nodes body encap with
      | .error e => .error e
      | .ok encap' => .ok (.mk i buf encap')
def pe32Nodes (body : Bytes) : List Node → Except Err (List Node)
  | [] => .ok []
  | .sec s :: ns =>
    match pe32Section body s with
    | .error e => .error e
    | .ok s' =>
      match pe32Nodes body ns with
      | .error e => .error e
      | .ok ns' => .ok (.sec s' :: ns')
  | .fv v :: ns =>
    match pe32Nodes body ns with
    | .error e => .error e
    | .ok ns' => .ok (.fv v :: ns')
end

def pe32Sections (body : Bytes) : List Section → Except Err (List Section)
  | [] => .ok []
  | s :: ss =>
    match pe32Section body s with
    | .error e => .error e
    | .ok s' =>
      match pe32Sections body ss with
      | .error e => .error e
      | .ok ss' => .ok (s' :: ss')

def pe32File (body : Bytes) (f : File) : Except Err File :=
  if f.info.nvar.isSome then .ok f
  else
    match pe32Sections body f.secs with
    | .error e => .error e
    | .ok secs' => .ok (.mk f.info f.buf secs')

def pe32Editor (p : Pred) (body : Bytes) : Editor :=
  { file := fun f =>
      if fileHit p f then
        match pe32File body f with
        | .error e => some (.error e)
        | .ok f' => some (.ok (some f'))
      else none }

def startsMZ : Bytes → Bool
  | 0x4D :: 0x5A :: _ => true
  | _ => false

/-- `ReplacePE32.Run`: the matches come from FindFilePredicate, so they are files -/
def replacePe32Op (p : Pred) (body : Bytes) (t : Tree) : Except Err Tree :=
  if ¬ startsMZ body then .error .err
  else
    match find p t with
    | [_] => rwTree (pe32Editor p body) t
    | _ => .error .err

/-! ### the command line -/

/-- the read-only commands: only `dump` can fail (it wants exactly one match) -/
inductive ReadOnly where
  | find (p : Pred) | cat (p : Pred) | dump (p : Pred)
  | json | table | count | validate | comment

inductive Op where
  | insert (p : Pred) (w : Where) (nf : Option File)
  | remove (p : Pred) (pad : Bool)
  | replacePe32 (p : Pred) (body : Bytes)
  | save
  | ro (r : ReadOnly)

/-- what the user typed: new files are still byte blobs -/
inductive OpSpec where
  | insertFile (p : Pred) (w : Where) (blob : Bytes)
  | insertPad (p : Pred) (w : Where) (size : Nat)
  | remove (p : Pred) (pad : Bool)
  | replacePe32 (p : Pred) (body : Bytes)
  | save
  | ro (r : ReadOnly)

/-- one `createVisitor` call of `ParseCLI`.  (Q) `insert pad_file` calls `CreatePadFile` *now*, with
    the erase polarity of the moment — still unset in a fresh process unless an earlier new file
    carried a volume.  (Q) `insert_dxe` formats its "unable to parse file" error with `args[1]`
    although it takes one argument: an unparsable file makes it fault instead of returning the error. -/
def cliOne (h : Hooks) (st : St) : OpSpec → Except Err (Op × St)
  | .insertFile p w blob =>
    match parseFile h (defaultFuel blob) blob st with
    | .error e => .error (if w = .dxe then .panic else e)
    | .ok (nf, st') => .ok (.insert p w nf, st')
  | .insertPad p w size =>
    match mkPadFile st.pol size with
    | .error e => .error e
    | .ok pf => .ok (.insert p w (some pf), st)
  | .remove p pad => .ok (.remove p pad, st)
  | .replacePe32 p body => .ok (.replacePe32 p body, st)
  | .save => .ok (.save, st)
  | .ro r => .ok (.ro r, st)

/-- `visitors.ParseCLI` -/
def cliParse (h : Hooks) : List OpSpec → St → Except Err (List Op × St)
  | [], st => .ok ([], st)
  | s :: ss, st =>
    match cliOne h st s with
    | .error e => .error e
    | .ok (op, st') =>
      match cliParse h ss st' with
      | .error e => .error e
      | .ok (ops, st'') => .ok (op :: ops, st'')

/-- the state of one `utk` run: the tree, the process-wide state, the files written so far, and
    whether a nil `*uefi.File` sits in some file list (see `insertNilOp`) -/
structure Run where
  tree : Tree
  st   : St
  outs : List Bytes := []
  nilFile : Bool := false

def roStep (r : ReadOnly) (t : Tree) : Except Err Unit :=
  match r with
  | .dump p =>
    match find p t with
    | [_] => .ok ()
    | _ => .error .err
  | _ => .ok ()

/-- (Q) with a nil file in the tree every visitor that walks the tree dereferences it — Find (so
    insert, remove, replace_pe32 after its MZ check, find, cat, dump), Count, Table, Validate,
    Assemble (so save).  `json` prints `null` and `comment` does not look.  The model does not track
    *where* the nil pointer sits: a walk that fails with an ordinary error before it gets there (a
    volume in front of it that is out of space) is reported as the same fault; the harness compares
    the two outcomes as one class. -/
def stepNil (op : Op) (s : Run) : Except Err Run :=
  match op with
  | .replacePe32 _ body => if ¬ startsMZ body then .error .err else .error .panic
  | .ro .json => .ok s
  | .ro .comment => .ok s
  | _ => .error .panic

/-- `v.Run(f)` for one visitor -/
def step (h : Hooks) (op : Op) (s : Run) : Except Err Run :=
  if s.nilFile then stepNil op s else
  match op with
  | .insert p w none =>
    match insertNilOp p w s.tree with
    | .error e => .error e
    | .ok _ => .ok { s with nilFile := true }
  | .insert p w (some nf) =>
    match insertOp p w nf s.tree with
    | .error e => .error e
    | .ok t => .ok { s with tree := t }
  | .remove p pad =>
    match removeOp p pad s.st.pol s.tree with
    | .error e => .error e
    | .ok t => .ok { s with tree := t }
  | .replacePe32 p body =>
    match replacePe32Op p body s.tree with
    | .error e => .error e
    | .ok t => .ok { s with tree := t }
  | .save =>
    -- Save.Visit: a fresh Assemble visitor; the file is written only after assembly succeeded
    match asmTreeWith h s.tree { s.st with ffs3 := false } with
    | .error e => .error e
    | .ok (t, st) => .ok { s with tree := t, st := st, outs := s.outs ++ [t.buf] }
  | .ro r =>
    match roStep r s.tree with
    | .error e => .error e
    | .ok _ => .ok s

/-- `visitors.ExecuteCLI`: stops at the first error -/
def run (h : Hooks) : List Op → Run → Except Err Run
  | [], s => .ok s
  | op :: ops, s =>
    match step h op s with
    | .error e => .error e
    | .ok s' => run h ops s'

/-- `utk.Run(image, args…)` in a fresh process: visitors first, then the image, then the visitors
    in order.  The result carries the images written by the `save` commands. -/
def utk (h : Hooks) (image : Bytes) (specs : List OpSpec) : Except Err Run :=
  match cliParse h specs {} with
  | .error e => .error e
  | .ok (ops, st) =>
    match parseWith h (defaultFuel image) image st with
    | .error e => .error e
    | .ok (t, st') => run h ops { tree := t, st := st' }

end Fiano.Uefi
