/-
  Text form of the reference grammar (`Spec.Img`) used on the wire between the Go harness and the
  model drivers: the harness sends the *recipe* of a generated image, both sides build the bytes
  (Go: harness/props/uefi/image.go, Lean: `Spec.ser`) and compare digests.

    IMG   := (flash BYTES REG*) | (bios ITEM* (tail BYTES))
    REG   := (rb ITEM* (tail BYTES)) | (me BYTES) | (raw N BYTES) | (gap BYTES)
    ITEM  := (it BYTES FV)
    FV    := (fv ZV V3 ATTRS REV RSV BLOCKS EXT (files FILE*) FREE)
           | (fvo ZV GUID ATTRS REV RSV BLOCKS BODY)
    BLOCKS:= count:size,count:size,… | -
    EXT   := - | (ext GAP NAME DATA)
    FILE  := (fl GUID CKH CKF TYPE ATTRS STATE EXT01 BODY) | (fs GUID TYPE ATTRS STATE SEC*)
    SEC   := (sl TYPE EXT01 BODY) | (sg EXT01 GUID DATAOFFSET ATTRS BODY) | (su CPS) | (sv BUILD CPS)
           | (sd TYPE OPS) | (sf FV)
    BYTES := run.run.… | -      run := hex digits | hh*COUNT     (run-length form)
    CPS   := cp.cp.… | -        (decimal code points)
    OPS   := op,op:guidhex,… | -

  Tokens are separated by blanks and parentheses.  Core Lean only.
-/
import FianoModel.Uefi.Spec

namespace Fiano.Uefi.Recipe
open Fiano Fiano.Uefi Fiano.Uefi.Spec

inductive Tok where
  | lp | rp | atom (s : String)
  deriving Repr, Inhabited, BEq

def tokenize (s : String) : List Tok :=
  let flush (cur : List Char) (acc : List Tok) : List Tok :=
    if cur.isEmpty then acc else .atom (String.ofList cur.reverse) :: acc
  let (cur, acc) := s.toList.foldl (fun (st : List Char × List Tok) c =>
    let (cur, acc) := st
    if c = '(' then ([], .lp :: flush cur acc)
    else if c = ')' then ([], .rp :: flush cur acc)
    else if c = ' ' ∨ c = '\n' ∨ c = '\r' ∨ c = '\t' then ([], flush cur acc)
    else (c :: cur, acc)) ([], [])
  (flush cur acc).reverse

def hexVal (c : Char) : Option Nat :=
  if '0' ≤ c ∧ c ≤ '9' then some (c.toNat - 48)
  else if 'a' ≤ c ∧ c ≤ 'f' then some (c.toNat - 87)
  else none

def hexChars : List Char → Bytes → Option Bytes
  | [], acc => some acc.reverse
  | [_], _ => none
  | a :: b :: rest, acc =>
    match hexVal a, hexVal b with
    | some x, some y => hexChars rest (UInt8.ofNat (16 * x + y) :: acc)
    | _, _ => none

def parseRun (s : String) : Option Bytes :=
  match s.splitOn "*" with
  | [h] => hexChars h.toList []
  | [h, n] =>
    match hexChars h.toList [], n.toNat? with
    | some [b], some k => some (List.replicate k b)
    | _, _ => none
  | _ => none

def parseBytes (s : String) : Option Bytes :=
  if s = "-" then some [] else
  (s.splitOn ".").foldl (fun acc r => match acc, parseRun r with
    | some a, some b => some (a ++ b)
    | _, _ => none) (some [])

def parseCps (s : String) : Option (List Nat) :=
  if s = "-" then some [] else (s.splitOn ".").mapM (·.toNat?)

def parseOps (s : String) : Option (List DepOp) :=
  if s = "-" then some [] else
  (s.splitOn ",").mapM (fun o => match o.splitOn ":" with
    | [op] => op.toNat?.map (fun n => ⟨n, none⟩)
    | [op, g] => do
      let n ← op.toNat?
      let b ← parseBytes g
      pure ⟨n, some b⟩
    | _ => none)

def parseBlocks (s : String) : Option (List Block) :=
  if s = "-" then some [] else
  (s.splitOn ",").mapM (fun o => match o.splitOn ":" with
    | [c, z] => do pure ⟨← c.toNat?, ← z.toNat?⟩
    | _ => none)

abbrev P (α : Type) := List Tok → Option (α × List Tok)

def pNat : P Nat
  | .atom s :: r => s.toNat?.map (·, r)
  | _ => none
def pBytes : P Bytes
  | .atom s :: r => (parseBytes s).map (·, r)
  | _ => none
def pBool : P Bool
  | .atom "0" :: r => some (false, r)
  | .atom "1" :: r => some (true, r)
  | _ => none

mutual
  partial def pSec : P SecI
    | .lp :: .atom "sl" :: r => do
      let (t, r) ← pNat r; let (e, r) ← pBool r; let (b, r) ← pBytes r
      match r with | .rp :: r => some (.leaf t e b, r) | _ => none
    | .lp :: .atom "sg" :: r => do
      let (e, r) ← pBool r; let (g, r) ← pBytes r; let (d, r) ← pNat r; let (a, r) ← pNat r
      let (b, r) ← pBytes r
      match r with | .rp :: r => some (.guided e g d a b, r) | _ => none
    | .lp :: .atom "su" :: .atom n :: .rp :: r => (parseCps n).map (fun c => (.ui c, r))
    | .lp :: .atom "sv" :: .atom b :: .atom n :: .rp :: r => do
      let bn ← b.toNat?; let c ← parseCps n
      some (.version bn c, r)
    | .lp :: .atom "sd" :: .atom t :: .atom o :: .rp :: r => do
      let tn ← t.toNat?; let ops ← parseOps o
      some (.depex tn ops, r)
    | .lp :: .atom "sf" :: r => do
      let (v, r) ← pFv r
      match r with | .rp :: r => some (.fvimg v, r) | _ => none
    | _ => none
  partial def pSecs : P (List SecI)
    | .rp :: r => some ([], .rp :: r)
    | r => do
      let (s, r) ← pSec r
      let (ss, r) ← pSecs r
      some (s :: ss, r)
  partial def pFile : P FileI
    | .lp :: .atom "fl" :: r => do
      let (g, r) ← pBytes r; let (ckh, r) ← pNat r; let (ckf, r) ← pNat r; let (t, r) ← pNat r
      let (a, r) ← pNat r; let (s, r) ← pNat r; let (e, r) ← pBool r; let (b, r) ← pBytes r
      match r with | .rp :: r => some (.leaf g ckh ckf t a s e b, r) | _ => none
    | .lp :: .atom "fs" :: r => do
      let (g, r) ← pBytes r; let (t, r) ← pNat r; let (a, r) ← pNat r; let (s, r) ← pNat r
      let (ss, r) ← pSecs r
      match r with | .rp :: r => some (.sect g t a s ss, r) | _ => none
    | _ => none
  partial def pFiles : P (List FileI)
    | .rp :: r => some ([], .rp :: r)
    | r => do
      let (f, r) ← pFile r
      let (fs, r) ← pFiles r
      some (f :: fs, r)
  partial def pFv : P FvI
    | .lp :: .atom "fv" :: r => do
      let (zv, r) ← pBytes r; let (v3, r) ← pBool r; let (a, r) ← pNat r; let (rev, r) ← pNat r
      let (rsv, r) ← pNat r
      let (bl, r) ← (match r with | .atom s :: r => (parseBlocks s).map (·, r) | _ => none)
      let (ext, r) ← (match r with
        | .atom "-" :: r => some (none, r)
        | .lp :: .atom "ext" :: r => do
          let (g, r) ← pBytes r; let (n, r) ← pBytes r; let (d, r) ← pBytes r
          match r with | .rp :: r => some (some (⟨g, n, d⟩ : ExtI), r) | _ => none
        | _ => none)
      let (fs, r) ← (match r with
        | .lp :: .atom "files" :: r => do
          let (fs, r) ← pFiles r
          match r with | .rp :: r => some (fs, r) | _ => none
        | _ => none)
      let (free, r) ← pNat r
      match r with | .rp :: r => some (.ffs zv v3 a rev rsv bl ext fs free, r) | _ => none
    | .lp :: .atom "fvo" :: r => do
      let (zv, r) ← pBytes r; let (g, r) ← pBytes r; let (a, r) ← pNat r; let (rev, r) ← pNat r
      let (rsv, r) ← pNat r
      let (bl, r) ← (match r with | .atom s :: r => (parseBlocks s).map (·, r) | _ => none)
      let (b, r) ← pBytes r
      match r with | .rp :: r => some (.other zv g a rev rsv bl b, r) | _ => none
    | _ => none
end

partial def pItems : P (List (Bytes × FvI))
  | .lp :: .atom "it" :: r => do
    let (p, r) ← pBytes r
    let (v, r) ← pFv r
    match r with
    | .rp :: r => do
      let (is, r) ← pItems r
      some ((p, v) :: is, r)
    | _ => none
  | r => some ([], r)

def pBios : P BiosI := fun r => do
  let (is, r) ← pItems r
  match r with
  | .lp :: .atom "tail" :: r => do
    let (t, r) ← pBytes r
    match r with | .rp :: r => some (⟨is, t⟩, r) | _ => none
  | _ => none

partial def pRegs : P (List RegI)
  | .lp :: .atom "rb" :: r => do
    let (b, r) ← pBios r
    match r with
    | .rp :: r => do let (rs, r) ← pRegs r; some (.bios b :: rs, r)
    | _ => none
  | .lp :: .atom "me" :: r => do
    let (d, r) ← pBytes r
    match r with
    | .rp :: r => do let (rs, r) ← pRegs r; some (.me d :: rs, r)
    | _ => none
  | .lp :: .atom "raw" :: r => do
    let (i, r) ← pNat r
    let (d, r) ← pBytes r
    match r with
    | .rp :: r => do let (rs, r) ← pRegs r; some (.raw i d :: rs, r)
    | _ => none
  | .lp :: .atom "gap" :: r => do
    let (d, r) ← pBytes r
    match r with
    | .rp :: r => do let (rs, r) ← pRegs r; some (.gap d :: rs, r)
    | _ => none
  | r => some ([], r)

def pImg : P Img
  | .lp :: .atom "flash" :: r => do
    let (d, r) ← pBytes r
    let (rs, r) ← pRegs r
    match r with | .rp :: r => some (.flash ⟨d, rs⟩, r) | _ => none
  | .lp :: .atom "bios" :: r => do
    let (b, r) ← pBios r
    match r with | .rp :: r => some (.bios b, r) | _ => none
  | _ => none

/-- parse a complete recipe -/
def parseImg (s : String) : Option Img :=
  match pImg (tokenize s) with
  | some (i, []) => some i
  | _ => none

def parseFvRecipe (s : String) : Option FvI :=
  match pFv (tokenize s) with
  | some (v, []) => some v
  | _ => none

end Fiano.Uefi.Recipe
