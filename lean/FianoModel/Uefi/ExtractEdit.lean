/-
  Lemmas for property C07: editing summary.json and then loading the directory is loading the
  directory and then editing the tree; and `edit` preserves what the round trip needs of a tree.
-/
import FianoModel.Uefi.ExtractAsm

namespace Fiano.Uefi
open Fiano

theorem Edit.sec_type (e : Edit) (i : SecInfo) : (e.sec i).type = i.type := by
  unfold Edit.sec; repeat' split
  all_goals rfl

theorem Edit.sec_ts (e : Edit) (i : SecInfo) : (e.sec i).ts = i.ts := by
  unfold Edit.sec; repeat' split
  all_goals rfl

theorem Edit.sec_sum (e : Edit) (i : SecInfo) : e.sec (sumSecInfo i) = sumSecInfo (e.sec i) := by
  unfold Edit.sec sumSecInfo
  simp only
  repeat' split
  all_goals rfl

theorem Edit.keepsBuf (e : Edit) (i : SecInfo) : keepsBuf (e.sec i) = keepsBuf i := by
  unfold Fiano.Uefi.keepsBuf
  rw [Edit.sec_type, Edit.sec_ts]

/-- the garbage `ThreeUint8.UnmarshalJSON` produces is a function of the (edited) JSON text -/
def Edit.junk (e : Edit) (junk : FileInfo → Nat) : FileInfo → Nat := fun i => junk (e.file i)

/-! ### loading an edited summary -/

def mapOk {α : Type} (f : α → α) : Except Err α → Except Err α
  | .error x => .error x
  | .ok a => .ok (f a)

@[simp] theorem mapOk_ok {α : Type} (f : α → α) (a : α) : mapOk f (.ok a) = .ok (f a) := rfl
@[simp] theorem mapOk_error {α : Type} (f : α → α) (x : Err) : mapOk f (.error x : Except Err α) = .error x := rfl

mutual
theorem pdSection_edit (d : Dir) (junk : FileInfo → Nat) (e : Edit) : ∀ s : Section,
    pdSection d junk (edSection e s) = mapOk (edSection e) (pdSection d (e.junk junk) s)
  | .mk i path encap => by
    simp only [edSection, pdSection]
    cases readBuf d path with
    | error x => rfl
    | ok buf =>
      simp only [pdNodes_edit d junk e encap]
      cases pdNodes d (e.junk junk) encap <;> simp [edSection]
theorem pdNodes_edit (d : Dir) (junk : FileInfo → Nat) (e : Edit) : ∀ n : List Node,
    pdNodes d junk (edNodes e n) = mapOk (edNodes e) (pdNodes d (e.junk junk) n)
  | [] => by simp [edNodes, pdNodes]
  | .sec s :: t => by
    simp only [edNodes, pdNodes, pdSection_edit d junk e s, pdNodes_edit d junk e t]
    cases pdSection d (e.junk junk) s <;> simp
    cases pdNodes d (e.junk junk) t <;> simp [edNodes]
  | .fv v :: t => by
    simp only [edNodes, pdNodes, pdFv_edit d junk e v, pdNodes_edit d junk e t]
    cases pdFv d (e.junk junk) v <;> simp
    cases pdNodes d (e.junk junk) t <;> simp [edNodes]
theorem pdSections_edit (d : Dir) (junk : FileInfo → Nat) (e : Edit) : ∀ n : List Section,
    pdSections d junk (edSections e n) = mapOk (edSections e) (pdSections d (e.junk junk) n)
  | [] => by simp [edSections, pdSections]
  | s :: t => by
    simp only [edSections, pdSections, pdSection_edit d junk e s, pdSections_edit d junk e t]
    cases pdSection d (e.junk junk) s <;> simp
    cases pdSections d (e.junk junk) t <;> simp [edSections]
theorem pdFile_edit (d : Dir) (junk : FileInfo → Nat) (e : Edit) : ∀ f : File,
    pdFile d junk (edFile e f) = mapOk (edFile e) (pdFile d (e.junk junk) f)
  | .mk i path secs => by
    simp only [edFile, pdFile]
    cases readBuf d path with
    | error x => rfl
    | ok buf =>
      have hnv : (e.file i).nvar = i.nvar := rfl
      simp only [hnv]
      cases i.nvar with
      | some nv => simp [edFile, loadFileInfo, Edit.file, Edit.junk]
      | none =>
        simp only [pdSections_edit d junk e secs]
        cases pdSections d (e.junk junk) secs <;> simp [edFile, loadFileInfo, Edit.file, Edit.junk]
theorem pdFiles_edit (d : Dir) (junk : FileInfo → Nat) (e : Edit) : ∀ n : List File,
    pdFiles d junk (edFiles e n) = mapOk (edFiles e) (pdFiles d (e.junk junk) n)
  | [] => by simp [edFiles, pdFiles]
  | s :: t => by
    simp only [edFiles, pdFiles, pdFile_edit d junk e s, pdFiles_edit d junk e t]
    cases pdFile d (e.junk junk) s <;> simp
    cases pdFiles d (e.junk junk) t <;> simp [edFiles]
theorem pdFv_edit (d : Dir) (junk : FileInfo → Nat) (e : Edit) : ∀ v : Fv,
    pdFv d junk (edFv e v) = mapOk (edFv e) (pdFv d (e.junk junk) v)
  | .mk i path files => by
    simp only [edFv, pdFv]
    cases readBuf d path with
    | error x => rfl
    | ok buf =>
      simp only [pdFiles_edit d junk e files]
      cases pdFiles d (e.junk junk) files <;> simp [edFv]
end

theorem pdBiosElems_edit (d : Dir) (junk : FileInfo → Nat) (e : Edit) : ∀ es : List BiosElem,
    pdBiosElems d junk (edBiosElems e es) = mapOk (edBiosElems e) (pdBiosElems d (e.junk junk) es)
  | [] => by simp [edBiosElems, pdBiosElems]
  | .pad path o :: t => by
    simp only [edBiosElems, pdBiosElems, pdBiosElems_edit d junk e t]
    cases readBuf d path <;> simp
    cases pdBiosElems d (e.junk junk) t <;> simp [edBiosElems]
  | .fv v :: t => by
    simp only [edBiosElems, pdBiosElems, pdFv_edit d junk e v, pdBiosElems_edit d junk e t]
    cases pdFv d (e.junk junk) v <;> simp
    cases pdBiosElems d (e.junk junk) t <;> simp [edBiosElems]

theorem pdRegions_edit (d : Dir) (junk : FileInfo → Nat) (e : Edit) : ∀ rs : List Region,
    pdRegions d junk (edRegions e rs) = mapOk (edRegions e) (pdRegions d (e.junk junk) rs)
  | [] => by simp [edRegions, pdRegions]
  | .bios b :: t => by
    simp only [edRegions, pdRegions, pdBios, pdBiosElems_edit d junk e b.elems, pdRegions_edit d junk e t]
    cases readBuf d b.buf <;> simp
    cases pdBiosElems d (e.junk junk) b.elems <;> simp
    cases pdRegions d (e.junk junk) t <;> simp [edRegions]
  | .me path f :: t => by
    simp only [edRegions, pdRegions, pdRegions_edit d junk e t]
    cases readBuf d path <;> simp
    cases pdRegions d (e.junk junk) t <;> simp [edRegions]
  | .raw path f y :: t => by
    simp only [edRegions, pdRegions, pdRegions_edit d junk e t]
    cases readBuf d path <;> simp
    cases pdRegions d (e.junk junk) t <;> simp [edRegions]

/-- loading an edited summary = loading the summary, then editing the tree (the garbage in
    `File.Header.Size` being the one of the edited text) -/
theorem parseDir_edit (d : Dir) (junk : FileInfo → Nat) (e : Edit) (s : Tree) :
    parseDir d junk (edit e s) = mapOk (edit e) (parseDir d (e.junk junk) s) := by
  cases s with
  | flash f =>
    simp only [edit, parseDir, pdRegions_edit d junk e f.regions]
    cases readBuf d f.buf <;> simp
    cases readBuf d f.ifd.buf <;> simp
    cases pdRegions d (e.junk junk) f.regions <;> simp [edit]
  | bios b =>
    simp only [edit, parseDir, pdBios, pdBiosElems_edit d junk e b.elems]
    cases readBuf d b.buf <;> simp
    cases pdBiosElems d (e.junk junk) b.elems <;> simp [edit]

/-! ### `strip` and `edit` commute -/

theorem edNodes_nil_iff (e : Edit) (n : List Node) : edNodes e n = [] ↔ n = [] := by
  cases n with
  | nil => simp [edNodes]
  | cons a t => cases a <;> simp [edNodes]

mutual
theorem stSection_edit (junk : FileInfo → Nat) (e : Edit) : ∀ s : Section,
    stSection junk (edSection e s) = edSection e (stSection (e.junk junk) s)
  | .mk i buf [] => by simp [edSection, edNodes, stSection, Edit.sec_sum]
  | .mk i buf (a :: t) => by
    have ih := stNodes_edit junk e (a :: t)
    cases a <;> simp only [edSection, edNodes, stSection, Edit.sec_sum, Section.mk.injEq, true_and] <;>
      simpa [edNodes] using ih
theorem stNodes_edit (junk : FileInfo → Nat) (e : Edit) : ∀ n : List Node,
    stNodes junk (edNodes e n) = edNodes e (stNodes (e.junk junk) n)
  | [] => by simp [edNodes, stNodes]
  | .sec s :: t => by simp [edNodes, stNodes, stSection_edit junk e s, stNodes_edit junk e t]
  | .fv v :: t => by simp [edNodes, stNodes, stFv_edit junk e v, stNodes_edit junk e t]
theorem stSections_edit (junk : FileInfo → Nat) (e : Edit) : ∀ n : List Section,
    stSections junk (edSections e n) = edSections e (stSections (e.junk junk) n)
  | [] => by simp [edSections, stSections]
  | s :: t => by simp [edSections, stSections, stSection_edit junk e s, stSections_edit junk e t]
theorem stFile_edit (junk : FileInfo → Nat) (e : Edit) : ∀ f : File,
    stFile junk (edFile e f) = edFile e (stFile (e.junk junk) f)
  | .mk i buf secs => by
    cases hn : i.nvar with
    | some nv =>
      have hnv : (e.file i).nvar = some nv := hn
      simp [edFile, stFile, hn, hnv, loadFileInfo, sumFileInfo, Edit.file, Edit.junk]
    | none =>
      have hnv : (e.file i).nvar = none := hn
      cases secs with
      | nil => simp [edFile, edSections, stFile, hn, hnv, loadFileInfo, sumFileInfo, Edit.file, Edit.junk]
      | cons a t =>
        have ih := stSections_edit junk e (a :: t)
        simp only [edSections] at ih
        simp [edFile, edSections, stFile, hn, hnv, loadFileInfo, sumFileInfo, Edit.file, Edit.junk, ih]
theorem stFiles_edit (junk : FileInfo → Nat) (e : Edit) : ∀ n : List File,
    stFiles junk (edFiles e n) = edFiles e (stFiles (e.junk junk) n)
  | [] => by simp [edFiles, stFiles]
  | s :: t => by simp [edFiles, stFiles, stFile_edit junk e s, stFiles_edit junk e t]
theorem stFv_edit (junk : FileInfo → Nat) (e : Edit) : ∀ v : Fv,
    stFv junk (edFv e v) = edFv e (stFv (e.junk junk) v)
  | .mk i buf [] => by simp [edFv, edFiles, stFv]
  | .mk i buf (a :: t) => by
    have ih := stFiles_edit junk e (a :: t)
    simp only [edFiles] at ih
    simp [edFv, edFiles, stFv, ih]
end

theorem stBiosElems_edit (junk : FileInfo → Nat) (e : Edit) : ∀ es : List BiosElem,
    stBiosElems junk (edBiosElems e es) = edBiosElems e (stBiosElems (e.junk junk) es)
  | [] => by simp [edBiosElems, stBiosElems]
  | .pad b o :: t => by simp [edBiosElems, stBiosElems, stBiosElems_edit junk e t]
  | .fv v :: t => by simp [edBiosElems, stBiosElems, stFv_edit junk e v, stBiosElems_edit junk e t]

theorem stBios_edit (junk : FileInfo → Nat) (e : Edit) (b : BiosRegion) :
    stBios junk { b with elems := edBiosElems e b.elems } =
      { stBios (e.junk junk) b with elems := edBiosElems e (stBios (e.junk junk) b).elems } := by
  obtain ⟨elems, buf, length, fr⟩ := b
  cases elems with
  | nil => simp [stBios, edBiosElems]
  | cons a t =>
    have ih := stBiosElems_edit junk e (a :: t)
    cases a <;> simp only [edBiosElems] at ih <;> simp [stBios, edBiosElems, ih]

theorem stRegions_edit (junk : FileInfo → Nat) (e : Edit) : ∀ rs : List Region,
    stRegions junk (edRegions e rs) = edRegions e (stRegions (e.junk junk) rs)
  | [] => by simp [edRegions, stRegions]
  | .bios b :: t => by simp [edRegions, stRegions, stBios_edit junk e b, stRegions_edit junk e t]
  | .me b f :: t => by simp [edRegions, stRegions, stRegions_edit junk e t]
  | .raw b f y :: t => by simp [edRegions, stRegions, stRegions_edit junk e t]

/-- editing what `ParseDir` built from the extraction = what it would build from the extraction of
    the edited tree -/
theorem strip_edit (junk : FileInfo → Nat) (e : Edit) (t : Tree) :
    strip junk (edit e t) = edit e (strip (e.junk junk) t) := by
  cases t with
  | flash f => simp [edit, strip, stRegions_edit junk e f.regions]
  | bios b => simp [edit, strip, stBios_edit junk e b]

/-! ### `edit` keeps what the round trip needs -/

/-- an edit that keeps GUIDs 16 bytes long -/
def Edit.Guid16 (e : Edit) : Prop := ∀ g : Guid, g.length = 16 → (e.guid g).length = 16

mutual
theorem okSection_edit (e : Edit) (he : e.Guid16) : ∀ s : Section, okSection s = true → okSection (edSection e s) = true
  | .mk i b n, h => by
    simp only [okSection, Bool.and_eq_true] at h
    have hn : (edNodes e n).isEmpty = n.isEmpty := by
      cases n with
      | nil => simp [edNodes]
      | cons a t => cases a <;> simp [edNodes]
    simp only [edSection, okSection, Bool.and_eq_true, okNodes_edit e he n h.1, Edit.keepsBuf, hn, true_and]
    exact h.2
theorem okNodes_edit (e : Edit) (he : e.Guid16) : ∀ n : List Node, okNodes n = true → okNodes (edNodes e n) = true
  | [], _ => by simp [edNodes, okNodes]
  | .sec s :: t, h => by
    simp only [okNodes, Bool.and_eq_true] at h
    simp [edNodes, okNodes, okSection_edit e he s h.1, okNodes_edit e he t h.2]
  | .fv v :: t, h => by
    simp only [okNodes, Bool.and_eq_true] at h
    simp [edNodes, okNodes, okFv_edit e he v h.1, okNodes_edit e he t h.2]
theorem okSections_edit (e : Edit) (he : e.Guid16) : ∀ n : List Section, okSections n = true →
    okSections (edSections e n) = true
  | [], _ => by simp [edSections, okSections]
  | s :: t, h => by
    simp only [okSections, Bool.and_eq_true] at h
    simp [edSections, okSections, okSection_edit e he s h.1, okSections_edit e he t h.2]
theorem okFile_edit (e : Edit) (he : e.Guid16) : ∀ f : File, okFile f = true → okFile (edFile e f) = true
  | .mk i b s, h => by
    simp only [okFile, Bool.and_eq_true, Option.isNone_iff_eq_none, beq_iff_eq] at h
    have hnv : (e.file i).nvar = none := h.1.1
    have hg : (e.file i).guid.length = 16 := he _ h.1.2
    simp [edFile, okFile, hnv, hg, okSections_edit e he s h.2]
theorem okFiles_edit (e : Edit) (he : e.Guid16) : ∀ n : List File, okFiles n = true → okFiles (edFiles e n) = true
  | [], _ => by simp [edFiles, okFiles]
  | s :: t, h => by
    simp only [okFiles, Bool.and_eq_true] at h
    simp [edFiles, okFiles, okFile_edit e he s h.1, okFiles_edit e he t h.2]
theorem okFv_edit (e : Edit) (he : e.Guid16) : ∀ v : Fv, okFv v = true → okFv (edFv e v) = true
  | .mk i b f, h => by
    simp only [okFv, Bool.and_eq_true] at h
    have hn : (edFiles e f).isEmpty = f.isEmpty := by cases f <;> simp [edFiles]
    simp only [edFv, okFv, Bool.and_eq_true, okFiles_edit e he f h.1, hn, true_and]
    exact h.2
end

theorem okBiosElems_edit (e : Edit) (he : e.Guid16) : ∀ es : List BiosElem, okBiosElems es = true →
    okBiosElems (edBiosElems e es) = true
  | [], _ => by simp [edBiosElems, okBiosElems]
  | .pad _ _ :: t, h => by
    simp only [okBiosElems] at h
    simp [edBiosElems, okBiosElems, okBiosElems_edit e he t h]
  | .fv v :: t, h => by
    simp only [okBiosElems, Bool.and_eq_true] at h
    simp [edBiosElems, okBiosElems, okFv_edit e he v h.1, okBiosElems_edit e he t h.2]

theorem okRegions_edit (e : Edit) (he : e.Guid16) : ∀ rs : List Region, okRegions rs = true →
    okRegions (edRegions e rs) = true
  | [], _ => by simp [edRegions, okRegions]
  | .bios b :: t, h => by
    simp only [okRegions, Bool.and_eq_true] at h
    simp [edRegions, okRegions, okBiosElems_edit e he b.elems h.1, okRegions_edit e he t h.2]
  | .me _ _ :: t, h => by
    simp only [okRegions] at h
    simp [edRegions, okRegions, okRegions_edit e he t h]
  | .raw _ _ _ :: t, h => by
    simp only [okRegions] at h
    simp [edRegions, okRegions, okRegions_edit e he t h]

theorem okTree_edit (e : Edit) (he : e.Guid16) (t : Tree) (h : okTree t = true) : okTree (edit e t) = true := by
  cases t with
  | flash f => exact okRegions_edit e he f.regions h
  | bios b => exact okBiosElems_edit e he b.elems h

theorem topPolElems_edit (e : Edit) (p : UInt8) : ∀ es : List BiosElem,
    topPolElems p (edBiosElems e es) = topPolElems p es
  | [] => by simp [edBiosElems]
  | .pad _ _ :: t => by simp [edBiosElems, topPolElems, topPolElems_edit e p t]
  | .fv (.mk i b f) :: t => by simp [edBiosElems, edFv, topPolElems, Fv.info, topPolElems_edit e p t]

theorem topPolRegions_edit (e : Edit) (p : UInt8) : ∀ rs : List Region,
    topPolRegions p (edRegions e rs) = topPolRegions p rs ∧ hasBios (edRegions e rs) = hasBios rs
  | [] => by simp [edRegions]
  | .bios b :: t => by simp [edRegions, topPolRegions, hasBios, topPolElems_edit e p b.elems, (topPolRegions_edit e p t).1]
  | .me _ _ :: t => by simp [edRegions, topPolRegions, hasBios, topPolRegions_edit e p t]
  | .raw _ _ _ :: t => by simp [edRegions, topPolRegions, hasBios, topPolRegions_edit e p t]

theorem TopPol_edit (e : Edit) (p : UInt8) (t : Tree) : TopPol p (edit e t) = TopPol p t := by
  cases t with
  | flash f => simp [edit, TopPol, topPolRegions_edit e p f.regions]
  | bios b => simp [edit, TopPol, topPolElems_edit e p b.elems]

end Fiano.Uefi
