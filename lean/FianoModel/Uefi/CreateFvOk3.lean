/-
  C02 (follow-up wp-c02b), create-fv, part 3: `create-fv` keeps the invariant `TreeOk` of the central
  theorem, and with it command lines that mix `create-fv` with the modelled operations write only
  valid images of the input's size (`run2_valid`).

  What is asked when a `create-fv` is executed (`CreateFvPre`, a condition on the state of the run at
  that moment): the erase polarity of the process is 0xFF (the new volume announces 0xFF in its
  attributes whatever the polarity; under polarity 0 every later save fails with "conflicting erase
  polarities"), the name has 16 bytes, and the padding that is split satisfies the two conditions of
  part 2 (start at a multiple of 8 inside it, no signature at its probes).
-/
import FianoModel.Uefi.CreateFvOk2

namespace Fiano.Uefi
open Fiano
open EditArith

/-- flash offset of a BIOS region (`FRegion.BaseOffset()`, 0 for a bare region) -/
def biosBase (b : BiosRegion) : Nat := match b.fr with | some r => r.baseOffset | none => 0

/-- the conditions on the padding that `create-fv <abs> <size>` splits in region `b` -/
def CreateFvBiosPre (abs size : Nat) (b : BiosRegion) : Prop :=
  ∀ p o, createFvTarget (biosBase b) abs size b.elems = some (p, o) → (abs - (biosBase b + o)) % 8 = 0 ∧ NoHit p 0

def firstBios : List Region → Option BiosRegion
  | [] => none
  | .bios b :: _ => some b
  | .me _ _ :: rs => firstBios rs
  | .raw _ _ _ :: rs => firstBios rs

/-- what is asked of the state of the run when a `create-fv` is executed -/
def CreateFvPre (pol : UInt8) (abs size : Nat) (name : Guid) : Tree → Prop
  | .bios b => pol = 0xFF ∧ name.length = 16 ∧ CreateFvBiosPre abs size b
  | .flash f => pol = 0xFF ∧ name.length = 16 ∧ ∀ b, firstBios f.regions = some b → CreateFvBiosPre abs size b

/-! ### the region -/

theorem createFvElems_err (base abs size : Nat) (e : Err) : ∀ (es N : List BiosElem),
    createFvElems base abs size (.error e) es ≠ .ok N := by
  intro es
  induction es with
  | nil => intro N h; simp [createFvElems] at h
  | cons x rest ih =>
    intro N h
    cases x with
    | fv v =>
      rw [createFvElems] at h
      split at h
      · cases h
      · rename_i N' hN'; exact ih N' hN'
    | pad p o =>
      rw [createFvElems] at h
      split at h
      · split at h <;> cases h
      · split at h
        · cases h
        · rename_i N' hN'; exact ih N' hN'

/-- a successful split found its padding, and the padding holds the volume -/
theorem createFvElems_target (base abs size : Nat) (mk : Except Err Fv) : ∀ (es N : List BiosElem),
    createFvElems base abs size mk es = .ok N → ∃ p o, .pad p o ∈ es ∧ size ≤ p.length := by
  intro es
  induction es with
  | nil => intro N h; simp [createFvElems] at h
  | cons x rest ih =>
    intro N h
    cases x with
    | fv v =>
      rw [createFvElems] at h
      split at h
      · cases h
      · rename_i N' hN'
        obtain ⟨p, o, hm, hs⟩ := ih N' hN'
        exact ⟨p, o, by simp [hm], hs⟩
    | pad p o =>
      unfold createFvElems at h
      split at h
      · rename_i hc
        exact ⟨p, o, by simp, by omega⟩
      · split at h
        · cases h
        · rename_i N' hN'
          obtain ⟨q, o2, hm, hs⟩ := ih N' hN'
          exact ⟨q, o2, by simp [hm], hs⟩

def biosEnd (b : BiosRegion) : Nat := match b.fr with | some r => r.endOffset | none => b.length

theorem createFvBios_eq (pol : UInt8) (abs size : Nat) (name : Guid) (b : BiosRegion) :
    createFvBios pol abs size name b =
      (if abs < biosBase b then .error .err
       else if abs + size > biosEnd b then .error .err
       else
         match createFvElems (biosBase b) abs size (createEmptyFv pol (abs - biosBase b) size name) b.elems with
         | .error e => .error e
         | .ok es => .ok { b with elems := es }) := by
  obtain ⟨elems, buf, length, fr⟩ := b
  cases fr <;> rfl

/-- **the `BIOSRegion` case of `create-fv` keeps the invariant of the region** -/
theorem createFvBios_ok (abs size : Nat) (name : Guid) (b b' : BiosRegion) (hn : name.length = 16) (hok : BiosOk b)
    (hL : b.length < 2 ^ 31) (h : createFvBios 0xFF abs size name b = .ok b') (hpre : CreateFvBiosPre abs size b) :
    BiosOk b' ∧ b'.length = b.length ∧ b'.fr = b.fr ∧ b'.buf = b.buf ∧
    (Valid.hasFlashSig (catBufs b.elems) = false → Valid.hasFlashSig (catBufs b'.elems) = false) := by
  rw [createFvBios_eq] at h
  by_cases c1 : abs < biosBase b
  · rw [if_pos c1] at h; cases h
  · rw [if_neg c1] at h
    by_cases c2 : abs + size > biosEnd b
    · rw [if_pos c2] at h; cases h
    · rw [if_neg c2] at h
      split at h
      · cases h
      · rename_i N hN
        cases h
        obtain ⟨p, o, hm, hsz⟩ := createFvElems_target _ _ _ _ _ _ hN
        have hple := catBufs_mem_le b.elems _ hm
        simp only [BiosElem.buf] at hple
        have hs44 : size < 2 ^ 44 := by have := hok.len; omega
        cases hmk : createEmptyFv 0xFF (abs - biosBase b) size name with
        | error e => rw [hmk] at hN; exact absurd hN (createFvElems_err _ _ _ _ _ _)
        | ok fv =>
          rw [hmk] at hN
          obtain ⟨htop, hbuf, hlen, h4, hpos⟩ := createEmptyFv_ok _ size name fv hn hs44 hmk
          obtain ⟨e1, e2, _, e4⟩ := createFvElems_ok (biosBase b) abs size name fv htop hbuf hlen h4 hpos b.elems N hok.elems hN hpre
          exact ⟨⟨e1, by rw [e2]; exact hok.len⟩, rfl, rfl, rfl, e4⟩

/-! ### the tree -/

theorem createFvRegions_ok (abs size : Nat) (name : Guid) (hn : name.length = 16) (B : Nat) (hB : B < 2 ^ 31)
    (tbl : List FlashRegion) (nr : Nat) : ∀ (l l' : List Region),
    createFvRegions 0xFF abs size name l = .ok l' →
    (∀ b, firstBios l = some b → CreateFvBiosPre abs size b) →
    (∀ b, .bios b ∈ l → BiosOk b ∧ b.length ≤ B) → (∀ r ∈ l, RegionSized tbl nr r) →
    (∀ b', .bios b' ∈ l' → BiosOk b' ∧ b'.length ≤ B) ∧ (∃ b', .bios b' ∈ l') ∧ (∀ r ∈ l', RegionSized tbl nr r) := by
  intro l
  induction l with
  | nil => intro l' h; simp [createFvRegions] at h
  | cons r rest ih =>
    intro l' h hpre hok hsz
    cases r with
    | bios b =>
      rw [createFvRegions] at h
      split at h
      · cases h
      · rename_i b1 hb1
        cases h
        obtain ⟨hbok, hble⟩ := hok b (by simp)
        obtain ⟨o1, o2, o3, o4, _⟩ := createFvBios_ok abs size name b b1 hn hbok (by omega) hb1 (hpre b rfl)
        refine ⟨fun b' hb' => ?_, ⟨b1, by simp⟩, fun r hr => ?_⟩
        · simp only [List.mem_cons] at hb'
          rcases hb' with hb' | hb'
          · cases hb'; exact ⟨o1, by omega⟩
          · exact hok b' (by simp [hb'])
        · simp only [List.mem_cons] at hr
          rcases hr with rfl | hr
          · have hs := hsz (.bios b) (by simp)
            unfold RegionSized at hs ⊢
            rw [repoint_fr] at hs ⊢
            simp only [Region.fr, Region.buf, Region.rtype, biosLenOk] at hs ⊢
            rw [o2, o3, o4]; exact hs
          · exact hsz r (by simp [hr])
    | me x fr =>
      rw [createFvRegions] at h
      split at h
      · cases h
      · rename_i rs' hrs
        cases h
        obtain ⟨i1, ⟨b', i2⟩, i3⟩ := ih rs' hrs (fun b hb => hpre b (by rw [firstBios]; exact hb))
          (fun b hb => hok b (by simp [hb])) (fun r hr => hsz r (by simp [hr]))
        refine ⟨fun b' hb' => ?_, ⟨b', by simp [i2]⟩, fun r hr => ?_⟩
        · simp only [List.mem_cons] at hb'
          rcases hb' with hb' | hb'
          · cases hb'
          · exact i1 b' hb'
        · simp only [List.mem_cons] at hr
          rcases hr with rfl | hr
          · exact hsz _ (by simp)
          · exact i3 r hr
    | raw x fr t =>
      rw [createFvRegions] at h
      split at h
      · cases h
      · rename_i rs' hrs
        cases h
        obtain ⟨i1, ⟨b', i2⟩, i3⟩ := ih rs' hrs (fun b hb => hpre b (by rw [firstBios]; exact hb))
          (fun b hb => hok b (by simp [hb])) (fun r hr => hsz r (by simp [hr]))
        refine ⟨fun b' hb' => ?_, ⟨b', by simp [i2]⟩, fun r hr => ?_⟩
        · simp only [List.mem_cons] at hb'
          rcases hb' with hb' | hb'
          · cases hb'
          · exact i1 b' hb'
        · simp only [List.mem_cons] at hr
          rcases hr with rfl | hr
          · exact hsz _ (by simp)
          · exact i3 r hr

/-- **`create-fv` keeps the invariant of the central theorem**, and the size of the image -/
theorem createFvOp_ok (pol : UInt8) (abs size : Nat) (name : Guid) (t t' : Tree) (hok : TreeOk t) (hL : rootLen t < 2 ^ 31)
    (h : createFvOp pol abs size name t = .ok t') (hpre : CreateFvPre pol abs size name t) :
    TreeOk t' ∧ rootLen t' = rootLen t := by
  cases t with
  | bios b =>
    obtain ⟨rfl, hn, hp⟩ := hpre
    rw [createFvOp] at h
    split at h
    · cases h
    · rename_i b' hb'
      cases h
      obtain ⟨o1, o2, _, _, o5⟩ := createFvBios_ok abs size name b b' hn hok.1 hL hb' hp
      exact ⟨⟨o1, bareNoSig_est _ o1.elems (o5 (hok.2 b.elems (elemsRel_refl _)))⟩, o2⟩
  | flash f =>
    obtain ⟨rfl, hn, hp⟩ := hpre
    rw [createFvOp] at h
    split at h
    · cases h
    · rename_i rs hrs
      cases h
      have hsz := hok.sized
      rw [Sized] at hsz
      obtain ⟨i1, i2, i3⟩ := createFvRegions_ok abs size name hn f.flashSize hL _ _ f.regions rs hrs hp hok.bios hsz.2
      exact ⟨⟨by rw [Sized]; exact ⟨hsz.1, i3⟩, hok.desc, hok.hdr, i1, i2⟩, rfl⟩

end Fiano.Uefi
