/-
  Property C06 — the decoded tree (NestedDec.lean) does not change under normalisation: what a save
  rewrites (payload bytes, sizes, checksums, lengths, block counts, pad files) is exactly what
  `decTree` leaves out.
-/
import FianoModel.Uefi.NestedAsm
import FianoModel.Uefi.NestedDec

namespace Fiano.Uefi.Nested
open Fiano Fiano.Uefi Fiano.Uefi.Spec

variable {h : Hooks}

/-! ### the masked volume header -/

theorem maskFrom_append : ∀ (a b : Bytes) (i : Nat), maskFrom i (a ++ b) = maskFrom i a ++ maskFrom (i + a.length) b
  | [], b, i => by simp [maskFrom]
  | x :: xs, b, i => by
    simp only [List.cons_append, maskFrom, List.length_cons]
    rw [maskFrom_append xs b (i + 1)]
    simp [Nat.add_assoc, Nat.add_comm 1]

theorem maskFrom_length : ∀ (a : Bytes) (i : Nat), (maskFrom i a).length = a.length
  | [], _ => rfl
  | _ :: xs, i => by simp [maskFrom, maskFrom_length xs]

theorem maskFrom_masked : ∀ (a : Bytes) (i : Nat), (∀ j, j < a.length → maskedAt (i + j) = true) →
    maskFrom i a = List.replicate a.length 0
  | [], _, _ => rfl
  | x :: xs, i, hm => by
    have h0 := hm 0 (by simp)
    simp only [Nat.add_zero] at h0
    simp only [maskFrom, h0, if_true, List.length_cons, List.replicate_succ]
    rw [maskFrom_masked xs (i + 1) (fun j hj => by
      have := hm (j + 1) (by simp; omega)
      rw [← this]; congr 1; omega)]

theorem maskFrom_clear : ∀ (a : Bytes) (i : Nat), (∀ j, j < a.length → maskedAt (i + j) = false) → maskFrom i a = a
  | [], _, _ => rfl
  | x :: xs, i, hm => by
    have h0 := hm 0 (by simp)
    simp only [Nat.add_zero] at h0
    simp only [maskFrom, h0, Bool.false_eq_true, if_false]
    rw [maskFrom_clear xs (i + 1) (fun j hj => by
      have := hm (j + 1) (by simp; omega)
      rw [← this]; congr 1; omega)]

theorem maskedAt_ge60 (i : Nat) (hi : 60 ≤ i) : maskedAt i = false := by
  simp only [maskedAt, Bool.or_eq_false_iff, Bool.and_eq_false_iff, decide_eq_false_iff_not]
  omega

/-- the masked header of a serialised volume does not depend on its length, its checksum, the count
    of its first block, nor on its file-system GUID -/
theorem maskFrom_fvHeader (zv g : Bytes) (len attrs ck eho rsv rev : Nat) (b0 : Block) (bs : List Block) (X : Bytes)
    (hz : zv.length = 16) (hg : g.length = 16) :
    maskFrom 0 (fvHeader zv g len attrs ck eho rsv rev (b0 :: bs) ++ X) =
      maskFrom 0 zv ++ (List.replicate 16 0 ++ (List.replicate 8 0 ++ (fvSigBytes ++ (leN 4 attrs ++
        (leN 2 (fvHdrLen (b0 :: bs)) ++ (List.replicate 2 0 ++ (leN 2 eho ++ ([byte rsv, byte rev] ++
          (List.replicate 4 0 ++ (leN 4 b0.size ++ (encodeBlocks bs ++ (zeros 8 ++ X)))))))))))) := by
  rw [fvHeader_split]
  have e : encodeBlocks (b0 :: bs) ++ (zeros 8 ++ X) =
      leN 4 b0.count ++ (leN 4 b0.size ++ (encodeBlocks bs ++ (zeros 8 ++ X))) := by
    simp [encodeBlocks]
  rw [e]
  have hsig : fvSigBytes.length = 4 := rfl
  rw [maskFrom_append, maskFrom_append, maskFrom_append, maskFrom_append, maskFrom_append, maskFrom_append,
    maskFrom_append, maskFrom_append, maskFrom_append, maskFrom_append, maskFrom_append]
  simp only [hz, hg, leN_length, hsig, List.length_cons, List.length_nil, Nat.zero_add, Nat.reduceAdd]
  rw [maskFrom_masked g 16 (fun j hj => by simp only [maskedAt]; rw [hg] at hj; simp; omega),
    maskFrom_masked (leN 8 len) 32 (fun j hj => by simp only [maskedAt]; rw [leN_length] at hj; simp; omega),
    maskFrom_clear fvSigBytes 40 (fun j hj => by simp only [maskedAt]; rw [hsig] at hj; simp; omega),
    maskFrom_clear (leN 4 attrs) 44 (fun j hj => by simp only [maskedAt]; rw [leN_length] at hj; simp; omega),
    maskFrom_clear (leN 2 (fvHdrLen (b0 :: bs))) 48 (fun j hj => by
      simp only [maskedAt]; rw [leN_length] at hj; simp; omega),
    maskFrom_masked (leN 2 ck) 50 (fun j hj => by simp only [maskedAt]; rw [leN_length] at hj; simp; omega),
    maskFrom_clear (leN 2 eho) 52 (fun j hj => by simp only [maskedAt]; rw [leN_length] at hj; simp; omega),
    maskFrom_clear [byte rsv, byte rev] 54 (fun j hj => by simp only [maskedAt]; simp at hj; simp; omega),
    maskFrom_masked (leN 4 b0.count) 56 (fun j hj => by simp only [maskedAt]; rw [leN_length] at hj; simp; omega),
    maskFrom_clear _ 60 (fun j _ => maskedAt_ge60 _ (by omega)),
    maskFrom_clear _ 64 (fun j _ => maskedAt_ge60 _ (by omega))]
  simp only [hg, leN_length]

/-! ### invariance of the decoded tree -/

theorem decSection_ord (s : SecI) (o1 o2 : Nat) : decSection (Spec.treeSec s o1) = decSection (Spec.treeSec s o2) := by
  cases s with
  | leaf t ext body => simp [Spec.treeSec, decSection, secInfoOf]
  | guided ext g doff attrs body => simp [Spec.treeSec, decSection, secInfoOf]
  | ui name => simp [Spec.treeSec, decSection, canonInfo_eq, secInfoOf]
  | version build ver => simp [Spec.treeSec, decSection, canonInfo_eq, secInfoOf]
  | depex t ops => simp [Spec.treeSec, decSection, canonInfo_eq, secInfoOf]
  | fvimg fv => simp [Spec.treeSec, decSection, canonInfo_eq, secInfoOf]

theorem sectAttrs_fe (a d : Nat) : sectAttrs a d &&& 0xFE = a &&& 0xFE := by
  unfold sectAttrs
  split
  · rw [Nat.and_or_distrib_right]; simp
  · exact and_fe_fe a

theorem finishLenP_sizes (ag : Nat → Nat → Nat) (l e : Nat) (blocks : List Block) :
    (finishLenP ag l e blocks).2.map (·.size) = blocks.map (·.size) := by
  unfold finishLenP
  split
  · rfl
  · cases blocks <;> rfl

theorem finishLen_sizes (l e : Nat) (blocks : List Block) :
    (finishLen l e blocks).2.map (·.size) = blocks.map (·.size) := by
  rw [finishLen_eq_P]; exact finishLenP_sizes alignGo l e blocks

theorem finishLenP_shape (ag : Nat → Nat → Nat) (l e : Nat) (b0 : Block) (bs : List Block) :
    ∃ c, (finishLenP ag l e (b0 :: bs)).2 = setCount b0 c :: bs := by
  unfold finishLenP
  split
  · exact ⟨b0.count, by rw [setCount_self]⟩
  · exact ⟨_, rfl⟩

theorem finishLen_shape (l e : Nat) (b0 : Block) (bs : List Block) :
    ∃ c, (finishLen l e (b0 :: bs)).2 = setCount b0 c :: bs := by
  rw [finishLen_eq_P]; exact finishLenP_shape alignGo l e b0 bs

theorem treeNodes_ne : ∀ (ss : List CSec) (i : Nat), ss ≠ [] → ∃ a r, treeNodes ss i = a :: r
  | [], _, h => absurd rfl h
  | s :: ss, i, _ => ⟨_, _, rfl⟩

theorem treeSecs_ne : ∀ (ss : List CSec) (i : Nat), ss ≠ [] → ∃ a r, treeSecs ss i = a :: r
  | [], _, h => absurd rfl h
  | s :: ss, i, _ => ⟨_, _, rfl⟩

theorem treeFiles_ne : ∀ (fs : List CFile), fs ≠ [] → ∃ a r, treeFiles fs = a :: r
  | [], h => absurd rfl h
  | f :: fs, _ => ⟨_, _, rfl⟩

theorem normSecs_ne : ∀ (ss : List CSec), ss ≠ [] → normSecs h ss ≠ []
  | [], hne => absurd rfl hne
  | s :: ss, _ => by simp [normSecs]

/-- pad files are layout: the synthesised ones do not show in the decoded tree -/
theorem decFiles_relay : ∀ (fs : List CFile) (off : Nat), decFiles (treeFiles (relay off fs)) = decFiles (treeFiles fs)
  | [], _ => by simp [relay]
  | f :: fs, off => by
    rw [relay_cons]
    have ih := decFiles_relay fs (fileStart off (storedAttrs (flatFile f)) + sizeFile (flatFile f))
    by_cases hc : fileStart off (storedAttrs (flatFile f)) = alignUp off 8
    · rw [if_pos hc]
      simp only [List.nil_append, treeFiles, decFiles, ih]
    · rw [if_neg hc]
      simp only [List.cons_append, List.nil_append, treeFiles, decFiles, ih]
      have : (treeFile (CFile.leaf (padLeaf (fileStart off (storedAttrs (flatFile f)) - alignUp off 8)))).info.type =
          filePadType := by
        simp [treeFile, Spec.treeFile, padLeaf, File.info, filePadType]
      rw [if_pos this]

theorem relay_ne (off : Nat) (fs : List CFile) (hne : fs ≠ []) : relay off fs ≠ [] := by
  cases fs with
  | nil => exact absurd rfl hne
  | cons f r => rw [relay_cons]; split <;> simp

theorem normFiles_ne : ∀ (fs : List CFile), fs ≠ [] → normFiles h fs ≠ []
  | [], hne => absurd rfl hne
  | f :: fs, _ => by simp [normFiles]

set_option maxHeartbeats 1600000 in
mutual

theorem dec_sec : ∀ (s : CSec) (tail : Bytes), wfSec h tail s = true → ∀ (o1 o2 : Nat),
    decSection (treeSec (normSec h s) o1) = decSection (treeSec s o2)
  | .plain s, _, _, o1, o2 => by simp only [normSec, treeSec]; exact decSection_ord s o1 o2
  | .opq ext g doff attrs comp body, _, _, o1, o2 => by
    simp [normSec, treeSec, decSection, guidedInfo, secInfoOf]
  | .comp ext g doff attrs name payload kids, _, hw, o1, o2 => by
    simp only [wfSec, Bool.and_eq_true, decide_eq_true_eq] at hw
    obtain ⟨⟨⟨⟨_, hne⟩, _⟩, hkids⟩, _⟩ := hw
    have hne' : kids ≠ [] := by
      intro hc; rw [hc] at hne; simp at hne
    obtain ⟨a, r, h1⟩ := treeNodes_ne kids 0 hne'
    obtain ⟨a', r', h2⟩ := treeNodes_ne (normSecs h kids) 0 (normSecs_ne kids hne')
    have ih := dec_nodes kids 0 hkids 0 0
    simp only [normSec, treeSec]
    rw [h1, h2] at ih
    simp only [decSection, h1, h2, guidedInfo, secInfoOf, if_true, ih]
  | .fvimg v, _, hw, o1, o2 => by
    simp only [wfSec, Bool.and_eq_true] at hw
    have ih := dec_fv v hw.1 0 true 0 true
    simp only [normSec, treeSec, decSection, canonInfo_type, show (0x17 : Nat) ≠ 0x02 by decide, if_false, decNodes, ih]

theorem dec_nodes : ∀ (ss : List CSec) (u : Nat), wfSecs h u ss = true → ∀ (i1 i2 : Nat),
    decNodes (treeNodes (normSecs h ss) i1) = decNodes (treeNodes ss i2)
  | [], _, _, _, _ => by simp [normSecs, treeNodes]
  | s :: ss, u, hw, i1, i2 => by
    have ⟨hs, hss⟩ := wfSecs_cons hw
    simp only [normSecs, treeNodes, decNodes, dec_sec s _ hs i1 i2, dec_nodes ss _ hss (i1 + 1) (i2 + 1)]

theorem dec_secs : ∀ (ss : List CSec) (u : Nat), wfSecs h u ss = true → ∀ (i1 i2 : Nat),
    decSections (treeSecs (normSecs h ss) i1) = decSections (treeSecs ss i2)
  | [], _, _, _, _ => by simp [normSecs, treeSecs]
  | s :: ss, u, hw, i1, i2 => by
    have ⟨hs, hss⟩ := wfSecs_cons hw
    simp only [normSecs, treeSecs, decSections, dec_sec s _ hs i1 i2, dec_secs ss _ hss (i1 + 1) (i2 + 1)]

theorem dec_file : ∀ (f : CFile), wfFile h f = true →
    decFile (treeFile (normFile h f)) = decFile (treeFile f) ∧
    (treeFile (normFile h f)).info.type = (treeFile f).info.type
  | .leaf f, _ => by simp [normFile]
  | .sect g t a stt secs, hw => by
    have w := wfFile_sect hw
    obtain ⟨x, r, h1⟩ := treeSecs_ne secs 0 w.hne
    obtain ⟨x', r', h2⟩ := treeSecs_ne (normSecs h secs) 0 (normSecs_ne secs w.hne)
    have ih := dec_secs secs 0 w.hsecs 0 0
    rw [h1, h2] at ih
    constructor
    · simp only [normFile, treeFile, decFile, h1, h2, Spec.treeFile, File.info, sectAttrs_fe, ih]
    · simp only [normFile, treeFile, Spec.treeFile, File.info]

theorem dec_files : ∀ (fs : List CFile) (off len : Nat), wfFiles h off len fs = true →
    decFiles (treeFiles (normFiles h fs)) = decFiles (treeFiles fs)
  | [], _, _, _ => by simp [normFiles]
  | f :: fs, off, len, hw => by
    obtain ⟨hwf, _, _, _, hrest⟩ := wfFiles_cons hw
    have ⟨h1, h2⟩ := dec_file f hwf
    simp only [normFiles, treeFiles, decFiles]
    rw [h2, h1, dec_files fs _ len hrest]

theorem dec_fv : ∀ (v : CFv), wfFv h v = true → ∀ (o1 : Nat) (r1 : Bool) (o2 : Nat) (r2 : Bool),
    decFv (treeFv (normFv h v) o1 r1) = decFv (treeFv v o2 r2)
  | .other v, hw, o1, r1, o2, r2 => by
    cases v with
    | ffs zv v3 attrs rev rsv blocks ext files free => simp [wfFv, isOtherFv] at hw
    | other zv g attrs rev rsv blocks body => simp [normFv, treeFv, Spec.treeFv, decFv]
  | .ffs zv v3 attrs rev rsv blocks ext files free, hw, o1, r1, o2, r2 => by
    have ⟨w, hfiles⟩ := wfFv_ffs hw
    have hgl := guid_v3_length v3
    have hpre := preBytes_length blocks ext (fun e he => (w.hext e he).1)
    by_cases hnil : files = []
    · subst hnil
      have hnorm : normFv h (.ffs zv v3 attrs rev rsv blocks ext [] free) = .ffs zv v3 attrs rev rsv blocks ext [] free := by
        simp only [normFv, normFiles, relay, flatFiles, endFiles, finishLen, Nat.le_add_right, if_true,
          Nat.add_sub_cancel_left]
      rw [hnorm]
      simp [treeFv, treeFiles, decFv]
    · obtain ⟨b0, bs, hblk⟩ : ∃ b0 bs, blocks = b0 :: bs := by
        rcases w.hnb with h' | h'
        · exact absurd ((flatFiles_nil_iff files).mp h') hnil
        · cases blocks with
          | nil => exact absurd rfl h'
          | cons a b => exact ⟨a, b, rfl⟩
      subst hblk
      obtain ⟨x, r, h1⟩ := treeFiles_ne files hnil
      obtain ⟨x', r', h2⟩ := treeFiles_ne (relay (preLen (b0 :: bs) ext) (normFiles h files))
        (relay_ne _ _ (normFiles_ne files hnil))
      have ihf : decFiles (treeFiles (relay (preLen (b0 :: bs) ext) (normFiles h files))) = decFiles (treeFiles files) := by
        rw [decFiles_relay, dec_files files _ _ hfiles]
      rw [h1, h2] at ihf
      obtain ⟨c, hc⟩ := finishLen_shape (endFiles (preLen (b0 :: bs) ext) (flatFiles files) + free)
        (endFiles (preLen (b0 :: bs) ext) (flatFiles (relay (preLen (b0 :: bs) ext) (normFiles h files)))) b0 bs
      have hsz := finishLen_sizes (endFiles (preLen (b0 :: bs) ext) (flatFiles files) + free)
        (endFiles (preLen (b0 :: bs) ext) (flatFiles (relay (preLen (b0 :: bs) ext) (normFiles h files)))) (b0 :: bs)
      have hl : (setCount b0 c :: bs).length = (b0 :: bs).length := rfl
      -- both buffers start with a header that differs in masked fields only
      have hmask : ∀ (len len' : Nat) (Y Y' : Bytes),
          maskHdr (fvHeaderCk zv (if v3 then guidFFS3 else guidFFS2) len' attrs (ehoOf (b0 :: bs) ext) rsv rev
              (setCount b0 c :: bs) ++ (preBytes (b0 :: bs) ext ++ Y')) (preLen (b0 :: bs) ext) =
          maskHdr (fvHeaderCk zv (if v3 then guidFFS3 else guidFFS2) len attrs (ehoOf (b0 :: bs) ext) rsv rev
              (b0 :: bs) ++ (preBytes (b0 :: bs) ext ++ Y)) (preLen (b0 :: bs) ext) := by
        intro len len' Y Y'
        unfold maskHdr
        have t1 : (fvHeaderCk zv (if v3 then guidFFS3 else guidFFS2) len' attrs (ehoOf (b0 :: bs) ext) rsv rev
              (setCount b0 c :: bs) ++ (preBytes (b0 :: bs) ext ++ Y')).take (preLen (b0 :: bs) ext) =
            fvHeaderCk zv (if v3 then guidFFS3 else guidFFS2) len' attrs (ehoOf (b0 :: bs) ext) rsv rev
              (setCount b0 c :: bs) ++ preBytes (b0 :: bs) ext := by
          rw [← List.append_assoc]
          exact take_left_len _ _ _ (by
            simp only [List.length_append, fvHeaderCk_length _ _ _ _ _ _ _ _ w.hzv hgl, fvHdrLen_congr hl]; exact hpre)
        have t2 : (fvHeaderCk zv (if v3 then guidFFS3 else guidFFS2) len attrs (ehoOf (b0 :: bs) ext) rsv rev
              (b0 :: bs) ++ (preBytes (b0 :: bs) ext ++ Y)).take (preLen (b0 :: bs) ext) =
            fvHeaderCk zv (if v3 then guidFFS3 else guidFFS2) len attrs (ehoOf (b0 :: bs) ext) rsv rev
              (b0 :: bs) ++ preBytes (b0 :: bs) ext := by
          rw [← List.append_assoc]
          exact take_left_len _ _ _ (by
            simp only [List.length_append, fvHeaderCk_length _ _ _ _ _ _ _ _ w.hzv hgl]; exact hpre)
        rw [t1, t2]
        unfold fvHeaderCk
        rw [maskFrom_fvHeader _ _ _ _ _ _ _ _ _ _ _ w.hzv hgl, maskFrom_fvHeader _ _ _ _ _ _ _ _ _ _ _ w.hzv hgl]
        simp only [setCount, fvHdrLen_congr hl]
        rfl
      simp only [normFv, treeFv, hc, h1, h2, decFv, Spec.treeFv, Fv.info, ihf, preLen_congr hl, ehoOf_congr hl,
        preBytes_congr hl, flatFv, serFv, List.append_assoc]
      rw [hc] at hsz
      simp only [List.map_cons] at hsz ⊢
      rw [hmask (endFiles (preLen (b0 :: bs) ext) (flatFiles files) + free) _
        (serFiles (preLen (b0 :: bs) ext) (flatFiles files) ++ ffs free) _]
      simp [setCount]

end

end Fiano.Uefi.Nested
