/-
  C02 (follow-up wp-c02c, round 3): the laws `CompactLaw` / `NvLaw` (`Length = |Buf|`) hold of C10's model
  of the NVAR store — `compactC10` and `hooksC10` (Uefi/EditValidOpsDefs.lean), the instance the driver
  runs — for ALL inputs: every GUID the store parser produces is 16 bytes long (`walk_g16`), the GUID table
  the compaction rebuilds consists of such GUIDs (`pass2_g16`), hence the buffer `layout` builds (entries,
  erased gap, table) is `Length` bytes long (`layout_len`).
-/
import FianoModel.Uefi.EditValidOps3

namespace Fiano.Uefi.NvLawC10
open Fiano Fiano.Nvram

def G16 (gs : List Bytes) : Prop := ∀ g ∈ gs, g.length = 16
def E16 (es : List NVar) : Prop := ∀ v ∈ es, v.guid.length = 16

theorem flatten16 : ∀ (gs : List Bytes), G16 gs → gs.flatten.length = 16 * gs.length
  | [], _ => by simp
  | g :: gs, h => by
    have h1 : g.length = 16 := h g (by simp)
    have h2 := flatten16 gs (fun x hx => h x (by simp [hx]))
    simp only [List.flatten_cons, List.length_append, List.length_cons, h1, h2]
    omega

theorem layout_len (pol : Nat) (s s' : Store) (es : List NVar) (hg : G16 s.guidStore)
    (h : layout pol s es = .ok s') : s'.buf.length = s.length ∧ s'.length = s.length := by
  unfold layout at h
  simp only at h
  split at h
  · cases h
  · split at h
    · cases h
    · cases h
      have hr : G16 s.guidStore.reverse := fun g hg' => hg g (by simpa using hg')
      have := flatten16 _ hr
      rw [List.length_reverse] at this
      refine ⟨?_, rfl⟩
      simp only [List.length_append, List.length_replicate, this]
      omega

theorem zeroGuid_len : zeroGuid.length = 16 := by simp [zeroGuid]

theorem guidAt_len (sb : Bytes) (k : Nat) (h : 16 * (k + 1) ≤ sb.length) : (guidAt sb k).length = 16 := by
  unfold guidAt
  exact slice_length _ _ _ (by omega)

theorem getGuid_g16 (sb : Bytes) (gs : List Bytes) (i : Nat) (hg : G16 gs) :
    (getGuid sb gs i).1.length = 16 ∧ G16 (getGuid sb gs i).2 := by
  unfold getGuid
  simp only
  split
  · rename_i hlt
    split
    · exact ⟨zeroGuid_len, hg⟩
    · rename_i hsb
      have hG : G16 (gs ++ (List.range ((i + 1) % 256 - gs.length)).map (fun j => guidAt sb (gs.length + j))) := by
        intro g hm
        simp only [List.mem_append, List.mem_map, List.mem_range] at hm
        rcases hm with hm | ⟨j, hj, rfl⟩
        · exact hg g hm
        · exact guidAt_len sb _ (by omega)
      refine ⟨?_, hG⟩
      split
      · rename_i g hget
        exact hG g (List.mem_of_getElem? hget)
      · exact zeroGuid_len
  · refine ⟨?_, hg⟩
    split
    · rename_i g hget
      exact hg g (List.mem_of_getElem? hget)
    · exact zeroGuid_len

theorem parseBody_g16 (pol : Nat) (sb : Bytes) (gs : List Bytes) (es : List NVar) (offset size next attrs : Nat)
    (vbuf : Bytes) (v : NVar) (gs' : List Bytes) (hg : G16 gs) (he : E16 es)
    (h : parseBody pol sb gs es offset size next attrs vbuf = .ok (some (v, gs'))) :
    v.guid.length = 16 ∧ G16 gs' := by
  unfold parseBody at h
  simp only at h
  split at h
  · cases h; exact ⟨zeroGuid_len, hg⟩
  · split at h
    · cases h
    · split at h
      · cases h; exact ⟨zeroGuid_len, hg⟩
      · split at h
        · split at h
          · rename_i l hl
            cases h
            exact ⟨he l (List.mem_of_find?_eq_some hl), hg⟩
          · cases h; exact ⟨zeroGuid_len, hg⟩
        · split at h
          · cases h
          · rename_i guid gi gs1 doff hgq
            split at h
            · cases h
            · cases h
              simp only
              -- where the GUID came from
              split at hgq
              · split at hgq
                · cases hgq
                · rename_i hlen
                  cases hgq
                  refine ⟨?_, hg⟩
                  simp only [List.length_take, guidSize] at hlen ⊢
                  omega
              · split at hgq
                · cases hgq
                · cases hgq
                  exact getGuid_g16 sb gs _ hg

theorem newNVar_g16 (pol : Nat) (sb : Bytes) (gs : List Bytes) (es : List NVar) (buf : Bytes) (offset : Nat)
    (v : NVar) (gs' : List Bytes) (hg : G16 gs) (he : E16 es)
    (h : newNVar pol sb gs es buf offset = .ok (some (v, gs'))) : v.guid.length = 16 ∧ G16 gs' := by
  unfold newNVar at h
  split at h
  · cases h
  · split at h
    · cases h
    · split at h
      · cases h
      · simp only at h
        split at h
        · cases h
        · split at h
          · cases h
          · exact parseBody_g16 _ _ _ _ _ _ _ _ _ _ _ hg he h

theorem walk_g16 (pol : Nat) (sb : Bytes) : ∀ (fuel fso gso : Nat) (gs : List Bytes) (es : List NVar) (st : Store),
    G16 gs → E16 es → walk pol sb fuel fso gso gs es = .ok st →
    E16 st.entries ∧ G16 st.guidStore ∧ st.length = sb.length ∧ st.buf = sb
  | 0, _, _, _, _, _, _, _, h => by rw [walk] at h; cases h
  | f + 1, fso, gso, gs, es, st, hg, he, h => by
    rw [walk] at h
    split at h
    · split at h
      · cases h
      · cases h; exact ⟨he, hg, rfl, rfl⟩
      · rename_i v gs' hn
        obtain ⟨h1, h2⟩ := newNVar_g16 _ _ _ _ _ _ _ _ hg he hn
        -- the table-overlap guard (fixes/C04-nvar-table-overlap.diff, wp-nvfix): an error exit
        split at h
        · cases h
        refine walk_g16 pol sb f _ _ gs' (es ++ [v]) st h2 ?_ h
        intro x hx
        simp only [List.mem_append, List.mem_singleton] at hx
        rcases hx with hx | rfl
        · exact he x hx
        · exact h1
    · cases h; exact ⟨he, hg, rfl, rfl⟩

theorem parseStore_g16 (pol : Nat) (b : Bytes) (st : Store) (h : parseStore pol b = .ok st) :
    E16 st.entries ∧ G16 st.guidStore ∧ st.length = b.length ∧ st.buf = b := by
  unfold parseStore at h
  exact walk_g16 pol b _ _ _ _ _ st (by intro g hg; cases hg) (by intro v hv; cases hv) h

/-! ### the compaction -/

def M16 (m : List (Nat × NVar)) : Prop := ∀ q ∈ m, q.2.guid.length = 16
def P16 (ps : List (NVar × Option Bytes)) : Prop := ∀ p ∈ ps, p.1.guid.length = 16

theorem lookupOff_m16 (m : List (Nat × NVar)) (o : Nat) (h : NVar) (hm : M16 m) (hl : lookupOff m o = some h) :
    h.guid.length = 16 := by
  unfold lookupOff at hl
  split at hl
  · rename_i p hp
    cases hl
    exact hm p (List.mem_of_find?_eq_some hp)
  · cases hl

theorem headOr_16 (m : List (Nat × NVar)) (o : Nat) (v : NVar) (hm : M16 m) (hv : v.guid.length = 16) :
    (headOr (lookupOff m o) v).guid.length = 16 := by
  unfold headOr
  split
  · rename_i h hl
    exact lookupOff_m16 m o h hm hl
  · exact hv

theorem pass1_m16 : ∀ (ps : List (NVar × Option Bytes)) (m : List (Nat × NVar)) (keep : List (NVar × Option Bytes)),
    P16 ps → M16 m → M16 (pass1 ps m keep).1
  | [], m, keep, _, hm => by rw [pass1]; exact hm
  | (v, nb) :: vs, m, keep, hp, hm => by
    rw [pass1]
    have hv : v.guid.length = 16 := hp (v, nb) (by simp)
    have hvs : P16 vs := fun p hp' => hp p (by simp [hp'])
    split
    · exact pass1_m16 vs m keep hvs hm
    · simp only
      have hh := headOr_16 m v.offset v hm hv
      split
      · refine pass1_m16 vs _ keep hvs ?_
        intro q hq
        simp only [List.mem_cons] at hq
        rcases hq with rfl | hq
        · exact hh
        · exact hm q hq
      · refine pass1_m16 vs _ _ hvs ?_
        intro q hq
        simp only [List.mem_cons] at hq
        rcases hq with rfl | hq
        · exact hh
        · exact hm q hq

theorem guidIdx_g16 (gs : List Bytes) (g : Bytes) (hg : G16 gs) (h16 : g.length = 16) : G16 (guidIdx gs g).2 := by
  unfold guidIdx
  split
  · exact hg
  · intro x hx
    simp only [List.mem_append, List.mem_singleton] at hx
    rcases hx with hx | rfl
    · exact hg x hx
    · exact h16

theorem pass2_g16 (pol : Nat) (m : List (Nat × NVar)) (hm : M16 m) : ∀ (ks : List (NVar × Option Bytes)) (off : Nat)
    (gs : List Bytes) (new : List (NVar × Option Bytes)) (gs' : List Bytes), G16 gs →
    pass2 pol m ks off gs = .ok (new, gs') → G16 gs'
  | [], _, gs, new, gs', hg, h => by rw [pass2] at h; cases h; exact hg
  | (k, nb) :: ks, off, gs, new, gs', hg, h => by
    rw [pass2] at h
    split at h
    · cases h
    · rename_i hd hl
      have h16 := lookupOff_m16 m k.offset hd hm hl
      simp only at h
      split at h
      · cases h
      · split at h
        · cases h
        · rename_i vs gs2 hrec
          cases h
          refine pass2_g16 pol m hm ks _ _ vs gs' ?_ hrec
          split
          · exact hg
          · exact guidIdx_g16 gs hd.guid hg h16

theorem nestedCompact_p16 (pol : Nat) (recC : Store → Except Nvram.Err Store) : ∀ (vs : List NVar)
    (ps : List (NVar × Option Bytes)), E16 vs → nestedCompact pol recC vs = .ok ps → P16 ps
  | [], ps, _, h => by rw [nestedCompact] at h; cases h; intro p hp; cases hp
  | v :: vs, ps, he, h => by
    rw [nestedCompact] at h
    split at h
    · cases h
    · split at h
      · cases h
      · rename_i r hr
        cases h
        have := nestedCompact_p16 pol recC vs r (fun x hx => he x (by simp [hx])) hr
        intro p hp
        simp only [List.mem_cons] at hp
        rcases hp with rfl | hp
        · exact he v (by simp)
        · exact this p hp

theorem compactWith_len (pol : Nat) (recC : Store → Except Nvram.Err Store) (s s' : Store) (he : E16 s.entries)
    (h : compactWith pol recC s = .ok s') : s'.buf.length = s.length ∧ s'.length = s.length := by
  unfold compactWith at h
  split at h
  · cases h
  · rename_i pairs hp
    simp only at h
    split at h
    · cases h
    · rename_i new gs h2
      split at h
      · cases h
      · rename_i es _
        have hP := nestedCompact_p16 pol recC _ _ he hp
        have hM := pass1_m16 pairs [] [] hP (by intro q hq; cases hq)
        have hG := pass2_g16 pol _ hM _ _ _ _ _ (by intro g hg; cases hg) h2
        exact layout_len pol { s with guidStore := gs } s' es hG h

theorem compact_len (pol : Nat) : ∀ (d : Nat) (s s' : Store), E16 s.entries → compact pol d s = .ok s' →
    s'.buf.length = s.length ∧ s'.length = s.length
  | 0, _, _, _, h => by rw [compact] at h; cases h
  | d + 1, s, s', he, h => by
    rw [compact] at h
    exact compactWith_len pol _ s s' he h

theorem asmStore_len (pol : Nat) : ∀ (d : Nat) (s s' : Store), G16 s.guidStore → asmStore pol d s = .ok s' →
    s'.buf.length = s.length ∧ s'.length = s.length
  | 0, _, _, _, h => by rw [asmStore] at h; cases h
  | d + 1, s, s', hg, h => by
    rw [asmStore] at h
    unfold asmStoreWith at h
    split at h
    · cases h
    · exact layout_len pol s s' _ hg h

end Fiano.Uefi.NvLawC10

namespace Fiano.Uefi
open Fiano NvLawC10

/-- **the compaction the driver runs satisfies `CompactLaw`**, for every store and every polarity -/
theorem compactC10_law : compactC10.Law := by
  intro pol nv nv' hl h
  unfold compactC10 at h
  split at h
  · cases h
  · rename_i st hp
    split at h
    · cases h
    · rename_i st' hc
      cases h
      obtain ⟨he, _, hlen, hbuf⟩ := parseStore_g16 _ _ _ hp
      obtain ⟨h1, _⟩ := compact_len _ _ _ _ he hc
      show nv.length = st'.buf.length
      rw [h1, hlen, hl]

/-- **the NVAR hooks the driver runs satisfy `NvLaw`** (C10's `NewNVarStore` and `Assemble` of a store) -/
theorem hooksC10_nvLaw (pol : UInt8) : (hooksC10 pol).NvLaw := by
  refine ⟨fun b nv h => ?_, fun nv pol' nv' hl h => ?_⟩
  · simp only [hooksC10, nvParseC10] at h
    split at h
    · rename_i st hp
      cases h
      obtain ⟨_, _, hlen, hbuf⟩ := parseStore_g16 _ _ _ hp
      simp only [nvProj]
      rw [hlen, hbuf]
    · cases h
  · simp only [hooksC10, nvAsmC10] at h
    split at h
    · cases h
    · rename_i st hp
      split at h
      · cases h
      · rename_i st' hc
        cases h
        obtain ⟨_, hg, hlen, _⟩ := parseStore_g16 _ _ _ hp
        obtain ⟨h1, _⟩ := asmStore_len _ _ _ _ hg hc
        show nv.length = st'.buf.length
        rw [h1, hlen, hl]

/-- no codec: `BoundedCodecs` is that of `Hooks.none` -/
theorem hooksC10_codec (pol : UInt8) : (hooksC10 pol).codec = Hooks.none.codec := rfl

end Fiano.Uefi
