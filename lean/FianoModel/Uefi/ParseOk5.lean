/-
  C02 (follow-up wp-c02b), `parse_establishes_TreeOk`, part 5: the BIOS region.  `NewBIOSRegion` scans
  for `_FVH` at 8-byte steps like the reader does (it also probes offset 32, where a hit makes it
  give up: (Q) of `FindFirmwareVolumeOffset`); where it finds a volume the reader found the same one.
-/
import FianoModel.Uefi.ParseOk4

namespace Fiano.Uefi
open Fiano
open EditArith

theorem walkSpec_any (b : Bytes) (pos n : Nat) (h : WalkSpec b pos n) : ∀ m, 0 < m → WalkSpec b pos m := by
  induction h with
  | done pos n hno hn => intro m hm; exact .done _ _ hno hm
  | vol pos n s hh h64 hfit hok _ ih => intro m hm; exact .vol _ _ s hh h64 hfit hok (ih (m + 1) (by omega))

theorem hits_unshift (P S : Bytes) (k s : Nat) (hs : P.length ≤ s) (h : Hits (P ++ S) (P.length + k) s) :
    Hits S k (s - P.length) := by
  have hle := h.le
  refine ⟨by omega, ?_, by have := h.fits; simp at this; omega, ?_, fun j hj => ?_⟩
  · have e : s - P.length - k = s - (P.length + k) := by omega
    rw [e]; exact h.step
  · have := h.hit
    have e : s + 40 = P.length + (s - P.length + 40) := by omega
    rw [e, sigAt_shift] at this; exact this
  · have := h.first j (by omega)
    have e : P.length + k + 8 * j + 40 = P.length + (k + 8 * j + 40) := by omega
    rw [e, sigAt_shift] at this; exact this

theorem noHit_unshift (P S : Bytes) (k : Nat) (h : NoHit (P ++ S) (P.length + k)) : NoHit S k := by
  intro j hj
  have := h j (by simp; omega)
  have e : P.length + k + 8 * j + 40 = P.length + (k + 8 * j + 40) := by omega
  rw [e, sigAt_shift] at this; exact this

/-- a run behind a prefix is a run of the suffix on its own -/
theorem walkSpec_unshift (P S : Bytes) : ∀ (pos n : Nat), WalkSpec (P ++ S) pos n → ∀ k, pos = P.length + k → WalkSpec S k n := by
  intro pos n h
  induction h with
  | done pos n hno hn =>
    intro k hk; subst hk
    exact .done _ _ (noHit_unshift P S k hno) hn
  | vol pos n s hh h64 hfit hok _ ih =>
    intro k hk; subst hk
    have hs : P.length ≤ s := by have := hh.le; omega
    have hf : Valid.fld (P ++ S) (s + 32) 8 = Valid.fld S (s - P.length + 32) 8 := by
      have e : s + 32 = P.length + (s - P.length + 32) := by omega
      rw [e, fld_append_right]
    have hd : (P ++ S).drop s = S.drop (s - P.length) := by
      rw [List.drop_append, List.drop_of_length_le hs, List.nil_append]
    rw [hf] at h64 hfit hok ih
    rw [hd] at hok
    refine .vol _ _ (s - P.length) (hits_unshift P S k s hs hh) h64 (by simp at hfit; omega) hok ?_
    apply ih
    omega

/-! ### `FindFirmwareVolumeOffset` -/

theorem isFvSig_iff_take (b : Bytes) (h : 4 ≤ b.length) : isFvSig b = true ↔ b.take 4 = Valid.fvSig := by
  match b, h with
  | a :: c :: d :: e :: rest, _ =>
    simp only [List.take_succ_cons, List.take_zero, Valid.fvSig]
    constructor
    · intro hs
      unfold isFvSig at hs
      split at hs
      · rename_i heq
        simp only [List.cons.injEq] at heq
        obtain ⟨rfl, rfl, rfl, rfl, _⟩ := heq
        rfl
      · cases hs
    · intro hs
      simp only [List.cons.injEq, and_true] at hs
      obtain ⟨rfl, rfl, rfl, rfl⟩ := hs
      rfl

/-- what the probe loop found: a hit at `r`, none at the probes `o, o+8, …` before -/
theorem scanSig_spec : ∀ (fuel o : Nat) (data : Bytes) (r : Nat), o ≤ data.length →
    scanSig fuel o (data.drop o) = some r →
    o ≤ r ∧ (r - o) % 8 = 0 ∧ r + 4 < data.length ∧ sigAt data r ∧ ∀ k, o + 8 * k < r → ¬ sigAt data (o + 8 * k) := by
  intro fuel
  induction fuel with
  | zero => intro o data r _ h; simp [scanSig] at h
  | succ n ih =>
    intro o data r ho h
    rw [scanSig] at h
    have hl : (data.drop o).length = data.length - o := by simp
    split at h
    · rename_i h4
      split at h
      · rename_i hs
        cases h
        refine ⟨Nat.le_refl _, by simp, by omega, (isFvSig_iff_take _ (by omega)).mp hs, fun k hk => by omega⟩
      · rename_i hs
        rw [List.drop_drop] at h
        have ho8 : o + 8 ≤ data.length := by
          by_cases c : o + 8 ≤ data.length
          · exact c
          · exfalso
            rw [List.drop_of_length_le (by omega)] at h
            cases n with
            | zero => simp [scanSig] at h
            | succ m => simp [scanSig] at h
        obtain ⟨h1, h2, h3, h4', h5⟩ := ih (o + 8) data r ho8 h
        refine ⟨by omega, by omega, h3, h4', fun k hk => ?_⟩
        cases k with
        | zero =>
          intro c
          apply hs
          exact (isFvSig_iff_take _ (by omega)).mpr (by simpa using c)
        | succ j =>
          have := h5 j (by omega)
          have e : o + 8 * (j + 1) = o + 8 + 8 * j := by omega
          rw [e]; exact this
    · cases h

theorem findFvOffset_spec (data : Bytes) (off : Nat) (h : findFvOffset data = some off) :
    off % 8 = 0 ∧ off + 44 < data.length ∧ sigAt data (off + 40) ∧ ∀ k, 8 * k < off + 8 → ¬ sigAt data (32 + 8 * k) := by
  unfold findFvOffset at h
  split at h
  · cases h
  · rename_i h32
    split at h
    · rename_i o hs
      split at h
      · cases h
      · rename_i h40
        cases h
        obtain ⟨h1, h2, h3, h4, h5⟩ := scanSig_spec _ 32 data o (by omega) hs
        have e : o - 40 + 40 = o := by omega
        refine ⟨by omega, by omega, by rw [e]; exact h4, fun k hk => h5 k (by omega)⟩
    · cases h

/-! ### the padding in front of a volume -/

theorem sigAt_take (b : Bytes) (L x : Nat) (h : x + 4 ≤ L) : sigAt (b.take L) x ↔ sigAt b x := by
  unfold sigAt
  rw [window_of_take_eq (b.take L) b L x 4 (by rw [List.take_take]; simp) h]

theorem take4_of_take {l : Bytes} {n : Nat} (h : 4 ≤ n) : (l.take n).take 4 = l.take 4 := by
  rw [List.take_take]; congr 1; omega

/-- **what fiano keeps as padding in front of a volume is padding for the reader too**, whatever
    `Assemble` may later make of the volume's first 44 bytes -/
theorem padBefore_est (buf : Bytes) (off len : Nat) (h8 : off % 8 = 0)
    (hno : ∀ k, 8 * k < off + 8 → ¬ sigAt buf (32 + 8 * k)) (h64 : 64 ≤ len) (hfit : off + len ≤ buf.length) :
    PadBefore (buf.take off) ((buf.drop off).take len) := by
  have hpl : (buf.take off).length = off := by rw [List.length_take]; omega
  refine ⟨by rw [hpl]; exact h8, fun w' hc k hk => ?_⟩
  rw [hpl] at hk
  generalize hw : (buf.drop off).take len = w at *
  have hwl : w.length = len := by rw [← hw, List.length_take, List.length_drop]; omega
  have hw'l : w'.length = len := by rw [hc.len, hwl]
  by_cases hin : 8 * k + 44 ≤ off
  · rw [sigAt_left _ _ _ (by omega), sigAt_take _ _ _ (by omega)]
    have := hno (k + 1) (by omega)
    have e : 32 + 8 * (k + 1) = 8 * k + 40 := by omega
    rw [e] at this; exact this
  · -- the probe window lies in the volume header, at offset j
    obtain ⟨j, hj⟩ : ∃ j, 8 * k + 40 = off + j := ⟨8 * k + 40 - off, by omega⟩
    have hj32 : j ≤ 32 := by omega
    have hj8 : j % 8 = 0 := by omega
    rw [hj]
    have e1 : off + j = (buf.take off).length + j := by rw [hpl]
    rw [e1, sigAt_shift]
    -- the parser saw no signature there
    have hwj : ¬ sigAt w j := by
      have := hno (k + 1) (by omega)
      have e : 32 + 8 * (k + 1) = off + j := by omega
      rw [e] at this
      intro c
      apply this
      unfold sigAt at c ⊢
      rw [← hw, List.drop_take, List.take_take, List.drop_drop] at c
      have : min 4 (len - j) = 4 := by omega
      rw [this] at c
      exact c
    unfold sigAt at hwj ⊢
    have hcases : j = 0 ∨ j = 8 ∨ j = 16 ∨ j = 24 ∨ j = 32 := by omega
    rcases hcases with rfl | rfl | rfl | rfl | rfl
    · rw [window_of_take_eq w' w 16 0 4 hc.z16 (by omega)]; exact hwj
    · rw [window_of_take_eq w' w 16 8 4 hc.z16 (by omega)]; exact hwj
    · have e : (w'.drop 16).take 4 = ((w'.drop 16).take 16).take 4 := (take4_of_take (by omega)).symm
      have e2 : (w.drop 16).take 4 = ((w.drop 16).take 16).take 4 := (take4_of_take (by omega)).symm
      rw [e]
      rcases hc.guid with g | g
      · rw [g, ← e2]; exact hwj
      · rw [g]; decide
    · have e : (w'.drop 24).take 4 = (((w'.drop 16).take 16).drop 8).take 4 := by
        rw [List.drop_take, List.take_take, List.drop_drop]; rfl
      have e2 : (w.drop 24).take 4 = (((w.drop 16).take 16).drop 8).take 4 := by
        rw [List.drop_take, List.take_take, List.drop_drop]; rfl
      rw [e]
      rcases hc.guid with g | g
      · rw [g, ← e2]; exact hwj
      · rw [g]; decide
    · have e : (w'.drop 32).take 4 = ((w'.drop 32).take 8).take 4 := (take4_of_take (by omega)).symm
      have e2 : (w.drop 32).take 4 = ((w.drop 32).take 8).take 4 := (take4_of_take (by omega)).symm
      rw [e, hc.l8, ← e2]; exact hwj

end Fiano.Uefi
