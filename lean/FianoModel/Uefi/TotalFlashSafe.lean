/-
  C05 — safety of the flash-image level (TotalFlash.lean): FindSignature, ParseFlashDescriptor,
  NewFlashImage with its region walk, fillRegionGaps, NewMERegion / NewMEFPT, and `uefi.Parse` itself.
  For every byte string shorter than 2^63 the result is a tree or an ordinary error, and the tree
  satisfies `TreeWf` (every volume in it is `FvWf`).
-/
import FianoModel.Uefi.TotalFlash
import FianoModel.Uefi.TotalNvarSafe

namespace Fiano.Uefi.Total
open Fiano GoM Fiano.Uefi

/-! ### ME partition table -/

theorem startsWith_length : ∀ (b p : Bytes), startsWith b p = true → p.length ≤ b.length
  | _, [], _ => by simp
  | [], _ :: _, h => by simp [startsWith] at h
  | x :: xs, y :: ys, h => by
    simp only [startsWith, Bool.and_eq_true] at h
    have := startsWith_length xs ys h.2
    simp; omega

theorem indexOf_le (p : Bytes) : ∀ (b : Bytes) (i : Nat), indexOf p b = some i → i + p.length ≤ b.length
  | [], i, h => by
    simp only [indexOf] at h
    split at h
    · cases h
      cases p with
      | nil => simp
      | cons _ _ => simp at *
    · cases h
  | x :: xs, i, h => by
    simp only [indexOf] at h
    split at h
    · rename_i hs
      cases h
      have := startsWith_length _ _ hs
      simpa using this
    · cases hx : indexOf p xs with
      | none => simp [hx] at h
      | some k =>
        simp [hx] at h
        have := indexOf_le p xs k hx
        simp; omega

theorem newMeFptG_post (buf : Bytes) (m : Meter) : Post (newMeFptG buf) m (fun _ _ => True) := by
  unfold newMeFptG
  split
  · exact post_err
  · rename_i p hp
    have hle := indexOf_le _ _ _ hp
    simp only [fptSig, List.length_cons, List.length_nil] at hle
    try simp only []
    split
    · exact post_err
    · rename_i h28
      refine post_bind (post_sliceFromG (by omega) ?_)
      refine post_bind (post_binaryReadG ?_)
      intro _
      try simp only []
      split
      · exact post_err
      · rename_i hl
        refine post_bind (post_copyOutG (by omega) ?_)
        refine post_bind (post_allocG ?_)
        refine post_bind (post_sliceFromG (by simp; omega) ?_)
        refine post_bind (post_binaryReadG ?_)
        intro _
        exact post_pure trivial

/-- the partition table parser allocates at most twice its input: `make(l)` with `l ≤ len(buf)` and
    `make(PartitionCount)` entries of 32 bytes with `32·PartitionCount ≤ l` — both checked before the `make` -/
theorem newMeFptG_alloc (buf : Bytes) (m : Meter) :
    Post (newMeFptG buf) m (fun _ m' => m'.alloc ≤ m.alloc + 2 * buf.length ∧ m'.decompressed = m.decompressed) := by
  unfold newMeFptG
  split
  · exact post_err
  · rename_i p hp
    have hle := indexOf_le _ _ _ hp
    simp only [fptSig, List.length_cons, List.length_nil] at hle
    try simp only []
    split
    · exact post_err
    · rename_i h28
      refine post_bind (post_sliceFromG (by omega) ?_)
      refine post_bind (post_binaryReadG ?_)
      intro _
      try simp only []
      split
      · exact post_err
      · rename_i hl
        refine post_bind (post_copyOutG (by omega) ?_)
        refine post_bind (post_allocG ?_)
        refine post_bind (post_sliceFromG (by simp; omega) ?_)
        refine post_bind (post_binaryReadG ?_)
        intro _
        refine post_pure ⟨?_, rfl⟩
        simp only []
        omega

theorem newMeRegionG_post (buf : Bytes) (fr : FlashRegion) (m : Meter) :
    Post (newMeRegionG buf fr) m (fun r _ => r.fr = some fr ∧ ∃ b, r = .me b fr) := by
  unfold newMeRegionG
  refine post_bind (post_cloneG ?_)
  refine post_bind' (R := fun _ _ => True) ?_ ?_
  · exact post_catchErrG (Q := fun _ _ => True) (newMeFptG_post _ _) (fun _ _ _ => trivial) trivial
  · intro _ _ _
    exact post_pure ⟨rfl, _, rfl⟩

/-! ### descriptor -/

theorem findSignatureG_post (buf : Bytes) (m : Meter) :
    Post (findSignatureG buf) m (fun r m' => m' = m ∧ ∀ ms, r = some ms → (ms = 20 ∨ ms = 4) ∧ 20 ≤ buf.length) := by
  unfold findSignatureG
  split
  · exact post_pure ⟨rfl, by simp⟩
  · rename_i h20
    refine post_bind (post_sliceG (by omega) ?_)
    split
    · exact post_pure ⟨rfl, by intro ms h; cases h; exact ⟨Or.inl rfl, by omega⟩⟩
    · refine post_bind (post_sliceToG (by omega) ?_)
      split
      · exact post_pure ⟨rfl, by intro ms h; cases h; exact ⟨Or.inr rfl, by omega⟩⟩
      · refine post_bind (post_sliceToG (by omega) ?_)
        exact post_pure ⟨rfl, by simp⟩

theorem getD_map_toNat_lt (l : Bytes) (i : Nat) : (l.map (·.toNat)).getD i 0 < 256 := by
  simp only [List.getD_eq_getElem?_getD, List.getElem?_map]
  cases l[i]? with
  | none => simp
  | some x => simpa using x.toNat_lt

theorem decodeRegions_length (n : Nat) (b : Bytes) : (decodeRegions n b).length = n := by
  induction n generalizing b with
  | zero => rfl
  | succ n ih => simp [decodeRegions, ih]

/-- what `ParseFlashDescriptor` guarantees about the 4 KiB descriptor: the three parsed structures lie
    inside it and the region table has its 15 entries (it is a `[15]FlashRegion`) -/
def DescWf (d : Descriptor) : Prop :=
  d.region.regions.length = 15 ∧ d.buf.length = 4096 ∧ d.mapStart + 16 ≤ 4096 ∧ d.regionStart + 64 ≤ 4096 ∧
    d.masterStart + 12 ≤ 4096

theorem parseDescriptorG_post (buf : Bytes) (m : Meter) :
    Post (parseDescriptorG buf) m (fun d _ => DescWf d) := by
  unfold parseDescriptorG
  split
  · exact post_err
  · rename_i hlen
    have hlen : buf.length = 4096 := by simpa using hlen
    refine post_bind' (findSignatureG_post buf m) ?_
    intro r m1 hr
    split
    · exact post_err
    · rename_i ms
      have hms := (hr.2 ms rfl).1
      refine post_bind (post_sliceFromG (by omega) ?_)
      refine post_bind (post_binaryReadG ?_)
      intro _
      try simp only []
      have hrb := getD_map_toNat_lt (List.take 16 (List.drop ms buf)) 2
      have hmb := getD_map_toNat_lt (List.take 16 (List.drop ms buf)) 4
      simp only [DescMap.regionBase, DescMap.masterBase]
      refine post_ite (fun _ => post_err) (fun hchk => ?_)
      · refine post_bind (post_sliceG (by omega) ?_)
        split
        · exact post_err
        · refine post_bind (post_binaryReadG ?_)
          intro _
          try simp only []
          refine post_bind (post_sliceG (by omega) ?_)
          split
          · exact post_err
          · refine post_bind (post_binaryReadG ?_)
            intro _
            refine post_pure ⟨decodeRegions_length _ _, hlen, ?_, ?_, ?_⟩
            · simp only []; omega
            · simp only [DescMap.regionBase]; omega
            · simp only [DescMap.masterBase]; omega

/-! ### regions -/

def RegionWf : Region → Prop
  | .bios b => BiosWf b
  | _ => True

/-- a region of a flash image: well formed, and it has its `FlashRegion` (the pointer is never nil) -/
def RegionWfF (r : Region) : Prop := RegionWf r ∧ r.fr.isSome = true

/-- a region the table walk accepted: it has a table entry and lies inside the image -/
def RegionOk (len : Nat) (r : Region) : Prop :=
  RegionWf r ∧ ∃ fr, r.fr = some fr ∧ fr.baseOffset < len ∧ fr.endOffset ≤ len

theorem parseBiosG_post' (h : HooksG) (hcodec : CodecBounded h) (hnvar : NvarOk h) (z : Nat)
    (buf : Bytes) (fr : Option FlashRegion) (st : St) (m : Meter) (hb : buf.length < 2^63) :
    Post (parseBiosG h z buf fr st) m (fun r _ => BiosWf r.1 ∧ r.1.fr = fr) := by
  unfold parseBiosG
  refine post_bind (post_cloneG ?_)
  refine post_bind' (parseBiosElems_post h hcodec hnvar z _ buf 0 st _ hb (by omega)) ?_
  rintro ⟨es, st'⟩ m1 hes
  exact post_pure ⟨hes, rfl⟩

theorem parseRegionsG_post (h : HooksG) (hcodec : CodecBounded h) (hnvar : NvarOk h) (z : Nat)
    (buf : Bytes) (nr : Nat) (hb : buf.length < 2^63) (frs : List FlashRegion) (i : Nat) (st : St) (m : Meter) :
    Post (parseRegionsG h z buf nr frs i st) m (fun r _ => ∀ x ∈ r.1, RegionOk buf.length x) := by
  induction frs generalizing i st m with
  | nil => exact post_pure (by simp)
  | cons fr frs ih =>
    rw [parseRegionsG]
    split
    · exact post_pure (by simp)
    · split
      · exact ih _ _ _
      · rename_i hacc
        have hacc' : fr.valid = true ∧ fr.baseOffset < buf.length ∧ fr.endOffset ≤ buf.length := by
          refine ⟨?_, ?_, ?_⟩
          · cases hv : fr.valid with
            | true => rfl
            | false => exact absurd (Or.inl (by simp [hv])) hacc
          · exact Nat.lt_of_not_le (fun hh => hacc (Or.inr (Or.inl hh)))
          · exact Nat.le_of_not_lt (fun hh => hacc (Or.inr (Or.inr hh)))
        obtain ⟨hv, hbo, heo⟩ := hacc'
        have hbe : fr.baseOffset ≤ fr.endOffset := by
          simp only [FlashRegion.valid, Bool.and_eq_true, decide_eq_true_eq] at hv
          simp only [FlashRegion.baseOffset, FlashRegion.endOffset]
          omega
        refine post_bind (post_sliceG ⟨hbe, heo⟩ ?_)
        have hrl : ((buf.drop fr.baseOffset).take (fr.endOffset - fr.baseOffset)).length < 2^63 := by
          simp; omega
        refine post_bind' (R := fun r _ => RegionOk buf.length r.1) ?_ ?_
        · split
          · refine post_bind' (parseBiosG_post' h hcodec hnvar z _ (some fr) st _ hrl) ?_
            rintro ⟨b, st'⟩ m1 ⟨hwf, hfr⟩
            exact post_pure ⟨hwf, fr, by simpa [Region.fr] using hfr, hbo, heo⟩
          · split
            · refine post_bind' (newMeRegionG_post _ fr _) ?_
              rintro r m1 ⟨hfr, b, hb'⟩
              refine post_pure ⟨?_, fr, hfr, hbo, heo⟩
              subst hb'; trivial
            · refine post_bind (post_cloneG ?_)
              exact post_pure ⟨trivial, fr, rfl, hbo, heo⟩
        · rintro ⟨r, st'⟩ m1 hr
          refine post_bind' (ih _ _ _) ?_
          rintro ⟨rs, st''⟩ m2 hrs
          refine post_pure ?_
          intro x hx
          simp only [List.mem_cons] at hx
          cases hx with
          | inl hx => subst hx; exact hr
          | inr hx => exact hrs x hx

theorem mem_insertRegion (r x : Region) (l : List Region) (hx : x ∈ insertRegion r l) : x = r ∨ x ∈ l := by
  induction l with
  | nil => simp [insertRegion] at hx; exact Or.inl hx
  | cons y ys ih =>
    simp only [insertRegion] at hx
    split at hx
    · simp only [List.mem_cons] at hx ⊢
      rcases hx with hx | hx | hx
      · exact Or.inl hx
      · exact Or.inr (Or.inl hx)
      · exact Or.inr (Or.inr hx)
    · simp only [List.mem_cons] at hx ⊢
      rcases hx with hx | hx
      · exact Or.inr (Or.inl hx)
      · rcases ih hx with h | h
        · exact Or.inl h
        · exact Or.inr (Or.inr h)

theorem mem_sortRegions (x : Region) (l : List Region) (hx : x ∈ sortRegions l) : x ∈ l := by
  induction l with
  | nil => simp [sortRegions] at hx
  | cons y ys ih =>
    simp only [sortRegions, List.foldr_cons] at hx
    rcases mem_insertRegion _ _ _ hx with h | h
    · simp [h]
    · simp only [List.mem_cons]; exact Or.inr (ih (by simpa [sortRegions] using h))

theorem fillGapsG_post (fbuf : Bytes) (rs : List Region) (offset : Nat) (m : Meter)
    (hrs : ∀ x ∈ rs, RegionOk fbuf.length x) (ho : offset ≤ fbuf.length) :
    Post (fillGapsG fbuf fbuf.length rs offset) m (fun out _ => ∀ x ∈ out, RegionWfF x) := by
  induction rs generalizing offset m with
  | nil =>
    rw [fillGapsG]
    split
    · refine post_bind (post_sliceG ⟨ho, Nat.le_refl _⟩ ?_)
      exact post_pure (by intro x hx; simp at hx; subst hx; exact ⟨trivial, rfl⟩)
    · exact post_pure (by simp)
  | cons r rs ih =>
    rw [fillGapsG]
    obtain ⟨hwf, fr, hfr, hbo, heo⟩ := hrs r (by simp)
    rw [hfr]
    try simp only []
    split
    · exact post_err
    · rename_i hnb
      refine post_bind' (R := fun g _ => ∀ x ∈ g, RegionWfF x) ?_ ?_
      · split
        · refine post_bind (post_sliceG ⟨by omega, by omega⟩ ?_)
          exact post_pure (by intro x hx; simp at hx; subst hx; exact ⟨trivial, rfl⟩)
        · exact post_pure (by simp)
      · intro gap m1 hgap
        refine post_bind' (ih _ _ (fun x hx => hrs x (by simp [hx])) heo) ?_
        intro out m2 hout
        refine post_pure ?_
        intro x hx
        simp only [List.mem_append, List.mem_cons] at hx
        rcases hx with hx | hx | hx
        · exact hgap x hx
        · subst hx; exact ⟨hwf, by rw [hfr]; rfl⟩
        · exact hout x hx

def FlashWf (f : Flash) : Prop := DescWf f.ifd ∧ ∀ r ∈ f.regions, RegionWfF r

def TreeWf : Tree → Prop
  | .flash f => FlashWf f
  | .bios b => BiosWf b

theorem parseFlashG_post (h : HooksG) (hcodec : CodecBounded h) (hnvar : NvarOk h) (z : Nat)
    (buf : Bytes) (st : St) (m : Meter) (hb : buf.length < 2^63) :
    Post (parseFlashG h z buf st) m (fun r _ => FlashWf r.1) := by
  unfold parseFlashG
  split
  · exact post_err
  · rename_i h4096
    refine post_bind (post_cloneG ?_)
    refine post_bind (post_allocG ?_)
    refine post_bind (post_sliceToG (by omega) ?_)
    refine post_bind' (parseDescriptorG_post _ _) ?_
    intro ifd m1 hd
    have h15 := hd.1
    have h0 : 0 < ifd.region.regions.length := by omega
    rw [List.getElem?_eq_getElem h0]
    try simp only []
    split
    · exact post_err
    · refine post_bind' (parseRegionsG_post h hcodec hnvar z buf _ hb _ 0 st _) ?_
      rintro ⟨rs, st'⟩ m2 hrs
      refine post_bind' (fillGapsG_post buf (sortRegions rs) 4096 _ ?_ (by omega)) ?_
      · intro x hx
        exact hrs x (mem_sortRegions x rs hx)
      · intro rs' m3 hout
        exact post_pure ⟨hd, hout⟩

theorem parseWithG_post (h : HooksG) (hcodec : CodecBounded h) (hnvar : NvarOk h) (z : Nat)
    (buf : Bytes) (st : St) (m : Meter) (hb : buf.length < 2^63) :
    Post (parseWithG h z buf st) m (fun r _ => TreeWf r.1) := by
  unfold parseWithG
  refine post_bind' (findSignatureG_post buf m) ?_
  intro r m1 _
  split
  · refine post_bind' (parseFlashG_post h hcodec hnvar z buf st _ hb) ?_
    rintro ⟨f, st'⟩ m2 hf
    exact post_pure hf
  · refine post_bind' (parseBiosG_post h hcodec hnvar z buf none st _ hb) ?_
    rintro ⟨b, st'⟩ m2 hbw
    exact post_pure hbw

/-- **uefi.Parse is total** and returns a well-formed tree -/
theorem parseG_post (h : HooksG) (hcodec : CodecBounded h) (hnvar : NvarOk h) (z : Nat)
    (buf : Bytes) (m : Meter) (hb : buf.length < 2^63) :
    Post (parseG h z buf) m (fun t _ => TreeWf t) := by
  unfold parseG
  refine post_bind' (parseWithG_post h hcodec hnvar z buf {} m hb) ?_
  rintro ⟨t, st'⟩ m1 ht
  exact post_pure ht

end Fiano.Uefi.Total
