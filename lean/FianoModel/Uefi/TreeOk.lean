/-
  C02 (follow-up wp-c02b): the invariant `TreeOk` of the central theorem `edits_valid`.

  `TreeOk t` says, for every node whose buffer `Assemble` may emit verbatim or whose header it
  patches in place, that the independent reader (`Uefi/ValidImage.lean`) accepts that buffer and that
  the node's fields agree with it:

    section   a leaf that is kept (not UI / version / depex, which are regenerated) holds a section
              the reader accepts on its own (`SecBytesOk`); a volume-image section holds exactly one
              volume node; nothing is asked below a GUID-defined section (opaque to the reader);
    file      a file without sections and without NVAR store holds a file the reader accepts
              wherever its data alignment is respected (`GoodFile`); the header fields are bytes;
    volume    the buffer is the whole volume and the reader accepts it (`FvBytesOk`); HeaderLength,
              Blocks[0].Count, DataOffset, the file-system GUID and the attributes are those of the
              buffer; a resizable (nested) volume has one block-map entry with a power-of-two size;
    BIOS      paddings are 8-byte multiples in which the reader's `_FVH` scan finds nothing before
              the volume that follows (whatever `Assemble` may do to that volume's first 44 bytes);
              a trailing padding is one the reader's walk gets through;
    flash     the descriptor is 4 KiB and re-serialises to itself; the reader's verdict on any image
              with this descriptor and this size is its verdict on the BIOS region's bytes.

  The parser establishes it on every image the reader accepts (`ParseOk*.lean`), every edit
  operation and `Assemble` itself preserve it (`EditValidOps.lean`, `EditValidTree.lean`), and
  `Assemble` of a `TreeOk` tree writes an image the reader accepts (`EditValidTop.lean`).
-/
import FianoModel.Uefi.ReaderFuel
import FianoModel.Uefi.SectionLemmas

namespace Fiano.Uefi
open Fiano
open EditArith

/-! ### sections -/

/-- header length / size the reader uses for the section that starts `sb` -/
def secHl (sb : Bytes) : Nat :=
  (if Valid.fld sb 0 3 = 0xFFFFFF then 8 else 4) + (if Valid.fld sb 3 1 = 0x02 then 20 else 0)
def secSize (sb : Bytes) : Nat :=
  if Valid.fld sb 0 3 = 0xFFFFFF then Valid.fld sb 4 4 else Valid.fld sb 0 3

/-- a section buffer the reader accepts on its own (rules S1–S3): header present, declared size =
    its length ≥ its header length, and — for a volume image — a payload that is a valid volume -/
structure SecBytesOk (sb : Bytes) : Prop where
  len4 : 4 ≤ sb.length
  ext8 : Valid.fld sb 0 3 = 0xFFFFFF → 8 ≤ sb.length
  size : secSize sb = sb.length
  hdr  : secHl sb ≤ sb.length
  fv   : Valid.fld sb 3 1 = 0x17 → FvBytesOk (sb.drop (secHl sb))

theorem GoodSec.toBytesOk {sb : Bytes} (h : GoodSec sb) : SecBytesOk sb :=
  ⟨h.len4, h.ext8, h.size, h.hdr, fun c => absurd c h.notFv⟩

/-- the leaf section types whose body `Assemble` regenerates from the decoded fields -/
def regenKind (t : Nat) : Bool := t == 0x15 || t == 0x14 || isDepexType t

/-! ### volumes: the node's fields against its buffer -/

structure FvHdrOk (i : FvInfo) (buf : Bytes) : Prop where
  ok    : FvBytesOk buf
  len   : buf.length = i.length
  hl    : i.headerLen = Valid.fld buf 48 2
  cnt   : ∃ b0 bs, i.blocks = b0 :: bs ∧ b0.count = Valid.fld buf 56 4
  dOff  : i.dataOffset = Valid.alignUp (fvFirst buf) 8
  guid  : i.fsGuid = (buf.drop 16).take 16
  attrs : i.attrs = Valid.fld buf 44 4
  /-- growth rewrites `Length` and `Blocks[0].Count` only: one entry, power-of-two block size -/
  rsz   : i.resizable = true →
          ∃ b0 bs k, i.blocks = b0 :: bs ∧ b0.size = 2 ^ k ∧ k < 32 ∧ Valid.fld buf 60 4 = 2 ^ k ∧ Valid.fld buf 48 2 = 72

/-! ### the tree below a volume -/

mutual

def SecOk : Section → Prop
  | .mk i buf encap =>
    i.type < 256 ∧
    (if i.type = 0x02 then
       (∃ g, i.ts = some g ∧ g.guid.length = 16) ∧ (encap = [] → SecBytesOk buf)
     else
       i.ts = none ∧
       (if i.type = 0x17 then NodeFvOk encap
        else encap = [] ∧ (regenKind i.type = true ∨ SecBytesOk buf)))

/-- the child list of a volume-image section: exactly one volume -/
def NodeFvOk : List Node → Prop
  | [.fv v] => FvOk v
  | _ => False

def SecsOk : List Section → Prop
  | [] => True
  | s :: ss => SecOk s ∧ SecsOk ss

/-- `e` = erased byte of the enclosing volume -/
def FileOk : UInt8 → File → Prop
  | e, .mk i buf secs =>
    i.guid.length = 16 ∧ i.type < 256 ∧ i.attrs < 256 ∧ i.state < 256 ∧ i.extSize < 2 ^ 64 ∧
    (∀ nv, i.nvar = some nv → Valid.sectioned i.type = false ∧ nv.length = nv.buf.length) ∧
    ((i.nvar.isSome = true ∨ secs ≠ []) → i.type ≠ 0 ∧ i.type ≠ 255) ∧
    (i.nvar = none → secs = [] → GoodFile e (i.attrs, buf)) ∧
    SecsOk secs

def FilesOk : UInt8 → List File → Prop
  | _, [] => True
  | e, f :: fs => FileOk e f ∧ FilesOk e fs

def FvOk : Fv → Prop
  | .mk i buf files => FvHdrOk i buf ∧ FilesOk (fvErased buf) files

end

theorem FilesOk_mem {e : UInt8} : ∀ {fs : List File}, FilesOk e fs → ∀ f ∈ fs, FileOk e f
  | [], _, f, hf => by cases hf
  | g :: gs, h, f, hf => by
    rw [FilesOk] at h
    simp only [List.mem_cons] at hf
    rcases hf with rfl | hf
    · exact h.1
    · exact FilesOk_mem h.2 f hf

theorem FilesOk_of_mem {e : UInt8} : ∀ {fs : List File}, (∀ f ∈ fs, FileOk e f) → FilesOk e fs
  | [], _ => by rw [FilesOk]; trivial
  | g :: gs, h => by
    rw [FilesOk]
    exact ⟨h g (by simp), FilesOk_of_mem (fun f hf => h f (by simp [hf]))⟩

theorem SecsOk_mem : ∀ {ss : List Section}, SecsOk ss → ∀ s ∈ ss, SecOk s
  | [], _, s, hs => by cases hs
  | t :: ts, h, s, hs => by
    rw [SecsOk] at h
    simp only [List.mem_cons] at hs
    rcases hs with rfl | hs
    · exact h.1
    · exact SecsOk_mem h.2 s hs

theorem SecsOk_of_mem : ∀ {ss : List Section}, (∀ s ∈ ss, SecOk s) → SecsOk ss
  | [], _ => by rw [SecsOk]; trivial
  | t :: ts, h => by
    rw [SecsOk]
    exact ⟨h t (by simp), SecsOk_of_mem (fun s hs => h s (by simp [hs]))⟩

/-- what the hooks for NVAR stores must satisfy: a store reports its own length (`Assemble` sizes the
    file from `Length` and fills it from the buffer) -/
def Hooks.NvLaw (h : Hooks) : Prop :=
  (∀ b nv, h.nvarParse b = some nv → nv.length = nv.buf.length) ∧
  (∀ nv pol nv', nv.length = nv.buf.length → h.nvarAsm nv pol = .ok nv' → nv'.length = nv'.buf.length)

theorem Hooks.none_nvLaw : Hooks.none.NvLaw := by
  refine ⟨fun b nv h => ?_, fun nv pol nv' hl h => ?_⟩
  · simp [Hooks.none] at h
  · simp only [Hooks.none] at h
    cases h
    exact hl

end Fiano.Uefi
