/-
  C02, relayout layer: the bytes the file loop of `Assemble.Visit` produces (`layAll`), and the
  proof that the independent reader accepts them as a file area (`filesOk_layAll`).
-/
import FianoModel.Uefi.PlaceLemmas

namespace Fiano.Uefi
open EditArith
open Fiano

/-- everything the loop appends for the remaining files, the previous one having ended at `off` -/
def layAll (pol : UInt8) : List (Nat × Bytes) → Nat → Bytes
  | [], _ => []
  | (attrs, fb) :: rest, off => layOne pol off attrs fb ++ layAll pol rest (fileStart off attrs + fb.length)

/-- the end offset of the last file -/
def layEnd : List (Nat × Bytes) → Nat → Nat
  | [], off => off
  | (attrs, fb) :: rest, off => layEnd rest (fileStart off attrs + fb.length)

theorem le_fileStart (off attrs : Nat) (ha : attrs < 256) : off ≤ fileStart off attrs := by
  have := fileStart_spec off attrs ha
  have := roundUp8_ge off
  omega

theorem le_layEnd (l : List (Nat × Bytes)) (off : Nat) (h : ∀ x ∈ l, x.1 < 256) : off ≤ layEnd l off := by
  induction l generalizing off with
  | nil => exact Nat.le_refl _
  | cons x rest ih =>
    obtain ⟨a, fb⟩ := x
    have h1 := le_fileStart off a (h (a, fb) (by simp))
    have h2 := ih (fileStart off a + fb.length) (fun y hy => h y (by simp [hy]))
    simp only [layEnd]
    omega

theorem layOne_length (pol : UInt8) (off attrs : Nat) (fb : Bytes) (hp : pol = 0xFF ∨ pol = 0) (ha : attrs < 256)
    (hoff : off < 2 ^ 62) : off + (layOne pol off attrs fb).length = fileStart off attrs + fb.length := by
  have h8 := roundUp8_ge off
  have hs := fileStart_spec off attrs ha
  unfold layOne
  simp only
  by_cases hn : fileStart off attrs = roundUp off 8
  · rw [if_pos hn]; simp; omega
  · rw [if_neg hn]
    have := padBytes_length pol (fileStart off attrs - roundUp off 8) (by omega) (by omega) hp
    unfold padBytes at this
    simp [this]; omega

/-- **the file loop in closed form** -/
theorem placeFiles_eq (pol : UInt8) (hp : pol = 0xFF ∨ pol = 0) (l : List (Nat × Bytes)) (buf : Bytes) (off : Nat)
    (hl : ∀ x ∈ l, x.1 < 256 ∧ x.2.length ≠ 0) (hlen : buf.length = off) (hb : layEnd l off < 2 ^ 62) :
    placeFiles pol l buf off = .ok (buf ++ layAll pol l off) ∧ off + (layAll pol l off).length = layEnd l off := by
  induction l generalizing buf off with
  | nil => simp [placeFiles, layAll, layEnd]
  | cons x rest ih =>
    obtain ⟨a, fb⟩ := x
    have hx := hl (a, fb) (by simp)
    have hrest : ∀ y ∈ rest, y.1 < 256 ∧ y.2.length ≠ 0 := fun y hy => hl y (by simp [hy])
    simp only [layEnd] at hb
    have hmono := le_layEnd rest (fileStart off a + fb.length) (fun y hy => (hrest y hy).1)
    have hfs := le_fileStart off a hx.1
    have hoff : off < 2 ^ 62 := by omega
    have h1 := layOne_length pol off a fb hp hx.1 hoff
    simp only [placeFiles, layAll, layEnd]
    rw [placeFile_eq pol buf off a fb hp hx.1 hlen hoff hx.2]
    simp only
    have := ih (buf ++ layOne pol off a fb) (fileStart off a + fb.length) hrest (by simp [hlen]; omega) hb
    rw [this.1]
    constructor
    · simp [List.append_assoc]
    · simp only [List.length_append]
      omega

end Fiano.Uefi

namespace Fiano.Uefi
open EditArith
open Fiano

/-! ### the reader on concatenations -/

theorem allAre_replicate (e : UInt8) (n : Nat) : Valid.allAre e (List.replicate n e) = true := by
  unfold Valid.allAre
  simp [List.all_eq_true]

theorem allAre_append (e : UInt8) (a b : Bytes) : Valid.allAre e (a ++ b) = (Valid.allAre e a && Valid.allAre e b) := by
  unfold Valid.allAre; simp

theorem allAre_nil (e : UInt8) : Valid.allAre e [] = true := rfl

theorem fld_append_left (a b : Bytes) (k n : Nat) (h : k + n ≤ a.length) :
    Valid.fld (a ++ b) k n = Valid.fld a k n := by
  unfold Valid.fld
  rw [List.drop_append_of_le_length (by omega), List.take_append_of_le_length (by simp; omega)]

theorem fileSize_some_length (b : Bytes) (s hl : Nat) (h : Valid.fileSize b = some (s, hl)) :
    24 ≤ b.length ∧ hl ≤ b.length ∧ (hl = 24 ∨ hl = 32) := by
  unfold Valid.fileSize at h
  split at h
  · cases h
  · simp only at h
    split at h
    · split at h
      · cases h
      · split at h
        · cases h
        · cases h; omega
    · split at h
      · cases h
      · cases h; omega

theorem fileSize_append (x r : Bytes) (s hl : Nat) (h : Valid.fileSize x = some (s, hl)) :
    Valid.fileSize (x ++ r) = some (s, hl) := by
  have hlen := fileSize_some_length x s hl h
  unfold Valid.fileSize at h ⊢
  rw [if_neg (by omega)] at h
  rw [if_neg (by simp; omega)]
  simp only at h ⊢
  rw [fld_append_left x r 19 1 (by omega), fld_append_left x r 20 3 (by omega)]
  split at h
  · rename_i hL
    rw [if_pos hL]
    split at h
    · cases h
    · rename_i h32
      rw [if_neg (by simp; omega), fld_append_left x r 24 8 (by omega)]
      exact h
  · rename_i hL
    rw [if_neg hL]
    exact h

theorem fileOk_true (fuel : Nat) (fb : Bytes) (o : Nat) (h : Valid.fileOk fuel fb o = true) :
    ∃ hl, Valid.fileSize fb = some (fb.length, hl) ∧ hl ≤ fb.length := by
  cases fuel with
  | zero => simp [Valid.fileOk] at h
  | succ n =>
    unfold Valid.fileOk at h
    split at h
    · cases h
    · rename_i size hl heq
      simp only [Bool.and_eq_true, decide_eq_true_eq] at h
      obtain ⟨⟨⟨⟨⟨hs, hh⟩, _⟩, _⟩, _⟩, _⟩ := h
      exact ⟨hl, by rw [heq, hs], by omega⟩

/-- one step of the reader's file walk over `P ++ G ++ X ++ R`: `P` ends where the previous file
    ended, `G` is the erased filler to the 8-byte boundary, `X` a file the reader accepts there -/
theorem filesOk_step (fuel : Nat) (e : UInt8) (P X R : Bytes) (g : Nat)
    (hg : P.length + g = Valid.alignUp P.length 8)
    (hlive : Valid.allAre e (X.take 24) = false)
    (hok : Valid.fileOk fuel X (P.length + g) = true) :
    Valid.filesOk (fuel + 1) (P ++ (List.replicate g e ++ (X ++ R))) e P.length =
      Valid.filesOk fuel (P ++ (List.replicate g e ++ (X ++ R))) e (P.length + g + X.length) := by
  obtain ⟨hl, hfs, hhl⟩ := fileOk_true fuel X _ hok
  have hx24 := (fileSize_some_length X _ _ hfs).1
  rw [Valid.filesOk]
  simp only [← hg]
  have hlen : (P ++ (List.replicate g e ++ (X ++ R))).length = P.length + g + X.length + R.length := by
    simp; omega
  rw [if_neg (by rw [hlen]; omega), if_neg (by rw [hlen]; omega)]
  have hdropo : (P ++ (List.replicate g e ++ (X ++ R))).drop (P.length + g) = X ++ R := by
    rw [← List.append_assoc, List.drop_append_of_le_length (by simp), List.drop_of_length_le (by simp)]
    simp
  have hdropoff : (P ++ (List.replicate g e ++ (X ++ R))).drop P.length = List.replicate g e ++ (X ++ R) := by
    rw [List.drop_append_of_le_length (by simp), List.drop_of_length_le (by simp)]
    simp
  rw [hdropo, hdropoff]
  rw [List.take_append_of_le_length (by omega), hlive]
  simp only [Bool.false_eq_true, if_false]
  have hsub : P.length + g - P.length = g := by omega
  rw [hsub, List.take_append_of_le_length (by simp), List.take_of_length_le (by simp), allAre_replicate]
  rw [fileSize_append X R _ _ hfs]
  simp only [Bool.true_and]
  rw [List.take_append_of_le_length (by omega), List.take_of_length_le (by omega), hok]
  simp only [Bool.and_true, Bool.true_and]
  have h1 : decide (hl ≤ X.length) = true := by simpa using hhl
  have h2 : decide (P.length + g + X.length ≤ (P ++ (List.replicate g e ++ (X ++ R))).length) = true := by
    rw [hlen]; simp
  rw [h1, h2]
  simp

end Fiano.Uefi

namespace Fiano.Uefi
open EditArith
open Fiano

/-- what the relayout needs to know about a file it places: `x = (attribute byte, buffer)` -/
structure GoodFile (pol : UInt8) (x : Nat × Bytes) : Prop where
  attrs : x.1 < 256
  /-- its header is not mistaken for free space -/
  live : Valid.allAre pol (x.2.take 24) = false
  /-- the reader accepts it wherever its data alignment is respected -/
  ok : ∃ need, ∀ fuel, need ≤ fuel → ∀ o, (o + hdrLen x.1) % Valid.dataAlign x.1 = 0 → Valid.fileOk fuel x.2 o = true

theorem padBytes_live (pol : UInt8) (size : Nat) (hp : pol = 0xFF ∨ pol = 0) :
    Valid.allAre pol ((padBytes pol size).take 24) = false := by
  have hgl : (padInfo pol size 24).guid.length = 16 := by
    unfold padInfo
    rcases hp with h | h <;> simp [h, guidFF, guidZero]
  unfold padBytes
  rw [casm_buf' _ _ hgl]
  have h24 := fun a b c d e f g h => hdr24_length (padInfo pol size 24).guid hgl a b c d e f g h
  rw [List.take_append_of_le_length (by rw [h24]; omega), List.take_of_length_le (by rw [h24]; omega)]
  unfold hdr24
  rw [allAre_append]
  have : (padInfo pol size 24).type = 0xF0 := rfl
  rw [this]
  rcases hp with h | h <;> subst h <;> simp [Valid.allAre, byte]

theorem padBytes_ok (pol : UInt8) (size : Nat) (h24 : 24 ≤ size) (h64 : size < 2 ^ 64) (hp : pol = 0xFF ∨ pol = 0)
    (fuel o : Nat) : Valid.fileOk (fuel + 1) (padBytes pol size) o = true := by
  unfold padBytes
  have hs := padInfo_sizeFields pol size 24 h24 h64 hp
  have hlen : (List.replicate (padDataLen size) pol).length = padDataLen size := by simp
  apply casm_fileOk
  · rw [hlen]; exact hs
  · unfold padInfo setSize
    by_cases hb : size ≥ 0xFFFFFF <;> simp [hb, Valid.dataAlign, Nat.mod_one]
  · intro h
    unfold padInfo at h
    simp [Valid.sectioned] at h

theorem alignUp_of_aligned (n : Nat) (h : n % 8 = 0) : Valid.alignUp n 8 = n := by
  unfold Valid.alignUp; omega

/-- **the reader accepts what the file loop wrote**: after any prefix `P` (headers and the files laid
    before), the laid-out files followed by an erased tail form a valid file area -/
theorem filesOk_layAll (pol : UInt8) (hp : pol = 0xFF ∨ pol = 0) (l : List (Nat × Bytes))
    (hl : ∀ x ∈ l, GoodFile pol x) (P : Bytes) (F : Nat) (hb : layEnd l P.length < 2 ^ 62) :
    ∃ need, ∀ fuel, need ≤ fuel →
      Valid.filesOk fuel (P ++ (layAll pol l P.length ++ List.replicate F pol)) pol P.length = true := by
  induction l generalizing P with
  | nil =>
    refine ⟨1, fun fuel hf => ?_⟩
    obtain ⟨n, rfl⟩ : ∃ n, fuel = n + 1 := ⟨fuel - 1, by omega⟩
    simp only [layAll, List.nil_append]
    rw [Valid.filesOk]
    have hlen : (P ++ List.replicate F pol).length = P.length + F := by simp
    have hdrop : (P ++ List.replicate F pol).drop P.length = List.replicate F pol := by
      rw [List.drop_append_of_le_length (by simp), List.drop_of_length_le (by simp)]; simp
    rw [if_neg (by rw [hlen]; omega), hdrop, allAre_replicate]
    have h8 : P.length ≤ Valid.alignUp P.length 8 := by unfold Valid.alignUp; omega
    have hdrop2 : (P ++ List.replicate F pol).drop (Valid.alignUp P.length 8) =
        List.replicate (F - (Valid.alignUp P.length 8 - P.length)) pol := by
      rw [List.drop_append, List.drop_of_length_le h8]
      simp
    rw [hdrop2, List.take_replicate, allAre_replicate]
    split <;> rfl
  | cons x rest ih =>
    obtain ⟨a, fb⟩ := x
    have hx := hl (a, fb) (by simp)
    have hrest : ∀ y ∈ rest, GoodFile pol y := fun y hy => hl y (by simp [hy])
    simp only [layEnd] at hb
    have hmono := le_layEnd rest (fileStart P.length a + fb.length) (fun y hy => (hrest y hy).attrs)
    have hfs := le_fileStart P.length a hx.attrs
    have hoff : P.length < 2 ^ 62 := by omega
    have h8 := roundUp8_ge P.length
    have hspec := fileStart_spec P.length a hx.attrs
    obtain ⟨needX, hokX⟩ := hx.ok
    -- the prefix after this file
    obtain ⟨needR, hR⟩ := ih hrest (P ++ layOne pol P.length a fb) (by
      have := layOne_length pol P.length a fb hp hx.attrs hoff
      simp only [List.length_append]
      rw [this]; exact hb)
    have hPlen : (P ++ layOne pol P.length a fb).length = fileStart P.length a + fb.length := by
      have := layOne_length pol P.length a fb hp hx.attrs hoff
      simp only [List.length_append]; omega
    rw [hPlen] at hR
    refine ⟨needX + needR + 2, fun fuel hf => ?_⟩
    simp only [layAll]
    have hau : Valid.alignUp P.length 8 = roundUp P.length 8 := rfl
    by_cases hn : fileStart P.length a = roundUp P.length 8
    · -- no pad file
      obtain ⟨n, rfl⟩ : ∃ n, fuel = n + 1 := ⟨fuel - 1, by omega⟩
      have hlay : layOne pol P.length a fb = List.replicate (roundUp P.length 8 - P.length) pol ++ fb := by
        unfold layOne; simp only; rw [if_pos hn]; simp
      have hstep := filesOk_step n pol P fb
        (layAll pol rest (fileStart P.length a + fb.length) ++ List.replicate F pol)
        (roundUp P.length 8 - P.length) (by rw [hau]; omega) hx.live
        (hokX n (by omega) _ (by
          have : P.length + (roundUp P.length 8 - P.length) = fileStart P.length a := by omega
          rw [this]; exact hspec.2.2.1))
      rw [hlay]
      simp only [List.append_assoc] at hstep ⊢
      rw [hstep]
      have e : P.length + (roundUp P.length 8 - P.length) + fb.length = fileStart P.length a + fb.length := by omega
      rw [e]
      have := hR n (by omega)
      rw [hlay] at this
      simpa [List.append_assoc] using this
    · -- a pad file first
      obtain ⟨n, rfl⟩ : ∃ n, fuel = n + 2 := ⟨fuel - 2, by omega⟩
      have hps : 24 ≤ fileStart P.length a - roundUp P.length 8 := by omega
      have hlay : layOne pol P.length a fb = List.replicate (roundUp P.length 8 - P.length) pol ++
          (padBytes pol (fileStart P.length a - roundUp P.length 8) ++ fb) := by
        unfold layOne padBytes; simp only; rw [if_neg hn]; simp
      have hpl := padBytes_length pol (fileStart P.length a - roundUp P.length 8) hps (by omega) hp
      -- step over the pad file
      have hstep1 := filesOk_step (n + 1) pol P (padBytes pol (fileStart P.length a - roundUp P.length 8))
        (fb ++ (layAll pol rest (fileStart P.length a + fb.length) ++ List.replicate F pol))
        (roundUp P.length 8 - P.length) (by rw [hau]; omega) (padBytes_live pol _ hp)
        (padBytes_ok pol _ hps (by omega) hp n _)
      -- step over the file itself
      have hP2 : (P ++ (List.replicate (roundUp P.length 8 - P.length) pol ++
          padBytes pol (fileStart P.length a - roundUp P.length 8))).length = fileStart P.length a := by
        simp only [List.length_append, List.length_replicate, hpl]; omega
      have hstep2 := filesOk_step n pol
        (P ++ (List.replicate (roundUp P.length 8 - P.length) pol ++
          padBytes pol (fileStart P.length a - roundUp P.length 8))) fb
        (layAll pol rest (fileStart P.length a + fb.length) ++ List.replicate F pol) 0
        (by rw [hP2, alignUp_of_aligned _ hspec.2.1]; rfl) hx.live
        (hokX n (by omega) _ (by rw [hP2]; exact hspec.2.2.1))
      rw [hlay]
      simp only [List.append_assoc, List.replicate_zero, List.nil_append] at hstep1 hstep2 ⊢
      rw [hstep1]
      have e1 : P.length + (roundUp P.length 8 - P.length) +
          (padBytes pol (fileStart P.length a - roundUp P.length 8)).length = fileStart P.length a := by
        rw [hpl]; omega
      rw [e1]
      have hP2' : (P ++ (List.replicate (roundUp P.length 8 - P.length) pol ++
          padBytes pol (fileStart P.length a - roundUp P.length 8))).length = fileStart P.length a := hP2
      simp only [List.length_append, List.length_replicate] at hstep2
      have e2 : P.length + (roundUp P.length 8 - P.length +
          (padBytes pol (fileStart P.length a - roundUp P.length 8)).length) = fileStart P.length a := by
        rw [hpl]; omega
      rw [e2] at hstep2
      rw [hstep2]
      have := hR n (by omega)
      rw [hlay] at this
      simpa [List.append_assoc] using this

end Fiano.Uefi
