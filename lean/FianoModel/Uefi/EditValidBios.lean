/-
  C02 (follow-up wp-c02b), layer (d), part 2: the BIOS region.

  * `Compat w w'`    — what `Assemble` may do to the first 44 bytes of a top-level volume: nothing,
                       except replacing the file-system GUID by the FFSv3 one;
  * `PadBefore p w`  — the padding `p` in front of the volume `w` is a multiple of 8 bytes in which
                       the reader's `_FVH` probes find nothing before `w`, whatever compatible volume
                       stands there;
  * `ElemsOk`        — the invariant of the element list of a BIOS region;
  * `elems_walk`     — its concatenation is a region the reader's walk accepts;
  * `asmBiosElems_ok`— `Assemble` preserves it.
-/
import FianoModel.Uefi.EditValidWalk

namespace Fiano.Uefi
open Fiano
open EditArith

/-! ### moving a run behind a prefix -/

theorem sigAt_shift (P S : Bytes) (x : Nat) : sigAt (P ++ S) (P.length + x) ↔ sigAt S x := by
  unfold sigAt
  rw [List.drop_append, List.drop_of_length_le (by omega), List.nil_append]
  have e : P.length + x - P.length = x := by omega
  rw [e]

theorem sigAt_left (A R : Bytes) (x : Nat) (h : x + 4 ≤ A.length) : sigAt (A ++ R) x ↔ sigAt A x := by
  unfold sigAt
  rw [List.drop_append_of_le_length (by omega), List.take_append_of_le_length (by simp; omega)]

theorem hits_shift (P S : Bytes) (k s : Nat) (h : Hits S k s) : Hits (P ++ S) (P.length + k) (P.length + s) := by
  refine ⟨by have := h.le; omega, ?_, by have := h.fits; simp; omega, ?_, fun j hj => ?_⟩
  · have e : P.length + s - (P.length + k) = s - k := by omega
    rw [e]; exact h.step
  · have e : P.length + s + 40 = P.length + (s + 40) := by omega
    rw [e, sigAt_shift]; exact h.hit
  · have e : P.length + k + 8 * j + 40 = P.length + (k + 8 * j + 40) := by omega
    rw [e, sigAt_shift]
    exact h.first j (by omega)

theorem noHit_shift (P S : Bytes) (k : Nat) (h : NoHit S k) : NoHit (P ++ S) (P.length + k) := by
  intro j hj
  have e : P.length + k + 8 * j + 40 = P.length + (k + 8 * j + 40) := by omega
  rw [e, sigAt_shift]
  apply h j
  simp at hj
  omega

theorem walkSpec_shift (P S : Bytes) (k n : Nat) (h : WalkSpec S k n) : WalkSpec (P ++ S) (P.length + k) n := by
  induction h with
  | done pos n hno hn => exact .done _ _ (noHit_shift P S pos hno) hn
  | vol pos n s hh h64 hfit hok _ ih =>
    have hf : Valid.fld (P ++ S) (P.length + s + 32) 8 = Valid.fld S (s + 32) 8 := by
      have e : P.length + s + 32 = P.length + (s + 32) := by omega
      rw [e, fld_append_right]
    have hd : (P ++ S).drop (P.length + s) = S.drop s := by
      rw [List.drop_append, List.drop_of_length_le (by omega), List.nil_append]
      congr 1; omega
    refine .vol _ _ (P.length + s) (hits_shift P S pos s hh) (by rw [hf]; exact h64) (by rw [hf]; simp; omega)
      (by rw [hf, hd]; exact hok) ?_
    rw [hf]
    have e : P.length + s + Valid.fld S (s + 32) 8 = P.length + (s + Valid.fld S (s + 32) 8) := by omega
    rw [e]
    exact ih

theorem walkSpec_mono (b : Bytes) (pos n : Nat) (h : WalkSpec b pos n) : ∀ m, n ≤ m → WalkSpec b pos m := by
  induction h with
  | done pos n hno hn => intro m hm; exact .done _ _ hno (by omega)
  | vol pos n s hh h64 hfit hok _ ih => intro m hm; exact .vol _ _ s hh h64 hfit hok (ih (m + 1) (by omega))

/-- the run may start before the first hit -/
theorem walkSpec_skip (b : Bytes) (s n : Nat) (hh : Hits b 0 s) (hw : WalkSpec b s n) : WalkSpec b 0 n := by
  cases hw with
  | done _ _ hno hn =>
    exfalso
    have := hno 0 (by have := hh.fits; omega)
    exact this (by simpa using hh.hit)
  | vol _ _ s1 hh1 h64 hfit hok hrest =>
    have hs : s1 = s := by
      have h1 := hh1.le
      by_cases hc : s < s1
      · exfalso
        have := hh1.first 0 (by omega)
        exact this (by simpa using hh.hit)
      · omega
    subst hs
    exact .vol 0 n s1 hh h64 hfit hok hrest

end Fiano.Uefi

namespace Fiano.Uefi
open Fiano
open EditArith

/-! ### volumes at the top level -/

structure Compat (w w' : Bytes) : Prop where
  len  : w'.length = w.length
  z16  : w'.take 16 = w.take 16
  l8   : (w'.drop 32).take 8 = (w.drop 32).take 8
  sig  : (w'.drop 40).take 4 = (w.drop 40).take 4
  guid : (w'.drop 16).take 16 = (w.drop 16).take 16 ∨ (w'.drop 16).take 16 = guidFFS3

theorem Compat.refl (w : Bytes) : Compat w w := ⟨rfl, rfl, rfl, rfl, Or.inl rfl⟩

theorem Compat.trans {a b c : Bytes} (h1 : Compat a b) (h2 : Compat b c) : Compat a c :=
  ⟨by rw [h2.len, h1.len], by rw [h2.z16, h1.z16], by rw [h2.l8, h1.l8], by rw [h2.sig, h1.sig], by
    rcases h2.guid with g | g
    · rw [g]; exact h1.guid
    · exact Or.inr g⟩

def PadBefore (p w : Bytes) : Prop :=
  p.length % 8 = 0 ∧ ∀ w', Compat w w' → ∀ k, 8 * k < p.length → ¬ sigAt (p ++ w') (8 * k + 40)

theorem PadBefore.compat {p w w1 : Bytes} (h : PadBefore p w) (hc : Compat w w1) : PadBefore p w1 :=
  ⟨h.1, fun w' hc' => h.2 w' (hc.trans hc')⟩

def TopFvOk (v : Fv) : Prop := FvOk v ∧ v.info.resizable = false

/-- header facts of a volume node that satisfies the invariant -/
theorem fvOk_node_facts (v : Fv) (h : FvOk v) :
    64 ≤ v.buf.length ∧ Valid.fld v.buf 32 8 = v.buf.length ∧ sigAt v.buf 40 ∧ FvBytesOk v.buf := by
  obtain ⟨i, buf, files⟩ := v
  rw [FvOk] at h
  simp only [Fv.buf]
  obtain ⟨hok, _⟩ := fvHdr_facts i buf h.1
  obtain ⟨w64, w32, _⟩ := hdrOk_walk buf hok
  refine ⟨w64, w32, ?_, h.1.ok⟩
  unfold hdrOk at hok
  simp only [Bool.and_eq_true, decide_eq_true_eq] at hok
  exact hok.2.1.1.1.1.2

/-- a top-level volume and what `Assemble` made of it are compatible -/
theorem compat_of_stable (v v' : Fv) (hv : FvOk v) (hv' : FvOk v') (hs : FvStable v v') (hr : v.info.resizable = false) :
    Compat v.buf v'.buf := by
  obtain ⟨l64, l32, _, _⟩ := fvOk_node_facts v hv
  obtain ⟨l64', l32', _, _⟩ := fvOk_node_facts v' hv'
  have hlen := hs.same hr
  refine ⟨hlen, ?_, ?_, hs.win 40 4 (Or.inr (Or.inl ⟨by omega, by omega⟩)) (by omega), hs.guid⟩
  · have := hs.win 0 16 (Or.inl (by omega)) (by omega)
    simpa using this
  · have h1 := slice_of_fld v.buf 32 8 _ (by omega) l32
    have h2 := slice_of_fld v'.buf 32 8 _ (by omega) l32'
    unfold slice at h1 h2
    rw [h1, h2, hlen]

/-! ### the element list -/

def ElemsOk : List BiosElem → Prop
  | [] => True
  | [.pad p _] => ∀ n, 0 < n → WalkSpec p 0 n
  | .pad p _ :: .fv v :: es => PadBefore p v.buf ∧ ElemsOk (.fv v :: es)
  | .pad _ _ :: .pad _ _ :: _ => False
  | .fv v :: es => TopFvOk v ∧ ElemsOk es

def hasFv : List BiosElem → Bool
  | [] => false
  | .pad _ _ :: es => hasFv es
  | .fv _ :: _ => true

def catBufs (es : List BiosElem) : Bytes := (es.map BiosElem.buf).flatten

theorem catBufs_cons (e : BiosElem) (es : List BiosElem) : catBufs (e :: es) = e.buf ++ catBufs es := by
  unfold catBufs; simp

theorem noHit_nil (pos : Nat) : NoHit [] pos := by
  intro k hk; simp at hk

/-- **the concatenation of the elements is a region the reader's walk accepts** -/
theorem elems_walk : ∀ (es : List BiosElem) (n : Nat), ElemsOk es → (0 < n ∨ hasFv es = true) →
    WalkSpec (catBufs es) 0 n
  | [], n, _, hn => by
    have : 0 < n := by rcases hn with c | c; exact c; simp [hasFv] at c
    exact .done 0 n (noHit_nil 0) this
  | [.pad p o], n, hok, hn => by
    rw [ElemsOk] at hok
    have : 0 < n := by rcases hn with c | c; exact c; simp [hasFv] at c
    have e : catBufs [.pad p o] = p := by simp [catBufs, BiosElem.buf]
    rw [e]
    exact hok n this
  | .pad p o :: .pad q o2 :: es, n, hok, _ => by
    rw [ElemsOk] at hok; exact hok.elim
  | .pad p o :: .fv v :: es, n, hok, _ => by
    rw [ElemsOk] at hok
    obtain ⟨hpad, hrest⟩ := hok
    have hrest' := hrest
    rw [ElemsOk] at hrest'
    obtain ⟨l64, l32, hsig, _⟩ := fvOk_node_facts v hrest'.1.1
    have ih := elems_walk (.fv v :: es) n hrest (Or.inr rfl)
    rw [catBufs_cons]
    simp only [BiosElem.buf]
    have hsh := walkSpec_shift p (catBufs (.fv v :: es)) 0 n ih
    rw [catBufs_cons] at hsh ⊢
    simp only [BiosElem.buf] at hsh ⊢
    apply walkSpec_skip _ p.length n ?_ (by simpa using hsh)
    refine ⟨Nat.zero_le _, by simpa using hpad.1, by simp; omega, ?_, fun k hk => ?_⟩
    · have e : p.length + 40 = p.length + 40 := rfl
      rw [sigAt_shift, sigAt_left _ _ _ (by omega)]
      exact hsig
    · have h1 := hpad.2 v.buf (Compat.refl _) k (by omega)
      have e : 0 + 8 * k + 40 = 8 * k + 40 := by omega
      rw [e, ← List.append_assoc, sigAt_left _ _ _ (by simp; omega)]
      exact h1
  | .fv v :: es, n, hok, _ => by
    rw [ElemsOk] at hok
    obtain ⟨htop, hrest⟩ := hok
    obtain ⟨l64, l32, hsig, hbytes⟩ := fvOk_node_facts v htop.1
    have ih := elems_walk es (n + 1) hrest (Or.inl (by omega))
    have hsh := walkSpec_shift v.buf (catBufs es) 0 (n + 1) ih
    rw [catBufs_cons]
    simp only [BiosElem.buf]
    have hf : Valid.fld (v.buf ++ catBufs es) (0 + 32) 8 = v.buf.length := by
      rw [fld_append_left _ _ _ _ (by omega)]; exact l32
    refine .vol 0 n 0 ⟨Nat.le_refl _, by simp, by simp; omega, ?_, fun k hk => by omega⟩ (by rw [hf]; exact l64)
      (by rw [hf]; simp) ?_ ?_
    · rw [sigAt_left _ _ _ (by omega)]; exact hsig
    · rw [hf]
      simp only [List.drop_zero]
      rw [List.take_append_of_le_length (by omega), List.take_of_length_le (by omega)]
      exact hbytes
    · rw [hf]
      simpa using hsh

end Fiano.Uefi
