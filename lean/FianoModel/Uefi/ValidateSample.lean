/-
  C09b at image level: sample images and an executable form of the hypotheses of `alter_detected_image`
  (non-vacuity facts and the witnesses of the two exceptions are evaluated by the kernel on them).
  Core Lean only.
-/
import FianoModel.Uefi.ValidateTree

namespace Fiano.Uefi.C09
open Fiano Fiano.Uefi Fiano.Uefi.Spec

/-- `hyps` is the conjunction of the hypotheses of `alter_detected_image`: when it evaluates to `true`, the
    theorem applies and the alteration is detected -/
theorem hyps_detected (b : Bytes) (path : Path) (r : Nat) (y : UInt8) (h : hyps b path r y = true) :
    ∃ t st il, parseWith Hooks.none (defaultFuel b) b {} = .ok (t, st) ∧ locTree t path = some il ∧
      parseValidate Hooks.none (setByte b (il.pos + r) y) ≠ .ok [] := by
  unfold hyps hypsBut at h
  cases hp : parseWith Hooks.none (defaultFuel b) b {} with
  | error e => rw [hp] at h; simp at h
  | ok p =>
    obtain ⟨t, st⟩ := p
    rw [hp] at h
    simp only [Bool.and_eq_true, decide_eq_true_eq] at h
    obtain ⟨hval, h⟩ := h
    cases hl : locTree t path with
    | none => rw [hl] at h; simp at h
    | some il =>
      rw [hl] at h
      simp only [Bool.and_eq_true, decide_eq_true_eq, beq_iff_eq] at h
      obtain ⟨⟨⟨⟨⟨⟨⟨hreg, hlt⟩, hne⟩, hpr⟩, hbig⟩, hsig⟩, hscan⟩, hfree⟩ := h
      refine ⟨t, st, il, rfl, hl, ?_⟩
      have hne' : b[il.pos + r]'hlt ≠ y := by
        have e : b.getD (il.pos + r) 0 = b[il.pos + r]'hlt := by
          rw [List.getD_eq_getElem?_getD, List.getElem?_eq_getElem hlt]; rfl
        rw [e] at hne; exact hne
      have ha := alter_setByte b (il.pos + r) y hlt hne'
      refine alter_detected_image Hooks.none hp hval hl hreg ha hpr hbig hsig (by simpa using hscan) ?_
      intro f hf
      rw [hf] at hfree
      simpa using hfree

/-- **the verdict `T` of the driver is the theorem**: when `verdictAt` answers `T` for "byte `p` becomes
    `y`" on an image that parses and validates cleanly, `alter_detected_image` applies and the altered image
    is refused by the parser or flagged by validate -/
theorem verdictAt_T_detected (b : Bytes) (t : Tree) (st : St) (p : Nat) (y : UInt8)
    (hparse : parseWith Hooks.none (defaultFuel b) b {} = .ok (t, st)) (hval : validate t st = [])
    (hbig : b.length + 8 < 2 ^ 64) (hv : verdictAt b (nodesOf t) p y = 'T') :
    parseValidate Hooks.none (setByte b p y) ≠ .ok [] := by
  unfold verdictAt at hv
  split at hv
  · exact absurd hv (by decide)
  · rename_i hch
    have hlt : p < b.length := by
      by_cases h : p < b.length
      · exact h
      · exact absurd (Or.inl h) hch
    have hne : b.getD p 0 ≠ y := fun h => hch (Or.inr h)
    simp only at hv
    split at hv
    · exact absurd hv (by decide)
    · split at hv
      · rename_i hT
        rw [List.contains_iff_mem, List.mem_map] at hT
        obtain ⟨n, hn, hone⟩ := hT
        rw [List.mem_filter] at hn
        obtain ⟨hmem, hcov⟩ := hn
        simp only [Bool.and_eq_true, decide_eq_true_eq] at hcov
        unfold nodesOf at hmem
        rw [List.mem_filterMap] at hmem
        obtain ⟨path, _, hloc⟩ := hmem
        cases hl : locTree t path with
        | none => rw [hl] at hloc; simp at hloc
        | some il =>
          rw [hl] at hloc
          simp only [Option.map_some, Option.some.injEq] at hloc
          subst hloc
          simp only at hcov hone
          -- read the hypotheses off `verdictOne = 'T'`
          unfold verdictOne at hone
          simp only at hone
          split at hone
          · exact absurd hone (by decide)
          · rename_i hreg
            split at hone
            · exact absurd hone (by decide)
            · rename_i hsig
              split at hone
              · exact absurd hone (by decide)
              · rename_i hs
                split at hone
                · exact absurd hone (by decide)
                · rename_i hz
                  have hpos : il.pos + (p - il.pos) = p := by omega
                  have hne' : b[p]'hlt ≠ y := by
                    have e : b.getD p 0 = b[p]'hlt := by
                      rw [List.getD_eq_getElem?_getD, List.getElem?_eq_getElem hlt]; rfl
                    rw [e] at hne; exact hne
                  have ha := alter_setByte b p y hlt hne'
                  rw [← hpos] at ha
                  have hres := alter_detected_image Hooks.none (r := p - il.pos) hparse hval hl
                    (by simpa using hreg) ha hcov.2 hbig (by rw [hpos]; simpa using hsig)
                    (by
                      rw [hpos]
                      have : ScanKept ((setByte b p y).drop il.region) il.base il.vol (il.loc.off + (p - il.pos)) := by
                        simpa using hz
                      exact this)
                    (by
                      intro f hf
                      rw [hpos]
                      rw [hf] at hone
                      simp only at hone
                      split at hone
                      · exact absurd hone (by decide)
                      · rename_i hfm; simpa using hfm)
                  rw [hpos] at hres
                  exact hres
      · exfalso
        rename_i hT
        -- the last verdict is `T` but `T` is not among the verdicts
        have : ∀ (l : List Char), l.getLastD 'n' = 'T' → l.contains 'T' = true := by
          intro l
          induction l with
          | nil => intro h; exact absurd h (by decide)
          | cons a l ih =>
            intro h
            cases l with
            | nil =>
              simp only [List.getLastD_cons, List.getLast?_singleton] at h
              simp at h
              simp [h]
            | cons c l2 =>
              have h2 : (c :: l2).getLastD 'n' = 'T' := by
                simpa [List.getLastD] using h
              have := ih h2
              simp only [List.contains_cons, Bool.or_eq_true] at this ⊢
              exact Or.inr this
        exact hT (this _ hv)

def g (n : Nat) : Guid := (List.range 16).map (fun i => UInt8.ofNat (n + i))

/-- a volume with a checksummed driver (UI + raw section), a checksummed RAW file and a pad file -/
def fvA : FvI :=
  .ffs (List.replicate 16 0) false 0x0004FEFF 2 0 [⟨28, 8⟩] none
    [ .sect (g 1) 7 0x40 0xF8 [.ui [0x41, 0x42], .leaf 0x19 false [1, 2, 3, 4, 5]],
      .leaf (g 0x30) 38 211 1 0x40 0xF8 false [1, 2, 3, 4, 5, 6, 7, 8, 9],
      .leaf guidFF 0 0xAA 0xF0 0 0xF8 false (List.replicate 8 0xFF) ] 32

/-- a volume nested in a section: one checksummed RAW file -/
def fvC : FvI :=
  .ffs (List.replicate 16 0) false 0x0004FEFF 2 0 [⟨21, 8⟩] none
    [ .leaf (g 0x40) 39 220 1 0x40 0xF8 false [1, 2, 3, 4, 5, 6, 7, 8] ] 64

/-- a volume whose only file is a checksummed volume-image file holding `fvC` -/
def fvB : FvI :=
  .ffs (List.replicate 16 0) false 0x0004FEFF 2 0 [⟨42, 8⟩] none
    [ .sect (g 0x50) 0x0B 0x40 0xF8 [.fvimg fvC] ] 68

/-- a BIOS region: `fvA`, 16 bytes of padding, `fvB` (with `fvC` inside), a 3-byte tail -/
def deepBios : BiosI := ⟨[([], fvA), (List.replicate 16 0xFF, fvB)], [1, 2, 3]⟩
def deepImg : Img := .bios deepBios

/-- a 4 KiB descriptor: signature at 16, region section at 0x40 (BIOS = block 1, every other entry
    invalid), master section at 0x80 -/
def deepDesc : Bytes :=
  List.replicate 16 0xFF ++ [0x5a, 0xa5, 0xf0, 0x0f] ++
  [0, 0, 4, 0, 8, 0, 0, 0, 0, 0, 0, 0, 0, 0, 0, 0] ++ List.replicate 28 0x5A ++
  [0x34, 0x12, 0x00, 0x10, 1, 0, 1, 0] ++ (List.replicate 14 [0xFF, 0x7F, 0, 0]).flatten ++
  [0, 0, 0xFF, 0xFF, 0, 0, 0xFF, 0xFF, 0x18, 0x01, 0x08, 0x08] ++ List.replicate 3956 0x5A

/-- a flash image: descriptor and a 4 KiB BIOS region with the same volumes -/
def deepFlash : Img :=
  .flash ⟨deepDesc, [.bios ⟨[([], fvA), (List.replicate 16 0xFF, fvB)], List.replicate 3520 0xFF⟩]⟩

/-! ### the two exceptions -/

/-- F-C09-zerovector (corpus/C09/x-zerovector-signature.json): 40 bytes of padding that look like the start
    of an NVAR-file-system volume header, then a volume whose zero vector reads `_FVG…` -/
def zvPad : Bytes := [0x9f, 0x79] ++ List.replicate 14 0 ++ guidNVAR ++ [0xd0, 0, 0, 0, 0, 0, 0, 0]
def zvImg : Img :=
  .bios ⟨[(zvPad, .ffs [0x5f, 0x46, 0x56, 0x47, 0, 8, 0, 0, 0x70, 0, 0, 0, 0, 0, 0, 2] false 0x0004FEFF 2 0
      [⟨21, 8⟩] none [.leaf (g 0x10) 39 220 1 0x40 0xF8 false [1, 2, 3, 4, 5, 6, 7, 8]] 64)], []⟩

/-- F-C09-freespace (corpus/C09/x-size-becomes-freespace.json): a RAW file of 0x00FFFF bytes whose body is
    erased, followed by a checksummed file -/
def fsImg : Img :=
  .bios ⟨[([], .ffs (List.replicate 16 0) false 0x0004FEFF 2 0 [⟨8213, 8⟩] none
      [ .leaf (g 0x10) 137 170 1 0 0xF8 false (List.replicate 65511 0xFF),
        .leaf (g 0x30) 39 220 1 0x40 0xF8 false [1, 2, 3, 4, 5, 6, 7, 8] ] 64)], []⟩

end Fiano.Uefi.C09
