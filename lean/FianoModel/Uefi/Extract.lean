/-
  UEFI core model — `utk IMAGE extract DIR` and `utk DIR save OUT`
  (pkg/visitors/extract.go, pkg/visitors/parsedir.go, pkg/utk/utk.go, JSON marshalling of pkg/uefi).

  * `extractEntries t`   the files written by `Extract.Visit`, in visiting order, each with its
                         path as a list of components (`filepath.Join` of the visitor's DirPath and the
                         file name) and the bytes written;
  * `extractDir t`       the same with flat `/`-joined paths: the directory as a sequence of writes
                         (`Dir`; reading a path returns the *last* write, as the file system does);
  * `summaryOf t`        what `summary.json` holds: the tree without its buffers and without the
                         `json:"-"` fields (zero), every node carrying its `ExtractPath`.  The summary
                         is represented as a `Tree` whose buffer slot holds the ExtractPath text
                         (empty = no ExtractPath) — Go's nodes have no exported buffer, so the slot is free;
  * `parseDir d junk s`  `ParseDir.Parse`: every node's buffer is re-read from its ExtractPath
                         (`nil` when there is none); `File.Header.Size` is whatever
                         `ThreeUint8.UnmarshalJSON` makes of the JSON text: the parameter `junk`
                         (`goJunk` is what the current code produces);
  * `dirSave`            `utk DIR save OUT`: ParseDir, `Assemble.Run`, then `Save` (which assembles a
                         second time) in a fresh process (erase polarity not yet set);
  * `directSave`         `utk IMAGE save OUT` on an already parsed tree: one `Assemble` pass;
  * `strip junk t`       the tree `parseDir (extractDir t) junk (summaryOf t)` is proved to be
                         (Props/C07: `parseDir_extract`).

  NVAR stores (follow-up wp-c07b): a RAW file that carries a store (`nvar = some _`) writes the files of
  the NVar arm of `Extract.Visit` for the entries of its store — the store being what C10's model of
  `NewNVarStore` (FianoModel/Nvram/Model.lean, imported) reads from the file's own bytes under the erase
  polarity of the enclosing volume (`nvOfFile`, `nvEntries`).  summary.json / ParseDir / Assemble of the
  entries themselves are modelled separately (Uefi/ExtractNvar.lean, ExtractNvarLoad.lean); `okTree`
  asks for a tree without store, `okNvTree` (follow-up wp-c07c, Uefi/ExtractNvTreeDefs.lean) allows them: there
  the hooks are C10's parser / assembler and the tree-level round trip is proved for trees with stores.
  The ME partition table (no file is written for it, its JSON is not looked at by `Assemble`) is modelled at
  region level in Uefi/ExtractMe.lean (follow-up wp-c07c); the tree's `Region.me` does not carry it.
  The JSON text layer itself (`encoding/json`) and the file system are assumed:
  a field that is marshalled comes back with the value it had.

  Core Lean only.
-/
import FianoModel.Uefi.Assemble
import FianoModel.Nvram.Model

namespace Fiano.Uefi
open Fiano

/-! ### path text -/

/-- one path component (ASCII bytes, never contains `/`) -/
abbrev Comp := Bytes

def asc (l : List Char) : Bytes := l.map (fun c => UInt8.ofNat c.toNat)

def slash : UInt8 := 0x2f

/-- `filepath.Join` of clean, non-empty components -/
def joinPath : List Comp → Bytes
  | [] => []
  | [c] => c
  | c :: cs => c ++ slash :: joinPath cs

/-- little-endian base-10 digits (`fuel > n` always suffices) -/
def digits10 : Nat → Nat → List Nat
  | 0, _ => []
  | fuel+1, n => if n < 10 then [n] else (n % 10) :: digits10 fuel (n / 10)

def digits16 : Nat → Nat → List Nat
  | 0, _ => []
  | fuel+1, n => if n < 16 then [n] else (n % 16) :: digits16 fuel (n / 16)

/-- digit characters of `%d` / `%x` -/
def lowDigit (d : Nat) : UInt8 := UInt8.ofNat (if d < 10 then 48 + d else 87 + d)
/-- digit characters of `%X` -/
def upDigit (d : Nat) : UInt8 := UInt8.ofNat (if d < 10 then 48 + d else 55 + d)

/-- `fmt.Sprint(n)` for an unsigned integer -/
def decStr (n : Nat) : Bytes := ((digits10 (n + 1) n).reverse).map lowDigit
/-- `fmt.Sprintf("%#x", n)` for an unsigned integer -/
def hexStr (n : Nat) : Bytes := asc ['0', 'x'] ++ ((digits16 (n + 1) n).reverse).map lowDigit

def hex2U (x : UInt8) : Bytes := [upDigit (x.toNat / 16), upDigit (x.toNat % 16)]

/-- `guid.GUID.String()`: `%02X` of the bytes in the order 3 2 1 0 - 5 4 - 7 6 - 8 9 - 10 … 15 -/
def guidStr (g : Guid) : Bytes :=
  let b (i : Nat) : Bytes := hex2U (g.getD i 0)
  b 3 ++ b 2 ++ b 1 ++ b 0 ++ asc ['-'] ++ b 5 ++ b 4 ++ asc ['-'] ++ b 7 ++ b 6 ++ asc ['-'] ++ b 8 ++ b 9
    ++ asc ['-'] ++ b 10 ++ b 11 ++ b 12 ++ b 13 ++ b 14 ++ b 15

/-- `flashRegionTypeNames` of region.go, indexed by region type 0 … 14 -/
def regionNames : List Bytes :=
  [asc ['B','I','O','S'], asc ['M','E'], asc ['G','b','E'], asc ['P','D'], asc ['D','e','v','E','x','p','1'],
   asc ['B','I','O','S','2'], asc ['M','i','c','r','o','c','o','d','e'], asc ['E','C'],
   asc ['D','e','v','E','x','p','2'], asc ['I','E'], asc ['1','0','G','b','E','1'], asc ['1','0','G','b','E','2'],
   asc ['R','e','s','e','r','v','e','d','1'], asc ['R','e','s','e','r','v','e','d','2'], asc ['P','T','T']]

/-- `FlashRegionType.String()` -/
def regionName (t : Int) : Bytes :=
  match (if 0 ≤ t then regionNames[t.toNat]? else none) with
  | some n => n
  | none =>
    asc ['U','n','k','n','o','w','n',' ','R','e','g','i','o','n',' ','(']
      ++ (if t < 0 then asc ['-'] ++ decStr (-t).toNat else decStr t.toNat) ++ asc [')']

def extSec : Bytes := asc ['.','s','e','c']
def extFfs : Bytes := asc ['.','f','f','s']
def extBin : Bytes := asc ['.','b','i','n']
def nameFv : Bytes := asc ['f','v','.','b','i','n']
def nameFvh : Bytes := asc ['f','v','h','.','b','i','n']
def namePad : Bytes := asc ['p','a','d','.','b','i','n']
def nameIfd : Bytes := asc ['i','f','d']
def nameIfdBin : Bytes := asc ['f','l','a','s','h','d','e','s','c','r','i','p','t','o','r','.','b','i','n']
def nameBios : Bytes := asc ['b','i','o','s']
def nameBiosBin : Bytes := asc ['b','i','o','s','r','e','g','i','o','n','.','b','i','n']
def nameMe : Bytes := asc ['m','e']
def nameMeBin : Bytes := asc ['m','e','r','e','g','i','o','n','.','b','i','n']
def biospadPrefix : Bytes := asc ['b','i','o','s','p','a','d','_']

/-! ### where each node goes (the `case` arms of `Extract.Visit`) -/

/-- the section's directory: its FileOrder -/
def secDir (dir : List Comp) (i : SecInfo) : List Comp := dir ++ [decStr i.fileOrder]
def secLeaf (dir : List Comp) (i : SecInfo) : List Comp := secDir dir i ++ [decStr i.fileOrder ++ extSec]

/-- the file's directory: its GUID, then the running global index ("to make unique ids unique") -/
def fileDir (dir : List Comp) (i : FileInfo) (idx : Nat) : List Comp := dir ++ [guidStr i.guid, decStr idx]
def fileLeaf (dir : List Comp) (i : FileInfo) (idx : Nat) : List Comp :=
  fileDir dir i idx ++ [guidStr i.guid ++ extFfs]

/-- the volume's directory: its offset in hex -/
def fvDir (dir : List Comp) (i : FvInfo) : List Comp := dir ++ [hexStr i.fvOffset]
def fvLeaf (dir : List Comp) (i : FvInfo) (hasFiles : Bool) : List Comp :=
  fvDir dir i ++ [if hasFiles then nameFvh else nameFv]

def padLeaf (dir : List Comp) (off : Nat) : List Comp := dir ++ [biospadPrefix ++ hexStr off, namePad]
def biosDir (dir : List Comp) : List Comp := dir ++ [nameBios]
def biosLeaf (dir : List Comp) : List Comp := biosDir dir ++ [nameBiosBin]
def meLeaf (dir : List Comp) : List Comp := dir ++ [nameMe, nameMeBin]
def rawLeaf (dir : List Comp) (fr : FlashRegion) (t : Int) : List Comp :=
  dir ++ [regionName t, hexStr (fr.baseOffset % 4294967296) ++ extBin]
def ifdLeaf (dir : List Comp) : List Comp := dir ++ [nameIfd, nameIfdBin]

/-! ### the running file index -/

mutual
/-- number of `*uefi.File` nodes visited below a node (each increments `*v.Index`) -/
def exCntSection : Section → Nat
  | .mk _ _ encap => exCntNodes encap
def exCntNodes : List Node → Nat
  | [] => 0
  | .sec s :: ns => exCntSection s + exCntNodes ns
  | .fv v :: ns => exCntFv v + exCntNodes ns
def exCntSections : List Section → Nat
  | [] => 0
  | s :: ss => exCntSection s + exCntSections ss
def exCntFile : File → Nat
  | .mk i _ secs =>
    match i.nvar with
    | some _ => 1                       -- `File.ApplyChildren` visits only the store
    | none => 1 + exCntSections secs
def exCntFiles : List File → Nat
  | [] => 0
  | f :: fs => exCntFile f + exCntFiles fs
def exCntFv : Fv → Nat
  | .mk _ _ files => exCntFiles files
end

def exCntBiosElems : List BiosElem → Nat
  | [] => 0
  | .pad _ _ :: es => exCntBiosElems es
  | .fv v :: es => exCntFv v + exCntBiosElems es

/-! ### the files written -/

/-- one written file: path components and content -/
abbrev Entry := List Comp × Bytes

/-! ### NVAR stores: the NVar arm of `Extract.Visit` (as repaired by /repo ea9072a)

    valid entry (link / data / full), no nested store   dir/GUID/<name>-<%#x offset>.bin  = buf[DataOffset:]
    valid entry whose value is a store                   nothing; its entries go below dir/GUID/<name>-<%#x offset>
    invalid entry                                        dir/GUID/<%#x offset>.nvar        = buf
  `<name>` is the stored name with every path separator replaced by `_`, cut to 64 bytes.  The nested
  store of an entry is what `parseContent` attached: `Nvram.nestedOf` (C10's model keeps it as a function
  of the entry); the first argument bounds the nesting depth (`Nvram.depthFuel` suffices). -/

def extNvar : Bytes := asc ['.','n','v','a','r']
def dash : UInt8 := 0x2d
def underscore : UInt8 := 0x5f

/-- `strings.ReplaceAll(name, "/", "_")`, then `name[:64]` -/
def nvSanitize (name : Bytes) : Bytes := (name.map (fun c => if c = slash then underscore else c)).take 64

/-- `fmt.Sprintf("%v-%#x", name, f.Offset)` -/
def nvName (v : Nvram.NVar) : Comp := nvSanitize v.name ++ dash :: hexStr v.offset

/-- the path component that tells the entries of one store apart -/
def nvKey (pol : Nat) (v : Nvram.NVar) : Comp :=
  if v.type.isValid then
    match Nvram.nestedOf pol v with
    | some _ => nvName v
    | none => nvName v ++ extBin
  else hexStr v.offset ++ extNvar

/-- the files written for the entries of a store visited with DirPath `dir` -/
def nvEntries : Nat → Nat → List Comp → List Nvram.NVar → List Entry
  | 0, _, _, _ => []
  | d + 1, pol, dir, es =>
    es.flatMap (fun v =>
      if v.type.isValid then
        match Nvram.nestedOf pol v with
        | some ns => nvEntries d pol (dir ++ [guidStr v.guid, nvName v]) ns.entries
        | none => [(dir ++ [guidStr v.guid, nvName v ++ extBin], Nvram.content v)]
      else [(dir ++ [guidStr v.guid, hexStr v.offset ++ extNvar], v.buf)])

/-- the files written for the store of a RAW file visited with DirPath `dir` (= GUID/index of the
    file): the store is re-read from the file's own bytes, as `NewFile` did under erase polarity `pol` -/
def nvOfFile (pol : Nat) (dir : List Comp) (i : FileInfo) (buf : Bytes) : List Entry :=
  match Nvram.parseStore pol (buf.drop i.dataOffset) with
  | .ok s => nvEntries (Nvram.depthFuel s) pol dir s.entries
  | .error _ => []

mutual
def exSection (dir : List Comp) (idx : Nat) : Section → List Entry
  | .mk i buf encap =>
    match encap with
    | [] => [(secLeaf dir i, buf)]
    | _ :: _ => exNodes (secDir dir i) idx encap
def exNodes (dir : List Comp) (idx : Nat) : List Node → List Entry
  | [] => []
  | .sec s :: ns => exSection dir idx s ++ exNodes dir (idx + exCntSection s) ns
  | .fv v :: ns => exFv dir idx v ++ exNodes dir (idx + exCntFv v) ns
def exSections (dir : List Comp) (idx : Nat) : List Section → List Entry
  | [] => []
  | s :: ss => exSection dir idx s ++ exSections dir (idx + exCntSection s) ss
def exFile (pol : Nat) (dir : List Comp) (idx : Nat) : File → List Entry
  | .mk i buf secs =>
    match i.nvar with
    | some _ => nvOfFile pol (fileDir dir i idx) i buf     -- `File.ApplyChildren` visits only the store
    | none =>
      match secs with
      | [] => [(fileLeaf dir i idx, buf)]
      | _ :: _ => exSections (fileDir dir i idx) (idx + 1) secs
def exFiles (pol : Nat) (dir : List Comp) (idx : Nat) : List File → List Entry
  | [] => []
  | f :: fs => exFile pol dir idx f ++ exFiles pol dir (idx + exCntFile f) fs
def exFv (dir : List Comp) (idx : Nat) : Fv → List Entry
  | .mk i buf files =>
    match files with
    | [] => [(fvLeaf dir i false, buf)]
    | _ :: _ =>
      -- the files of a volume were parsed under the volume's own erase polarity
      (fvLeaf dir i true, buf.take i.dataOffset) :: exFiles (polOfAttrs i.attrs).toNat (fvDir dir i) idx files
end

def exBiosElems (dir : List Comp) (idx : Nat) : List BiosElem → List Entry
  | [] => []
  | .pad b o :: es => (padLeaf dir o, b) :: exBiosElems dir idx es
  | .fv v :: es => exFv dir idx v ++ exBiosElems dir (idx + exCntFv v) es

def exBios (dir : List Comp) (idx : Nat) (b : BiosRegion) : List Entry :=
  match b.elems with
  | [] => [(biosLeaf dir, b.buf)]
  | _ :: _ => exBiosElems (biosDir dir) idx b.elems

def exCntRegion : Region → Nat
  | .bios b => exCntBiosElems b.elems
  | _ => 0

def exRegion (dir : List Comp) (idx : Nat) : Region → List Entry
  | .bios b => exBios dir idx b
  | .me buf _ => [(meLeaf dir, buf)]
  | .raw buf fr t => [(rawLeaf dir fr t, buf)]

def exRegions (dir : List Comp) (idx : Nat) : List Region → List Entry
  | [] => []
  | r :: rs => exRegion dir idx r ++ exRegions dir (idx + exCntRegion r) rs

/-- everything `Extract.Run` writes below BasePath except summary.json, in writing order
    (DirPath starts as ".", which `filepath.Join` drops; the index is reset to 0) -/
def extractEntries : Tree → List Entry
  | .flash f => (ifdLeaf [], f.ifd.buf) :: exRegions [] 0 f.regions
  | .bios b => exBios [] 0 b

/-! ### faults of `Extract.Visit`: `f.Buf()[:f.DataOffset]` on a volume with files -/

mutual
def exFaultSection : Section → Bool
  | .mk _ _ encap => exFaultNodes encap
def exFaultNodes : List Node → Bool
  | [] => false
  | .sec s :: ns => exFaultSection s || exFaultNodes ns
  | .fv v :: ns => exFaultFv v || exFaultNodes ns
def exFaultSections : List Section → Bool
  | [] => false
  | s :: ss => exFaultSection s || exFaultSections ss
def exFaultFile : File → Bool
  | .mk i _ secs =>
    match i.nvar with
    | some _ => false
    | none => exFaultSections secs
def exFaultFiles : List File → Bool
  | [] => false
  | f :: fs => exFaultFile f || exFaultFiles fs
def exFaultFv : Fv → Bool
  | .mk i buf files =>
    match files with
    | [] => false
    | _ :: _ => decide (i.dataOffset > buf.length) || exFaultFiles files
end

def exFaultBiosElems : List BiosElem → Bool
  | [] => false
  | .pad _ _ :: es => exFaultBiosElems es
  | .fv v :: es => exFaultFv v || exFaultBiosElems es

def exFaultRegions : List Region → Bool
  | [] => false
  | .bios b :: rs => exFaultBiosElems b.elems || exFaultRegions rs
  | _ :: rs => exFaultRegions rs

def exFault : Tree → Bool
  | .flash f => exFaultRegions f.regions
  | .bios b => exFaultBiosElems b.elems

/-! ### the directory -/

/-- the directory below BasePath as the sequence of `os.WriteFile` calls (flat path, content) -/
abbrev Dir := List (Bytes × Bytes)

/-- `os.ReadFile`: the last write to the path wins; `none` = no such file -/
def Dir.read : Dir → Bytes → Option Bytes
  | [], _ => none
  | (p, b) :: rest, q =>
    match Dir.read rest q with
    | some b' => some b'
    | none => if p = q then some b else none

def flat (e : Entry) : Bytes × Bytes := (joinPath e.1, e.2)

def extractDir (t : Tree) : Dir := (extractEntries t).map flat

/-! ### summary.json -/

/-- the section record of summary.json: `Header.Size`, `Header.ExtendedSize` and `FileOrder` are
    `json:"-"` -/
def sumSecInfo (i : SecInfo) : SecInfo := { i with size3 := 0, extSize := 0, fileOrder := 0 }
/-- the file record: `Header.Checksum` and `Header.ExtendedSize` are `json:"-"` -/
def sumFileInfo (i : FileInfo) : FileInfo := { i with ckHeader := 0, ckFile := 0, extSize := 0 }
/-- the volume record: `Reserved` and `FreeSpace` are `json:"-"` -/
def sumFvInfo (i : FvInfo) : FvInfo := { i with reserved := 0, freeSpace := 0 }

mutual
def smSection (dir : List Comp) (idx : Nat) : Section → Section
  | .mk i _ encap =>
    match encap with
    | [] => .mk (sumSecInfo i) (joinPath (secLeaf dir i)) []
    | _ :: _ => .mk (sumSecInfo i) [] (smNodes (secDir dir i) idx encap)
def smNodes (dir : List Comp) (idx : Nat) : List Node → List Node
  | [] => []
  | .sec s :: ns => .sec (smSection dir idx s) :: smNodes dir (idx + exCntSection s) ns
  | .fv v :: ns => .fv (smFv dir idx v) :: smNodes dir (idx + exCntFv v) ns
def smSections (dir : List Comp) (idx : Nat) : List Section → List Section
  | [] => []
  | s :: ss => smSection dir idx s :: smSections dir (idx + exCntSection s) ss
def smFile (dir : List Comp) (idx : Nat) : File → File
  | .mk i _ secs =>
    match i.nvar with
    | some _ => .mk (sumFileInfo i) [] secs       -- not modelled
    | none =>
      match secs with
      | [] => .mk (sumFileInfo i) (joinPath (fileLeaf dir i idx)) []
      | _ :: _ => .mk (sumFileInfo i) [] (smSections (fileDir dir i idx) (idx + 1) secs)
def smFiles (dir : List Comp) (idx : Nat) : List File → List File
  | [] => []
  | f :: fs => smFile dir idx f :: smFiles dir (idx + exCntFile f) fs
def smFv (dir : List Comp) (idx : Nat) : Fv → Fv
  | .mk i _ files =>
    match files with
    | [] => .mk (sumFvInfo i) (joinPath (fvLeaf dir i false)) []
    | _ :: _ => .mk (sumFvInfo i) (joinPath (fvLeaf dir i true)) (smFiles (fvDir dir i) idx files)
end

def smBiosElems (dir : List Comp) (idx : Nat) : List BiosElem → List BiosElem
  | [] => []
  | .pad _ o :: es => .pad (joinPath (padLeaf dir o)) o :: smBiosElems dir idx es
  | .fv v :: es => .fv (smFv dir idx v) :: smBiosElems dir (idx + exCntFv v) es

def smBios (dir : List Comp) (idx : Nat) (b : BiosRegion) : BiosRegion :=
  match b.elems with
  | [] => { b with buf := joinPath (biosLeaf dir) }
  | _ :: _ => { b with buf := [], elems := smBiosElems (biosDir dir) idx b.elems }

def smRegion (dir : List Comp) (idx : Nat) : Region → Region
  | .bios b => .bios (smBios dir idx b)
  | .me _ fr => .me (joinPath (meLeaf dir)) fr
  | .raw _ fr t => .raw (joinPath (rawLeaf dir fr t)) fr t

def smRegions (dir : List Comp) (idx : Nat) : List Region → List Region
  | [] => []
  | r :: rs => smRegion dir idx r :: smRegions dir (idx + exCntRegion r) rs

/-- summary.json (the buffer slots hold the ExtractPath text; `FlashImage` itself has none) -/
def summaryOf : Tree → Tree
  | .flash f => .flash { f with buf := [], ifd := { f.ifd with buf := joinPath (ifdLeaf []) },
                                regions := smRegions [] 0 f.regions }
  | .bios b => .bios (smBios [] 0 b)

/-- `utk IMAGE extract DIR` on a parsed tree: the directory and summary.json -/
def extract (t : Tree) : Except Err (Dir × Tree) :=
  if exFault t then .error .panic else .ok (extractDir t, summaryOf t)

/-! ### loading the directory -/

/-- `ParseDir.readBuf`: `nil` without an ExtractPath, an error when the file is missing -/
def readBuf (d : Dir) (path : Bytes) : Except Err Bytes :=
  match path with
  | [] => .ok []
  | _ :: _ =>
    match d.read path with
    | some b => .ok b
    | none => .error .err

/-- the file record after `json.Unmarshal`: `Header.Size` is what `ThreeUint8.UnmarshalJSON`
    copies out of the JSON *text* -/
def loadFileInfo (junk : FileInfo → Nat) (i : FileInfo) : FileInfo := { i with size3 := junk i }

/-- what the current code leaves in `Header.Size`: the first three characters of the decimal text
    (`MarshalJSON` prints `Read3Size`), zero-filled -/
def goJunk (i : FileInfo) : Nat := fromLE ((decStr i.size3 ++ [0, 0, 0]).take 3)

mutual
def pdSection (d : Dir) (junk : FileInfo → Nat) : Section → Except Err Section
  | .mk i path encap =>
    match readBuf d path with
    | .error e => .error e
    | .ok buf =>
      match pdNodes d junk encap with
      | .error e => .error e
      | .ok encap' => .ok (.mk i buf encap')
def pdNodes (d : Dir) (junk : FileInfo → Nat) : List Node → Except Err (List Node)
  | [] => .ok []
  | .sec s :: ns =>
    match pdSection d junk s with
    | .error e => .error e
    | .ok s' =>
      match pdNodes d junk ns with
      | .error e => .error e
      | .ok ns' => .ok (.sec s' :: ns')
  | .fv v :: ns =>
    match pdFv d junk v with
    | .error e => .error e
    | .ok v' =>
      match pdNodes d junk ns with
      | .error e => .error e
      | .ok ns' => .ok (.fv v' :: ns')
def pdSections (d : Dir) (junk : FileInfo → Nat) : List Section → Except Err (List Section)
  | [] => .ok []
  | s :: ss =>
    match pdSection d junk s with
    | .error e => .error e
    | .ok s' =>
      match pdSections d junk ss with
      | .error e => .error e
      | .ok ss' => .ok (s' :: ss')
def pdFile (d : Dir) (junk : FileInfo → Nat) : File → Except Err File
  | .mk i path secs =>
    match readBuf d path with
    | .error e => .error e
    | .ok buf =>
      match i.nvar with
      | some _ => .ok (.mk (loadFileInfo junk i) buf secs)     -- not modelled
      | none =>
        match pdSections d junk secs with
        | .error e => .error e
        | .ok secs' => .ok (.mk (loadFileInfo junk i) buf secs')
def pdFiles (d : Dir) (junk : FileInfo → Nat) : List File → Except Err (List File)
  | [] => .ok []
  | f :: fs =>
    match pdFile d junk f with
    | .error e => .error e
    | .ok f' =>
      match pdFiles d junk fs with
      | .error e => .error e
      | .ok fs' => .ok (f' :: fs')
def pdFv (d : Dir) (junk : FileInfo → Nat) : Fv → Except Err Fv
  | .mk i path files =>
    match readBuf d path with
    | .error e => .error e
    | .ok buf =>
      match pdFiles d junk files with
      | .error e => .error e
      | .ok files' => .ok (.mk i buf files')
end

def pdBiosElems (d : Dir) (junk : FileInfo → Nat) : List BiosElem → Except Err (List BiosElem)
  | [] => .ok []
  | .pad path o :: es =>
    match readBuf d path with
    | .error e => .error e
    | .ok buf =>
      match pdBiosElems d junk es with
      | .error e => .error e
      | .ok es' => .ok (.pad buf o :: es')
  | .fv v :: es =>
    match pdFv d junk v with
    | .error e => .error e
    | .ok v' =>
      match pdBiosElems d junk es with
      | .error e => .error e
      | .ok es' => .ok (.fv v' :: es')

def pdBios (d : Dir) (junk : FileInfo → Nat) (b : BiosRegion) : Except Err BiosRegion :=
  match readBuf d b.buf with
  | .error e => .error e
  | .ok buf =>
    match pdBiosElems d junk b.elems with
    | .error e => .error e
    | .ok es => .ok { b with buf := buf, elems := es }

def pdRegions (d : Dir) (junk : FileInfo → Nat) : List Region → Except Err (List Region)
  | [] => .ok []
  | r :: rs =>
    let one : Except Err Region :=
      match r with
      | .bios b =>
        match pdBios d junk b with
        | .error e => .error e
        | .ok b' => .ok (.bios b')
      | .me path fr =>
        match readBuf d path with
        | .error e => .error e
        | .ok buf => .ok (.me buf fr)
      | .raw path fr t =>
        match readBuf d path with
        | .error e => .error e
        | .ok buf => .ok (.raw buf fr t)
    match one with
    | .error e => .error e
    | .ok r' =>
      match pdRegions d junk rs with
      | .error e => .error e
      | .ok rs' => .ok (r' :: rs')

/-- `ParseDir.Parse` on the directory `d` whose summary.json holds `s` -/
def parseDir (d : Dir) (junk : FileInfo → Nat) : Tree → Except Err Tree
  | .flash f =>
    match readBuf d f.buf with          -- FlashImage has no case in ParseDir.Visit: nil
    | .error e => .error e
    | .ok buf =>
      match readBuf d f.ifd.buf with
      | .error e => .error e
      | .ok ibuf =>
        match pdRegions d junk f.regions with
        | .error e => .error e
        | .ok rs => .ok (.flash { f with buf := buf, ifd := { f.ifd with buf := ibuf }, regions := rs })
  | .bios b =>
    match pdBios d junk b with
    | .error e => .error e
    | .ok b' => .ok (.bios b')

/-! ### what loading an extracted tree yields -/

mutual
def stSection (junk : FileInfo → Nat) : Section → Section
  | .mk i buf encap =>
    match encap with
    | [] => .mk (sumSecInfo i) buf []
    | _ :: _ => .mk (sumSecInfo i) [] (stNodes junk encap)
def stNodes (junk : FileInfo → Nat) : List Node → List Node
  | [] => []
  | .sec s :: ns => .sec (stSection junk s) :: stNodes junk ns
  | .fv v :: ns => .fv (stFv junk v) :: stNodes junk ns
def stSections (junk : FileInfo → Nat) : List Section → List Section
  | [] => []
  | s :: ss => stSection junk s :: stSections junk ss
def stFile (junk : FileInfo → Nat) : File → File
  | .mk i buf secs =>
    match i.nvar with
    | some _ => .mk (loadFileInfo junk (sumFileInfo i)) [] secs     -- not modelled
    | none =>
      match secs with
      | [] => .mk (loadFileInfo junk (sumFileInfo i)) buf []
      | _ :: _ => .mk (loadFileInfo junk (sumFileInfo i)) [] (stSections junk secs)
def stFiles (junk : FileInfo → Nat) : List File → List File
  | [] => []
  | f :: fs => stFile junk f :: stFiles junk fs
def stFv (junk : FileInfo → Nat) : Fv → Fv
  | .mk i buf files =>
    match files with
    | [] => .mk (sumFvInfo i) buf []
    | _ :: _ => .mk (sumFvInfo i) (buf.take i.dataOffset) (stFiles junk files)
end

def stBiosElems (junk : FileInfo → Nat) : List BiosElem → List BiosElem
  | [] => []
  | .pad b o :: es => .pad b o :: stBiosElems junk es
  | .fv v :: es => .fv (stFv junk v) :: stBiosElems junk es

def stBios (junk : FileInfo → Nat) (b : BiosRegion) : BiosRegion :=
  match b.elems with
  | [] => b
  | _ :: _ => { b with buf := [], elems := stBiosElems junk b.elems }

def stRegions (junk : FileInfo → Nat) : List Region → List Region
  | [] => []
  | .bios b :: rs => .bios (stBios junk b) :: stRegions junk rs
  | r :: rs => r :: stRegions junk rs

/-- the tree `ParseDir` builds from the extraction of `t`: leaf buffers (and volume headers) re-read,
    every other buffer `nil`, the `json:"-"` fields zero, `File.Header.Size` junk -/
def strip (junk : FileInfo → Nat) : Tree → Tree
  | .flash f => .flash { f with buf := [], regions := stRegions junk f.regions }
  | .bios b => .bios (stBios junk b)

/-! ### edits of the human-editable fields of summary.json

  The GUID of a file, the name of a user-interface section, the build number / version string of
  a version section, the opcodes of a dependency section.  An edit is applied uniformly: every
  node of the right type gets `f old-value` (a single node is edited by an `f` that changes only
  its value).  `edit e` acts on a tree and on a summary alike: it touches no buffer slot. -/

structure Edit where
  guid  : Guid → Guid := id
  name  : List Nat → List Nat := id
  ver   : Nat × List Nat → Nat × List Nat := id
  depex : List DepOp → List DepOp := id

def Edit.sec (e : Edit) (i : SecInfo) : SecInfo :=
  if i.type = 0x15 then { i with name := e.name i.name }
  else if i.type = 0x14 then { i with build := (e.ver (i.build, i.version)).1, version := (e.ver (i.build, i.version)).2 }
  else if isDepexType i.type then { i with depex := e.depex i.depex }
  else i

def Edit.file (e : Edit) (i : FileInfo) : FileInfo := { i with guid := e.guid i.guid }

mutual
def edSection (e : Edit) : Section → Section
  | .mk i buf encap => .mk (e.sec i) buf (edNodes e encap)
def edNodes (e : Edit) : List Node → List Node
  | [] => []
  | .sec s :: ns => .sec (edSection e s) :: edNodes e ns
  | .fv v :: ns => .fv (edFv e v) :: edNodes e ns
def edSections (e : Edit) : List Section → List Section
  | [] => []
  | s :: ss => edSection e s :: edSections e ss
def edFile (e : Edit) : File → File
  | .mk i buf secs => .mk (e.file i) buf (edSections e secs)
def edFiles (e : Edit) : List File → List File
  | [] => []
  | f :: fs => edFile e f :: edFiles e fs
def edFv (e : Edit) : Fv → Fv
  | .mk i buf files => .mk i buf (edFiles e files)
end

def edBiosElems (e : Edit) : List BiosElem → List BiosElem
  | [] => []
  | .pad b o :: es => .pad b o :: edBiosElems e es
  | .fv v :: es => .fv (edFv e v) :: edBiosElems e es

def edRegions (e : Edit) : List Region → List Region
  | [] => []
  | .bios b :: rs => .bios { b with elems := edBiosElems e b.elems } :: edRegions e rs
  | r :: rs => r :: edRegions e rs

def edit (e : Edit) : Tree → Tree
  | .flash f => .flash { f with regions := edRegions e f.regions }
  | .bios b => .bios { b with elems := edBiosElems e b.elems }

/-! ### the two commands -/

/-- two `Assemble` passes from process state `st`: `Assemble.Run`, then `Save` (new visitor, so
    `useFFS3` starts false again; the erase polarity persists); the result is the root buffer -/
def asmTwice (h : Hooks) (t : Tree) (st : St) : Except Err Bytes :=
  match asmTreeWith h t { st with ffs3 := false } with
  | .error e => .error e
  | .ok (t1, st1) =>
    match asmTreeWith h t1 { st1 with ffs3 := false } with
    | .error e => .error e
    | .ok (t2, _) => .ok t2.buf

/-- `utk DIR save OUT` in a fresh process: `ParseDir.Parse`, `Assemble.Run`, `Save` -/
def dirSave (h : Hooks) (d : Dir) (junk : FileInfo → Nat) (summary : Tree) : Except Err Bytes :=
  match parseDir d junk summary with
  | .error e => .error e
  | .ok t => asmTwice h t {}

/-- `utk IMAGE extract DIR` then `utk DIR save OUT` -/
def extractSave (h : Hooks) (junk : FileInfo → Nat) (t : Tree) : Except Err Bytes :=
  match extract t with
  | .error e => .error e
  | .ok (d, s) => dirSave h d junk s

/-- `utk IMAGE extract DIR`, an edit of summary.json, then `utk DIR save OUT` -/
def extractEditSave (h : Hooks) (junk : FileInfo → Nat) (e : Edit) (t : Tree) : Except Err Bytes :=
  match extract t with
  | .error x => .error x
  | .ok (d, s) => dirSave h d junk (edit e s)

end Fiano.Uefi
