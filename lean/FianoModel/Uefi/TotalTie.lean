/-
  T1 tie for the C05 totality models: the fault-site inventories (every slice / index / make) and the
  guard inventories (every `if` / `for` condition) of the Go functions that the Go-semantics models of
  Total*.lean mirror, regenerated from the source on every check (translator kinds `gosites`,
  `goguards`; local identifiers are `_`), are compared with what the models were written against.

  A new, removed or changed site — in particular a new unguarded `b[x:y]`, `b[i]`, `make(n)` — or a removed
  or weakened bounds check / progress guard changes a regenerated list and breaks the theorem named after
  the Go function, even if no generated input reaches it.  The check then searches for a concrete input.

  Go function                       model (FianoModel/Uefi/…)            faulting primitives in the model
  FindFirmwareVolumeOffset          TotalFv.scanSigG/findFvOffsetG       data[offset:offset+4]
  NewFirmwareVolume                 TotalFv.parseFvG/readBlocksG/parseFilesG   data[eho:], data[:Length] (copy, clip), make(Length), data[offset:]
  NewFile                           TotalFv.parseFileG/parseSectionsG    buf[:ExtendedSize] + make, f.buf[DataOffset:], f.buf[offset:]
  NewSection                        TotalFv.parseSectionG/encapLoopG     buf[:ExtendedSize] + make, buf[DataOffset:], encapBuf[offset:],
                                                                         s.buf[hs:], s.buf[hs:hs+2], s.buf[hs+2:]
  UCS2ToUTF8                        TotalFv.ucs2ToUtf8G                  output[len-1]
  SystemBROTLI.Decode               TotalFv.parseSectionG (codec.skip)   encodedData[0x10:]
  NewBIOSRegion                     TotalFv.parseBiosElemsG/parseBiosG   make(len), buf[:offset], buf[offset:], buf[offset+Length:]
  FindSignature / ParseFlashDescriptor / NewFlashImage / fillRegionGaps / NewRawRegion
                                    TotalFlash.*                         every slice listed below
  NewMEFPT / parsePartitions / NewMERegion   TotalFlash.newMeFptG/newMeRegionG
  NewNVarStore / newNVar / parse*   TotalNvar.*                          every slice / index listed below
  Validate.Visit / File.ChecksumHeader / Extract.Visit   TotalWalk.*    f.Buf()[:HeaderLen], f.buf[:headerSize], f.Buf()[headerSize:], f.Buf()[:DataOffset]
  JSON.Visit / Table.Visit / Table.printFirmware / printRow*   —        no slice / index / make at all (theorems `sites_JSON_Visit` …)
  Assemble.Visit                    TotalAsm.* / TotalNvarWalk.*          every site: see the table of TotalAsmTie.lean (follow-up wp-c05b)
  Cat.Visit                         — (T2 only)                          inventory recorded so that a new site is at least visible

  Map look-ups (`SupportedFiles[t]`, `FVGUIDs[g]` …) and fixed-size array indexing (`frs[RegionTypeBIOS]`,
  `size[2]`) appear in the inventories because the translator works on syntax; they cannot fault.
-/
import FianoModel.Uefi.TotalWalk
import FianoModel.Uefi.Tie
import FianoModel.Gen.UefiTotal
import FianoModel.Gen.UefiTotalConst
import FianoModel.Gen.UefiTotalGuards
import FianoModel.Gen.UefiTotalUnicode
import FianoModel.Gen.UefiTotalCodec
import FianoModel.Gen.UefiTotalVisitors

namespace Fiano.Uefi.TotalTie
open Fiano Fiano.Uefi Fiano.Uefi.Total

/-! ### constants and layouts -/
theorem tie_nvarSig : fromLE nvarSig = Gen.UefiTotalConst.NVarEntrySignature := by decide
theorem tie_nvarHeader : Gen.UefiTotalConst.layout_NVarHeader = [("Signature", 4), ("Size", 2), ("Next", 3), ("Attributes", 1)] ∧
    Gen.UefiTotalConst.size_NVarHeader = 10 := by decide
theorem tie_nvarAttrs : Gen.UefiTotalConst.NVarEntryASCIIName = 0x02 ∧ Gen.UefiTotalConst.NVarEntryGUID = 0x04 ∧
    Gen.UefiTotalConst.NVarEntryDataOnly = 0x08 ∧ Gen.UefiTotalConst.NVarEntryExtHeader = 0x10 ∧
    Gen.UefiTotalConst.NVarEntryAuthWrite = 0x40 ∧ Gen.UefiTotalConst.NVarEntryValid = 0x80 ∧
    Gen.UefiTotalConst.NVarEntryExtChecksum = 0x01 := by decide
theorem tie_nvarTypes : Gen.UefiTotalConst.InvalidNVarEntry = 0 ∧ Gen.UefiTotalConst.InvalidLinkNVarEntry = 1 ∧
    Gen.UefiTotalConst.LinkNVarEntry = 2 ∧ Gen.UefiTotalConst.DataNVarEntry = 3 ∧ Gen.UefiTotalConst.FullNVarEntry = 4 := by
  decide
theorem tie_fptSig : fptSig = Tie.bytesOf Gen.UefiTotalConst.MEFPTSignature := by decide
theorem tie_fptLayout : Gen.UefiTotalConst.MEPartitionDescriptorMinLength = 28 ∧
    Gen.UefiTotalConst.MEPartitionTableEntryLength = 32 ∧ Gen.UefiTotalConst.size_MEPartitionEntry = 32 := by decide
theorem tie_codecGuids : codecBROTLI = Tie.bytesOf Gen.UefiCodec.BROTLIGUID ∧ codecLZMA = Tie.bytesOf Gen.UefiCodec.LZMAGUID ∧
    codecLZMAX86 = Tie.bytesOf Gen.UefiCodec.LZMAX86GUID ∧ codecZLIB = Tie.bytesOf Gen.UefiCodec.ZLIBGUID := by decide
theorem tie_fvSig : fvSig = [0x5F, 0x46, 0x56, 0x48] := by decide


/-! ### fault sites of the parsers (pkg/uefi) -/

theorem sites_Parse : Gen.UefiTotal.sites_Parse = [] := rfl

theorem sites_Checksum8 : Gen.UefiTotal.sites_Checksum8 = [] := rfl

theorem sites_Checksum16 : Gen.UefiTotal.sites_Checksum16 = [] := rfl

theorem sites_Read3Size : Gen.UefiTotal.sites_Read3Size =
    ["_[2]", "_[1]", "_[0]"] := rfl

theorem sites_IsErased : Gen.UefiTotal.sites_IsErased = [] := rfl

theorem sites_FindFirmwareVolumeOffset : Gen.UefiTotal.sites_FindFirmwareVolumeOffset =
    ["_[_ : _+4]"] := rfl

theorem sites_NewFirmwareVolume : Gen.UefiTotal.sites_NewFirmwareVolume =
    ["make([]Block, 0)", "_[_.ExtHeaderOffset:]", "FVGUIDs[_.FileSystemGUID]", "_[:_.Length]",
     "_[:_.Length]", "make([]byte, _.Length)", "supportedFVs[_.FileSystemGUID]", "_[:_.Length]", "_[_:]"] := rfl

theorem sites_NewFile : Gen.UefiTotal.sites_NewFile =
    ["_[:FileHeaderMinLength]", "_[:_.Header.ExtendedSize]", "_[:_.Header.ExtendedSize]",
     "make([]byte, _.Header.ExtendedSize)", "_.buf[_.DataOffset:]", "SupportedFiles[_.Header.Type]",
     "_.buf[_:]"] := rfl

theorem sites_NewSection : Gen.UefiTotal.sites_NewSection =
    ["_[:_.Header.ExtendedSize]", "_[:_.Header.ExtendedSize]", "make([]byte, _.Header.ExtendedSize)",
     "_[_.DataOffset:]", "_[_:]", "_.buf[_:]", "_.buf[_ : _+2]", "_.buf[_+2:]", "_.buf[_:]", "_.buf[_:]"] := rfl

theorem sites_parseDepEx : Gen.UefiTotal.sites_parseDepEx =
    ["DepExOpCodes[_]"] := rfl

theorem sites_NewBIOSRegion : Gen.UefiTotal.sites_NewBIOSRegion =
    ["make([]byte, len(_))", "_[:_]", "_[_:]", "_[uint64(_)+_.Length:]"] := rfl

theorem sites_NewBIOSPadding : Gen.UefiTotal.sites_NewBIOSPadding = [] := rfl

theorem sites_File_ChecksumHeader : Gen.UefiTotal.sites_File_ChecksumHeader =
    ["_.buf[:_]"] := rfl

theorem sites_fileAttr_GetAlignment : Gen.UefiTotal.sites_fileAttr_GetAlignment =
    ["fileAlignments[_]"] := rfl

theorem sites_FindSignature : Gen.UefiTotal.sites_FindSignature =
    ["_[16 : 16+len(FlashSignature)]", "_[:len(FlashSignature)]", "_[:_]"] := rfl

theorem sites_FlashDescriptor_ParseFlashDescriptor : Gen.UefiTotal.sites_FlashDescriptor_ParseFlashDescriptor =
    ["_.buf[_.DescriptorMapStart:]", "_.buf[_.RegionStart:_]",
     "_.buf[_.MasterStart : _.MasterStart+uint(FlashMasterSectionSize)]"] := rfl

theorem sites_NewFlashDescriptorMap : Gen.UefiTotal.sites_NewFlashDescriptorMap = [] := rfl

theorem sites_NewFlashRegionSection : Gen.UefiTotal.sites_NewFlashRegionSection = [] := rfl

theorem sites_NewFlashMasterSection : Gen.UefiTotal.sites_NewFlashMasterSection = [] := rfl

theorem sites_NewFlashImage : Gen.UefiTotal.sites_NewFlashImage =
    ["make([]byte, len(_))", "make([]byte, FlashDescriptorLength)", "_[:FlashDescriptorLength]",
     "_.IFD.Region.FlashRegions[:]", "_[RegionTypeBIOS]", "_[RegionTypeBIOS]",
     "flashRegionTypeNames[FlashRegionType(_)]", "flashRegionTypeNames[FlashRegionType(_)]",
     "regionConstructors[FlashRegionType(_)]", "_[_.BaseOffset():_.EndOffset()]", "_[_]", "_.Regions[_]",
     "_.Regions[_]"] := rfl

theorem sites_FlashImage_fillRegionGaps : Gen.UefiTotal.sites_FlashImage_fillRegionGaps =
    ["_.buf[_:_]", "_.buf[_:_.FlashSize]"] := rfl

theorem sites_NewRawRegion : Gen.UefiTotal.sites_NewRawRegion =
    ["make([]byte, len(_))"] := rfl

theorem sites_FindMEDescriptor : Gen.UefiTotal.sites_FindMEDescriptor = [] := rfl

theorem sites_NewMEFPT : Gen.UefiTotal.sites_NewMEFPT =
    ["_[_:]", "make([]byte, _)", "_[:_]"] := rfl

theorem sites_MEFPT_parsePartitions : Gen.UefiTotal.sites_MEFPT_parsePartitions =
    ["make([]MEPartitionEntry, _.PartitionCount)", "_.buf[_.PartitionMapStart:]"] := rfl

theorem sites_NewMERegion : Gen.UefiTotal.sites_NewMERegion =
    ["make([]byte, len(_))"] := rfl

theorem sites_NewNVarStore : Gen.UefiTotal.sites_NewNVarStore =
    ["make([]byte, len(_))", "_.buf[_.FreeSpaceOffset:_.GUIDStoreOffset]"] := rfl

theorem sites_newNVar : Gen.UefiTotal.sites_newNVar =
    ["_[:_.Header.Size]", "make([]byte, _.Header.Size)", "_.buf[_.DataOffset:]"] := rfl

theorem sites_NVar_parseHeader : Gen.UefiTotal.sites_NVar_parseHeader = [] := rfl

theorem sites_NVar_parseNext : Gen.UefiTotal.sites_NVar_parseNext = [] := rfl

theorem sites_NVar_parseExtendedHeader : Gen.UefiTotal.sites_NVar_parseExtendedHeader =
    ["_.buf[int64(_.Header.Size)-int64(binary.Size(_)+binary.Size(_))]", "_.buf[_]",
     "make([]byte, sha256.Size)", "_.buf[_ : _+sha256.Size]"] := rfl

theorem sites_NVar_parseDataOnly : Gen.UefiTotal.sites_NVar_parseDataOnly = [] := rfl

theorem sites_NVar_parseGUID : Gen.UefiTotal.sites_NVar_parseGUID =
    ["_.buf[_.DataOffset:]"] := rfl

theorem sites_NVarStore_getGUIDFromStore : Gen.UefiTotal.sites_NVarStore_getGUIDFromStore =
    ["make([]guid.GUID, int(_+1)-len(_.GUIDStore))", "_[_]", "_.GUIDStore[_]"] := rfl

theorem sites_NVar_parseName : Gen.UefiTotal.sites_NVar_parseName =
    ["_.buf[_.DataOffset:]", "_[:_]", "_.buf[_.DataOffset:]", "_[_]", "_[_+1]", "_[:_]"] := rfl

theorem sites_NVar_parseContent : Gen.UefiTotal.sites_NVar_parseContent = [] := rfl


/-! ### pkg/unicode -/

theorem sites_UCS2ToUTF8 : Gen.UefiTotalUnicode.sites_UCS2ToUTF8 =
    ["_[len(_)-1]", "_[:len(_)-1]"] := rfl

theorem guards_UCS2ToUTF8 : Gen.UefiTotalUnicode.guards_UCS2ToUTF8 =
    ["if _ != nil", "if len(_) > 0 && _[len(_)-1] == 0"] := rfl


/-! ### pkg/compression -/

theorem sites_CompressorFromGUID : Gen.UefiTotalCodec.sites_CompressorFromGUID = [] := rfl

theorem sites_SystemBROTLI_Decode : Gen.UefiTotalCodec.sites_SystemBROTLI_Decode =
    ["_[0x10:]"] := rfl

theorem sites_SystemLZMA_Decode : Gen.UefiTotalCodec.sites_SystemLZMA_Decode = [] := rfl

theorem sites_LZMA_Decode : Gen.UefiTotalCodec.sites_LZMA_Decode = [] := rfl

theorem sites_LZMAX86_Decode : Gen.UefiTotalCodec.sites_LZMAX86_Decode = [] := rfl

theorem sites_ZLIB_Decode : Gen.UefiTotalCodec.sites_ZLIB_Decode =
    ["_[zlibSizeOffset : zlibSizeOffset+4]", "_[zlibSectionHeaderSize:]"] := rfl

theorem guards_SystemBROTLI_Decode : Gen.UefiTotalCodec.guards_SystemBROTLI_Decode =
    ["if len(_) < 0x10", "if _ != nil"] := rfl


/-! ### fault sites of the walkers (pkg/visitors) -/

theorem sites_Validate_Visit : Gen.UefiTotalVisitors.sites_Validate_Visit =
    ["uefi.FVGUIDs[_.FileSystemGUID]", "_.Buf()[:_.HeaderLen]", "_.Buf()[_:]"] := rfl

theorem sites_Extract_Visit : Gen.UefiTotalVisitors.sites_Extract_Visit =
    ["_.Buf()[:_.DataOffset]", "_[:64]", "_.Buf()[_.DataOffset:]"] := rfl

theorem sites_Extract_extractBinary : Gen.UefiTotalVisitors.sites_Extract_extractBinary = [] := rfl

theorem sites_JSON_Visit : Gen.UefiTotalVisitors.sites_JSON_Visit = [] := rfl

theorem sites_Table_Visit : Gen.UefiTotalVisitors.sites_Table_Visit = [] := rfl

theorem sites_Table_printFirmware : Gen.UefiTotalVisitors.sites_Table_printFirmware = [] := rfl

theorem sites_printRowLayout : Gen.UefiTotalVisitors.sites_printRowLayout = [] := rfl

theorem sites_printRowStd : Gen.UefiTotalVisitors.sites_printRowStd = [] := rfl

theorem sites_Cat_Visit : Gen.UefiTotalVisitors.sites_Cat_Visit =
    ["_.Buf()[4:]"] := rfl

theorem sites_Assemble_Visit : Gen.UefiTotalVisitors.sites_Assemble_Visit =
    ["_[:_.DataOffset]", "_.Blocks[0]", "_.Blocks[0]", "_.Blocks[0]", "_.Blocks[0]", "_.Blocks[0]",
     "make([]byte, _)", "_[32:]", "_[16:32]", "_.FileSystemGUID[:]", "_[56:]", "_.Blocks[0]", "_[50:]",
     "_[:_.HeaderLen]", "_[50:]", "make([]byte, 2)", "uefi.DepExNamesToOpCodes[_.OpCode]", "_.GUID[:]",
     "make([]byte, _.GUIDStoreOffset-_.FreeSpaceOffset)", "_.Buf()[_.DataOffset:]",
     "_[_.DescriptorMapStart : _.DescriptorMapStart+uint(uefi.FlashDescriptorMapSize)]",
     "_[_.RegionStart+2 : _.RegionStart+uint(uefi.FlashRegionSectionSize)]", "_.Bytes()[2:]",
     "_[_.MasterStart : _.MasterStart+uint(uefi.FlashMasterSectionSize)]", "make([]byte, _.Length)",
     "_[_ : _+uint64(len(_))]", "_.IFD.Region.FlashRegions[uefi.RegionTypeBIOS]",
     "_.IFD.Region.FlashRegions[uefi.RegionTypeBIOS]", "_.IFD.Region.FlashRegions[_.Type()]", "_.Regions[_]",
     "_.Regions[_]", "make([]byte, 0)"] := rfl


/-! ### bounds checks and progress guards (pkg/uefi) -/

theorem guards_FindFirmwareVolumeOffset : Gen.UefiTotalGuards.guards_FindFirmwareVolumeOffset =
    ["if len(_) < 32", "for _+4 < int64(len(_))", "if bytes.Equal(_[_:_+4], _)"] := rfl

theorem guards_NewFirmwareVolume : Gen.UefiTotalGuards.guards_NewFirmwareVolume =
    ["if len(_) < FirmwareVolumeMinSize", "if _ != nil", "for", "if _+8 > _.Length", "if _ != nil",
     "if _.Count == 0 && _.Size == 0", "if _ != nil", "if _.Length > uint64(len(_))",
     "if _.ExtHeaderOffset != 0 && _.Length >= FirmwareVolumeExtHeaderMinSize && uint64(_.ExtHeaderOffset) <= _.Length-FirmwareVolumeExtHeaderMinSize",
     "if _ != nil", "if ReadOnly", "if !_", "for _ <= _", "if uint64(len(_)) <= _", "if _ != nil",
     "if _ == nil", "if _ == 0"] := rfl

theorem guards_NewFile : Gen.UefiTotalGuards.guards_NewFile =
    ["if _ != nil", "if _.Header.Size == [3]uint8{0xFF, 0xFF, 0xFF}", "if _ != nil",
     "if IsErased(_[:FileHeaderMinLength], 0xFF)", "if _.Header.ExtendedSize == 0xFFFFFFFFFFFFFFFF",
     "if _.Header.ExtendedSize > uint64(_)", "if ReadOnly",
     "if _.Header.Type == FVFileTypeRaw && _.Header.GUID == *NVAR", "if _.DataOffset >= uint64(len(_.buf))",
     "if _ != nil", "if !SupportedFiles[_.Header.Type]", "for _ < _.Header.ExtendedSize", "if _ != nil",
     "if _.Header.ExtendedSize == 0"] := rfl

theorem guards_NewSection : Gen.UefiTotalGuards.guards_NewSection =
    ["if _ != nil", "if _.Header.Size == [3]uint8{0xFF, 0xFF, 0xFF}", "if _ != nil",
     "if _.Header.ExtendedSize == 0xFFFFFFFF", "if int(_.Header.ExtendedSize) > _",
     "if int(_.Header.ExtendedSize) > _", "if ReadOnly", "if _ != nil",
     "if _.Attributes&uint16(GUIDEDSectionProcessingRequired) != 0 && !DisableDecompression", "if _ != nil",
     "if int(_.DataOffset) > len(_)", "if _ != nil", "for _ < uint64(len(_))", "if _ != nil",
     "if _.Header.ExtendedSize == 0", "if len(_.buf) <= int(_)", "if len(_.buf) <= int(_+2)",
     "if len(_.buf) <= int(_)", "if _ != nil", "if len(_.buf) <= int(_)", "if _ != nil"] := rfl

theorem guards_NewBIOSRegion : Gen.UefiTotalGuards.guards_NewBIOSRegion =
    ["if ReadOnly", "for", "if _ < 0", "if len(_) != 0", "if _ != nil", "if _ > 0", "if _ != nil",
     "if _ != nil", "if _.Length == 0"] := rfl

theorem guards_File_ChecksumHeader : Gen.UefiTotalGuards.guards_File_ChecksumHeader =
    ["if _.Attributes.IsLarge()", "if _ > len(_.buf)"] := rfl

theorem guards_FindSignature : Gen.UefiTotalGuards.guards_FindSignature =
    ["if len(_) < 20", "if bytes.Equal(_[16:16+len(FlashSignature)], FlashSignature)",
     "if len(_) >= len(FlashSignature) && bytes.Equal(_[:len(FlashSignature)], FlashSignature)",
     "if len(_) < _"] := rfl

theorem guards_FlashDescriptor_ParseFlashDescriptor : Gen.UefiTotalGuards.guards_FlashDescriptor_ParseFlashDescriptor =
    ["if _ != FlashDescriptorLength", "if _ != nil", "if _ != nil", "if _.RegionStart >= _ || _ >= _",
     "if _ != nil", "if _ != nil"] := rfl

theorem guards_NewFlashRegionSection : Gen.UefiTotalGuards.guards_NewFlashRegionSection =
    ["if len(_) < FlashRegionSectionSize", "if _ != nil"] := rfl

theorem guards_NewFlashMasterSection : Gen.UefiTotalGuards.guards_NewFlashMasterSection =
    ["if len(_) < FlashMasterSectionSize", "if _ != nil"] := rfl

theorem guards_NewFlashImage : Gen.UefiTotalGuards.guards_NewFlashImage =
    ["if len(_) < FlashDescriptorLength", "if _ != nil", "if !_[RegionTypeBIOS].Valid()",
     "if _ != 0 && _ >= _", "if !_.Valid()", "if _ >= _.FlashSize", "if _ > _.FlashSize", "if _",
     "if _ != nil", "if _ != nil"] := rfl

theorem guards_FlashImage_fillRegionGaps : Gen.UefiTotalGuards.guards_FlashImage_fillRegionGaps =
    ["if _ < _", "if _ > _", "if _ != _.FlashSize"] := rfl

theorem guards_FlashRegion_Valid : Gen.UefiTotalGuards.guards_FlashRegion_Valid = [] := rfl

theorem guards_NewMEFPT : Gen.UefiTotalGuards.guards_NewMEFPT =
    ["if _ != nil", "if len(_) < _+MEPartitionDescriptorMinLength", "if _ != nil", "if len(_) < _",
     "if _ != nil"] := rfl

theorem guards_NewNVarStore : Gen.UefiTotalGuards.guards_NewNVarStore =
    ["for _.FreeSpaceOffset < _.GUIDStoreOffset", "if _ != nil", "if _ == nil",
     "if _.FreeSpaceOffset > _.GUIDStoreOffset"] := rfl

theorem guards_newNVar : Gen.UefiTotalGuards.guards_newNVar =
    ["if IsErased(_, Attributes.ErasePolarity)", "if _ != nil", "if !_.Header.Attributes.IsValid()",
     "if _ != nil", "if _ != nil", "if !_.parseDataOnly(_)", "if _ != nil", "if _ != nil",
     "if _.Header.Attributes&NVarEntryExtHeader == 0"] := rfl

theorem guards_NVar_parseHeader : Gen.UefiTotalGuards.guards_NVar_parseHeader =
    ["if _ != nil", "if _.Header.Signature != NVarEntrySignature", "if len(_) < int(_.Header.Size)",
     "if int(_.Header.Size) < binary.Size(_.Header)"] := rfl

theorem guards_NVar_parseExtendedHeader : Gen.UefiTotalGuards.guards_NVar_parseExtendedHeader =
    ["if _.Header.Attributes&NVarEntryExtHeader == 0", "if _ != nil", "if _ != nil", "if int64(_) > _",
     "if _ != nil", "if _ != nil", "if _&NVarEntryExtChecksum != 0", "for _ < int64(_.Header.Size)",
     "if _ == 5", "if _ != 0", "if _.Header.Attributes&NVarEntryAuthWrite == 0", "if _ != nil",
     "if _.Header.Attributes&NVarEntryDataOnly != 0", "if _ != nil",
     "if _+sha256.Size > int64(_.Header.Size)"] := rfl

theorem guards_NVarStore_getGUIDFromStore : Gen.UefiTotalGuards.guards_NVarStore_getGUIDFromStore =
    ["if len(_.GUIDStore) < int(_+1)", "if _ != nil", "for _ >= 0", "if _ != nil",
     "if int(_) >= len(_.GUIDStore)"] := rfl

theorem guards_NVar_parseName : Gen.UefiTotalGuards.guards_NVar_parseName =
    ["if _.Header.Attributes&NVarEntryASCIIName != 0", "if _ == -1", "for _+1 < len(_)",
     "if _[_] == 0 && _[_+1] == 0", "if _ == -1"] := rfl


end Fiano.Uefi.TotalTie
