/-
  C02, section layer: a section written by `GenSecHeader` has consistent size fields, and the section
  area `Assemble` builds for a file (sections joined with zero padding to 4 bytes) is one the
  independent reader accepts (rules S1–S2; S3 — nested volume images — is not covered here: the
  sections are required not to be volume images).
-/
import FianoModel.Uefi.HeaderLemmas

namespace Fiano.Uefi
open EditArith
open Fiano

/-- a section buffer the reader accepts on its own: header present, declared size = its length ≥ its
    header length, and not a firmware-volume image -/
structure GoodSec (sb : Bytes) : Prop where
  len4 : 4 ≤ sb.length
  ext8 : Valid.fld sb 0 3 = 0xFFFFFF → 8 ≤ sb.length
  size : (if Valid.fld sb 0 3 = 0xFFFFFF then Valid.fld sb 4 4 else Valid.fld sb 0 3) = sb.length
  hdr  : (if Valid.fld sb 0 3 = 0xFFFFFF then 8 else 4) + (if Valid.fld sb 3 1 = 0x02 then 20 else 0) ≤ sb.length
  notFv : Valid.fld sb 3 1 ≠ 0x17

/-- what `joinPad4` appends when the data so far has `n` bytes -/
def joinAll : List Bytes → Nat → Bytes
  | [], _ => []
  | b :: bs, n => List.replicate (roundUp n 4 - n) 0 ++ b ++ joinAll bs (roundUp n 4 + b.length)

def joinEnd : List Bytes → Nat → Nat
  | [], n => n
  | b :: bs, n => joinEnd bs (roundUp n 4 + b.length)

theorem roundUp4 (n : Nat) : n ≤ roundUp n 4 ∧ roundUp n 4 % 4 = 0 ∧ roundUp n 4 < n + 4 := by
  unfold roundUp; omega

theorem le_joinEnd (l : List Bytes) (n : Nat) : n ≤ joinEnd l n := by
  induction l generalizing n with
  | nil => exact Nat.le_refl _
  | cons b bs ih =>
    have := ih (roundUp n 4 + b.length)
    have := roundUp4 n
    simp only [joinEnd]; omega

/-- **the section loop of the File case in closed form** -/
theorem joinPad4_eq (l : List Bytes) (acc : Bytes) (hb : joinEnd l acc.length < 2 ^ 62) :
    joinPad4 l acc = acc ++ joinAll l acc.length ∧ (acc ++ joinAll l acc.length).length = joinEnd l acc.length := by
  induction l generalizing acc with
  | nil => simp [joinPad4, joinAll, joinEnd]
  | cons b bs ih =>
    simp only [joinEnd] at hb
    have hr := roundUp4 acc.length
    have hmono := le_joinEnd bs (roundUp acc.length 4 + b.length)
    have ha : align4 acc.length = roundUp acc.length 4 := by
      rw [align4_eq acc.length (by omega)]; unfold roundUp; omega
    simp only [joinPad4, joinAll, joinEnd, ha]
    have hl : (acc ++ List.replicate (roundUp acc.length 4 - acc.length) 0 ++ b).length =
        roundUp acc.length 4 + b.length := by
      simp only [List.length_append, List.length_replicate]; omega
    have := ih (acc ++ List.replicate (roundUp acc.length 4 - acc.length) 0 ++ b) (by rw [hl]; exact hb)
    rw [hl] at this
    rw [this.1]
    constructor
    · simp [List.append_assoc]
    · rw [← this.2]; simp [List.append_assoc]

/-- one step of the reader's section walk: `P` is everything before (already padded to 4), `X` a
    section it accepts, `R` the rest -/
theorem sectionsOk_step (fuel : Nat) (P X R : Bytes) (hP : P.length % 4 = 0) (hX : GoodSec X) :
    Valid.sectionsOk (fuel + 1) (P ++ (X ++ R)) P.length =
      Valid.sectionsOk fuel (P ++ (X ++ R)) (Valid.alignUp (P.length + X.length) 4) := by
  have hlen : (P ++ (X ++ R)).length = P.length + X.length + R.length := by simp; omega
  have hx4 := hX.len4
  rw [Valid.sectionsOk]
  rw [if_neg (by rw [hlen]; omega), if_neg (by omega), if_neg (by rw [hlen]; omega)]
  -- the header fields are read inside `X`
  have hf : ∀ k n, k + n ≤ X.length → Valid.fld (P ++ (X ++ R)) (P.length + k) n = Valid.fld X k n := by
    intro k n hk
    rw [fld_append_right, fld_append_left X R k n hk]
  have h03 : Valid.fld (P ++ (X ++ R)) P.length 3 = Valid.fld X 0 3 := by
    have := hf 0 3 (by omega); simpa using this
  have h31 : Valid.fld (P ++ (X ++ R)) (P.length + 3) 1 = Valid.fld X 3 1 := hf 3 1 (by omega)
  simp only [h03, h31]
  have hn := hX.notFv
  by_cases hext : Valid.fld X 0 3 = 0xFFFFFF
  · have h8 := hX.ext8 hext
    have h44 : Valid.fld (P ++ (X ++ R)) (P.length + 4) 4 = Valid.fld X 4 4 := hf 4 4 (by omega)
    have hs := hX.size
    have hh := hX.hdr
    rw [if_pos hext] at hs hh
    rw [if_neg (fun c => by have := c.2; rw [hlen] at this; omega)]
    have e1 : (Valid.fld X 0 3 = 16777215) = True := by simp [hext]
    simp only [e1, if_true, h44]
    rw [hs, if_neg (by omega), if_neg (by rw [hlen]; omega), if_neg hn, Bool.true_and]
  · have hs := hX.size
    have hh := hX.hdr
    rw [if_neg hext] at hs hh
    rw [if_neg (fun c => hext c.1)]
    have e1 : (Valid.fld X 0 3 = 16777215) = False := by simp [hext]
    simp only [e1, if_false]
    rw [hs, if_neg (by omega), if_neg (by rw [hlen]; omega), if_neg hn, Bool.true_and]

/-- **the reader accepts the section area `Assemble` builds**: sections that are individually
    well-formed, joined with zero padding to 4-byte boundaries -/
theorem sectionsOk_joinAll (l : List Bytes) (hl : ∀ b ∈ l, GoodSec b) (P : Bytes) :
    ∀ fuel, l.length + 1 ≤ fuel →
      Valid.sectionsOk fuel (P ++ joinAll l P.length) (Valid.alignUp P.length 4) = true := by
  induction l generalizing P with
  | nil =>
    intro fuel hf
    obtain ⟨n, rfl⟩ : ∃ n, fuel = n + 1 := ⟨fuel - 1, by omega⟩
    simp only [joinAll, List.append_nil]
    rw [Valid.sectionsOk, if_pos (by unfold Valid.alignUp; omega)]
  | cons b bs ih =>
    intro fuel hf
    obtain ⟨n, rfl⟩ : ∃ n, fuel = n + 1 := ⟨fuel - 1, by simp at hf; omega⟩
    have hr := roundUp4 P.length
    have hau : Valid.alignUp P.length 4 = roundUp P.length 4 := rfl
    simp only [joinAll]
    have hP' : (P ++ List.replicate (roundUp P.length 4 - P.length) 0).length = roundUp P.length 4 := by
      simp only [List.length_append, List.length_replicate]; omega
    have hstep := sectionsOk_step n (P ++ List.replicate (roundUp P.length 4 - P.length) 0) b
      (joinAll bs (roundUp P.length 4 + b.length)) (by rw [hP']; exact hr.2.1) (hl b (by simp))
    rw [hP'] at hstep
    simp only [List.append_assoc] at hstep ⊢
    rw [hau, hstep]
    have hP2 : (P ++ (List.replicate (roundUp P.length 4 - P.length) 0 ++ b)).length = roundUp P.length 4 + b.length := by
      simp only [List.length_append, List.length_replicate]; omega
    have := ih (fun x hx => hl x (by simp [hx])) (P ++ (List.replicate (roundUp P.length 4 - P.length) 0 ++ b)) n
      (by simp at hf; omega)
    rw [hP2] at this
    simpa [List.append_assoc] using this

end Fiano.Uefi

namespace Fiano.Uefi
open EditArith
open Fiano

theorem fld_hdr3 (n : Nat) (t : UInt8) (rest : Bytes) (hn : n < 16777216) :
    Valid.fld (leN 3 n ++ [t] ++ rest) 0 3 = n ∧ Valid.fld (leN 3 n ++ [t] ++ rest) 3 1 = t.toNat := by
  rw [leN3]
  constructor
  · simp only [Valid.fld, List.drop_zero, List.cons_append, List.nil_append, List.take_succ_cons, List.take_zero, fromLE]
    rw [byte_toNat _ (by omega), byte_toNat _ (by omega), byte_toNat _ (by omega)]
    omega
  · simp [Valid.fld, fromLE]

theorem fld_hdr4 (n : Nat) (t : UInt8) (e : Nat) (rest : Bytes) (he : e < 4294967296) :
    Valid.fld (leN 3 n ++ [t] ++ leN 4 e ++ rest) 4 4 = e := by
  have h4 : (leN 3 n ++ [t]).length = 4 := by simp
  rw [List.append_assoc (leN 3 n ++ [t]), show (4 : Nat) = 4 + 0 from rfl, fld_append_right' _ _ 4 0 4 h4]
  unfold Valid.fld
  rw [List.drop_zero, List.take_append_of_le_length (by simp), List.take_of_length_le (by simp), fromLE_leN]
  exact Nat.mod_eq_of_lt (by simpa using he)

/-- a section with the 4-byte header -/
theorem goodSec_small (n : Nat) (t : UInt8) (payload : Bytes) (hn : n = 4 + payload.length) (hlt : n < 0xFFFFFF)
    (hnf : t.toNat ≠ 0x17) (h2 : t.toNat = 0x02 → 20 ≤ payload.length) : GoodSec (leN 3 n ++ [t] ++ payload) := by
  have h3 := fld_hdr3 n t payload (by omega)
  refine ⟨by simp; omega, ?_, ?_, ?_, ?_⟩
  · intro c; rw [h3.1] at c; omega
  · rw [h3.1, if_neg (by omega)]; simp; omega
  · rw [h3.1, h3.2, if_neg (by omega)]
    by_cases ht : t.toNat = 2
    · rw [if_pos ht]; have := h2 ht; simp; omega
    · rw [if_neg ht]; simp; omega
  · rw [h3.2]; exact hnf

/-- a section with the 8-byte header (3-byte size FFFFFF, 32-bit size) -/
theorem goodSec_big (e : Nat) (t : UInt8) (payload : Bytes) (he : e = 8 + payload.length) (hlt : e < 4294967296)
    (hnf : t.toNat ≠ 0x17) (h2 : t.toNat = 0x02 → 20 ≤ payload.length) :
    GoodSec (leN 3 0xFFFFFF ++ [t] ++ leN 4 e ++ payload) := by
  have h3 := fld_hdr3 0xFFFFFF t (leN 4 e ++ payload) (by omega)
  have h4 := fld_hdr4 0xFFFFFF t e payload hlt
  simp only [List.append_assoc] at h3 h4 ⊢
  refine ⟨by simp; omega, fun _ => by simp; omega, ?_, ?_, ?_⟩
  · rw [h3.1, if_pos rfl, h4]; simp; omega
  · rw [h3.1, h3.2, if_pos rfl]
    by_cases ht : t.toNat = 2
    · rw [if_pos ht]; have := h2 ht; simp; omega
    · rw [if_neg ht]; simp; omega
  · rw [h3.2]; exact hnf

theorem encodeGuidDef_length (g : GuidDef) (h : g.guid.length = 16) : (encodeGuidDef g).length = 20 := by
  unfold encodeGuidDef; simp [h]

/-- **`genSecHeader_valid`**: the section `GenSecHeader` writes around `body` has consistent size
    fields (3-byte size, or FFFFFF + 32-bit size from 16 MiB − 1 on), the type byte, and — for a
    GUID-defined section — its 20-byte sub-header: the reader accepts it -/
theorem genSecHeader_good (i i' : SecInfo) (body buf' : Bytes) (h : genSecHeader i body = .ok (i', buf'))
    (ht : i.type < 256) (hnf : i.type ≠ 0x17) (hts : i.type ≠ 0x02 → i.ts = none)
    (hg : ∀ g, i.ts = some g → g.guid.length = 16) (hb : body.length + 28 < 4294967296) :
    GoodSec buf' ∧ i'.type = i.type := by
  have htb : (byte i.type).toNat = i.type := byte_toNat _ ht
  unfold genSecHeader at h
  simp only at h
  by_cases h2 : i.type = 0x02
  · -- GUID-defined: the sub-header is regenerated in front of the data
    simp only [h2, if_true] at h
    cases hts' : i.ts with
    | none => simp [hts'] at h
    | some g =>
      simp only [hts', Option.isSome_some, if_true] at h
      have hgl := hg g hts'
      have henc : ∀ g' : GuidDef, g'.guid = g.guid → (encodeGuidDef g').length = 20 := by
        intro g' hg'; unfold encodeGuidDef; simp [hg', hgl]
      by_cases hbig : (body.length + 24) % 4294967296 ≥ 0xFFFFFF
      · simp only [hbig, if_true] at h
        have he : ((body.length + 24) % 4294967296 + 4) % 4294967296 = body.length + 28 := by omega
        rw [he] at h
        have hge : body.length + 28 ≥ 0xFFFFFF := by omega
        simp only [hge, if_true, write3] at h
        cases h
        refine ⟨?_, h2.symm⟩
        exact goodSec_big _ _ _ (by simp only [List.length_append]; rw [encodeGuidDef_length _ (by exact hgl)]; omega) (by omega)
          (by rw [h2] at htb; rw [htb]; decide)
          (fun _ => by simp only [List.length_append]; rw [encodeGuidDef_length _ (by exact hgl)]; omega)
      · simp only [hbig, if_false] at h
        have he : (body.length + 24) % 4294967296 = body.length + 24 := by omega
        rw [he] at h hbig
        simp only [hbig, if_false, write3] at h
        cases h
        refine ⟨?_, h2.symm⟩
        exact goodSec_small _ _ _ (by simp only [List.length_append]; rw [encodeGuidDef_length _ (by exact hgl)]; omega) (by omega)
          (by rw [h2] at htb; rw [htb]; decide)
          (fun _ => by simp only [List.length_append]; rw [encodeGuidDef_length _ (by exact hgl)]; omega)
  · -- every other type: header + data
    have hn := hts h2
    simp only [h2, if_false, hn, Option.isSome_none, Bool.false_eq_true] at h
    by_cases hbig : (body.length + 4) % 4294967296 ≥ 0xFFFFFF
    · simp only [hbig, if_true] at h
      have he : ((body.length + 4) % 4294967296 + 4) % 4294967296 = body.length + 8 := by omega
      rw [he] at h
      have hge : body.length + 8 ≥ 0xFFFFFF := by omega
      simp only [hge, if_true, write3] at h
      cases h
      exact ⟨goodSec_big _ _ _ (by omega) (by omega) (by rw [htb]; exact hnf) (fun c => absurd (htb ▸ c) h2), rfl⟩
    · simp only [hbig, if_false] at h
      have he : (body.length + 4) % 4294967296 = body.length + 4 := by omega
      rw [he] at h hbig
      simp only [hbig, if_false, write3] at h
      cases h
      exact ⟨goodSec_small _ _ _ (by omega) (by omega) (by rw [htb]; exact hnf) (fun c => absurd (htb ▸ c) h2), rfl⟩

end Fiano.Uefi
