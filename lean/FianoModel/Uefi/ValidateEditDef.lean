/-
  C09a for edited trees (follow-up wp-c09c): `extraB` — what validate asks of a tree **beyond** what the
  independent reader of C02 (`Valid.validImage`) checks on the bytes.  Definitions only, core Lean (a driver
  may import it).

  The reader checks structure, sizes and checksums (rules F1–F5, B1–B2, V1–V7, L1–L4, X1–X5, S1–S3).
  validate looks at six more things, collected here as one decidable predicate on the parsed tree (the
  seventh, `FindSignature` on a flash image, is not here: it follows from the parse, `ve_flash_sig`):

    volume      revision 2; a file-system GUID out of `uefi.FVGUIDs`        (the reader reads neither)
    region      every top-level volume has the erase polarity the parser left in `uefi.Attributes`
                (the reader takes each volume's polarity from its own attributes)
    region      the flash-region entry of a region is valid; the BIOS region has a volume
    descriptor  the map bases are ≤ 0xE0 and pairwise different                (the reader's F1–F5 do not ask)
    opaque      the children decoded out of a GUID-defined section validate cleanly — their bytes are not
                bytes of the image, the reader (like C02's invariant `TreeOk`) says nothing about them
-/
import FianoModel.Uefi.Validate

namespace Fiano.Uefi.C09
open Fiano Fiano.Uefi

mutual
  def xSection : Section → Bool
    | .mk i _ encap => if i.type = 2 then (vNodes encap).isEmpty else xNodes encap
  def xNodes : List Node → Bool
    | [] => true
    | .sec s :: ns => xSection s && xNodes ns
    | .fv v :: ns => xFv v && xNodes ns
  def xSections : List Section → Bool
    | [] => true
    | s :: ss => xSection s && xSections ss
  def xFile : File → Bool
    | .mk i _ secs => if i.nvar.isSome = true then true else xSections secs
  def xFiles : List File → Bool
    | [] => true
    | f :: fs => xFile f && xFiles fs
  def xFv : Fv → Bool
    | .mk i _ files => knownFvGuids.contains i.fsGuid && decide (i.revision = 2) && xFiles files
end

def xElems (pol : UInt8) : List BiosElem → Bool
  | [] => true
  | .pad _ _ :: es => xElems pol es
  | .fv v :: es => xFv v && decide (polOfAttrs v.info.attrs = pol) && xElems pol es

def xBios (pol : UInt8) (b : BiosRegion) : Bool :=
  (match b.fr with
   | some fr => fr.valid
   | none => true) && b.elems.any BiosElem.isFv && xElems pol b.elems

def xRegion (pol : UInt8) : Region → Bool
  | .bios b => xBios pol b
  | .me _ fr => fr.valid
  | .raw _ fr _ => fr.valid

def xRegions (pol : UInt8) : List Region → Bool
  | [] => true
  | r :: rs => xRegion pol r && xRegions pol rs

def xFlash (pol : UInt8) (f : Flash) : Bool :=
  (validateDescNode f.ifd.map).isEmpty && xRegions pol f.regions

/-- **what validate asks beyond the reader of C02**, on the tree the parser built and the process state it
    left behind -/
def extraB (t : Tree) (st : St) : Bool :=
  match t with
  | .flash f => xFlash st.pol f
  | .bios b => xBios st.pol b

end Fiano.Uefi.C09
