/-
  Property C07, follow-up wp-c07c — the ME flash partition table in the directory round trip: lemmas.

    * `meName_roundtrip`        every 4-byte name, text or not, comes back from summary.json as it was
                                (`MarshalText` → encoding/json → `UnmarshalText`; the repaired defect 1 of reports/C07.md);
    * `meParseFpt_facts`        what `NewMEFPT` returns: `len(Entries) = PartitionCount`, `len(buf) = MapStart + 32·Count`,
                                `MapStart ≥ 32`, every name has 4 bytes, `buf` is a prefix of the region;
    * `meFpt_dir_roundtrip`     `meLoad (meSummary p) = p` without its buffer;
    * `meRegion_dir_roundtrip`  extract → ParseDir → Assemble on an ME region: the buffer is the region's, the table is
                                the parsed one without its buffer, FreeSpaceOffset the one `NewMERegion` computed — and
                                it is what `NewMERegion` reads from the reassembled bytes.
-/
import FianoModel.Uefi.ExtractMe
import FianoModel.Uefi.ExtractNvarLoad

namespace Fiano.Uefi
open Fiano

/-! ### the name -/

theorem meTrim_pad : ∀ n : Bytes, meTrim n ++ List.replicate (n.length - (meTrim n).length) 0 = n
  | [] => rfl
  | x :: r => by
    have ih := meTrim_pad r
    simp only [meTrim]
    split
    · rename_i h
      rw [h.1] at ih
      simp only [List.nil_append, List.length_nil, Nat.sub_zero] at ih
      simp only [List.nil_append, List.length_nil, Nat.sub_zero, List.length_cons, List.replicate_succ, h.2]
      rw [ih]
    · simp only [List.cons_append, List.length_cons, Nat.add_sub_add_right, ih]

theorem meTrim_length : ∀ n : Bytes, (meTrim n).length ≤ n.length
  | [] => Nat.le_refl _
  | x :: r => by
    have ih := meTrim_length r
    simp only [meTrim]
    split
    · simp
    · simp only [List.length_cons]; omega

theorem lowDigit_hexVal : ∀ d, d < 16 → meHexVal (lowDigit d) = some d := by decide

theorem lowDigit_ascii : ∀ d, d < 16 → (lowDigit d).toNat < 128 := by decide

theorem meHexDecode_hex : ∀ n : Bytes, meHexDecode (meHex n) = some n
  | [] => rfl
  | x :: r => by
    have ih := meHexDecode_hex r
    have h1 := lowDigit_hexVal (x.toNat / 16) (by have := x.toNat_lt; omega)
    have h2 := lowDigit_hexVal (x.toNat % 16) (by omega)
    have hx : UInt8.ofNat (16 * (x.toNat / 16) + x.toNat % 16) = x := by
      rw [Nat.div_add_mod]; exact UInt8.ofNat_toNat
    simp only [meHex, List.flatMap_cons, List.cons_append, List.nil_append] at ih ⊢
    simp only [meHexDecode, h1, h2]
    rw [show meHexDecode (List.flatMap (fun x => [lowDigit (x.toNat / 16), lowDigit (x.toNat % 16)]) r) = some r from ih]
    simp only [hx]

theorem meHex_length (n : Bytes) : (meHex n).length = 2 * n.length := by
  induction n with
  | nil => rfl
  | cons x r ih =>
    simp only [meHex, List.flatMap_cons, List.length_append, List.length_cons, List.length_nil] at ih ⊢
    omega

theorem meHex_ascii (n : Bytes) : ∀ c ∈ meHex n, c.toNat < 128 := by
  induction n with
  | nil => intro c hc; simp [meHex] at hc
  | cons x r ih =>
    intro c hc
    simp only [meHex, List.flatMap_cons, List.mem_append, List.mem_cons, List.not_mem_nil, or_false] at hc ih
    rcases hc with (rfl | rfl) | hc
    · exact lowDigit_ascii _ (by have := x.toNat_lt; omega)
    · exact lowDigit_ascii _ (by omega)
    · exact ih c hc

theorem utf8Width_ascii (b0 : UInt8) (rest : Bytes) (h : b0.toNat < 128) : utf8Width (b0 :: rest) = some 1 := by
  simp [utf8Width, h]

theorem validUtf8Aux_ascii : ∀ (fuel : Nat) (b : Bytes), b.length ≤ fuel → (∀ c ∈ b, c.toNat < 128) →
    validUtf8Aux fuel b = true
  | 0, b, hl, _ => by
    have : b = [] := List.eq_nil_of_length_eq_zero (by omega)
    subst this; rfl
  | fuel + 1, [], _, _ => rfl
  | fuel + 1, b0 :: rest, hl, ha => by
    simp only [validUtf8Aux, utf8Width_ascii b0 rest (ha b0 (by simp)), List.drop_succ_cons, List.drop_zero]
    exact validUtf8Aux_ascii fuel rest (by simp only [List.length_cons] at hl; omega) (fun c hc => ha c (by simp [hc]))

theorem validUtf8_ascii (b : Bytes) (ha : ∀ c ∈ b, c.toNat < 128) : validUtf8 b = true :=
  validUtf8Aux_ascii b.length b (Nat.le_refl _) ha

/-- what `MarshalText` hands to encoding/json is always valid UTF-8: JSON does not change it -/
theorem jsonName_meNameMarshal (n : Bytes) : jsonName (meNameMarshal n) = meNameMarshal n := by
  unfold meNameMarshal
  split
  · rename_i h; exact jsonName_valid _ h
  · apply jsonName_valid
    apply validUtf8_ascii
    intro c hc
    simp only [asc, List.map_cons, List.map_nil, List.cons_append, List.nil_append, List.mem_cons] at hc
    rcases hc with rfl | rfl | hc
    · decide
    · decide
    · exact meHex_ascii n c hc

/-- **every 4-byte partition name survives summary.json** (text, trailing zeros, erased `FF FF FF FF`, any bytes) -/
theorem meName_roundtrip (n : Bytes) (hn : n.length = 4) :
    meNameUnmarshal (jsonName (meNameMarshal n)) = .ok n := by
  rw [jsonName_meNameMarshal]
  unfold meNameMarshal
  split
  · -- text: copied back, zero-filled
    have hl := meTrim_length n
    have hp := meTrim_pad n
    unfold meNameUnmarshal
    have hne : ¬ ((meTrim n).length = 10 ∧ (meTrim n).take 2 = asc ['0', 'x']) := by omega
    simp only [hne, ↓reduceIte]
    have : ¬ (meTrim n).length > 4 := by omega
    simp only [this, ↓reduceIte]
    rw [← hn, hp]
  · -- not text: the hex form
    unfold meNameUnmarshal
    have hlen : (asc ['0', 'x'] ++ meHex n).length = 10 := by
      simp only [List.length_append, meHex_length, hn]; rfl
    have htake : (asc ['0', 'x'] ++ meHex n).take 2 = asc ['0', 'x'] := by simp [asc]
    have hdrop : (asc ['0', 'x'] ++ meHex n).drop 2 = meHex n := by simp [asc]
    simp only [hlen, htake, hdrop, and_self, ↓reduceIte, meHexDecode_hex]

/-! ### the table -/

theorem meParseEntries_length : ∀ (k : Nat) (b : Bytes), (meParseEntries k b).length = k
  | 0, _ => rfl
  | k + 1, b => by simp [meParseEntries, meParseEntries_length k]

theorem meParseEntries_names : ∀ (k : Nat) (b : Bytes), 32 * k ≤ b.length →
    ∀ e ∈ meParseEntries k b, e.name.length = 4
  | 0, _, _ => by intro e he; simp [meParseEntries] at he
  | k + 1, b, hl => by
    intro e he
    simp only [meParseEntries, List.mem_cons] at he
    rcases he with rfl | he
    · simp only [meParseEntry]
      apply slice_length
      simp only [List.length_take]; omega
    · exact meParseEntries_names k (b.drop 32) (by simp only [List.length_drop]; omega) e he

/-- what `NewMEFPT` returns -/
theorem meParseFpt_facts (b : Bytes) (p : MeFpt) (hp : meParseFpt b = .ok p) :
    p.entries.length = p.count ∧ p.buf.length = p.mapStart + 32 * p.count ∧ 32 ≤ p.mapStart ∧
      p.buf = b.take p.buf.length ∧ ∀ e ∈ p.entries, e.name.length = 4 := by
  unfold meParseFpt at hp
  split at hp
  · cases hp
  · rename_i i _
    simp only at hp
    split at hp
    · cases hp
    · split at hp
      · cases hp
      · rename_i h1 h2
        simp only [Except.ok.injEq] at hp
        subst hp
        simp only [meParseEntries_length, List.length_take, true_and]
        refine ⟨by omega, by omega, ?_, ?_⟩
        · congr 1; omega
        · apply meParseEntries_names
          simp only [List.length_drop, List.length_take]; omega

theorem meLoadEntries_summary : ∀ es : List MeEntry, (∀ e ∈ es, e.name.length = 4) →
    meLoadEntries (es.map (fun e => { e with name := jsonName (meNameMarshal e.name) })) = .ok es
  | [], _ => rfl
  | e :: es, h => by
    simp only [List.map_cons, meLoadEntries, meName_roundtrip e.name (h e (by simp)),
      meLoadEntries_summary es (fun x hx => h x (by simp [hx]))]

/-- **the table survives summary.json**: what `ParseDir` rebuilds is the parsed table without its buffer -/
theorem meFpt_dir_roundtrip (b : Bytes) (p : MeFpt) (hp : meParseFpt b = .ok p) :
    meLoad (meSummary p) = .ok { p with buf := [] } := by
  have hf := meParseFpt_facts b p hp
  unfold meLoad meSummary
  simp only [meLoadEntries_summary p.entries hf.2.2.2.2]

/-! ### the region -/

theorem meRead_single (p q : Bytes) : Dir.read [(p, q)] p = some q := by
  simp [Dir.read]

theorem meLeaf_path_ne_nil (dir : List Comp) : joinPath (meLeaf dir) ≠ [] := by
  unfold meLeaf
  induction dir with
  | nil => simp [joinPath, nameMe, asc]
  | cons c cs ih =>
    cases cs with
    | nil => simp [joinPath]
    | cons c2 cs2 => simp [joinPath]

/-- **extract → ParseDir → Assemble on an ME region** (table found or not): the buffer is the region's, the table
    the parsed one without its buffer, FreeSpaceOffset the one `NewMERegion` computed -/
theorem meRegion_dir_roundtrip (dir : List Comp) (buf : Bytes) :
    meRoundTrip dir buf =
      .ok { buf := buf, fpt := (meNewRegion buf).fpt.map (fun p => { p with buf := [] }),
            free := (meNewRegion buf).free } := by
  unfold meRoundTrip meParseDir meRegionSummary meExtract meAssemble
  have hne := meLeaf_path_ne_nil dir
  simp only [List.map_cons, List.map_nil, flat, readBuf]
  cases hpath : joinPath (meLeaf dir) with
  | nil => exact absurd hpath hne
  | cons c cs =>
    simp only [meRead_single]
    unfold meNewRegion
    cases hp : meParseFpt buf with
    | error e => rfl
    | ok p =>
      simp only [Option.map_some, meFpt_dir_roundtrip buf p hp]

/-- … and it is what `NewMERegion` reads from the reassembled bytes: summary and bytes still agree -/
theorem meRegion_consistent (dir : List Comp) (buf : Bytes) (r : MeRegionX) (h : meRoundTrip dir buf = .ok r) :
    r.buf = buf ∧ r.fpt = (meNewRegion r.buf).fpt.map (fun p => { p with buf := [] }) ∧ r.free = (meNewRegion r.buf).free := by
  rw [meRegion_dir_roundtrip] at h
  simp only [Except.ok.injEq] at h
  subst h
  exact ⟨rfl, rfl, rfl⟩

end Fiano.Uefi
