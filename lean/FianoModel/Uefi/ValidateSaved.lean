/-
  C09a, second half ("… and for any image the tool itself has saved"), for the unedited save:
  parse, save, parse again, validate — nothing is reported.  From C01 (`parseWith_ser`, `save_identity_all`,
  FianoModel/Uefi/Lemmas/Final.lean) and `validate_wf` (ValidateWf.lean).
  Core Lean only.
-/
import FianoModel.Uefi.ValidateWf
import FianoModel.Uefi.Lemmas.Final

namespace Fiano.Uefi.C09
open Fiano Fiano.Uefi Fiano.Uefi.Spec

/-- validate looks at the erase polarity of the process state only -/
theorem validate_pol (t : Tree) (st st' : St) (h : st.pol = st'.pol) : validate t st = validate t st' := by
  cases t <;> simp only [validate, h]

/-- **the reader hypothesis of `c09_validate_parse_ser` discharged** (C01 stage B is there):
    parse followed by validate reports nothing on the serialisation of a valid image -/
theorem validate_ser (i : Img) (hv : Valid i) : parseValidate Hooks.none (ser i) = .ok [] := by
  obtain ⟨st', hp, hpol⟩ := parseWith_ser i hv.1
  unfold parseValidate
  rw [hp]
  simp only
  rw [validate_pol (tree i) st' (stOf i) (by rw [hpol]; rfl), validate_wf i hv]

/-- **`validate_saved`, unedited save**: what `Save` writes for an unedited valid image exists, and parsing
    it again and validating reports nothing -/
theorem validate_saved_unedited (i : Img) (hv : Valid i) :
    ∃ out, save Hooks.none (ser i) = .ok out ∧ parseValidate Hooks.none out = .ok [] :=
  ⟨ser i, save_identity_all i hv.1, validate_ser i hv⟩

end Fiano.Uefi.C09
