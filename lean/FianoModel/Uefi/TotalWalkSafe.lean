/-
  C05 — safety of the tree walkers (TotalWalk.lean).
    * `validate` does not fault on *any* tree (its slices are guarded by its own length checks, after
      fixes/C05-checksumheader-bounds.diff and fixes/C09-large-bit.diff);
    * `extract` does not fault on a tree that satisfies `TreeWf` — which every tree returned by the
      parser does (`parseG_post`): a volume with files has `DataOffset < Length = len(buf)`.
-/
import FianoModel.Uefi.TotalWalk
import FianoModel.Uefi.TotalFlashSafe

namespace Fiano.Uefi.Total
open Fiano GoM Fiano.Uefi

abbrev SafeU (x : GoM Unit) : Prop := ∀ m, Post x m (fun _ _ => True)
abbrev SafeN (x : GoM Nat) : Prop := ∀ m, Post x m (fun _ _ => True)

theorem validateFileNode_safe (i : FileInfo) (buf : Bytes) : SafeU (validateFileNodeG i buf) := by
  intro m
  unfold validateFileNodeG
  refine post_ite (fun _ => post_pure trivial) (fun h24 => ?_)
  refine post_ite (fun _ => post_pure trivial) (fun hstop => ?_)
  refine post_ite (fun _ => post_pure trivial) (fun _ => ?_)
  refine post_bind (post_sliceToG (by (repeat' split) <;> omega) ?_)
  refine post_ite (fun _ => ?_) (fun _ => post_pure trivial)
  -- not stopped: either the extended header is there (≥ 32 bytes, large set) or the large bit is clear
  have hhs : (if (decide (i.attrs &&& 0x01 ≠ 0)) = true then 32 else 24) ≤ buf.length := by
    split
    · rename_i hl
      have hl' : i.attrs &&& 0x01 ≠ 0 := of_decide_eq_true hl
      by_cases hs3 : i.size3 = 0xFFFFFF
      · simp [hs3] at hstop
        omega
      · simp [hs3] at hstop
        have := Nat.and_one_is_mod i.attrs
        omega
    · omega
  refine post_bind (post_sliceFromG hhs ?_)
  exact post_pure trivial

theorem post_putG {site : String} {b : Bytes} {k : Nat} {m : Meter} {Q : Unit → Meter → Prop}
    (h : k ≤ b.length) (hq : Q () m) : Post (putG site b k) m Q := by
  unfold putG
  rw [if_pos h]
  exact post_pure hq

/-- the block-map scan of `validate` reads 8 bytes only where its loop condition says they exist, and
    its fuel (`len/8 + 1` iterations) suffices -/
theorem blockMapEndG_safe (buf : Bytes) : ∀ (fuel off : Nat) (m : Meter), buf.length < off + 8 * fuel →
    Post (blockMapEndG buf fuel off) m (fun _ _ => True)
  | 0, off, m, hf => by
    rw [blockMapEndG]
    split
    · omega
    · exact post_pure trivial
  | fuel+1, off, m, hf => by
    rw [blockMapEndG]
    split
    · refine post_bind (post_sliceFromG (by omega) ?_)
      refine post_bind (post_putG (by simp; omega) ?_)
      split
      · exact post_pure trivial
      · exact blockMapEndG_safe buf fuel (off + 8) m (by omega)
    · exact post_pure trivial

theorem validateFvNode_safe (i : FvInfo) (buf : Bytes) : SafeU (validateFvNodeG i buf) := by
  intro m
  unfold validateFvNodeG
  refine post_ite (fun _ => post_pure trivial) (fun _ => ?_)
  refine post_ite (fun _ => post_pure trivial) (fun _ => ?_)
  refine post_ite (fun _ => post_pure trivial) (fun _ => ?_)
  refine post_bind' (blockMapEndG_safe buf _ 56 m (by omega)) (fun _ m1 _ => ?_)
  refine post_bind (post_sliceToG (by omega) ?_)
  exact post_pure trivial

theorem seqU {x y : GoM Unit} (hx : SafeU x) (hy : SafeU y) : SafeU (do x; y) := by
  intro m
  exact post_bind' (hx m) (fun _ m' _ => hy m')

mutual
theorem validateSection_safe : ∀ (s : Section), SafeU (validateSectionG s)
  | .mk _ _ encap => by rw [validateSectionG]; exact validateNodes_safe encap
theorem validateNodes_safe : ∀ (ns : List Node), SafeU (validateNodesG ns)
  | [] => by rw [validateNodesG]; intro m; exact post_pure trivial
  | .sec s :: ns => by rw [validateNodesG]; exact seqU (validateSection_safe s) (validateNodes_safe ns)
  | .fv v :: ns => by rw [validateNodesG]; exact seqU (validateFv_safe v) (validateNodes_safe ns)
theorem validateSections_safe : ∀ (ss : List Section), SafeU (validateSectionsG ss)
  | [] => by rw [validateSectionsG]; intro m; exact post_pure trivial
  | s :: ss => by rw [validateSectionsG]; exact seqU (validateSection_safe s) (validateSections_safe ss)
theorem validateFile_safe : ∀ (f : File), SafeU (validateFileG f)
  | .mk i buf secs => by
    rw [validateFileG]
    refine seqU (validateFileNode_safe i buf) ?_
    intro m
    split
    · exact post_pure trivial
    · exact validateSections_safe secs m
theorem validateFiles_safe : ∀ (fs : List File), SafeU (validateFilesG fs)
  | [] => by rw [validateFilesG]; intro m; exact post_pure trivial
  | f :: fs => by rw [validateFilesG]; exact seqU (validateFile_safe f) (validateFiles_safe fs)
theorem validateFv_safe : ∀ (v : Fv), SafeU (validateFvG v)
  | .mk i buf files => by
    rw [validateFvG]
    exact seqU (validateFvNode_safe i buf) (validateFiles_safe files)
end

theorem validateElems_safe : ∀ (es : List BiosElem), SafeU (validateElemsG es)
  | [] => by rw [validateElemsG]; intro m; exact post_pure trivial
  | .pad _ _ :: es => by rw [validateElemsG]; exact validateElems_safe es
  | .fv v :: es => by rw [validateElemsG]; exact seqU (validateFv_safe v) (validateElems_safe es)

theorem validateRegions_safe : ∀ (rs : List Region), SafeU (validateRegionsG rs)
  | [] => by rw [validateRegionsG]; intro m; exact post_pure trivial
  | .bios b :: rs => by rw [validateRegionsG]; exact seqU (validateElems_safe b.elems) (validateRegions_safe rs)
  | .me _ _ :: rs => by rw [validateRegionsG]; exact validateRegions_safe rs
  | .raw _ _ _ :: rs => by rw [validateRegionsG]; exact validateRegions_safe rs

/-- **validate never faults**, on any tree -/
theorem validateG_safe (t : Tree) (m : Meter) : Post (validateG t) m (fun _ _ => True) := by
  cases t with
  | flash f => exact validateRegions_safe f.regions m
  | bios b => exact validateElems_safe b.elems m

/-! ### extract -/

theorem addN {x y : GoM Nat} (hx : SafeN x) (hy : SafeN y) :
    SafeN (do let a ← x; let b ← y; pure (a + b)) := by
  intro m
  refine post_bind' (hx m) (fun a m1 _ => ?_)
  refine post_bind' (hy m1) (fun b m2 _ => ?_)
  exact post_pure trivial

mutual
theorem extractSection_safe : ∀ (s : Section), SecWf s → SafeN (extractSectionG s)
  | .mk _ _ encap, hw => by
    rw [extractSectionG]
    intro m
    split
    · exact post_pure trivial
    · exact extractNodes_safe encap (by simp only [SecWf] at hw; exact hw.2.1) m
theorem extractNodes_safe : ∀ (ns : List Node), NodesWf ns → SafeN (extractNodesG ns)
  | [], _ => by rw [extractNodesG]; intro m; exact post_pure trivial
  | .sec s :: ns, hw => by
    rw [extractNodesG]
    simp only [NodesWf] at hw
    exact addN (extractSection_safe s hw.1) (extractNodes_safe ns hw.2)
  | .fv v :: ns, hw => by
    rw [extractNodesG]
    simp only [NodesWf] at hw
    exact addN (extractFv_safe v hw.1) (extractNodes_safe ns hw.2)
theorem extractSections_safe : ∀ (ss : List Section), SecsWf ss → SafeN (extractSectionsG ss)
  | [], _ => by rw [extractSectionsG]; intro m; exact post_pure trivial
  | s :: ss, hw => by
    rw [extractSectionsG]
    simp only [SecsWf] at hw
    exact addN (extractSection_safe s hw.1) (extractSections_safe ss hw.2)
theorem extractFile_safe : ∀ (f : File), FileWf f → SafeN (extractFileG f)
  | .mk i _ secs, hw => by
    rw [extractFileG]
    intro m
    split
    · exact post_pure trivial
    · split
      · exact post_pure trivial
      · exact extractSections_safe secs (by simp only [FileWf] at hw; exact hw.2) m
theorem extractFiles_safe : ∀ (fs : List File), FilesWf fs → SafeN (extractFilesG fs)
  | [], _ => by rw [extractFilesG]; intro m; exact post_pure trivial
  | f :: fs, hw => by
    rw [extractFilesG]
    simp only [FilesWf] at hw
    exact addN (extractFile_safe f hw.1.1) (extractFiles_safe fs hw.2)
theorem extractFv_safe : ∀ (v : Fv), FvWf v → SafeN (extractFvG v)
  | .mk i buf files, hw => by
    rw [extractFvG]
    simp only [FvWf] at hw
    obtain ⟨hlen, hdo, hfs, _⟩ := hw
    intro m
    split
    · exact post_pure trivial
    · rename_i hne
      have hne' : files ≠ [] := by
        intro h; subst h; simp at hne
      have := hdo hne'
      refine post_bind (post_sliceToG (by omega) ?_)
      refine post_bind' (extractFiles_safe files hfs _) (fun n m1 _ => ?_)
      exact post_pure trivial
end

theorem extractElems_safe : ∀ (es : List BiosElem), ElemsWf es → SafeN (extractElemsG es)
  | [], _ => by rw [extractElemsG]; intro m; exact post_pure trivial
  | .pad _ _ :: es, hw => by
    rw [extractElemsG]
    simp only [ElemsWf] at hw
    intro m
    refine post_bind' (extractElems_safe es hw m) (fun _ _ _ => post_pure trivial)
  | .fv v :: es, hw => by
    rw [extractElemsG]
    simp only [ElemsWf] at hw
    exact addN (extractFv_safe v hw.1) (extractElems_safe es hw.2)

theorem extractBios_safe (b : BiosRegion) (hw : BiosWf b) : SafeN (extractBiosG b) := by
  intro m
  unfold extractBiosG
  split
  · exact post_pure trivial
  · exact extractElems_safe b.elems hw.1 m

theorem extractRegions_safe : ∀ (rs : List Region), (∀ r ∈ rs, RegionWf r) → SafeN (extractRegionsG rs)
  | [], _ => by rw [extractRegionsG]; intro m; exact post_pure trivial
  | .bios b :: rs, hw => by
    rw [extractRegionsG]
    exact addN (extractBios_safe b (hw (.bios b) (by simp)))
      (extractRegions_safe rs (fun r hr => hw r (by simp [hr])))
  | .me _ _ :: rs, hw => by
    rw [extractRegionsG]
    intro m
    refine post_bind' (extractRegions_safe rs (fun r hr => hw r (by simp [hr])) m) (fun _ _ _ => post_pure trivial)
  | .raw _ _ _ :: rs, hw => by
    rw [extractRegionsG]
    intro m
    refine post_bind' (extractRegions_safe rs (fun r hr => hw r (by simp [hr])) m) (fun _ _ _ => post_pure trivial)

/-- **extract never faults on a well-formed tree** -/
theorem extractG_safe (t : Tree) (hw : TreeWf t) (m : Meter) : Post (extractG t) m (fun _ _ => True) := by
  cases t with
  | flash f =>
    rw [extractG]
    refine post_bind' (extractRegions_safe f.regions (fun r hr => (hw.2 r hr).1) m) (fun _ _ _ => post_pure trivial)
  | bios b => exact extractBios_safe b hw m

end Fiano.Uefi.Total
