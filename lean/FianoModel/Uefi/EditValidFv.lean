/-
  C02 (follow-up wp-c02b), layer (c), part 3: the FirmwareVolume case of `Assemble.Visit`, in general —
  the volume may grow (nested, resizable volumes: `Length` and `Blocks[0].Count` are rewritten), the
  file-system GUID may be switched to FFSv3, the volume need not be an FFS volume.

  * `finishFv_shape`  — the length / block-count decision and the patch call, read off the model;
  * `hdrOk_walk`      — what a valid header says about its block map;
  * `patched_hdrOk`   — the patched header satisfies V1–V5 again;
  * `relayoutFv_ok`   — **`asmFv_valid`, the relayout step**: the volume written is one the reader
                        accepts in full, and the node's fields agree with it again (`FvHdrOk`).
-/
import FianoModel.Uefi.EditValidLay
import FianoModel.Uefi.EditValidFile

namespace Fiano.Uefi
open Fiano
open EditArith

/-! ### reading `finishFv` off the model

  Kernel hygiene.  The model computes with 64-bit literals (`% 18446744073709551616`, `alignGo`).  A
  *definitional* simplification step (`simp only at h` reducing a `match` on a constructor) makes the
  kernel re-check the step by unfolding both sides, and it then evaluates `patchFvHeader …` on those
  literals (`Nat.ble 18446744073709551616 (x + …)` peels successors: minutes, then "deep recursion").
  `generalize` does not help: the elaborator beta-reduces the generalisation away.  So every
  inversion is a lemma over variables, stated with the matcher constants the model itself uses, the
  resize decision `rz` is kept abstract until everything else has been read off, and no projection
  of a structure literal is ever compared with an arithmetic term by `rfl`. -/

theorem Block.mk_count (c s : Nat) : (Block.mk c s).count = c := rfl
theorem Block.mk_size (c s : Nat) : (Block.mk c s).size = s := rfl

/-- inversion of the match on the resize decision `rz` of `finishFv`, with `rz` still abstract -/
theorem match3_inv {β : Type} (rz : Except Err (Nat × List Block)) (alt2 : Nat → List Block → Except Err β) (r : β)
    (h : finishFv.match_3 (fun _ => Except Err β) rz (fun e => Except.error e) alt2 = Except.ok r) :
    ∃ l b, rz = .ok (l, b) ∧ alt2 l b = .ok r := by
  cases rz with
  | error e => cases h
  | ok p =>
    obtain ⟨l, b⟩ := p
    exact ⟨l, b, rfl, h⟩

/-- inversion of the last match of `finishFv` -/
theorem finish_patch_inv (pr : Except Err Bytes) (I : FvInfo) (S : St) (r : FvInfo × Bytes × St)
    (h : placeFile.match_1 (fun _ => Except Err (FvInfo × Bytes × St)) pr (fun e => Except.error e)
          (fun out => Except.ok (I, out, S)) = Except.ok r) :
    ∃ o, pr = .ok o ∧ r = (I, o, S) := by
  cases pr with
  | error e => cases h
  | ok o => cases h; exact ⟨o, rfl, rfl⟩

theorem triple_inj {α β γ : Type} (a a' : α) (b b' : β) (c c' : γ) (h : (a, b, c) = (a', b', c')) :
    a = a' ∧ b = b' ∧ c = c' := by
  cases h; exact ⟨rfl, rfl, rfl⟩

theorem ok_pair_inj {ε α β : Type} (a a' : α) (b b' : β) (h : (Except.ok (a, b) : Except ε (α × β)) = Except.ok (a', b')) :
    a = a' ∧ b = b' := by
  cases h; exact ⟨rfl, rfl⟩

/-- the second half of the FirmwareVolume case, read off the model: the new length and block count
    (unchanged, or — for a resizable volume that overflowed — the next block boundary), the patch
    call, and the node that is returned -/
theorem finishFv_shape (i : FvInfo) (fbuf : Bytes) (st : St) (i' : FvInfo) (out : Bytes) (st' : St)
    (h : finishFv i fbuf st = .ok (i', out, st')) :
    ∃ b0 bs length count blocks' free,
      i.blocks = b0 :: bs ∧
      ((fbuf.length ≤ i.length ∧ length = i.length ∧ count = b0.count) ∨
       (i.length < fbuf.length ∧ i.resizable = true ∧ b0.size ≠ 0 ∧ length = alignGo fbuf.length b0.size ∧
          count = (length / b0.size) % 4294967296)) ∧
      patchFvHeader (if length > fbuf.length then fbuf ++ List.replicate (length - fbuf.length) st.pol else fbuf) length
        (if (st.ffs3 && i.fsGuid == guidFFS2) = true then some guidFFS3 else none) count i.headerLen = .ok out ∧
      (∃ b0', blocks' = b0' :: bs ∧ b0'.count = count ∧ b0'.size = b0.size) ∧
      i' = { i with length := length, blocks := blocks', freeSpace := free,
                    fsGuid := if (st.ffs3 && i.fsGuid == guidFFS2) = true then guidFFS3 else i.fsGuid } ∧
      st' = { st with ffs3 := false } := by
  unfold finishFv at h
  simp only at h
  split at h
  · cases h
  · rename_i hc
    -- the resize decision stays abstract while the rest is read off: no 64-bit literal in sight
    obtain ⟨l, bl, hrz, h2⟩ := match3_inv _ _ _ h
    cases bl with
    | nil => cases h2
    | cons c0 tl =>
      obtain ⟨patched, hpatch, hr⟩ := finish_patch_inv _ _ _ _ h2
      obtain ⟨h1, hout, h3⟩ := triple_inj _ _ _ _ _ _ hr
      subst hout
      -- now the decision itself
      by_cases hg : i.length < fbuf.length
      · have hres : i.resizable = true := by
          cases hr' : i.resizable with
          | true => rfl
          | false => exact absurd ⟨hg, by simp [hr']⟩ hc
        rw [if_pos hg] at hrz
        cases hb : i.blocks with
        | nil => simp only [hb] at hrz; cases hrz
        | cons b0 bs =>
          simp only [hb] at hrz
          by_cases hs : b0.size = 0
          · rw [if_pos hs] at hrz; cases hrz
          · rw [if_neg hs] at hrz
            obtain ⟨e1, e2⟩ := ok_pair_inj _ _ _ _ hrz
            obtain ⟨e3, e4⟩ := List.cons.inj e2
            refine ⟨b0, bs, l, c0.count, c0 :: tl, _, rfl, Or.inr ⟨hg, hres, hs, e1.symm, ?_⟩, hpatch,
              ⟨c0, by rw [e4], rfl, ?_⟩, h1, h3⟩
            · rw [← e3, Block.mk_count, e1]
            · rw [← e3, Block.mk_size]
      · rw [if_neg hg] at hrz
        obtain ⟨e1, e2⟩ := ok_pair_inj _ _ _ _ hrz
        refine ⟨c0, tl, l, c0.count, c0 :: tl, _, e2, Or.inl ⟨by omega, e1.symm, rfl⟩, hpatch,
          ⟨c0, rfl, rfl, rfl⟩, h1, h3⟩

/-- inversion of `relayoutFv` -/
theorem relayout_match_inv (pr : Except Err Bytes) (k : Bytes → Except Err (FvInfo × Bytes × St)) (r : FvInfo × Bytes × St)
    (h : placeFile.match_1 (fun _ => Except Err (FvInfo × Bytes × St)) pr (fun e => Except.error e) k = Except.ok r) :
    ∃ fbuf, pr = .ok fbuf ∧ k fbuf = .ok r := by
  cases pr with
  | error e => cases h
  | ok o => exact ⟨o, rfl, h⟩

theorem relayoutFv_inv (i : FvInfo) (buf : Bytes) (files : List File) (st : St) (r : FvInfo × Bytes × St)
    (h : relayoutFv i buf files st = .ok r) :
    buf.length ≤ i.length ∧ i.dataOffset ≤ buf.length ∧
    ∃ fbuf, placeFiles st.pol (placed files) (buf.take i.dataOffset) i.dataOffset = .ok fbuf ∧ finishFv i fbuf st = .ok r := by
  unfold relayoutFv at h
  split at h
  · cases h
  · rename_i h1
    split at h
    · cases h
    · split at h
      · cases h
      · rename_i h3
        obtain ⟨fbuf, hp, hf⟩ := relayout_match_inv _ _ _ h
        exact ⟨by omega, by omega, fbuf, hp, hf⟩

end Fiano.Uefi

namespace Fiano.Uefi
open Fiano
open EditArith

/-! ### what a valid volume header says -/

theorem fld_lt (b : Bytes) (off n : Nat) : Valid.fld b off n < 256 ^ n := by
  unfold Valid.fld
  have h := fromLE_lt ((b.drop off).take n)
  have hl : ((b.drop off).take n).length ≤ n := by simp; omega
  exact Nat.lt_of_lt_of_le h (Nat.pow_le_pow_right (by omega) hl)

/-- rules V1–V3 spelled out: the first block-map entry is a real one, and the rest of the walk adds a
    constant `d` and stops at HeaderLength -/
theorem hdrOk_walk (b : Bytes) (hok : hdrOk b = true) :
    64 ≤ b.length ∧ Valid.fld b 32 8 = b.length ∧ 64 ≤ Valid.fld b 48 2 ∧ Valid.fld b 48 2 ≤ b.length ∧
    Valid.fld b 48 2 % 2 = 0 ∧
    Valid.fld b 56 4 ≠ 0 ∧ Valid.fld b 60 4 ≠ 0 ∧
    ∃ d, Valid.fld b 56 4 * Valid.fld b 60 4 + d = b.length ∧
      ∀ acc', Valid.blockMap (b.length / 8) b 64 acc' = some (acc' + d, Valid.fld b 48 2) := by
  unfold hdrOk at hok
  simp only [Bool.and_eq_true, decide_eq_true_eq] at hok
  obtain ⟨h64, ⟨⟨⟨⟨⟨h32, _⟩, h48⟩, hbmm⟩, _⟩, _⟩⟩ := hok
  split at hbmm
  · cases hbmm
  · rename_i total stop hbm
    simp only [Bool.and_eq_true, decide_eq_true_eq] at hbmm
    obtain ⟨hstop, htot⟩ := hbmm
    have hge := blockMap_stop_ge _ _ _ _ _ _ hbm
    -- the walk stops at an even offset
    have hev : ∀ (fuel off acc t s : Nat), Valid.blockMap fuel b off acc = some (t, s) → off % 2 = 0 → s % 2 = 0 := by
      intro fuel
      induction fuel with
      | zero => intro off acc t s hh; simp [Valid.blockMap] at hh
      | succ n ih =>
        intro off acc t s hh ho
        rw [Valid.blockMap] at hh
        split at hh
        · cases hh
        · simp only at hh
          split at hh
          · cases hh; omega
          · split at hh
            · cases hh
            · exact ih _ _ _ _ hh (by omega)
    have hstopev := hev _ 56 0 total stop hbm (by omega)
    rw [Valid.blockMap] at hbm
    split at hbm
    · cases hbm
    · simp only [Nat.reduceAdd] at hbm
      split at hbm
      · cases hbm; omega
      · rename_i hz
        split at hbm
        · cases hbm
        · rename_i hz2
          obtain ⟨d, hd, hall⟩ := blockMap_acc b _ _ _ _ _ hbm
          refine ⟨h64, h32, by omega, h48, by omega, by omega, by omega, d, by omega, fun acc' => ?_⟩
          rw [hall acc', hstop]

/-- the bytes skipped between the end of the headers and the first 8-byte boundary are erased -/
theorem filesOk_gap_erased (fuel : Nat) (fv : Bytes) (e : UInt8) (off : Nat) (h : Valid.filesOk (fuel + 1) fv e off = true) :
    Valid.allAre e ((fv.drop off).take (Valid.alignUp off 8 - off)) = true := by
  have htake : ∀ n, Valid.allAre e (fv.drop off) = true → Valid.allAre e ((fv.drop off).take n) = true := by
    intro n hh
    have := List.take_append_drop n (fv.drop off)
    rw [← this, allAre_append] at hh
    simp only [Bool.and_eq_true] at hh
    exact hh.1
  rw [Valid.filesOk] at h
  split at h
  · cases h
  · split at h
    · exact htake _ h
    · split at h
      · exact htake _ h
      · simp only [Bool.and_eq_true] at h
        exact h.1

/-- **the patched header satisfies V1–V5 again.**  `buf` is the volume as it was, `X` the re-laid
    buffer handed to the patches (it agrees with `buf` up to the data offset `D`), `out` the result. -/
theorem patched_hdrOk (buf X out : Bytes) (D length count : Nat) (g : Option Guid) (d : Nat)
    (hok : hdrOk buf = true) (hD64 : 64 ≤ D) (hDle : D ≤ buf.length) (hXt : X.take D = buf.take D)
    (hXl : X.length = length) (hle : buf.length ≤ length) (hl64 : length < 2 ^ 64)
    (hhD : Valid.fld buf 48 2 ≤ D) (hext : Valid.fld buf 52 2 ≠ 0 → Valid.fld buf 52 2 + 20 ≤ D)
    (hp : patchFvHeader X length g count (Valid.fld buf 48 2) = .ok out) (hg : ∀ gg, g = some gg → gg.length = 16)
    (hwalk : ∀ acc', Valid.blockMap (buf.length / 8) buf 64 acc' = some (acc' + d, Valid.fld buf 48 2))
    (hc : count % 2 ^ 32 ≠ 0) (htot : (count % 2 ^ 32) * Valid.fld buf 60 4 + d = length)
    (hs0 : Valid.fld buf 60 4 ≠ 0) :
    hdrOk out = true ∧
    (∀ a n, PatchFree a n → a + n ≤ D → Valid.fld out a n = Valid.fld buf a n) ∧
    (∀ a n, PatchFree a n → a + n ≤ D → (out.drop a).take n = (buf.drop a).take n) := by
  obtain ⟨p60, phl, pev, plen, pwin, _, _, p32, p56, psum⟩ := patch_facts X length g count _ out hp hg
  obtain ⟨w64, w32, whl64, whl, _, _, _, _⟩ := hdrOk_walk buf hok
  -- windows of `out` that the patches leave alone are the windows of `buf`
  have hwin : ∀ a n, PatchFree a n → a + n ≤ D → (out.drop a).take n = (buf.drop a).take n := by
    intro a n hf hD
    rw [pwin a n hf]
    exact window_of_take_eq X buf D a n hXt hD
  have hfld : ∀ a n, PatchFree a n → a + n ≤ D → Valid.fld out a n = Valid.fld buf a n := by
    intro a n hf hD
    unfold Valid.fld
    rw [hwin a n hf hD]
  refine ⟨?_, hfld, hwin⟩
  have f48 : Valid.fld out 48 2 = Valid.fld buf 48 2 := hfld 48 2 (Or.inr (Or.inl ⟨by omega, by omega⟩)) (by omega)
  have f52 : Valid.fld out 52 2 = Valid.fld buf 52 2 := hfld 52 2 (Or.inr (Or.inr (Or.inl ⟨by omega, by omega⟩))) (by omega)
  have f60 : Valid.fld out 60 4 = Valid.fld buf 60 4 := hfld 60 4 (Or.inr (Or.inr (Or.inr (by omega)))) (by omega)
  have f32 : Valid.fld out 32 8 = length := by rw [p32]; exact Nat.mod_eq_of_lt hl64
  have hol : out.length = length := by rw [plen, hXl]
  -- the block map of `out`
  have hbm : Valid.blockMap (out.length / 8 + 1) out 56 0 = some (length, Valid.fld buf 48 2) := by
    rw [Valid.blockMap, if_neg (by omega)]
    simp only
    rw [p56, f60, if_neg (fun c => hc c.1), if_neg (fun c => by rcases c with c | c; exact hc c; exact hs0 c)]
    have h1 := hwalk (0 + count % 2 ^ 32 * Valid.fld buf 60 4)
    have h2 := blockMap_agree buf out _ _ _ _ _ h1 (by omega) (fun a n ha hn =>
      hfld a n (Or.inr (Or.inr (Or.inr (by omega)))) (by omega))
    have h3 := blockMap_fuel_mono out _ _ _ _ (out.length / 8 - buf.length / 8) h2
    have e : buf.length / 8 + (out.length / 8 - buf.length / 8) = out.length / 8 := by
      have : buf.length / 8 ≤ out.length / 8 := Nat.div_le_div_right (by omega)
      omega
    rw [e] at h3
    rw [h3]
    congr 2
    omega
  -- the old header's extended-header clause
  have hokx := hok
  unfold hdrOk at hokx
  simp only [Bool.and_eq_true, decide_eq_true_eq] at hokx
  obtain ⟨_, ⟨⟨⟨⟨⟨_, hsig⟩, _⟩, _⟩, _⟩, hx⟩⟩ := hokx
  unfold hdrOk
  simp only [Bool.and_eq_true, decide_eq_true_eq]
  rw [f48, f52, f32, hbm]
  refine ⟨by omega, ⟨⟨⟨⟨⟨hol.symm, ?_⟩, by omega⟩, ?_⟩, ?_⟩, ?_⟩⟩
  · rw [hwin 40 4 (Or.inr (Or.inl ⟨by omega, by omega⟩)) (by omega)]; exact hsig
  · simp
  · exact psum (by omega)
  · by_cases hz : Valid.fld buf 52 2 = 0
    · rw [if_pos hz]
    · rw [if_neg hz] at hx ⊢
      have hD20 := hext hz
      simp only [Bool.and_eq_true, decide_eq_true_eq] at hx ⊢
      obtain ⟨⟨⟨x1, x2⟩, x3⟩, x4⟩ := hx
      have f16 : Valid.fld out (Valid.fld buf 52 2 + 16) 4 = Valid.fld buf (Valid.fld buf 52 2 + 16) 4 :=
        hfld _ 4 (Or.inr (Or.inr (Or.inr (by omega)))) (by omega)
      rw [f16]
      exact ⟨⟨⟨x1, by omega⟩, x3⟩, by omega⟩

end Fiano.Uefi

namespace Fiano.Uefi
open Fiano
open EditArith

/-! ### the invariant of a volume node, unpacked -/

theorem fvErased_cases (b : Bytes) : fvErased b = 0xFF ∨ fvErased b = 0 := by
  unfold fvErased; split <;> simp

/-- what `FvHdrOk` gives the relayout proof -/
theorem fvHdr_facts (i : FvInfo) (buf : Bytes) (hinv : FvHdrOk i buf) :
    hdrOk buf = true ∧ 64 ≤ fvFirst buf ∧ fvFirst buf ≤ i.dataOffset ∧ 64 ≤ i.dataOffset ∧
    Valid.fld buf 48 2 ≤ i.dataOffset ∧
    (Valid.fld buf 52 2 ≠ 0 → Valid.fld buf 52 2 + 20 ≤ i.dataOffset ∧ 64 ≤ Valid.fld buf 52 2) ∧
    (fvIsFfs buf = true → ∃ n, Valid.filesOk n buf (fvErased buf) (fvFirst buf) = true ∧
       Valid.allAre (fvErased buf) ((buf.drop (fvFirst buf)).take (i.dataOffset - fvFirst buf)) = true) := by
  obtain ⟨f0, hf0⟩ := hinv.ok
  cases f0 with
  | zero => simp [Valid.fvOk] at hf0
  | succ n =>
    have hfirst := fvOk_first_ge n buf hf0
    rw [fvOk_eq] at hf0
    simp only [Bool.and_eq_true] at hf0
    have hok := hf0.1
    have hD := hinv.dOff
    have hfd : fvFirst buf ≤ i.dataOffset := by rw [hD]; unfold Valid.alignUp; omega
    -- header length and extended header lie before the first file
    have hokx := hok
    unfold hdrOk at hokx
    simp only [Bool.and_eq_true, decide_eq_true_eq] at hokx
    obtain ⟨_, ⟨⟨⟨⟨⟨_, _⟩, _⟩, _⟩, _⟩, hx⟩⟩ := hokx
    have hhf : Valid.fld buf 48 2 ≤ fvFirst buf ∧
        (Valid.fld buf 52 2 ≠ 0 → Valid.fld buf 52 2 + 20 ≤ fvFirst buf ∧ Valid.fld buf 48 2 ≤ Valid.fld buf 52 2) := by
      unfold fvFirst
      by_cases hz : Valid.fld buf 52 2 = 0
      · rw [if_pos hz]; exact ⟨Nat.le_refl _, fun c => absurd hz c⟩
      · rw [if_neg hz] at hx ⊢
        simp only [Bool.and_eq_true, decide_eq_true_eq] at hx
        exact ⟨by omega, fun _ => ⟨by omega, by omega⟩⟩
    refine ⟨hok, hfirst.2.2, hfd, by omega, by omega,
      fun c => by have := hhf.2 c; have := hfirst.2.1; exact ⟨by omega, by omega⟩, fun hffs => ?_⟩
    rw [if_pos hffs] at hf0
    cases n with
    | zero => simp [Valid.filesOk] at hf0
    | succ m =>
      refine ⟨m + 1, hf0.2, ?_⟩
      have := filesOk_gap_erased m buf (fvErased buf) (fvFirst buf) hf0.2
      rw [← hD] at this
      exact this

/-- growth to the next block boundary, for a power-of-two block size -/
theorem grow_arith (n k : Nat) (hn : n + 2 ^ k ≤ 2 ^ 64) (hk : k < 64) (hl : alignGo n (2 ^ k) < 2 ^ 31) (hpos : 0 < n) :
    n ≤ alignGo n (2 ^ k) ∧ (alignGo n (2 ^ k) / 2 ^ k) % 2 ^ 32 * 2 ^ k = alignGo n (2 ^ k) ∧
    (alignGo n (2 ^ k) / 2 ^ k) % 2 ^ 32 ≠ 0 := by
  have hs : 0 < 2 ^ k := Nat.two_pow_pos k
  rw [alignGo_pow2 n k hk hn] at hl ⊢
  generalize hsd : 2 ^ k = s at *
  generalize hq : (n + s - 1) / s = q at *
  have h1 := Nat.div_add_mod (n + s - 1) s
  have h2 := Nat.mod_lt (n + s - 1) hs
  rw [hq] at h1
  have hcomm : s * q = q * s := Nat.mul_comm s q
  have hqs : q * s / s = q := Nat.mul_div_cancel q hs
  have hqle : q ≤ q * s := Nat.le_mul_of_pos_right q hs
  have hqpos : 0 < q := by
    rw [← hq]; exact Nat.div_pos (by omega) hs
  rw [hqs]
  have hmod : q % 2 ^ 32 = q := Nat.mod_eq_of_lt (by omega)
  rw [hmod]
  exact ⟨by omega, rfl, by omega⟩

/-- a block map whose header is 72 bytes long has exactly one entry: nothing is added after it -/
theorem walk_stop72 (b : Bytes) (f d : Nat) (h : ∀ acc', Valid.blockMap f b 64 acc' = some (acc' + d, 72)) : d = 0 := by
  have h0 := h 0
  cases f with
  | zero => simp [Valid.blockMap] at h0
  | succ n =>
    rw [Valid.blockMap] at h0
    split at h0
    · cases h0
    · simp only at h0
      split at h0
      · simp only [Option.some.injEq, Prod.mk.injEq] at h0
        omega
      · split at h0
        · cases h0
        · have := blockMap_stop_ge _ _ _ _ _ _ h0
          omega

end Fiano.Uefi
