/-
  C02 (follow-up wp-c02b): a fact about the parser that `Faithful` (property C04) does not record —
  an NVAR store hangs only below a RAW file, and it is the store the hook returned.  Proved for every
  recursion budget by the parser's own recursion (the same scheme as `layers` of FaithfulLemmas.lean).
-/
import FianoModel.Uefi.TreeOk

namespace Fiano.Uefi
open Fiano
open EditArith

mutual
def SecNv : Section → Prop
  | .mk _ _ encap => NodesNv encap
def NodesNv : List Node → Prop
  | [] => True
  | .sec s :: ns => SecNv s ∧ NodesNv ns
  | .fv v :: ns => FvNv v ∧ NodesNv ns
def SecsNv : List Section → Prop
  | [] => True
  | s :: ss => SecNv s ∧ SecsNv ss
def FileNv : File → Prop
  | .mk i _ secs => (∀ nv, i.nvar = some nv → i.type = 1 ∧ nv.length = nv.buf.length) ∧ SecsNv secs
def FilesNv : List File → Prop
  | [] => True
  | f :: fs => FileNv f ∧ FilesNv fs
def FvNv : Fv → Prop
  | .mk _ _ files => FilesNv files
end

def ElemsNv : List BiosElem → Prop
  | [] => True
  | .pad _ _ :: es => ElemsNv es
  | .fv v :: es => FvNv v ∧ ElemsNv es

def NSec (h : Hooks) (fuel : Nat) : Prop :=
  ∀ buf order st s st', parseSection h fuel buf order st = .ok (s, st') → SecNv s
def NEncap (h : Hooks) (fuel : Nat) : Prop :=
  ∀ enc off idx st ns st', parseEncap h fuel enc off idx st = .ok (ns, st') → NodesNv ns
def NSecs (h : Hooks) (fuel : Nat) : Prop :=
  ∀ fbuf off ext idx st ss st', parseSections h fuel fbuf off ext idx st = .ok (ss, st') → SecsNv ss
def NFile (h : Hooks) (fuel : Nat) : Prop :=
  ∀ buf st f st', parseFile h fuel buf st = .ok (some f, st') → FileNv f
def NFiles (h : Hooks) (fuel : Nat) : Prop :=
  ∀ data off lh length st fs free st', parseFiles h fuel data off lh length st = .ok (fs, free, st') → FilesNv fs
def NFv (h : Hooks) (fuel : Nat) : Prop :=
  ∀ data fvo rsz st v st', parseFv h fuel data fvo rsz st = .ok (v, st') → FvNv v

theorem secNv_mk (i : SecInfo) (b : Bytes) (ns : List Node) : SecNv (mkSection i b ns) ↔ NodesNv ns := by
  unfold mkSection; rw [SecNv]

theorem nodesNv_nil : NodesNv [] := by rw [NodesNv]; trivial

theorem nsec_step (h : Hooks) (fuel : Nat) (hE : NEncap h fuel) (hV : NFv h fuel) : NSec h (fuel + 1) := by
  intro buf order st s st' hp
  rw [parseSection] at hp
  split at hp
  · cases hp
  · simp only [] at hp
    split at hp
    · split at hp
      · cases hp
      · split at hp
        · split at hp
          · split at hp
            · cases hp
            · split at hp
              · split at hp
                · cases hp
                · rename_i ns st1 hpe
                  cases hp
                  rw [secNv_mk]
                  exact hE _ _ _ _ _ _ hpe
              · cases hp; rw [secNv_mk]; exact nodesNv_nil
          · cases hp; rw [secNv_mk]; exact nodesNv_nil
        · cases hp; rw [secNv_mk]; exact nodesNv_nil
    · split at hp
      · split at hp
        · cases hp
        · cases hp; rw [secNv_mk]; exact nodesNv_nil
      · split at hp
        · split at hp
          · cases hp
          · cases hp; rw [secNv_mk]; exact nodesNv_nil
        · split at hp
          · split at hp
            · cases hp
            · split at hp
              · cases hp
              · rename_i fv st1 hpv
                cases hp
                rw [secNv_mk, NodesNv]
                exact ⟨hV _ _ _ _ _ _ hpv, nodesNv_nil⟩
          · split at hp
            · split at hp
              · cases hp
              · split at hp
                · cases hp; rw [secNv_mk]; exact nodesNv_nil
                · cases hp; rw [secNv_mk]; exact nodesNv_nil
            · cases hp; rw [secNv_mk]; exact nodesNv_nil

theorem nencap_step (h : Hooks) (fuel : Nat) (hS : NSec h fuel) (hE : NEncap h fuel) : NEncap h (fuel + 1) := by
  intro enc off idx st ns st' hp
  rw [parseEncap] at hp
  split at hp
  · split at hp
    · cases hp
    · rename_i s st1 hps
      split at hp
      · cases hp
      · split at hp
        · cases hp
        · rename_i ns' st2 hpe
          cases hp
          rw [NodesNv]
          exact ⟨hS _ _ _ _ _ hps, hE _ _ _ _ _ _ hpe⟩
  · cases hp; exact nodesNv_nil

theorem nsecs_step (h : Hooks) (fuel : Nat) (hS : NSec h fuel) (hSs : NSecs h fuel) : NSecs h (fuel + 1) := by
  intro fbuf off ext idx st ss st' hp
  rw [parseSections] at hp
  split at hp
  · split at hp
    · cases hp
    · rename_i s st1 hps
      split at hp
      · cases hp
      · split at hp
        · cases hp
        · rename_i ss' st2 hpe
          cases hp
          rw [SecsNv]
          exact ⟨hS _ _ _ _ _ hps, hSs _ _ _ _ _ _ _ hpe⟩
  · cases hp; rw [SecsNv]; trivial

theorem nfile_step (h : Hooks) (hlaw : h.NvLaw) (fuel : Nat) (hSs : NSecs h fuel) : NFile h (fuel + 1) := by
  intro buf st f st' hp
  rw [parseFile] at hp
  split at hp
  · cases hp
  · cases hp
  · rename_i i hfh
    simp only [] at hp
    split at hp
    · cases hp
    · rename_i nvs hnv
      -- the store, if any, comes from the hook and the file is a RAW file
      have hstore : ∀ nv, nvs = some nv → i.type = 1 ∧ nv.length = nv.buf.length := by
        intro nv hnvs
        split at hnv
        · rename_i hc
          split at hnv
          · cases hnv
          · cases hnv
            exact ⟨hc.1, hlaw.1 _ nv hnvs⟩
        · cases hnv
          cases hnvs
      split at hp
      · cases hp
        rw [FileNv]
        exact ⟨hstore, by rw [SecsNv]; trivial⟩
      · split at hp
        · cases hp
        · rename_i ss st1 hps
          cases hp
          rw [FileNv]
          exact ⟨hstore, hSs _ _ _ _ _ _ _ hps⟩

theorem nfiles_step (h : Hooks) (fuel : Nat) (hF : NFile h fuel) (hFs : NFiles h fuel) : NFiles h (fuel + 1) := by
  intro data off lh length st fs free st' hp
  rw [parseFiles] at hp
  split at hp
  · simp only [] at hp
    split at hp
    · cases hp
    · split at hp
      · cases hp
      · cases hp; rw [FilesNv]; trivial
      · rename_i f st1 hpf
        split at hp
        · cases hp
        · split at hp
          · cases hp
          · rename_i fs' free' st2 hpfs
            cases hp
            rw [FilesNv]
            exact ⟨hF _ _ _ _ hpf, hFs _ _ _ _ _ _ _ _ hpfs⟩
  · cases hp; rw [FilesNv]; trivial

theorem nfv_step (h : Hooks) (fuel : Nat) (hFs : NFiles h fuel) : NFv h (fuel + 1) := by
  intro data fvo rsz st v st' hp
  rw [parseFv] at hp
  split at hp
  · cases hp
  · split at hp
    · cases hp
    · simp only [] at hp
      split at hp
      · cases hp
      · split at hp
        · cases hp
        · split at hp
          · cases hp
          · split at hp
            · cases hp; rw [FvNv, FilesNv]; trivial
            · split at hp
              · cases hp
              · rename_i fs free st2 hpf
                cases hp
                rw [FvNv]
                exact hFs _ _ _ _ _ _ _ _ hpf

/-- **NVAR stores hang below RAW files only**, for every recursion budget -/
theorem nvLayers (h : Hooks) (hlaw : h.NvLaw) : ∀ fuel,
    NSec h fuel ∧ NEncap h fuel ∧ NSecs h fuel ∧ NFile h fuel ∧ NFiles h fuel ∧ NFv h fuel := by
  intro fuel
  induction fuel with
  | zero =>
    refine ⟨?_, ?_, ?_, ?_, ?_, ?_⟩
    · intro buf order st s st' hp; rw [parseSection] at hp; cases hp
    · intro enc off idx st ns st' hp; rw [parseEncap] at hp; cases hp
    · intro fbuf off ext idx st ss st' hp; rw [parseSections] at hp; cases hp
    · intro buf st f st' hp; rw [parseFile] at hp; cases hp
    · intro data off lh length st fs free st' hp; rw [parseFiles] at hp; cases hp
    · intro data fvo rsz st v st' hp; rw [parseFv] at hp; cases hp
  | succ n ih =>
    obtain ⟨hS, hE, hSs, hF, hFs, hV⟩ := ih
    exact ⟨nsec_step h n hE hV, nencap_step h n hS hE, nsecs_step h n hS hSs, nfile_step h hlaw n hSs,
      nfiles_step h n hF hFs, nfv_step h n hFs⟩

theorem parseBiosElems_nv (h : Hooks) (hlaw : h.NvLaw) : ∀ (fuel : Nat) (buf : Bytes) (abs : Nat) (st : St)
    (es : List BiosElem) (st' : St), parseBiosElems h fuel buf abs st = .ok (es, st') → ElemsNv es := by
  intro fuel
  induction fuel with
  | zero => intro buf abs st es st' hp; simp [parseBiosElems] at hp
  | succ m ih =>
    intro buf abs st es st' hp
    rw [parseBiosElems] at hp
    split at hp
    · cases hp
      split
      · rw [ElemsNv, ElemsNv]; trivial
      · rw [ElemsNv]; trivial
    · simp only at hp
      split at hp
      · cases hp
      · rename_i fv st1 hfv
        split at hp
        · cases hp
        · split at hp
          · cases hp
          · rename_i es' st2 hrec
            cases hp
            have h1 := (nvLayers h hlaw m).2.2.2.2.2 _ _ _ _ _ _ hfv
            have h2 := ih _ _ _ _ _ hrec
            split
            · simp only [List.singleton_append]
              rw [ElemsNv, ElemsNv]
              exact ⟨h1, h2⟩
            · simp only [List.nil_append]
              rw [ElemsNv]
              exact ⟨h1, h2⟩

end Fiano.Uefi
