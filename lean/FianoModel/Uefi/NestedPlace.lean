/-
  Property C06 — the arithmetic of the placement rule of the FirmwareVolume case of
  `visitors.Assemble` (DESIGN Appendix A.1), on top of the C01 lemma library.

  wp-edit (C02) proved the same facts in PlaceLemmas.lean / LayoutLemmas.lean; that library and the
  C01 library under Lemmas/ declare some theorems under the same names (`align8_eq`, `sum8_append`,
  …) and cannot be imported together, so the few facts needed here are restated (same proofs, `alignUp`
  of Spec.lean in place of `roundUp`, `hdrLenOfAttrs` in place of `hdrLen`).
-/
import FianoModel.Uefi.Lemmas.AsmFv

namespace Fiano.Uefi.Nested
open Fiano Fiano.Uefi Fiano.Uefi.Spec

/-- the data alignments other than 1 -/
def bigAligns : List Nat :=
  [16, 128, 512, 1024, 4096, 32768, 65536, 131072, 262144, 524288, 1048576, 2097152, 4194304, 8388608, 16777216]

/-- the arithmetic of the placement rule: aligned offset `al`, header length `hl`, alignment `a` -/
def placeAt (al hl a : Nat) : Nat :=
  let d := alignUp (al + hl) a
  let gap := d - hl - al
  if 8 ≤ gap ∧ gap < 24 then alignUp (d + 1) a - hl else d - hl

/-- **A.1**: the file lands at or after the aligned offset, on an 8-byte boundary, with its data
    aligned, and the gap left before it is either empty or can hold a pad file (≥ 24 bytes) -/
theorem placeAt_spec (al hl a : Nat) (ha : a ∈ bigAligns) (hhl : hl = 24 ∨ hl = 32) (h8 : al % 8 = 0) :
    al ≤ placeAt al hl a ∧ placeAt al hl a % 8 = 0 ∧ (placeAt al hl a + hl) % a = 0 ∧
    (placeAt al hl a = al ∨ al + 24 ≤ placeAt al hl a) ∧ placeAt al hl a < al + 2 * a := by
  unfold placeAt alignUp bigAligns at *
  simp only [List.mem_cons, List.mem_nil_iff, or_false] at ha
  rcases hhl with rfl | rfl <;>
  rcases ha with rfl | rfl | rfl | rfl | rfl | rfl | rfl | rfl | rfl | rfl | rfl | rfl | rfl | rfl | rfl <;>
  (simp only []; split <;> omega)

set_option maxRecDepth 16384 in
theorem alignmentOf_cases : ∀ attrs, attrs < 256 → alignmentOf attrs = 1 ∨ alignmentOf attrs ∈ bigAligns := by
  decide

theorem bigAligns_pow2 (a : Nat) (ha : a ∈ bigAligns) : ∃ k, k ≤ 63 ∧ a = 2 ^ k ∧ a ≤ 16777216 ∧ 16 ≤ a := by
  unfold bigAligns at ha
  simp only [List.mem_cons, List.mem_nil_iff, or_false] at ha
  rcases ha with rfl | rfl | rfl | rfl | rfl | rfl | rfl | rfl | rfl | rfl | rfl | rfl | rfl | rfl | rfl
  · exact ⟨4, by decide⟩
  · exact ⟨7, by decide⟩
  · exact ⟨9, by decide⟩
  · exact ⟨10, by decide⟩
  · exact ⟨12, by decide⟩
  · exact ⟨15, by decide⟩
  · exact ⟨16, by decide⟩
  · exact ⟨17, by decide⟩
  · exact ⟨18, by decide⟩
  · exact ⟨19, by decide⟩
  · exact ⟨20, by decide⟩
  · exact ⟨21, by decide⟩
  · exact ⟨22, by decide⟩
  · exact ⟨23, by decide⟩
  · exact ⟨24, by decide⟩

theorem alignGo_big (v a : Nat) (ha : a ∈ bigAligns) (hv : v < 2 ^ 63) : alignGo v a = alignUp v a := by
  obtain ⟨k, hk, rfl, hle, _⟩ := bigAligns_pow2 a ha
  rw [alignGo_pow2 v k hk (by omega)]
  rfl

/-- where the loop puts a file whose predecessor ended at `off` -/
def fileStart (off attrs : Nat) : Nat :=
  let al := alignUp off 8
  if alignmentOf attrs = 1 then al else placeAt al (hdrLenOfAttrs attrs) (alignmentOf attrs)

theorem alignUp8_ge (off : Nat) : off ≤ alignUp off 8 ∧ alignUp off 8 % 8 = 0 ∧ alignUp off 8 < off + 8 := by
  unfold alignUp; omega

theorem hdrLenOfAttrs_cases (attrs : Nat) : hdrLenOfAttrs attrs = 24 ∨ hdrLenOfAttrs attrs = 32 := by
  unfold hdrLenOfAttrs; split <;> simp

theorem fileStart_spec (off attrs : Nat) (ha : attrs < 256) :
    alignUp off 8 ≤ fileStart off attrs ∧ fileStart off attrs % 8 = 0 ∧
    (fileStart off attrs + hdrLenOfAttrs attrs) % alignmentOf attrs = 0 ∧
    (fileStart off attrs = alignUp off 8 ∨ alignUp off 8 + 24 ≤ fileStart off attrs) ∧
    fileStart off attrs < off + 8 + 2 * 16777216 := by
  have h8 := alignUp8_ge off
  unfold fileStart
  simp only
  rcases alignmentOf_cases attrs ha with h1 | hb
  · rw [if_pos h1, h1]
    refine ⟨Nat.le_refl _, h8.2.1, Nat.mod_one _, Or.inl rfl, by omega⟩
  · have hne : alignmentOf attrs ≠ 1 := by
      intro h; rw [h] at hb; revert hb; decide
    rw [if_neg hne]
    have := placeAt_spec (alignUp off 8) (hdrLenOfAttrs attrs) (alignmentOf attrs) hb (hdrLenOfAttrs_cases attrs) h8.2.1
    obtain ⟨_, _, _, hle, _⟩ := bigAligns_pow2 _ hb
    exact ⟨this.1, this.2.1, this.2.2.1, this.2.2.2.1, by omega⟩

/-- a file that already sits where the rule puts it stays there -/
theorem fileStart_fixed (off attrs : Nat) (ha : attrs < 256)
    (hal : (alignUp off 8 + hdrLenOfAttrs attrs) % alignmentOf attrs = 0) : fileStart off attrs = alignUp off 8 := by
  unfold fileStart
  simp only
  rcases alignmentOf_cases attrs ha with h1 | hb
  · rw [if_pos h1]
  · have hne : alignmentOf attrs ≠ 1 := by
      intro h; rw [h] at hb; revert hb; decide
    rw [if_neg hne]
    obtain ⟨k, _, hk, hle, hge⟩ := bigAligns_pow2 _ hb
    generalize alignmentOf attrs = a at *
    generalize hdrLenOfAttrs attrs = hl at *
    generalize alignUp off 8 = al at *
    have hpos : 0 < a := by omega
    have hd : alignUp (al + hl) a = al + hl := by
      unfold alignUp
      have h1 := Nat.div_add_mod (al + hl) a
      rw [hal] at h1
      have h2 : (al + hl + a - 1) / a = (al + hl) / a := by
        rw [Nat.div_eq_iff hpos]
        constructor
        · have := Nat.div_mul_le_self (al + hl) a; omega
        · have : (al + hl) / a * a = al + hl := by rw [Nat.mul_comm]; omega
          omega
      rw [h2, Nat.mul_comm]; omega
    unfold placeAt
    simp only [hd]
    rw [if_neg (by omega)]
    omega

end Fiano.Uefi.Nested

namespace Fiano.Uefi.Nested
open Fiano Fiano.Uefi Fiano.Uefi.Spec

/-- `ChecksumAndAssemble` writes the header checksum of the specification whatever checksum the
    header struct carried before (C01's `checksumAndAssemble_id` without its premise on the old value) -/
theorem checksumAndAssemble_any (g : Guid) (t a' st c0 ckfOld : Nat) (L : Bool) (total doff : Nat) (data : Bytes)
    (hg : g.length = 16) (hL : (a' &&& 1 ≠ 0) ↔ L = true) :
    (checksumAndAssemble
      { guid := g, ckHeader := c0, ckFile := ckfOld, type := t,
        attrs := a', size3 := if L then 0xFFFFFF else total, state := st, extSize := total, dataOffset := doff }
      data).2 =
    fileHdr g (0 - sum8 (fileHdr g 0 0 t a' L total 0))
      (if a' &&& 0x40 ≠ 0 then 0 - sum8 data else 0xAA) t a' L total st ++ data := by
  unfold checksumAndAssemble
  have hLd : decide (a' &&& 1 ≠ 0) = L := by
    cases L
    · simp only [decide_eq_false_iff_not]; intro h; exact absurd (hL.mp h) (by decide)
    · simp only [decide_eq_true_eq]; exact hL.mpr rfl
  have hhs : (if a' &&& 1 ≠ 0 then (32 : Nat) else 24) = if L then 32 else 24 := by
    cases L
    · rw [if_neg (fun h => absurd (hL.mp h) (by decide))]; rfl
    · rw [if_pos (hL.mpr rfl)]; rfl
  simp only [hLd, hhs]
  have htake := encodeFileHeader_take
    { guid := g, ckHeader := c0, ckFile := ckfOld, type := t,
      attrs := a', size3 := if L then 0xFFFFFF else total, state := st, extSize := total, dataOffset := doff }
    (byte c0) (byte ckfOld) L hg rfl
  dsimp only at htake
  have hsum := sum8_fileHdr g (byte c0) (byte ckfOld) t a' L total st
  rw [htake, hsum, encodeFileHeader_eq _ _ _ L rfl]
  dsimp only
  have hz : byte c0 -
      (sum8 (fileHdr g 0 0 t a' L total 0) + byte c0 + byte ckfOld + byte st - byte ckfOld - byte st) =
        0 - sum8 (fileHdr g 0 0 t a' L total 0) := by
    grind
  rw [hz]

/-- the pad file of `size` bytes that `uefi.CreatePadFile` builds under erase polarity 1, as a
    verbatim file of the grammar (24 ≤ size < 16 MiB: short header) -/
def padLeaf (size : Nat) : FileI :=
  .leaf guidFF (0 - sum8 (fileHdr guidFF 0 0 0xF0 0 false size 0)).toNat 0xAA 0xF0 0 0xF8 false (ffs (size - 24))

theorem createPadFile_small (size : Nat) (h24 : 24 ≤ size) (hs : size < 0xFFFFFF) :
    createPadFile 0xFF size = .ok (serFile (padLeaf size)) := by
  unfold createPadFile
  rw [if_neg (by omega), if_neg (by decide)]
  have hset : setSize 0 size false = (0, size, size) := by
    unfold setSize write3
    rw [if_neg (by omega), if_neg (by omega)]
    rfl
  simp only [hset]
  have hck := checksumAndAssemble_any guidFF 0xF0 0 0xF8 0 0 false size 24 (List.replicate (size - 24) 0xFF)
    (by decide) (by decide)
  simp only [Bool.false_eq_true, if_false] at hck
  have hst : (0x07 ^^^ (0xFF : UInt8)).toNat = 0xF8 := by decide
  have hdl : (if (0 : Nat) &&& 1 ≠ 0 then size - 32 else size - 24) = size - 24 := by
    rw [if_neg (by decide)]
  simp only [if_true, hst, hdl]
  rw [hck]
  simp only [padLeaf, serFile, Bool.false_eq_true, if_false, ffs, List.length_replicate, byte_of_toNat]
  have e : 24 + (size - 24) = size := by omega
  rw [e]
  rfl

theorem sizeFile_padLeaf (size : Nat) (h24 : 24 ≤ size) : sizeFile (padLeaf size) = size := by
  simp only [padLeaf, sizeFile, ffs, List.length_replicate, Bool.false_eq_true, if_false]; omega

theorem length_padLeaf (size : Nat) (h24 : 24 ≤ size) : (serFile (padLeaf size)).length = size := by
  simp only [padLeaf, serFile, List.length_append, fileHdr_length _ _ _ _ _ _ _ _ (show guidFF.length = 16 by decide),
    ffs, List.length_replicate, Bool.false_eq_true, if_false]; omega

/-- **one iteration of the file loop in closed form** (erase polarity 1, pad file below 16 MiB) -/
theorem placeFile_gen (buf : Bytes) (off attrs : Nat) (fb : Bytes) (ha : attrs < 256) (hlen : buf.length = off)
    (hoff : off < 2 ^ 62) (hfb : fb.length ≠ 0) (hsmall : fileStart off attrs - alignUp off 8 < 0xFFFFFF) :
    placeFile 0xFF buf off attrs fb =
      .ok (buf ++ ffs (alignUp off 8 - off) ++
            (if fileStart off attrs = alignUp off 8 then []
             else serFile (padLeaf (fileStart off attrs - alignUp off 8))) ++ fb,
           fileStart off attrs + fb.length) := by
  have h8 := alignUp8_ge off
  have hspec := fileStart_spec off attrs ha
  have hal : align8 off = alignUp off 8 := align8_eq off (by omega)
  unfold placeFile
  rw [if_neg hfb]
  simp only [hal]
  unfold fileStart at *
  simp only at *
  rcases alignmentOf_cases attrs ha with h1 | hb
  · rw [if_pos h1] at hspec ⊢
    simp only [h1, ne_eq, not_true_eq_false, if_false, if_true]
    unfold insertFile
    rw [if_neg (by omega), if_neg hfb, hlen]
    simp [ffs]
  · have hne : alignmentOf attrs ≠ 1 := by
      intro h; rw [h] at hb; revert hb; decide
    obtain ⟨k, hk, hak, hle, hge⟩ := bigAligns_pow2 _ hb
    rw [if_neg hne] at hspec hsmall ⊢
    rw [if_pos hne]
    have hhl : (if attrs &&& 1 ≠ 0 then 32 else 24) = hdrLenOfAttrs attrs := rfl
    rw [hhl]
    have hl := hdrLenOfAttrs_cases attrs
    generalize hdrLenOfAttrs attrs = hl' at *
    generalize hA : alignmentOf attrs = a at *
    have hr1 : alignGo (alignUp off 8 + hl') a = alignUp (alignUp off 8 + hl') a :=
      alignGo_big _ _ hb (by omega)
    have hd : alignUp off 8 + hl' ≤ alignUp (alignUp off 8 + hl') a ∧
        alignUp (alignUp off 8 + hl') a < alignUp off 8 + hl' + a := by
      have hpos : 0 < a := by omega
      constructor
      · exact alignUp_ge _ _ hpos
      · exact alignUp_lt _ _ hpos
    rw [hr1]
    have hr2 : alignGo (alignUp (alignUp off 8 + hl') a + 1) a = alignUp (alignUp (alignUp off 8 + hl') a + 1) a :=
      alignGo_big _ _ hb (by omega)
    rw [hr2]
    have e1 : (alignUp (alignUp off 8 + hl') a + 18446744073709551616 - hl') % 18446744073709551616 =
        alignUp (alignUp off 8 + hl') a - hl' := by omega
    rw [e1]
    have e2 : (alignUp (alignUp off 8 + hl') a - hl' + 18446744073709551616 - alignUp off 8) % 18446744073709551616 =
        alignUp (alignUp off 8 + hl') a - hl' - alignUp off 8 := by omega
    rw [e2]
    have hd2 : alignUp (alignUp off 8 + hl') a + 1 ≤ alignUp (alignUp (alignUp off 8 + hl') a + 1) a ∧
        alignUp (alignUp (alignUp off 8 + hl') a + 1) a < alignUp (alignUp off 8 + hl') a + 1 + a := by
      have hpos : 0 < a := by omega
      exact ⟨alignUp_ge _ _ hpos, alignUp_lt _ _ hpos⟩
    have e3 : (alignUp (alignUp (alignUp off 8 + hl') a + 1) a + 18446744073709551616 - hl') % 18446744073709551616 =
        alignUp (alignUp (alignUp off 8 + hl') a + 1) a - hl' := by omega
    rw [e3]
    have hP : (if alignUp (alignUp off 8 + hl') a - hl' - alignUp off 8 ≥ 8 ∧
          alignUp (alignUp off 8 + hl') a - hl' - alignUp off 8 < 24
        then alignUp (alignUp (alignUp off 8 + hl') a + 1) a - hl' else alignUp (alignUp off 8 + hl') a - hl') =
        placeAt (alignUp off 8) hl' a := by
      unfold placeAt
      simp only [ge_iff_le]
    rw [hP]
    generalize placeAt (alignUp off 8) hl' a = n at *
    by_cases hn : n = alignUp off 8
    · rw [if_neg (by simpa using hn), if_pos hn]
      unfold insertFile
      rw [if_neg (by omega), if_neg hfb, hlen]
      simp [hn, ffs]
    · rw [if_pos hn, if_neg hn]
      have hge24 : 24 ≤ n - alignUp off 8 := by omega
      have e4 : (n + 18446744073709551616 - alignUp off 8) % 18446744073709551616 = n - alignUp off 8 := by omega
      rw [e4, createPadFile_small _ hge24 hsmall]
      have hpl := length_padLeaf (n - alignUp off 8) hge24
      unfold insertFile
      dsimp only
      rw [if_neg (by omega), if_neg (by omega)]
      dsimp only
      rw [if_neg (by simp [hlen, hpl]; omega), if_neg hfb]
      simp [hlen, hpl, ffs]
      have : n - (off + (alignUp off 8 - off + (n - alignUp off 8))) = 0 := by omega
      rw [this]

end Fiano.Uefi.Nested
