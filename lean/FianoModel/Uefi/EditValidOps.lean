/-
  C02 (follow-up wp-c02b), layer (e), part 1: every edit keeps the invariant.

  The three edit visitors are instances of the generic top-down rewriting `rw*` (Visitors.lean).
  `EditorOk E` says what an editor must guarantee where it fires — a file list that satisfies the
  invariant at a volume, a file that satisfies it at a file —; `rwTree_ok` then carries `TreeOk`
  through the rewriting (mutual structural induction, the frame of the rewriting does the rest).
-/
import FianoModel.Uefi.EditValidTop

namespace Fiano.Uefi
open Fiano
open EditArith

structure EditorOk (E : Editor) : Prop where
  fv   : ∀ v files', FvOk v → E.fv v = some (.ok files') → FilesOk (fvErased v.buf) files'
  file : ∀ e f f', (e = 0xFF ∨ e = 0) → FileOk e f → E.file f = some (.ok (some f')) → FileOk e f'

theorem rwNodes_nil_iff (E : Editor) (ns ns' : List Node) (h : rwNodes E ns = .ok ns') : (ns' = [] ↔ ns = []) := by
  cases ns with
  | nil => rw [rwNodes] at h; cases h; simp
  | cons n rest =>
    cases n with
    | sec s =>
      rw [rwNodes] at h
      split at h
      · cases h
      · split at h
        · cases h
        · cases h; simp
    | fv v =>
      rw [rwNodes] at h
      split at h
      · cases h
      · split at h
        · cases h
        · cases h; simp

theorem rwSections_nil_iff (E : Editor) (ss ss' : List Section) (h : rwSections E ss = .ok ss') : (ss' = [] ↔ ss = []) := by
  cases ss with
  | nil => rw [rwSections] at h; cases h; simp
  | cons s rest =>
    rw [rwSections] at h
    split at h
    · cases h
    · split at h
      · cases h
      · cases h; simp

mutual

theorem rwSection_ok (E : Editor) (hE : EditorOk E) : ∀ (s s' : Section), SecOk s → rwSection E s = .ok s' → SecOk s'
  | .mk i buf encap, s', hok, h => by
    rw [rwSection] at h
    split at h
    · cases h
    · rename_i encap' hn
      cases h
      have hniff := rwNodes_nil_iff E encap encap' hn
      rw [SecOk] at hok ⊢
      refine ⟨hok.1, ?_⟩
      by_cases h2 : i.type = 0x02
      · rw [if_pos h2] at hok ⊢
        exact ⟨hok.2.1, fun c => hok.2.2 (hniff.mp c)⟩
      · rw [if_neg h2] at hok ⊢
        refine ⟨hok.2.1, ?_⟩
        by_cases h17 : i.type = 0x17
        · rw [if_pos h17] at hok ⊢
          exact rwNodeFv_ok E hE encap encap' hok.2.2 hn
        · rw [if_neg h17] at hok ⊢
          exact ⟨hniff.mpr hok.2.2.1, hok.2.2.2⟩

theorem rwNodeFv_ok (E : Editor) (hE : EditorOk E) : ∀ (ns ns' : List Node), NodeFvOk ns → rwNodes E ns = .ok ns' → NodeFvOk ns'
  | [], _, hok, _ => absurd hok NodeFvOk_nil
  | .sec _ :: _, _, hok, _ => by
    rw [NodeFvOk] at hok
    · exact hok.elim
    · intro v hv; cases hv
  | .fv _ :: _ :: _, _, hok, _ => by
    rw [NodeFvOk] at hok
    · exact hok.elim
    · intro v hv; cases hv
  | [.fv v], ns', hok, h => by
    rw [NodeFvOk] at hok
    rw [rwNodes] at h
    split at h
    · cases h
    · rename_i v1 hv
      rw [rwNodes] at h
      simp only at h
      cases h
      rw [NodeFvOk]
      exact rwFv_ok E hE v v1 hok hv

theorem rwSections_ok (E : Editor) (hE : EditorOk E) : ∀ (ss ss' : List Section), SecsOk ss → rwSections E ss = .ok ss' → SecsOk ss'
  | [], ss', _, h => by
    rw [rwSections] at h; cases h; rw [SecsOk]; trivial
  | s :: ss, ss', hok, h => by
    rw [SecsOk] at hok
    rw [rwSections] at h
    split at h
    · cases h
    · rename_i s1 hs
      split at h
      · cases h
      · rename_i ss1 hss
        cases h
        rw [SecsOk]
        exact ⟨rwSection_ok E hE s s1 hok.1 hs, rwSections_ok E hE ss ss1 hok.2 hss⟩

theorem rwFile_ok (E : Editor) (hE : EditorOk E) : ∀ (e : UInt8) (f : File) (r : Option File), (e = 0xFF ∨ e = 0) →
    FileOk e f → rwFile E f = .ok r → ∀ f', r = some f' → FileOk e f'
  | e, .mk i buf secs, r, he, hok, h => by
    intro f' hr
    subst hr
    rw [rwFile] at h
    split at h
    · rename_i r0 hf
      rw [h] at hf
      exact hE.file e _ f' he hok hf
    · split at h
      · cases h; exact hok
      · rename_i hnv
        split at h
        · cases h
        · rename_i secs' hss
          cases h
          have hniff := rwSections_nil_iff E secs secs' hss
          rw [FileOk] at hok ⊢
          obtain ⟨a1, a2, a3, a4, a5, a6, a7, a8, a9⟩ := hok
          refine ⟨a1, a2, a3, a4, a5, a6, fun c => a7 ?_, fun c1 c2 => a8 c1 (hniff.mp c2), rwSections_ok E hE secs secs' a9 hss⟩
          rcases c with c | c
          · exact Or.inl c
          · exact Or.inr (fun c' => c (hniff.mpr c'))

theorem rwFiles_ok (E : Editor) (hE : EditorOk E) : ∀ (e : UInt8) (fs fs' : List File), (e = 0xFF ∨ e = 0) →
    FilesOk e fs → rwFiles E fs = .ok fs' → FilesOk e fs'
  | e, [], fs', _, _, h => by
    rw [rwFiles] at h; cases h; rw [FilesOk]; trivial
  | e, f :: fs, fs', he, hok, h => by
    rw [FilesOk] at hok
    rw [rwFiles] at h
    split at h
    · cases h
    · rename_i r hf
      split at h
      · cases h
      · rename_i rs hfs
        have h2 := rwFiles_ok E hE e fs rs he hok.2 hfs
        split at h
        · rename_i f1
          cases h
          rw [FilesOk]
          exact ⟨rwFile_ok E hE e f (some f1) he hok.1 hf f1 rfl, h2⟩
        · cases h
          exact h2

theorem rwFv_ok (E : Editor) (hE : EditorOk E) : ∀ (v v' : Fv), FvOk v → rwFv E v = .ok v' → FvOk v'
  | .mk i buf files, v', hok, h => by
    rw [rwFv] at h
    split at h
    · cases h
    · rename_i files' hf
      cases h
      have := hE.fv _ files' hok hf
      rw [FvOk] at hok ⊢
      exact ⟨hok.1, this⟩
    · split at h
      · cases h
      · rename_i files' hfs
        cases h
        rw [FvOk] at hok ⊢
        exact ⟨hok.1, rwFiles_ok E hE (fvErased buf) files files' (fvErased_cases buf) hok.2 hfs⟩

end

end Fiano.Uefi

namespace Fiano.Uefi
open Fiano
open EditArith

/-! ### regions and the root -/

theorem rwBiosElems_ok (E : Editor) (hE : EditorOk E) : ∀ (es es' : List BiosElem),
    ElemsOk es → rwBiosElems E es = .ok es' → ElemsOk es' ∧ ElemsRel es es'
  | [], es', _, h => by
    rw [rwBiosElems] at h; cases h
    exact ⟨by rw [ElemsOk]; trivial, .nil⟩
  | .pad p o :: es, es', hok, h => by
    rw [rwBiosElems] at h
    split at h
    · cases h
    · rename_i es1 hes
      cases h
      cases es with
      | nil =>
        rw [rwBiosElems] at hes
        cases hes
        exact ⟨hok, elemsRel_refl _⟩
      | cons x rest =>
        cases x with
        | pad q o2 => rw [ElemsOk] at hok; exact hok.elim
        | fv v =>
          rw [ElemsOk] at hok
          obtain ⟨ih1, ih2⟩ := rwBiosElems_ok E hE (.fv v :: rest) es1 hok.2 hes
          cases ih2 with
          | fv _ v1 _ rest1 hc hr =>
            refine ⟨?_, .pad p o _ _ (.fv v v1 rest rest1 hc hr)⟩
            rw [ElemsOk]
            exact ⟨hok.1.compat hc, ih1⟩
  | .fv v :: es, es', hok, h => by
    rw [ElemsOk] at hok
    rw [rwBiosElems] at h
    split at h
    · cases h
    · rename_i v1 hv
      split at h
      · cases h
      · rename_i es1 hes
        cases h
        have hv1 := rwFv_ok E hE v v1 hok.1.1 hv
        have hsk := rwFv_skeleton E v v1 hv
        obtain ⟨ih1, ih2⟩ := rwBiosElems_ok E hE es es1 hok.2 hes
        have hc : Compat v.buf v1.buf := by rw [hsk.2]; exact Compat.refl _
        refine ⟨?_, .fv v v1 es es1 hc ih2⟩
        rw [ElemsOk]
        exact ⟨⟨hv1, by rw [hsk.1]; exact hok.1.2⟩, ih1⟩

theorem rwBios_ok (E : Editor) (hE : EditorOk E) (b b' : BiosRegion) (hok : BiosOk b) (h : rwBios E b = .ok b') :
    BiosOk b' ∧ ElemsRel b.elems b'.elems ∧ b'.length = b.length := by
  unfold rwBios at h
  split at h
  · cases h
  · rename_i es hes
    cases h
    obtain ⟨h1, h2⟩ := rwBiosElems_ok E hE b.elems es hok.elems hes
    exact ⟨⟨h1, by rw [elemsRel_len _ _ h2]; exact hok.len⟩, h2, rfl⟩

theorem rwRegions_ok (E : Editor) (hE : EditorOk E) (B : Nat) : ∀ (l l' : List Region),
    rwRegions E l = .ok l' → (∀ b, .bios b ∈ l → BiosOk b ∧ b.length ≤ B) →
    (∀ b', .bios b' ∈ l' → BiosOk b' ∧ b'.length ≤ B) ∧ ((∃ b, .bios b ∈ l) → ∃ b', .bios b' ∈ l') := by
  intro l
  induction l with
  | nil =>
    intro l' h _
    simp [rwRegions] at h
    subst h
    exact ⟨(fun b' hb => by cases hb), (fun ⟨b, hb⟩ => by cases hb)⟩
  | cons r rest ih =>
    intro l' h hok
    cases r with
    | bios b =>
      rw [rwRegions] at h
      split at h
      · cases h
      · rename_i b1 hb
        split at h
        · cases h
        · rename_i rs' hrs
          cases h
          obtain ⟨hbok, hble⟩ := hok b (by simp)
          obtain ⟨h1, _, h3⟩ := rwBios_ok E hE b b1 hbok hb
          obtain ⟨ih1, _⟩ := ih rs' hrs (fun x hx => hok x (by simp [hx]))
          refine ⟨fun b' hb' => ?_, fun _ => ⟨b1, by simp⟩⟩
          simp only [List.mem_cons] at hb'
          rcases hb' with hb' | hb'
          · cases hb'
            exact ⟨h1, by omega⟩
          · exact ih1 b' hb'
    | me x y =>
      rw [rwRegions] at h
      · split at h
        · cases h
        · rename_i rs' hrs
          cases h
          obtain ⟨ih1, ih2⟩ := ih rs' hrs (fun x hx => hok x (by simp [hx]))
          refine ⟨fun b' hb' => ?_, fun ⟨b, hb⟩ => ?_⟩
          · simp only [List.mem_cons] at hb'
            rcases hb' with hb' | hb'
            · cases hb'
            · exact ih1 b' hb'
          · simp only [List.mem_cons] at hb
            rcases hb with hb | hb
            · cases hb
            · obtain ⟨b', hb'⟩ := ih2 ⟨b, hb⟩
              exact ⟨b', by simp [hb']⟩
      · intro b hb; cases hb
    | raw x y z =>
      rw [rwRegions] at h
      · split at h
        · cases h
        · rename_i rs' hrs
          cases h
          obtain ⟨ih1, ih2⟩ := ih rs' hrs (fun x hx => hok x (by simp [hx]))
          refine ⟨fun b' hb' => ?_, fun ⟨b, hb⟩ => ?_⟩
          · simp only [List.mem_cons] at hb'
            rcases hb' with hb' | hb'
            · cases hb'
            · exact ih1 b' hb'
          · simp only [List.mem_cons] at hb
            rcases hb with hb | hb
            · cases hb
            · obtain ⟨b', hb'⟩ := ih2 ⟨b, hb⟩
              exact ⟨b', by simp [hb']⟩
      · intro b hb; cases hb

/-- **an edit whose editor keeps the invariant where it fires keeps `TreeOk`** -/
theorem rwTree_ok (E : Editor) (hE : EditorOk E) (t t' : Tree) (hok : TreeOk t) (h : rwTree E t = .ok t') : TreeOk t' := by
  have hsz := rwTree_sized E t t' h (treeOk_sized t hok)
  cases t with
  | flash f =>
    rw [rwTree] at h
    split at h
    · cases h
    · rename_i rs hrs
      cases h
      obtain ⟨h1, h2⟩ := rwRegions_ok E hE f.flashSize f.regions rs hrs hok.bios
      exact ⟨hsz.2, hok.desc, hok.hdr, h1, h2 hok.some⟩
  | bios b =>
    rw [rwTree] at h
    split at h
    · cases h
    · rename_i b' hb
      cases h
      obtain ⟨h1, h2, _⟩ := rwBios_ok E hE b b' hok.1 hb
      exact ⟨h1, fun es' hr => hok.2 es' (elemsRel_trans h2 hr)⟩

end Fiano.Uefi
