/-
  C09a — validate reports nothing on the tree of a well-formed, sound image of the reference grammar.
  Part 1: lengths of the serialisation (`ser*` against `size*`), by mutual structural recursion over the
  grammar.  Own namespace, so that nothing here collides with lemmas wp-uefi delivers for C01.
  Core Lean only.
-/
import FianoModel.Uefi.ValidateLemmas

namespace Fiano.Uefi.C09
open Fiano Fiano.Uefi Fiano.Uefi.Spec

@[simp] theorem zeros_length (n : Nat) : (zeros n).length = n := by simp [zeros]
@[simp] theorem ffs_length (n : Nat) : (ffs n).length = n := by simp [ffs]

theorem secHdr_length (t : Nat) (ext : Bool) (total : Nat) : (secHdr t ext total).length = secHdrLen ext := by
  unfold secHdr secHdrLen; cases ext <;> simp

theorem canonSec_length (t : Nat) (body : Bytes) : (canonSec t body).length = canonSecSize body.length := by
  unfold canonSec canonSecSize
  split <;> simp [secHdr_length, secHdrLen] <;> omega

theorem encodeOps_length : ∀ (ops : List DepOp), wfOps ops = true → (encodeOps ops).length = opsSize ops
  | [], h => by simp [wfOps] at h
  | [d], h => by
    simp only [wfOps, Bool.and_eq_true, beq_iff_eq] at h
    obtain ⟨_, hg⟩ := h
    cases hgu : d.guid with
    | none => simp [encodeOps, opsSize, hgu]
    | some g => simp [hgu] at hg
  | d :: d2 :: ds, h => by
    simp only [wfOps, Bool.and_eq_true] at h
    obtain ⟨⟨_, hg⟩, hrest⟩ := h
    have ih := encodeOps_length (d2 :: ds) hrest
    cases hgu : d.guid with
    | none => simp [encodeOps, opsSize, hgu] at ih ⊢; omega
    | some g =>
      simp only [hgu, Bool.and_eq_true, beq_iff_eq] at hg
      simp [encodeOps, opsSize, hgu, hg.2] at ih ⊢; omega

theorem fileHdr_length (g : Guid) (ckh ckf : UInt8) (t a : Nat) (ext : Bool) (total st : Nat) (hg : g.length = 16) :
    (fileHdr g ckh ckf t a ext total st).length = if ext then 32 else 24 := by
  unfold fileHdr; cases ext <;> simp [hg]

theorem encodeBlocks_length : ∀ (bs : List Block), (encodeBlocks bs).length = 8 * bs.length
  | [] => rfl
  | b :: bs => by simp [encodeBlocks, encodeBlocks_length bs]; omega

theorem fvHeader_length (zv g : Bytes) (length attrs ck eho rsv rev : Nat) (blocks : List Block)
    (hz : zv.length = 16) (hg : g.length = 16) :
    (fvHeader zv g length attrs ck eho rsv rev blocks).length = fvHdrLen blocks := by
  unfold fvHeader fvHdrLen fvSigBytes
  simp [hz, hg, encodeBlocks_length]; omega


theorem fvHeaderCk_length (zv g : Bytes) (length attrs eho rsv rev : Nat) (blocks : List Block)
    (hz : zv.length = 16) (hg : g.length = 16) :
    (fvHeaderCk zv g length attrs eho rsv rev blocks).length = fvHdrLen blocks := by
  unfold fvHeaderCk; exact fvHeader_length _ _ _ _ _ _ _ _ _ hz hg

theorem alignUp_ge (n a : Nat) (ha : 0 < a) : n ≤ alignUp n a := by
  unfold alignUp
  have h1 : (n + a - 1) % a < a := Nat.mod_lt _ ha
  have h2 := Nat.div_add_mod (n + a - 1) a
  rw [Nat.mul_comm] at h2
  omega

theorem preBytes_length (blocks : List Block) (ext : Option ExtI)
    (h : ∀ e, ext = some e → e.fvName.length = 16) :
    fvHdrLen blocks + (preBytes blocks ext).length = preLen blocks ext := by
  cases ext with
  | none => simp [preBytes, preLen]
  | some e =>
    have := h e rfl
    have := alignUp_ge (fvHdrLen blocks + e.gap.length + 20 + e.data.length) 8 (by omega)
    simp [preBytes, preLen, *]; omega

mutual
  theorem len_serSec : ∀ (s : SecI), wfSec s = true → (serSec s).length = sizeSec s
    | .leaf t e b, _ => by simp [serSec, sizeSec, secHdr_length]
    | .guided e g d a b, h => by
      simp only [wfSec, Bool.and_eq_true, beq_iff_eq] at h
      simp [serSec, sizeSec, secHdr_length, h.1.1.1.1]; omega
    | .ui name, _ => by simp [serSec, sizeSec, canonSec_length]
    | .version b v, _ => by simp [serSec, sizeSec, canonSec_length]
    | .depex t ops, h => by
      simp only [wfSec, Bool.and_eq_true] at h
      simp [serSec, sizeSec, canonSec_length, encodeOps_length ops h.1.2]
    | .fvimg fv, h => by
      simp only [wfSec, Bool.and_eq_true] at h
      simp [serSec, sizeSec, canonSec_length, len_serFv fv h.1]
  theorem len_serSecs : ∀ (n : Nat) (ss : List SecI), wfSecs ss = true → n + (serSecs n ss).length = sizeSecs n ss
    | n, [], _ => by simp [serSecs, sizeSecs]
    | n, s :: ss, h => by
      simp only [wfSecs, Bool.and_eq_true] at h
      have h1 := len_serSec s h.1
      have h2 := len_serSecs (alignUp n 4 + sizeSec s) ss h.2
      have := alignUp_ge n 4 (by omega)
      simp [serSecs, sizeSecs, h1]; omega
  theorem len_serFile : ∀ (f : FileI), wfFile f = true → (serFile f).length = sizeFile f
    | .leaf g ckh ckf t a st ext body, h => by
      simp only [wfFile, Bool.and_eq_true, beq_iff_eq] at h
      have hg : g.length = 16 := h.1.1.1.1.1.1.1.1
      simp [serFile, sizeFile, fileHdr_length _ _ _ _ _ _ _ _ hg]
    | .sect g t a st secs, h => by
      simp only [wfFile, Bool.and_eq_true, beq_iff_eq] at h
      have hg : g.length = 16 := h.1.1.1.1.1.1.1
      have h2 := len_serSecs 0 secs h.1.2
      simp only [Nat.zero_add] at h2
      simp only [serFile, sizeFile, List.length_append, fileHdr_length _ _ _ _ _ _ _ _ hg, h2]
      split <;> rename_i hd <;> simp at hd <;> simp [hd] <;> omega
  theorem len_serFiles : ∀ (off length : Nat) (fs : List FileI), wfFiles off length fs = true →
      off + (serFiles off fs).length = endFiles off fs
    | off, _, [], _ => by simp [serFiles, endFiles]
    | off, length, f :: fs, h => by
      simp only [wfFiles, Bool.and_eq_true] at h
      have h1 := len_serFile f h.1.1.1.1
      have h2 := len_serFiles (alignUp off 8 + sizeFile f) length fs h.2
      have := alignUp_ge off 8 (by omega)
      simp [serFiles, endFiles, h1]; omega
  theorem len_serFv : ∀ (v : FvI), wfFv v = true → (serFv v).length = sizeFv v
    | .ffs zv v3 attrs rev rsv blocks ext files free, h => by
      simp only [wfFv, Bool.and_eq_true, beq_iff_eq, and_assoc] at h
      obtain ⟨hz, _, _, _, _, _, _, _, hext, _, _, _, hfiles, _⟩ := h
      have hg : (if v3 = true then guidFFS3 else guidFFS2).length = 16 := by split <;> rfl
      have h1 := len_serFiles (preLen blocks ext) _ files hfiles
      have h2 := preBytes_length blocks ext (by
        intro e he; subst he
        simp only [Bool.and_eq_true, beq_iff_eq] at hext
        exact hext.1.1.1)
      simp only [serFv, sizeFv, List.length_append, fvHeaderCk_length _ _ _ _ _ _ _ _ hz hg, ffs_length]
      omega
    | .other zv g attrs rev rsv blocks body, h => by
      simp only [wfFv, Bool.and_eq_true, beq_iff_eq, and_assoc] at h
      obtain ⟨hz, hg, _⟩ := h
      simp [serFv, sizeFv, fvHeaderCk_length _ _ _ _ _ _ _ _ hz hg]
end

end Fiano.Uefi.C09
