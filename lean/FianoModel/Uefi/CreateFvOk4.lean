/-
  C02 (follow-up wp-c02b), create-fv, part 4: command lines that mix `create-fv` with the modelled
  operations.  `Guard2` collects what is asked of the run's state at every `create-fv`
  (`CreateFvPre`); `createFvPreB` is a Boolean test that implies it.  `run2_valid` is the analogue of
  `run_valid` + `run_same_size`, `edits_valid2` the analogue of the central theorem from the bytes.
-/
import FianoModel.Uefi.CreateFvOk3
import FianoModel.Uefi.ParseOk12

namespace Fiano.Uefi
open Fiano
open EditArith

def Op2Ok : Op2 → Prop
  | .base op => OpOk op
  | .createFv _ _ _ => True

/-- what is asked of the state in which `op` is executed -/
def Pre2 (op : Op2) (s : Run) : Prop :=
  match op with
  | .base _ => True
  | .createFv a z n => CreateFvPre s.st.pol a z n s.tree

/-- the conditions along a run: every `create-fv` finds its state as `CreateFvPre` asks -/
def Guard2 (h : Hooks) : List Op2 → Run → Prop
  | [], _ => True
  | op :: ops, s => Pre2 op s ∧ ∀ s', step2 h op s = .ok s' → Guard2 h ops s'

theorem step2_ok (h : Hooks) (hlaw : h.NvLaw) (op : Op2) (s s' : Run) (hs : step2 h op s = .ok s') (hop : Op2Ok op)
    (hpre : Pre2 op s) (hok : TreeOk s.tree) (hL : rootLen s.tree < 2 ^ 31)
    (houts : ∀ b ∈ s.outs, Valid.validImage b = true ∧ b.length = rootLen s.tree) :
    TreeOk s'.tree ∧ rootLen s'.tree = rootLen s.tree ∧
      ∀ b ∈ s'.outs, Valid.validImage b = true ∧ b.length = rootLen s.tree := by
  cases op with
  | base op =>
    rw [step2] at hs
    obtain ⟨h1, h2, h3⟩ := step_ok h hlaw op s s' hs hop hok hL (fun b hb => (houts b hb).1)
    obtain ⟨_, _, g3⟩ := step_sized h op s s' hs (treeOk_sized _ hok) (fun b hb => (houts b hb).2)
    exact ⟨h1, h2, fun b hb => ⟨h3 b hb, g3 b hb⟩⟩
  | createFv a z n =>
    rw [step2] at hs
    split at hs
    · cases hs
    · rename_i t ht
      cases hs
      obtain ⟨h1, h2⟩ := createFvOp_ok s.st.pol a z n s.tree t hok hL ht hpre
      exact ⟨h1, h2, houts⟩

/-- **`edits_valid` with `create-fv`, from a tree**: if the run succeeds and every `create-fv` met its
    conditions, every image written passes the independent reader and has the size of the tree -/
theorem run2_valid (h : Hooks) (hlaw : h.NvLaw) : ∀ (ops : List Op2) (s s' : Run), run2 h ops s = .ok s' →
    (∀ op ∈ ops, Op2Ok op) → Guard2 h ops s → TreeOk s.tree → rootLen s.tree < 2 ^ 31 →
    (∀ b ∈ s.outs, Valid.validImage b = true ∧ b.length = rootLen s.tree) →
    ∀ b ∈ s'.outs, Valid.validImage b = true ∧ b.length = rootLen s.tree
  | [], s, s', hr, _, _, _, _, houts => by
    rw [run2] at hr; cases hr; exact houts
  | op :: ops, s, s', hr, hops, hg, hok, hL, houts => by
    rw [run2] at hr
    split at hr
    · cases hr
    · rename_i s1 hs1
      rw [Guard2] at hg
      obtain ⟨h1, h2, h3⟩ := step2_ok h hlaw op s s1 hs1 (hops op (by simp)) hg.1 hok hL houts
      have := run2_valid h hlaw ops s1 s' hr (fun o ho => hops o (by simp [ho])) (hg.2 s1 hs1) h1 (by rw [h2]; exact hL)
        (by rw [h2]; exact h3)
      rw [h2] at this
      exact this

theorem cliParse2_ok (h : Hooks) : ∀ (specs : List OpSpec2) (st : St) (ops : List Op2) (st' : St),
    cliParse2 h specs st = .ok (ops, st') → (∀ s, .base s ∈ specs → SpecOk h s) → ∀ op ∈ ops, Op2Ok op
  | [], st, ops, st', hc, _ => by
    rw [cliParse2] at hc; cases hc
    intro op hop; cases hop
  | .base s :: ss, st, ops, st', hc, hs => by
    rw [cliParse2] at hc
    split at hc
    · cases hc
    · rename_i op1 st1 h1
      split at hc
      · cases hc
      · rename_i ops1 st2 h2
        cases hc
        intro op hop
        simp only [List.mem_cons] at hop
        rcases hop with rfl | hop
        · exact cliOne_ok h st s _ st1 h1 (hs s (by simp))
        · exact cliParse2_ok h ss st1 ops1 _ h2 (fun x hx => hs x (by simp [hx])) op hop
  | .createFv a z n :: ss, st, ops, st', hc, hs => by
    rw [cliParse2] at hc
    split at hc
    · cases hc
    · rename_i ops1 st2 h2
      cases hc
      intro op hop
      simp only [List.mem_cons] at hop
      rcases hop with rfl | hop
      · trivial
      · exact cliParse2_ok h ss st ops1 _ h2 (fun x hx => hs x (by simp [hx])) op hop

/-- **`edits_valid` with `create-fv`, from the bytes**: `utk image op…` where the commands may also be
    `create-fv` — if the run succeeds (and every `create-fv` met its conditions), every image written
    passes the independent reader and has the size of the input -/
theorem edits_valid2 (h : Hooks) (hb : h.BoundedCodecs) (hlaw : h.NvLaw) (image : Bytes) (specs : List OpSpec2) (r : Run)
    (hu : utk2 h image specs = .ok r)
    (hv : Valid.validImage image = true) (hL : image.length < 65536 * 4096)
    (hspecs : ∀ s, .base s ∈ specs → SpecOk h s)
    (hRA : ∀ ops st t st', cliParse2 h specs {} = .ok (ops, st) →
      parseWith h (defaultFuel image) image st = .ok (t, st') → readAlikeB t = true)
    (hG : ∀ ops st t st', cliParse2 h specs {} = .ok (ops, st) →
      parseWith h (defaultFuel image) image st = .ok (t, st') → Guard2 h ops { tree := t, st := st' }) :
    ∀ b ∈ r.outs, Valid.validImage b = true ∧ b.length = image.length := by
  unfold utk2 at hu
  split at hu
  · cases hu
  · rename_i ops st hcli
    split at hu
    · cases hu
    · rename_i t st' hp
      obtain ⟨hok, hlen⟩ := parse_establishes_TreeOk h hb hlaw _ image st st' t hp hv hL
        (readAlikeB_sound t (hRA ops st t st' hcli hp))
      have hops := cliParse2_ok h specs {} ops st hcli hspecs
      intro b hbm
      have := run2_valid h hlaw ops _ r hu hops (hG ops st t st' hcli hp) hok (by simp only; rw [hlen]; omega)
        (by intro b hb; cases hb) b hbm
      simp only at this
      rw [hlen] at this
      exact this

/-! ### a Boolean test for the conditions of `create-fv` -/

/-- no probe of the padding shows a volume signature -/
def noSigB (p : Bytes) : Bool :=
  (List.range (p.length / 8 + 1)).all fun k => !(decide (8 * k + 44 ≤ p.length) && decide ((p.drop (8 * k + 40)).take 4 = Valid.fvSig))

theorem noSigB_sound (p : Bytes) (h : noSigB p = true) : NoHit p 0 := by
  intro k hk hs
  unfold noSigB at h
  rw [List.all_eq_true] at h
  have := h k (by simp; omega)
  have e : 0 + 8 * k + 40 = 8 * k + 40 := by omega
  rw [e] at hs
  unfold sigAt at hs
  simp only [Bool.not_eq_true', Bool.and_eq_false_iff, decide_eq_false_iff_not] at this
  rcases this with c | c
  · omega
  · exact c hs

def createFvBiosPreB (abs size : Nat) (b : BiosRegion) : Bool :=
  match createFvTarget (biosBase b) abs size b.elems with
  | some (p, o) => (abs - (biosBase b + o)) % 8 == 0 && noSigB p
  | none => true

theorem createFvBiosPreB_sound (abs size : Nat) (b : BiosRegion) (h : createFvBiosPreB abs size b = true) :
    CreateFvBiosPre abs size b := by
  intro p o ht
  unfold createFvBiosPreB at h
  rw [ht] at h
  simp only [Bool.and_eq_true, beq_iff_eq] at h
  exact ⟨h.1, noSigB_sound p h.2⟩

/-- Boolean form of `CreateFvPre` -/
def createFvPreB (pol : UInt8) (abs size : Nat) (name : Guid) : Tree → Bool
  | .bios b => pol == 0xFF && name.length == 16 && createFvBiosPreB abs size b
  | .flash f => pol == 0xFF && name.length == 16 &&
      (match firstBios f.regions with | some b => createFvBiosPreB abs size b | none => true)

theorem createFvPreB_sound (pol : UInt8) (abs size : Nat) (name : Guid) (t : Tree) (h : createFvPreB pol abs size name t = true) :
    CreateFvPre pol abs size name t := by
  cases t with
  | bios b =>
    simp only [createFvPreB, Bool.and_eq_true, beq_iff_eq] at h
    exact ⟨h.1.1, h.1.2, createFvBiosPreB_sound _ _ _ h.2⟩
  | flash f =>
    simp only [createFvPreB, Bool.and_eq_true, beq_iff_eq] at h
    refine ⟨h.1.1, h.1.2, fun b hb => ?_⟩
    have h2 := h.2
    rw [hb] at h2
    exact createFvBiosPreB_sound _ _ _ h2

end Fiano.Uefi
