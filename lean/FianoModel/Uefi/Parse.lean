/-
  UEFI core model — parsing:  uefi.Parse → NewFlashImage | NewBIOSRegion → FindFirmwareVolumeOffset,
  NewFirmwareVolume → NewFile → NewSection (→ NewFirmwareVolume …), parseDepEx,
  ParseFlashDescriptor, fillRegionGaps.

  Conventions
   * every function that can reach `SetErasePolarity` threads the process-wide state `St`;
   * loops / nesting that are not structurally decreasing in Go take a recursion budget `fuel`
     (one unit per loop iteration or nesting step along a call path); `Err.fuel` is never returned
     when `fuel > |input|` (each unit of budget is paid for by at least one consumed byte) —
     proved for the reference grammar in Props/C01;
   * the model follows the code as repaired by fixes/C04-file-clipped-to-volume.diff: the file walk of
     a volume sees `data[:Length]` only.
  Quirks reproduced on purpose are marked (Q).
-/
import FianoModel.Uefi.Types

namespace Fiano.Uefi
open Fiano

/-- `SetErasePolarity` (SuppressErasePolarityError = false) -/
def setPolarity (ep : UInt8) (st : St) : Except Err St :=
  if ep ≠ 0xFF ∧ ep ≠ 0 then .error .err
  else if st.pol ≠ 0xF0 then
    if st.pol ≠ ep then .error .err else .ok st
  else .ok { st with pol := ep }

/-- the block map: 8-byte entries up to the first `{0,0}`; EOF before that is an error -/
def readBlocks : Bytes → Except Err (List Block)
  | b0 :: b1 :: b2 :: b3 :: b4 :: b5 :: b6 :: b7 :: rest =>
    let c := fromLE [b0, b1, b2, b3]
    let s := fromLE [b4, b5, b6, b7]
    if c = 0 ∧ s = 0 then .ok []
    else match readBlocks rest with
      | .ok bs => .ok (⟨c, s⟩ :: bs)
      | .error e => .error e
  | _ => .error .err

/-- does `b` start with `_FVH`? -/
def isFvSig : Bytes → Bool
  | 0x5F :: 0x46 :: 0x56 :: 0x48 :: _ => true
  | _ => false

/-- the probe loop of `FindFirmwareVolumeOffset`: `b` is `data[offset:]`; returns the offset of the
    first probe (`offset, offset+8, …` while `offset+4 < len`) that sees `_FVH`. -/
def scanSig : Nat → Nat → Bytes → Option Nat
  | 0, _, _ => none
  | fuel+1, offset, b =>
    if 4 < b.length then
      if isFvSig b then some offset else scanSig fuel (offset + 8) (b.drop 8)
    else none

/-- `FindFirmwareVolumeOffset` : `none` when Go returns a negative number — (Q) that includes `-8`
    for a signature seen by the very first probe at offset 32. -/
def findFvOffset (data : Bytes) : Option Nat :=
  if data.length < 32 then none
  else match scanSig (data.length / 8 + 1) 32 (data.drop 32) with
    | some o => if o < 40 then none else some (o - 40)
    | none => none

def mkSection (i : SecInfo) (buf : Bytes) (encap : List Node) : Section := .mk i buf encap

/-- the fixed volume header and the extended header as `NewFirmwareVolume` decodes them
    (`FreeSpace` is filled in by the file walk) -/
def fvInfoOf (data : Bytes) (blocks : List Block) (fvOffset : Nat) (resizable : Bool) : FvInfo :=
  let length := rd data 32 8
  let headerLen := rd data 48 2
  let eho := rd data 52 2
  let hasExt : Bool := eho ≠ 0 ∧ length ≥ 20 ∧ eho ≤ length - 20
  let ehs := if hasExt then rd data (eho + 16) 4 else 0
  { fsGuid := slice data 16 16, length := length, signature := rd data 40 4, attrs := rd data 44 4,
    headerLen := headerLen, checksum := rd data 50 2, extHeaderOffset := eho,
    reserved := rd data 54 1, revision := rd data 55 1, blocks := blocks,
    fvName := if hasExt then slice data eho 16 else guidZero, extHeaderSize := ehs,
    dataOffset := align8 (if hasExt then eho + ehs else headerLen),
    fvOffset := fvOffset, resizable := resizable, freeSpace := 0 }

/-- the common section header as `NewSection` reads it: `(Size, Type, ExtendedSize, header length)`,
    including the final "size larger than the buffer" check -/
def secHeader (buf : Bytes) : Except Err (Nat × Nat × Nat × Nat) :=
  if buf.length < 4 then .error .err else
  let size3 := rd buf 0 3
  let type := rd buf 3 1
  let szr : Except Err (Nat × Nat) :=
    if knownSection type then
      if size3 = 0xFFFFFF then
        if buf.length < 8 then .error .err
        else if rd buf 4 4 = 0xFFFFFFFF then .error .err
        else .ok (rd buf 4 4, 8)
      else .ok (size3, 4)
    else .ok (min size3 buf.length, 4)       -- (Q) unknown types are clamped to the buffer
  match szr with
  | .error e => .error e
  | .ok (ext, hs) => if ext > buf.length then .error .err else .ok (size3, type, ext, hs)

/-- the file header as `NewFile` reads it; `none` = free space (erased header) -/
def fileHeader (buf : Bytes) : Except Err (Option FileInfo) :=
  if buf.length < 24 then .error .err else
  let size3 := rd buf 20 3
  let i0 : FileInfo := { guid := slice buf 0 16, ckHeader := rd buf 16 1, ckFile := rd buf 17 1,
                         type := rd buf 18 1, attrs := rd buf 19 1, size3 := size3, state := rd buf 23 1,
                         extSize := size3, dataOffset := 24 }
  -- (Q) the extended header is selected by Size = FFFFFF alone, the large attribute is ignored
  let hr : Except Err (Option FileInfo) :=
    if size3 = 0xFFFFFF then
      -- repaired (fixes/C02-erased-tail-24): an erased 24-byte header with fewer than 8 bytes behind it
      -- is the free space at the very end of the volume, not a truncated extended header
      if buf.length < 32 then (if (buf.take 24).all (· == 0xFF) then .ok none else .error .err)
      else if rd buf 24 8 = 0xFFFFFFFFFFFFFFFF then .ok none
      else .ok (some { i0 with extSize := rd buf 24 8, dataOffset := 32 })
    else .ok (some i0)
  match hr with
  | .error e => .error e
  | .ok none => .ok none
  | .ok (some i) => if i.extSize > buf.length then .error .err else .ok (some i)

mutual

/-- `NewSection(buf, fileOrder)` -/
def parseSection (h : Hooks) : Nat → Bytes → Nat → St → Except Err (Section × St)
  | 0, _, _, _ => .error .fuel
  | fuel+1, buf, order, st =>
    match secHeader buf with
    | .error e => .error e
    | .ok (size3, type, ext, hs) =>
    let sbuf := buf.take ext
    let i : SecInfo := { size3 := size3, type := type, extSize := ext, fileOrder := order }
    if type = 0x02 then
      -- (Q) the 20-byte sub-header is read from `buf`, not from the clipped section buffer
      if buf.length < hs + 20 then .error .err else
      let g := slice buf hs 16
      let dataOffset := rd buf (hs + 16) 2
      let attrs := rd buf (hs + 18) 2
      if attrs &&& 1 ≠ 0 ∧ ¬ h.disableDecompression then
        match h.codec g with
        | some c =>
          -- (Q) decodes `buf[DataOffset:]` (to the end of the file, not of the section)
          if dataOffset > buf.length then .error .err else  -- repaired (fix 6750af4)
          match c.decode (buf.drop dataOffset) with
          | some enc =>
            match parseEncap h fuel enc 0 0 st with
            | .error e => .error e
            | .ok (ns, st') =>
              .ok (mkSection { i with ts := some ⟨g, dataOffset, attrs, c.name⟩ } sbuf ns, st')
          | none => .ok (mkSection { i with ts := some ⟨g, dataOffset, attrs, "UNKNOWN"⟩ } sbuf [], st)
        | none => .ok (mkSection { i with ts := some ⟨g, dataOffset, attrs, "UNKNOWN"⟩ } sbuf [], st)
      else .ok (mkSection { i with ts := some ⟨g, dataOffset, attrs, ""⟩ } sbuf [], st)
    else if type = 0x15 then
      if sbuf.length ≤ hs then .error .err
      else .ok (mkSection { i with name := ucs2ToUtf8 (sbuf.drop hs) } sbuf [], st)
    else if type = 0x14 then
      if sbuf.length ≤ hs + 2 then .error .err
      else .ok (mkSection { i with build := rd sbuf hs 2, version := ucs2ToUtf8 (sbuf.drop (hs + 2)) } sbuf [], st)
    else if type = 0x17 then
      if sbuf.length ≤ hs then .error .err else
      match parseFv h fuel (sbuf.drop hs) 0 true st with
      | .error e => .error e
      | .ok (fv, st') => .ok (mkSection i sbuf [.fv fv], st')
    else if isDepexType type then
      if sbuf.length ≤ hs then .error .err else
      match parseDepEx (sbuf.drop hs) with
      | some ops => .ok (mkSection { i with depex := ops } sbuf [], st)
      | none => .ok (mkSection i sbuf [], st)      -- (Q) a bad depex only warns
    else .ok (mkSection i sbuf [], st)

/-- the loop over the decoded payload of a GUID-defined section -/
def parseEncap (h : Hooks) : Nat → Bytes → Nat → Nat → St → Except Err (List Node × St)
  | 0, _, _, _, _ => .error .fuel
  | fuel+1, enc, offset, idx, st =>
    if offset < enc.length then
      match parseSection h fuel (enc.drop offset) idx st with
      | .error e => .error e
      | .ok (s, st') =>
                if s.info.extSize = 0 then .error .err else  -- repaired (fix 9e390db)
        match parseEncap h fuel enc (align4 (offset + s.info.extSize)) (idx + 1) st' with
        | .error e => .error e
        | .ok (ns, st'') => .ok (.sec s :: ns, st'')
    else .ok ([], st)

/-- the section loop of `NewFile` -/
def parseSections (h : Hooks) : Nat → Bytes → Nat → Nat → Nat → St → Except Err (List Section × St)
  | 0, _, _, _, _, _ => .error .fuel
  | fuel+1, fbuf, offset, ext, idx, st =>
    if offset < ext then
      match parseSection h fuel (fbuf.drop offset) idx st with
      | .error e => .error e
      | .ok (s, st') =>
        if s.info.extSize = 0 then .error .err else
        match parseSections h fuel fbuf (align4 (offset + s.info.extSize)) ext (idx + 1) st' with
        | .error e => .error e
        | .ok (ss, st'') => .ok (s :: ss, st'')
    else .ok ([], st)

/-- `NewFile(buf)`; `none` = free space reached -/
def parseFile (h : Hooks) : Nat → Bytes → St → Except Err (Option File × St)
  | 0, _, _ => .error .fuel
  | fuel+1, buf, st =>
    match fileHeader buf with
    | .error e => .error e
    | .ok none => .ok (none, st)
    | .ok (some i) =>
    let fbuf := buf.take i.extSize
    let nv : Except Err (Option NvStore) :=
      if i.type = 1 ∧ i.guid = guidNVAR then
        if i.dataOffset ≥ fbuf.length then .error .err else .ok (h.nvarParse (fbuf.drop i.dataOffset))
      else .ok none
    match nv with
    | .error e => .error e
    | .ok nvs =>
    let i := { i with nvar := nvs }
    if ¬ supportedFile i.type then .ok (some (.mk i fbuf []), st) else
    match parseSections h fuel fbuf i.dataOffset i.extSize 0 st with
    | .error e => .error e
    | .ok (ss, st') => .ok (some (.mk i fbuf ss), st')

/-- the file loop of `NewFirmwareVolume`; `data` is already clipped to the volume
    (fixes/C04-file-clipped-to-volume.diff); returns the files and `FreeSpace` -/
def parseFiles (h : Hooks) : Nat → Bytes → Nat → Nat → Nat → St → Except Err (List File × Nat × St)
  | 0, _, _, _, _, _ => .error .fuel
  | fuel+1, data, offset, lh, length, st =>
    if offset ≤ lh then
      let offset := align8 offset
      if data.length ≤ offset then .error .err else
      match parseFile h fuel (data.drop offset) st with
      | .error e => .error e
      | .ok (none, st') => .ok ([], length - offset, st')
      | .ok (some f, st') =>
        if f.info.extSize = 0 then .error .err else
        match parseFiles h fuel data (offset + f.info.extSize) lh length st' with
        | .error e => .error e
        | .ok (fs, free, st'') => .ok (f :: fs, free, st'')
    else .ok ([], 0, st)

/-- `NewFirmwareVolume(data, fvOffset, resizable)` -/
def parseFv (h : Hooks) : Nat → Bytes → Nat → Bool → St → Except Err (Fv × St)
  | 0, _, _, _, _ => .error .fuel
  | fuel+1, data, fvOffset, resizable, st =>
    if data.length < 64 then .error .err else
    match readBlocks (data.drop 56) with
    | .error e => .error e
    | .ok blocks =>
    let i := fvInfoOf data blocks fvOffset resizable
    -- repaired (fix 53530a3): a block-map entry (terminator included) ending past `Length` is an error
    if 56 + 8 * (blocks.length + 1) > i.length then .error .err else
    match setPolarity (polOfAttrs i.attrs) st with
    | .error e => .error e
    | .ok st =>
    if i.length > data.length then .error .err else
    let fbuf := data.take i.length
    if i.fsGuid ≠ guidFFS2 ∧ i.fsGuid ≠ guidFFS3 then .ok (.mk i fbuf [], st) else
    -- (Q) `lh := fv.Length - FileHeaderMinLength` wraps for Length < 24
    let lh := (i.length + 18446744073709551616 - 24) % 18446744073709551616
    match parseFiles h fuel fbuf i.dataOffset lh i.length st with
    | .error e => .error e
    | .ok (fs, free, st') => .ok (.mk { i with freeSpace := free } fbuf fs, st')

end

/-- the loop of `NewBIOSRegion` -/
def parseBiosElems (h : Hooks) : Nat → Bytes → Nat → St → Except Err (List BiosElem × St)
  | 0, _, _, _ => .error .fuel
  | fuel+1, buf, absOffset, st =>
    match findFvOffset buf with
    | none => .ok (if buf.length ≠ 0 then [.pad buf absOffset] else [], st)
    | some off =>
      let pre : List BiosElem := if off > 0 then [.pad (buf.take off) absOffset] else []
      let absOffset := absOffset + off
      match parseFv h fuel (buf.drop off) absOffset false st with
      | .error e => .error e
      | .ok (fv, st') =>
        if fv.info.length = 0 then .error .err else
        match parseBiosElems h fuel (buf.drop (off + fv.info.length)) (absOffset + fv.info.length) st' with
        | .error e => .error e
        | .ok (es, st'') => .ok (pre ++ .fv fv :: es, st'')

/-- `NewBIOSRegion(buf, r, _)` -/
def parseBios (h : Hooks) (fuel : Nat) (buf : Bytes) (fr : Option FlashRegion) (st : St) :
    Except Err (BiosRegion × St) :=
  match parseBiosElems h fuel buf 0 st with
  | .error e => .error e
  | .ok (es, st') => .ok ({ elems := es, buf := buf, length := buf.length, fr := fr }, st')

/-! ### flash descriptor -/

def flashSignature : Bytes := [0x5a, 0xa5, 0xf0, 0x0f]

/-- `FindSignature` : offset just after the signature, `none` = error -/
def findSignature (buf : Bytes) : Option Nat :=
  if buf.length < 20 then none
  else if slice buf 16 4 = flashSignature then some 20
  else if slice buf 0 4 = flashSignature then some 4
  else none

def decodeRegions : Nat → Bytes → List FlashRegion
  | 0, _ => []
  | n+1, b => ⟨rd b 0 2, rd b 2 2⟩ :: decodeRegions n (b.drop 4)

def decodePerms : Nat → Bytes → List (Nat × Nat × Nat)
  | 0, _ => []
  | n+1, b => (rd b 0 2, rd b 2 1, rd b 3 1) :: decodePerms n (b.drop 4)

/-- `ParseFlashDescriptor` on the 4 KiB descriptor buffer -/
def parseDescriptor (buf : Bytes) : Except Err Descriptor :=
  if buf.length ≠ 4096 then .error .err else
  match findSignature buf with
  | none => .error .err
  | some ms =>
    let map : DescMap := ⟨(slice buf ms 16).map (·.toNat)⟩
    let rs := map.regionBase * 16
    -- (Q) strict: a region section ending exactly at the end of the descriptor is refused
    if rs ≥ 4096 ∨ rs + 64 ≥ 4096 then .error .err else
    let rsec : RegionSection := ⟨rd buf (rs + 2) 2, decodeRegions 15 (buf.drop (rs + 4))⟩
    let mas := map.masterBase * 16
    let master : MasterSection := ⟨decodePerms 3 (buf.drop mas)⟩
    .ok { buf := buf, mapStart := ms, regionStart := rs, masterStart := mas, map := map,
          region := rsec, master := master }

/-- insertion of a region into a list sorted by `Base` (stable) -/
def insertRegion (r : Region) : List Region → List Region
  | [] => [r]
  | x :: xs =>
    if (r.fr.map (·.base)).getD 0 < (x.fr.map (·.base)).getD 0 then r :: x :: xs
    else x :: insertRegion r xs

/-- `sort.Slice(regions, Base <)`; regions with equal bases always fail the tiling check that
    follows, so the order sort.Slice picks among them cannot be observed -/
def sortRegions (rs : List Region) : List Region := rs.foldr insertRegion []

/-- `fillRegionGaps` over the sorted regions -/
def fillGaps (fbuf : Bytes) (flashSize : Nat) : List Region → Nat → Except Err (List Region)
  | [], offset =>
    if offset ≠ flashSize then
      .ok [.raw (slice fbuf offset (flashSize - offset))
            ⟨(offset / 4096) % 65536, (flashSize / 4096 % 65536 + 65535) % 65536⟩ (-1)]
    else .ok []
  | r :: rs, offset =>
    match r.fr with
    | none => .error .panic
    | some fr =>
      let nextBase := fr.baseOffset
      if nextBase < offset then .error .err else
      match fillGaps fbuf flashSize rs fr.endOffset with
      | .error e => .error e
      | .ok out =>
        if nextBase > offset then
          .ok (.raw (slice fbuf offset (nextBase - offset))
                 ⟨(offset / 4096) % 65536, (nextBase / 4096 % 65536 + 65535) % 65536⟩ (-1) :: r :: out)
        else .ok (r :: out)

/-- the loop over the 15 region-table entries in `NewFlashImage` -/
def parseRegions (h : Hooks) (fuel : Nat) (buf : Bytes) (nr : Nat) :
    List FlashRegion → Nat → St → Except Err (List Region × St)
  | [], _, st => .ok ([], st)
  | fr :: frs, i, st =>
    if nr ≠ 0 ∧ i ≥ nr then .ok ([], st)
    else if ¬ fr.valid ∨ fr.baseOffset ≥ buf.length ∨ fr.endOffset > buf.length then
      parseRegions h fuel buf nr frs (i + 1) st
    else
      let rbuf := slice buf fr.baseOffset (fr.endOffset - fr.baseOffset)
      let one : Except Err (Region × St) :=
        if i = 0 then
          match parseBios h fuel rbuf (some fr) st with
          | .error e => .error e
          | .ok (b, st') => .ok (.bios b, st')
        else if i = 1 then .ok (.me rbuf fr, st)
        else .ok (.raw rbuf fr i, st)
      match one with
      | .error e => .error e
      | .ok (r, st') =>
        match parseRegions h fuel buf nr frs (i + 1) st' with
        | .error e => .error e
        | .ok (rs, st'') => .ok (r :: rs, st'')

/-- `NewFlashImage(buf)` -/
def parseFlash (h : Hooks) (fuel : Nat) (buf : Bytes) (st : St) : Except Err (Flash × St) :=
  if buf.length < 4096 then .error .err else
  match parseDescriptor (buf.take 4096) with
  | .error e => .error e
  | .ok ifd =>
    match ifd.region.regions with
    | [] => .error .panic
    | bios :: _ =>
      if ¬ bios.valid then .error .err else
      match parseRegions h fuel buf ifd.map.numberOfRegions ifd.region.regions 0 st with
      | .error e => .error e
      | .ok (rs, st') =>
        match fillGaps buf buf.length (sortRegions rs) 4096 with
        | .error e => .error e
        | .ok rs' => .ok ({ buf := buf, ifd := ifd, regions := rs', flashSize := buf.length }, st')

/-- `uefi.Parse(buf)` from a given process state -/
def parseWith (h : Hooks) (fuel : Nat) (buf : Bytes) (st : St) : Except Err (Tree × St) :=
  match findSignature buf with
  | some _ =>
    match parseFlash h fuel buf st with
    | .error e => .error e
    | .ok (f, st') => .ok (.flash f, st')
  | none =>
    match parseBios h fuel buf none st with
    | .error e => .error e
    | .ok (b, st') => .ok (.bios b, st')

/-- a budget that always suffices when nothing is decompressed -/
def defaultFuel (buf : Bytes) : Nat := buf.length + 8

/-- `uefi.Parse(buf)` in a fresh process (polarity not yet set) -/
def parse (h : Hooks) (buf : Bytes) : Except Err Tree :=
  match parseWith h (defaultFuel buf) buf {} with
  | .error e => .error e
  | .ok (t, _) => .ok t

end Fiano.Uefi
