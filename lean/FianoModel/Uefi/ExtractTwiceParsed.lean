/-
  Property C07, follow-up wp-c07c — the side condition `savedOkAll` split (lemmas).

    * `fx*_split`      `fxTreeAll t1 = fxrTreeAll t1 && d60Tree t1`;
    * `d60_asm*`       one `Assemble` pass changes neither the `DataOffset` of a volume nor which volumes have files
                       (any hooks, NVAR files included): `d60Tree t1 = d60Tree t` for the tree `t1` it writes;
    * `savedOkAll_iff` `savedOkAll h t st ↔ restOkAll h t st ∧ (the first pass succeeds → d60Tree t)`:
                       the `DataOffset ≥ 60` part of the side condition is a predicate on the parsed image.
-/
import FianoModel.Uefi.ExtractTwiceParsedDefs
import FianoModel.Uefi.ExtractTwiceFv
import FianoModel.Uefi.ExtractAsm

namespace Fiano.Uefi
open Fiano

/-! ### the split -/

mutual
theorem fxSection_split : ∀ s : Section, fxSection s = (fxrSection s && d60Section s)
  | .mk i b e => by simp only [fxSection, fxrSection, d60Section, fxNodes_split e]
theorem fxNodes_split : ∀ n : List Node, fxNodes n = (fxrNodes n && d60Nodes n)
  | [] => rfl
  | .sec s :: t => by
    simp only [fxNodes, fxrNodes, d60Nodes, fxSection_split s, fxNodes_split t]
    cases fxrSection s <;> cases d60Section s <;> cases fxrNodes t <;> cases d60Nodes t <;> rfl
  | .fv v :: t => by
    simp only [fxNodes, fxrNodes, d60Nodes, fxFv_split v, fxNodes_split t]
    cases fxrFv v <;> cases d60Fv v <;> cases fxrNodes t <;> cases d60Nodes t <;> rfl
theorem fxSections_split : ∀ n : List Section, fxSections n = (fxrSections n && d60Sections n)
  | [] => rfl
  | s :: t => by
    simp only [fxSections, fxrSections, d60Sections, fxSection_split s, fxSections_split t]
    cases fxrSection s <;> cases d60Section s <;> cases fxrSections t <;> cases d60Sections t <;> rfl
theorem fxFile_split : ∀ f : File, fxFile f = (fxrFile f && d60File f)
  | .mk i b s => by simp only [fxFile, fxrFile, d60File, fxSections_split s]
theorem fxFiles_split : ∀ n : List File, fxFiles n = (fxrFiles n && d60Files n)
  | [] => rfl
  | f :: t => by
    simp only [fxFiles, fxrFiles, d60Files, fxFile_split f, fxFiles_split t]
    cases fxrFile f <;> cases d60File f <;> cases fxrFiles t <;> cases d60Files t <;> rfl
theorem fxFv_split : ∀ v : Fv, fxFv v = (fxrFv v && d60Fv v)
  | .mk i b fs => by
    simp only [fxFv, fxrFv, d60Fv, fxFiles_split fs]
    cases fxrFiles fs <;> cases d60Files fs <;> cases fs.isEmpty <;> cases decide (b.length ≤ i.length) <;>
      cases decide (60 ≤ i.dataOffset) <;> cases (fs.all fun f => decide (f.info.attrs < 256)) <;>
      cases decide (twLayEnd (fs.map fun f => (f.info.attrs, f.buf)) i.dataOffset < 2 ^ 62) <;> rfl
end

theorem fxBiosElems_split : ∀ es : List BiosElem, fxBiosElems es = (fxrBiosElems es && d60BiosElems es)
  | [] => rfl
  | .pad _ _ :: t => by simp only [fxBiosElems, fxrBiosElems, d60BiosElems, fxBiosElems_split t]
  | .fv v :: t => by
    simp only [fxBiosElems, fxrBiosElems, d60BiosElems, fxFv_split v, fxBiosElems_split t]
    cases fxrFv v <;> cases d60Fv v <;> cases fxrBiosElems t <;> cases d60BiosElems t <;> rfl

theorem fxRegions_split : ∀ rs : List Region, fxRegions rs = (fxrRegions rs && d60Regions rs)
  | [] => rfl
  | .bios b :: t => by
    simp only [fxRegions, fxrRegions, d60Regions, fxBiosElems_split b.elems, fxRegions_split t]
    cases fxrBiosElems b.elems <;> cases d60BiosElems b.elems <;> cases fxrRegions t <;> cases d60Regions t <;> rfl
  | .me _ _ :: t => by simp only [fxRegions, fxrRegions, d60Regions, fxRegions_split t]
  | .raw _ _ _ :: t => by simp only [fxRegions, fxrRegions, d60Regions, fxRegions_split t]

theorem fxTreeAll_split (t : Tree) : fxTreeAll t = (fxrTreeAll t && d60Tree t) := by
  cases t with
  | flash f =>
    simp only [fxTreeAll, fxFlash, fxrTreeAll, d60Tree, fxRegions_split f.regions]
    cases fxrRegions f.regions <;> cases d60Regions f.regions <;> cases f.regions.all frOk <;> rfl
  | bios b => simp only [fxTreeAll, fxrTreeAll, d60Tree, fxBiosElems_split b.elems]

/-! ### `Assemble` keeps `DataOffset` and the shape -/

theorem asmSectionTail_children (h : Hooks) (i : SecInfo) (buf : Bytes) (e1 : List Node) (st : St) (s1 : Section) (st1 : St)
    (ha : asmSectionTail h i buf e1 st = .ok (s1, st1)) : ∃ i' b', s1 = .mk i' b' e1 := by
  unfold asmSectionTail at ha
  cases e1 with
  | nil =>
    simp only at ha
    repeat' split at ha
    all_goals first
      | (cases ha; done)
      | (simp only [Except.ok.injEq, Prod.mk.injEq] at ha; exact ⟨_, _, ha.1.symm⟩)
  | cons a t =>
    simp only at ha
    repeat' split at ha
    all_goals first
      | (cases ha; done)
      | (simp only [Except.ok.injEq, Prod.mk.injEq] at ha; exact ⟨_, _, ha.1.symm⟩)

theorem asmFileTail_children (i : FileInfo) (buf : Bytes) (ss : List Section) (st : St) :
    ∃ i' b', (asmFileTail i buf ss st).1 = .mk i' b' ss := by
  cases ss with
  | nil => exact ⟨_, _, rfl⟩
  | cons a t =>
    simp only [asmFileTail]
    generalize setSize i.attrs (24 + (joinPad4 (List.map Section.buf (a :: t)) []).length) true = ss
    obtain ⟨A, S, E⟩ := ss
    simp only []
    generalize checksumAndAssemble _ _ = ca
    obtain ⟨i2, b2⟩ := ca
    exact ⟨_, _, rfl⟩

mutual
theorem d60_asmSection (h : Hooks) : ∀ (s : Section) (st : St) (s1 : Section) (st1 : St),
    asmSection h s st = .ok (s1, st1) → d60Section s1 = d60Section s
  | .mk i buf e, st, s1, st1, ha => by
    rw [asmSection_eq] at ha
    cases hn : asmNodes h e st with
    | error x => rw [hn] at ha; cases ha
    | ok p =>
      obtain ⟨e1, sta⟩ := p
      rw [hn] at ha
      simp only [] at ha
      obtain ⟨i', b', rfl⟩ := asmSectionTail_children h i buf e1 sta s1 st1 ha
      simp only [d60Section]
      exact d60_asmNodes h e st e1 sta hn
theorem d60_asmNodes (h : Hooks) : ∀ (ns : List Node) (st : St) (ns1 : List Node) (st1 : St),
    asmNodes h ns st = .ok (ns1, st1) → d60Nodes ns1 = d60Nodes ns
  | [], st, ns1, st1, ha => by
    simp only [asmNodes, Except.ok.injEq, Prod.mk.injEq] at ha
    rw [← ha.1]
  | .sec s :: t, st, ns1, st1, ha => by
    rw [asmNodes] at ha
    cases h1 : asmSection h s st with
    | error x => rw [h1] at ha; cases ha
    | ok p =>
      obtain ⟨s', sta⟩ := p
      rw [h1] at ha
      simp only [] at ha
      cases h2 : asmNodes h t sta with
      | error x => rw [h2] at ha; cases ha
      | ok q =>
        obtain ⟨t', stb⟩ := q
        rw [h2] at ha
        simp only [Except.ok.injEq, Prod.mk.injEq] at ha
        rw [← ha.1]
        simp only [d60Nodes, d60_asmSection h s st s' sta h1, d60_asmNodes h t sta t' stb h2]
  | .fv v :: t, st, ns1, st1, ha => by
    rw [asmNodes] at ha
    cases h1 : asmFv h v st with
    | error x => rw [h1] at ha; cases ha
    | ok p =>
      obtain ⟨v', sta⟩ := p
      rw [h1] at ha
      simp only [] at ha
      cases h2 : asmNodes h t sta with
      | error x => rw [h2] at ha; cases ha
      | ok q =>
        obtain ⟨t', stb⟩ := q
        rw [h2] at ha
        simp only [Except.ok.injEq, Prod.mk.injEq] at ha
        rw [← ha.1]
        simp only [d60Nodes, d60_asmFv h v st v' sta h1, d60_asmNodes h t sta t' stb h2]
theorem d60_asmSections (h : Hooks) : ∀ (ss : List Section) (st : St) (ss1 : List Section) (st1 : St),
    asmSections h ss st = .ok (ss1, st1) → d60Sections ss1 = d60Sections ss
  | [], st, ss1, st1, ha => by
    simp only [asmSections, Except.ok.injEq, Prod.mk.injEq] at ha
    rw [← ha.1]
  | s :: t, st, ss1, st1, ha => by
    rw [asmSections] at ha
    cases h1 : asmSection h s st with
    | error x => rw [h1] at ha; cases ha
    | ok p =>
      obtain ⟨s', sta⟩ := p
      rw [h1] at ha
      simp only [] at ha
      cases h2 : asmSections h t sta with
      | error x => rw [h2] at ha; cases ha
      | ok q =>
        obtain ⟨t', stb⟩ := q
        rw [h2] at ha
        simp only [Except.ok.injEq, Prod.mk.injEq] at ha
        rw [← ha.1]
        simp only [d60Sections, d60_asmSection h s st s' sta h1, d60_asmSections h t sta t' stb h2]
theorem d60_asmFile (h : Hooks) : ∀ (f : File) (st : St) (f1 : File) (st1 : St),
    asmFile h f st = .ok (f1, st1) → d60File f1 = d60File f
  | .mk i buf secs, st, f1, st1, ha => by
    cases hnv : i.nvar with
    | some nv =>
      rw [asmFile] at ha
      simp only [hnv] at ha
      cases hh : h.nvarAsm nv st.pol with
      | error x => rw [hh] at ha; cases ha
      | ok nv' =>
        rw [hh] at ha
        simp only [] at ha
        generalize setSize i.attrs (24 + nv'.length) true = ss at ha
        obtain ⟨A, S, E⟩ := ss
        simp only [] at ha
        generalize checksumAndAssemble _ _ = ca at ha
        obtain ⟨i2, b2⟩ := ca
        simp only [Except.ok.injEq, Prod.mk.injEq] at ha
        rw [← ha.1]
        simp only [d60File]
    | none =>
      rw [asmFile_eq h i buf secs st hnv] at ha
      cases h1 : asmSections h secs st with
      | error x => rw [h1] at ha; cases ha
      | ok p =>
        obtain ⟨ss1, sta⟩ := p
        rw [h1] at ha
        simp only [Except.ok.injEq] at ha
        obtain ⟨i', b', e⟩ := asmFileTail_children i buf ss1 sta
        have : f1 = .mk i' b' ss1 := by rw [← e, ha]
        subst this
        simp only [d60File]
        exact d60_asmSections h secs st ss1 sta h1
theorem d60_asmFiles (h : Hooks) : ∀ (fs : List File) (st : St) (fs1 : List File) (st1 : St),
    asmFiles h fs st = .ok (fs1, st1) → d60Files fs1 = d60Files fs ∧ fs1.length = fs.length
  | [], st, fs1, st1, ha => by
    simp only [asmFiles, Except.ok.injEq, Prod.mk.injEq] at ha
    rw [← ha.1]; exact ⟨rfl, rfl⟩
  | f :: t, st, fs1, st1, ha => by
    rw [asmFiles] at ha
    cases h1 : asmFile h f st with
    | error x => rw [h1] at ha; cases ha
    | ok p =>
      obtain ⟨f', sta⟩ := p
      rw [h1] at ha
      simp only [] at ha
      cases h2 : asmFiles h t sta with
      | error x => rw [h2] at ha; cases ha
      | ok q =>
        obtain ⟨t', stb⟩ := q
        rw [h2] at ha
        simp only [Except.ok.injEq, Prod.mk.injEq] at ha
        rw [← ha.1]
        have ih := d60_asmFiles h t sta t' stb h2
        simp only [d60Files, d60_asmFile h f st f' sta h1, ih.1, List.length_cons, ih.2, and_self]
theorem d60_asmFv (h : Hooks) : ∀ (v : Fv) (st : St) (v1 : Fv) (st1 : St),
    asmFv h v st = .ok (v1, st1) → d60Fv v1 = d60Fv v
  | .mk i buf files, st, v1, st1, ha => by
    rw [asmFv_eq] at ha
    cases hs : setPolarity (polOfAttrs i.attrs) st with
    | error x => rw [hs] at ha; cases ha
    | ok sp =>
      rw [hs] at ha
      simp only [] at ha
      cases h1 : asmFiles h files sp with
      | error x => rw [h1] at ha; cases ha
      | ok p =>
        obtain ⟨fs1, sta⟩ := p
        rw [h1] at ha
        simp only [] at ha
        obtain ⟨ih, hlen⟩ := d60_asmFiles h files sp fs1 sta h1
        have hemp : fs1.isEmpty = files.isEmpty := by
          cases fs1 <;> cases files <;> simp_all
        cases fs1 with
        | nil =>
          simp only [asmFvTail, Except.ok.injEq, Prod.mk.injEq] at ha
          rw [← ha.1]
          simp only [d60Fv, ih, hemp]
        | cons a t =>
          simp only [asmFvTail] at ha
          cases hr : relayoutFv i buf (a :: t) sta with
          | error x => rw [hr] at ha; cases ha
          | ok q =>
            obtain ⟨i', out, stc⟩ := q
            rw [hr] at ha
            simp only [Except.ok.injEq, Prod.mk.injEq] at ha
            rw [← ha.1]
            obtain ⟨kd, _⟩ := relayoutFv_keep _ _ _ _ _ _ _ hr
            simp only [d60Fv, ih, hemp, kd]
end

/-! ### BIOS region, flash image -/

theorem d60_asmBiosElems (h : Hooks) : ∀ (es : List BiosElem) (st : St) (es1 : List BiosElem) (st1 : St),
    asmBiosElems h es st = .ok (es1, st1) → d60BiosElems es1 = d60BiosElems es
  | [], st, es1, st1, ha => by
    simp only [asmBiosElems, Except.ok.injEq, Prod.mk.injEq] at ha
    rw [← ha.1]
  | .pad b o :: t, st, es1, st1, ha => by
    rw [asmBiosElems] at ha
    cases h2 : asmBiosElems h t st with
    | error x => rw [h2] at ha; cases ha
    | ok q =>
      obtain ⟨t', stb⟩ := q
      rw [h2] at ha
      simp only [Except.ok.injEq, Prod.mk.injEq] at ha
      rw [← ha.1]
      simp only [d60BiosElems, d60_asmBiosElems h t st t' stb h2]
  | .fv v :: t, st, es1, st1, ha => by
    rw [asmBiosElems] at ha
    cases h1 : asmFv h v st with
    | error x => rw [h1] at ha; cases ha
    | ok p =>
      obtain ⟨v', sta⟩ := p
      rw [h1] at ha
      simp only [] at ha
      cases h2 : asmBiosElems h t sta with
      | error x => rw [h2] at ha; cases ha
      | ok q =>
        obtain ⟨t', stb⟩ := q
        rw [h2] at ha
        simp only [Except.ok.injEq, Prod.mk.injEq] at ha
        rw [← ha.1]
        simp only [d60BiosElems, d60_asmFv h v st v' sta h1, d60_asmBiosElems h t sta t' stb h2]

theorem d60_asmBios (h : Hooks) (b : BiosRegion) (st : St) (b1 : BiosRegion) (st1 : St)
    (ha : asmBios h b st = .ok (b1, st1)) : d60BiosElems b1.elems = d60BiosElems b.elems := by
  unfold asmBios at ha
  cases h1 : asmBiosElems h b.elems st with
  | error x => rw [h1] at ha; cases ha
  | ok p =>
    obtain ⟨es, sta⟩ := p
    rw [h1] at ha
    simp only [] at ha
    repeat' split at ha
    all_goals first
      | (cases ha; done)
      | (simp only [Except.ok.injEq, Prod.mk.injEq] at ha
         rw [← ha.1]
         exact d60_asmBiosElems h b.elems st es sta h1)

def d60Region : Region → Bool
  | .bios b => d60BiosElems b.elems
  | _ => true

theorem d60Regions_cons (r : Region) (rs : List Region) : d60Regions (r :: rs) = (d60Region r && d60Regions rs) := by
  cases r <;> simp [d60Regions, d60Region]

theorem d60Regions_insert (r : Region) : ∀ l : List Region, d60Regions (insertRegion r l) = (d60Region r && d60Regions l)
  | [] => by simp [insertRegion, d60Regions_cons, d60Regions]
  | x :: xs => by
    simp only [insertRegion]
    split
    · simp [d60Regions_cons]
    · simp only [d60Regions_cons, d60Regions_insert r xs]
      cases d60Region x <;> cases d60Region r <;> simp

theorem d60Regions_sort : ∀ l : List Region, d60Regions (sortRegions l) = d60Regions l
  | [] => rfl
  | x :: xs => by
    simp only [sortRegions, List.foldr_cons] at *
    rw [d60Regions_insert, d60Regions_cons]
    have := d60Regions_sort xs
    simp only [sortRegions] at this
    rw [this]

theorem d60Region_setFr (f : FlashRegion) (r : Region) : d60Region (r.setFr f) = d60Region r := by
  cases r <;> rfl

theorem d60Region_repoint (tbl : List FlashRegion) (nr : Nat) (r : Region) : d60Region (repoint tbl nr r) = d60Region r := by
  unfold repoint
  simp only []
  repeat' split
  all_goals first
    | rfl
    | exact d60Region_setFr _ _

theorem d60Regions_repoint (tbl : List FlashRegion) (nr : Nat) : ∀ l : List Region,
    d60Regions (l.map (repoint tbl nr)) = d60Regions l
  | [] => rfl
  | x :: xs => by
    simp only [List.map_cons, d60Regions_cons, d60Region_repoint, d60Regions_repoint tbl nr xs]

theorem d60_asmRegions (h : Hooks) : ∀ (rs : List Region) (st : St) (rs1 : List Region) (st1 : St),
    asmRegions h rs st = .ok (rs1, st1) → d60Regions rs1 = d60Regions rs
  | [], st, rs1, st1, ha => by
    simp only [asmRegions, Except.ok.injEq, Prod.mk.injEq] at ha
    rw [← ha.1]
  | .bios b :: t, st, rs1, st1, ha => by
    rw [asmRegions] at ha
    cases h1 : asmBios h b st with
    | error x => rw [h1] at ha; cases ha
    | ok p =>
      obtain ⟨b', sta⟩ := p
      rw [h1] at ha
      simp only [] at ha
      cases h2 : asmRegions h t sta with
      | error x => rw [h2] at ha; cases ha
      | ok q =>
        obtain ⟨t', stb⟩ := q
        rw [h2] at ha
        simp only [Except.ok.injEq, Prod.mk.injEq] at ha
        rw [← ha.1]
        simp only [d60Regions, d60_asmBios h b st b' sta h1, d60_asmRegions h t sta t' stb h2]
  | .me b f :: t, st, rs1, st1, ha => by
    rw [asmRegions] at ha
    · cases h2 : asmRegions h t st with
      | error x => rw [h2] at ha; cases ha
      | ok q =>
        obtain ⟨t', stb⟩ := q
        rw [h2] at ha
        simp only [Except.ok.injEq, Prod.mk.injEq] at ha
        rw [← ha.1]
        simp only [d60Regions, d60_asmRegions h t st t' stb h2]
    · intro _ hc; cases hc
  | .raw b f y :: t, st, rs1, st1, ha => by
    rw [asmRegions] at ha
    · cases h2 : asmRegions h t st with
      | error x => rw [h2] at ha; cases ha
      | ok q =>
        obtain ⟨t', stb⟩ := q
        rw [h2] at ha
        simp only [Except.ok.injEq, Prod.mk.injEq] at ha
        rw [← ha.1]
        simp only [d60Regions, d60_asmRegions h t st t' stb h2]
    · intro _ hc; cases hc

theorem d60_asmFlash (h : Hooks) (f : Flash) (st : St) (f1 : Flash) (st1 : St)
    (ha : asmFlash h f st = .ok (f1, st1)) : d60Regions f1.regions = d60Regions f.regions := by
  unfold asmFlash at ha
  cases h0 : asmDescriptor f.ifd with
  | error x => rw [h0] at ha; cases ha
  | ok ifd =>
    rw [h0] at ha
    simp only [] at ha
    cases h1 : asmRegions h f.regions st with
    | error x => rw [h1] at ha; cases ha
    | ok p =>
      obtain ⟨rs, sta⟩ := p
      rw [h1] at ha
      simp only [] at ha
      repeat' split at ha
      all_goals first
        | (cases ha; done)
        | (simp only [Except.ok.injEq, Prod.mk.injEq] at ha
           rw [← ha.1]
           simp only [d60Regions_sort, d60Regions_repoint]
           exact d60_asmRegions h f.regions st rs sta h1)

/-- **one `Assemble` pass changes neither the `DataOffset` of a volume nor which volumes have files** -/
theorem d60_asmTree (h : Hooks) (t : Tree) (st : St) (t1 : Tree) (st1 : St)
    (ha : asmTreeWith h t st = .ok (t1, st1)) : d60Tree t1 = d60Tree t := by
  cases t with
  | flash f =>
    simp only [asmTreeWith] at ha
    cases h1 : asmFlash h f st with
    | error x => rw [h1] at ha; cases ha
    | ok p =>
      obtain ⟨f', sta⟩ := p
      rw [h1] at ha
      simp only [Except.ok.injEq, Prod.mk.injEq] at ha
      rw [← ha.1]
      simp only [d60Tree]
      exact d60_asmFlash h f st f' sta h1
  | bios b =>
    simp only [asmTreeWith] at ha
    cases h1 : asmBios h b st with
    | error x => rw [h1] at ha; cases ha
    | ok p =>
      obtain ⟨b', sta⟩ := p
      rw [h1] at ha
      simp only [Except.ok.injEq, Prod.mk.injEq] at ha
      rw [← ha.1]
      simp only [d60Tree]
      exact d60_asmBios h b st b' sta h1

/-! ### the side condition, split -/

/-- **`savedOkAll` = its size / attribute / region part on what the first pass wrote, and `DataOffset ≥ 60` on the
    tree as parsed** (the latter only matters when the first pass succeeds) -/
theorem savedOkAll_iff (h : Hooks) (t : Tree) (st : St) :
    savedOkAll h t st = true ↔
      restOkAll h t st = true ∧
        ((asmTreeWith h t { st with ffs3 := false }).toOption.isSome = true → d60Tree t = true) := by
  unfold savedOkAll restOkAll
  cases ha : asmTreeWith h t { st with ffs3 := false } with
  | error e => simp [Except.toOption]
  | ok p =>
    obtain ⟨t1, st1⟩ := p
    simp only [fxTreeAll_split t1, d60_asmTree h t _ t1 st1 ha, Bool.and_eq_true, Except.toOption, Option.isSome_some,
      forall_const]

/-- the form used by the theorems: the two parts give the side condition -/
theorem savedOkAll_of_parts (h : Hooks) (t : Tree) (st : St) (hr : restOkAll h t st = true) (hd : d60Tree t = true) :
    savedOkAll h t st = true :=
  (savedOkAll_iff h t st).mpr ⟨hr, fun _ => hd⟩

end Fiano.Uefi
