/-
  Property C06 — the laws of a compressor that the round-trip theorems use, and which instances
  have them.

  `uefi.NewSection` hands the decoder `buf[DataOffset:]`, which runs to the end of the *file* (or of
  the enclosing decoded payload), not to the end of the section.  Losslessness in the sense of C08
  (`Decode (Encode x) = x`) is therefore not enough: the section must decode *with whatever follows
  it*.  The LZMA decoders stop after the size announced in the 13-byte header (tail ignored); the
  ZLIB framing compares its size field with the length of everything it was handed, so it refuses
  any non-empty tail.  Both behaviours are stated and proved here for the framing fiano adds; for
  the third-party cores they are hypotheses (`TailLawful` / `Lawful`), sampled by T2.
-/
import FianoModel.Uefi.NestedCodec
import FianoModel.Compress.FramingLemmas

namespace Fiano.Compress

/-- lossless even when the encoded stream is followed by other bytes -/
def Codec.TailLawful (c : Codec) : Prop := ∀ x y tail, c.enc x = .ok y → c.dec (y ++ tail) = some x

theorem Codec.TailLawful.lawful {c : Codec} (h : c.TailLawful) : c.Lawful := by
  intro x y he
  have := h x y [] he
  simpa using this

/-- the x86 layer keeps tail tolerance: `LZMAX86.Decode` hands the whole input to the LZMA decoder -/
theorem lzmax86_tailLawful (lz : Codec) (hl : lz.TailLawful) : (lzmax86 lz).TailLawful := by
  intro x y tail h
  have hd : lz.dec (y ++ tail) = some (X86.x86Convert x 0 0 true).data := hl _ y tail h
  show lzmax86Decode lz (y ++ tail) = some x
  unfold lzmax86Decode
  rw [hd]
  simp only [X86.x86Convert_inverse]

end Fiano.Compress

namespace Fiano.Uefi.Nested
open Fiano Fiano.Uefi

/-- the shared model's `Codec` decodes what it encodes, also in front of any `tail` that satisfies
    `ok` (`fun _ => True` for the LZMA family, `(· = [])` for ZLIB) -/
def CodecLaw (c : Codec) (ok : Bytes → Prop) : Prop :=
  ∀ x y tail, c.encode x = some y → ok tail → c.decode (y ++ tail) = some x

theorem resOpt_some {r : Compress.Res Bytes} {y : Bytes} (h : resOpt r = some y) : r = .ok y := by
  cases r <;> simp_all [resOpt]

theorem ofCodec_tail (name : String) (c : Compress.Codec) (h : c.TailLawful) :
    CodecLaw (ofCodec name c) (fun _ => True) := by
  intro x y tail he _
  exact h x y tail (resOpt_some he)

theorem ofCodec_last (name : String) (c : Compress.Codec) (h : c.Lawful) :
    CodecLaw (ofCodec name c) (fun t => t = []) := by
  intro x y tail he ht
  subst ht
  have := h x y (resOpt_some he)
  simpa [ofCodec] using this

/-! ### the concrete instance -/

theorem lzmaHeader_length (n : Nat) : (Compress.lzmaHeader n).length = 13 := by
  simp [Compress.lzmaHeader, leN_length]

theorem sized13_tailLawful : sized13.TailLawful := by
  intro x y tail h
  simp only [sized13] at h
  split at h
  · rename_i hx
    simp only [Compress.Res.ok.injEq] at h
    subst h
    have hlen : (Compress.lzmaHeader x.length ++ x ++ tail).length = 13 + x.length + tail.length := by
      simp [lzmaHeader_length]; omega
    have hs : slice (Compress.lzmaHeader x.length ++ x ++ tail) 5 8 = leN 8 x.length := by
      unfold Compress.lzmaHeader
      have := slice_mid (UInt8.ofNat (Compress.lzmaProps 3 0 2) :: leN 4 (2 ^ Compress.lzmaDictExp)) (leN 8 x.length) (x ++ tail) 5 8
        (by simp [leN_length]) (by simp [leN_length])
      simpa [List.append_assoc] using this
    have hv : fromLE (leN 8 x.length) = x.length := by
      rw [fromLE_leN]
      exact Nat.mod_eq_of_lt (by simpa using hx)
    have hd : ((Compress.lzmaHeader x.length ++ x ++ tail).drop 13).take x.length = x := by
      rw [List.append_assoc, List.drop_append_of_le_length (by simp [lzmaHeader_length]),
        show (13 : Nat) = (Compress.lzmaHeader x.length).length from (lzmaHeader_length _).symm, List.drop_length]
      simp
    simp only [sized13, hlen, hs, hv]
    rw [if_neg (by omega), if_pos (by omega), hd]
  · cases h

/-- the observation of DESIGN §7-C06 as a theorem: whatever the zlib core, `ZLIB.Decode` refuses an
    encoded section that is followed by further bytes (its size check sees them) — such a section
    stays opaque for the tool -/
theorem zlib_refuses_tail (core : Compress.Codec) (z tail : Bytes) (ht : tail ≠ [])
    (hl : z.length + tail.length < 2 ^ 32) :
    Compress.zlibDecode core (Compress.zlibHeader z.length ++ z ++ tail) = none := by
  have hlen : (Compress.zlibHeader z.length ++ z ++ tail).length = 256 + z.length + tail.length := by
    simp [Compress.zlibHeader_length]; omega
  have hsz : slice (Compress.zlibHeader z.length ++ z ++ tail) 20 4 = leN 4 z.length := by
    rw [List.append_assoc]
    exact Compress.zlibHeader_size _ _
  have hpos : 0 < tail.length := List.length_pos_iff.mpr ht
  unfold Compress.zlibDecode
  rw [if_neg (by rw [hlen]; omega)]
  rw [if_pos]
  show fromLE (slice (Compress.zlibHeader z.length ++ z ++ tail) 20 4) ≠
    ((Compress.zlibHeader z.length ++ z ++ tail).length - 256) % 2 ^ 32
  rw [hsz, fromLE_leN, hlen]
  have e : (256 : Nat) ^ 4 = 2 ^ 32 := by decide
  rw [e, Nat.mod_eq_of_lt (by omega), Nat.mod_eq_of_lt (by omega)]
  omega

end Fiano.Uefi.Nested
