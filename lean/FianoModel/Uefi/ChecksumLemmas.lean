/-
  Lemmas on the two checksums of the PI firmware formats as the model defines them
  (`sum8` = uefi.Checksum8, `sum16` = uefi.Checksum16 on even lengths):
  additivity over concatenation, "the complement makes the sum zero", and single-byte sensitivity —
  replacing one summed byte by a different value changes the sum.  Core Lean only.
-/
import FianoModel.Uefi.Types

namespace Fiano.Uefi
open Fiano

/-! ### sum8 -/

theorem foldl_add_eq (b : Bytes) (a : UInt8) : b.foldl (· + ·) a = a + sum8 b := by
  unfold sum8
  induction b generalizing a with
  | nil => simp
  | cons x xs ih =>
    simp only [List.foldl_cons]
    rw [ih (a + x), ih (0 + x)]
    simp [UInt8.add_assoc]

@[simp] theorem v_sum8_nil : sum8 [] = 0 := rfl

theorem v_sum8_cons (x : UInt8) (b : Bytes) : sum8 (x :: b) = x + sum8 b := by
  show (x :: b).foldl (· + ·) 0 = _
  simp only [List.foldl_cons]
  rw [foldl_add_eq]
  simp

theorem v_sum8_append (a b : Bytes) : sum8 (a ++ b) = sum8 a + sum8 b := by
  induction a with
  | nil => simp
  | cons x xs ih => simp [v_sum8_cons, ih, UInt8.add_assoc]

theorem u8_add_left_cancel {a x y : UInt8} (h : a + x = a + y) : x = y := by
  have := congrArg UInt8.toNat h
  simp only [UInt8.toNat_add] at this
  apply UInt8.toNat_inj.mp
  have hx := x.toNat_lt
  have hy := y.toNat_lt
  have ha := a.toNat_lt
  omega

theorem u8_add_right_cancel {a x y : UInt8} (h : x + a = y + a) : x = y := by
  rw [UInt8.add_comm x a, UInt8.add_comm y a] at h
  exact u8_add_left_cancel h

/-- single-byte sensitivity of the 8-bit sum -/
theorem sum8_alter (pre post : Bytes) (x y : UInt8) (h : x ≠ y) :
    sum8 (pre ++ x :: post) ≠ sum8 (pre ++ y :: post) := by
  intro e
  simp only [v_sum8_append, v_sum8_cons] at e
  exact h (u8_add_right_cancel (u8_add_left_cancel e))

/-- the two's complement of the sum makes the total zero -/
theorem sum8_complement (b : Bytes) : sum8 b + (0 - sum8 b) = 0 := by
  apply UInt8.toNat_inj.mp
  simp only [UInt8.toNat_add, UInt8.toNat_sub, UInt8.toNat_zero]
  have := (sum8 b).toNat_lt
  omega

/-! ### sum16 -/

theorem sum16_cons2 (a b : UInt8) (rest : Bytes) :
    sum16 (a :: b :: rest) = (a.toUInt16 + b.toUInt16 * 256) + sum16 rest := by
  simp [sum16]

@[simp] theorem sum16_nil : sum16 [] = 0 := by simp [sum16]

theorem sum16_append_even : ∀ (a b : Bytes), a.length % 2 = 0 → sum16 (a ++ b) = sum16 a + sum16 b
  | [], b, _ => by simp
  | [_], _, h => by simp at h
  | x :: y :: a, b, h => by
    have ih := sum16_append_even a b (by simp only [List.length_cons] at h; omega)
    simp only [List.cons_append, sum16_cons2, ih, UInt16.add_assoc]

theorem u16_add_left_cancel {a x y : UInt16} (h : a + x = a + y) : x = y := by
  have := congrArg UInt16.toNat h
  simp only [UInt16.toNat_add] at this
  apply UInt16.toNat_inj.mp
  have hx := x.toNat_lt
  have hy := y.toNat_lt
  have ha := a.toNat_lt
  omega

theorem u16_add_right_cancel {a x y : UInt16} (h : x + a = y + a) : x = y := by
  rw [UInt16.add_comm x a, UInt16.add_comm y a] at h
  exact u16_add_left_cancel h

theorem word_lo_ne (x y z : UInt8) (h : x ≠ y) :
    x.toUInt16 + z.toUInt16 * 256 ≠ y.toUInt16 + z.toUInt16 * 256 := by
  intro e
  have := congrArg UInt16.toNat e
  simp only [UInt16.toNat_add, UInt16.toNat_mul, UInt8.toNat_toUInt16] at this
  apply h
  apply UInt8.toNat_inj.mp
  have hx := x.toNat_lt
  have hy := y.toNat_lt
  have hz := z.toNat_lt
  have : (256 : UInt16).toNat = 256 := rfl
  simp only [this] at *
  omega

theorem word_hi_ne (x y w : UInt8) (h : x ≠ y) :
    w.toUInt16 + x.toUInt16 * 256 ≠ w.toUInt16 + y.toUInt16 * 256 := by
  intro e
  have := congrArg UInt16.toNat e
  simp only [UInt16.toNat_add, UInt16.toNat_mul, UInt8.toNat_toUInt16] at this
  apply h
  apply UInt8.toNat_inj.mp
  have hx := x.toNat_lt
  have hy := y.toNat_lt
  have hw := w.toNat_lt
  have : (256 : UInt16).toNat = 256 := rfl
  simp only [this] at *
  omega

/-- split a list of odd length at its last element -/
theorem odd_snoc : ∀ (l : Bytes), l.length % 2 = 1 → ∃ l' w, l = l' ++ [w] ∧ l'.length % 2 = 0
  | [], h => by simp at h
  | [w], _ => ⟨[], w, rfl, rfl⟩
  | a :: b :: l, h => by
    have ⟨l', w, e, he⟩ := odd_snoc l (by simp only [List.length_cons] at h; omega)
    exact ⟨a :: b :: l', w, by simp [e], by simp only [List.length_cons]; omega⟩

/-- single-byte sensitivity of the 16-bit word sum (even total length, as `Checksum16` demands) -/
theorem sum16_alter (pre post : Bytes) (x y : UInt8) (h : x ≠ y)
    (hev : (pre ++ x :: post).length % 2 = 0) :
    sum16 (pre ++ x :: post) ≠ sum16 (pre ++ y :: post) := by
  simp only [List.length_append, List.length_cons] at hev
  by_cases hp : pre.length % 2 = 0
  · -- the altered byte is the low byte of its word
    match post, hev with
    | [], hev => simp at hev; omega
    | z :: post', _ =>
      rw [sum16_append_even _ _ hp, sum16_append_even _ _ hp, sum16_cons2, sum16_cons2]
      intro e
      exact word_lo_ne x y z h (u16_add_right_cancel (u16_add_left_cancel e))
  · -- the altered byte is the high byte of its word
    have ⟨pre', w, e, he⟩ := odd_snoc pre (by omega)
    subst e
    simp only [List.append_assoc, List.singleton_append]
    rw [sum16_append_even _ _ he, sum16_append_even _ _ he, sum16_cons2, sum16_cons2]
    intro e
    exact word_hi_ne x y w h (u16_add_right_cancel (u16_add_left_cancel e))

end Fiano.Uefi
