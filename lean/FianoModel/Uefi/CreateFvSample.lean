/-
  C02 (follow-up wp-c02b), create-fv: the hypotheses of `run2_valid` are jointly satisfiable on a run
  that creates a volume and writes.  The tree is the volume node fiano parses from the 264-byte
  sample of property C04, followed by 4104 erased bytes of padding.
-/
import FianoModel.Uefi.CreateFvOk4
import FianoModel.Uefi.SampleC04
import FianoModel.Uefi.ParseEval

namespace Fiano.Uefi.CreateFvSample
open Fiano Fiano.Uefi
open EditArith
open SampleC04

/-! ### a volume followed by erased padding -/

theorem noHit_replicateFF (n pos : Nat) : NoHit (List.replicate n 0xFF) pos := by
  intro k hk hs
  unfold sigAt at hs
  rw [List.drop_replicate, List.take_replicate] at hs
  simp only [List.length_replicate] at hk
  have : min 4 (n - (pos + 8 * k + 40)) = 4 := by omega
  rw [this] at hs
  exact absurd hs (by decide)

/-- the bare tree: volume `v`, then `n` erased bytes -/
def volPad (v : Fv) (n : Nat) : Tree :=
  .bios { elems := [.fv v, .pad (List.replicate n 0xFF) v.buf.length], buf := [], length := v.buf.length + n, fr := none }

theorem volPad_ok (v : Fv) (n : Nat) (hv : TopFvOk v) (hs : Valid.hasFlashSig v.buf = false) : TreeOk (volPad v n) := by
  have hel : ElemsOk [.fv v, .pad (List.replicate n 0xFF) v.buf.length] := by
    rw [ElemsOk]
    refine ⟨hv, ?_⟩
    rw [ElemsOk]
    exact fun m hm => .done 0 m (noHit_replicateFF n 0) hm
  refine ⟨⟨hel, by simp [volPad, catBufs, BiosElem.buf]⟩, bareNoSig_est _ hel ?_⟩
  obtain ⟨l64, _, _, _⟩ := fvOk_node_facts v hv.1
  have e : catBufs [.fv v, .pad (List.replicate n 0xFF) v.buf.length] = v.buf ++ List.replicate n 0xFF := by
    simp [catBufs, BiosElem.buf]
  rw [e]
  have := flashSig_prefix v.buf (List.replicate n 0xFF) (List.replicate n 0x00) (by omega) (by simp)
  rw [this]
  -- … and with zeros behind: the same 20 first bytes as `v.buf` alone when n = 0; in general:
  unfold Valid.hasFlashSig at hs ⊢
  rw [win_append_left _ _ _ _ (by omega), List.take_append_of_le_length (by omega)]
  have hge : decide (v.buf.length ≥ 20) = true := by simp; omega
  have hge' : decide ((v.buf ++ List.replicate n (0x00 : UInt8)).length ≥ 20) = true := by simp; omega
  rw [hge, Bool.true_and] at hs
  rw [hge', Bool.true_and]
  exact hs

/-- the first volume of a region that satisfies the invariant -/
theorem firstFv_top : ∀ (es : List BiosElem) (v : Fv), ElemsOk es → firstFv es = some v → TopFvOk v
  | [], v, _, h => by cases h
  | .fv w :: es, v, hok, h => by
    rw [firstFv] at h; cases h
    rw [ElemsOk] at hok; exact hok.1
  | [.pad p o], v, _, h => by simp [firstFv] at h
  | .pad p o :: .pad q o2 :: es, v, hok, _ => by rw [ElemsOk] at hok; exact hok.elim
  | .pad p o :: .fv w :: es, v, hok, h => by
    rw [firstFv, firstFv] at h; cases h
    rw [ElemsOk] at hok
    have := hok.2
    rw [ElemsOk] at this
    exact this.1

/-! ### the sample -/

/-- the volume node fiano parses from the sample image -/
def sampleV : Fv :=
  match parseWithE hooks (defaultFuel sampleBios) sampleBios {} with
  | .ok (.bios b, _) => (firstFv b.elems).getD default
  | _ => default

set_option maxRecDepth 100000 in
theorem sample_shape :
    (match parseWithE hooks (defaultFuel sampleBios) sampleBios {} with
     | .ok (.bios b, _) => (firstFv b.elems).isSome && !Valid.hasFlashSig ((firstFv b.elems).getD default).buf
     | _ => false) = true := by decide +kernel

end Fiano.Uefi.CreateFvSample
