/-
  C02 (follow-up wp-c02b): the invariant of a whole tree, and **`asmTree_ok`** — `Assemble` (what
  `save` runs) on a tree that satisfies `TreeOk` writes an image the independent reader accepts, and
  the tree it leaves satisfies `TreeOk` again.
-/
import FianoModel.Uefi.EditValidFlash

namespace Fiano.Uefi
open Fiano
open EditArith

theorem elemsRel_trans : ∀ {a b c : List BiosElem}, ElemsRel a b → ElemsRel b c → ElemsRel a c := by
  intro a b c h1
  induction h1 generalizing c with
  | nil => intro h2; exact h2
  | pad p o es es' _ ih =>
    intro h2
    cases h2 with
    | pad _ _ _ es'' h2' => exact .pad p o es es'' (ih h2')
  | fv v v' es es' hc _ ih =>
    intro h2
    cases h2 with
    | fv _ v'' _ es'' hc' h2' => exact .fv v v'' es es'' (hc.trans hc') (ih h2')

/-- a bare BIOS image must not start to look like a flash image: whatever `Assemble` may make of
    the volumes, the concatenation carries no flash signature at offset 0 or 16 -/
def BareNoSig (es : List BiosElem) : Prop := ∀ es', ElemsRel es es' → Valid.hasFlashSig (catBufs es') = false

/-- **the invariant of the central theorem** -/
def TreeOk : Tree → Prop
  | .flash f => FlashOk f
  | .bios b => BiosOk b ∧ BareNoSig b.elems

theorem treeOk_sized (t : Tree) (h : TreeOk t) : Sized t := by
  cases t with
  | flash f => exact h.sized
  | bios b => trivial

/-- **`asmTree_valid`**: what `save` writes is an image the independent reader accepts -/
theorem asmTree_ok (h : Hooks) (hlaw : h.NvLaw) (t t' : Tree) (st st' : St) (hok : TreeOk t)
    (ha : asmTreeWith h t st = .ok (t', st')) (hL : rootLen t < 2 ^ 31) :
    TreeOk t' ∧ Valid.validImage t'.buf = true := by
  cases t with
  | flash f =>
    unfold asmTreeWith at ha
    simp only at ha
    split at ha
    · cases ha
    · rename_i f' st1 hf
      cases ha
      exact asmFlash_ok h hlaw f f' st _ hok hf hL
  | bios b =>
    unfold asmTreeWith at ha
    simp only at ha
    split at ha
    · cases ha
    · rename_i b' st1 hb
      cases ha
      obtain ⟨hbok, hns⟩ := hok
      obtain ⟨h1, h2, h3, h4, _, _⟩ := asmBios_ok h hlaw b b' st _ hbok hb hL
      refine ⟨⟨h1, fun es' hr => hns es' (elemsRel_trans h4 hr)⟩, ?_⟩
      simp only [Tree.buf]
      unfold Valid.validImage
      have : Valid.hasFlashSig b'.buf = false := by rw [h3]; exact hns _ h4
      rw [this]
      simpa using h2

end Fiano.Uefi
