/-
  C02, "same size": every image `save` writes has the size of the image that was read.
-/
import FianoModel.Uefi.EditLemmas

namespace Fiano.Uefi
open EditArith
open Fiano

/-- the size of the image a tree stands for -/
def rootLen : Tree → Nat
  | .flash f => f.flashSize
  | .bios b => b.length

/-! ### BIOS region -/

theorem asmBios_length (h : Hooks) (b b' : BiosRegion) (st st' : St) (ha : asmBios h b st = .ok (b', st')) :
    b'.buf.length = b.length ∧ b'.length = b.length ∧ b'.fr = b.fr := by
  unfold asmBios at ha
  split at ha
  · cases ha
  · split at ha
    · cases ha
    · split at ha
      · cases ha
      · simp only at ha
        split at ha
        · cases ha
        · rename_i hle
          cases ha
          refine ⟨?_, rfl, rfl⟩
          simp only [List.length_append, List.length_replicate]
          omega

/-! ### flash image -/

/-- a region whose buffer is as long as its table entry says, and whose table entry is the one the
    descriptor holds for its type (so that `Assemble` re-points it to itself) -/
def biosLenOk : Region → Prop
  | .bios b => b.length = b.buf.length
  | _ => True

def RegionSized (tbl : List FlashRegion) (nr : Nat) (r : Region) : Prop :=
  (∃ fr, r.fr = some fr ∧ r.buf.length + fr.baseOffset = fr.endOffset) ∧
  (repoint tbl nr r).fr = r.fr ∧ biosLenOk r

/-- the size invariant of a tree (nothing is asked of a bare BIOS region) -/
def Sized : Tree → Prop
  | .flash f => f.ifd.buf.length = 4096 ∧
      ∀ r ∈ f.regions, RegionSized f.ifd.region.regions f.ifd.map.numberOfRegions r
  | .bios _ => True

/-- the table entry `Assemble` re-points a region to depends on the region's type only -/
def repointFr (tbl : List FlashRegion) (nr : Nat) (t : Int) (cur : Option FlashRegion) : Option FlashRegion :=
  if t = -1 then cur
  else if nr ≠ 0 ∧ t > nr then cur
  else if t ≥ tbl.length then cur
  else match tbl[t.toNat]? with
    | some fr => some fr
    | none => cur

theorem setFr_fr (fr : FlashRegion) (r : Region) : (r.setFr fr).fr = some fr := by
  cases r <;> rfl

theorem repoint_fr (tbl : List FlashRegion) (nr : Nat) (r : Region) :
    (repoint tbl nr r).fr = repointFr tbl nr r.rtype r.fr := by
  unfold repoint repointFr
  simp only
  split
  · rfl
  · split
    · rfl
    · split
      · rfl
      · split
        · rename_i heq; rw [heq]; exact setFr_fr _ _
        · rename_i heq; rw [heq]

theorem biosLenOk_repoint (tbl : List FlashRegion) (nr : Nat) (r : Region) (h : biosLenOk r) :
    biosLenOk (repoint tbl nr r) := by
  unfold repoint
  simp only
  split
  · exact h
  · split
    · exact h
    · split
      · exact h
      · split
        · cases r <;> simpa [Region.setFr, biosLenOk] using h
        · exact h

theorem repoint_buf (tbl : List FlashRegion) (nr : Nat) (r : Region) : (repoint tbl nr r).buf = r.buf := by
  unfold repoint
  simp only
  split
  · rfl
  · split
    · rfl
    · split
      · rfl
      · split
        · cases r <;> rfl
        · rfl

theorem mem_insertRegion (r x : Region) (l : List Region) : x ∈ insertRegion r l ↔ x = r ∨ x ∈ l := by
  induction l with
  | nil => simp [insertRegion]
  | cons y ys ih =>
    unfold insertRegion
    split
    · simp
    · simp only [List.mem_cons, ih]
      constructor
      · rintro (h | h | h)
        · exact Or.inr (Or.inl h)
        · exact Or.inl h
        · exact Or.inr (Or.inr h)
      · rintro (h | h | h)
        · exact Or.inr (Or.inl h)
        · exact Or.inl h
        · exact Or.inr (Or.inr h)

theorem mem_sortRegions (x : Region) (l : List Region) : x ∈ sortRegions l ↔ x ∈ l := by
  unfold sortRegions
  induction l with
  | nil => simp
  | cons y ys ih => simp only [List.foldr_cons, mem_insertRegion, ih, List.mem_cons]

/-- the tiling check adds up the region lengths -/
theorem tileRegions_length (l : List Region) (off : Nat) (acc buf : Bytes) (offset : Nat)
    (h : tileRegions l off acc = .ok (buf, offset))
    (hs : ∀ r ∈ l, ∃ fr, r.fr = some fr ∧ r.buf.length + fr.baseOffset = fr.endOffset) :
    buf.length + off = acc.length + offset := by
  induction l generalizing off acc with
  | nil => simp [tileRegions] at h; obtain ⟨rfl, rfl⟩ := h; omega
  | cons r rest ih =>
    obtain ⟨fr, hfr, hlen⟩ := hs r (by simp)
    rw [tileRegions, hfr] at h
    simp only at h
    split at h
    · cases h
    · split at h
      · cases h
      · have := ih fr.endOffset (acc ++ r.buf) h (fun x hx => hs x (by simp [hx]))
        simp only [List.length_append] at this
        omega

theorem asmDescriptor_keeps (d d' : Descriptor) (h : asmDescriptor d = .ok d') :
    d'.buf.length = d.buf.length ∧ d'.region = d.region ∧ d'.map = d.map := by
  unfold asmDescriptor at h
  simp only at h
  split at h
  · cases h
  · rename_i hb
    cases h
    refine ⟨?_, rfl, rfl⟩
    simp only [not_or, Nat.not_lt] at hb
    rw [splice_length, splice_length, splice_length]
    · simp; omega
    · rw [splice_length]
      · simp; omega
      · simp; omega
    · rw [splice_length, splice_length]
      · simp; omega
      · simp; omega
      · rw [splice_length]
        · simp; omega
        · simp; omega

/-- assembling the regions changes BIOS regions only, and keeps their length, buffer length and
    table entry -/
theorem asmRegions_sized (h : Hooks) (tbl : List FlashRegion) (nr : Nat) (l l' : List Region) (st st' : St)
    (ha : asmRegions h l st = .ok (l', st')) (hs : ∀ r ∈ l, RegionSized tbl nr r) :
    ∀ r ∈ l', RegionSized tbl nr r := by
  induction l generalizing l' st st' with
  | nil => simp [asmRegions] at ha; obtain ⟨rfl, _⟩ := ha; simp
  | cons r rest ih =>
    cases r with
    | bios b =>
      rw [asmRegions] at ha
      split at ha
      · cases ha
      · rename_i b' st1 hb
        split at ha
        · cases ha
        · rename_i rs' st2 hrs
          cases ha
          have hbl := asmBios_length h b b' st st1 hb
          have hr := hs (.bios b) (by simp)
          intro x hx
          simp only [List.mem_cons] at hx
          rcases hx with rfl | hx
          · obtain ⟨⟨fr, hfr, hlen⟩, hrep, hbb⟩ := hr
            simp only [Region.fr, Region.buf, biosLenOk] at hfr hlen hbb
            refine ⟨⟨fr, by simp [Region.fr, hbl.2.2, hfr], ?_⟩, ?_, ?_⟩
            · simp only [Region.buf]; rw [hbl.1, hbb]; exact hlen
            · -- re-pointing depends on the region type and the table only
              rw [repoint_fr] at hrep ⊢
              simp only [Region.rtype, Region.fr] at hrep ⊢
              rw [hbl.2.2]; exact hrep
            · simp only [biosLenOk]; rw [hbl.1, hbl.2.1]
          · exact ih _ _ _ hrs (fun y hy => hs y (by simp [hy])) x hx
    | me b fr =>
      rw [asmRegions] at ha
      · split at ha
        · cases ha
        · rename_i rs' st2 hrs
          cases ha
          intro x hx
          simp only [List.mem_cons] at hx
          rcases hx with rfl | hx
          · exact hs _ (by simp)
          · exact ih _ _ _ hrs (fun y hy => hs y (by simp [hy])) x hx
      · intro b hb; cases hb
    | raw b fr t =>
      rw [asmRegions] at ha
      · split at ha
        · cases ha
        · rename_i rs' st2 hrs
          cases ha
          intro x hx
          simp only [List.mem_cons] at hx
          rcases hx with rfl | hx
          · exact hs _ (by simp)
          · exact ih _ _ _ hrs (fun y hy => hs y (by simp [hy])) x hx
      · intro b hb; cases hb

end Fiano.Uefi

namespace Fiano.Uefi
open EditArith
open Fiano

theorem repointFr_idem (tbl : List FlashRegion) (nr : Nat) (t : Int) (cur : Option FlashRegion) :
    repointFr tbl nr t (repointFr tbl nr t cur) = repointFr tbl nr t cur := by
  unfold repointFr
  split
  · rfl
  · split
    · rfl
    · split
      · rfl
      · split <;> rfl

theorem repoint_rtype (tbl : List FlashRegion) (nr : Nat) (r : Region) : (repoint tbl nr r).rtype = r.rtype := by
  unfold repoint
  simp only
  split
  · rfl
  · split
    · rfl
    · split
      · rfl
      · split
        · cases r <;> rfl
        · rfl

/-- **assembling a flash image keeps its size and the size invariant** -/
theorem asmFlash_sized (h : Hooks) (f f' : Flash) (st st' : St) (ha : asmFlash h f st = .ok (f', st'))
    (hs : Sized (.flash f)) : f'.buf.length = f.flashSize ∧ f'.flashSize = f.flashSize ∧ Sized (.flash f') := by
  obtain ⟨h4096, hregs⟩ := hs
  unfold asmFlash at ha
  split at ha
  · cases ha
  · rename_i ifd hifd
    have hk := asmDescriptor_keeps f.ifd ifd hifd
    split at ha
    · cases ha
    · rename_i rs st1 hrs
      split at ha
      · cases ha
      · rename_i bios _ hb
        split at ha
        · cases ha
        · simp only at ha
          split at ha
          · cases ha
          · rename_i buf offset htile
            split at ha
            · cases ha
            · rename_i hoff
              cases ha
              have hrs' := asmRegions_sized h f.ifd.region.regions f.ifd.map.numberOfRegions _ _ _ _ hrs hregs
              -- every region that reaches the tiling check is sized
              have hall : ∀ r ∈ sortRegions (rs.map (repoint ifd.region.regions ifd.map.numberOfRegions)),
                  RegionSized f.ifd.region.regions f.ifd.map.numberOfRegions r := by
                intro r hr
                rw [mem_sortRegions, List.mem_map] at hr
                obtain ⟨r0, hr0, rfl⟩ := hr
                obtain ⟨⟨fr, hfr, hlen⟩, hrep, hb⟩ := hrs' r0 hr0
                rw [hk.2.1, hk.2.2]
                rw [repoint_fr] at hrep
                refine ⟨⟨fr, ?_, ?_⟩, ?_, ?_⟩
                · rw [repoint_fr, hrep, hfr]
                · rw [repoint_buf]; exact hlen
                · rw [repoint_fr, repoint_fr, repoint_rtype, repointFr_idem]
                · exact biosLenOk_repoint _ _ _ hb
              have hlen := tileRegions_length _ _ _ _ _ htile (fun r hr => (hall r hr).1)
              rw [hk.1, h4096] at hlen
              have hoff' : offset = f.flashSize := by simpa using hoff
              refine ⟨by simp only; omega, rfl, ?_⟩
              refine ⟨by simp only; rw [hk.1]; exact h4096, ?_⟩
              simp only
              rw [hk.2.1, hk.2.2] at hall ⊢
              exact hall

theorem asmTree_sized (h : Hooks) (t t' : Tree) (st st' : St) (ha : asmTreeWith h t st = .ok (t', st'))
    (hs : Sized t) : t'.buf.length = rootLen t ∧ rootLen t' = rootLen t ∧ Sized t' := by
  cases t with
  | flash f =>
    unfold asmTreeWith at ha
    simp only at ha
    split at ha
    · cases ha
    · rename_i f' st1 hf
      cases ha
      exact asmFlash_sized h f f' st _ hf hs
  | bios b =>
    unfold asmTreeWith at ha
    simp only at ha
    split at ha
    · cases ha
    · rename_i b' st1 hb
      cases ha
      have := asmBios_length h b b' st _ hb
      exact ⟨this.1, this.2.1, trivial⟩

/-- the frame of an edit keeps the size invariant -/
theorem regionsFrame_sized (E : Editor) (tbl : List FlashRegion) (nr : Nat) (l l' : List Region)
    (hf : regionsFrame E l l') (hs : ∀ r ∈ l, RegionSized tbl nr r) : ∀ r ∈ l', RegionSized tbl nr r := by
  induction l generalizing l' with
  | nil =>
    cases l' with
    | nil => simp
    | cons _ _ => exact absurd hf (by simp [regionsFrame])
  | cons r rest ih =>
    cases l' with
    | nil => cases r <;> exact absurd hf (by simp [regionsFrame])
    | cons r' rest' =>
      intro x hx
      simp only [List.mem_cons] at hx
      cases r with
      | bios b =>
        cases r' with
        | bios b' =>
          obtain ⟨⟨hl, hb, hfr, _⟩, hrest⟩ := hf
          rcases hx with rfl | hx
          · obtain ⟨⟨fr, hfr0, hlen⟩, hrep, hbb⟩ := hs (.bios b) (by simp)
            refine ⟨⟨fr, ?_, ?_⟩, ?_, ?_⟩
            · simp only [Region.fr] at hfr0 ⊢; rw [hfr, hfr0]
            · simp only [Region.buf] at hlen ⊢; rw [hb]; exact hlen
            · rw [repoint_fr] at hrep ⊢
              simp only [Region.rtype, Region.fr] at hrep ⊢
              rw [hfr]; exact hrep
            · simp only [biosLenOk] at hbb ⊢; rw [hl, hb]; exact hbb
          · exact ih rest' hrest (fun y hy => hs y (by simp [hy])) x hx
        | me _ _ => exact absurd hf (by simp [regionsFrame])
        | raw _ _ _ => exact absurd hf (by simp [regionsFrame])
      | me b fr =>
        obtain ⟨he, hrest⟩ := hf
        rcases hx with rfl | hx
        · rw [he]; exact hs _ (by simp)
        · exact ih rest' hrest (fun y hy => hs y (by simp [hy])) x hx
      | raw b fr t =>
        obtain ⟨he, hrest⟩ := hf
        rcases hx with rfl | hx
        · rw [he]; exact hs _ (by simp)
        · exact ih rest' hrest (fun y hy => hs y (by simp [hy])) x hx

theorem rwTree_sized (E : Editor) (t t' : Tree) (h : rwTree E t = .ok t') (hs : Sized t) :
    rootLen t' = rootLen t ∧ Sized t' := by
  have hf := rwTree_frame E t t' h
  cases t with
  | flash f =>
    cases t' with
    | flash f' =>
      obtain ⟨_, hsz, hifd, hregs⟩ := hf
      refine ⟨hsz, ?_⟩
      obtain ⟨h4096, hr⟩ := hs
      refine ⟨by rw [hifd]; exact h4096, ?_⟩
      rw [hifd]
      exact regionsFrame_sized E _ _ _ _ hregs hr
    | bios _ => exact absurd hf (by simp [TreeFrame])
  | bios b =>
    cases t' with
    | flash _ => exact absurd hf (by simp [TreeFrame])
    | bios b' => exact ⟨hf.1, trivial⟩

/-- one visitor keeps the size of the image, and what `save` writes has that size -/
theorem step_sized (h : Hooks) (op : Op) (s s' : Run) (hs : step h op s = .ok s') (hz : Sized s.tree)
    (houts : ∀ b ∈ s.outs, b.length = rootLen s.tree) :
    rootLen s'.tree = rootLen s.tree ∧ Sized s'.tree ∧ ∀ b ∈ s'.outs, b.length = rootLen s.tree := by
  unfold step at hs
  split at hs
  · -- a nil file sits in the tree: only json and comment still succeed, and change nothing
    unfold stepNil at hs
    split at hs
    · split at hs <;> cases hs
    · cases hs; exact ⟨rfl, hz, houts⟩
    · cases hs; exact ⟨rfl, hz, houts⟩
    · cases hs
  · split at hs
    · split at hs
      · cases hs
      · cases hs; exact ⟨rfl, hz, houts⟩
    · split at hs
      · cases hs
      · rename_i t ht
        cases hs
        unfold insertOp at ht
        split at ht
        · cases ht
        · cases ht
        · split at ht
          · have := rwTree_sized _ _ _ ht hz; exact ⟨this.1, this.2, houts⟩
          · have := rwTree_sized _ _ _ ht hz; exact ⟨this.1, this.2, houts⟩
    · split at hs
      · cases hs
      · rename_i t ht
        cases hs
        have := rwTree_sized _ _ _ ht hz
        exact ⟨this.1, this.2, houts⟩
    · split at hs
      · cases hs
      · rename_i t ht
        cases hs
        unfold replacePe32Op at ht
        split at ht
        · cases ht
        · split at ht
          · have := rwTree_sized _ _ _ ht hz; exact ⟨this.1, this.2, houts⟩
          · cases ht
    · split at hs
      · cases hs
      · rename_i t st ht
        cases hs
        have := asmTree_sized h _ _ _ _ ht hz
        refine ⟨this.2.1, this.2.2, ?_⟩
        intro b hb
        simp only [List.mem_append, List.mem_singleton] at hb
        rcases hb with hb | rfl
        · exact houts b hb
        · exact this.1
    · split at hs
      · cases hs
      · cases hs; exact ⟨rfl, hz, houts⟩

/-- **C02, same size**: whatever the sequence of operations, every image written during the run has
    the size of the image the run started from -/
theorem run_same_size (h : Hooks) (ops : List Op) (s s' : Run) (hr : run h ops s = .ok s') (hz : Sized s.tree)
    (houts : ∀ b ∈ s.outs, b.length = rootLen s.tree) : ∀ b ∈ s'.outs, b.length = rootLen s.tree := by
  induction ops generalizing s with
  | nil => simp [run] at hr; subst hr; exact houts
  | cons op rest ih =>
    rw [run] at hr
    split at hr
    · cases hr
    · rename_i s1 hs1
      have := step_sized h op s s1 hs1 hz houts
      have := ih s1 hr this.2.1 (by rw [this.1]; exact this.2.2)
      rw [‹rootLen s1.tree = rootLen s.tree ∧ _›.1] at this
      exact this

end Fiano.Uefi
