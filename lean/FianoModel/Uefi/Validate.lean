/-
  UEFI core model — `visitors.Validate` (pkg/visitors/validate.go), every case of `Visit`:
  FlashImage, FlashDescriptor, FirmwareVolume, File, Section, BIOSRegion (with its element loop and
  the erase-polarity comparison), MERegion, RawRegion; all other node kinds (BIOSPadding, NVarStore,
  NVar, MEFPT) have no case and only pass the visitor on to their children.

  One `VErr` constructor per `v.Errors = append(…)` site of the Go code.  The model follows the code
  as repaired by
    fixes/C09-body-checksum.diff       the body checksum includes `IntegrityCheck.File`
    fixes/C09-large-bit.diff           large attribute without extended header is an error (and
                                       `break`s before the checksums)
    fixes/C09-headerlen-blockmap.diff  `HeaderLen` must end right after the block-map terminator
    fixes/C05-checksumheader-bounds.diff (wp-uefi; `ChecksumHeader` clamps the header to the buffer)

  Go details reproduced on purpose (Q):
   * `break` inside a `case` only leaves the `switch`: the children are visited all the same;
   * a file that carries an NVAR store passes the visitor to the store only (`File.ApplyChildren`),
     its section list is not visited;
   * `BIOSRegion` walks its elements itself and compares each *top-level* volume's polarity with the
     process-wide `uefi.Attributes.ErasePolarity` (state left behind by the parser); nested volumes
     are not compared;
   * `MasterBase > FlashDescriptorMapMaxBase` is tested twice (the second message says
     "ComponentBase"): two errors for one cause;
   * section lengths are compared as `uint32` (`uint32(len(buf))`).

  Core Lean only.
-/
import FianoModel.Uefi.Parse

namespace Fiano.Uefi
open Fiano

/-- one constructor per error site of `Validate.Visit` -/
inductive VErr where
  | flashSig                 -- FlashImage: FindSignature failed
  | masterBaseBig | regionBaseBig | masterBaseBig2 | masterEqRegion | masterEqComponent | regionEqComponent
  | fvTooSmall | fvHdrSmall | fvBufSmall | fvHdrLenMap | fvUnknownGuid | fvRevision | fvSignature
  | fvLength | fvCkOdd | fvCkSum
  | fileTooSmall | fileExtSmall | fileNotLarge | fileSizeCopy | fileLargeNoExt | fileSizeMismatch
  | fileHdrCk | fileBodyCkEmpty | fileBodyCk
  | secExtSmall | secSizeCopy | secSizeMismatch
  | biosRegionInvalid | biosNoFv | polarity
  | regionInvalid
  deriving DecidableEq, Repr, Inhabited

/-! ### constants of the Go code (tied to the sources in `Uefi/ValidateTie.lean`) -/

def guidFFS1      : Guid := [0xd9,0x54,0x93,0x7a,0x68,0x04,0x4a,0x44,0x81,0xce,0x0b,0xf6,0x17,0xd8,0x90,0xdf]
def guidEVSA      : Guid := [0x8d,0x2b,0xf1,0xff,0x96,0x76,0x8b,0x4c,0xa9,0x85,0x27,0x47,0x07,0x5b,0x4f,0x50]
def guidEVSA2     : Guid := [0x24,0x46,0x50,0x00,0x59,0x8a,0xeb,0x4e,0xbd,0x0f,0x6b,0x36,0xe9,0x61,0x28,0xe0]
def guidAppleBoot : Guid := [0xad,0xee,0xad,0x04,0xff,0x61,0x31,0x4d,0xb6,0xba,0x64,0xf8,0xbf,0x90,0x1f,0x5a]
def guidPFH1      : Guid := [0xa2,0x5d,0xb4,0x16,0x70,0x7d,0xea,0x4a,0xa5,0x8d,0x76,0x0e,0x9e,0xcb,0x84,0x1d]
def guidPFH2      : Guid := [0xba,0xbd,0x60,0xe3,0xce,0xc3,0xbe,0x46,0x8f,0x37,0xb2,0x31,0xe5,0xcb,0x9f,0x35]

/-- the keys of `uefi.FVGUIDs` -/
def knownFvGuids : List Guid :=
  [guidFFS1, guidFFS2, guidFFS3, guidEVSA, guidNVAR, guidEVSA2, guidAppleBoot, guidPFH1, guidPFH2]

def fvMinSize : Nat := 64                    -- uefi.FirmwareVolumeMinSize
def fvFixedHeaderSize : Nat := 56            -- uefi.FirmwareVolumeFixedHeaderSize
def fvSignature : Nat := 0x4856465F          -- binary.LittleEndian.Uint32("_FVH")
def mapMaxBase : Nat := 0xe0                 -- uefi.FlashDescriptorMapMaxBase
def emptyBodyChecksum : Nat := 0xAA          -- uefi.EmptyBodyChecksum

/-! ### node checks -/

/-- the loop of `blockMapEnd` (fixes/C09-headerlen-blockmap.diff): `b` is `buf[off:]`; the offset just
    after the first all-zero 8-byte entry, `0` when the map is not terminated inside the buffer -/
def scanBlockEnd : Nat → Bytes → Nat
  | off, b0 :: b1 :: b2 :: b3 :: b4 :: b5 :: b6 :: b7 :: rest =>
    if fromLE [b0, b1, b2, b3, b4, b5, b6, b7] = 0 then off + 8 else scanBlockEnd (off + 8) rest
  | _, _ => 0

def blockMapEnd (buf : Bytes) : Nat := scanBlockEnd fvFixedHeaderSize (buf.drop fvFixedHeaderSize)

/-- `case *uefi.FirmwareVolume` -/
def validateFvNode (i : FvInfo) (buf : Bytes) : List VErr :=
  let fvlen := buf.length
  if fvlen < fvMinSize then [.fvTooSmall]
  else if i.headerLen < fvMinSize then [.fvHdrSmall]
  else if fvlen < i.headerLen then [.fvBufSmall]
  else
    (if blockMapEnd buf ≠ i.headerLen then [.fvHdrLenMap] else []) ++
    (if ¬ knownFvGuids.contains i.fsGuid then [.fvUnknownGuid] else []) ++
    (if i.revision ≠ 2 then [.fvRevision] else []) ++
    (if i.signature ≠ fvSignature then [.fvSignature] else []) ++
    (if i.length ≠ fvlen then [.fvLength] else []) ++
    -- `Checksum16` refuses an odd length
    (if i.headerLen % 2 ≠ 0 then [.fvCkOdd]
     else if sum16 (buf.take i.headerLen) ≠ 0 then [.fvCkSum] else [])

def isLarge (attrs : Nat) : Bool := attrs &&& 0x01 ≠ 0       -- fileAttr.IsLarge
def hasChecksum (attrs : Nat) : Bool := attrs &&& 0x40 ≠ 0   -- fileAttr.HasChecksum

/-- the size checks of `case *uefi.File`: `some e` = the error after which the Go code `break`s -/
def fileSizeCheck (i : FileInfo) (buflen : Nat) : Option VErr :=
  if i.size3 = 0xFFFFFF then
    if buflen < 32 then some .fileExtSmall
    else if ¬ isLarge i.attrs then some .fileNotLarge
    else none
  else if i.size3 ≠ i.extSize then some .fileSizeCopy
  else if isLarge i.attrs then some .fileLargeNoExt        -- fixes/C09-large-bit.diff
  else none

/-- `File.ChecksumHeader` (with the clamp of fixes/C05-checksumheader-bounds.diff) -/
def checksumHeader (i : FileInfo) (buf : Bytes) : UInt8 :=
  let hs := if isLarge i.attrs then 32 else 24
  sum8 (buf.take (min hs buf.length)) - byte i.ckFile - byte i.state

/-- `case *uefi.File` as Go executes it: `f.Buf()[headerSize:]` panics when the buffer is shorter
    than the header the attribute byte announces -/
def validateFileNodeGo (i : FileInfo) (buf : Bytes) : Except Err (List VErr) :=
  let buflen := buf.length
  if buflen < 24 then .ok [.fileTooSmall] else
  match fileSizeCheck i buflen with
  | some e => .ok [e]
  | none =>
    if buflen ≠ i.extSize then .ok [.fileSizeMismatch] else
    let e1 : List VErr := if checksumHeader i buf ≠ 0 then [.fileHdrCk] else []
    if ¬ hasChecksum i.attrs then
      .ok (e1 ++ (if i.ckFile ≠ emptyBodyChecksum then [.fileBodyCkEmpty] else []))
    else
      let hs := if isLarge i.attrs then 32 else 24
      if hs > buflen then .error .panic
      else .ok (e1 ++ (if sum8 (buf.drop hs) + byte i.ckFile ≠ 0 then [.fileBodyCk] else []))

/-- `case *uefi.File` without the panic branch — equal to `validateFileNodeGo` on every input
    (`validateFileNodeGo_eq`, FianoModel/Uefi/ValidateLemmas.lean): after the large-bit fix the
    body slice is always in range -/
def validateFileNode (i : FileInfo) (buf : Bytes) : List VErr :=
  let buflen := buf.length
  if buflen < 24 then [.fileTooSmall] else
  match fileSizeCheck i buflen with
  | some e => [e]
  | none =>
    if buflen ≠ i.extSize then [.fileSizeMismatch] else
    (if checksumHeader i buf ≠ 0 then [.fileHdrCk] else []) ++
    (if ¬ hasChecksum i.attrs then
       (if i.ckFile ≠ emptyBodyChecksum then [.fileBodyCkEmpty] else [])
     else
       (if sum8 (buf.drop (if isLarge i.attrs then 32 else 24)) + byte i.ckFile ≠ 0 then [.fileBodyCk] else []))

/-- `case *uefi.Section` -/
def validateSecNode (i : SecInfo) (buf : Bytes) : List VErr :=
  let buflen := buf.length % 4294967296          -- uint32(len(f.Buf()))
  if i.size3 = 0xFFFFFF then
    if buflen < 8 then [.secExtSmall]
    else if buflen ≠ i.extSize then [.secSizeMismatch] else []
  else if i.size3 % 4294967296 ≠ i.extSize then [.secSizeCopy]
  else if buflen ≠ i.extSize then [.secSizeMismatch] else []

/-- `case *uefi.FlashDescriptor` -/
def validateDescNode (m : DescMap) : List VErr :=
  let component := m.fields.getD 0 0
  (if m.masterBase > mapMaxBase then [.masterBaseBig] else []) ++
  (if m.regionBase > mapMaxBase then [.regionBaseBig] else []) ++
  (if m.masterBase > mapMaxBase then [.masterBaseBig2] else []) ++      -- (Q) tested twice
  (if m.masterBase = m.regionBase then [.masterEqRegion] else []) ++
  (if m.masterBase = component then [.masterEqComponent] else []) ++
  (if m.regionBase = component then [.regionEqComponent] else [])

/-! ### the walk -/

mutual
  def vSection : Section → List VErr
    | .mk i buf encap => validateSecNode i buf ++ vNodes encap
  def vNodes : List Node → List VErr
    | [] => []
    | .sec s :: ns => vSection s ++ vNodes ns
    | .fv v :: ns => vFv v ++ vNodes ns
  def vSections : List Section → List VErr
    | [] => []
    | s :: ss => vSection s ++ vSections ss
  def vFile : File → List VErr
    | .mk i buf secs =>
      -- (Q) a file with an NVAR store shows the visitor the store only
      validateFileNode i buf ++ (if i.nvar.isSome then [] else vSections secs)
  def vFiles : List File → List VErr
    | [] => []
    | f :: fs => vFile f ++ vFiles fs
  def vFv : Fv → List VErr
    | .mk i buf files => validateFvNode i buf ++ vFiles files
end

def BiosElem.isFv : BiosElem → Bool
  | .fv _ => true
  | .pad _ _ => false

/-- the element loop of `case *uefi.BIOSRegion`; `pol` = `uefi.Attributes.ErasePolarity` -/
def vBiosElems (pol : UInt8) : List BiosElem → List VErr
  | [] => []
  | .pad _ _ :: es => vBiosElems pol es
  | .fv v :: es =>
    vFv v ++ (if polOfAttrs v.info.attrs ≠ pol then [.polarity] else []) ++ vBiosElems pol es

/-- `case *uefi.BIOSRegion` -/
def vBios (pol : UInt8) (b : BiosRegion) : List VErr :=
  (match b.fr with
   | some fr => if ¬ fr.valid then [.biosRegionInvalid] else []
   | none => []) ++
  (if b.elems.any BiosElem.isFv then [] else [.biosNoFv]) ++        -- FirstFV
  vBiosElems pol b.elems

/-- `case *uefi.MERegion`, `case *uefi.RawRegion` (the flash partition table has no checks) -/
def vRegion (pol : UInt8) : Region → List VErr
  | .bios b => vBios pol b
  | .me _ fr => if ¬ fr.valid then [.regionInvalid] else []
  | .raw _ fr _ => if ¬ fr.valid then [.regionInvalid] else []

def vRegions (pol : UInt8) : List Region → List VErr
  | [] => []
  | r :: rs => vRegion pol r ++ vRegions pol rs

/-- `case *uefi.FlashImage`, then the descriptor, then the regions -/
def vFlash (pol : UInt8) (f : Flash) : List VErr :=
  (if (findSignature f.buf).isNone then [.flashSig] else []) ++
  validateDescNode f.ifd.map ++ vRegions pol f.regions

/-- `(&visitors.Validate{}).Run(tree)`; `st` is the process state the parser left behind.
    The result is `v.Errors`; `Run` itself never returns an error. -/
def validate (t : Tree) (st : St) : List VErr :=
  match t with
  | .flash f => vFlash st.pol f
  | .bios b => vBios st.pol b

/-- `uefi.Parse` followed by `Validate.Run` in a fresh process: `none` = the parser refused the image -/
def parseValidate (h : Hooks) (buf : Bytes) : Except Err (List VErr) :=
  match parseWith h (defaultFuel buf) buf {} with
  | .error e => .error e
  | .ok (t, st) => .ok (validate t st)

end Fiano.Uefi
