/-
  T1 tie for the UEFI core model: the constants, tables, GUIDs, packed layouts, header patch
  offsets and size boundaries the model uses are compared with the facts regenerated from the Go
  sources on every build (FianoModel/Gen/Uefi.lean, UefiAsm.lean, UefiCodec.lean).

  The model follows the code as repaired by the delivered fixes; the facts that depend on a fix
  (`tie_setSize_boundary`) therefore fail on a tree that lacks it.
-/
import FianoModel.Uefi.Spec
import FianoModel.Gen.Uefi
import FianoModel.Gen.UefiAsm
import FianoModel.Gen.UefiCodec
import FianoModel.Gen.ArithUefi

namespace Fiano.Uefi.Tie
open Fiano Fiano.Uefi

def bytesOf (l : List Nat) : Bytes := l.map UInt8.ofNat

/-! ### constants -/
theorem tie_fileHeaderMin : Gen.Uefi.FileHeaderMinLength = 24 := by decide
theorem tie_fileHeaderExt : Gen.Uefi.FileHeaderExtMinLength = 32 := by decide
theorem tie_emptyBodyChecksum : Gen.Uefi.EmptyBodyChecksum = 0xAA := by decide
theorem tie_fvFixedHeader : Gen.Uefi.FirmwareVolumeFixedHeaderSize = 56 ∧ Gen.Uefi.FirmwareVolumeMinSize = 64 ∧
    Gen.Uefi.FirmwareVolumeExtHeaderMinSize = 20 := by decide
theorem tie_descriptor : Gen.Uefi.FlashDescriptorLength = 4096 ∧ Gen.Uefi.FlashDescriptorMapSize = 16 ∧
    Gen.Uefi.FlashRegionSectionSize = 64 ∧ Gen.Uefi.FlashMasterSectionSize = 12 ∧
    Gen.Uefi.RegionBlockSize = 4096 := by decide
theorem tie_sectionHeader : Gen.Uefi.SectionMinLength = 4 ∧ Gen.Uefi.SectionExtMinLength = 8 := by decide
theorem tie_poisoned : Gen.Uefi.poisonedPolarity = ({} : St).pol.toNat := by decide
theorem tie_fileTypes : Gen.Uefi.FVFileTypePad = 0xF0 ∧ Gen.Uefi.FVFileTypeRaw = 1 ∧ Gen.Uefi.FileStateValid = 7 := by
  decide
theorem tie_sectionTypes :
    Gen.Uefi.SectionTypeGUIDDefined = 0x02 ∧ Gen.Uefi.SectionTypeUserInterface = 0x15 ∧
    Gen.Uefi.SectionTypeVersion = 0x14 ∧ Gen.Uefi.SectionTypeFirmwareVolumeImage = 0x17 ∧
    Gen.Uefi.GUIDEDSectionProcessingRequired = 1 := by decide
theorem tie_depexTypes : ∀ t, isDepexType t = true ↔
    (t = Gen.Uefi.SectionTypeDXEDepEx ∨ t = Gen.Uefi.SectionTypePEIDepEx ∨ t = Gen.Uefi.SectionMMDepEx) := by
  intro t
  simp [isDepexType, Gen.Uefi.SectionTypeDXEDepEx, Gen.Uefi.SectionTypePEIDepEx, Gen.Uefi.SectionMMDepEx, or_assoc]
theorem tie_regionTypes : Gen.Uefi.RegionTypeBIOS = 0 ∧ Gen.Uefi.RegionTypeME = 1 ∧ Gen.Uefi.RegionTypePTT = 14 ∧
    Gen.Uefi.RegionTypeUnknown = -1 := by decide
theorem tie_flashSignature : flashSignature = bytesOf Gen.Uefi.FlashSignature := by decide

/-! ### tables -/
theorem tie_fileAlignments : fileAlignments = Gen.Uefi.fileAlignments := by decide
set_option maxRecDepth 8192 in
theorem tie_supportedFiles : (List.range 256).all (fun t =>
    supportedFile t == ((Gen.Uefi.SupportedFiles.lookup t).getD false)) = true := by decide
theorem tie_supportedFVs : Gen.Uefi.supportedFVs = ["FFS2", "FFS3"] := by decide
/-- opcode numbers: 0,1,2 carry a GUID, 8 ends the expression, nothing above 9 -/
theorem tie_depexOpcodes : Gen.Uefi.DepExOpCodes =
    [(0, "BEFORE"), (1, "AFTER"), (2, "PUSH"), (3, "AND"), (4, "OR"), (5, "NOT"), (6, "TRUE"),
     (7, "FALSE"), (8, "END"), (9, "SOR")] := by decide

/-! ### GUIDs -/
theorem tie_guidFFS2 : guidFFS2 = bytesOf Gen.Uefi.FFS2 := by decide
theorem tie_guidFFS3 : guidFFS3 = bytesOf Gen.Uefi.FFS3 := by decide
theorem tie_guidNVAR : guidNVAR = bytesOf Gen.Uefi.NVAR := by decide
theorem tie_guidFF : guidFF = bytesOf Gen.Uefi.FFGUID := by decide
theorem tie_guidZero : guidZero = bytesOf Gen.Uefi.ZeroGUID := by decide
theorem tie_codecGuids : Spec.codecGuids =
    [bytesOf Gen.UefiCodec.BROTLIGUID, bytesOf Gen.UefiCodec.LZMAGUID, bytesOf Gen.UefiCodec.LZMAX86GUID,
     bytesOf Gen.UefiCodec.ZLIBGUID] := by decide

/-! ### packed layouts (encoding/binary, declaration order, blank fields included) -/
theorem tie_layout_fvHeader : Gen.Uefi.layout_FirmwareVolumeFixedHeader =
    [("_", 16), ("FileSystemGUID", 16), ("Length", 8), ("Signature", 4), ("Attributes", 4), ("HeaderLen", 2),
     ("Checksum", 2), ("ExtHeaderOffset", 2), ("Reserved", 1), ("Revision", 1)] := by decide
theorem tie_layout_fvExtHeader : Gen.Uefi.layout_FirmwareVolumeExtHeader = [("FVName", 16), ("ExtHeaderSize", 4)] := by
  decide
theorem tie_layout_block : Gen.Uefi.layout_Block = [("Count", 4), ("Size", 4)] := by decide
theorem tie_layout_fileHeader : Gen.Uefi.layout_FileHeader =
    [("GUID", 16), ("Checksum", 2), ("Type", 1), ("Attributes", 1), ("Size", 3), ("State", 1)] ∧
    Gen.Uefi.layout_IntegrityCheck = [("Header", 1), ("File", 1)] ∧
    Gen.Uefi.layout_FileHeaderExtended = [("FileHeader", 24), ("ExtendedSize", 8)] := by decide
theorem tie_layout_sectionHeader : Gen.Uefi.layout_SectionHeader = [("Size", 3), ("Type", 1)] ∧
    Gen.Uefi.layout_SectionExtHeader = [("SectionHeader", 4), ("ExtendedSize", 4)] ∧
    Gen.Uefi.layout_SectionGUIDDefinedHeader = [("GUID", 16), ("DataOffset", 2), ("Attributes", 2)] := by decide
theorem tie_layout_regionSection : Gen.Uefi.layout_FlashRegionSection =
    [("_", 2), ("FlashBlockEraseSize", 2), ("FlashRegions", 60)] ∧
    Gen.Uefi.layout_FlashRegion = [("Base", 2), ("Limit", 2)] := by decide
theorem tie_layout_descriptorMap : Gen.Uefi.size_FlashDescriptorMap = 16 ∧
    (Gen.Uefi.layout_FlashDescriptorMap.map (·.2)) = List.replicate 16 1 ∧
    Gen.Uefi.layout_FlashDescriptorMap[2]? = some ("RegionBase", 1) ∧
    Gen.Uefi.layout_FlashDescriptorMap[3]? = some ("NumberOfRegions", 1) ∧
    Gen.Uefi.layout_FlashDescriptorMap[4]? = some ("MasterBase", 1) := by decide
theorem tie_layout_master : Gen.Uefi.layout_FlashMasterSection = [("BIOS", 4), ("ME", 4), ("GBE", 4)] ∧
    Gen.Uefi.layout_RegionPermissions = [("ID", 2), ("Read", 1), ("Write", 1)] := by decide

/-! ### size boundaries and header patches in the writers -/
/-- `SetSize` switches to the extended header at the same boundary as `Write3Size` saturates
    (fixes/C02-setsize-boundary.diff) -/
theorem tie_setSize_boundary : Gen.Uefi.cmplits_File_SetSize = [(">=", 0xFFFFFF)] := by decide
theorem tie_write3 : Gen.Uefi.cmplits_Write3Size = [(">=", 0xFFFFFF)] := by decide
theorem tie_genSecHeader : Gen.Uefi.cmplits_Section_GenSecHeader = [(">=", 0xFFFFFF), (">=", 0xFFFFFF)] := by decide
theorem tie_findFv : Gen.Uefi.cmplits_FindFirmwareVolumeOffset = [("<", 32)] := by decide
theorem tie_regionValid : Gen.Uefi.cmplits_FlashRegion_Valid = [(">", 0), ("!=", 65535), ("!=", 65535)] := by decide
/-- Length at 32 (8 bytes), block count at 56 (4 bytes), checksum at 50 (2 bytes, zeroed then
    written), FFSv3 GUID at [16,32) -/
theorem tie_headerPatches : Gen.UefiAsm.putsites_Assemble_Visit = [(64, 32), (32, 56), (16, 50), (16, 50)] ∧
    Gen.UefiAsm.copysites_Assemble_Visit = [(16, 32)] := by decide
/-- the FFSv3 switch is taken strictly above 16 MiB (three places), the pad-file bump from a gap of 8 -/
theorem tie_asmBoundaries :
    Gen.UefiAsm.cmplits_Assemble_Visit.filter (·.2 = 0xFFFFFF) = [(">", 0xFFFFFF), (">", 0xFFFFFF), (">", 0xFFFFFF)] ∧
    Gen.UefiAsm.cmplits_Assemble_Visit.filter (·.2 = 8) = [(">=", 8)] := by decide

/-! ### arithmetic: the model's `alignGo` IS `uefi.Align` as translated from the Go source
    (translator kind `exprfn`, Gen/ArithUefi.lean), for all 64-bit arguments, wrap-around included -/
theorem tie_alignGo (v b : UInt64) : (Gen.ArithUefi.fn_Align v b).toNat = alignGo v.toNat b.toNat := by
  unfold Gen.ArithUefi.fn_Align alignGo
  rw [UInt64.toNat_and, UInt64.toNat_not, UInt64.toNat_sub, UInt64.toNat_sub, UInt64.toNat_add]
  simp only [UInt64.toNat_one, UInt64.size]
  have hv := v.toNat_lt
  have hb := b.toNat_lt
  have e1 : (18446744073709551616 - 1 + (v.toNat + b.toNat) % 18446744073709551616) % 18446744073709551616 =
      (v.toNat + b.toNat + 18446744073709551615) % 18446744073709551616 := by omega
  have e2 : 18446744073709551616 - 1 - (18446744073709551616 - 1 + b.toNat) % 18446744073709551616 =
      (18446744073709551616 - b.toNat) % 18446744073709551616 := by omega
  rw [e1, e2]

theorem tie_align8 (v : UInt64) : (Gen.ArithUefi.fn_Align8 v).toNat = align8 v.toNat := by
  unfold Gen.ArithUefi.fn_Align8 align8; exact tie_alignGo v 8

theorem tie_align4 (v : UInt64) : (Gen.ArithUefi.fn_Align4 v).toNat = align4 v.toNat := by
  unfold Gen.ArithUefi.fn_Align4 align4; exact tie_alignGo v 4

end Fiano.Uefi.Tie
