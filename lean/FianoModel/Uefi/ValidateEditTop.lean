/-
  C09a for edited trees (follow-up wp-c09c), part 3: BIOS region, flash image, and

      validImage bs  ∧  uefi.Parse bs = tree  ⇒  validate tree = []          (`ve_validImage_validates`)

  under two named, decidable hypotheses on the parsed tree: fiano read the headers as the specification does
  (`readAlikeB`, the hypothesis of C02's `parse_establishes_TreeOk`), and `extraB` — the checks validate makes
  that the independent reader does not (ValidateEditDef.lean).

  Position of every node: property C04 (`parseWith_faithful`).  Validity of every top-level volume's bytes:
  C02's invariant `TreeOk` (`parse_establishes_TreeOk`).  Below a volume: ValidateEditTree.lean.
-/
import FianoModel.Uefi.ValidateEditTree

namespace Fiano.Uefi.C09
open Fiano Fiano.Uefi
open EditArith

/-- every top-level volume of an element list that satisfies C02's invariant holds bytes the reader accepts -/
theorem ve_elemsOk_fv : ∀ (es : List BiosElem), ElemsOk es → ∀ v, BiosElem.fv v ∈ es → FvBytesOk v.buf
  | [], _, v, hm => by cases hm
  | [.pad p o], _, v, hm => by simp at hm
  | .pad p o :: .pad q o2 :: es, hok, _, _ => by rw [ElemsOk] at hok; exact hok.elim
  | .pad p o :: .fv w :: es, hok, v, hm => by
    rw [ElemsOk] at hok
    simp only [List.mem_cons] at hm
    rcases hm with hm | hm
    · cases hm
    · exact ve_elemsOk_fv (.fv w :: es) hok.2 v (by simpa using hm)
  | .fv w :: es, hok, v, hm => by
    rw [ElemsOk] at hok
    simp only [List.mem_cons] at hm
    rcases hm with hm | hm
    · cases hm
      exact (fvOk_node_facts _ hok.1.1).2.2.2
    · exact ve_elemsOk_fv es hok.2 v hm

/-- the element loop of `case *uefi.BIOSRegion` reports nothing -/
theorem ve_elems (h : Hooks) (pol : UInt8) : ∀ (es : List BiosElem) (rest : Bytes) (abs : Nat), ElemsAt h es rest abs →
    (∀ v, BiosElem.fv v ∈ es → FvBytesOk v.buf) → ElemsRA es → rest.length < 2 ^ 62 → xElems pol es = true →
    vBiosElems pol es = []
  | [], _, _, _, _, _, _, _ => by rw [vBiosElems]
  | .pad b o :: es, rest, abs, hF, hok, hRA, hL, hx => by
    unfold ElemsAt at hF
    rw [ElemsRA] at hRA
    rw [xElems] at hx
    rw [vBiosElems]
    exact ve_elems h pol es _ _ hF.2.2.2.2 (fun v hv => hok v (by simp [hv])) hRA
      (by rw [List.length_drop]; omega) hx
  | .fv v :: es, rest, abs, hF, hok, hRA, hL, hx => by
    unfold ElemsAt at hF
    obtain ⟨_, _, hFv, _, hrest⟩ := hF
    rw [ElemsRA] at hRA
    rw [xElems] at hx
    simp only [Bool.and_eq_true, decide_eq_true_eq] at hx
    obtain ⟨⟨hxv, hpol⟩, hxe⟩ := hx
    have hb := hok v (by simp)
    have hbuf : v.buf = rest.take v.info.length := by
      obtain ⟨i, buf, files⟩ := v
      unfold FvF at hFv
      exact hFv.2.2.1
    rw [hbuf] at hb
    have hv := ve_fv h v rest hFv hRA.1 hb hL hxv
    have ih := ve_elems h pol es _ _ hrest (fun w hw => hok w (by simp [hw])) hRA.2
      (by rw [List.length_drop]; omega) hxe
    rw [vBiosElems, hv, ih, if_neg (by simpa using hpol)]
    rfl

/-- `case *uefi.BIOSRegion` reports nothing -/
theorem ve_bios (h : Hooks) (pol : UInt8) (b : BiosRegion) (rbuf : Bytes) (hF : BiosF h b rbuf) (hok : BiosOk b)
    (hRA : ElemsRA b.elems) (hL : rbuf.length < 2 ^ 62) (hx : xBios pol b = true) : vBios pol b = [] := by
  unfold xBios at hx
  simp only [Bool.and_eq_true] at hx
  obtain ⟨⟨hfr, hany⟩, hxe⟩ := hx
  have he := ve_elems h pol b.elems rbuf 0 hF.2.2 (ve_elemsOk_fv b.elems hok.elems) hRA hL hxe
  unfold vBios
  rw [he, if_pos hany]
  cases hb : b.fr with
  | none => rfl
  | some fr =>
    rw [hb] at hfr
    simp only at hfr
    simp [hfr]

/-- every region of a faithful flash tree carries its inner structure and lies inside the image -/
theorem ve_regionsAt_inner (h : Hooks) (bs : Bytes) (tbl : List FlashRegion) : ∀ (rs : List Region) (off : Nat),
    RegionsAt h bs tbl rs off → ∀ r ∈ rs, RegionInner h r ∧ r.buf.length ≤ bs.length
  | [], _, _, r, hr => by cases hr
  | x :: xs, off, hF, r, hr => by
    unfold RegionsAt at hF
    simp only [List.mem_cons] at hr
    rcases hr with rfl | hr
    · unfold RegionF at hF
      exact ⟨hF.1.2.2.2.2, by have := hF.1.2.1; omega⟩
    · exact ve_regionsAt_inner h bs tbl xs _ hF.2 r hr

/-- the regions of a flash image report nothing -/
theorem ve_regions (h : Hooks) (pol : UInt8) : ∀ (rs : List Region),
    (∀ b, Region.bios b ∈ rs → BiosF h b b.buf ∧ BiosOk b ∧ ElemsRA b.elems ∧ b.buf.length < 2 ^ 62) →
    xRegions pol rs = true → vRegions pol rs = []
  | [], _, _ => by rw [vRegions]
  | r :: rs, hall, hx => by
    rw [xRegions, Bool.and_eq_true] at hx
    have ih := ve_regions h pol rs (fun b hb => hall b (by simp [hb])) hx.2
    rw [vRegions, ih, List.append_nil]
    cases r with
    | bios b =>
      obtain ⟨hF, hok, hRA, hL⟩ := hall b (by simp)
      rw [vRegion]
      exact ve_bios h pol b b.buf hF hok hRA hL hx.1
    | me b fr =>
      have := hx.1
      rw [xRegion] at this
      rw [vRegion]
      simp [this]
    | raw b fr t =>
      have := hx.1
      rw [xRegion] at this
      rw [vRegion]
      simp [this]

/-- a tree with a descriptor is only built for an image that carries the flash signature -/
theorem ve_flash_sig (h : Hooks) (fuel : Nat) (bs : Bytes) (st st' : St) (f : Flash)
    (hp : parseWith h fuel bs st = .ok (.flash f, st')) : (findSignature bs).isSome = true := by
  unfold parseWith at hp
  split at hp
  · rename_i heq
    rw [heq]; rfl
  · split at hp
    · cases hp
    · cases hp

/-- **what the independent reader of C02 accepts, validate accepts**: for every image `bs` the reader accepts
    (below 256 MiB) and the tree `uefi.Parse` builds from it — from any process state —, validate reports
    nothing, provided fiano read the headers as the specification does (`readAlikeB`) and the checks validate
    makes beyond the reader hold (`extraB`: revision 2 / known file system of every volume the reader saw,
    polarity of the top-level volumes = the process-wide one, region entries and descriptor map, children
    decoded out of GUID-defined sections) -/
theorem ve_validImage_validates (h : Hooks) (hb : h.BoundedCodecs) (hlaw : h.NvLaw) (fuel : Nat) (bs : Bytes)
    (st st' : St) (t : Tree) (hp : parseWith h fuel bs st = .ok (t, st')) (hv : Valid.validImage bs = true)
    (hL : bs.length < 65536 * 4096) (hRA : readAlikeB t = true) (hx : extraB t st' = true) :
    validate t st' = [] := by
  have hra := readAlikeB_sound t hRA
  obtain ⟨hok, _⟩ := Fiano.Uefi.parse_establishes_TreeOk h hb hlaw fuel bs st st' t hp hv hL hra
  have hF := parseWith_faithful h hb fuel bs st t st' (by unfold GoLen; omega) hp
  cases t with
  | bios b =>
    unfold Faithful at hF
    unfold TreeOk at hok
    unfold ReadAlike at hra
    unfold extraB at hx
    unfold validate
    exact ve_bios h st'.pol b bs hF.2 hok.1 hra (by omega) hx
  | flash f =>
    unfold Faithful at hF
    unfold TreeOk at hok
    unfold ReadAlike at hra
    unfold extraB at hx
    simp only at hx
    unfold xFlash at hx
    simp only [Bool.and_eq_true] at hx
    obtain ⟨hdesc, hxr⟩ := hx
    have hsig := ve_flash_sig h fuel bs st st' f hp
    unfold validate
    simp only
    unfold vFlash
    obtain ⟨hfb, _, _, _, hregs⟩ := hF
    rw [← hfb] at hsig
    have hinner := ve_regionsAt_inner h bs _ f.regions 4096 hregs
    have hr := ve_regions h st'.pol f.regions (fun b hbm => by
      obtain ⟨hi, hl⟩ := hinner _ hbm
      unfold RegionInner at hi
      simp only [Region.buf] at hl
      exact ⟨hi, (hok.bios b hbm).1, hra b hbm, by omega⟩) hxr
    rw [hr, List.isEmpty_iff.mp hdesc]
    have : ¬ (findSignature f.buf).isNone = true := by
      cases hs : findSignature f.buf with
      | none => rw [hs] at hsig; cases hsig
      | some x => simp
    rw [if_neg this]
    rfl

/-! ### the hypothesis on a saved image, as one executable predicate -/

/-- **the saved image is read again as the specification reads it**: `uefi.Parse` succeeds on `b` in a fresh
    process, read the headers as the specification does (`readAlikeB`), and the checks validate makes beyond
    the reader hold on the tree (`extraB`) -/
def reparseB (h : Hooks) (b : Bytes) : Bool :=
  match parseWith h (defaultFuel b) b {} with
  | .ok (t, st) => readAlikeB t && extraB t st
  | .error _ => false

/-- parse + validate in a fresh process reports nothing on an image the reader accepts that is read again as
    the specification reads it -/
theorem ve_parseValidate_clean (h : Hooks) (hb : h.BoundedCodecs) (hlaw : h.NvLaw) (b : Bytes)
    (hv : Valid.validImage b = true) (hL : b.length < 65536 * 4096) (hre : reparseB h b = true) :
    parseValidate h b = .ok [] := by
  unfold reparseB at hre
  unfold parseValidate
  cases hp : parseWith h (defaultFuel b) b {} with
  | error e => rw [hp] at hre; cases hre
  | ok p =>
    obtain ⟨t, st⟩ := p
    rw [hp] at hre
    simp only [Bool.and_eq_true] at hre
    simp only
    rw [ve_validImage_validates h hb hlaw _ b {} st t hp hv hL hre.1 hre.2]

end Fiano.Uefi.C09
