/-
  Property C04 — NVAR stores: what `NvF` gives, in the words of the property.

    entries_tile      the entry buffers, in order, concatenate to b[0, FreeSpaceOffset); every reported
                      `Offset` is the running sum of the sizes before it
    table_bytes       the GUID table, reversed, is b[GUIDStoreOffset, |b|)  (the last 16·n bytes)
    store_partition   when the entries end at or before the table: b = entries ++ free ++ table, and the
                      free space is `FreeSpaceOffset..GUIDStoreOffset` filled with the polarity byte — the
                      very layout C10's `Assemble` writes (`Nvram.layout`)
    table_minimal     the table has exactly as many GUIDs as the entries' indexes ask for
    overlap_witness   the quirk: a 29-byte store whose only entry grows the table into itself
    extFields_ok/_at  the extended-header fields are the bytes at their offsets, and the header is
                      sane exactly when C10's `extOk` says so
-/
import FianoModel.Uefi.FaithfulNvarLemmas
import FianoModel.Nvram.OverlapGuard

namespace Fiano.NvFaithful
open Fiano Fiano.Nvram

/-- running sums of the sizes -/
def entryOffsets : List NVar → Nat → List Nat
  | [], _ => []
  | v :: vs, off => off :: entryOffsets vs (off + v.size)

theorem slice_append_slice (b : Bytes) (o l1 l2 : Nat) :
    slice b o l1 ++ slice b (o + l1) l2 = slice b o (l1 + l2) := (slice_add b o l1 l2).symm

/-- the entries tile `[off, fso)`, their reported offsets are the running sums, and the walk ended on
    erased bytes or on the table -/
theorem entries_tile (pol : Nat) (sb : Bytes) : ∀ (rest prev : List NVar) (off n fso nF : Nat),
    EntriesAt pol sb prev rest off n fso nF →
      off ≤ fso ∧ (rest ≠ [] → fso ≤ sb.length) ∧ (rest.map (·.buf)).flatten = slice sb off (fso - off) ∧
      rest.map (·.offset) = entryOffsets rest off ∧ n ≤ nF ∧
      (sb.length - 16 * nF ≤ fso ∨ isErased pol (slice sb fso (sb.length - 16 * nF - fso)) = true) := by
  intro rest
  induction rest with
  | nil =>
    intro prev off n fso nF h
    simp only [EntriesAt] at h
    obtain ⟨h1, h2, h3⟩ := h
    subst h1 h2
    exact ⟨Nat.le_refl _, fun hc => absurd rfl hc, by simp [slice], rfl, Nat.le_refl _, h3⟩
  | cons v rest ih =>
    intro prev off n fso nF h
    simp only [EntriesAt] at h
    obtain ⟨hlt, _, hhdr, _, hrest⟩ := h
    obtain ⟨h1, h2, h3, h4, h5, h6⟩ := ih _ _ _ _ _ hrest
    obtain ⟨ho, _, _, _, _, _, hs10, hend, hbuf⟩ := hhdr
    have hgrow : n ≤ growTo sb n v.guidIndex := by
      unfold growTo; split
      · split <;> omega
      · omega
    refine ⟨by omega, fun _ => ?_, ?_, ?_, by omega, h6⟩
    · cases rest with
      | nil => simp only [EntriesAt] at hrest; omega
      | cons w ws => exact h2 (by intro hc; cases hc)
    · simp only [List.map_cons, List.flatten_cons, h3, hbuf]
      rw [slice_append_slice]
      congr 1; omega
    · simp only [List.map_cons, entryOffsets, h4, ho]

theorem table_prefix (sb : Bytes) (gs : List Bytes) (hT : TableOk sb gs) : ∀ k, k ≤ gs.length →
    ((gs.take k).reverse).flatten = slice sb (sb.length - 16 * k) (16 * k) := by
  obtain ⟨h16, _, hget⟩ := hT
  intro k
  induction k with
  | zero => intro _; simp [slice]
  | succ k ih =>
    intro hk
    rw [List.take_succ, hget k (by omega)]
    simp only [Option.toList_some, List.reverse_append, List.reverse_cons, List.reverse_nil, List.nil_append,
      List.singleton_append, List.flatten_cons]
    rw [ih (by omega)]
    unfold guidAt
    have e1 : sb.length - 16 * k = (sb.length - 16 * (k + 1)) + 16 := by omega
    rw [e1, slice_append_slice]
    congr 1; omega

/-- the GUID table, reversed, is the tail of the store -/
theorem table_bytes (sb : Bytes) (gs : List Bytes) (hT : TableOk sb gs) :
    gs.reverse.flatten = sb.drop (sb.length - 16 * gs.length) := by
  have := table_prefix sb gs hT gs.length (Nat.le_refl _)
  rw [List.take_length] at this
  rw [this]
  unfold slice
  apply List.take_of_length_le
  simp only [List.length_drop]
  have := hT.1
  omega

theorem isErased_replicate (pol : Nat) : ∀ (x : Bytes), isErased pol x = true → x = List.replicate x.length (UInt8.ofNat pol) := by
  intro x
  induction x with
  | nil => intro _; rfl
  | cons c cs ih =>
    intro h
    unfold isErased at h
    simp only [List.all_cons, Bool.and_eq_true, beq_iff_eq] at h
    have hc : c = UInt8.ofNat pol := by
      rw [← h.1]; simp
    subst hc
    simp only [List.length_cons, List.replicate_succ]
    congr 1
    exact ih (by unfold isErased; exact h.2)

/-- **the clean partition**: when the entries end at or before the GUID table the store is
    entries ++ free space (filled with the polarity byte) ++ table, nothing else — exactly what
    `Nvram.layout` (C10's `Assemble`) writes for this store -/
theorem store_partition (pol : Nat) (s : Store) (b : Bytes) (hf : NvF pol s b) (hle : s.fso ≤ s.gso) :
    b = (s.entries.map (·.buf)).flatten ++ List.replicate (s.gso - s.fso) (UInt8.ofNat pol) ++ s.guidStore.reverse.flatten ∧
    s.entries.map (·.offset) = entryOffsets s.entries 0 := by
  obtain ⟨_, _, hT, hgso, hE, _⟩ := hf
  obtain ⟨_, _, h3, h4, _, h6⟩ := entries_tile pol b _ _ _ _ _ _ hE
  refine ⟨?_, h4⟩
  have h16 := hT.1
  rw [h3, table_bytes b _ hT, ← hgso]
  have hfree : slice b s.fso (s.gso - s.fso) = List.replicate (s.gso - s.fso) (UInt8.ofNat pol) := by
    rw [← hgso] at h6
    cases h6 with
    | inl h6 =>
      have : s.gso - s.fso = 0 := by omega
      rw [this]; simp [slice]
    | inr h6 =>
      have := isErased_replicate pol _ h6
      rw [slice_length _ _ _ (by omega)] at this
      exact this
  rw [← hfree]
  simp only [Nat.sub_zero]
  have := slice_eq_of_append b s.fso (s.gso - s.fso) (by omega)
  have e : s.fso + (s.gso - s.fso) = s.gso := by omega
  rw [e] at this
  have e0 : slice b 0 s.fso = b.take s.fso := by simp [slice]
  rw [e0]
  exact this

theorem entryOk_index_lt (pol : Nat) (sb : Bytes) (prev : List NVar) (n' : Nat) (v : NVar) (i : Nat)
    (h : EntryOk pol sb prev n' v) (hi : v.guidIndex = some i) : i < 256 := by
  unfold EntryOk at h
  split at h
  · rw [h.2.2.2.1] at hi; cases hi
  · obtain ⟨_, _, h⟩ := h
    split at h
    · rw [h.2.2.1] at hi; cases hi
    · split at h
      · rw [h.2.1] at hi; cases hi
      · obtain ⟨_, _, h⟩ := h
        unfold OwnKeyOk at h
        split at h
        · rw [h.2.2.1] at hi; cases hi
        · obtain ⟨_, ⟨j, _, hj, _⟩, _⟩ := h
          rw [hj] at hi; cases hi
          exact j.toNat_lt

/-- the table holds exactly as many GUIDs as the entries' indexes ask for: it is empty, or some
    entry carries the index of its last GUID -/
theorem table_minimal (pol : Nat) (sb : Bytes) : ∀ (rest prev : List NVar) (off n fso nF : Nat),
    EntriesAt pol sb prev rest off n fso nF →
      nF = n ∨ ∃ v ∈ rest, ∃ i, v.guidIndex = some i ∧ nF = i + 1 := by
  intro rest
  induction rest with
  | nil => intro prev off n fso nF h; simp only [EntriesAt] at h; exact Or.inl h.2.1.symm
  | cons v rest ih =>
    intro prev off n fso nF h
    simp only [EntriesAt] at h
    obtain ⟨_, _, _, hok, hrest⟩ := h
    cases ih _ _ _ _ _ hrest with
    | inr h2 =>
      obtain ⟨w, hw, i, hi, hn⟩ := h2
      exact Or.inr ⟨w, List.mem_cons_of_mem _ hw, i, hi, hn⟩
    | inl h2 =>
      unfold growTo at h2
      split at h2
      · rename_i i hgi
        split at h2
        · rename_i hc
          refine Or.inr ⟨v, List.mem_cons_self, i, hgi, ?_⟩
          have := entryOk_index_lt _ _ _ _ _ i hok hgi
          have : (i + 1) % 256 = i + 1 ∨ (i + 1) % 256 = 0 := by omega
          omega
        · exact Or.inl h2
      · exact Or.inl h2

theorem entryOk_index (pol : Nat) (sb : Bytes) (prev : List NVar) (n' : Nat) (v : NVar) (i : Nat)
    (h : EntryOk pol sb prev n' v) (hi : v.guidIndex = some i) : i < 256 ∧ v.guid = guidByIndex sb n' i := by
  unfold EntryOk at h
  split at h
  · rw [h.2.2.2.1] at hi; cases hi
  · obtain ⟨_, _, h⟩ := h
    split at h
    · rw [h.2.2.1] at hi; cases hi
    · split at h
      · rw [h.2.1] at hi; cases hi
      · obtain ⟨_, _, h⟩ := h
        unfold OwnKeyOk at h
        split at h
        · rw [h.2.2.1] at hi; cases hi
        · obtain ⟨_, ⟨j, _, hj, hg⟩, _⟩ := h
          rw [hj] at hi; cases hi
          exact ⟨j.toNat_lt, hg⟩

/-- **a GUID index resolves into the final table**: an entry that reports GUID index `i` reports the
    i-th GUID counted from the end of the store, `b[|b| − 16(i+1), |b| − 16i)` — which is entry `i` of the
    final `GUIDStore` — or the zero GUID, and the latter only for index 255 or a table that would not fit
    into the store (the two quirks of `getGUIDFromStore`) -/
theorem guid_index_resolves (pol : Nat) (sb : Bytes) : ∀ (rest prev : List NVar) (off n fso nF : Nat),
    EntriesAt pol sb prev rest off n fso nF → nF ≤ 255 →
      ∀ v ∈ rest, ∀ i, v.guidIndex = some i →
        (i < nF ∧ v.guid = guidAt sb i) ∨ (v.guid = zeroGuid ∧ (i = 255 ∨ sb.length < 16 * (i + 1))) := by
  intro rest
  induction rest with
  | nil => intro prev off n fso nF _ _ v hv; cases hv
  | cons w rest ih =>
    intro prev off n fso nF h h255 v hv i hi
    simp only [EntriesAt] at h
    obtain ⟨_, _, _, hok, hrest⟩ := h
    cases hv with
    | tail _ hv => exact ih _ _ _ _ _ hrest h255 v hv i hi
    | head =>
      obtain ⟨hi256, hg⟩ := entryOk_index _ _ _ _ _ i hok hi
      have hmono := (entries_tile pol sb _ _ _ _ _ _ hrest).2.2.2.2.1
      rw [hi] at hmono hg
      generalize hn' : growTo sb n (some i) = n' at hmono hg
      have hdef : n' = if n < (i + 1) % 256 ∧ 16 * ((i + 1) % 256) ≤ sb.length then (i + 1) % 256 else n := by
        rw [← hn']; rfl
      unfold guidByIndex at hg
      by_cases hin : i < n'
      · rw [if_pos hin] at hg
        exact Or.inl ⟨by omega, hg⟩
      · rw [if_neg hin] at hg
        refine Or.inr ⟨hg, ?_⟩
        by_cases h255' : i = 255
        · exact Or.inl h255'
        · right
          have hi1 : (i + 1) % 256 = i + 1 := by omega
          rw [hi1] at hdef
          apply Classical.byContradiction
          intro hfit
          by_cases hc : n < i + 1 ∧ 16 * (i + 1) ≤ sb.length
          · rw [if_pos hc] at hdef; omega
          · rw [if_neg hc] at hdef
            have : ¬ n < i + 1 := fun hlt => hc ⟨hlt, by omega⟩
            omega

/-! ### the quirk: the last entry can grow the table into the entries -/

/-- one entry of 29 bytes (GUID index 0, ASCII name "A", 16 content bytes) and nothing else -/
def overlapStore : Bytes := [0x4e, 0x56, 0x41, 0x52, 0x1d, 0x00, 0xff, 0xff, 0xff, 0x82, 0x00, 0x41, 0x00, 0xa0, 0xa1, 0xa2, 0xa3, 0xa4, 0xa5, 0xa6, 0xa7, 0xa8, 0xa9, 0xaa, 0xab, 0xac, 0xad, 0xae, 0xaf]

/-- the repaired `NewNVarStore` (fixes/C04-nvar-table-overlap.diff) refuses it: the entry fills the store
    (`FreeSpaceOffset` = 29) and its GUID index 0 would make the last 16 bytes — the entry's own content —
    the GUID table (`GUIDStoreOffset` = 13).  (Before the repair the store was accepted with exactly
    these two offsets.) -/
theorem overlap_refused :
    (match parseStore 0xFF overlapStore with
     | .ok _ => false
     | .error e => decide (e = Err.parse)) = true := by
  decide +kernel

/-- with the repair the partition needs no hypothesis: every parsed store is entries ++ free space ++
    reversed table -/
theorem store_partition_parsed (pol : Nat) (b : Bytes) (s : Store) (hp : parseStore pol b = .ok s) :
    b = (s.entries.map (·.buf)).flatten ++ List.replicate (s.gso - s.fso) (UInt8.ofNat pol) ++
        s.guidStore.reverse.flatten :=
  (store_partition pol s b (nv_faithful pol b s hp) (parseStore_fso_le_gso pol b s hp)).1

/-! ### extended header -/

theorem extFields_ok (attrs size : Nat) (buf : Bytes) (hlen : buf.length = size) :
    (extFields attrs size buf).2 = extOk attrs size buf := by
  unfold extFields extOk rdAt
  split
  · rfl
  · simp only []
    split
    · rfl
    · rename_i hes
      split
      · rename_i hnone
        have : size - fromLE (slice buf (size - 2) 2) ≥ size := by
          have := List.getElem?_eq_none_iff.mp hnone; omega
        rw [if_pos this]
      · rename_i xa hsome
        have hlt : size - fromLE (slice buf (size - 2) 2) < buf.length := by
          have := List.getElem?_eq_some_iff.mp hsome; exact this.1
        have : ¬ (size - fromLE (slice buf (size - 2) 2) ≥ size) := by omega
        rw [if_neg this]
        split
        · split
          · rfl
          · split
            · split <;> simp_all
            · rfl
        · rfl

/-- the fields `parseExtendedHeader` reports are the bytes at their documented offsets -/
theorem extFields_at (attrs size : Nat) (buf : Bytes) (hlen : buf.length = size) (h10 : 10 ≤ size)
    (hx : hasBit attrs aExtHdr = true) (hes : rdAt buf (size - 2) 2 ≤ size - 10) :
    ExtF size buf (extFields attrs size buf).1 := by
  have hb1 : ∀ (o : Nat) (c : UInt8), buf[o]? = some c → c.toNat = rdAt buf o 1 := by
    intro o c hc
    obtain ⟨hlt, hget⟩ := List.getElem?_eq_some_iff.mp hc
    unfold rdAt slice
    rw [List.drop_eq_getElem_cons hlt, hget]
    simp [fromLE]
  unfold extFields
  rw [hx]
  simp only [Bool.not_true, Bool.false_eq_true, if_false, hdrSize]
  rw [if_neg (by omega)]
  split
  · unfold ExtF; simp only []
    refine ⟨by omega, by omega, ?_, ?_, ?_, ?_⟩ <;> intro _ hc <;> cases hc
  · rename_i xa hsome
    have hlt : size - rdAt buf (size - 2) 2 < buf.length := (List.getElem?_eq_some_iff.mp hsome).1
    have hxa := hb1 _ _ hsome
    have hck : ∀ c, (if (xa.toNat % 2 == 1) = true then Option.map (fun x => x.toNat) buf[size - 3]? else none) = some c →
        c = rdAt buf (size - 3) 1 := by
      intro c hc
      split at hc
      · match hb : buf[size - 3]?, hc with
        | some y, hc =>
          simp only [Option.map_some, Option.some.injEq] at hc
          rw [← hc]; exact hb1 _ _ hb
      · cases hc
    split
    · split
      · unfold ExtF; simp only []
        refine ⟨by omega, by omega, ?_, hck, ?_, ?_⟩
        · intro a ha; cases ha; exact ⟨by omega, hxa⟩
        · intro _ hc; cases hc
        · intro _ hc; cases hc
      · rename_i h9
        split
        · split
          · rename_i h41
            unfold ExtF; simp only []
            refine ⟨by omega, by omega, ?_, hck, ?_, ?_⟩
            · intro a ha; cases ha; exact ⟨by omega, hxa⟩
            · intro t ht; cases ht
            · intro hsh hh; cases hh; exact ⟨by omega, rfl⟩
          · unfold ExtF; simp only []
            refine ⟨by omega, by omega, ?_, hck, ?_, ?_⟩
            · intro a ha; cases ha; exact ⟨by omega, hxa⟩
            · intro t ht; cases ht
            · intro _ hc; cases hc
        · unfold ExtF; simp only []
          refine ⟨by omega, by omega, ?_, hck, ?_, ?_⟩
          · intro a ha; cases ha; exact ⟨by omega, hxa⟩
          · intro t ht; cases ht
          · intro _ hc; cases hc
    · unfold ExtF; simp only []
      refine ⟨by omega, by omega, ?_, hck, ?_, ?_⟩
      · intro a ha; cases ha; exact ⟨by omega, hxa⟩
      · intro _ hc; cases hc
      · intro _ hc; cases hc

end Fiano.NvFaithful
