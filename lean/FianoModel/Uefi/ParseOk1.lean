/-
  C02 (follow-up wp-c02b), `parse_establishes_TreeOk`, part 1.

  The parser and the independent reader are two readings of the same bytes.  `Faithful` (property
  C04, `parse_faithful`) says where every node of the parsed tree sits in the input and that its
  fields are the bytes there; the reader says which byte strings are valid.  Where the two readings
  of a header differ, the tree is not what the reader checked, and nothing follows for the image
  `Assemble` builds from the tree.  These places are collected in the decidable predicate
  `ReadAlike` (`SecRA`, `FileRA`, `FvRA`):

    * a section of a type `NewSection` does not list (`knownSection`) whose 3-byte size is FFFFFF:
      the specification reads the 32-bit size, fiano clamps FFFFFF to the buffer;
    * (gone since round 3, wp-c02c: a volume whose extended header starts exactly 20 bytes before its
      end — fiano ignored it, finding F-c02b-2; fixed in /repo eaa94dc, `<=`, and in Uefi/Parse.lean
      `fvInfoOf`; the reader's rule "extended header inside the volume" now gives `fvHasExt` directly)
    * a nested (resizable) volume whose block map is not one entry with a power-of-two size: when
      such a volume grows, `Assemble` rewrites `Length` and `Blocks[0].Count` only (the source says:
      "Right now we assume there's only one block entry") and aligns with a bit trick;
  (That an NVAR store hangs only below a RAW file and reports its length is a fact about the parser
  and the hooks: `nvLayers`, Uefi/ParseNv.lean.)

  This file: the predicate, and the inversion lemmas of the reader.
-/
import FianoModel.Uefi.EditValidOps2
import FianoModel.Uefi.FaithfulLemmas
import FianoModel.Uefi.ParseNv

namespace Fiano.Uefi
open Fiano
open EditArith

mutual
def SecRA : Section → Prop
  | .mk i _ encap =>
    (knownSection i.type = true ∨ i.size3 ≠ 0xFFFFFF) ∧ (if i.type = 0x17 then NodesRA encap else True)
def NodesRA : List Node → Prop
  | [.fv v] => FvRA v
  | _ => True
def SecsRA : List Section → Prop
  | [] => True
  | s :: ss => SecRA s ∧ SecsRA ss
def FileRA : File → Prop
  | .mk _ _ secs => SecsRA secs
def FilesRA : List File → Prop
  | [] => True
  | f :: fs => FileRA f ∧ FilesRA fs
def FvRA : Fv → Prop
  | .mk i _ files =>
    (i.resizable = true → ∃ b0 k, i.blocks = [b0] ∧ b0.size = 2 ^ k ∧ k < 32) ∧
    FilesRA files
end

def ElemsRA : List BiosElem → Prop
  | [] => True
  | .pad _ _ :: es => ElemsRA es
  | .fv v :: es => FvRA v ∧ ElemsRA es

/-- **where fiano's reading of a header is the specification's** (decidable, on the parsed tree) -/
def ReadAlike : Tree → Prop
  | .flash f => ∀ b, .bios b ∈ f.regions → ElemsRA b.elems
  | .bios b => ElemsRA b.elems

/-! ### fields -/

theorem rd_eq_fld (b : Bytes) (off n : Nat) : rd b off n = Valid.fld b off n := rfl

theorem fld_take (b : Bytes) (L off n : Nat) (h : off + n ≤ L) : Valid.fld (b.take L) off n = Valid.fld b off n :=
  fld_of_take_eq (b.take L) b L off n (by rw [List.take_take]; simp) h

theorem fld_drop (b : Bytes) (k off n : Nat) : Valid.fld (b.drop k) off n = Valid.fld b (k + off) n := by
  unfold Valid.fld
  rw [List.drop_drop]

theorem allAre_eq_replicate (e : UInt8) (l : Bytes) (h : Valid.allAre e l = true) : l = List.replicate l.length e := by
  induction l with
  | nil => rfl
  | cons x xs ih =>
    unfold Valid.allAre at h ih
    simp only [List.all_cons, Bool.and_eq_true, beq_iff_eq] at h
    rw [List.length_cons, List.replicate_succ, h.1]
    congr 1
    exact ih h.2

theorem fld_of_allAre (e : UInt8) (l : Bytes) (h : Valid.allAre e l = true) (off n : Nat) (hn : off + n ≤ l.length) :
    Valid.fld l off n = fromLE (List.replicate n e) := by
  unfold Valid.fld
  rw [allAre_eq_replicate e l h]
  simp only [List.drop_replicate, List.take_replicate, List.length_replicate]
  congr 2
  omega

/-! ### inversion of the reader -/

theorem secSize_congr (a b : Bytes) (h03 : Valid.fld a 0 3 = Valid.fld b 0 3)
    (h44 : Valid.fld b 0 3 = 0xFFFFFF → Valid.fld a 4 4 = Valid.fld b 4 4) : secSize a = secSize b := by
  unfold secSize
  rw [h03]
  by_cases c : Valid.fld b 0 3 = 0xFFFFFF
  · rw [if_pos c, if_pos c, h44 c]
  · rw [if_neg c, if_neg c]

theorem secHl_congr (a b : Bytes) (h03 : Valid.fld a 0 3 = Valid.fld b 0 3) (h31 : Valid.fld a 3 1 = Valid.fld b 3 1) :
    secHl a = secHl b := by
  unfold secHl; rw [h03, h31]

/-- one step of the reader's section walk, read backwards -/
theorem sectionsOk_inv (f : Nat) (body : Bytes) (off : Nat) (h : Valid.sectionsOk (f + 1) body off = true)
    (hoff : off < body.length) :
    off % 4 = 0 ∧ secSize (body.drop off) ≤ (body.drop off).length ∧
    SecBytesOk ((body.drop off).take (secSize (body.drop off))) ∧
    Valid.sectionsOk f body (Valid.alignUp (off + secSize (body.drop off)) 4) = true := by
  rw [Valid.sectionsOk] at h
  rw [if_neg (by omega)] at h
  by_cases h4 : off % 4 ≠ 0
  · rw [if_pos h4] at h; cases h
  · rw [if_neg h4] at h
    by_cases hfit4 : off + 4 > body.length
    · rw [if_pos hfit4] at h; cases h
    · rw [if_neg hfit4] at h
      simp only at h
      by_cases hext8 : Valid.fld body off 3 = 0xFFFFFF ∧ off + 8 > body.length
      · rw [if_pos hext8] at h; cases h
      · rw [if_neg hext8] at h
        by_cases hhl : (if Valid.fld body off 3 = 0xFFFFFF then Valid.fld body (off + 4) 4 else Valid.fld body off 3) <
            (if Valid.fld body off 3 = 0xFFFFFF then 8 else 4) + (if Valid.fld body (off + 3) 1 = 0x02 then 20 else 0)
        · rw [if_pos hhl] at h; cases h
        · rw [if_neg hhl] at h
          by_cases hfit : off + (if Valid.fld body off 3 = 0xFFFFFF then Valid.fld body (off + 4) 4 else Valid.fld body off 3) >
              body.length
          · rw [if_pos hfit] at h; cases h
          · rw [if_neg hfit] at h
            simp only [Bool.and_eq_true] at h
            generalize hctx : body.drop off = ctx at *
            have hcl : ctx.length = body.length - off := by rw [← hctx]; simp
            have f03 : Valid.fld body off 3 = Valid.fld ctx 0 3 := by rw [← hctx, fld_drop]; rfl
            have f31 : Valid.fld body (off + 3) 1 = Valid.fld ctx 3 1 := by rw [← hctx, fld_drop]
            have f44 : Valid.fld body (off + 4) 4 = Valid.fld ctx 4 4 := by rw [← hctx, fld_drop]
            simp only [f03, f31, f44] at h hhl hfit hext8
            have hsz : secSize ctx = (if Valid.fld ctx 0 3 = 0xFFFFFF then Valid.fld ctx 4 4 else Valid.fld ctx 0 3) := rfl
            have hhl' : secHl ctx = (if Valid.fld ctx 0 3 = 0xFFFFFF then 8 else 4) + (if Valid.fld ctx 3 1 = 0x02 then 20 else 0) := rfl
            simp only [← hsz, ← hhl'] at h hhl hfit
            have hhl4 : 4 ≤ secHl ctx := by rw [hhl']; split <;> omega
            have hhl8 : Valid.fld ctx 0 3 = 0xFFFFFF → 8 ≤ secHl ctx := by
              intro c; rw [hhl', if_pos c]; omega
            -- the fields of the clipped section are those of the context
            have g03 : Valid.fld (ctx.take (secSize ctx)) 0 3 = Valid.fld ctx 0 3 := fld_take _ _ _ _ (by omega)
            have g31 : Valid.fld (ctx.take (secSize ctx)) 3 1 = Valid.fld ctx 3 1 := fld_take _ _ _ _ (by omega)
            have g44 : Valid.fld ctx 0 3 = 0xFFFFFF → Valid.fld (ctx.take (secSize ctx)) 4 4 = Valid.fld ctx 4 4 := by
              intro c; have := hhl8 c; exact fld_take _ _ _ _ (by omega)
            have hsz' : secSize (ctx.take (secSize ctx)) = secSize ctx := secSize_congr _ _ g03 g44
            have hhl'' : secHl (ctx.take (secSize ctx)) = secHl ctx := secHl_congr _ _ g03 g31
            have hlen : (ctx.take (secSize ctx)).length = secSize ctx := by
              rw [List.length_take]; omega
            refine ⟨by omega, by omega, ⟨by omega, fun c => by rw [g03] at c; have := hhl8 c; omega, by rw [hsz', hlen],
              by rw [hhl'', hlen]; omega, fun c => ?_⟩, h.2⟩
            rw [g31] at c
            rw [if_pos c] at h
            rw [hhl'']
            refine ⟨f, ?_⟩
            have e : (ctx.take (secSize ctx)).drop (secHl ctx) = (List.drop (off + secHl ctx) body).take (secSize ctx - secHl ctx) := by
              rw [List.drop_take, ← hctx, List.drop_drop]
            rw [e]
            exact h.1

/-- the reader's check of one file, read backwards -/
theorem fileOk_inv (f : Nat) (fb : Bytes) (o : Nat) (h : Valid.fileOk (f + 1) fb o = true) :
    ∃ hl, Valid.fileSize fb = some (fb.length, hl) ∧ hl ≤ fb.length ∧
      (Valid.sectioned (Valid.fld fb 18 1) = true → Valid.sectionsOk f (fb.drop hl) 0 = true) := by
  unfold Valid.fileOk at h
  split at h
  · cases h
  · rename_i size hl heq
    simp only [Bool.and_eq_true, decide_eq_true_eq] at h
    obtain ⟨⟨⟨⟨⟨a1, a2⟩, _⟩, _⟩, _⟩, a6⟩ := h
    refine ⟨hl, by rw [heq, a1], by omega, fun c => ?_⟩
    rw [if_pos c] at a6
    exact a6

/-- one step of the reader's file walk, read backwards, at a place where a file header fits and is
    not erased -/
theorem filesOk_inv (f : Nat) (fv : Bytes) (e : UInt8) (off : Nat) (h : Valid.filesOk (f + 1) fv e off = true)
    (hfit : Valid.alignUp off 8 + 24 ≤ fv.length)
    (hlive : Valid.allAre e ((fv.drop (Valid.alignUp off 8)).take 24) = false) :
    ∃ size hl, Valid.fileSize (fv.drop (Valid.alignUp off 8)) = some (size, hl) ∧ hl ≤ size ∧
      Valid.alignUp off 8 + size ≤ fv.length ∧
      Valid.fileOk f ((fv.drop (Valid.alignUp off 8)).take size) (Valid.alignUp off 8) = true ∧
      Valid.filesOk f fv e (Valid.alignUp off 8 + size) = true := by
  rw [Valid.filesOk] at h
  by_cases h1 : off > fv.length
  · rw [if_pos h1] at h; cases h
  · rw [if_neg h1, if_neg (by omega), hlive] at h
    simp only [Bool.false_eq_true, if_false, Bool.and_eq_true] at h
    have h' := h.2
    split at h'
    · cases h'
    · rename_i size hl heq
      simp only [Bool.and_eq_true, decide_eq_true_eq] at h'
      exact ⟨size, hl, heq, h'.1.1.1, h'.1.1.2, h'.1.2, h'.2⟩

/-- … and where the reader stops at an erased header, everything behind is erased -/
theorem filesOk_erased (f : Nat) (fv : Bytes) (e : UInt8) (off : Nat) (h : Valid.filesOk (f + 1) fv e off = true)
    (hfit : Valid.alignUp off 8 + 24 ≤ fv.length)
    (hdead : Valid.allAre e ((fv.drop (Valid.alignUp off 8)).take 24) = true) :
    Valid.allAre e (fv.drop off) = true := by
  rw [Valid.filesOk] at h
  by_cases h1 : off > fv.length
  · rw [if_pos h1] at h; cases h
  · rw [if_neg h1, if_neg (by omega), hdead] at h
    simpa using h

end Fiano.Uefi
