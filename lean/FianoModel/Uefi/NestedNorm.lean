/-
  Property C06 — what a save turns an image of the extended grammar into.

  `visitors.Assemble` rebuilds bottom-up: the children of a decoded section are re-joined and
  *re-encoded* (the stored payload is not kept), the section header is regenerated in its canonical
  form, the enclosing file gets its new size and checksums, the enclosing volume is *re-laid*: every
  file is placed by the alignment rule again (pad files are synthesised where a data alignment asks
  for one; the pad files already in the list stay), a nested volume that no longer fits grows to the
  next multiple of its first block size and gets a new block count.

  `norm*` writes this down as a function on the grammar: `normFv h v` is the image that
  `Assemble` produces from `treeFv v` (theorem `asm_fv` in NestedAsm.lean).  Core Lean only.
-/
import FianoModel.Uefi.NestedSpec
import FianoModel.Uefi.NestedPlace

namespace Fiano.Uefi.Nested
open Fiano Fiano.Uefi Fiano.Uefi.Spec

/-- `compressor.Encode(x)` for the section's GUID (`none`: no codec, or the encoder failed) -/
def encode? (h : Hooks) (g : Guid) (x : Bytes) : Option Bytes := (h.codec g).bind (·.encode x)

/-- the file loop of the FirmwareVolume case on the grammar: a pad file in front of every file that
    the alignment rule moves away from the next 8-byte boundary -/
def relay : Nat → List CFile → List CFile
  | _, [] => []
  | off, f :: fs =>
    let attrs := storedAttrs (flatFile f)
    let al := alignUp off 8
    let n := fileStart off attrs
    (if n = al then [] else [CFile.leaf (padLeaf (n - al))]) ++ f :: relay (n + sizeFile (flatFile f)) fs

/-- length and block map after the relayout: unchanged while the files fit, else (nested volumes)
    the next multiple of the first block size and its count -/
def finishLen (length newLen : Nat) (blocks : List Block) : Nat × List Block :=
  if newLen ≤ length then (length, blocks)
  else match blocks with
    | b0 :: bs =>
      let l := alignGo newLen b0.size
      (l, { b0 with count := (l / b0.size) % 4294967296 } :: bs)
    | [] => (length, blocks)

mutual
  def normSec (h : Hooks) : CSec → CSec
    | .plain s => .plain s
    | .opq ext g doff attrs comp body => .opq ext g doff attrs comp body
    | .comp _ g _ attrs name _ kids =>
      .comp false g 24 attrs name ((encode? h g (serSecs 0 (flatSecs (normSecs h kids)))).getD []) (normSecs h kids)
    | .fvimg v => .fvimg (normFv h v)
  def normSecs (h : Hooks) : List CSec → List CSec
    | [] => []
    | s :: ss => normSec h s :: normSecs h ss
  def normFile (h : Hooks) : CFile → CFile
    | .leaf f => .leaf f
    | .sect g t a st secs => .sect g t a st (normSecs h secs)
  def normFiles (h : Hooks) : List CFile → List CFile
    | [] => []
    | f :: fs => normFile h f :: normFiles h fs
  def normFv (h : Hooks) : CFv → CFv
    | .ffs zv v3 attrs rev rsv blocks ext files free =>
      let pre := preLen blocks ext
      let files' := relay pre (normFiles h files)
      let e := endFiles pre (flatFiles files')
      let l := endFiles pre (flatFiles files) + free
      .ffs zv v3 attrs rev rsv (finishLen l e blocks).2 ext files' ((finishLen l e blocks).1 - e)
    | .other v => .other v
end

/-! ### when the rebuild goes through (no encoder error, nothing out of space, short headers) -/

mutual
  def okSec (h : Hooks) : CSec → Bool
    | .plain _ => true
    | .opq .. => true
    | .comp _ g _ _ _ _ kids =>
      okSecs h kids &&
        (match encode? h g (serSecs 0 (flatSecs (normSecs h kids))) with
         | some p => small (24 + p.length)
         | none => false) &&
        decide (sizeSecs 0 (flatSecs (normSecs h kids)) < 2 ^ 62)
    | .fvimg v => okFv h true v && small (sizeFv (flatFv (normFv h v)) + 4)
  def okSecs (h : Hooks) : List CSec → Bool
    | [] => true
    | s :: ss => okSec h s && okSecs h ss
  def okFile (h : Hooks) : CFile → Bool
    | .leaf _ => true
    | .sect _ _ _ _ secs => okSecs h secs && small (24 + sizeSecs 0 (flatSecs (normSecs h secs)))
  def okFiles (h : Hooks) : List CFile → Bool
    | [] => true
    | f :: fs => okFile h f && okFiles h fs
  /-- `rz` = the volume may grow (nested) -/
  def okFv (h : Hooks) (rz : Bool) : CFv → Bool
    | .ffs _ _ _ _ _ blocks ext files free =>
      let pre := preLen blocks ext
      let files' := relay pre (normFiles h files)
      let e := endFiles pre (flatFiles files')
      let l := endFiles pre (flatFiles files) + free
      okFiles h files && decide (e < 2 ^ 62) && padsSmall pre (normFiles h files) &&
        (decide (e ≤ l) ||
          -- a nested volume grows to the next multiple of its first block size: that length has to be
          -- a multiple of 8 below 2^62 again (automatic for a power-of-two block size ≥ 8)
          (rz && (match blocks with
                  | b0 :: _ => b0.size != 0 && decide (e ≤ alignGo e b0.size) &&
                      decide (alignGo e b0.size % 8 = 0) && decide (alignGo e b0.size < 0x4000000000000000)
                  | [] => false)))
    | .other _ => true
where
  /-- every synthesised pad file is shorter than 16 MiB -/
  padsSmall : Nat → List CFile → Bool
    | _, [] => true
    | off, f :: fs =>
      let n := fileStart off (storedAttrs (flatFile f))
      small (n - alignUp off 8) && padsSmall (n + sizeFile (flatFile f)) fs
end

/-! ### canonical images: what a save has written -/

mutual
  def canonSec (h : Hooks) : CSec → Bool
    | .plain _ => true
    | .opq .. => true
    | .comp ext g doff _ _ payload kids =>
      !ext && doff == 24 && encode? h g (serSecs 0 (flatSecs kids)) == some payload && canonSecs h kids
    | .fvimg v => canonFv h v
  def canonSecs (h : Hooks) : List CSec → Bool
    | [] => true
    | s :: ss => canonSec h s && canonSecs h ss
  def canonFile (h : Hooks) : CFile → Bool
    | .leaf _ => true
    | .sect _ _ _ _ secs => canonSecs h secs
  def canonFiles (h : Hooks) : List CFile → Bool
    | [] => true
    | f :: fs => canonFile h f && canonFiles h fs
  def canonFv (h : Hooks) : CFv → Bool
    | .ffs _ _ _ _ _ _ _ files _ => canonFiles h files
    | .other _ => true
end

end Fiano.Uefi.Nested
