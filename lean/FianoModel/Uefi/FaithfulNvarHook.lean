/-
  Property C04 — the NVAR hook of the shared UEFI parser instantiated with C10's model of `NewNVarStore`
  (definitions only: used by the theorems of FaithfulNvarTree.lean and by the driver).
-/
import FianoModel.Uefi.Parse
import FianoModel.Nvram.Model

namespace Fiano.Uefi
open Fiano

/-- the projection the shared tree keeps of a store -/
def nvProj (s : Nvram.Store) : NvStore := ⟨s.buf, s.length⟩

/-- C10's `NewNVarStore` as the hook wants it -/
def nvParseC10 (pol : UInt8) (body : Bytes) : Option NvStore :=
  match Nvram.parseStore pol.toNat body with
  | .ok s => some (nvProj s)
  | .error _ => none

/-- the NVAR hook of `h` is C10's `NewNVarStore` under erase polarity `pol` -/
def Hooks.NvIsC10 (h : Hooks) (pol : UInt8) : Prop := ∀ body, h.nvarParse body = nvParseC10 pol body

/-- any hooks, with the NVAR parser replaced by C10's under polarity `pol` -/
def nvHooks (h : Hooks) (pol : UInt8) : Hooks := { h with nvarParse := nvParseC10 pol }

theorem nvHooks_isC10 (h : Hooks) (pol : UInt8) : (nvHooks h pol).NvIsC10 pol := fun _ => rfl

/-- `NewNVarStore` on the body of a RAW file with the NVAR GUID -/
def nvStoreOf (pol : UInt8) (type : Nat) (guid : Guid) (buf : Bytes) (dataOffset : Nat) : Option Nvram.Store :=
  if type = 1 ∧ guid = guidNVAR then
    match Nvram.parseStore pol.toNat (buf.drop dataOffset) with
    | .ok s => some s
    | .error _ => none
  else none

/-- the NVAR store of a file node, re-derived from the node's own bytes -/
def File.nvStore (pol : UInt8) (f : File) : Option Nvram.Store :=
  nvStoreOf pol f.info.type f.info.guid f.buf f.info.dataOffset

/-- `uefi.Parse` with C10's `NewNVarStore` as the NVAR parser — the function the driver runs.  The NVAR
    parser needs the erase polarity in force, which the parse itself fixes (first volume): parse under
    0xFF; when the run ends with another polarity, parse again under that one and answer only if the second
    run ends with the polarity it assumed.  `.error none` = the two runs disagree on the polarity (never
    observed; that it cannot happen — the outcome of `Parse` does not depend on the NVAR hook — is not
    proved).  Returns the tree and the polarity its NVAR stores were parsed under. -/
def parseC10 (h0 : Hooks) (fuel : Nat) (b : Bytes) (st : St) : Except (Option Err) (Tree × UInt8) :=
  match parseWith (nvHooks h0 0xFF) fuel b st with
  | .error e => .error (some e)
  | .ok (t, st1) =>
    if st1.pol = 0xFF ∨ st1.pol = 0xF0 then .ok (t, 0xFF)   -- 0xF0: no volume, hence no NVAR store, was parsed
    else
      match parseWith (nvHooks h0 st1.pol) fuel b st with
      | .error e => .error (some e)
      | .ok (t2, st2) => if st2.pol = st1.pol then .ok (t2, st1.pol) else .error none

end Fiano.Uefi
