/-
  Property C06 — parse ∘ ser = tree on the extended grammar (mutual induction over the grammar,
  following Lemmas/ParseMain.lean; new: GUID-defined sections that are decoded).
-/
import FianoModel.Uefi.NestedSize

namespace Fiano.Uefi.Nested
open Fiano Fiano.Uefi Fiano.Uefi.Spec

variable {h : Hooks}

/-- `uefi.NewSection` on a GUID-defined section, up to the point where the hooks come in -/
theorem parseSection_guided_step (ext : Bool) (g : Guid) (doff attrs : Nat) (body rest : Bytes) (fuel ord : Nat)
    (st : St) (hg : g.length = 16) (hdo : doff < 65536) (hat : attrs < 65536)
    (hsz : secSizeOk ext (secHdrLen ext + 20 + body.length) = true) :
    parseSection h (fuel + 1) (serSec (.guided ext g doff attrs body) ++ rest) ord st =
      (let buf := serSec (.guided ext g doff attrs body) ++ rest
       let sbuf := serSec (.guided ext g doff attrs body)
       let i : SecInfo := secInfoOf 0x02 ext (secHdrLen ext + 20 + body.length) ord
       if attrs &&& 1 ≠ 0 ∧ ¬ h.disableDecompression then
         match h.codec g with
         | some c =>
           if doff > buf.length then .error .err else
           match c.decode (buf.drop doff) with
           | some enc =>
             match parseEncap h fuel enc 0 0 st with
             | .error e => .error e
             | .ok (ns, st') => .ok (mkSection { i with ts := some ⟨g, doff, attrs, c.name⟩ } sbuf ns, st')
           | none => .ok (mkSection { i with ts := some ⟨g, doff, attrs, "UNKNOWN"⟩ } sbuf [], st)
         | none => .ok (mkSection { i with ts := some ⟨g, doff, attrs, "UNKNOWN"⟩ } sbuf [], st)
       else .ok (mkSection { i with ts := some ⟨g, doff, attrs, ""⟩ } sbuf [], st)) := by
  have e : serSec (.guided ext g doff attrs body) ++ rest =
      secHdr 0x02 ext (secHdrLen ext + 20 + body.length) ++ (g ++ (leN 2 doff ++ (leN 2 attrs ++ (body ++ rest)))) := by
    simp [serSec]
  have hlen : (serSec (.guided ext g doff attrs body)).length = secHdrLen ext + 20 + body.length :=
    length_guided ext g doff attrs body hg
  have hh := secHeader_ser 0x02 ext (secHdrLen ext + 20 + body.length)
    (g ++ (leN 2 doff ++ (leN 2 attrs ++ (body ++ rest)))) (by decide) (fun _ => by decide) hsz
    (by simp [secHdr_length, hg]; omega) (by omega)
  have rg : slice (secHdr 0x02 ext (secHdrLen ext + 20 + body.length) ++
      (g ++ (leN 2 doff ++ (leN 2 attrs ++ (body ++ rest))))) (secHdrLen ext) 16 = g := by
    have := slice_append_skip (secHdr 0x02 ext (secHdrLen ext + 20 + body.length))
      (g ++ (leN 2 doff ++ (leN 2 attrs ++ (body ++ rest)))) (secHdrLen ext) 0 16 (secHdr_length _ _ _)
    simp only [Nat.add_zero] at this
    rw [this]; exact slice_prefix g _ 16 hg
  have rdo : rd (secHdr 0x02 ext (secHdrLen ext + 20 + body.length) ++
      (g ++ (leN 2 doff ++ (leN 2 attrs ++ (body ++ rest))))) (secHdrLen ext + 16) 2 = doff := by
    rw [rd_append_skip _ _ _ 16 2 (secHdr_length _ _ _), show (16:Nat) = 16 + 0 from rfl,
      rd_append_skip _ _ 16 0 2 hg]
    exact rd_leN_prefix 2 doff _ (by simpa using hdo)
  have rat : rd (secHdr 0x02 ext (secHdrLen ext + 20 + body.length) ++
      (g ++ (leN 2 doff ++ (leN 2 attrs ++ (body ++ rest))))) (secHdrLen ext + 18) 2 = attrs := by
    rw [rd_append_skip _ _ _ 18 2 (secHdr_length _ _ _), show (18:Nat) = 16 + 2 from rfl,
      rd_append_skip _ _ 16 2 2 hg, show (2:Nat) = 2 + 0 from rfl, rd_append_skip _ _ 2 0 2 (leN_length 2 doff)]
    exact rd_leN_prefix 2 attrs _ (by simpa using hat)
  rw [e, parseSection, hh]
  simp only [if_true, rg, rdo, rat]
  rw [if_neg (by simp [secHdr_length, hg]; omega)]
  rw [← e, take_left_len _ _ _ hlen]
  rfl

theorem secSizeOk_small (ext : Bool) (n : Nat) (hs : n < 0xFFFFFF) : secSizeOk ext n = true := by
  unfold secSizeOk; split <;> simp <;> omega

/-- a section of the codec-free grammar that holds no volume is read the same way whatever the hooks
    (a GUID-defined one is not decoded: no processing bit, or a GUID nobody has a codec for) -/
theorem parse_plain (hk : HooksOK h) : ∀ (s : SecI), Spec.wfSec s = true → noVol s = true →
    ∀ (fuel : Nat) (rest : Bytes) (ord : Nat) (st : St),
    parseSection h (fuel + 1) (serSec s ++ rest) ord st = .ok (Spec.treeSec s ord, st)
  | .leaf t ext body, hw, _, fuel, rest, ord, st => NestedBase.parseSection_leaf t ext body rest fuel ord st hw
  | .ui name, hw, _, fuel, rest, ord, st => NestedBase.parseSection_ui name rest fuel ord st hw
  | .version build ver, hw, _, fuel, rest, ord, st => NestedBase.parseSection_version build ver rest fuel ord st hw
  | .depex t ops, hw, _, fuel, rest, ord, st => NestedBase.parseSection_depex t ops rest fuel ord st hw
  | .fvimg fv, _, hn, _, _, _, _ => by simp [noVol] at hn
  | .guided ext g doff attrs body, hw, _, fuel, rest, ord, st => by
    simp only [Spec.wfSec, Bool.and_eq_true, decide_eq_true_eq, beq_iff_eq, Bool.or_eq_true, Bool.not_eq_true'] at hw
    obtain ⟨⟨⟨⟨hg, hdo⟩, hat⟩, hcod⟩, hsz⟩ := hw
    rw [parseSection_guided_step ext g doff attrs body rest fuel ord st hg hdo hat hsz]
    simp only [Spec.treeSec, mkSection]
    by_cases ha : attrs &&& 1 ≠ 0
    · have hno : h.codec g = none := by
        rcases hcod with hc | hc
        · exact absurd hc ha
        · exact hk.2 g hc
      rw [if_pos ⟨ha, by simp [hk.1]⟩, hno, if_pos ha]
    · rw [if_neg (fun hc => ha hc.1), if_neg ha]

theorem alignUp0 : alignUp 0 4 = 0 := by decide

theorem treeSec_extSize (s : CSec) (idx : Nat) (tail : Bytes) (hw : wfSec h tail s = true) :
    (treeSec s idx).info.extSize = sizeSec (flatSec s) := by
  cases s with
  | plain s =>
    simp only [wfSec, Bool.and_eq_true] at hw
    exact Uefi.treeSec_extSize s idx hw.1.1
  | opq ext g doff attrs comp body => simp [treeSec, guidedInfo, Section.info, secInfoOf, flatSec, sizeSec]
  | comp ext g doff attrs name payload kids => simp [treeSec, guidedInfo, Section.info, secInfoOf, flatSec, sizeSec]
  | fvimg v => simp [treeSec, Section.info, canonInfo_eq, secInfoOf, flatSec, sizeSec, canonSecSize_eq]

theorem treeFile_extSize (f : CFile) (hw : wfFile h f = true) :
    (treeFile f).info.extSize = sizeFile (flatFile f) := by
  cases f with
  | leaf f =>
    simp only [wfFile, Bool.and_eq_true] at hw
    exact Uefi.treeFile_extSize f hw.1.1.1
  | sect g t a st secs =>
    simp only [treeFile, Spec.treeFile, File.info, flatFile, sizeFile, decide_eq_true_eq]
    split <;> simp_all

/-- a verbatim file is read the same way whatever the hooks -/
theorem parse_leaf_file : ∀ (f : FileI), Spec.wfFile f = true → isLeafFile f = true →
    ∀ (fuel : Nat) (rest : Bytes) (st : St), 2 ≤ fuel →
    parseFile h fuel (serFile f ++ rest) st = .ok (some (Spec.treeFile f), st)
  | .sect .., _, hl, _, _, _, _ => by simp [isLeafFile] at hl
  | .leaf g ckh ckf t a stt ext body, hw, _, fuel, rest, st, hf => by
    obtain ⟨f, rfl⟩ : ∃ f, fuel = f + 1 := ⟨fuel - 1, by omega⟩
    obtain ⟨f', rfl⟩ : ∃ f', f = f' + 1 := ⟨f - 1, by omega⟩
    have w := wfFile_leaf hw
    have hlen := Spec.length_serFile _ hw
    simp only [sizeFile] at hlen
    have hh := fileHeader_ser g (byte ckh) (byte ckf) t a ext ((if ext then 32 else 24) + body.length) stt
      (body ++ rest) w.hg w.ht w.ha w.hst
      (by have := w.hsize; cases ext <;> simp_all <;> omega)
      (by simp [fileHdr_length _ _ _ _ _ _ _ _ w.hg])
    have e : serFile (.leaf g ckh ckf t a stt ext body) ++ rest =
        fileHdr g (byte ckh) (byte ckf) t a ext ((if ext then 32 else 24) + body.length) stt ++ (body ++ rest) := by
      simp [serFile]
    have hc1 : ¬ ((if ext then 32 else 24) + body.length >
        (fileHdr g (byte ckh) (byte ckf) t a ext ((if ext then 32 else 24) + body.length) stt ++ (body ++ rest)).length) := by
      simp [fileHdr_length _ _ _ _ _ _ _ _ w.hg]
    rw [e, parseFile, hh]
    simp only [byte_toNat ckh w.hckh, byte_toNat ckf w.hckf, hc1, w.hnvar, if_false]
    rw [← e, take_left_len _ _ _ hlen]
    rcases w.hleaf with hl | hb
    · simp only [hl, Bool.false_eq_true, not_false_eq_true, if_true]
      rfl
    · subst hb
      by_cases hs : supportedFile t = true
      · simp only [hs, not_true_eq_false, if_false]
        rw [parseSections, if_neg (show ¬ (if ext then 32 else 24) < (if ext then 32 else 24) + ([] : Bytes).length by
          simp)]
        rfl
      · simp only [hs, not_false_eq_true, if_true]
        rfl

theorem tailSecs0 (ss : List SecI) : tailSecs 0 ss = serSecs 0 ss := by
  simp [tailSecs, alignUp0]

theorem sizeFv_ge64 (v : CFv) (hw : wfFv h v = true) : 64 ≤ sizeFv (flatFv v) := by
  cases v with
  | ffs zv v3 attrs rev rsv blocks ext files free => exact (wfFv_ffs hw).1.hlen64
  | other v =>
    simp only [wfFv, Bool.and_eq_true] at hw
    cases v with
    | ffs zv v3 attrs rev rsv blocks ext files free => simp [isOtherFv] at hw
    | other zv g attrs rev rsv blocks body => simp only [flatFv, sizeFv, fvHdrLen]; omega

/-- a volume of another file system is read the same way whatever the hooks -/
theorem parse_other_fv : ∀ (v : FvI), Spec.wfFv v = true → isOtherFv v = true →
    ∀ (fuel : Nat) (rest : Bytes) (off : Nat) (rz : Bool) (st : St), 1 ≤ fuel → (st.pol = 0xFF ∨ st.pol = 0xF0) →
    parseFv h fuel (serFv v ++ rest) off rz st = .ok (Spec.treeFv v off rz, { st with pol := 0xFF })
  | .ffs .., _, ho, _, _, _, _, _, _, _ => by simp [isOtherFv] at ho
  | .other zv g attrs rev rsv blocks body, hw, _, fuel, rest, off, rz, st, hf, hp => by
    obtain ⟨fu, rfl⟩ : ∃ f, fuel = f + 1 := ⟨fuel - 1, by omega⟩
    have w := wfFv_other hw
    have hlen := Spec.length_serFv _ hw
    simp only [sizeFv] at hlen
    have hinfo := fvInfoOf_other zv g attrs rev rsv blocks body rest off rz w
    have hblocks := fv_readBlocks_other zv g attrs rev rsv blocks body rest w
    rw [parseFv, if_neg (by simp only [List.length_append, hlen, fvHdrLen]; omega), hblocks]
    simp only [hinfo, Spec.treeFv, Fv.info]
    rw [if_neg (show ¬ (56 + 8 * (blocks.length + 1) > fvHdrLen blocks + body.length) by
      simp only [fvHdrLen]; omega)]
    rw [setPolarity_ff attrs st w.hpol hp]
    dsimp only
    have hfit : ¬ (fvHdrLen blocks + body.length >
        (serFv (.other zv g attrs rev rsv blocks body) ++ rest).length) := by
      simp only [List.length_append, hlen]; omega
    simp only [hfit, if_false]
    rw [take_left_len _ _ _ hlen, if_pos ⟨w.hne2, w.hne3⟩]

set_option maxHeartbeats 1600000 in
mutual

theorem parse_sec (hk : HooksOK h) : ∀ (s : CSec) (tail : Bytes), wfSec h tail s = true →
    ∀ (fuel : Nat) (ord : Nat) (st : St), costSec s ≤ fuel → st.pol = 0xFF →
    parseSection h fuel (serSec (flatSec s) ++ tail) ord st = .ok (treeSec s ord, st)
  | .plain s, tail, hw, fuel, ord, st, hf, _ => by
    obtain ⟨f, rfl, _⟩ := fuel_succ hf (by simp only [costSec]; omega)
    simp only [wfSec, Bool.and_eq_true] at hw
    exact parse_plain hk s hw.1.1 hw.1.2 f tail ord st
  | .opq ext g doff attrs comp body, tail, hw, fuel, ord, st, hf, _ => by
    obtain ⟨f, rfl, hf'⟩ := fuel_succ hf (by simp only [costSec]; omega)
    simp only [costSec] at hf'
    obtain ⟨f', rfl, _⟩ := fuel_succ hf' (by decide)
    simp only [wfSec, Bool.and_eq_true] at hw
    obtain ⟨hgo, hcod⟩ := hw
    have w := guidedOk_spec hgo
    have hlen := length_guided ext g doff attrs body w.hg
    simp only [flatSec]
    rw [parseSection_guided_step ext g doff attrs body tail (f' + 1) ord st w.hg w.hdoff w.hattrs
      (secSizeOk_small _ _ w.hsmall)]
    simp only []
    rw [if_pos ⟨w.hbit, by simp [hk.1]⟩]
    cases hc : h.codec g with
    | none => rw [hc] at hcod; simp at hcod
    | some c =>
      rw [hc] at hcod
      simp only [decoderInput, Bool.or_eq_true, Bool.and_eq_true, beq_iff_eq] at hcod
      dsimp only
      rw [if_neg (by simp only [List.length_append, hlen]; have := w.hle; omega)]
      rcases hcod with ⟨hd, hn⟩ | ⟨hd, hn⟩
      · rw [hd, hn]; rfl
      · rw [hd, hn]
        dsimp only
        simp only [parseEncap, List.length_nil, Nat.lt_irrefl, if_false]
        rfl
  | .comp ext g doff attrs name payload kids, tail, hw, fuel, ord, st, hf, hp => by
    obtain ⟨f, rfl, hf'⟩ := fuel_succ hf (by simp only [costSec]; omega)
    simp only [costSec, Nat.add_sub_cancel_left] at hf'
    simp only [wfSec, Bool.and_eq_true, decide_eq_true_eq] at hw
    obtain ⟨⟨⟨⟨hgo, _⟩, hcod⟩, hkids⟩, hbound⟩ := hw
    have w := guidedOk_spec hgo
    have hlen := length_guided ext g doff attrs payload w.hg
    simp only [flatSec]
    rw [parseSection_guided_step ext g doff attrs payload tail f ord st w.hg w.hdoff w.hattrs
      (secSizeOk_small _ _ w.hsmall)]
    simp only []
    rw [if_pos ⟨w.hbit, by simp [hk.1]⟩]
    cases hc : h.codec g with
    | none => rw [hc] at hcod; simp at hcod
    | some c =>
      rw [hc] at hcod
      simp only [decoderInput, Bool.and_eq_true, beq_iff_eq] at hcod
      obtain ⟨hn, hd⟩ := hcod
      dsimp only
      rw [if_neg (by simp only [List.length_append, hlen]; have := w.hle; omega), hd]
      have hl := length_serSecs kids 0 hkids
      simp only [Nat.zero_add] at hl
      have := parse_encap hk kids 0 hkids f (serSecs 0 (flatSecs kids)) 0 st hf' hp hbound
        (by rw [alignUp0, tailSecs0]; rfl) hl
      rw [alignUp0] at this
      dsimp only
      rw [this, hn]
      rfl
  | .fvimg v, tail, hw, fuel, ord, st, hf, hp => by
    obtain ⟨f, rfl, hf'⟩ := fuel_succ hf (by simp only [costSec]; omega)
    simp only [costSec, Nat.add_sub_cancel_left] at hf'
    simp only [wfSec, small, Bool.and_eq_true, decide_eq_true_eq] at hw
    have hl := length_serFv v hw.1
    have hh := secHeader_canon 0x17 (serFv (flatFv v)) tail (by decide) (by decide) (by rw [hl]; omega)
    have hfv := parse_fv hk v hw.1 f [] 0 true st hf' (Or.inl hp)
    have hpos := sizeFv_ge64 v hw.1
    have hst : ({ st with pol := 0xFF } : St) = st := by cases st; simp_all
    rw [List.append_nil, hst] at hfv
    simp only [flatSec, serSec, treeSec]
    rw [parseSection, hh]
    simp only [show (0x17 : Nat) ≠ 0x02 by decide, show (0x17 : Nat) ≠ 0x15 by decide,
      show (0x17 : Nat) ≠ 0x14 by decide, if_false, if_true]
    rw [canon_take, canon_drop, canonSec_length, canonSecSize_eq, if_neg (by rw [hl]; omega), hfv, canonInfo_eq, hl]
    rfl

theorem parse_encap (hk : HooksOK h) : ∀ (ss : List CSec) (u : Nat), wfSecs h u ss = true →
    ∀ (fuel : Nat) (enc : Bytes) (idx : Nat) (st : St),
    costSecs ss ≤ fuel → st.pol = 0xFF → sizeSecs u (flatSecs ss) < 2 ^ 62 →
    enc.drop (alignUp u 4) = tailSecs u (flatSecs ss) → enc.length = sizeSecs u (flatSecs ss) →
    parseEncap h fuel enc (alignUp u 4) idx st = .ok (treeNodes ss idx, st)
  | [], u, _, fuel, enc, idx, st, hf, _, _, _, hlen => by
    obtain ⟨f, rfl, _⟩ := fuel_succ hf (by simp only [costSecs]; omega)
    have := alignUp_ge u 4 (by decide)
    rw [parseEncap, if_neg (show ¬ alignUp u 4 < enc.length by simp only [hlen, flatSecs, sizeSecs]; omega)]
    rfl
  | s :: ss, u, hw, fuel, enc, idx, st, hf, hp, hlt, hd, hlen => by
    obtain ⟨f, rfl, hf'⟩ := fuel_succ hf (by simp only [costSecs]; omega)
    simp only [costSecs] at hf'
    have ⟨hs, hss⟩ := wfSecs_cons hw
    have hge := alignUp_ge u 4 (by decide)
    have hpos := serSec_pos (flatSec s)
    have hsz := sizeSecs_ge (flatSecs ss) (alignUp u 4 + sizeSec (flatSec s))
    simp only [flatSecs, sizeSecs] at hlt hlen hd ⊢
    rw [parseEncap, if_pos (show alignUp u 4 < enc.length by omega), hd, tailSecs_cons]
    have hsplit : serSec (flatSec s) ++ serSecs (alignUp u 4 + sizeSec (flatSec s)) (flatSecs ss) =
        serSec (flatSec s) ++ serSecs (alignUp u 4 + sizeSec (flatSec s)) (flatSecs ss) := rfl
    rw [parse_sec hk s _ hs f idx st (by omega) hp]
    simp only [treeSec_extSize s idx _ hs]
    rw [if_neg (show ¬ sizeSec (flatSec s) = 0 by omega)]
    have hnext : align4 (alignUp u 4 + sizeSec (flatSec s)) = alignUp (alignUp u 4 + sizeSec (flatSec s)) 4 := by
      rw [align4_eq _ (by omega)]
    rw [hnext]
    have hd' : enc.drop (alignUp (alignUp u 4 + sizeSec (flatSec s)) 4) =
        tailSecs (alignUp u 4 + sizeSec (flatSec s)) (flatSecs ss) := by
      have e : alignUp (alignUp u 4 + sizeSec (flatSec s)) 4 =
          (alignUp u 4) + (sizeSec (flatSec s) + (alignUp (alignUp u 4 + sizeSec (flatSec s)) 4 -
            (alignUp u 4 + sizeSec (flatSec s)))) := by
        have := alignUp_ge (alignUp u 4 + sizeSec (flatSec s)) 4 (by decide); omega
      rw [e, ← List.drop_drop, hd, tailSecs_cons, ← List.drop_drop,
        drop_append_len _ _ _ (length_serSec s _ hs)]
      rfl
    rw [parse_encap hk ss (alignUp u 4 + sizeSec (flatSec s)) hss f enc (idx + 1) st (by omega) hp hlt hd' hlen]
    rfl

theorem parse_secs (hk : HooksOK h) : ∀ (ss : List CSec) (u : Nat), wfSecs h u ss = true →
    ∀ (fuel : Nat) (fbuf : Bytes) (hl idx : Nat) (st : St),
    costSecs ss ≤ fuel → st.pol = 0xFF → hl % 4 = 0 → hl + sizeSecs u (flatSecs ss) < 2 ^ 62 →
    fbuf.drop (hl + alignUp u 4) = tailSecs u (flatSecs ss) →
    parseSections h fuel fbuf (hl + alignUp u 4) (hl + sizeSecs u (flatSecs ss)) idx st = .ok (treeSecs ss idx, st)
  | [], u, _, fuel, fbuf, hl, idx, st, hf, _, _, _, _ => by
    obtain ⟨f, rfl, _⟩ := fuel_succ hf (by simp only [costSecs]; omega)
    have := alignUp_ge u 4 (by decide)
    rw [parseSections, if_neg (show ¬ hl + alignUp u 4 < hl + sizeSecs u (flatSecs []) by
      simp only [flatSecs, sizeSecs]; omega)]
    rfl
  | s :: ss, u, hw, fuel, fbuf, hl, idx, st, hf, hp, h4, hlt, hd => by
    obtain ⟨f, rfl, hf'⟩ := fuel_succ hf (by simp only [costSecs]; omega)
    simp only [costSecs] at hf'
    have ⟨hs, hss⟩ := wfSecs_cons hw
    have hge := alignUp_ge u 4 (by decide)
    have hpos := serSec_pos (flatSec s)
    have hsz := sizeSecs_ge (flatSecs ss) (alignUp u 4 + sizeSec (flatSec s))
    simp only [flatSecs, sizeSecs] at hlt hd ⊢
    rw [parseSections, if_pos (show hl + alignUp u 4 < hl + sizeSecs (alignUp u 4 + sizeSec (flatSec s)) (flatSecs ss) by
      omega), hd, tailSecs_cons, parse_sec hk s _ hs f idx st (by omega) hp]
    simp only [treeSec_extSize s idx _ hs]
    rw [if_neg (show ¬ sizeSec (flatSec s) = 0 by omega)]
    have hnext : align4 (hl + alignUp u 4 + sizeSec (flatSec s)) =
        hl + alignUp (alignUp u 4 + sizeSec (flatSec s)) 4 := by
      rw [align4_eq _ (by omega)]
      unfold alignUp at *
      omega
    rw [hnext]
    have hd' : fbuf.drop (hl + alignUp (alignUp u 4 + sizeSec (flatSec s)) 4) =
        tailSecs (alignUp u 4 + sizeSec (flatSec s)) (flatSecs ss) := by
      have e : hl + alignUp (alignUp u 4 + sizeSec (flatSec s)) 4 =
          (hl + alignUp u 4) + (sizeSec (flatSec s) + (alignUp (alignUp u 4 + sizeSec (flatSec s)) 4 -
            (alignUp u 4 + sizeSec (flatSec s)))) := by
        have := alignUp_ge (alignUp u 4 + sizeSec (flatSec s)) 4 (by decide); omega
      rw [e, ← List.drop_drop, hd, tailSecs_cons, ← List.drop_drop,
        drop_append_len _ _ _ (length_serSec s _ hs)]
      rfl
    rw [parse_secs hk ss (alignUp u 4 + sizeSec (flatSec s)) hss f fbuf hl (idx + 1) st (by omega) hp h4 hlt hd']
    rfl

theorem parse_file (hk : HooksOK h) : ∀ (f : CFile), wfFile h f = true → ∀ (fuel : Nat) (rest : Bytes) (st : St),
    costFile f ≤ fuel → st.pol = 0xFF →
    parseFile h fuel (serFile (flatFile f) ++ rest) st = .ok (some (treeFile f), st)
  | .leaf f, hw, fuel, rest, st, hf, _ => by
    simp only [wfFile, Bool.and_eq_true] at hw
    exact parse_leaf_file f hw.1.1.1 hw.1.1.2 fuel rest st (by simpa [costFile] using hf)
  | .sect g t a stt secs, hw, fuel, rest, st, hf, hp => by
    obtain ⟨f, rfl, hf'⟩ := fuel_succ hf (by simp only [costFile]; omega)
    simp only [costFile, Nat.add_sub_cancel_left] at hf'
    have w := wfFile_sect hw
    have hsl := length_serSecs secs 0 w.hsecs
    simp only [Nat.zero_add] at hsl
    have hd : ∀ (ckh ckf : UInt8) (a' : Nat) (L : Bool) (tot : Nat),
        (fileHdr g ckh ckf t a' L tot stt ++ serSecs 0 (flatSecs secs)).drop ((if L then 32 else 24) + alignUp 0 4) =
          tailSecs 0 (flatSecs secs) := by
      intro ckh ckf a' L tot
      simp only [alignUp0, Nat.add_zero, tailSecs, Nat.sub_self, List.drop_zero]
      exact drop_append_len _ _ _ (by simp [fileHdr_length _ _ _ _ _ _ _ _ w.hg])
    have IH : ∀ (ckh ckf : UInt8) (a' : Nat) (L : Bool) (tot : Nat),
        parseSections h f (fileHdr g ckh ckf t a' L tot stt ++ serSecs 0 (flatSecs secs))
          (if L then 32 else 24) ((if L then 32 else 24) + (serSecs 0 (flatSecs secs)).length) 0 st =
          .ok (treeSecs secs 0, st) := by
      intro ckh ckf a' L tot
      have := parse_secs hk secs 0 w.hsecs f _ (if L then 32 else 24) 0 st hf' hp
        (by split <;> decide) (by have := w.hsmall; split <;> omega) (hd ckh ckf a' L tot)
      simp only [alignUp0, Nat.add_zero] at this
      rw [hsl]; exact this
    have hLsz : if decide (24 + (serSecs 0 (flatSecs secs)).length ≥ 0xFFFFFF) then
          32 + (serSecs 0 (flatSecs secs)).length < 18446744073709551615
        else 24 + (serSecs 0 (flatSecs secs)).length < 16777215 := by
      have := w.hsmall
      by_cases hb : 24 + (serSecs 0 (flatSecs secs)).length ≥ 0xFFFFFF <;> simp [hb] <;> omega
    simp only [flatFile, serFile, List.append_assoc]
    rw [NestedBase.parseFile_sect_gen g _ _ t _ _ stt (serSecs 0 (flatSecs secs)) rest (treeSecs secs 0) f st
      w.hg w.ht (sectAttrs_lt a _ w.ha) w.hst w.hsup hLsz (IH _ _ _ _ _)]
    simp only [treeFile, Spec.treeFile, serFile, hsl, File.info]

theorem parse_files (hk : HooksOK h) : ∀ (fs : List CFile) (off length : Nat), wfFiles h off length fs = true →
    ∀ (fuel : Nat) (data : Bytes) (free : Nat) (st : St),
    costFiles fs ≤ fuel → st.pol = 0xFF →
    data.drop (alignUp off 8) = tailFiles off (flatFiles fs) free → data.length = length →
    length = endFiles off (flatFiles fs) + free → length % 8 = 0 → length < 2 ^ 62 → 24 ≤ length →
    parseFiles h fuel data off ((length + 18446744073709551616 - 24) % 18446744073709551616) length st =
      .ok (treeFiles fs, (if endFiles off (flatFiles fs) + 24 ≤ length then
        length - alignUp (endFiles off (flatFiles fs)) 8 else 0), st)
  | [], off, length, _, fuel, data, free, st, hf, _, hd, hlen, hl, h8, hlt, h24 => by
    simp only [flatFiles, endFiles] at hl hd ⊢
    exact NestedBase.parseFiles_nil fuel data off length free st (by simpa [costFiles] using hf) hd hlen hl h8 hlt
      h24
  | f :: fs, off, length, hw, fuel, data, free, st, hf, hp, hd, hlen, hl, h8, hlt, h24 => by
    obtain ⟨fu, rfl, hf'⟩ := fuel_succ hf (by simp only [costFiles]; omega)
    simp only [costFiles] at hf'
    obtain ⟨hwf, hhdr, hfit, _, hrest⟩ := wfFiles_cons hw
    have hal := alignUp_ge off 8 (by decide)
    have hlh : (length + 18446744073709551616 - 24) % 18446744073709551616 = length - 24 := by omega
    have hsz := sizeFile_ge (flatFile f)
    simp only [flatFiles] at hd hl ⊢
    rw [parseFiles, hlh, if_pos (show off ≤ length - 24 by omega)]
    simp only [align8_eq off (by omega)]
    rw [if_neg (show ¬ data.length ≤ alignUp off 8 by omega), hd, tailFiles_cons,
      parse_file hk f hwf fu _ st (by omega) hp]
    simp only [treeFile_extSize f hwf]
    rw [if_neg (show ¬ sizeFile (flatFile f) = 0 by omega)]
    have hd' : data.drop (alignUp (alignUp off 8 + sizeFile (flatFile f)) 8) =
        tailFiles (alignUp off 8 + sizeFile (flatFile f)) (flatFiles fs) free := by
      have e : alignUp (alignUp off 8 + sizeFile (flatFile f)) 8 =
          alignUp off 8 + (sizeFile (flatFile f) + (alignUp (alignUp off 8 + sizeFile (flatFile f)) 8 -
            (alignUp off 8 + sizeFile (flatFile f)))) := by
        have := alignUp_ge (alignUp off 8 + sizeFile (flatFile f)) 8 (by decide); omega
      rw [e, ← List.drop_drop, hd, tailFiles_cons, ← List.drop_drop,
        drop_append_len _ _ _ (length_serFile f hwf)]
      rfl
    simp only [endFiles] at hl ⊢
    rw [← hlh, parse_files hk fs (alignUp off 8 + sizeFile (flatFile f)) length hrest fu data free st (by omega) hp hd'
      hlen hl h8 hlt h24]
    rfl

theorem parse_fv (hk : HooksOK h) : ∀ (v : CFv), wfFv h v = true →
    ∀ (fuel : Nat) (rest : Bytes) (off : Nat) (rz : Bool) (st : St),
    costFv v ≤ fuel → (st.pol = 0xFF ∨ st.pol = 0xF0) →
    parseFv h fuel (serFv (flatFv v) ++ rest) off rz st = .ok (treeFv v off rz, { st with pol := 0xFF })
  | .ffs zv v3 attrs rev rsv blocks ext files free, hw, fuel, rest, off, rz, st, hf, hp => by
    obtain ⟨fu, rfl, hf'⟩ := fuel_succ hf (by simp only [costFv]; omega)
    simp only [costFv, Nat.add_sub_cancel_left] at hf'
    have ⟨w, hfiles⟩ := wfFv_ffs hw
    have hlen := length_serFv _ hw
    simp only [flatFv, sizeFv] at hlen
    have hinfo := NestedBase.fvInfoOf_ffs zv v3 attrs rev rsv blocks ext (flatFiles files) free rest off rz w
    have hblocks := NestedBase.fv_readBlocks_ffs zv v3 attrs rev rsv blocks ext (flatFiles files) free rest w
    simp only [flatFv]
    rw [parseFv, if_neg (by simp only [List.length_append, hlen]; have := w.hlen64; omega), hblocks]
    simp only [hinfo, Spec.treeFv, Fv.info]
    have hbm : ¬ (56 + 8 * (blocks.length + 1) > endFiles (preLen blocks ext) (flatFiles files) + free) := by
      have h1 := endFiles_ge (flatFiles files) (preLen blocks ext)
      have h2 : fvHdrLen blocks ≤ preLen blocks ext := by
        cases ext with
        | none => simp only [preLen]; omega
        | some e =>
          have := alignUp_ge (fvHdrLen blocks + e.gap.length + 20 + e.data.length) 8 (by decide)
          simp only [preLen]; omega
      simp only [fvHdrLen] at h2; omega
    rw [if_neg hbm]
    rw [setPolarity_ff attrs st w.hpol hp]
    dsimp only
    have hsup : ¬ ((if v3 then guidFFS3 else guidFFS2) ≠ guidFFS2 ∧ (if v3 then guidFFS3 else guidFFS2) ≠ guidFFS3) := by
      cases v3 <;> simp
    have hfit : ¬ (endFiles (preLen blocks ext) (flatFiles files) + free >
        (serFv (.ffs zv v3 attrs rev rsv blocks ext (flatFiles files) free) ++ rest).length) := by
      simp only [List.length_append, hlen]; omega
    simp only [hfit, hsup, if_false]
    rw [take_left_len _ _ _ hlen]
    have hpre := preBytes_length blocks ext (fun e he => (w.hext e he).1)
    have hd : (serFv (.ffs zv v3 attrs rev rsv blocks ext (flatFiles files) free)).drop (alignUp (preLen blocks ext) 8) =
        tailFiles (preLen blocks ext) (flatFiles files) free := by
      simp only [tailFiles]
      rw [alignUp_of_mod _ 8 (by decide) (preLen_mod8 blocks ext)]
      simp only [Nat.sub_self, List.drop_zero, serFv, List.append_assoc]
      rw [← List.append_assoc]
      have hA : (fvHeaderCk zv (if v3 then guidFFS3 else guidFFS2) (endFiles (preLen blocks ext) (flatFiles files) + free)
          attrs (ehoOf blocks ext) rsv rev blocks ++ preBytes blocks ext).length = preLen blocks ext := by
        simp only [List.length_append, fvHeaderCk_length _ _ _ _ _ _ _ _ w.hzv (guid_v3_length v3)]; exact hpre
      exact drop_append_len _ _ _ hA
    rw [parse_files hk files (preLen blocks ext) _ hfiles fu _ free { st with pol := 0xFF } hf' rfl hd hlen rfl
      w.hlen8 (by have := w.hlenlt; omega) (by have := w.hlen64; omega)]
    rfl
  | .other v, hw, fuel, rest, off, rz, st, hf, hp => by
    simp only [wfFv, Bool.and_eq_true] at hw
    simp only [flatFv, treeFv]
    exact parse_other_fv v hw.1 hw.2 fuel rest off rz st (by simpa [costFv] using hf) hp

end

end Fiano.Uefi.Nested
