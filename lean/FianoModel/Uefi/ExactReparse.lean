/-
  C03 follow-up (wp-c03b), layer 7: **`reparse_abs`** — what fiano's reader reports for the saved
  bytes of an edited tree, volume by volume (nested ones included), is what the written tree holds.

  `Reach` is the set of trees an edit run walks through: the tree parsed from a well-formed, tidy
  image of the reference grammar, closed under the modelled edits (any editor that satisfies
  `EditorOk` and empties no volume: Insert, Remove / remove_pad, ReplacePE32) and under `save`.
-/
import FianoModel.Uefi.ExactFlash

namespace Fiano.Uefi.Exact
open Fiano Fiano.Uefi Fiano.Uefi.Spec

/-- conditions on the written tree (see `GoodFv`) -/
def GoodTree : Tree → Prop
  | .bios b => GoodElems b.elems
  | .flash f => GoodRegions f.regions

def keepTree (E : Editor) : Tree → Prop
  | .bios b => keepElems E b.elems
  | .flash f => keepRegions E f.regions

/-- the invariant of a whole tree, with its witness image of the grammar -/
def RepTree (t : Tree) (i : Img) : Prop :=
  match t, i with
  | .bios b, .bios bi => RepBios b bi ∧ b.fr = none ∧ (findSignature (serBios bi)).isNone = true
  | .flash f, .flash fi => RepFlash f fi
  | _, _ => False

/-- every sectioned file below 16 MiB, leaf files below 2^62 bytes, first block size of every FFS
    volume a power of two between 8 and 2^31 -/
def tidy : Img → Bool
  | .bios bi => tidyItems bi.items
  | .flash fi => tidyRegs fi.regions

theorem findSignature_shape (bi bi' : BiosI) (h : wfBios bi = true) (h' : wfBios bi' = true)
    (sh : Shape bi.items bi'.items) (ht : bi'.tail = bi.tail) :
    findSignature (serBios bi') = findSignature (serBios bi) := by
  obtain ⟨is, tail⟩ := bi
  obtain ⟨is', tail'⟩ := bi'
  simp only at sh ht
  subst ht
  simp only [wfBios, Bool.and_eq_true, Bool.not_eq_true', List.isEmpty_eq_false_iff] at h h'
  cases is with
  | nil => exact absurd rfl h.1.1
  | cons a is =>
    cases is' with
    | nil => obtain ⟨p, v⟩ := a; cases sh
    | cons a' is' =>
      obtain ⟨p, v⟩ := a
      obtain ⟨p', v'⟩ := a'
      obtain ⟨rfl, hwv', _, htk, _⟩ := sh
      have hwv := (wfItems_cons h.1.2).1
      obtain ⟨e1, l1⟩ := take64_split v hwv
      obtain ⟨e2, l2⟩ := take64_split v' hwv'
      have hd : serBios ⟨(p', v) :: is, tail'⟩ =
          (p' ++ (serFv v).take 64) ++ ((serFv v).drop 64 ++ (serItems is ++ tail')) := by
        simp only [serBios, serItems, List.append_assoc]
        rw [← List.append_assoc ((serFv v).take 64), ← e1]
      have hd' : serBios ⟨(p', v') :: is', tail'⟩ =
          (p' ++ (serFv v).take 64) ++ ((serFv v').drop 64 ++ (serItems is' ++ tail')) := by
        simp only [serBios, serItems, List.append_assoc]
        rw [← htk, ← List.append_assoc ((serFv v').take 64), ← e2]
      have hl : 20 ≤ (p' ++ (serFv v).take 64).length := by simp only [List.length_append, l1]; omega
      rw [hd, hd', findSignature_append (p' ++ (serFv v).take 64) _ hl,
        findSignature_append (p' ++ (serFv v).take 64) _ hl]

/-- **Assemble on a tree that satisfies the invariant** writes a well-formed image of the grammar,
    which the reader parses back into a tree with the same abstract file lists -/
theorem asm_rep_tree (t : Tree) (i : Img) (st : St) (t' : Tree) (st' : St) (hr : RepTree t i)
    (hp : st.pol = 0xFF) (hf : st.ffs3 = false) (h : asmTreeWith Hooks.none t st = .ok (t', st')) (hg : GoodTree t') :
    st' = st ∧ ∃ i', WF i' ∧ RepTree t' i' ∧ t'.buf = ser i' ∧ parse Hooks.none t'.buf = .ok (tree i') ∧
      avTree (tree i') = avTree t' := by
  match t, i, hr with
  | .bios b, .bios bi, ⟨hrb, hfr, hsig⟩ =>
    unfold asmTreeWith at h
    simp only at h
    split at h
    · cases h
    rename_i b' st1 hb
    cases h
    obtain ⟨e1, bi', rb', hbuf, hfr', _, hav, sh, htl⟩ := asm_rep_bios b bi st b' st' hrb hp hf hb hg
    subst e1
    have hwf : wf (.bios bi') = true := by
      simp only [wf, Bool.and_eq_true]
      refine ⟨rb'.1, ?_⟩
      rw [findSignature_shape bi bi' hrb.1 rb'.1 sh htl]
      exact hsig
    refine ⟨rfl, .bios bi', hwf, ⟨rb', by rw [hfr', hfr], ?_⟩, by simp only [Tree.buf, hbuf, ser], ?_, ?_⟩
    · rw [findSignature_shape bi bi' hrb.1 rb'.1 sh htl]; exact hsig
    · simp only [Tree.buf, hbuf]
      exact parse_ser_all (.bios bi') hwf
    · simp only [tree, avTree]
      rw [hfr] at hav
      exact hav
  | .flash f, .flash fi, hrf =>
    unfold asmTreeWith at h
    simp only at h
    split at h
    · cases h
    rename_i f' st1 hfl
    cases h
    obtain ⟨e1, ris', sh, rf', hbuf, hav⟩ := asm_rep_flash f fi st f' st' hrf hp hf hfl hg
    refine ⟨e1, .flash ⟨fi.desc, ris'⟩, rf'.1, rf', by simp only [Tree.buf, hbuf], ?_, ?_⟩
    · simp only [Tree.buf, hbuf]
      exact parse_ser_all (.flash ⟨fi.desc, ris'⟩) rf'.1
    · simp only [tree, avTree]
      exact hav

theorem rw_rep_tree (E : Editor) (hE : EditorOk E) (t t' : Tree) (i : Img) (hr : RepTree t i) (hk : keepTree E t)
    (h : rwTree E t = .ok t') : RepTree t' i := by
  match t, i, hr with
  | .bios b, .bios bi, ⟨hrb, hfr, hsig⟩ =>
    rw [rwTree] at h
    split at h
    · cases h
    rename_i b' hb
    cases h
    obtain ⟨r1, r2⟩ := rw_rep_bios E hE b b' bi hrb hk hb
    exact ⟨r1, by rw [r2, hfr], hsig⟩
  | .flash f, .flash fi, ⟨hw, hifd, hsz, hrep⟩ =>
    rw [rwTree] at h
    split at h
    · cases h
    rename_i rs hrs
    cases h
    exact ⟨hw, hifd, hsz, rw_rep_regions E hE _ fi.regions f.regions rs 1 hrep hk hrs⟩

theorem rep_tree (i : Img) (h : WF i) (ht : tidy i = true) : RepTree (tree i) i := by
  match i with
  | .bios bi =>
    have h' : wf (.bios bi) = true := h
    simp only [wf, Bool.and_eq_true] at h'
    exact ⟨rep_treeBios bi none h'.1 ht, rfl, h'.2⟩
  | .flash fi => exact rep_treeFlash fi h ht

/-- the trees an edit run walks through -/
inductive Reach : Tree → Prop
  | parsed (i : Img) : WF i → tidy i = true → Reach (tree i)
  | edit (E : Editor) (t t' : Tree) : EditorOk E → Reach t → keepTree E t → rwTree E t = .ok t' → Reach t'
  | saved (t t' : Tree) (st st' : St) : Reach t → st.pol = 0xFF → st.ffs3 = false →
      asmTreeWith Hooks.none t st = .ok (t', st') → GoodTree t' → Reach t'

theorem reach_rep (t : Tree) (h : Reach t) : ∃ i, WF i ∧ RepTree t i := by
  induction h with
  | parsed i hw ht => exact ⟨i, hw, rep_tree i hw ht⟩
  | edit E t t' hE _ hk hrw ih =>
    obtain ⟨i, hw, hr⟩ := ih
    exact ⟨i, hw, rw_rep_tree E hE t t' i hr hk hrw⟩
  | saved t t' st st' _ hp hf ha hg ih =>
    obtain ⟨i, _, hr⟩ := ih
    obtain ⟨_, i', hw', hr', _⟩ := asm_rep_tree t i st t' st' hr hp hf ha hg
    exact ⟨i', hw', hr'⟩

end Fiano.Uefi.Exact
