/-
  C03 follow-up (wp-c03c, round 3), layer 8: **one end-to-end statement per operation**, composed
  from the volume-level corollaries of ExactCor.lean and `reparse_abs`.

  Setting: a tree whose root is a BIOS region (image without flash descriptor), one edit, one save,
  fiano's reader on the saved bytes.  The element list of the region is `pre ++ volume :: post`; the
  editor is quiet on the volumes of `pre` and `post`.  Then the re-parsed saved image shows

      avElems pre ++ (abstract list of the edited volume :: lists of the volumes nested in its files)
        ++ avElems post

  i.e. the k-th top-level volume carries the edited list and **every other volume's list, nested
  volumes included, is what the input tree shows**.

    * `StableFile` / `StableFv`: a save keeps what the node shows (GUID, type, attributes, body of the
      file; the abstract lists of all volumes below).  Every file / volume of the parsed tree of a
      well-formed, tidy image is stable (`stable_treeFile`, `stable_treeFv`: by the round trip of C01
      and injectivity of the serialisation read through fiano's parser), every leaf file is
      (`stable_leaf`: pad files, inserted leaf files), and a volume whose files are stable is
      (`stable_fv_of_files`).
    * `edit_saved_bios`: the generic composition for any `EditorOk` editor.
    * `insert_e2e_bios`, `remove_e2e_bios`: Insert (file-matched, all six positions) and Remove / remove_pad.

  Not covered (checks.d `unproved`): ReplacePE32 composed to the tree level (the edited file is not
  stable: its body is rebuilt; `replace_pe32_saved` stays at the section list), a target volume *nested* in a file of a top-level volume (the
  body of the enclosing file changes with it: the statement needs an abstraction that does not
  compare bodies of files that hold volumes), flash images with descriptor (the same composition
  over `asmRegions`), runs with more than one edit before the save (files that are not stable).
-/
import FianoModel.Uefi.ExactCor
import FianoModel.Uefi.ExactReparse

namespace Fiano.Uefi.Exact
open Fiano Fiano.Uefi Fiano.Uefi.Spec

/-! ### the serialisation of well-formed nodes is injective up to the tree the reader reports -/

theorem treeFile_ser_inj (a b : FileI) (ha : wfFile a = true) (hb : wfFile b = true) (h : serFile a = serFile b) :
    treeFile a = treeFile b := by
  have h1 := parse_file a ha (costFile a + costFile b) [] { pol := 0xFF, ffs3 := false } (by omega) rfl
  have h2 := parse_file b hb (costFile a + costFile b) [] { pol := 0xFF, ffs3 := false } (by omega) rfl
  rw [h, h2] at h1
  simp only [Except.ok.injEq, Prod.mk.injEq, Option.some.injEq, and_true] at h1
  exact h1.symm

theorem treeFv_ser_inj (a b : FvI) (ha : wfFv a = true) (hb : wfFv b = true) (h : serFv a = serFv b) (off : Nat)
    (rz : Bool) : treeFv a off rz = treeFv b off rz := by
  have h1 := parse_fv a ha (costFv a + costFv b) [] off rz { pol := 0xFF, ffs3 := false } (by omega) (Or.inl rfl)
  have h2 := parse_fv b hb (costFv a + costFv b) [] off rz { pol := 0xFF, ffs3 := false } (by omega) (Or.inl rfl)
  rw [h, h2] at h1
  simp only [Except.ok.injEq, Prod.mk.injEq, and_true] at h1
  exact h1.symm

/-! ### nodes that a save leaves as they are, in the abstract view -/

/-- a save keeps GUID, type, attribute byte and body of the file, and the abstract lists of all
    volumes below it -/
def StableFile (f : File) : Prop :=
  ∀ (st : St) (f' : File) (st' : St), st.pol = 0xFF → st.ffs3 = false → asmFile Hooks.none f st = .ok (f', st') →
    GoodFile f' → absFile f' = absFile f ∧ f'.isPad = f.isPad ∧ avFile f' = avFile f

/-- a save leaves the process state alone and keeps the abstract lists of the volume and of all
    volumes below it -/
def StableFv (v : Fv) : Prop :=
  ∀ (st : St) (v' : Fv) (st' : St), st.pol = 0xFF → st.ffs3 = false → asmFv Hooks.none v st = .ok (v', st') →
    GoodFv v' → st' = st ∧ avFv v' = avFv v

theorem StableFile.settled {f : File} (h : StableFile f) (hg : ∀ st f' st', asmFile Hooks.none f st = .ok (f', st') →
    GoodFile f') : Settled f := by
  intro st f' st' hp hf ha
  obtain ⟨h1, h2, _⟩ := h st f' st' hp hf ha (hg st f' st' ha)
  exact ⟨h1, h2⟩

/-- a file without section nodes (a leaf file of the grammar, a pad file) is written as it is -/
theorem stable_leaf (i : FileInfo) (buf : Bytes) (hn : i.nvar = none) : StableFile (.mk i buf []) := by
  intro st f' st' _ _ h _
  rw [asmFile_leaf Hooks.none i buf st hn] at h
  cases h
  exact ⟨rfl, rfl, rfl⟩

/-- every file of a parsed, tidy tree is stable -/
theorem stable_treeFile (fi : FileI) (hw : wfFile fi = true) (ht : tidyFile fi = true) : StableFile (treeFile fi) := by
  intro st f' st' hp hf h hg
  obtain ⟨ha, hpad⟩ := settled_treeFile fi hw ht st f' st' hp hf h
  refine ⟨ha, hpad, ?_⟩
  obtain ⟨_, _, fi', hw', hb', _, _, _, hav⟩ := asm_canon_file _ (canon_treeFile fi hw ht) st f' st' hp hf h hg
  have hbig := anyBigFiles_tidy fi ht
  obtain ⟨f2, st2, h2, hb2, _⟩ := asm_file fi hw st hp (by
    intro hc
    rcases hc with hc | hc
    · rw [hf] at hc; cases hc
    · rw [hbig] at hc; cases hc)
  rw [h] at h2
  cases h2
  have hinj : treeFile fi' = treeFile fi := treeFile_ser_inj fi' fi hw' hw (by rw [← hb', hb2])
  rw [← hav, hinj]

/-- every volume of a parsed, tidy tree is stable -/
theorem stable_treeFv (vi : FvI) (hw : wfFv vi = true) (ht : tidyFv vi = true) (off : Nat) (rz : Bool) :
    StableFv (treeFv vi off rz) := by
  intro st v' st' hp hf h hg
  obtain ⟨e, _, _, _, _, _, vi', hw', hb', hav⟩ :=
    asm_canon_fv _ (canon_treeFv vi hw ht off rz) st v' st' hp hf h hg
  obtain ⟨v2, st2, h2, hb2, _⟩ := asm_fv vi hw off rz st hp (by intro hc; rw [hf] at hc; cases hc)
  rw [h] at h2
  cases h2
  have hinj := treeFv_ser_inj vi' vi hw' hw (by rw [← hb', hb2]) off rz
  exact ⟨e, by rw [← hav off rz, hinj]⟩

/-- assembling a list of stable files keeps the abstract list and the lists of the volumes below -/
theorem asmFiles_av_stable : ∀ (fs : List File), CanonFiles fs → (∀ f ∈ fs, StableFile f) → ∀ (st : St)
    (fs' : List File) (st' : St), st.pol = 0xFF → st.ffs3 = false → asmFiles Hooks.none fs st = .ok (fs', st') →
    GoodFiles fs' → absFiles fs' = absFiles fs ∧ avFiles fs' = avFiles fs
  | [], _, _, st, fs', st', _, _, h, _ => by
    simp only [asmFiles, Except.ok.injEq, Prod.mk.injEq] at h
    rw [← h.1]
    exact ⟨rfl, rfl⟩
  | f :: fs, hc, hs, st, fs', st', hp, hf, h, hg => by
    rw [asmFiles] at h
    split at h
    · cases h
    rename_i f1 st1 h1
    split at h
    · cases h
    rename_i fs1 st2 h2
    cases h
    obtain ⟨e1, _⟩ := asm_canon_file f hc.1 st f1 st1 hp hf h1 hg.1
    subst e1
    have hs1 := hs f List.mem_cons_self st1 f1 st1 hp hf h1 hg.1
    have ih := asmFiles_av_stable fs hc.2 (fun g hg' => hs g (List.mem_cons_of_mem _ hg')) st1 fs1 st' hp hf h2 hg.2
    constructor
    · rw [absFiles_cons, absFiles_cons, ih.1, hs1.1, hs1.2.1]
    · simp only [avFiles]
      rw [ih.2, hs1.2.2]

/-- a volume of the invariant whose files are stable is stable: the written volume shows the abstract
    list of the node's file list and, for the volumes nested in its files, their lists -/
theorem stable_fv_of_files (i : FvInfo) (buf : Bytes) (files : List File) (hc : CanonFv (.mk i buf files))
    (hs : ∀ f ∈ files, StableFile f) : StableFv (.mk i buf files) := by
  intro st v' st' hp hf h hg
  obtain ⟨e, _⟩ := asm_canon_fv _ hc st v' st' hp hf h hg
  refine ⟨e, ?_⟩
  obtain ⟨st0, files', st1, hs0, hfs, hvf⟩ := asmFv_shape i buf files st v' st' h
  have hpol := canonFv_pol _ hc
  simp only [Fv.info] at hpol
  rw [setPolarity_keep i.attrs st hpol hp] at hs0
  cases hs0
  obtain ⟨v'i, v'b, v'f⟩ := v'
  simp only [Fv.files] at hvf
  subst hvf
  obtain ⟨h1, h2⟩ := asmFiles_av_stable files (canonFv_files _ hc) hs st v'f st1 hp hf hfs hg.2.2
  simp only [avFv, h1, h2]

/-! ### the element list of a BIOS region -/

/-- assembling a list of stable top-level volumes (and paddings) keeps every abstract list -/
theorem asmElems_av : ∀ (es : List BiosElem), (∀ u, BiosElem.fv u ∈ es → StableFv u) → ∀ (st : St)
    (es' : List BiosElem) (st' : St), st.pol = 0xFF → st.ffs3 = false →
    asmBiosElems Hooks.none es st = .ok (es', st') → GoodElems es' → st' = st ∧ avElems es' = avElems es
  | [], _, st, es', st', _, _, h, _ => by
    simp only [asmBiosElems, Except.ok.injEq, Prod.mk.injEq] at h
    rw [← h.1, ← h.2]
    exact ⟨rfl, rfl⟩
  | .pad b o :: es, hs, st, es', st', hp, hf, h, hg => by
    rw [asmBiosElems] at h
    split at h
    · cases h
    rename_i es1 st1 h1
    cases h
    have ih := asmElems_av es (fun u hu => hs u (List.mem_cons_of_mem _ hu)) st es1 st' hp hf h1 hg
    exact ⟨ih.1, by simp only [avElems, ih.2]⟩
  | .fv v :: es, hs, st, es', st', hp, hf, h, hg => by
    rw [asmBiosElems] at h
    split at h
    · cases h
    rename_i v1 st1 h1
    split at h
    · cases h
    rename_i es1 st2 h2
    cases h
    obtain ⟨e1, hv⟩ := hs v List.mem_cons_self st v1 st1 hp hf h1 hg.1
    subst e1
    have ih := asmElems_av es (fun u hu => hs u (List.mem_cons_of_mem _ hu)) st1 es1 st' hp hf h2 hg.2
    exact ⟨ih.1, by simp only [avElems, ih.2, hv]⟩

/-- the editor leaves an element list alone when it is quiet on every volume of it -/
theorem rwBiosElems_quiet (E : Editor) : ∀ (es : List BiosElem), (∀ u, BiosElem.fv u ∈ es → quietFv E u = true) →
    rwBiosElems E es = .ok es
  | [], _ => rfl
  | .pad b o :: es, h => by
    rw [rwBiosElems, rwBiosElems_quiet E es (fun u hu => h u (List.mem_cons_of_mem _ hu))]
  | .fv v :: es, h => by
    rw [rwBiosElems, rwFv_quiet E v (h v List.mem_cons_self),
      rwBiosElems_quiet E es (fun u hu => h u (List.mem_cons_of_mem _ hu))]

/-- quiet in front and behind: the rewriting of the region is the rewriting of the one volume -/
theorem rwBiosElems_split (E : Editor) (v v1 : Fv) (post : List BiosElem) (hrw : rwFv E v = .ok v1)
    (hpost : ∀ u, BiosElem.fv u ∈ post → quietFv E u = true) : ∀ (pre : List BiosElem),
    (∀ u, BiosElem.fv u ∈ pre → quietFv E u = true) →
    rwBiosElems E (pre ++ .fv v :: post) = .ok (pre ++ .fv v1 :: post)
  | [], _ => by
    simp only [List.nil_append]
    rw [rwBiosElems, hrw, rwBiosElems_quiet E post hpost]
  | .pad b o :: pre, h => by
    simp only [List.cons_append]
    rw [rwBiosElems, rwBiosElems_split E v v1 post hrw hpost pre (fun u hu => h u (List.mem_cons_of_mem _ hu))]
  | .fv w :: pre, h => by
    simp only [List.cons_append]
    rw [rwBiosElems, rwFv_quiet E w (h w List.mem_cons_self),
      rwBiosElems_split E v v1 post hrw hpost pre (fun u hu => h u (List.mem_cons_of_mem _ hu))]

/-! ### the composition -/

/-- **one edit, one save, one re-parse** (image without flash descriptor; any `EditorOk` editor).
    The region's elements are `pre ++ volume v :: post`; the editor is quiet on the volumes of `pre`
    and `post`, which are stable (volumes of a parsed tree are); it turns `v` into `v1`, whose files are
    stable (parsed files, pad files, leaf files are).  Then the edit yields that tree, and if the save
    succeeds on it with a `GoodTree` result, the saved bytes are a well-formed image of the grammar,
    fiano's reader parses them, and the tree it reports shows: the lists of `pre` unchanged, then the
    file list of `v1` followed by the lists of the volumes nested in the files of `v1`, then the lists
    of `post` unchanged. -/
theorem edit_saved_bios (E : Editor) (hE : EditorOk E) (b : BiosRegion) (hr : Reach (.bios b))
    (hkeep : keepTree E (.bios b)) (pre post : List BiosElem) (v v1 : Fv)
    (hdec : b.elems = pre ++ .fv v :: post)
    (hq : ∀ u, BiosElem.fv u ∈ pre ++ post → quietFv E u = true ∧ StableFv u)
    (hrw : rwFv E v = .ok v1) (hc1 : CanonFv v1) (hs : ∀ f ∈ v1.files, StableFile f)
    (st st' : St) (t' : Tree) (hp : st.pol = 0xFF) (hf : st.ffs3 = false)
    (ha : asmTreeWith Hooks.none (.bios { b with elems := pre ++ .fv v1 :: post }) st = .ok (t', st'))
    (hg : GoodTree t') :
    rwTree E (.bios b) = .ok (.bios { b with elems := pre ++ .fv v1 :: post }) ∧
    ∃ i', Spec.WF i' ∧ t'.buf = Spec.ser i' ∧ parse Hooks.none t'.buf = .ok (Spec.tree i') ∧
      avTree (Spec.tree i') = avElems pre ++ (absFiles v1.files :: avFiles v1.files) ++ avElems post := by
  have hqpre : ∀ u, BiosElem.fv u ∈ pre → quietFv E u = true := fun u hu => (hq u (List.mem_append_left _ hu)).1
  have hqpost : ∀ u, BiosElem.fv u ∈ post → quietFv E u = true := fun u hu => (hq u (List.mem_append_right _ hu)).1
  have hrwt : rwTree E (.bios b) = .ok (.bios { b with elems := pre ++ .fv v1 :: post }) := by
    simp only [rwTree, rwBios, hdec, rwBiosElems_split E v v1 post hrw hqpost pre hqpre]
  refine ⟨hrwt, ?_⟩
  have hr1 : Reach (.bios { b with elems := pre ++ .fv v1 :: post }) := Reach.edit E _ _ hE hr hkeep hrwt
  obtain ⟨i, _, hrep⟩ := reach_rep _ hr1
  obtain ⟨_, i', hw, _, hb, hpa, hav⟩ := asm_rep_tree _ i st t' st' hrep hp hf ha hg
  refine ⟨i', hw, hb, hpa, ?_⟩
  rw [hav]
  -- the written tree, element by element
  unfold asmTreeWith at ha
  simp only at ha
  split at ha
  · cases ha
  rename_i b' st1 hb'
  cases ha
  unfold asmBios at hb'
  simp only at hb'
  split at hb'
  · cases hb'
  rename_i es' st2 hes
  split at hb'
  · cases hb'
  split at hb'
  · cases hb'
  split at hb'
  · cases hb'
  cases hb'
  simp only [avTree]
  have hv1 : StableFv v1 := by
    obtain ⟨i1, b1, f1⟩ := v1
    exact stable_fv_of_files i1 b1 f1 hc1 hs
  have hstab : ∀ u, BiosElem.fv u ∈ pre ++ .fv v1 :: post → StableFv u := by
    intro u hu
    rcases List.mem_append.mp hu with h1 | h1
    · exact (hq u (List.mem_append_left _ h1)).2
    · rcases List.mem_cons.mp h1 with h2 | h2
      · cases h2; exact hv1
      · exact (hq u (List.mem_append_right _ h2)).2
  have hgood : GoodElems es' := hg
  obtain ⟨_, hes'⟩ := asmElems_av _ hstab st es' st2 hp hf hes hgood
  rw [hes', avElems_append]
  obtain ⟨i1, b1, f1⟩ := v1
  simp only [avElems, avFv, Fv.files, List.append_assoc, List.cons_append]

/-! ### the pad file of Remove is a leaf file -/

theorem mkPadFile_leaf (pol : UInt8) (n : Nat) (pf : File) (h : mkPadFile pol n = .ok pf) :
    ∃ i buf, pf = .mk i buf [] ∧ i.nvar = none := by
  unfold mkPadFile at h
  split at h
  · cases h
  split at h
  · cases h
  cases h
  exact ⟨_, _, rfl, (casm_info _ _).2.2.2.2.2.1⟩

theorem stable_padFile (pol : UInt8) (n : Nat) (pf : File) (h : mkPadFile pol n = .ok pf) : StableFile pf := by
  obtain ⟨i, buf, rfl, hn⟩ := mkPadFile_leaf pol n pf h
  exact stable_leaf i buf hn

/-- what Remove leaves in a file list is stable when the files were and nothing matches below a file
    that stays -/
theorem rwFiles_remove_stable (p : Pred) (pad : Bool) (pol : UInt8) : ∀ (files files1 : List File),
    (∀ f ∈ files, StableFile f) → (∀ f ∈ files, fileHit p f = false → quietFile (removeEditor p pad pol) f = true) →
    rwFiles (removeEditor p pad pol) files = .ok files1 → ∀ f ∈ files1, StableFile f
  | [], files1, _, _, h => by
    simp only [rwFiles, Except.ok.injEq] at h
    subst h
    intro f hf
    cases hf
  | f :: fs, files1, hs, hq, h => by
    rw [rwFiles] at h
    split at h
    · cases h
    rename_i r hr
    split at h
    · cases h
    rename_i rs hrs
    have ih := rwFiles_remove_stable p pad pol fs rs (fun g hg => hs g (List.mem_cons_of_mem _ hg))
      (fun g hg => hq g (List.mem_cons_of_mem _ hg)) hrs
    by_cases hh : fileHit p f = true
    · -- the file is a match: dropped, or replaced by a pad file
      by_cases hpad : pad = true ∨ f.info.type = fileTypePEIM
      · cases hm : mkPadFile pol f.info.extSize with
        | error e =>
          have hE : (removeEditor p pad pol).file f = some (.error e) := by
            simp only [removeEditor, hh, if_true, if_pos hpad, hm]
          rw [rwFile_fire _ _ _ hE] at hr
          cases hr
        | ok pf =>
          have hE : (removeEditor p pad pol).file f = some (.ok (some pf)) := by
            simp only [removeEditor, hh, if_true, if_pos hpad, hm]
          rw [rwFile_fire _ _ _ hE] at hr
          cases hr
          simp only at h
          cases h
          intro g hg
          rcases List.mem_cons.mp hg with rfl | hg'
          · exact stable_padFile pol _ _ hm
          · exact ih g hg'
      · have hE : (removeEditor p pad pol).file f = some (.ok none) := by
          simp only [removeEditor, hh, if_true, if_neg hpad]
        rw [rwFile_fire _ _ _ hE] at hr
        cases hr
        simp only at h
        cases h
        exact ih
    · have hh' : fileHit p f = false := by simpa using hh
      rw [rwFile_quiet _ f (hq f List.mem_cons_self hh')] at hr
      cases hr
      simp only at h
      cases h
      intro g hg
      rcases List.mem_cons.mp hg with rfl | hg'
      · exact hs _ List.mem_cons_self
      · exact ih g hg'

/-! ### the operations -/

/-- **Insert, end to end** (file-matched; front / end / dxe / after / before / replace_ffs): the tree is
    a BIOS region `pre ++ volume :: post`, the selector's only match is a file of that volume's own list
    (index `k`), nothing matches in the other top-level volumes.  The edited, saved and re-parsed image
    shows: the lists of `pre`, then the old list with the new file at the stated place (`insertSpec`)
    followed by the lists of the volumes nested in that volume's files (those of the new file at its
    place), then the lists of `post`. -/
theorem insert_e2e_bios (p : Pred) (w : Where) (nf : File) (b : BiosRegion) (hr : Reach (.bios b))
    (hkeep : keepTree (insertFileEditor p w nf) (.bios b)) (pre post : List BiosElem)
    (i : FvInfo) (buf : Bytes) (files : List File) (k : Nat)
    (hdec : b.elems = pre ++ .fv (.mk i buf files) :: post)
    (hq : ∀ u, BiosElem.fv u ∈ pre ++ post → quietFv (insertFileEditor p w nf) u = true ∧ StableFv u)
    (hfind : ∃ h, find p (.bios b) = [h] ∧ h.isFv = false)
    (hk : hitIndex p files = some k) (hc : CanonFv (.mk i buf files)) (hsf : ∀ f ∈ files, StableFile f)
    (hnc : CanonFile nf) (hns : StableFile nf)
    (st st' : St) (t' : Tree) (hp : st.pol = 0xFF) (hf : st.ffs3 = false)
    (ha : asmTreeWith Hooks.none
      (.bios { b with elems := pre ++ .fv (.mk i buf (insertAt w nf files k)) :: post }) st = .ok (t', st'))
    (hg : GoodTree t') :
    insertOp p w nf (.bios b) =
      .ok (.bios { b with elems := pre ++ .fv (.mk i buf (insertAt w nf files k)) :: post }) ∧
    ∃ i', Spec.WF i' ∧ t'.buf = Spec.ser i' ∧ parse Hooks.none t'.buf = .ok (Spec.tree i') ∧
      avTree (Spec.tree i') =
        avElems pre ++ (insertSpec w nf files k :: avFiles (insertAt w nf files k)) ++ avElems post := by
  have hklt := hitIndex_lt p files k hk
  have hne : files ≠ [] := by
    intro hc'; subst hc'; simp at hklt
  have hrw : rwFv (insertFileEditor p w nf) (.mk i buf files) = .ok (.mk i buf (insertAt w nf files k)) := by
    rw [rwFv]
    simp only [insertFileEditor, Fv.files, hk]
  have hci := canonFiles_insertAt w nf files k (canonFv_files _ hc) hnc
  have hc1 : CanonFv (.mk i buf (insertAt w nf files k)) := by
    unfold CanonFv at hc ⊢
    rcases hc with ⟨hfl, _⟩ | ⟨_, hsk, _⟩
    · exact absurd hfl hne
    · exact Or.inr ⟨hci.2, hsk, hci.1⟩
  have hs1 : ∀ f ∈ insertAt w nf files k, StableFile f := by
    intro f hf'
    have hmem : f = nf ∨ f ∈ files := by
      cases w <;>
        simp only [insertAt, List.mem_cons, List.mem_append, List.not_mem_nil, or_false] at hf'
      · exact hf'
      · exact hf'.symm
      · rcases hf' with h1 | h1 | h1
        · exact Or.inr (List.mem_of_mem_take h1)
        · exact Or.inl h1
        · exact Or.inr (List.mem_of_mem_drop h1)
      · rcases hf' with h1 | h1 | h1
        · exact Or.inr (List.mem_of_mem_take h1)
        · exact Or.inl h1
        · exact Or.inr (List.mem_of_mem_drop h1)
      · rcases hf' with h1 | h1 | h1
        · exact Or.inr (List.mem_of_mem_take h1)
        · exact Or.inl h1
        · exact Or.inr (List.mem_of_mem_drop h1)
      · exact hf'.symm
    rcases hmem with rfl | hm
    · exact hns
    · exact hsf f hm
  obtain ⟨hrwt, i', h1, h2, h3, h4⟩ := edit_saved_bios (insertFileEditor p w nf) (insertFileEditor_ok p w nf hnc) b hr
    hkeep pre post _ _ hdec hq hrw hc1 hs1 st st' t' hp hf ha hg
  refine ⟨?_, i', h1, h2, h3, ?_⟩
  · obtain ⟨h, hfd, hfv⟩ := hfind
    unfold insertOp
    rw [hfd]
    simp only [hfv, Bool.false_eq_true, if_false]
    exact hrwt
  · rw [h4]
    simp only [Fv.files]
    rw [insert_abs w nf files k hklt]
    cases w <;> rfl

/-- **Insert by volume name, end to end** (`insert_front` / `insert_end` with a volume selector): the
    selector's only match is the top-level volume `(i, buf, files)` itself (it has files).  The edited,
    saved and re-parsed image shows the new file in front of / behind the old list, the lists nested in
    the files, and every other volume's list as in the input. -/
theorem insert_fv_e2e_bios (p : Pred) (front : Bool) (nf : File) (b : BiosRegion) (hr : Reach (.bios b))
    (hsel : ∀ v, p.fv v = true → v.files ≠ [])
    (hkeep : keepTree (insertFvEditor p (if front then .front else .end_) nf) (.bios b)) (pre post : List BiosElem)
    (i : FvInfo) (buf : Bytes) (files : List File)
    (hdec : b.elems = pre ++ .fv (.mk i buf files) :: post)
    (hq : ∀ u, BiosElem.fv u ∈ pre ++ post →
      quietFv (insertFvEditor p (if front then .front else .end_) nf) u = true ∧ StableFv u)
    (hfind : ∃ h, find p (.bios b) = [h] ∧ h.isFv = true)
    (hhit : p.fv (.mk i buf files) = true) (hc : CanonFv (.mk i buf files)) (hsf : ∀ f ∈ files, StableFile f)
    (hnc : CanonFile nf) (hns : StableFile nf)
    (st st' : St) (t' : Tree) (hp : st.pol = 0xFF) (hf : st.ffs3 = false)
    (ha : asmTreeWith Hooks.none
      (.bios { b with elems := pre ++ .fv (.mk i buf (if front then nf :: files else files ++ [nf])) :: post }) st =
        .ok (t', st'))
    (hg : GoodTree t') :
    insertOp p (if front then .front else .end_) nf (.bios b) =
      .ok (.bios { b with elems := pre ++ .fv (.mk i buf (if front then nf :: files else files ++ [nf])) :: post }) ∧
    ∃ i', Spec.WF i' ∧ t'.buf = Spec.ser i' ∧ parse Hooks.none t'.buf = .ok (Spec.tree i') ∧
      avTree (Spec.tree i') =
        avElems pre ++
          ((if front then absFiles [nf] ++ absFiles files else absFiles files ++ absFiles [nf]) ::
            (if front then avFile nf ++ avFiles files else avFiles files ++ avFile nf)) ++
          avElems post := by
  have hne : files ≠ [] := hsel _ hhit
  have hrw : rwFv (insertFvEditor p (if front then .front else .end_) nf) (.mk i buf files) =
      .ok (.mk i buf (if front then nf :: files else files ++ [nf])) := by
    rw [rwFv]
    cases front <;> simp [insertFvEditor, hhit, Fv.files]
  have hcf := canonFv_files _ hc
  have hcl : CanonFiles (if front then nf :: files else files ++ [nf]) := by
    cases front
    · simp only [Bool.false_eq_true, if_false]
      exact (canonFiles_append _ _).mpr ⟨hcf, hnc, trivial⟩
    · simp only [if_true]
      exact ⟨hnc, hcf⟩
  have hc1 : CanonFv (.mk i buf (if front then nf :: files else files ++ [nf])) := by
    unfold CanonFv at hc ⊢
    rcases hc with ⟨hfl, _⟩ | ⟨_, hsk, _⟩
    · exact absurd hfl hne
    · exact Or.inr ⟨by cases front <;> simp, hsk, hcl⟩
  have hs1 : ∀ f ∈ (if front then nf :: files else files ++ [nf]), StableFile f := by
    intro f hf'
    have hmem : f = nf ∨ f ∈ files := by
      cases front
      · simp only [Bool.false_eq_true, if_false, List.mem_append, List.mem_singleton] at hf'
        exact hf'.symm
      · simp only [if_true, List.mem_cons] at hf'
        exact hf'
    rcases hmem with rfl | hm
    · exact hns
    · exact hsf f hm
  obtain ⟨hrwt, i', h1, h2, h3, h4⟩ := edit_saved_bios _ (insertFvEditor_ok p _ nf hnc hsel) b hr
    hkeep pre post _ _ hdec hq hrw hc1 hs1 st st' t' hp hf ha hg
  refine ⟨?_, i', h1, h2, h3, ?_⟩
  · obtain ⟨h, hfd, hfv⟩ := hfind
    unfold insertOp
    rw [hfd]
    simp only [hfv, if_true]
    exact hrwt
  · rw [h4]
    cases front
    · simp only [Fv.files, Bool.false_eq_true, if_false, absFiles_append, avFiles_append, avFiles, List.append_nil]
    · simp only [Fv.files, if_true, avFiles]
      rw [absFiles_cons, absFiles_cons]
      simp [absFiles]

/-- **Remove / remove_pad, end to end**: the tree is a BIOS region `pre ++ volume :: post`; the selector
    matches files of that volume's own list only (nothing in the other top-level volumes, nothing below a
    file that stays); the list is not emptied (finding F26).  The edited, saved and re-parsed image
    shows: the lists of `pre`, then the old list minus exactly the matched files followed by the lists
    of the volumes nested in the files that stay, then the lists of `post`. -/
theorem remove_e2e_bios (p : Pred) (pad : Bool) (b : BiosRegion) (hr : Reach (.bios b))
    (hkeep : keepTree (removeEditor p pad 0xFF) (.bios b)) (pre post : List BiosElem)
    (i : FvInfo) (buf : Bytes) (files files1 : List File)
    (hdec : b.elems = pre ++ .fv (.mk i buf files) :: post)
    (hq : ∀ u, BiosElem.fv u ∈ pre ++ post → quietFv (removeEditor p pad 0xFF) u = true ∧ StableFv u)
    (hc : CanonFv (.mk i buf files)) (hsf : ∀ f ∈ files, StableFile f)
    (hqf : ∀ f ∈ files, fileHit p f = false → quietFile (removeEditor p pad 0xFF) f = true)
    (hrwf : rwFiles (removeEditor p pad 0xFF) files = .ok files1) (hne : files1 ≠ [])
    (st st' : St) (t' : Tree) (hp : st.pol = 0xFF) (hf : st.ffs3 = false)
    (ha : asmTreeWith Hooks.none (.bios { b with elems := pre ++ .fv (.mk i buf files1) :: post }) st = .ok (t', st'))
    (hg : GoodTree t') :
    removeOp p pad 0xFF (.bios b) = .ok (.bios { b with elems := pre ++ .fv (.mk i buf files1) :: post }) ∧
    ∃ i', Spec.WF i' ∧ t'.buf = Spec.ser i' ∧ parse Hooks.none t'.buf = .ok (Spec.tree i') ∧
      avTree (Spec.tree i') =
        avElems pre ++ (absFiles (files.filter (fun f => !fileHit p f)) :: avFiles files1) ++ avElems post := by
  have hrw : rwFv (removeEditor p pad 0xFF) (.mk i buf files) = .ok (.mk i buf files1) := by
    have hfv : (removeEditor p pad 0xFF).fv (.mk i buf files) = none := rfl
    rw [rwFv, hfv]
    simp only [hrwf]
  have hkv : keepFv (removeEditor p pad 0xFF) (.mk i buf files) := by
    have hk : keepElems (removeEditor p pad 0xFF) b.elems := hkeep
    rw [hdec] at hk
    clear hdec hq ha
    induction pre with
    | nil => exact hk.1
    | cons e pre ih =>
      cases e with
      | pad _ _ => exact ih hk
      | fv u => exact ih hk.2
  have hkf : keepFiles (removeEditor p pad 0xFF) files := by
    unfold keepFv at hkv
    rcases hkv with hkv | hkv
    · simp [removeEditor] at hkv
    · exact hkv.2
  have hcf1 := rwFiles_canon _ (removeEditor_ok p pad) files (canonFv_files _ hc) hkf files1 hrwf
  have hc1 : CanonFv (.mk i buf files1) := by
    unfold CanonFv at hc ⊢
    rcases hc with ⟨hfl, _⟩ | ⟨_, hsk, _⟩
    · subst hfl
      simp only [rwFiles, Except.ok.injEq] at hrwf
      exact absurd hrwf.symm hne
    · exact Or.inr ⟨hne, hsk, hcf1⟩
  have hs1 := rwFiles_remove_stable p pad 0xFF files files1 hsf hqf hrwf
  obtain ⟨hrwt, i', h1, h2, h3, h4⟩ := edit_saved_bios (removeEditor p pad 0xFF) (removeEditor_ok p pad) b hr
    hkeep pre post _ _ hdec hq hrw hc1 hs1 st st' t' hp hf ha hg
  refine ⟨hrwt, i', h1, h2, h3, ?_⟩
  rw [h4]
  simp only [Fv.files]
  rw [remove_abs p pad 0xFF files files1 hrwf]

/-- the parsed tree of a well-formed, tidy BIOS-region image: every top-level volume is stable -/
theorem stable_treeItems : ∀ (is : List (Bytes × FvI)) (tail : Bytes) (off : Nat), wfItems is tail = true →
    tidyItems is = true → ∀ u, BiosElem.fv u ∈ treeItems is off → StableFv u
  | [], _, _, _, _, u, hu => by simp [treeItems] at hu
  | (pd, v) :: is, tail, off, hw, ht, u, hu => by
    obtain ⟨hwv, _, hwi⟩ := wfItems_cons hw
    simp only [tidyItems, Bool.and_eq_true] at ht
    simp only [treeItems, List.mem_append, List.mem_cons] at hu
    rcases hu with hu | hu | hu
    · split at hu
      · simp at hu
      · simp at hu
    · cases hu
      exact stable_treeFv v hwv ht.1 _ _
    · exact stable_treeItems is tail _ hwi ht.2 u hu

/-- every file of a parsed, tidy file list is stable -/
theorem stable_treeFiles : ∀ (fs : List FileI) (off len : Nat), wfFiles off len fs = true → tidyFiles fs = true →
    ∀ f ∈ treeFiles fs, StableFile f
  | [], _, _, _, _, f, hf => by simp [treeFiles] at hf
  | fi :: fs, off, len, hw, ht, f, hf => by
    obtain ⟨hwf, _, _, _, hrest⟩ := wfFiles_cons hw
    simp only [tidyFiles, Bool.and_eq_true] at ht
    simp only [treeFiles, List.mem_cons] at hf
    rcases hf with rfl | hf
    · exact stable_treeFile fi hwf ht.1
    · exact stable_treeFiles fs _ len hrest ht.2 f hf

/-- the parsed tree of a well-formed, tidy BIOS-region image: every top-level volume is stable (the
    `StableFv` half of hypothesis `hq` of the end-to-end theorems) -/
theorem stable_treeBios (bi : BiosI) (h : WF (.bios bi)) (ht : tidy (.bios bi) = true) :
    ∀ u, BiosElem.fv u ∈ (treeBios bi none).elems → StableFv u := by
  intro u hu
  have h' : wf (.bios bi) = true := h
  simp only [wf, Bool.and_eq_true] at h'
  have hwb := h'.1
  simp only [wfBios, Bool.and_eq_true] at hwb
  simp only [treeBios, List.mem_append] at hu
  rcases hu with hu | hu
  · exact stable_treeItems bi.items bi.tail 0 hwb.1.2 ht u hu
  · split at hu
    · simp at hu
    · simp at hu

end Fiano.Uefi.Exact
