/-
  C03 follow-up (wp-c03b), layer 4: **Assemble maps the invariant into the grammar.**

  For every node that satisfies the invariant `Canon…` (ExactCanon.lean) — arbitrarily edited file
  lists, replaced PE32 sections, pad files, nested volumes at any depth —, if `Assemble.Visit`
  succeeds and the written node is `Good…`, then
    * the process state is unchanged (erase polarity 1, `useFFS3` never set),
    * the written node satisfies the invariant again (so a later edit / save starts from it),
    * its buffer is the serialisation of a well-formed node of the reference grammar, and
    * the tree a faithful reader reports for that grammar node shows, volume by volume, the same
      abstract file lists as the written node.
  Mutual induction over Section / Node / File / Fv; no bound on sizes, counts or nesting depth.
-/
import FianoModel.Uefi.ExactGram

namespace Fiano.Uefi.Exact
open Fiano Fiano.Uefi Fiano.Uefi.Spec

/-! ### leaf sections -/

theorem asm_canon_sec_leaf (i : SecInfo) (buf : Bytes) (st : St) (s' : Section) (st' : St)
    (hc : CanonSec (.mk i buf [])) (h : asmSection Hooks.none (.mk i buf []) st = .ok (s', st')) (hg : GoodSec s') :
    st' = st ∧ CanonSec s' ∧ ∃ si, wfSec si = true ∧ s'.buf = serSec si ∧
      ∀ ord, avSection (treeSec si ord) = avSection s' := by
  rw [asmSection_nil] at h
  unfold CanonSec at hc
  rcases hc with ⟨_, hc⟩ | ⟨_, _, hc⟩
  · rcases hc with ⟨ht, hts, hn, hsz⟩ | ⟨ht, hts, hb, hv, hsz⟩ | ⟨ht, hts, hops, hsz⟩ | ⟨h15, h14, hd, hts2, si, hw, hbuf, hav⟩
    · -- UI section: regenerated from the name
      have hregen : regenLeaf i = .ok (some (utf8ToUcs2 i.name)) := by simp [regenLeaf, ht]
      have hgen := genSecHeader_canon i (utf8ToUcs2 i.name) hts (by rw [ht]; decide) hsz
      rw [hregen] at h
      simp only [hgen] at h
      cases h
      have hlen : (canonSec i.type (utf8ToUcs2 i.name)).length < B := hg.1
      rw [canonSec_length] at hlen
      refine ⟨noteLarge_small _ _ (by simp only [canonInfo_extSize]; unfold B at hlen; omega), ?_, .ui i.name, ?_, ?_, ?_⟩
      · unfold CanonSec
        exact Or.inl ⟨rfl, Or.inl ⟨ht, hts, hn, hsz⟩⟩
      · simp only [wfSec, Bool.and_eq_true, decide_eq_true_eq]; exact ⟨hn, hsz⟩
      · simp only [Section.buf, serSec, ht]
      · intro ord; simp [treeSec, avSection, avNodes]
    · -- version section
      have hregen : regenLeaf i = .ok (some (leN 2 i.build ++ utf8ToUcs2 i.version)) := by simp [regenLeaf, ht]
      have hl : (leN 2 i.build ++ utf8ToUcs2 i.version).length = 2 + (utf8ToUcs2 i.version).length := by simp
      have hgen := genSecHeader_canon i (leN 2 i.build ++ utf8ToUcs2 i.version) hts (by rw [ht]; decide)
        (by rw [hl]; omega)
      rw [hregen] at h
      simp only [hgen] at h
      cases h
      have hlen : (canonSec i.type (leN 2 i.build ++ utf8ToUcs2 i.version)).length < B := hg.1
      rw [canonSec_length] at hlen
      refine ⟨noteLarge_small _ _ (by simp only [canonInfo_extSize]; unfold B at hlen; omega), ?_,
        .version i.build i.version, ?_, ?_, ?_⟩
      · unfold CanonSec
        exact Or.inl ⟨rfl, Or.inr (Or.inl ⟨ht, hts, hb, hv, hsz⟩)⟩
      · simp only [wfSec, Bool.and_eq_true, decide_eq_true_eq]; exact ⟨⟨hb, hv⟩, hsz⟩
      · simp only [Section.buf, serSec, ht]
      · intro ord; simp [treeSec, avSection, avNodes]
    · -- dependency expression
      obtain ⟨_, _, h2, h15, h14, _⟩ := isDepex_types i.type ht
      have hregen : regenLeaf i = .ok (some (encodeOps i.depex)) := by
        simp [regenLeaf, h15, h14, ht, encodeDepEx_eq i.depex hops]
      have hl := encodeOps_length i.depex (wfOps_guid i.depex hops)
      have hgen := genSecHeader_canon i (encodeOps i.depex) hts h2 (by rw [hl]; exact hsz)
      rw [hregen] at h
      simp only [hgen] at h
      cases h
      have hlen : (canonSec i.type (encodeOps i.depex)).length < B := hg.1
      rw [canonSec_length] at hlen
      refine ⟨noteLarge_small _ _ (by simp only [canonInfo_extSize]; unfold B at hlen; omega), ?_,
        .depex i.type i.depex, ?_, ?_, ?_⟩
      · unfold CanonSec
        exact Or.inl ⟨rfl, Or.inr (Or.inr (Or.inl ⟨ht, hts, hops, hsz⟩))⟩
      · simp only [wfSec, Bool.and_eq_true, decide_eq_true_eq]; exact ⟨⟨ht, hops⟩, hsz⟩
      · simp only [Section.buf, serSec]
      · intro ord; simp [treeSec, avSection, avNodes]
    · -- kept verbatim
      rw [regenLeaf_none i h15 h14 hd] at h
      cases h
      refine ⟨rfl, ?_, si, hw, hbuf, ?_⟩
      · unfold CanonSec
        exact Or.inl ⟨rfl, Or.inr (Or.inr (Or.inr ⟨h15, h14, hd, hts2, si, hw, hbuf, hav⟩))⟩
      · intro ord; rw [hav ord]; simp [avSection, avNodes]
  · exact absurd hc (by simp [CanonEncap])

/-! ### a file rebuilt from its sections -/

theorem casm_len_ge (i : FileInfo) (data : Bytes) : data.length ≤ (checksumAndAssemble i data).2.length := by
  unfold checksumAndAssemble
  simp only [List.length_append]
  omega

theorem sectAttrs_small (a d : Nat) (h : 24 + d < 0xFFFFFF) : sectAttrs a d = a &&& 0xFE := by
  unfold sectAttrs
  rw [if_neg (by omega)]

theorem asmFile_sect_gram (i : FileInfo) (buf : Bytes) (secs : List Section) (st : St) (secs' : List Section)
    (f' : File) (st' : St) (sis : List SecI)
    (hnv : i.nvar = none) (hsecs : asmSections Hooks.none secs st = .ok (secs', st)) (hne : secs' ≠ [])
    (hw : wfSecs sis = true) (hmap : secs'.map Section.buf = sis.map serSec)
    (hg : i.guid.length = 16) (ht : i.type < 256) (ha : i.attrs < 256) (hst : i.state < 256)
    (hsup : supportedFile i.type = true)
    (h : asmFile Hooks.none (.mk i buf secs) st = .ok (f', st')) (hsmall : f'.buf.length < B) :
    st' = st ∧ f'.buf = serFile (.sect i.guid i.type i.attrs i.state sis) ∧
      wfFile (.sect i.guid i.type i.attrs i.state sis) = true ∧
      f'.info.guid = i.guid ∧ f'.info.type = i.type ∧ f'.info.attrs = sectAttrs i.attrs (sizeSecs 0 sis) ∧
      f'.info.state = i.state ∧ f'.info.dataOffset = i.dataOffset ∧ f'.info.nvar = none ∧ f'.secs = secs' ∧
      24 + sizeSecs 0 sis < 0xFFFFFF ∧ f'.info.extSize = 24 + sizeSecs 0 sis := by
  obtain ⟨s0, ss0, hss⟩ : ∃ s0 ss0, secs' = s0 :: ss0 := by
    cases secs' with
    | nil => exact absurd rfl hne
    | cons a b => exact ⟨a, b, rfl⟩
  have hsne : sis ≠ [] := by
    intro hc; rw [hc, hss] at hmap; simp at hmap
  rw [asmFile] at h
  simp only [hnv, hsecs] at h
  rw [hss] at h
  split at h
  · rename_i hc; cases hc
  rw [← hss, hmap] at h
  -- the section area
  generalize hfd : joinPad4 (sis.map serSec) [] = fileData at h
  have hsmall0 : (checksumAndAssemble
      { i with attrs := (setSize i.attrs (24 + fileData.length) true).1,
               size3 := (setSize i.attrs (24 + fileData.length) true).2.1,
               extSize := (setSize i.attrs (24 + fileData.length) true).2.2 } fileData).2.length < B := by
    cases h; exact hsmall
  have hge := casm_len_ge
      { i with attrs := (setSize i.attrs (24 + fileData.length) true).1,
               size3 := (setSize i.attrs (24 + fileData.length) true).2.1,
               extSize := (setSize i.attrs (24 + fileData.length) true).2.2 } fileData
  have hjoin := joinPad4_gram sis [] hw (by rw [hfd]; unfold B at hsmall0; omega)
  rw [hfd] at hjoin
  simp only [List.nil_append, List.length_nil] at hjoin
  have hsl := length_serSecs sis 0 hw
  simp only [Nat.zero_add] at hsl
  have hd : fileData.length = sizeSecs 0 sis := by rw [hjoin, hsl]
  rw [hd, setSize_any] at h hsmall0
  simp only at h hsmall0
  -- the result is below 16 MiB: the short header form
  have hsmall' : 24 + sizeSecs 0 sis < 0xFFFFFF := by
    have hcl := casm_len_ge
      { i with attrs := sectAttrs i.attrs (sizeSecs 0 sis),
               size3 := if 24 + sizeSecs 0 sis ≥ 0xFFFFFF then 0xFFFFFF else 24 + sizeSecs 0 sis,
               extSize := if 24 + sizeSecs 0 sis ≥ 0xFFFFFF then 32 + sizeSecs 0 sis else 24 + sizeSecs 0 sis } fileData
    unfold checksumAndAssemble encodeFileHeader at hsmall0
    simp only [List.length_append, List.length_cons, List.length_nil, leN_length, hg] at hsmall0
    unfold B at hsmall0
    split at hsmall0 <;> simp at hsmall0 <;> omega
  simp only [show ¬ (24 + sizeSecs 0 sis ≥ 0xFFFFFF) by omega, if_false] at h
  cases h
  have hL : (sectAttrs i.attrs (sizeSecs 0 sis) &&& 1 ≠ 0) ↔ false = true := by
    rw [sectAttrs_large]
    constructor
    · intro hc; omega
    · intro hc; cases hc
  have hcg := casm_gen
    { i with attrs := sectAttrs i.attrs (sizeSecs 0 sis), size3 := 24 + sizeSecs 0 sis, extSize := 24 + sizeSecs 0 sis }
    false fileData hg hL rfl
  have hinfo := casm_info
    { i with attrs := sectAttrs i.attrs (sizeSecs 0 sis), size3 := 24 + sizeSecs 0 sis, extSize := 24 + sizeSecs 0 sis }
    fileData
  simp only [hnv] at hcg hinfo
  obtain ⟨g1, g2, g3, g4, g5, g6, _, g8⟩ := hinfo
  refine ⟨noteLarge_small _ _ (by omega), ?_, ?_, g1, g2, g3, g4, g5, g6, rfl, hsmall', g8⟩
  · simp only [File.buf]
    rw [hcg, hjoin]
    simp only [serFile, hsl, sectAttrs_40]
    have hdec : decide (24 + sizeSecs 0 sis ≥ 0xFFFFFF) = false := by simp; omega
    simp only [hdec, Bool.false_eq_true, if_false]
  · simp only [wfFile, Bool.and_eq_true, decide_eq_true_eq, beq_iff_eq, Bool.not_eq_true', List.isEmpty_eq_false_iff]
    exact ⟨⟨⟨⟨⟨⟨⟨hg, ht⟩, ha⟩, hst⟩, hsup⟩, hsne⟩, hw⟩, by omega⟩

/-! ### a volume re-laid from its files -/

theorem map_facts : ∀ (fs' : List File) (fis : List FileI), (∀ f ∈ fis, wfFile f = true) →
    fs'.map (fun f => (f.info.attrs, f.buf)) = fis.map (fun f => (storedAttrs f, serFile f)) → GoodFiles fs' →
    (∀ f ∈ fis, sizeFile f < B) ∧ fis.length = fs'.length
  | [], [], _, _, _ => ⟨by simp, rfl⟩
  | [], _ :: _, _, h, _ => by simp at h
  | _ :: _, [], _, h, _ => by simp at h
  | f' :: fs', fi :: fis, hwf, h, hg => by
    simp only [List.map_cons, List.cons.injEq, Prod.mk.injEq] at h
    obtain ⟨⟨_, hb⟩, hrest⟩ := h
    have hsz := length_serFile fi (hwf fi List.mem_cons_self)
    obtain ⟨f'i, f'b, f's⟩ := f'
    have hgf : f'b.length < B := hg.1.1
    have ih := map_facts fs' fis (fun g hg' => hwf g (List.mem_cons_of_mem _ hg')) hrest hg.2
    have hb' : f'b = serFile fi := hb
    refine ⟨?_, by simp [ih.2]⟩
    · intro g hg'
      rcases List.mem_cons.mp hg' with rfl | hg''
      · rw [← hsz, ← hb']; exact hgf
      · exact ih.1 g hg''

theorem asmFv_relaid_gram (i : FvInfo) (buf : Bytes) (files files' : List File) (st : St) (v' : Fv) (st' : St)
    (k : Skel) (fis : List FileI)
    (hk : k.Ok) (hi : InfoOf i k) (hbuf : buf.take k.pre = k.hdr)
    (hp : st.pol = 0xFF) (hf : st.ffs3 = false)
    (hfiles : asmFiles Hooks.none files st = .ok (files', st)) (hne : files' ≠ [])
    (hwf : ∀ f ∈ fis, wfFile f = true)
    (hmap : files'.map (fun f => (f.info.attrs, f.buf)) = fis.map (fun f => (storedAttrs f, serFile f)))
    (habs : absFiles (treeFiles fis) = absFiles files' ∧ avFiles (treeFiles fis) = avFiles files')
    (hcan : CanonFiles files')
    (h : asmFv Hooks.none (.mk i buf files) st = .ok (v', st')) (hg : GoodFv v') :
    st' = st ∧ CanonFv v' ∧ v'.info.attrs = i.attrs ∧ v'.info.resizable = i.resizable ∧
      v'.buf.length = v'.info.length ∧
      (i.resizable = false → v'.info.length = i.length ∧ v'.buf.take k.pre = buf.take k.pre) ∧
      ∃ vi, wfFv vi = true ∧ v'.buf = serFv vi ∧ ∀ off rz, avFv (treeFv vi off rz) = avFv v' := by
  have hgl : k.guid.length = 16 := by unfold Skel.guid; exact guid_v3_length k.v3
  obtain ⟨g0, gr, hfs'⟩ : ∃ g0 gr, files' = g0 :: gr := by
    cases files' with
    | nil => exact absurd rfl hne
    | cons a b => exact ⟨a, b, rfl⟩
  rw [asmFv, hi.hattrs, setPolarity_keep k.attrs st hk.hpol hp] at h
  simp only [hfiles] at h
  rw [hfs'] at h
  split at h
  · rename_i hc; cases hc
  rw [← hfs'] at h
  split at h
  · cases h
  rename_i i' out st2 hrel
  cases h
  -- the relayout
  unfold relayoutFv at hrel
  split at hrel
  · cases hrel
  split at hrel
  · cases hrel
  rename_i hbne
  split at hrel
  · cases hrel
  rename_i hdo
  split at hrel
  · cases hrel
  rename_i fbuf hplace
  have hbne' : k.blocks ≠ [] := by
    intro hc; rw [hi.hblocks, hc] at hbne; exact hbne rfl
  obtain ⟨_, hcount, hgoodfiles⟩ := hg
  have hsmall : out.length < B := by assumption
  obtain ⟨hsizes, hlen⟩ := map_facts files' fis hwf hmap hgoodfiles
  have hpre33 := k.pre_lt hk
  have hbudget := layEnd_budget fis k.pre (fun f hf' => by have := hsizes f hf'; unfold B at this; omega)
  have hlay62 : layEnd k.pre fis < 2 ^ 62 := by
    rw [hlen] at hbudget
    have : files'.length * 2 ^ 27 < 2 ^ 30 * 2 ^ 27 := Nat.mul_lt_mul_of_pos_right hcount (by decide)
    omega
  rw [hp, hi.hdo, hbuf, hmap] at hplace
  obtain ⟨hpl, hend⟩ := placeFiles_gram fis k.pre k.hdr hwf (k.hdr_length hk) hlay62
  rw [hpl] at hplace
  cases hplace
  -- the second half
  have hassoc : k.hdr ++ serFiles k.pre (withPads k.pre fis) =
      fvHeaderCk k.zv k.guid k.len k.attrs (ehoOf k.blocks k.ext) k.rsv k.rev k.blocks ++
        (preBytes k.blocks k.ext ++ serFiles k.pre (withPads k.pre fis)) := by
    simp only [Skel.hdr, List.append_assoc]
  have hwfP := fun len hfit hlt => wfFiles_withPads fis k.pre len hwf hfit hlt
  have hn' : (fvHeaderCk k.zv k.guid k.len k.attrs (ehoOf k.blocks k.ext) k.rsv k.rev k.blocks ++
      (preBytes k.blocks k.ext ++ serFiles k.pre (withPads k.pre fis))).length = layEnd k.pre fis := by
    rw [← hassoc, List.length_append, k.hdr_length hk]
    have := length_serFiles' (withPads k.pre fis) k.pre (wfFile_withPads fis k.pre hwf hlay62)
    rw [hend] at this
    omega
  rw [hassoc] at hrel
  obtain ⟨L', blocks', hbl, hk', hi', hnL, hst, hout, hfree, hrz, hnorz⟩ :=
    finishFv_gram i k hk hi _ st hp hf i' out st' (layEnd k.pre fis) hn' hlay62 (le_layEnd fis k.pre) hbne' hrel
  obtain ⟨c1, c2, c3, c4⟩ := hdr_congr k.blocks blocks' k.ext hbl
  -- the volume of the grammar
  have hL'B : L' < B := by
    have : out.length = L' := by
      rw [hout]
      simp only [List.length_append] at hn' ⊢
      simp only [ffs, List.length_replicate]
      have hgl' := fvHeaderCk_length k.zv k.guid L' k.attrs (ehoOf k.blocks k.ext) k.rsv k.rev blocks' hk.hzv hgl
      have hgl0 := fvHeaderCk_length k.zv k.guid k.len k.attrs (ehoOf k.blocks k.ext) k.rsv k.rev k.blocks hk.hzv hgl
      rw [hgl', c1]
      rw [hgl0] at hn'
      omega
    rw [← this]; exact hsmall
  have hpre' : ({ k with len := L', blocks := blocks' } : Skel).pre = k.pre := by simp only [Skel.pre, c4]
  have hfit : Fits k.pre L' fis := fits_of fis k.pre L' hnL
  have hwfFiles : wfFiles k.pre L' (withPads k.pre fis) = true :=
    wfFiles_withPads fis k.pre L' hwf hfit (by unfold B at hL'B; omega)
  have hbig : anyBigFiles (withPads k.pre fis) = false :=
    anyBigFiles_small _ (sizeFile_withPads fis k.pre (fun f hf' => by have := hsizes f hf'; unfold B at this; exact this)
      (by unfold B at hL'B; omega))
  have hblne : blocks' ≠ [] := by
    intro hc; rw [hc] at hbl; exact hbne' (List.length_eq_zero_iff.mp hbl.symm)
  have hwfv : wfFv (({ k with len := L', blocks := blocks' } : Skel).vol (withPads k.pre fis)) = true :=
    wfFv_vol _ hk' _ (by unfold B at hL'B; simp only; omega) (Or.inr hblne) (by rw [hpre']; exact hwfFiles)
      (by rw [hpre', hend]; exact hnL) hbig
  have hser : out = serFv (({ k with len := L', blocks := blocks' } : Skel).vol (withPads k.pre fis)) := by
    rw [serFv_vol _ _ (by rw [hpre', hend]; exact hnL), hpre', hend, hout]
    simp only [Skel.guid, c2, c3, List.append_assoc]
  refine ⟨hst, ?_, by simp only [Fv.info]; rw [hi'.hattrs]; exact hi.hattrs.symm, hrz, ?_, ?_, _, hwfv, hser, ?_⟩
  · unfold CanonFv
    refine Or.inr ⟨hne, ⟨_, hk', hi', ?_⟩, hcan⟩
    rw [hout, hpre']
    have : fvHeaderCk k.zv k.guid L' k.attrs (ehoOf k.blocks k.ext) k.rsv k.rev blocks' ++
        (preBytes k.blocks k.ext ++ serFiles k.pre (withPads k.pre fis) ++ ffs (L' - layEnd k.pre fis)) =
        ({ k with len := L', blocks := blocks' } : Skel).hdr ++
          (serFiles k.pre (withPads k.pre fis) ++ ffs (L' - layEnd k.pre fis)) := by
      simp only [Skel.hdr, Skel.guid, c2, c3, List.append_assoc]
    rw [this]
    exact take_left_len _ _ _ (by rw [Skel.hdr_length _ hk', hpre'])
  · simp only [Fv.buf, Fv.info]
    rw [hser, length_serFv _ hwfv, sizeFv_vol _ _ (by rw [hpre', hend]; exact hnL), hi'.hlen]
  · intro hnr
    obtain ⟨e1, e2⟩ := hnorz hnr
    subst e1 e2
    refine ⟨by simp only [Fv.info]; rw [hi'.hlen, hi.hlen], ?_⟩
    simp only [Fv.buf]
    rw [hbuf, hout]
    have : fvHeaderCk k.zv k.guid k.len k.attrs (ehoOf k.blocks k.ext) k.rsv k.rev k.blocks ++
        (preBytes k.blocks k.ext ++ serFiles k.pre (withPads k.pre fis) ++ ffs (k.len - layEnd k.pre fis)) =
        k.hdr ++ (serFiles k.pre (withPads k.pre fis) ++ ffs (k.len - layEnd k.pre fis)) := by
      simp only [Skel.hdr, List.append_assoc]
    rw [this]
    exact take_left_len _ _ _ (k.hdr_length hk)
  · intro off rz
    have hav := abs_withPads fis k.pre
    simp only [Skel.vol, treeFv, avFv, hav.1, hav.2, habs.1, habs.2]

/-! ### shapes of the results -/

theorem asmFile_shape (i : FileInfo) (buf : Bytes) (secs : List Section) (st : St) (f' : File) (st' : St)
    (hnv : i.nvar = none) (h : asmFile Hooks.none (.mk i buf secs) st = .ok (f', st')) :
    ∃ secs' st1, asmSections Hooks.none secs st = .ok (secs', st1) ∧ f'.secs = secs' := by
  rw [asmFile] at h
  simp only [hnv] at h
  split at h
  · cases h
  · rename_i secs' st1 hs
    refine ⟨secs', st1, hs, ?_⟩
    split at h
    · cases h; rfl
    · cases h; rfl

theorem asmFv_shape (i : FvInfo) (buf : Bytes) (files : List File) (st : St) (v' : Fv) (st' : St)
    (h : asmFv Hooks.none (.mk i buf files) st = .ok (v', st')) :
    ∃ st0 files' st1, setPolarity (polOfAttrs i.attrs) st = .ok st0 ∧
      asmFiles Hooks.none files st0 = .ok (files', st1) ∧ v'.files = files' := by
  rw [asmFv] at h
  split at h
  · cases h
  · rename_i st0 hs0
    split at h
    · cases h
    · rename_i files' st1 hfs
      refine ⟨st0, files', st1, hs0, hfs, ?_⟩
      split at h
      · cases h; rfl
      · split at h
        · cases h
        · cases h; rfl

theorem asmSections_length : ∀ (ss : List Section) (st : St) (ss' : List Section) (st' : St),
    asmSections Hooks.none ss st = .ok (ss', st') → ss'.length = ss.length
  | [], _, _, _, h => by simp [asmSections] at h; rw [h.1]
  | s :: ss, st, ss', st', h => by
    rw [asmSections] at h
    split at h
    · cases h
    · split at h
      · cases h
      · rename_i h2
        cases h
        simp [asmSections_length ss _ _ _ h2]

theorem asmFiles_length : ∀ (fs : List File) (st : St) (fs' : List File) (st' : St),
    asmFiles Hooks.none fs st = .ok (fs', st') → fs'.length = fs.length
  | [], _, _, _, h => by simp [asmFiles] at h; rw [h.1]
  | f :: fs, st, fs', st', h => by
    rw [asmFiles] at h
    split at h
    · cases h
    · split at h
      · cases h
      · rename_i h2
        cases h
        simp [asmFiles_length fs _ _ _ h2]

/-! ### the closure theorem -/

mutual

theorem asm_canon_sec : ∀ (s : Section), CanonSec s → ∀ (st : St) (s' : Section) (st' : St),
    st.pol = 0xFF → st.ffs3 = false → asmSection Hooks.none s st = .ok (s', st') → GoodSec s' →
    st' = st ∧ CanonSec s' ∧ ∃ si, wfSec si = true ∧ s'.buf = serSec si ∧
      ∀ ord, avSection (treeSec si ord) = avSection s'
  | .mk i buf [], hc, st, s', st', _, _, h, hg => asm_canon_sec_leaf i buf st s' st' hc h hg
  | .mk i buf (.sec _ :: _), hc, _, _, _, _, _, _, _ => by
    unfold CanonSec at hc
    rcases hc with ⟨he, _⟩ | ⟨_, _, hen⟩
    · cases he
    · exact absurd hen (by simp [CanonEncap])
  | .mk i buf (.fv _ :: _ :: _), hc, _, _, _, _, _, _, _ => by
    unfold CanonSec at hc
    rcases hc with ⟨he, _⟩ | ⟨_, _, hen⟩
    · cases he
    · exact absurd hen (by simp [CanonEncap])
  | .mk i buf (.fv v :: []), hc, st, s', st', hp, hf, h, hg => by
    unfold CanonSec at hc
    rcases hc with ⟨he, _⟩ | ⟨ht, hts, hen⟩
    · cases he
    have hcv : CanonFv v := by simpa [CanonEncap] using hen
    rw [asmSection] at h
    simp only [asmNodes] at h
    split at h
    · cases h
    rename_i enc st1 hn
    split at hn
    · cases hn
    rename_i v' st2 hv
    simp only [Except.ok.injEq, Prod.mk.injEq] at hn
    obtain ⟨he1, he2⟩ := hn
    subst he1 he2
    simp only [ht, show (0x17 : Nat) ≠ 0x02 by decide, if_false, List.map_cons, List.map_nil, Node.buf, joinPad4,
      List.length_nil, align4_zero, Nat.sub_self, List.replicate_zero, List.nil_append] at h
    split at h
    · cases h
    rename_i i' buf' hgen
    cases h
    obtain ⟨hbl, hgv, _⟩ := hg
    have hvsmall : v'.buf.length < B := by
      obtain ⟨vi', vb', vf'⟩ := v'
      exact hgv.1
    obtain ⟨hst, hcv', _, _, _, _, vi, hwv, hvb, hav⟩ := asm_canon_fv v hcv st v' st2 hp hf hv hgv
    subst hst
    have hcanon := genSecHeader_canon i v'.buf hts (by rw [ht]; decide) (by unfold B at hvsmall; omega)
    rw [hcanon] at hgen
    simp only [Except.ok.injEq, Prod.mk.injEq] at hgen
    obtain ⟨hi', hb'⟩ := hgen
    subst hi' hb'
    have hlen : (canonSec i.type v'.buf).length < B := hbl
    rw [canonSec_length] at hlen
    refine ⟨noteLarge_small _ _ (by simp only [canonInfo_extSize]; unfold B at hlen; omega), ?_, .fvimg vi, ?_, ?_, ?_⟩
    · unfold CanonSec
      exact Or.inr ⟨ht, hts, by simpa [CanonEncap] using hcv'⟩
    · simp only [wfSec, Bool.and_eq_true, decide_eq_true_eq]
      refine ⟨hwv, ?_⟩
      rw [← length_serFv vi hwv, ← hvb]
      unfold B at hvsmall; omega
    · simp only [Section.buf, serSec, ht, hvb]
    · intro ord
      simp only [treeSec, avSection, avNodes, hav 0 true]

theorem asm_canon_secs : ∀ (ss : List Section), CanonSecs ss → ∀ (st : St) (ss' : List Section) (st' : St),
    st.pol = 0xFF → st.ffs3 = false → asmSections Hooks.none ss st = .ok (ss', st') → GoodSecs ss' →
    st' = st ∧ CanonSecs ss' ∧ ∃ sis, wfSecs sis = true ∧ ss'.map Section.buf = sis.map serSec ∧
      ∀ ord, avSections (treeSecs sis ord) = avSections ss'
  | [], _, st, ss', st', _, _, h, _ => by
    simp only [asmSections, Except.ok.injEq, Prod.mk.injEq] at h
    obtain ⟨h1, h2⟩ := h
    subst h1 h2
    exact ⟨rfl, trivial, [], rfl, rfl, fun _ => rfl⟩
  | s :: ss, hc, st, ss', st', hp, hf, h, hg => by
    rw [asmSections] at h
    split at h
    · cases h
    rename_i s1 st1 hs1
    split at h
    · cases h
    rename_i ss1 st2 hs2
    cases h
    obtain ⟨e1, c1, si, w1, b1, a1⟩ := asm_canon_sec s hc.1 st s1 st1 hp hf hs1 hg.1
    subst e1
    obtain ⟨e2, c2, sis, w2, b2, a2⟩ := asm_canon_secs ss hc.2 st1 ss1 st' hp hf hs2 hg.2
    subst e2
    refine ⟨rfl, ⟨c1, c2⟩, si :: sis, by simp [wfSecs, w1, w2], by simp [b1, b2], ?_⟩
    intro ord
    simp only [treeSecs, avSections, a1 ord, a2 (ord + 1)]

theorem asm_canon_file : ∀ (f : File), CanonFile f → ∀ (st : St) (f' : File) (st' : St),
    st.pol = 0xFF → st.ffs3 = false → asmFile Hooks.none f st = .ok (f', st') → GoodFile f' →
    st' = st ∧ CanonFile f' ∧ ∃ fi, wfFile fi = true ∧ f'.buf = serFile fi ∧ f'.info.attrs = storedAttrs fi ∧
      f'.isPad = (treeFile fi).isPad ∧ (f'.isPad = false → absFile f' = absFile (treeFile fi)) ∧
      avFile (treeFile fi) = avFile f'
  | .mk i buf secs, hc, st, f', st', hp, hf, h, hg => by
    unfold CanonFile at hc
    obtain ⟨hnv, hext, hc⟩ := hc
    rcases hc with ⟨hs, g, ckh, ckf, t, a, stt, ext, body, hw, hb, hg1, ht1, ha1, hdo⟩ | ⟨hs, hgl, ht, ha, hstt, hsup, hdo, hcs⟩
    · -- kept verbatim
      subst hs
      rw [asmFile] at h
      simp only [hnv, asmSections] at h
      cases h
      refine ⟨rfl, ?_, .leaf g ckh ckf t a stt ext body, hw, hb, ha1, ?_, ?_, ?_⟩
      · unfold CanonFile
        exact ⟨hnv, hext, Or.inl ⟨rfl, g, ckh, ckf, t, a, stt, ext, body, hw, hb, hg1, ht1, ha1, hdo⟩⟩
      · simp only [File.isPad, File.info, treeFile, ht1]
      · intro hpad
        have htne : t ≠ 0xF0 := by
          intro hc'
          simp [File.isPad, File.info, ht1, hc'] at hpad
        simp only [absFile, File.info, File.buf, treeFile, hg1, ht1, ha1, hdo htne, hb]
      · simp [treeFile, avFile, avSections]
    · -- rebuilt from its sections
      obtain ⟨secs', st1, hsecs, hfs⟩ := asmFile_shape i buf secs st f' st' hnv h
      obtain ⟨f'i, f'b, f's⟩ := f'
      simp only [File.secs] at hfs
      subst hfs
      obtain ⟨e1, c1, sis, w1, b1, a1⟩ := asm_canon_secs secs hcs st f's st1 hp hf hsecs hg.2
      subst e1
      have hne : f's ≠ [] := by
        intro hc'
        have := asmSections_length secs _ _ _ hsecs
        rw [hc'] at this
        exact hs (List.length_eq_zero_iff.mp this.symm)
      obtain ⟨e2, hbuf, hwf, g1, g2, g3, g4, g5, g6, _, hsm, g8⟩ :=
        asmFile_sect_gram i buf secs st1 f's (.mk f'i f'b f's) st' sis hnv hsecs hne w1 b1 hgl ht ha hstt hsup h hg.1
      simp only [File.info, File.buf] at g1 g2 g3 g4 g5 g6 g8 hbuf
      have hdec : decide (24 + sizeSecs 0 sis ≥ 0xFFFFFF) = false := by simp; omega
      refine ⟨e2, ?_, .sect i.guid i.type i.attrs i.state sis, hwf, hbuf, by simp only [File.info, storedAttrs, g3], ?_, ?_, ?_⟩
      · unfold CanonFile
        refine ⟨g6, by rw [g8]; omega, Or.inr ⟨hne, by rw [g1]; exact hgl, by rw [g2]; exact ht, ?_, by rw [g4]; exact hstt,
          by rw [g2]; exact hsup, by rw [g5]; exact hdo, c1⟩⟩
        rw [g3]; exact sectAttrs_lt _ _ ha
      · simp only [File.isPad, File.info, treeFile, g2]
      · intro _
        simp only [absFile, File.info, File.buf, treeFile, g1, g2, g3, g5, hdo, hbuf, hdec, Bool.false_eq_true, if_false]
      · simp only [treeFile, avFile, a1 0]

theorem asm_canon_files : ∀ (fs : List File), CanonFiles fs → ∀ (st : St) (fs' : List File) (st' : St),
    st.pol = 0xFF → st.ffs3 = false → asmFiles Hooks.none fs st = .ok (fs', st') → GoodFiles fs' →
    st' = st ∧ CanonFiles fs' ∧ ∃ fis, (∀ fi ∈ fis, wfFile fi = true) ∧
      fs'.map (fun f => (f.info.attrs, f.buf)) = fis.map (fun f => (storedAttrs f, serFile f)) ∧
      absFiles (treeFiles fis) = absFiles fs' ∧ avFiles (treeFiles fis) = avFiles fs'
  | [], _, st, fs', st', _, _, h, _ => by
    simp only [asmFiles, Except.ok.injEq, Prod.mk.injEq] at h
    obtain ⟨h1, h2⟩ := h
    subst h1 h2
    exact ⟨rfl, trivial, [], by simp, rfl, rfl, rfl⟩
  | f :: fs, hc, st, fs', st', hp, hf, h, hg => by
    rw [asmFiles] at h
    split at h
    · cases h
    rename_i f1 st1 h1
    split at h
    · cases h
    rename_i fs1 st2 h2
    cases h
    obtain ⟨e1, c1, fi, w1, b1, at1, p1, ab1, av1⟩ := asm_canon_file f hc.1 st f1 st1 hp hf h1 hg.1
    subst e1
    obtain ⟨e2, c2, fis, w2, m2, ab2, av2⟩ := asm_canon_files fs hc.2 st1 fs1 st' hp hf h2 hg.2
    subst e2
    refine ⟨rfl, ⟨c1, c2⟩, fi :: fis, ?_, by simp [at1, b1, m2], ?_, ?_⟩
    · intro x hx
      rcases List.mem_cons.mp hx with rfl | hx'
      · exact w1
      · exact w2 x hx'
    · simp only [treeFiles]
      rw [absFiles_cons, absFiles_cons, ab2, ← p1]
      cases hpd : f1.isPad with
      | true => rfl
      | false => rw [ab1 hpd]
    · simp only [treeFiles, avFiles, av1, av2]

theorem asm_canon_fv : ∀ (v : Fv), CanonFv v → ∀ (st : St) (v' : Fv) (st' : St),
    st.pol = 0xFF → st.ffs3 = false → asmFv Hooks.none v st = .ok (v', st') → GoodFv v' →
    st' = st ∧ CanonFv v' ∧ v'.info.attrs = v.info.attrs ∧ v'.info.resizable = v.info.resizable ∧
      v'.buf.length = v'.info.length ∧
      (v.info.resizable = false → v'.info.length = v.info.length ∧ v'.buf.take 64 = v.buf.take 64) ∧
      ∃ vi, wfFv vi = true ∧ v'.buf = serFv vi ∧ ∀ off rz, avFv (treeFv vi off rz) = avFv v'
  | .mk i buf files, hc, st, v', st', hp, hf, h, hg => by
    unfold CanonFv at hc
    rcases hc with ⟨hfl, vi, hw, hb, hat, hlen, hav⟩ | ⟨hne, ⟨k, hk, hi, hbuf⟩, hcf⟩
    · -- no file nodes: kept verbatim
      subst hfl
      rw [asmFv, hat, setPolarity_keep _ st (attrsOfFv_pol vi hw) hp] at h
      simp only [asmFiles] at h
      cases h
      refine ⟨rfl, ?_, rfl, rfl, ?_, fun _ => ⟨rfl, rfl⟩, vi, hw, hb, ?_⟩
      · unfold CanonFv
        exact Or.inl ⟨rfl, vi, hw, hb, hat, hlen, hav⟩
      · simp only [Fv.buf, Fv.info, hb, length_serFv vi hw, hlen]
      · intro off rz
        rw [hav off rz]
        simp [avFv, absFiles, avFiles]
    · -- re-laid
      obtain ⟨st0, files', st1, hs0, hfs, hvf⟩ := asmFv_shape i buf files st v' st' h
      rw [hi.hattrs, setPolarity_keep k.attrs st hk.hpol hp] at hs0
      cases hs0
      obtain ⟨v'i, v'b, v'f⟩ := v'
      simp only [Fv.files] at hvf
      subst hvf
      obtain ⟨e1, c1, fis, w1, m1, ab1, av1⟩ := asm_canon_files files hcf st v'f st1 hp hf hfs hg.2.2
      subst e1
      have hne' : v'f ≠ [] := by
        intro hc'
        have := asmFiles_length files _ _ _ hfs
        rw [hc'] at this
        exact hne (List.length_eq_zero_iff.mp this.symm)
      obtain ⟨r1, r2, r3, r4, r5, r6, r7⟩ := asmFv_relaid_gram i buf files v'f st1 (.mk v'i v'b v'f) st' k fis hk hi hbuf
        hp hf hfs hne' w1 m1 ⟨ab1, av1⟩ c1 h hg
      refine ⟨r1, r2, r3, r4, r5, ?_, r7⟩
      intro hnr
      obtain ⟨x1, x2⟩ := r6 hnr
      refine ⟨x1, ?_⟩
      have h64 := k.pre_ge
      have := congrArg (List.take 64) x2
      simpa [List.take_take, Nat.min_eq_left h64, Fv.buf] using this

end

end Fiano.Uefi.Exact
