/-
  Property C06 — the *decoded tree* of an image.

  `decTree t` is what the tree `t` holds once every compressed section is replaced by its decoded
  children — nested volumes, files, sections, bytes — and nothing that merely records how the
  content is packed: sizes, offsets, checksums, compressed streams, block counts, lengths, free
  space and pad files are left out.  Verbatim nodes (regions, paddings, volumes whose files the tool
  does not read, files without sections, leaf sections) contribute their bytes.

  `decText` is the wire form shared with the Go harness (harness/props/c06/dectree.go produces the
  same text from a `uefi.Firmware` tree): records in pre-order joined by " | ", each record ending in
  `n=<number of children>`; `fnv` = FNV-1a-64 as 16 hex digits.

    flash ifd=<fnv of the descriptor>          children: regions
    bios                                        children: paddings and volumes
    me len fnv | raw t len fnv | pad len fnv
    fvraw len fnv                               a volume whose files the tool does not read
    fv guid attrs rev hdr=<fnv of `maskHdr`> bs=<block sizes>     children: files that are not pad files
    fileraw guid type len fnv                   a file kept verbatim (no sections)
    file guid type attrs=<bit 0 cleared> state  children: sections
    gsec g attrs comp                           a decoded GUID-defined section
    vsec                                        a volume-image section
    ui name | ver build ver | depex type ops    decoded leaf sections
    sraw type len fnv                           any other section, verbatim (header included)

  Core Lean only.
-/
import FianoModel.Uefi.Dump

namespace Fiano.Uefi.Nested
open Fiano Fiano.Uefi

/-- the decoded content -/
inductive Dec where
  | flash (ifd : Bytes) (regions : List Dec)
  | bios (elems : List Dec)
  | me (buf : Bytes)
  | raw (t : Int) (buf : Bytes)
  | pad (buf : Bytes)
  | fvraw (buf : Bytes)
  | fv (fsGuid : Guid) (attrs rev : Nat) (hdr : Bytes) (blockSizes : List Nat) (files : List Dec)
  | fileraw (guid : Guid) (type : Nat) (buf : Bytes)
  | file (guid : Guid) (type attrs state : Nat) (secs : List Dec)
  | gsec (guid : Guid) (attrs : Nat) (comp : String) (kids : List Dec)
  | vsec (kids : List Dec)
  | ui (name : List Nat)
  | ver (build : Nat) (version : List Nat)
  | depex (type : Nat) (ops : List DepOp)
  | sraw (type : Nat) (buf : Bytes)

/-- the bytes of a volume header that a save may rewrite: file-system GUID and length [16,40),
    checksum [50,52), `Blocks[0].Count` [56,60) -/
def maskedAt (i : Nat) : Bool := (16 ≤ i && i < 40) || (50 ≤ i && i < 52) || (56 ≤ i && i < 60)

def maskFrom : Nat → Bytes → Bytes
  | _, [] => []
  | i, x :: xs => (if maskedAt i then 0 else x) :: maskFrom (i + 1) xs

/-- `buf[0:DataOffset]` (header, block map, extended header) with the rewritable fields zeroed -/
def maskHdr (buf : Bytes) (dataOffset : Nat) : Bytes := maskFrom 0 (buf.take dataOffset)

def filePadType : Nat := 0xF0

mutual
  def decSection : Section → Dec
    | .mk i buf encap =>
      match encap with
      | _ :: _ =>
        if i.type = 0x02 then
          match i.ts with
          | some g => .gsec g.guid g.attrs g.compression (decNodes encap)
          | none => .gsec [] 0 "" (decNodes encap)
        else .vsec (decNodes encap)
      | [] =>
        if i.type = 0x15 then .ui i.name
        else if i.type = 0x14 then .ver i.build i.version
        else if isDepexType i.type && !i.depex.isEmpty then .depex i.type i.depex
        else .sraw i.type buf
  def decNodes : List Node → List Dec
    | [] => []
    | .sec s :: ns => decSection s :: decNodes ns
    | .fv v :: ns => decFv v :: decNodes ns
  def decSections : List Section → List Dec
    | [] => []
    | s :: ss => decSection s :: decSections ss
  def decFile : File → Dec
    | .mk i buf secs =>
      match secs with
      | [] => .fileraw i.guid i.type buf
      | _ :: _ => .file i.guid i.type (i.attrs &&& 0xFE) i.state (decSections secs)
  /-- pad files are layout, not content -/
  def decFiles : List File → List Dec
    | [] => []
    | f :: fs => if f.info.type = filePadType then decFiles fs else decFile f :: decFiles fs
  def decFv : Fv → Dec
    | .mk i buf files =>
      match files with
      | [] => .fvraw buf
      | _ :: _ => .fv i.fsGuid i.attrs i.revision (maskHdr buf i.dataOffset) (i.blocks.map (·.size)) (decFiles files)
end

def decBiosElems : List BiosElem → List Dec
  | [] => []
  | .pad b _ :: es => .pad b :: decBiosElems es
  | .fv v :: es => decFv v :: decBiosElems es

def decRegion : Region → Dec
  | .bios b => .bios (decBiosElems b.elems)
  | .me buf _ => .me buf
  | .raw buf _ t => .raw t buf

/-- **the fully decoded tree** -/
def decTree : Tree → Dec
  | .flash f => .flash f.ifd.buf (f.regions.map decRegion)
  | .bios b => .bios (decBiosElems b.elems)

/-! ### wire form -/

def lf (b : Bytes) : String := s!"len={b.length} fnv={fnvOf b}"

mutual
  def decRecords : Dec → List String
    | .flash ifd rs => s!"flash ifd={fnvOf ifd} n={rs.length}" :: decRecordsL rs
    | .bios es => s!"bios n={es.length}" :: decRecordsL es
    | .me b => [s!"me {lf b} n=0"]
    | .raw t b => [s!"raw t={t} {lf b} n=0"]
    | .pad b => [s!"pad {lf b} n=0"]
    | .fvraw b => [s!"fvraw {lf b} n=0"]
    | .fv g attrs rev hdr bs files =>
      s!"fv guid={hexOf g} attrs={attrs} rev={rev} hdr={fnvOf hdr} bs={orDash (joinWith "," (bs.map toString))} n={files.length}"
        :: decRecordsL files
    | .fileraw g t b => [s!"fileraw guid={hexOf g} type={t} {lf b} n=0"]
    | .file g t a st secs => s!"file guid={hexOf g} type={t} attrs={a} state={st} n={secs.length}" :: decRecordsL secs
    | .gsec g a comp kids => s!"gsec g={hexOf g} attrs={a} comp={comp} n={kids.length}" :: decRecordsL kids
    | .vsec kids => s!"vsec n={kids.length}" :: decRecordsL kids
    | .ui name => [s!"ui name={cpsOf name} n=0"]
    | .ver build v => [s!"ver build={build} ver={cpsOf v} n=0"]
    | .depex t ops => [s!"depex type={t} ops={depexOf ops} n=0"]
    | .sraw t b => [s!"sraw type={t} {lf b} n=0"]
  def decRecordsL : List Dec → List String
    | [] => []
    | d :: ds => decRecords d ++ decRecordsL ds
end

def decText (d : Dec) : String := joinWith " | " (decRecords d)

def decDigest (d : Dec) : String := hex16 (fnv1a (decText d).toUTF8.toList)

end Fiano.Uefi.Nested
