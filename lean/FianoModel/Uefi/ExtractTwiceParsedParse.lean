/-
  Property C07, follow-up wp-c07c — every tree `uefi.Parse` builds (any hooks) has attribute BYTES in its files
  (`at256Tree`): the induction of Uefi/ExtractParse.lean (`parse_okTree`) repeated for that predicate.
-/
import FianoModel.Uefi.ExtractTwiceParsedDefs
import FianoModel.Uefi.ExtractParse

namespace Fiano.Uefi
open Fiano

theorem atp_rd1_lt (b : Bytes) (off : Nat) : rd b off 1 < 256 := by
  unfold rd
  have h := fromLE_lt (slice b off 1)
  have hl : (slice b off 1).length ≤ 1 := by simp [slice]; omega
  calc fromLE (slice b off 1) < 256 ^ (slice b off 1).length := h
    _ ≤ 256 ^ 1 := Nat.pow_le_pow_right (by omega) hl
    _ = 256 := rfl

/-- the attribute field `NewFile` reads is one byte -/
theorem atp_fileHeader_attrs (buf : Bytes) (i : FileInfo) (he : fileHeader buf = .ok (some i)) : i.attrs < 256 := by
  simp only [fileHeader] at he
  repeat' split at he
  all_goals first
    | (simp at he; done)
    | skip
  all_goals (simp only [Except.ok.injEq, Option.some.injEq] at he)
  all_goals (subst he)
  all_goals (rename_i hh _ ; repeat' split at hh)
  all_goals first
    | (simp at hh; done)
    | skip
  all_goals (simp only [Except.ok.injEq, Option.some.injEq] at hh)
  all_goals (subst hh)
  all_goals (exact atp_rd1_lt buf 19)

/-- what the round trip needs, for one recursion budget -/
def atp_OKP (h : Hooks) (fuel : Nat) : Prop :=
  (∀ buf ord st s st', parseSection h fuel buf ord st = .ok (s, st') → at256Section s = true) ∧
  (∀ enc off idx st ns st', parseEncap h fuel enc off idx st = .ok (ns, st') → at256Nodes ns = true) ∧
  (∀ fbuf off ext idx st ss st', parseSections h fuel fbuf off ext idx st = .ok (ss, st') → at256Sections ss = true) ∧
  (∀ buf st f st', parseFile h fuel buf st = .ok (some f, st') → at256File f = true) ∧
  (∀ data off lh len st fs free st', parseFiles h fuel data off lh len st = .ok (fs, free, st') → at256Files fs = true) ∧
  (∀ data off rz st v st', parseFv h fuel data off rz st = .ok (v, st') → at256Fv v = true)

theorem atp_okp_zero (h : Hooks) : atp_OKP h 0 := by
  refine ⟨?_, ?_, ?_, ?_, ?_, ?_⟩ <;> intros <;> simp_all [parseSection, parseEncap, parseSections, parseFile, parseFiles, parseFv]

theorem atp_okp_section_step (h : Hooks) (fuel : Nat) (ih : atp_OKP h fuel) :
    ∀ buf ord st s st', parseSection h (fuel + 1) buf ord st = .ok (s, st') → at256Section s = true := by
  intro buf ord st s st' hp
  simp only [parseSection] at hp
  repeat' split at hp
  all_goals first
    | (simp at hp; done)
    | skip
  all_goals (simp only [Except.ok.injEq, Prod.mk.injEq] at hp)
  all_goals (obtain ⟨rfl, rfl⟩ := hp)
  all_goals first
    | (simp [mkSection, at256Section, at256Nodes]; done)
    | (have hx := ih.2.1 _ _ _ _ _ _ (by assumption)
       simp_all [mkSection, at256Section, keepsBuf]; done)
    | (have hx := ih.2.2.2.2.2 _ _ _ _ _ _ (by assumption)
       simp_all [mkSection, at256Section, at256Nodes, keepsBuf]; done)

theorem atp_okp_encap_step (h : Hooks) (fuel : Nat) (ih : atp_OKP h fuel) :
    ∀ enc off idx st ns st', parseEncap h (fuel + 1) enc off idx st = .ok (ns, st') → at256Nodes ns = true := by
  intro enc off idx st ns st' hp
  simp only [parseEncap] at hp
  repeat' split at hp
  all_goals first
    | (simp at hp; done)
    | skip
  all_goals (simp only [Except.ok.injEq, Prod.mk.injEq] at hp)
  all_goals (obtain ⟨rfl, rfl⟩ := hp)
  · have h1 := ih.1 _ _ _ _ _ (by assumption)
    have h2 := ih.2.1 _ _ _ _ _ _ (by assumption)
    simp [at256Nodes, h1, h2]
  · simp [at256Nodes]

theorem atp_okp_sections_step (h : Hooks) (fuel : Nat) (ih : atp_OKP h fuel) :
    ∀ fbuf off ext idx st ss st', parseSections h (fuel + 1) fbuf off ext idx st = .ok (ss, st') → at256Sections ss = true := by
  intro fbuf off ext idx st ss st' hp
  simp only [parseSections] at hp
  repeat' split at hp
  all_goals first
    | (simp at hp; done)
    | skip
  all_goals (simp only [Except.ok.injEq, Prod.mk.injEq] at hp)
  all_goals (obtain ⟨rfl, rfl⟩ := hp)
  · have h1 := ih.1 _ _ _ _ _ (by assumption)
    have h2 := ih.2.2.1 _ _ _ _ _ _ _ (by assumption)
    simp [at256Sections, h1, h2]
  · simp [at256Sections]

theorem atp_okp_file_step (h : Hooks) (fuel : Nat) (ih : atp_OKP h fuel) :
    ∀ buf st f st', parseFile h (fuel + 1) buf st = .ok (some f, st') → at256File f = true := by
  intro buf st f st' hp
  simp only [parseFile] at hp
  repeat' split at hp
  all_goals first
    | (simp at hp; done)
    | skip
  all_goals (simp only [Except.ok.injEq, Prod.mk.injEq, Option.some.injEq] at hp)
  all_goals (obtain ⟨rfl, rfl⟩ := hp)
  all_goals (have hi := atp_fileHeader_attrs _ _ (by assumption))
  all_goals first
    | (simp [at256File, at256Sections, hi]; done)
    | (have hx := ih.2.2.1 _ _ _ _ _ _ _ (by assumption)
       simp [at256File, hi, hx]; done)

theorem atp_okp_files_step (h : Hooks) (fuel : Nat) (ih : atp_OKP h fuel) :
    ∀ data off lh len st fs free st', parseFiles h (fuel + 1) data off lh len st = .ok (fs, free, st') → at256Files fs = true := by
  intro data off lh len st fs free st' hp
  simp only [parseFiles] at hp
  repeat' split at hp
  all_goals first
    | (simp at hp; done)
    | skip
  all_goals (simp only [Except.ok.injEq, Prod.mk.injEq] at hp)
  all_goals (obtain ⟨rfl, rfl, rfl⟩ := hp)
  all_goals first
    | (simp [at256Files]; done)
    | (have h1 := ih.2.2.2.1 _ _ _ _ (by assumption)
       have h2 := ih.2.2.2.2.1 _ _ _ _ _ _ _ _ (by assumption)
       simp [at256Files, h1, h2]; done)

theorem atp_okp_fv_step (h : Hooks) (fuel : Nat) (ih : atp_OKP h fuel) :
    ∀ data off rz st v st', parseFv h (fuel + 1) data off rz st = .ok (v, st') → at256Fv v = true := by
  intro data off rz st v st' hp
  simp only [parseFv] at hp
  repeat' split at hp
  all_goals first
    | (simp at hp; done)
    | skip
  all_goals (simp only [Except.ok.injEq, Prod.mk.injEq] at hp)
  all_goals (obtain ⟨rfl, rfl⟩ := hp)
  all_goals first
    | (simp [at256Fv, at256Files]; done)
    | skip
  all_goals
    (have hfiles := (by assumption : parseFiles h fuel _ _ _ _ _ = Except.ok (_, _, _))
     have hx := ih.2.2.2.2.1 _ _ _ _ _ _ _ _ hfiles
     simp [at256Fv, hx])

theorem atp_okp_all (h : Hooks) : ∀ fuel, atp_OKP h fuel
  | 0 => atp_okp_zero h
  | fuel + 1 =>
    have ih := atp_okp_all h fuel
    ⟨atp_okp_section_step h fuel ih, atp_okp_encap_step h fuel ih, atp_okp_sections_step h fuel ih, atp_okp_file_step h fuel ih,
      atp_okp_files_step h fuel ih, atp_okp_fv_step h fuel ih⟩

theorem atp_okBiosElems_append (a b : List BiosElem) : at256BiosElems (a ++ b) = (at256BiosElems a && at256BiosElems b) := by
  induction a with
  | nil => simp [at256BiosElems]
  | cons x t ih => cases x <;> simp [at256BiosElems, ih, Bool.and_assoc]

theorem atp_ok_bioselems (h : Hooks) : ∀ (fuel : Nat) (buf : Bytes) (abs : Nat) (st : St)
    (es : List BiosElem) (st' : St), parseBiosElems h fuel buf abs st = .ok (es, st') → at256BiosElems es = true
  | 0, _, _, _, _, _, hp => by simp [parseBiosElems] at hp
  | fuel + 1, buf, abs, st, es, st', hp => by
    simp only [parseBiosElems] at hp
    repeat' split at hp
    all_goals first
      | (simp at hp; done)
      | skip
    all_goals (simp only [Except.ok.injEq, Prod.mk.injEq] at hp)
    all_goals (obtain ⟨rfl, rfl⟩ := hp)
    all_goals first
      | (simp [at256BiosElems]; done)
      | (have h1 := (atp_okp_all h fuel).2.2.2.2.2 _ _ _ _ _ _ (by assumption)
         have h2 := atp_ok_bioselems h fuel _ _ _ _ _ (by assumption)
         simp [at256BiosElems, atp_okBiosElems_append, h1, h2]; done)

theorem atp_ok_bios (h : Hooks) (fuel : Nat) (buf : Bytes) (fr : Option FlashRegion) (st : St)
    (b : BiosRegion) (st' : St) (hp : parseBios h fuel buf fr st = .ok (b, st')) : at256BiosElems b.elems = true := by
  unfold parseBios at hp
  split at hp
  · simp at hp
  · rename_i es st'' hes
    simp only [Except.ok.injEq, Prod.mk.injEq] at hp
    obtain ⟨rfl, rfl⟩ := hp
    exact atp_ok_bioselems h _ _ _ _ _ _ hes

/-! ### regions -/

def at256Region : Region → Bool
  | .bios b => at256BiosElems b.elems
  | _ => true

theorem atp_okRegions_cons (r : Region) (rs : List Region) : at256Regions (r :: rs) = (at256Region r && at256Regions rs) := by
  cases r <;> simp [at256Regions, at256Region]

theorem atp_okRegions_insert (r : Region) : ∀ l : List Region, at256Regions (insertRegion r l) = (at256Region r && at256Regions l)
  | [] => by simp [insertRegion, atp_okRegions_cons, at256Regions]
  | x :: xs => by
    simp only [insertRegion]
    split
    · simp [atp_okRegions_cons]
    · simp only [atp_okRegions_cons, atp_okRegions_insert r xs]
      cases at256Region x <;> cases at256Region r <;> simp

theorem atp_okRegions_sort : ∀ l : List Region, at256Regions (sortRegions l) = at256Regions l
  | [] => rfl
  | x :: xs => by
    simp only [sortRegions, List.foldr_cons] at *
    rw [atp_okRegions_insert, atp_okRegions_cons]
    have := atp_okRegions_sort xs
    simp only [sortRegions] at this
    rw [this]

theorem atp_okRegions_fillGaps (fbuf : Bytes) (size : Nat) : ∀ (l : List Region) (off : Nat) (out : List Region),
    fillGaps fbuf size l off = .ok out → at256Regions l = true → at256Regions out = true
  | [], off, out, hp, _ => by
    simp only [fillGaps] at hp
    split at hp <;> simp only [Except.ok.injEq] at hp <;> subst hp <;> simp [at256Regions]
  | r :: rs, off, out, hp, hok => by
    rw [atp_okRegions_cons] at hok
    simp only [Bool.and_eq_true] at hok
    simp only [fillGaps] at hp
    repeat' split at hp
    all_goals first
      | (simp at hp; done)
      | skip
    all_goals (simp only [Except.ok.injEq] at hp)
    all_goals (subst hp)
    all_goals (have ih := atp_okRegions_fillGaps fbuf size rs _ _ (by assumption) hok.2)
    all_goals (simp only [atp_okRegions_cons, ih, hok.1, Bool.and_self, Bool.and_true])
    all_goals (try rfl)

theorem atp_ok_one (h : Hooks) (fuel : Nat) (rbuf : Bytes) (fr : FlashRegion) (i : Nat)
    (st : St) (r : Region) (st1 : St)
    (hone : (if i = 0 then
              (match parseBios h fuel rbuf (some fr) st with
                | .error e => (.error e : Except Err (Region × St))
                | .ok (b, st') => .ok (.bios b, st'))
            else if i = 1 then .ok (.me rbuf fr, st)
            else .ok (.raw rbuf fr i, st)) = .ok (r, st1)) : at256Region r = true := by
  repeat' split at hone
  all_goals first
    | (simp at hone; done)
    | skip
  all_goals (simp only [Except.ok.injEq, Prod.mk.injEq] at hone)
  all_goals (obtain ⟨rfl, rfl⟩ := hone)
  all_goals first
    | rfl
    | exact atp_ok_bios h _ _ _ _ _ _ (by assumption)

theorem atp_ok_parseRegions (h : Hooks) (fuel : Nat) (buf : Bytes) (nr : Nat) :
    ∀ (frs : List FlashRegion) (i : Nat) (st : St) (rs : List Region) (st' : St),
      parseRegions h fuel buf nr frs i st = .ok (rs, st') → at256Regions rs = true
  | [], _, _, _, _, hp => by
    simp only [parseRegions, Except.ok.injEq, Prod.mk.injEq] at hp
    rw [← hp.1]; rfl
  | fr :: frs, i, st, rs, st', hp => by
    simp only [parseRegions] at hp
    split at hp
    · simp only [Except.ok.injEq, Prod.mk.injEq] at hp
      rw [← hp.1]; rfl
    · split at hp
      · exact atp_ok_parseRegions h fuel buf nr frs _ _ _ _ hp
      · split at hp
        · simp at hp
        · rename_i r st1 hone
          split at hp
          · simp at hp
          · rename_i rs' st2 hrest
            simp only [Except.ok.injEq, Prod.mk.injEq] at hp
            obtain ⟨rfl, rfl⟩ := hp
            rw [atp_okRegions_cons, atp_ok_parseRegions h fuel buf nr frs _ _ _ _ hrest, Bool.and_true]
            exact atp_ok_one h fuel _ fr i st r st1 hone

/-- a parsed tree (no NVAR store parsed) has what the round trip needs -/
theorem atp_parse_okTree (h : Hooks) (bs : Bytes) (t : Tree) (hp : parse h bs = .ok t) :
    at256Tree t = true := by
  unfold parse parseWith at hp
  split at hp
  · simp at hp
  · rename_i t' st hpw
    simp only [Except.ok.injEq] at hp
    subst hp
    split at hpw
    · -- flash image
      split at hpw
      · simp at hpw
      · rename_i f st' hf
        simp only [Except.ok.injEq, Prod.mk.injEq] at hpw
        obtain ⟨rfl, rfl⟩ := hpw
        unfold parseFlash at hf
        repeat' split at hf
        all_goals first
          | (simp at hf; done)
          | skip
        all_goals (simp only [Except.ok.injEq, Prod.mk.injEq] at hf)
        all_goals (obtain ⟨rfl, rfl⟩ := hf)
        all_goals
          (simp only [at256Tree]
           apply atp_okRegions_fillGaps _ _ _ _ _ (by assumption)
           rw [atp_okRegions_sort]
           exact atp_ok_parseRegions h _ _ _ _ _ _ _ _ (by assumption))
    · split at hpw
      · simp at hpw
      · rename_i b st' hb
        simp only [Except.ok.injEq, Prod.mk.injEq] at hpw
        obtain ⟨rfl, rfl⟩ := hpw
        exact atp_ok_bios h _ _ _ _ _ _ hb


end Fiano.Uefi
