/-
  Property C06 — unpacking the well-formedness conditions of the extended grammar, and the lengths
  of what is written (Spec's `length_ser*` on flattened images).
-/
import FianoModel.Uefi.NestedBase
import FianoModel.Uefi.NestedSpec

namespace Fiano.Uefi.Nested
open Fiano Fiano.Uefi Fiano.Uefi.Spec

variable {h : Hooks}

structure GuidedOk (ext : Bool) (g : Guid) (doff attrs n tailLen : Nat) : Prop where
  hg : g.length = 16
  hdoff : doff < 65536
  hattrs : attrs < 65536
  hbit : attrs &&& 1 ≠ 0
  hsmall : secHdrLen ext + 20 + n < 0xFFFFFF
  hle : doff ≤ secHdrLen ext + 20 + n + tailLen

theorem guidedOk_spec {ext : Bool} {g : Guid} {doff attrs n tl : Nat} (hk : guidedOk ext g doff attrs n tl = true) :
    GuidedOk ext g doff attrs n tl := by
  simp only [guidedOk, small, Bool.and_eq_true, decide_eq_true_eq, beq_iff_eq, bne_iff_ne] at hk
  obtain ⟨⟨⟨⟨⟨h1, h2⟩, h3⟩, h4⟩, h5⟩, h6⟩ := hk
  exact ⟨h1, h2, h3, h4, h5, h6⟩

theorem wfSecs_cons {u : Nat} {s : CSec} {ss : List CSec} (hw : wfSecs h u (s :: ss) = true) :
    wfSec h (serSecs (alignUp u 4 + sizeSec (flatSec s)) (flatSecs ss)) s = true ∧
    wfSecs h (alignUp u 4 + sizeSec (flatSec s)) ss = true := by
  simpa [wfSecs] using hw

theorem wfFiles_cons {off len : Nat} {f : CFile} {fs : List CFile} (hw : wfFiles h off len (f :: fs) = true) :
    wfFile h f = true ∧ alignUp off 8 + 24 ≤ len ∧ alignUp off 8 + sizeFile (flatFile f) ≤ len ∧
    (alignUp off 8 + hdrLenOfAttrs (storedAttrs (flatFile f))) % alignmentOf (storedAttrs (flatFile f)) = 0 ∧
    wfFiles h (alignUp off 8 + sizeFile (flatFile f)) len fs = true := by
  simp only [wfFiles, Bool.and_eq_true, decide_eq_true_eq, beq_iff_eq] at hw
  obtain ⟨⟨⟨⟨h1, h2⟩, h3⟩, h4⟩, h5⟩ := hw
  exact ⟨h1, h2, h3, h4, h5⟩

structure WfSect (h : Hooks) (g : Guid) (t a st : Nat) (secs : List CSec) : Prop where
  hg : g.length = 16
  ht : t < 256
  ha : a < 256
  hst : st < 256
  hsup : supportedFile t = true
  hne : secs ≠ []
  hsecs : wfSecs h 0 secs = true
  hsmall : 24 + sizeSecs 0 (flatSecs secs) < 0xFFFFFF

theorem wfFile_sect {g : Guid} {t a st : Nat} {secs : List CSec}
    (hw : wfFile h (.sect g t a st secs) = true) : WfSect h g t a st secs := by
  simp only [wfFile, small, Bool.and_eq_true, decide_eq_true_eq, beq_iff_eq, Bool.not_eq_true',
    List.isEmpty_eq_false_iff] at hw
  obtain ⟨⟨⟨⟨⟨⟨⟨h1, h2⟩, h3⟩, h4⟩, h5⟩, h6⟩, h7⟩, h8⟩ := hw
  exact ⟨h1, h2, h3, h4, h5, h6, h7, h8⟩

theorem flatFiles_nil_iff (files : List CFile) : flatFiles files = [] ↔ files = [] := by
  cases files <;> simp [flatFiles]

theorem wfFv_ffs {zv : Bytes} {v3 : Bool} {attrs rev rsv : Nat} {blocks : List Block} {ext : Option ExtI}
    {files : List CFile} {free : Nat} (hw : wfFv h (.ffs zv v3 attrs rev rsv blocks ext files free) = true) :
    NestedBase.WfHdr zv v3 attrs rev rsv blocks ext (flatFiles files) free ∧
    wfFiles h (preLen blocks ext) (endFiles (preLen blocks ext) (flatFiles files) + free) files = true := by
  simp only [wfFv, Bool.and_eq_true, decide_eq_true_eq, beq_iff_eq, bne_iff_ne, Bool.or_eq_true,
    List.isEmpty_iff, Bool.not_eq_true', List.isEmpty_eq_false_iff] at hw
  obtain ⟨⟨⟨⟨⟨⟨⟨⟨⟨⟨⟨⟨h1, h2⟩, h3⟩, h4⟩, h5⟩, h6⟩, h7⟩, h8⟩, h9⟩, h10⟩, h11⟩, h12⟩, h13⟩ := hw
  refine ⟨⟨h1, h2, h3, h4, h5, h6, h7, ?_, ?_, h10, h11, h12⟩, h13⟩
  · rcases h8 with h8 | h8
    · left; exact (flatFiles_nil_iff files).mpr h8
    · right; exact h8
  · intro e he
    subst he
    simp only [Bool.and_eq_true, decide_eq_true_eq, beq_iff_eq] at h9
    obtain ⟨⟨⟨a, b⟩, c⟩, d⟩ := h9
    exact ⟨a, b, c, d⟩

/-! ### lengths -/

theorem length_guided (ext : Bool) (g : Guid) (doff attrs : Nat) (body : Bytes) (hg : g.length = 16) :
    (serSec (.guided ext g doff attrs body)).length = secHdrLen ext + 20 + body.length := by
  simp [serSec, secHdr_length, hg]; omega

mutual
theorem length_serSec : ∀ (s : CSec) (tail : Bytes), wfSec h tail s = true →
    (serSec (flatSec s)).length = sizeSec (flatSec s)
  | .plain s, _, hw => by
    simp only [wfSec, Bool.and_eq_true] at hw
    exact Spec.length_serSec s hw.1.1
  | .opq ext g doff attrs comp body, _, hw => by
    simp only [wfSec, Bool.and_eq_true] at hw
    have w := guidedOk_spec hw.1
    simp only [flatSec, sizeSec]
    exact length_guided ext g doff attrs body w.hg
  | .comp ext g doff attrs name payload kids, _, hw => by
    simp only [wfSec, Bool.and_eq_true] at hw
    have w := guidedOk_spec hw.1.1.1.1
    simp only [flatSec, sizeSec]
    exact length_guided ext g doff attrs payload w.hg
  | .fvimg v, _, hw => by
    simp only [wfSec, Bool.and_eq_true] at hw
    simp [flatSec, serSec, sizeSec, canonSec_length, length_serFv v hw.1]
theorem length_serSecs : ∀ (ss : List CSec) (n : Nat), wfSecs h n ss = true →
    n + (serSecs n (flatSecs ss)).length = sizeSecs n (flatSecs ss)
  | [], n, _ => by simp [flatSecs, serSecs, sizeSecs]
  | s :: ss, n, hw => by
    have ⟨hs, hss⟩ := wfSecs_cons hw
    have h1 := length_serSec s _ hs
    have h2 := length_serSecs ss (alignUp n 4 + sizeSec (flatSec s)) hss
    have := alignUp_ge n 4 (by decide)
    simp only [flatSecs, serSecs, sizeSecs, List.length_append, zeros, List.length_replicate, h1]
    omega
theorem length_serFile : ∀ f : CFile, wfFile h f = true → (serFile (flatFile f)).length = sizeFile (flatFile f)
  | .leaf f, hw => by
    simp only [wfFile, Bool.and_eq_true] at hw
    exact Spec.length_serFile f hw.1.1.1
  | .sect g t a st secs, hw => by
    have w := wfFile_sect hw
    have hs := length_serSecs secs 0 w.hsecs
    simp only [Nat.zero_add] at hs
    simp only [flatFile, serFile, sizeFile, List.length_append, fileHdr_length _ _ _ _ _ _ _ _ w.hg, hs,
      decide_eq_true_eq]
    split <;> simp_all
theorem length_serFiles : ∀ (fs : List CFile) (off len : Nat), wfFiles h off len fs = true →
    off + (serFiles off (flatFiles fs)).length = endFiles off (flatFiles fs)
  | [], off, _, _ => by simp [flatFiles, serFiles, endFiles]
  | f :: fs, off, len, hw => by
    have ⟨hf, _, _, _, hfs⟩ := wfFiles_cons hw
    have h1 := length_serFile f hf
    have h2 := length_serFiles fs (alignUp off 8 + sizeFile (flatFile f)) len hfs
    have := alignUp_ge off 8 (by decide)
    simp only [flatFiles, serFiles, endFiles, List.length_append, ffs, List.length_replicate, h1]
    omega
theorem length_serFv : ∀ v : CFv, wfFv h v = true → (serFv (flatFv v)).length = sizeFv (flatFv v)
  | .ffs zv v3 attrs rev rsv blocks ext files free, hw => by
    have ⟨w, hfiles⟩ := wfFv_ffs hw
    have hp := preBytes_length blocks ext (fun e he => (w.hext e he).1)
    have hf := length_serFiles files (preLen blocks ext) _ hfiles
    simp only [flatFv, serFv, sizeFv, List.length_append, fvHeaderCk_length _ _ _ _ _ _ _ _ w.hzv (guid_v3_length v3),
      ffs, List.length_replicate]
    omega
  | .other v, hw => by
    simp only [wfFv, Bool.and_eq_true] at hw
    exact Spec.length_serFv v hw.1
end

end Fiano.Uefi.Nested
