/-
  Property C04 — canonical dump of the parts of the tree the shared dump (Uefi/Dump.lean) leaves out:
  the NVAR store below a RAW file and the partition table below an ME region.  One line per store /
  table, in tree order (pre-order, decoded content and nested volumes included); the Go side
  (harness/props/c04/xdump.go) prints the same lines from the tree `uefi.Parse` returned.

    nvar S<fso>,<gso>,<length>,<fnv buf>;G:<guid>.<guid>…|-;E:<entry>/<entry>…|-
      entry  <T>,<guid>,<name|->,<guidIndex|->,<offset>,<nextOffset>,<dataOffset>,<size>,<next>,<attrs>,<fnv buf>,<ext>[{<nested store>}]
             T ∈ I (invalid) IL (invalid link) L (link) D (data) F (full); the name is printed for valid types only
      ext    "-" unless the Valid and ExtHeader attribute bits are set, else
             x<ExtOffset>:<ExtAttributes|->:<Checksum|->:<ExpectedChecksum|->:<TimeStamp|->:<Hash|->:<unknown 0|1>
    me   M-                                       no partition table
         M<count>,<mapStart>,<len buf>,<fnv buf>,<FreeSpaceOffset>;E:<name>,<owner>,<offset>,<length>,<r0>.<r1>.<r2>,<flags>/…|-

  Core Lean only.
-/
import FianoModel.Uefi.Dump
import FianoModel.Uefi.FaithfulNvarHook
import FianoModel.Uefi.FaithfulNvar
import FianoModel.Uefi.FaithfulMe

namespace Fiano.Uefi.DumpC04
open Fiano Fiano.Uefi

def orDash (s : String) : String := if s.isEmpty then "-" else s

def showType : Nvram.EType → String
  | .invalid => "I" | .invalidLink => "IL" | .link => "L" | .data => "D" | .full => "F"

def optNat : Option Nat → String
  | none => "-"
  | some n => toString n

def showExt (v : Nvram.NVar) : String :=
  if Nvram.hasBit v.attrs Nvram.aValid && Nvram.hasBit v.attrs Nvram.aExtHdr then
    let x := (NvFaithful.extFields v.attrs v.size v.buf).1
    let hash := match x.hash with | some hsh => hexOf hsh | none => "-"
    s!"x{x.extOffset}:{optNat x.extAttrs}:{optNat x.checksum}:{optNat x.expected}:{optNat x.timestamp}:{hash}:{if x.unknown then 1 else 0}"
  else "-"

def showEntry (v : Nvram.NVar) : String :=
  let name := if v.type.isValid then hexOf v.name else "-"
  s!"{showType v.type},{hexOf v.guid},{name},{optNat v.guidIndex},{v.offset},{v.nextOffset},{v.dataOffset},{v.size},{v.next},{v.attrs},{fnvOf v.buf},{showExt v}"

/-- a store with its nested stores; `d` bounds the nesting depth (the byte length is plenty) -/
def showStore (pol : Nat) : Nat → Nvram.Store → String
  | 0, _ => "fuel"
  | d + 1, s =>
    let ent (v : Nvram.NVar) : String :=
      match Nvram.nestedOf pol v with
      | some ns => showEntry v ++ "{" ++ showStore pol d ns ++ "}"
      | none => showEntry v
    s!"S{s.fso},{s.gso},{s.length},{fnvOf s.buf};G:{orDash (joinWith "." (s.guidStore.map hexOf))};E:{orDash (joinWith "/" (s.entries.map ent))}"

def showFpt (rbuf : Bytes) : String :=
  match Me.newFPT rbuf with
  | none => "M-"
  | some fp =>
    let ent (e : Me.Entry) : String :=
      s!"{hexOf e.name},{hexOf e.owner},{e.offset},{e.length},{joinWith "." (e.reserved.map toString)},{e.flags}"
    s!"M{fp.partitionCount},{fp.partitionMapStart},{fp.buf.length},{fnvOf fp.buf},{Me.freeSpaceOffset rbuf};E:{orDash (joinWith "/" (fp.entries.map ent))}"

mutual
def xSection (p : UInt8) : Section → List String
  | .mk _ _ encap => xNodes p encap
def xNodes (p : UInt8) : List Node → List String
  | [] => []
  | .sec s :: ns => xSection p s ++ xNodes p ns
  | .fv v :: ns => xFv p v ++ xNodes p ns
def xSections (p : UInt8) : List Section → List String
  | [] => []
  | s :: ss => xSection p s ++ xSections p ss
def xFile (p : UInt8) : File → List String
  | .mk i buf secs =>
    (match i.nvar, nvStoreOf p i.type i.guid buf i.dataOffset with
     | some _, some s => ["nvar " ++ showStore p.toNat (s.length + 2) s]
     | some _, none => ["nvar ?"]       -- the tree reports a store the model's parser refuses: never equal to Go's line
     | none, _ => []) ++ xSections p secs
def xFiles (p : UInt8) : List File → List String
  | [] => []
  | f :: fs => xFile p f ++ xFiles p fs
def xFv (p : UInt8) : Fv → List String
  | .mk _ _ files => xFiles p files
end

def xBiosElems (p : UInt8) : List BiosElem → List String
  | [] => []
  | .pad _ _ :: es => xBiosElems p es
  | .fv v :: es => xFv p v ++ xBiosElems p es

def xRegion (p : UInt8) : Region → List String
  | .bios b => xBiosElems p b.elems
  | .me buf _ => ["me " ++ showFpt buf]
  | .raw _ _ _ => []

/-- the extended dump of a tree parsed under final erase polarity `p` -/
def xTree (p : UInt8) : Tree → List String
  | .flash f => (f.regions.map (xRegion p)).flatten
  | .bios b => xBiosElems p b.elems

def xText (p : UInt8) (t : Tree) : String := joinWith " | " (xTree p t)

def xDigest (p : UInt8) (t : Tree) : String := hex16 (fnv1a (xText p t).toUTF8.toList)

end Fiano.Uefi.DumpC04
