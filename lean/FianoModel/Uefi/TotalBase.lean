/-
  C05 — totality framework on top of Base/GoM.lean.

  `Post x m Q`  :  running `x` from meter `m` is *safe* (a value or an ordinary error — never a panic,
                   never out of fuel) and, when it returns a value `a` in meter `m'`, `Q a m'` holds.
  It is a total-correctness triple for Go's faults; `Safe (x m)` is `Post x m (fun _ _ => True)`.
  The rules below are the only way the proofs of Total*Safe.lean look inside the monad.

  Also here: the Go idioms that occur again and again in pkg/uefi, written once through the
  faulting primitives (`copyOutG` = "newBuf := b[:n]; x := make([]byte, n); copy(x, newBuf)").
-/
import FianoModel.Base.GoM
import FianoModel.Gen.ArithUefi

namespace Fiano
namespace GoM

def Post {α} (x : GoM α) (m : Meter) (Q : α → Meter → Prop) : Prop :=
  match x m with
  | .ok (a, m') => Q a m'
  | .error .err => True
  | .error (.panic _) => False
  | .error .fuel => False

theorem post_safe {α} {x : GoM α} {m : Meter} {Q : α → Meter → Prop} (h : Post x m Q) : Safe (x m) := by
  unfold Post at h; unfold Safe
  cases hx : x m with
  | ok r => trivial
  | error e => rw [hx] at h; cases e <;> simp_all

theorem safe_post {α} {x : GoM α} {m : Meter} (h : Safe (x m)) : Post x m (fun _ _ => True) := by
  unfold Safe at h; unfold Post
  cases hx : x m with
  | ok r => trivial
  | error e => rw [hx] at h; cases e <;> simp_all

theorem post_mono {α} {x : GoM α} {m : Meter} {Q Q' : α → Meter → Prop}
    (h : Post x m Q) (hq : ∀ a m', Q a m' → Q' a m') : Post x m Q' := by
  unfold Post at *
  cases hx : x m with
  | ok r => obtain ⟨a, m'⟩ := r; rw [hx] at h; exact hq a m' h
  | error e => rw [hx] at h; cases e <;> simp_all

theorem post_pure {α} {a : α} {m : Meter} {Q : α → Meter → Prop} (h : Q a m) :
    Post (pure a : GoM α) m Q := by
  simpa [Post, pure, StateT.pure, Except.pure] using h

theorem post_err {α} {m : Meter} {Q : α → Meter → Prop} : Post (err : GoM α) m Q := by
  simp [Post, err]

theorem post_bind {α β} {x : GoM α} {f : α → GoM β} {m : Meter} {Q : β → Meter → Prop}
    (h : Post x m (fun a m' => Post (f a) m' Q)) : Post (x >>= f) m Q := by
  unfold Post at h ⊢
  simp only [bind, StateT.bind]
  cases hx : x m with
  | ok r =>
    obtain ⟨a, m'⟩ := r
    rw [hx] at h
    simpa [Except.bind, Post] using h
  | error e => rw [hx] at h; cases e <;> simp_all [Except.bind]

/-- `do let a ← x; f a` -/
theorem post_bind' {α β} {x : GoM α} {f : α → GoM β} {m : Meter} {Q : β → Meter → Prop}
    {R : α → Meter → Prop} (hx : Post x m R) (hf : ∀ a m', R a m' → Post (f a) m' Q) :
    Post (x >>= f) m Q :=
  post_bind (post_mono hx hf)

theorem post_ite {α} {c : Prop} [Decidable c] {x y : GoM α} {m : Meter} {Q : α → Meter → Prop}
    (hx : c → Post x m Q) (hy : ¬ c → Post y m Q) : Post (if c then x else y) m Q := by
  split
  · exact hx ‹_›
  · exact hy ‹_›

/-! ### primitives -/

theorem post_sliceG {site : String} {b : Bytes} {lo hi : Nat} {m : Meter} {Q : Bytes → Meter → Prop}
    (h : lo ≤ hi ∧ hi ≤ b.length) (hq : Q ((b.drop lo).take (hi - lo)) m) : Post (sliceG site b lo hi) m Q := by
  simpa [Post, sliceG, h, pure, StateT.pure, Except.pure] using hq

theorem post_sliceFromG {site : String} {b : Bytes} {lo : Nat} {m : Meter} {Q : Bytes → Meter → Prop}
    (h : lo ≤ b.length) (hq : Q (b.drop lo) m) : Post (sliceFromG site b lo) m Q := by
  simpa [Post, sliceFromG, h, pure, StateT.pure, Except.pure] using hq

theorem post_sliceToG {site : String} {b : Bytes} {hi : Nat} {m : Meter} {Q : Bytes → Meter → Prop}
    (h : hi ≤ b.length) (hq : Q (b.take hi) m) : Post (sliceToG site b hi) m Q := by
  simpa [Post, sliceToG, h, pure, StateT.pure, Except.pure] using hq

theorem post_indexG {site : String} {b : Bytes} {i : Nat} {m : Meter} {Q : UInt8 → Meter → Prop}
    (h : i < b.length) (hq : Q b[i] m) : Post (indexG site b i) m Q := by
  have : b[i]? = some b[i] := List.getElem?_eq_getElem h
  simpa [Post, indexG, this, pure, StateT.pure, Except.pure] using hq

theorem post_allocG {n e : Nat} {m : Meter} {Q : Unit → Meter → Prop}
    (hq : Q () { m with alloc := m.alloc + n * e }) : Post (allocG n e) m Q := by
  simpa [Post, allocG, modify, modifyGet, MonadStateOf.modifyGet, StateT.modifyGet, pure, Except.pure] using hq

theorem post_binaryReadG {r : Bytes} {n : Nat} {m : Meter} {Q : Bytes × Bytes → Meter → Prop}
    (hq : n ≤ r.length → Q (r.take n, r.drop n) m) : Post (binaryReadG r n) m Q := by
  unfold binaryReadG
  split
  · exact post_pure (hq ‹_›)
  · exact post_err

/-! ### Go idioms -/

/-- `newBuf := b[:n]; x := make([]byte, n); copy(x, newBuf)` — the "copy out the buffer" idiom of
    NewFirmwareVolume / NewFile / NewSection / newNVar (ReadOnly = false). -/
def copyOutG (site : String) (b : Bytes) (n : Nat) : GoM Bytes := do
  let nb ← sliceToG site b n
  allocG n 1
  pure nb

theorem post_copyOutG {site : String} {b : Bytes} {n : Nat} {m : Meter} {Q : Bytes → Meter → Prop}
    (h : n ≤ b.length) (hq : Q (b.take n) { m with alloc := m.alloc + n }) : Post (copyOutG site b n) m Q := by
  unfold copyOutG
  refine post_bind (post_sliceToG h ?_)
  refine post_bind (post_allocG ?_)
  exact post_pure (by simpa using hq)

/-- `x := make([]byte, len(b)); copy(x, b)` -/
def cloneG (b : Bytes) : GoM Bytes := do
  allocG b.length 1
  pure b

theorem post_cloneG {b : Bytes} {m : Meter} {Q : Bytes → Meter → Prop}
    (hq : Q b { m with alloc := m.alloc + b.length }) : Post (cloneG b) m Q := by
  unfold cloneG
  refine post_bind (post_allocG ?_)
  exact post_pure (by simpa using hq)

/-- a decompressor call: total, its output length goes to `Meter.decompressed` -/
def decodeG (dec : Bytes → Option Bytes) (b : Bytes) : GoM (Option Bytes) :=
  match dec b with
  | some out => do
    modify (fun m => { m with decompressed := m.decompressed + out.length })
    pure (some out)
  | none => pure none

theorem post_decodeG {dec : Bytes → Option Bytes} {b : Bytes} {m : Meter} {Q : Option Bytes → Meter → Prop}
    (hq : ∀ r, r = dec b → Q r { m with decompressed := m.decompressed + (match r with | some o => o.length | none => 0) }) :
    Post (decodeG dec b) m Q := by
  unfold decodeG
  cases hd : dec b with
  | none =>
    have := hq none hd.symm
    exact post_pure (by simpa using this)
  | some out =>
    have := hq (some out) hd.symm
    simp only [Post, bind, StateT.bind, modify, modifyGet, MonadStateOf.modifyGet, StateT.modifyGet, pure,
      Except.pure, StateT.pure, Except.bind]
    simpa using this

/-- `x, err := f(); if err != nil { log it; x = nil }` — an ordinary error of `x` is swallowed (the meter
    falls back to the state before the call: an `Except` error carries no state), faults propagate -/
def catchErrG {α} (x : GoM α) : GoM (Option α) := fun m =>
  match x m with
  | .ok (a, m') => .ok (some a, m')
  | .error .err => .ok (none, m)
  | .error e => .error e

theorem post_catchErrG {α} {x : GoM α} {m : Meter} {Q : α → Meter → Prop} {Q' : Option α → Meter → Prop}
    (hx : Post x m Q) (hs : ∀ a m', Q a m' → Q' (some a) m') (hn : Q' none m) : Post (catchErrG x) m Q' := by
  unfold Post at hx ⊢
  unfold catchErrG
  cases h : x m with
  | ok r => obtain ⟨a, m'⟩ := r; rw [h] at hx; exact hs a m' hx
  | error e =>
    rw [h] at hx
    cases e <;> simp_all

/-! ### `uefi.Align4` / `uefi.Align8` exactly as translated from the source (Gen/ArithUefi.lean) -/

def align4G (v : Nat) : Nat := (Gen.ArithUefi.fn_Align4 (UInt64.ofNat v)).toNat
def align8G (v : Nat) : Nat := (Gen.ArithUefi.fn_Align8 (UInt64.ofNat v)).toNat

end GoM
end Fiano
