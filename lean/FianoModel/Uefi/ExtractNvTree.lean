/-
  Property C07, follow-up wp-c07c — trees WITH NVAR stores in the tree-level round trip: lemmas.

    * `strip_sim_nv`, `exFault_ok_nv`   the lemmas about `okTree` for `okNvTree` (a file with a store: `Assemble`
                                        reads neither its buffer nor its sections — `asmFile_nvar_sim`);
    * `nvtAsmDir_eq`                     the store-level round trip (`asmDirStore_eq`) as an equation between the
                                        two hooks, for a slot whose names are valid UTF-8;
    * `asmTree_hooks`                   one `Assemble` pass under `c10DirHooks` = under `c10Hooks` on a tree whose
                                        stores have valid UTF-8 names (induction over the tree);
    * `extractLoadAsmNv_eq`             extract, ParseDir, Assemble = the direct save.
-/
import FianoModel.Uefi.ExtractNvTreeDefs
import FianoModel.Uefi.ExtractNvarNested
import FianoModel.Uefi.ExtractLoad
import FianoModel.Uefi.ExtractPaths

namespace Fiano.Uefi
open Fiano

/-! ### `okNvTree`: what `ParseDir` builds agrees with the extracted tree; `Extract` does not fault -/

mutual
theorem stSection_sim_nv (junk : FileInfo → Nat) : ∀ s : Section, okNvSection s = true → simSection (stSection junk s) s
  | .mk i buf [], _ => by simp [stSection, simSection, simNodes, sumSecInfo]
  | .mk i buf (a :: t), hok => by
    simp only [okNvSection, Bool.and_eq_true, List.isEmpty_cons, Bool.false_or, Bool.not_eq_true'] at hok
    have ih := stNodes_sim_nv junk (a :: t) hok.1
    have hk : keepsBuf (sumSecInfo i) = false := by rw [← hok.2]; rfl
    simp only [stSection, simSection]
    refine ⟨by simp [sumSecInfo], ih, fun hor => ?_⟩
    rcases hor with hnil | hkb
    · cases a <;> simp [stNodes] at hnil
    · rw [hk] at hkb; cases hkb
theorem stNodes_sim_nv (junk : FileInfo → Nat) : ∀ n : List Node, okNvNodes n = true → simNodes (stNodes junk n) n
  | [], _ => by simp [stNodes, simNodes]
  | .sec s :: t, hok => by
    simp only [okNvNodes, Bool.and_eq_true] at hok
    simp [stNodes, simNodes, stSection_sim_nv junk s hok.1, stNodes_sim_nv junk t hok.2]
  | .fv v :: t, hok => by
    simp only [okNvNodes, Bool.and_eq_true] at hok
    simp [stNodes, simNodes, stFv_sim_nv junk v hok.1, stNodes_sim_nv junk t hok.2]
theorem stSections_sim_nv (junk : FileInfo → Nat) : ∀ n : List Section, okNvSections n = true → simSections (stSections junk n) n
  | [], _ => by simp [stSections, simSections]
  | s :: t, hok => by
    simp only [okNvSections, Bool.and_eq_true] at hok
    simp [stSections, simSections, stSection_sim_nv junk s hok.1, stSections_sim_nv junk t hok.2]
theorem stFile_sim_nv (junk : FileInfo → Nat) : ∀ f : File, okNvFile f = true → simFile (stFile junk f) f
  | .mk i buf s, hok => by
    simp only [okNvFile, Bool.and_eq_true, beq_iff_eq, Bool.or_eq_true] at hok
    obtain ⟨hg, hor⟩ := hok
    cases hnv : i.nvar with
    | some nv => simp [stFile, hnv, simFile, fileKey, loadFileInfo, sumFileInfo, hg]
    | none =>
      have hs : okNvSections s = true := by simpa [hnv] using hor
      have ih := stSections_sim_nv junk s hs
      cases s with
      | nil => simp [stFile, hnv, simFile, fileKey, loadFileInfo, sumFileInfo, hg, simSections]
      | cons a t =>
        simp only [stSections] at ih
        simp [stFile, hnv, simFile, fileKey, loadFileInfo, sumFileInfo, hg, ih, stSections]
theorem stFiles_sim_nv (junk : FileInfo → Nat) : ∀ n : List File, okNvFiles n = true → simFiles (stFiles junk n) n
  | [], _ => by simp [stFiles, simFiles]
  | s :: t, hok => by
    simp only [okNvFiles, Bool.and_eq_true] at hok
    simp [stFiles, simFiles, stFile_sim_nv junk s hok.1, stFiles_sim_nv junk t hok.2]
theorem stFv_sim_nv (junk : FileInfo → Nat) : ∀ v : Fv, okNvFv v = true → simFv (stFv junk v) v
  | .mk i buf [], _ => by simp [stFv, simFv, simFiles, sumFvInfo]
  | .mk i buf (a :: t), hok => by
    simp only [okNvFv, Bool.and_eq_true, List.isEmpty_cons, Bool.false_or, decide_eq_true_eq] at hok
    have ih := stFiles_sim_nv junk (a :: t) hok.1
    have hl := hok.2.1
    simp only [stFv, simFv, ih, true_and]
    refine ⟨by simp [sumFvInfo], by simp [stFiles], fun _ => ?_⟩
    simp only [fvHead, sumFvInfo, List.length_take, List.take_take, Nat.min_self, Prod.mk.injEq, decide_eq_decide, and_true]
    omega
end

theorem stBiosElems_sim_nv (junk : FileInfo → Nat) : ∀ es : List BiosElem, okNvBiosElems es = true →
    simBiosElems (stBiosElems junk es) es
  | [], _ => by simp [stBiosElems, simBiosElems]
  | .pad b o :: t, hok => by
    simp only [okNvBiosElems] at hok
    simp [stBiosElems, simBiosElems, stBiosElems_sim_nv junk t hok]
  | .fv v :: t, hok => by
    simp only [okNvBiosElems, Bool.and_eq_true] at hok
    simp [stBiosElems, simBiosElems, stFv_sim_nv junk v hok.1, stBiosElems_sim_nv junk t hok.2]

theorem stBios_sim_nv (junk : FileInfo → Nat) (b : BiosRegion) (hok : okNvBiosElems b.elems = true) :
    simBios (stBios junk b) b := by
  obtain ⟨elems, buf, length, fr⟩ := b
  cases elems with
  | nil => simp [stBios, simBios, simBiosElems]
  | cons a t =>
    have := stBiosElems_sim_nv junk (a :: t) hok
    simp only [stBios, simBios]
    exact ⟨this, trivial, trivial⟩

theorem stRegions_sim_nv (junk : FileInfo → Nat) : ∀ rs : List Region, okNvRegions rs = true →
    simRegions (stRegions junk rs) rs
  | [], _ => by simp [stRegions, simRegions]
  | .bios b :: t, hok => by
    simp only [okNvRegions, Bool.and_eq_true] at hok
    simp [stRegions, simRegions, simRegion, stBios_sim_nv junk b hok.1, stRegions_sim_nv junk t hok.2]
  | .me b f :: t, hok => by
    simp only [okNvRegions] at hok
    simp [stRegions, simRegions, simRegion, stRegions_sim_nv junk t hok]
  | .raw b f y :: t, hok => by
    simp only [okNvRegions] at hok
    simp [stRegions, simRegions, simRegion, stRegions_sim_nv junk t hok]

/-- the tree `ParseDir` builds from an extraction agrees with the extracted tree on everything
    `Assemble` reads -/
theorem strip_sim_nv (junk : FileInfo → Nat) (t : Tree) (hok : okNvTree t = true) : simTree (strip junk t) t := by
  cases t with
  | flash f =>
    simp only [okNvTree] at hok
    simp [strip, simTree, simFlash, stRegions_sim_nv junk f.regions hok]
  | bios b =>
    simp only [okNvTree] at hok
    simp [strip, simTree, stBios_sim_nv junk b hok]

mutual
theorem exFaultSection_ok_nv : ∀ s : Section, okNvSection s = true → exFaultSection s = false
  | .mk i b e, h => by
    simp only [okNvSection, Bool.and_eq_true] at h
    simpa [exFaultSection] using exFaultNodes_ok_nv e h.1
theorem exFaultNodes_ok_nv : ∀ n : List Node, okNvNodes n = true → exFaultNodes n = false
  | [], _ => rfl
  | .sec s :: t, h => by
    simp only [okNvNodes, Bool.and_eq_true] at h
    simp [exFaultNodes, exFaultSection_ok_nv s h.1, exFaultNodes_ok_nv t h.2]
  | .fv v :: t, h => by
    simp only [okNvNodes, Bool.and_eq_true] at h
    simp [exFaultNodes, exFaultFv_ok_nv v h.1, exFaultNodes_ok_nv t h.2]
theorem exFaultSections_ok_nv : ∀ n : List Section, okNvSections n = true → exFaultSections n = false
  | [], _ => rfl
  | s :: t, h => by
    simp only [okNvSections, Bool.and_eq_true] at h
    simp [exFaultSections, exFaultSection_ok_nv s h.1, exFaultSections_ok_nv t h.2]
theorem exFaultFile_ok_nv : ∀ f : File, okNvFile f = true → exFaultFile f = false
  | .mk i b s, h => by
    simp only [okNvFile, Bool.and_eq_true, beq_iff_eq, Bool.or_eq_true] at h
    cases hnv : i.nvar with
    | some nv => simp [exFaultFile, hnv]
    | none =>
      have hs : okNvSections s = true := by simpa [hnv] using h.2
      simp [exFaultFile, hnv, exFaultSections_ok_nv s hs]
theorem exFaultFiles_ok_nv : ∀ n : List File, okNvFiles n = true → exFaultFiles n = false
  | [], _ => rfl
  | s :: t, h => by
    simp only [okNvFiles, Bool.and_eq_true] at h
    simp [exFaultFiles, exFaultFile_ok_nv s h.1, exFaultFiles_ok_nv t h.2]
theorem exFaultFv_ok_nv : ∀ v : Fv, okNvFv v = true → exFaultFv v = false
  | .mk i b [], _ => by simp [exFaultFv]
  | .mk i b (a :: t), h => by
    simp only [okNvFv, Bool.and_eq_true, List.isEmpty_cons, Bool.false_or, decide_eq_true_eq] at h
    have := exFaultFiles_ok_nv (a :: t) h.1
    simp only [exFaultFv, this, Bool.or_false, decide_eq_false_iff_not]
    omega
end

theorem exFaultBiosElems_ok_nv : ∀ es : List BiosElem, okNvBiosElems es = true → exFaultBiosElems es = false
  | [], _ => rfl
  | .pad _ _ :: t, h => by
    simp only [okNvBiosElems] at h
    simp [exFaultBiosElems, exFaultBiosElems_ok_nv t h]
  | .fv v :: t, h => by
    simp only [okNvBiosElems, Bool.and_eq_true] at h
    simp [exFaultBiosElems, exFaultFv_ok_nv v h.1, exFaultBiosElems_ok_nv t h.2]

theorem exFaultRegions_ok_nv : ∀ rs : List Region, okNvRegions rs = true → exFaultRegions rs = false
  | [], _ => rfl
  | .bios b :: t, h => by
    simp only [okNvRegions, Bool.and_eq_true] at h
    simp [exFaultRegions, exFaultBiosElems_ok_nv b.elems h.1, exFaultRegions_ok_nv t h.2]
  | .me _ _ :: t, h => by
    simp only [okNvRegions] at h
    simp [exFaultRegions, exFaultRegions_ok_nv t h]
  | .raw _ _ _ :: t, h => by
    simp only [okNvRegions] at h
    simp [exFaultRegions, exFaultRegions_ok_nv t h]

theorem exFault_ok_nv (t : Tree) (hok : okNvTree t = true) : exFault t = false := by
  cases t with
  | flash f => exact exFaultRegions_ok_nv f.regions hok
  | bios b => exact exFaultBiosElems_ok_nv b.elems hok


/-! ### the two hooks agree on a store with valid UTF-8 names -/

theorem utf8DeepB_deep : ∀ (d pol : Nat) (es : List Nvram.NVar), utf8DeepB d pol es = true → Utf8Deep d pol es
  | 0, _, _, _ => trivial
  | d + 1, pol, es, h => by
    simp only [utf8DeepB, Bool.and_eq_true, List.all_eq_true] at h
    refine ⟨h.1, fun v hv ns hns => ?_⟩
    have := h.2 v hv
    rw [hns] at this
    exact utf8DeepB_deep d pol ns.entries this

theorem nvtAsmDir_eq (pol : UInt8) (nv : NvStore) (p : UInt8) (hu : nvUtf8Slot pol nv = true) :
    nvtAsmDir pol nv p = nvtAsmC10 pol nv p := by
  unfold nvtAsmDir nvtAsmC10 nvtAsmVia
  unfold nvUtf8Slot at hu
  split
  · rfl
  · cases hp : Nvram.parseStore pol.toNat nv.buf with
    | error e => rfl
    | ok s =>
      rw [hp] at hu
      simp only []
      rw [asmDirStore_eq pol.toNat (Nvram.depthFuel s) s (utf8DeepB_deep _ _ _ hu)]

/-! ### one `Assemble` pass under the two hook sets -/

mutual
theorem agSection (h0 : Hooks) (pol : UInt8) : ∀ (s : Section) (st : St), nvUtf8Section pol s = true →
    asmSection (c10DirHooks h0 pol) s st = asmSection (c10Hooks h0 pol) s st
  | .mk i buf encap, st, ha => by
    simp only [nvUtf8Section] at ha
    rw [asmSection, asmSection, agNodes h0 pol encap st ha]
    rfl
theorem agNodes (h0 : Hooks) (pol : UInt8) : ∀ (n : List Node) (st : St), nvUtf8Nodes pol n = true →
    asmNodes (c10DirHooks h0 pol) n st = asmNodes (c10Hooks h0 pol) n st
  | [], st, _ => by rw [asmNodes, asmNodes]
  | .sec s :: ns, st, ha => by
    simp only [nvUtf8Nodes, Bool.and_eq_true] at ha
    rw [asmNodes, asmNodes, agSection h0 pol s st ha.1]
    cases asmSection (c10Hooks h0 pol) s st with
    | error e => rfl
    | ok p => simp only [agNodes h0 pol ns p.2 ha.2]
  | .fv v :: ns, st, ha => by
    simp only [nvUtf8Nodes, Bool.and_eq_true] at ha
    rw [asmNodes, asmNodes, agFv h0 pol v st ha.1]
    cases asmFv (c10Hooks h0 pol) v st with
    | error e => rfl
    | ok p => simp only [agNodes h0 pol ns p.2 ha.2]
theorem agSections (h0 : Hooks) (pol : UInt8) : ∀ (n : List Section) (st : St), nvUtf8Sections pol n = true →
    asmSections (c10DirHooks h0 pol) n st = asmSections (c10Hooks h0 pol) n st
  | [], st, _ => by rw [asmSections, asmSections]
  | s :: ss, st, ha => by
    simp only [nvUtf8Sections, Bool.and_eq_true] at ha
    rw [asmSections, asmSections, agSection h0 pol s st ha.1]
    cases asmSection (c10Hooks h0 pol) s st with
    | error e => rfl
    | ok p => simp only [agSections h0 pol ss p.2 ha.2]
theorem agFile (h0 : Hooks) (pol : UInt8) : ∀ (f : File) (st : St), nvUtf8File pol f = true →
    asmFile (c10DirHooks h0 pol) f st = asmFile (c10Hooks h0 pol) f st
  | .mk i buf secs, st, ha => by
    simp only [nvUtf8File] at ha
    rw [asmFile, asmFile]
    cases hnv : i.nvar with
    | some nv =>
      rw [hnv] at ha
      have : (c10DirHooks h0 pol).nvarAsm nv st.pol = (c10Hooks h0 pol).nvarAsm nv st.pol := nvtAsmDir_eq pol nv st.pol ha
      simp only [this]
    | none =>
      rw [hnv] at ha
      simp only [agSections h0 pol secs st ha]
theorem agFiles (h0 : Hooks) (pol : UInt8) : ∀ (n : List File) (st : St), nvUtf8Files pol n = true →
    asmFiles (c10DirHooks h0 pol) n st = asmFiles (c10Hooks h0 pol) n st
  | [], st, _ => by rw [asmFiles, asmFiles]
  | f :: fs, st, ha => by
    simp only [nvUtf8Files, Bool.and_eq_true] at ha
    rw [asmFiles, asmFiles, agFile h0 pol f st ha.1]
    cases asmFile (c10Hooks h0 pol) f st with
    | error e => rfl
    | ok p => simp only [agFiles h0 pol fs p.2 ha.2]
theorem agFv (h0 : Hooks) (pol : UInt8) : ∀ (v : Fv) (st : St), nvUtf8Fv pol v = true →
    asmFv (c10DirHooks h0 pol) v st = asmFv (c10Hooks h0 pol) v st
  | .mk i buf files, st, ha => by
    simp only [nvUtf8Fv] at ha
    rw [asmFv, asmFv]
    cases setPolarity (polOfAttrs i.attrs) st with
    | error e => rfl
    | ok st1 => simp only [agFiles h0 pol files st1 ha]
end

theorem agBiosElems (h0 : Hooks) (pol : UInt8) : ∀ (es : List BiosElem) (st : St), nvUtf8BiosElems pol es = true →
    asmBiosElems (c10DirHooks h0 pol) es st = asmBiosElems (c10Hooks h0 pol) es st
  | [], st, _ => by rw [asmBiosElems, asmBiosElems]
  | .pad b o :: es, st, ha => by
    simp only [nvUtf8BiosElems] at ha
    rw [asmBiosElems, asmBiosElems, agBiosElems h0 pol es st ha]
  | .fv v :: es, st, ha => by
    simp only [nvUtf8BiosElems, Bool.and_eq_true] at ha
    rw [asmBiosElems, asmBiosElems, agFv h0 pol v st ha.1]
    cases asmFv (c10Hooks h0 pol) v st with
    | error e => rfl
    | ok p => simp only [agBiosElems h0 pol es p.2 ha.2]

theorem agBios (h0 : Hooks) (pol : UInt8) (b : BiosRegion) (st : St) (ha : nvUtf8BiosElems pol b.elems = true) :
    asmBios (c10DirHooks h0 pol) b st = asmBios (c10Hooks h0 pol) b st := by
  unfold asmBios
  rw [agBiosElems h0 pol b.elems st ha]

theorem agRegions (h0 : Hooks) (pol : UInt8) : ∀ (rs : List Region) (st : St), nvUtf8Regions pol rs = true →
    asmRegions (c10DirHooks h0 pol) rs st = asmRegions (c10Hooks h0 pol) rs st
  | [], st, _ => by rw [asmRegions, asmRegions]
  | .bios b :: rs, st, ha => by
    simp only [nvUtf8Regions, Bool.and_eq_true] at ha
    rw [asmRegions, asmRegions, agBios h0 pol b st ha.1]
    cases asmBios (c10Hooks h0 pol) b st with
    | error e => rfl
    | ok p => simp only [agRegions h0 pol rs p.2 ha.2]
  | .me b f :: rs, st, ha => by
    simp only [nvUtf8Regions] at ha
    rw [asmRegions, asmRegions, agRegions h0 pol rs st ha] <;> (intro _ hc; cases hc)
  | .raw b f y :: rs, st, ha => by
    simp only [nvUtf8Regions] at ha
    rw [asmRegions, asmRegions, agRegions h0 pol rs st ha] <;> (intro _ hc; cases hc)

/-- one `Assemble` pass over a tree whose stores have valid UTF-8 names does the same under the hooks of
    the process that loaded the directory and under those of the process that parsed the image -/
theorem asmTree_hooks (h0 : Hooks) (pol : UInt8) (t : Tree) (st : St) (ha : nvUtf8Tree pol t = true) :
    asmTreeWith (c10DirHooks h0 pol) t st = asmTreeWith (c10Hooks h0 pol) t st := by
  cases t with
  | flash f =>
    simp only [nvUtf8Tree] at ha
    simp only [asmTreeWith, asmFlash, agRegions h0 pol f.regions st ha]
  | bios b =>
    simp only [nvUtf8Tree] at ha
    simp only [asmTreeWith, agBios h0 pol b st ha]

theorem asmWith_hooks (h0 : Hooks) (pol : UInt8) (t : Tree) (st : St) (ha : nvUtf8Tree pol t = true) :
    asmWith (c10DirHooks h0 pol) t st = asmWith (c10Hooks h0 pol) t st := by
  unfold asmWith
  rw [asmTree_hooks h0 pol t _ ha]

/-! ### the round trip -/

theorem extract_ok_nv (t : Tree) (hok : okNvTree t = true) : extract t = .ok (extractDir t, summaryOf t) := by
  simp [extract, exFault_ok_nv t hok]

/-- **extract, ParseDir, Assemble = the direct save, for trees with NVAR stores** -/
theorem extractLoadAsmNv_eq (h0 : Hooks) (pol : UInt8) (junk : FileInfo → Nat) (t : Tree) (st : St)
    (hok : okNvTree t = true) (hw : pwTree t = true) (hu : nvUtf8Tree pol t = true)
    (hp : st.pol = 0xF0 ∨ TopPol st.pol t = true) :
    extractLoadAsmNv h0 pol junk t = asmWith (c10Hooks h0 pol) t st := by
  unfold extractLoadAsmNv
  rw [extract_ok_nv t hok]
  simp only [parseDir_ex _ junk t (readable_extractDir t (extractDir_nodup t hw))]
  rw [asmWith_sim _ (strip junk t) t {} (strip_sim_nv junk t hok), asmWith_hooks h0 pol t {} hu]
  exact asmWith_fresh _ t st hp

/-! ### two passes -/

theorem asmTwice2_sim (h1 h2 : Hooks) (t1 t2 : Tree) (st : St) (hs : simTree t1 t2) :
    asmTwice2 h1 h2 t1 st = asmTwice2 h1 h2 t2 st := by
  unfold asmTwice2
  have ih := asmTreeWith_sim h1 t1 t2 { st with ffs3 := false } hs
  generalize asmTreeWith h1 t1 { st with ffs3 := false } = r1 at ih ⊢
  generalize asmTreeWith h1 t2 { st with ffs3 := false } = r2 at ih ⊢
  cases ih with
  | error => rfl
  | ok hab =>
    rename_i p q
    obtain ⟨x1, st1⟩ := p
    obtain ⟨x2, st2⟩ := q
    obtain ⟨hpost, hst⟩ := hab
    simp only at hst hpost
    subst hst
    simp only []
    have ih2 := asmTreeWith_sim h2 x1 x2 { st1 with ffs3 := false } hpost.1
    generalize asmTreeWith h2 x1 { st1 with ffs3 := false } = q1 at ih2 ⊢
    generalize asmTreeWith h2 x2 { st1 with ffs3 := false } = q2 at ih2 ⊢
    cases ih2 with
    | error => rfl
    | ok hab2 =>
      rename_i p q
      obtain ⟨hpost2, -⟩ := hab2
      simp [hpost2.2]

theorem asmTwice2_hooks (h0 : Hooks) (pol : UInt8) (h2 : Hooks) (t : Tree) (st : St) (ha : nvUtf8Tree pol t = true) :
    asmTwice2 (c10DirHooks h0 pol) h2 t st = asmTwice2 (c10Hooks h0 pol) h2 t st := by
  unfold asmTwice2
  rw [asmTree_hooks h0 pol t _ ha]

theorem asmTwice2_fresh (h1 h2 : Hooks) (t : Tree) (st : St) (hp : st.pol = 0xF0 ∨ TopPol st.pol t = true) :
    asmTwice2 h1 h2 t {} = asmTwice2 h1 h2 t st := by
  obtain ⟨p, f⟩ := st
  rcases hp with hp | hp
  · simp only at hp
    subst hp
    rfl
  · simp only at hp
    unfold asmTwice2
    simp only []
    rw [asmTreeWith_pol h1 p t hp]

/-- **extract, then `utk DIR save` (ParseDir, Assemble, Save) = two passes over the parsed tree**, for trees
    with NVAR stores, whatever the second pass does with the stores the first pass left (`h2`) -/
theorem extractSaveNv_eq (h0 : Hooks) (pol : UInt8) (h2 : Hooks) (junk : FileInfo → Nat) (t : Tree) (st : St)
    (hok : okNvTree t = true) (hw : pwTree t = true) (hu : nvUtf8Tree pol t = true)
    (hp : st.pol = 0xF0 ∨ TopPol st.pol t = true) :
    extractSaveNv h0 pol h2 junk t = asmTwice2 (c10Hooks h0 pol) h2 t st := by
  unfold extractSaveNv
  rw [extract_ok_nv t hok]
  simp only [parseDir_ex _ junk t (readable_extractDir t (extractDir_nodup t hw))]
  rw [asmTwice2_sim _ h2 (strip junk t) t {} (strip_sim_nv junk t hok), asmTwice2_hooks h0 pol h2 t {} hu]
  exact asmTwice2_fresh _ h2 t st hp

end Fiano.Uefi
