/-
  C09a for edited trees (wp-c09c): kernel evaluation, part A (the input image; about a minute).
-/
import FianoModel.Uefi.ValidateEditSampleFlashDef

namespace Fiano.Uefi.C09
open Fiano Fiano.Uefi

set_option maxRecDepth 1000000 in
theorem ve_flash_valid : Valid.validImage veFlash = true ∧ veFlash.length = 8192 := by decide +kernel

set_option maxRecDepth 1000000 in
theorem ve_flash_readAlike :
    (match parseWith Hooks.none (defaultFuel veFlash) veFlash {} with
     | .ok (t, _) => readAlikeB t
     | .error _ => false) = true := by
  rw [← parseWith_eval]; decide +kernel

end Fiano.Uefi.C09
