/-
  Non-vacuity of the NVAR part of `extract_paths_nodup` (follow-up wp-c07b): a 184-byte image whose only
  volume holds a RAW file with the NVAR GUID; its store has two live variables of the SAME name and GUID.
  Parsed with C10's `NewNVarStore` as the NVAR hook (wp-c04b's `nvHooks`), the file node carries a store
  and `Extract` writes the volume header and one value file per variable, told apart by the entry offset.
-/
import FianoModel.Uefi.ExtractPaths
import FianoModel.Uefi.FaithfulNvarHook
import FianoModel.Uefi.Spec

namespace Fiano.Uefi.NvSample
open Fiano Fiano.Uefi

/-- a full entry: CHAR8 name "A", GUID by index 0, one byte of data -/
def ent (d : UInt8) : Bytes := Nvram.sig ++ [14, 0, 0xFF, 0xFF, 0xFF, 0x82, 0, 0x41, 0, d]

/-- two entries of one name, erased free space, a GUID table of one GUID -/
def store : Bytes := ent 0xAB ++ ent 0xCD ++ List.replicate 8 0xFF ++ List.replicate 16 7

open Spec in
def fvN : FvI :=
  .ffs (List.replicate 16 0) false 0x0004FEFF 2 0 [⟨24, 8⟩] none
    [ .leaf guidNVAR 0 0xAA 1 0 0xF8 false store ] 36

def bytes : Bytes := Spec.ser (.bios ⟨[([], fvN)], []⟩)

def paths : List Bytes :=
  [ asc "bios/0x0/fvh.bin".toList,
    asc "bios/0x0/CEF5B9A3-476D-497F-9FDC-E98143E0422C/0/07070707-0707-0707-0707-070707070707/A-0x0.bin".toList,
    asc "bios/0x0/CEF5B9A3-476D-497F-9FDC-E98143E0422C/0/07070707-0707-0707-0707-070707070707/A-0xe.bin".toList ]

def holds : Bool :=
  match parseWith (nvHooks Hooks.none 0xFF) (defaultFuel bytes) bytes {} with
  | .ok (t, _) => (extractDir t).map Prod.fst == paths && (extractDir t).map Prod.snd == [bytes.take 72, [0xAB], [0xCD]]
  | .error _ => false

theorem sample_nvar_holds : bytes.length = 184 ∧ holds = true := by decide +kernel

end Fiano.Uefi.NvSample
