/-
  C02 (follow-up wp-c02b), `parse_establishes_TreeOk`, part 4: **the tree below a volume** — mutual
  structural induction over section → nested volume → file → volume, in lockstep with the reader's
  walks (`filesOk`, `sectionsOk`).
-/
import FianoModel.Uefi.ParseOk3

namespace Fiano.Uefi
open Fiano
open EditArith

theorem alignUp8_idem (n : Nat) : Valid.alignUp (Valid.alignUp n 8) 8 = Valid.alignUp n 8 := by
  unfold Valid.alignUp; omega

theorem fvBytesOk_len (d : Bytes) (h : FvBytesOk d) : Valid.fld d 32 8 = d.length ∧ 64 ≤ d.length := by
  obtain ⟨f0, hf0⟩ := h
  cases f0 with
  | zero => simp [Valid.fvOk] at hf0
  | succ n =>
    rw [fvOk_eq] at hf0
    simp only [Bool.and_eq_true] at hf0
    obtain ⟨w64, w32, _⟩ := hdrOk_walk d hf0.1
    exact ⟨w32, w64⟩

theorem fileHeaderOk_doff (i : FileInfo) (ctx : Bytes) (h : FileHeaderOk i ctx) : i.dataOffset = 24 ∨ i.dataOffset = 32 := by
  obtain ⟨_, _, _, _, _, _, _, _, hx⟩ := h
  split at hx
  · exact Or.inr hx.2.2
  · exact Or.inl hx.2

mutual

theorem sec_est (h : Hooks) : ∀ (s : Section) (ctx : Bytes), SecF h s ctx → SecRA s → SecNv s → secSize ctx ≤ ctx.length →
    SecBytesOk (ctx.take (secSize ctx)) → ctx.length < 2 ^ 62 → SecOk s ∧ s.info.extSize = secSize ctx
  | .mk i buf encap, ctx, hF, hRA, hNv, hsz, hb, hL => by
    rw [SecRA] at hRA
    rw [SecNv] at hNv
    refine sec_est_core h i buf encap ctx hF hRA.1 hsz hb (fun h17 => ?_)
    obtain ⟨hnf, hfvb⟩ := sec_fv_payload h i buf encap ctx hF hRA.1 hsz hb h17
    have hRA2 := hRA.2
    rw [if_pos h17] at hRA2
    have hbl : buf.length ≤ ctx.length := by
      unfold SecF at hF
      rw [hF.2.2.1, List.length_take]; omega
    exact nodesFv_est h encap (buf.drop (secHdrSize i)) hnf hRA2 hNv hfvb (by rw [List.length_drop]; omega)

theorem nodesFv_est (h : Hooks) : ∀ (ns : List Node) (d : Bytes), NodesFv h ns d → NodesRA ns → NodesNv ns → FvBytesOk d →
    d.length < 2 ^ 62 → NodeFvOk ns
  | [], _, hF, _, _, _, _ => by unfold NodesFv at hF; exact hF.elim
  | .sec _ :: _, _, hF, _, _, _, _ => by unfold NodesFv at hF; exact hF.elim
  | .fv _ :: _ :: _, _, hF, _, _, _, _ => by unfold NodesFv at hF; exact hF.elim
  | [.fv v], d, hF, hRA, hNv, hb, hL => by
    unfold NodesFv at hF
    rw [NodesRA] at hRA
    rw [NodesNv] at hNv
    rw [NodeFvOk]
    obtain ⟨i, buf, files⟩ := v
    have hlen : i.length = d.length := by
      have hF1 := hF.1
      unfold FvF at hF1
      rw [hF1.1.2.2.1, rd_eq_fld]
      exact (fvBytesOk_len d hb).1
    refine fv_est h (.mk i buf files) d hF.1 hRA hNv.1 ?_ hL
    simp only [Fv.info]
    rw [hlen, List.take_of_length_le (Nat.le_refl _)]
    exact hb

theorem fv_est (h : Hooks) : ∀ (v : Fv) (data : Bytes), FvF h v data → FvRA v → FvNv v → FvBytesOk (data.take v.info.length) →
    data.length < 2 ^ 62 → FvOk v
  | .mk i buf files, data, hF, hRA, hNv, hb, hL => by
    rw [FvRA] at hRA
    rw [FvNv] at hNv
    have hF' := hF
    unfold FvF at hF'
    obtain ⟨hh, hle, hbuf, hc⟩ := hF'
    simp only [Fv.info] at hb
    rw [← hbuf] at hb
    have hhdr := fv_hdr_est h i buf files data hF hRA.1 hb
    rw [FvOk]
    refine ⟨hhdr, ?_⟩
    by_cases hg : i.fsGuid = guidFFS2 ∨ i.fsGuid = guidFFS3
    · rw [if_pos hg] at hc
      obtain ⟨f0, hf0⟩ := hb
      cases f0 with
      | zero => simp [Valid.fvOk] at hf0
      | succ n =>
        rw [fvOk_eq] at hf0
        simp only [Bool.and_eq_true] at hf0
        have hffs : fvIsFfs buf = true := by
          unfold fvIsFfs
          rw [← hhdr.guid, ← guidFFS2_eq, ← guidFFS3_eq]
          simpa using hg
        rw [if_pos hffs] at hf0
        have hbl : buf.length ≤ data.length := by rw [hbuf, List.length_take]; omega
        exact filesAt_est h files buf i.dataOffset i.freeSpace (fvErased buf) hc hRA.2 hNv n (fvFirst buf)
          (by rw [hhdr.dOff, up8_eq_alignUp, alignUp8_idem]) hf0.2 (fvErased_cases buf) (by omega)
    · rw [if_neg hg] at hc
      rw [hc.1, FilesOk]; trivial

theorem filesAt_est (h : Hooks) : ∀ (files : List File) (fvbuf : Bytes) (off free : Nat) (e : UInt8),
    FilesAt h files fvbuf off free → FilesRA files → FilesNv files → ∀ (fuel off' : Nat), Valid.alignUp off' 8 = up8 off →
    Valid.filesOk fuel fvbuf e off' = true → (e = 0xFF ∨ e = 0) → fvbuf.length < 2 ^ 62 → FilesOk e files
  | [], _, _, _, _, _, _, _, _, _, _, _, _, _ => by rw [FilesOk]; trivial
  | .mk i buf secs :: fs, fvbuf, off, free, e, hF, hRA, hNv, fuel, off', hal, hok, he, hL => by
    unfold FilesAt at hF
    obtain ⟨hlt, hFf, hpos, hrest⟩ := hF
    rw [FilesRA] at hRA
    rw [FilesNv] at hNv
    simp only [File.info] at hpos hrest
    cases fuel with
    | zero => simp [Valid.filesOk] at hok
    | succ n =>
      have hFf' := hFf
      unfold FileF at hFf'
      obtain ⟨hh, hle, hbuf, _⟩ := hFf'
      have h24 := hh.1
      rw [← hal] at hlt hFf hh hle hbuf hrest h24
      generalize ho : Valid.alignUp off' 8 = o at *
      have hcl : (fvbuf.drop o).length = fvbuf.length - o := by simp
      have h8 : off' ≤ o := by rw [← ho]; unfold Valid.alignUp; omega
      -- the reader does not stop here
      have hlive : Valid.allAre e ((fvbuf.drop o).take 24) = false := by
        cases hd : Valid.allAre e ((fvbuf.drop o).take 24) with
        | false => rfl
        | true =>
          exfalso
          have hall := filesOk_erased n fvbuf e off' hok (by rw [ho]; omega) (by rw [ho]; exact hd)
          have hall' : Valid.allAre e (fvbuf.drop o) = true := by
            have := allAre_drop e (fvbuf.drop off') (o - off') hall
            rw [List.drop_drop] at this
            have e' : off' + (o - off') = o := by omega
            rw [e'] at this; exact this
          exact file_not_erased i (fvbuf.drop o) e he hh hpos hle (by omega) hall'
      obtain ⟨size, hl, hfs, _, hfit, hfok, hnext⟩ := filesOk_inv n fvbuf e off' hok (by rw [ho]; omega) (by rw [ho]; exact hlive)
      rw [ho] at hfs hfit hfok hnext
      obtain ⟨hfo, hext⟩ := file_est h e (.mk i buf secs) (fvbuf.drop o) hFf hRA.1 hNv.1 hpos n o size hl hfs hfok hlive (by omega)
      simp only [File.info] at hext
      rw [hext] at hrest
      have ih := filesAt_est h fs fvbuf (o + size) free e hrest hRA.2 hNv.2 n (o + size) (by rw [up8_eq_alignUp]) hnext he hL
      rw [FilesOk]
      exact ⟨hfo, ih⟩

theorem file_est (h : Hooks) : ∀ (e : UInt8) (f : File) (ctx : Bytes), FileF h f ctx → FileRA f → FileNv f → 0 < f.info.extSize →
    ∀ (fuel o size hl : Nat), Valid.fileSize ctx = some (size, hl) → Valid.fileOk fuel (ctx.take size) o = true →
    Valid.allAre e (ctx.take 24) = false → ctx.length < 2 ^ 62 → FileOk e f ∧ f.info.extSize = size
  | e, .mk i buf secs, ctx, hF, hRA, hNv, hpos, fuel, o, size, hl, hfs, hok, hlive, hL => by
    rw [FileRA] at hRA
    rw [FileNv] at hNv
    refine file_est_core h e i buf secs ctx hF hNv.1 hpos fuel o size hl hfs hok hlive (fun hs hn => ?_)
    obtain ⟨n, hn⟩ := hn
    have hF' := hF
    unfold FileF at hF'
    obtain ⟨hh, hle, hbuf, hc⟩ := hF'
    rw [if_pos hs] at hc
    have hdo := fileHeaderOk_doff i ctx hh
    have hbl : buf.length ≤ ctx.length := by rw [hbuf, List.length_take]; omega
    exact secsAt_est h secs buf i.dataOffset 0 hc.2 hRA hNv.2 n i.dataOffset (Nat.le_refl _) (by omega) (by omega)
      (by rw [Nat.sub_self]; exact hn)

theorem secsAt_est (h : Hooks) : ∀ (secs : List Section) (fbuf : Bytes) (off idx : Nat), SecsAt h secs fbuf off idx →
    SecsRA secs → SecsNv secs → ∀ (fuel hl : Nat), hl ≤ off → hl % 4 = 0 → fbuf.length < 2 ^ 62 →
    Valid.sectionsOk fuel (fbuf.drop hl) (off - hl) = true → SecsOk secs
  | [], _, _, _, _, _, _, _, _, _, _, _, _ => by rw [SecsOk]; trivial
  | s :: ss, fbuf, off, idx, hF, hRA, hNv, fuel, hl, hle, h4, hL, hok => by
    unfold SecsAt at hF
    obtain ⟨hlt, hFs, _, hpos, hrest⟩ := hF
    rw [SecsRA] at hRA
    rw [SecsNv] at hNv
    cases fuel with
    | zero => simp [Valid.sectionsOk] at hok
    | succ n =>
      have hbl : (fbuf.drop hl).length = fbuf.length - hl := by simp
      obtain ⟨_, hsz, hsb, hnext⟩ := sectionsOk_inv n (fbuf.drop hl) (off - hl) hok (by omega)
      have hctx : (fbuf.drop hl).drop (off - hl) = fbuf.drop off := by
        rw [List.drop_drop]; congr 1; omega
      rw [hctx] at hsz hsb hnext
      obtain ⟨hso, hext⟩ := sec_est h s (fbuf.drop off) hFs hRA.1 hNv.1 hsz hsb (by simp; omega)
      rw [hext] at hrest
      have hnxt : up4 (off + secSize (fbuf.drop off)) - hl = Valid.alignUp (off - hl + secSize (fbuf.drop off)) 4 := by
        unfold up4 Valid.alignUp; omega
      have hge : hl ≤ up4 (off + secSize (fbuf.drop off)) := by unfold up4; omega
      have ih := secsAt_est h ss fbuf _ (idx + 1) hrest hRA.2 hNv.2 n hl hge h4 hL (by rw [hnxt]; exact hnext)
      rw [SecsOk]
      exact ⟨hso, ih⟩

end

end Fiano.Uefi
