/-
  C05 (follow-up wp-c05b) — the step meter for the top of the parser (TotalFv.lean: FindFirmwareVolumeOffset,
  NewBIOSRegion; TotalFlash.lean: NewFlashImage's region walk, uefi.Parse): cost functions by the same
  recursion, their erasure to the models, and the bound

        steps(uefi.Parse(bs)) ≤ 3·|bs| + 3·dec + 20          on every run.

  One step per `_FVH` probe of FindFirmwareVolumeOffset, per iteration of NewBIOSRegion's element loop, per
  entry of the descriptor's region table; the volumes found are charged by `fvC` (TotalSteps.lean), the NVAR
  stores of RAW files by `nvarHookCost` (TotalStepsNvar.lean).  A probe is paid by the 8 bytes it skips (the
  padding in front of a volume belongs to no volume), an element-loop iteration by the ≥ 64 bytes of the volume
  it found; the region table has 15 entries.
-/
import FianoModel.Uefi.TotalStepsNvar
import FianoModel.Uefi.TotalFlashSafe

namespace Fiano.Uefi.Total
open Fiano GoM Fiano.Uefi CostM

/-! ### erasure -/

theorem scanSig_sim (data : Bytes) : ∀ (fuel offset : Nat), Sim (scanSigC data fuel offset) (scanSigG data fuel offset)
  | 0, offset => by
    rw [scanSigC, scanSigG]
    exact sim_ite (sim_lift _) (sim_pure _)
  | fuel+1, offset => by
    rw [scanSigC, scanSigG]
    refine sim_ite ?_ (sim_pure _)
    try simp only []
    refine sim_tick ?_
    refine sim_bind (sim_lift _) (fun w => ?_)
    exact sim_ite (sim_pure _) (scanSig_sim data fuel (offset + 8))

theorem findFvOffset_sim (data : Bytes) : Sim (findFvOffsetC data) (findFvOffsetG data) := by
  unfold findFvOffsetC findFvOffsetG
  refine sim_ite (sim_pure _) ?_
  refine sim_bind (scanSig_sim data _ 32) (fun r => ?_)
  cases r with
  | none => exact sim_pure _
  | some o => exact sim_ite (sim_pure _) (sim_pure _)

theorem biosElems_sim (h : HooksG) (nc : NvarCost) (z : Nat) : ∀ (fuel : Nat) (buf : Bytes) (abs : Nat) (st : St),
    Sim (biosElemsC h nc z fuel buf abs st) (parseBiosElemsG h z fuel buf abs st)
  | 0, buf, abs, st => by
    rw [biosElemsC, parseBiosElemsG]
    refine sim_tick ?_
    refine sim_bind (findFvOffset_sim buf) (fun r => ?_)
    cases r with
    | none => exact sim_pure _
    | some off => exact sim_lift _
  | fuel+1, buf, abs, st => by
    rw [biosElemsC, parseBiosElemsG]
    refine sim_tick ?_
    refine sim_bind (findFvOffset_sim buf) (fun r => ?_)
    cases r with
    | none => exact sim_pure _
    | some off =>
      simp only []
      refine sim_bind (sim_lift _) (fun pre => ?_)
      refine sim_bind (sim_lift _) (fun vb => ?_)
      refine sim_bind (sim_call _ _) (fun x => ?_)
      obtain ⟨fv, st'⟩ := x
      simp only []
      refine sim_ite sim_err ?_
      refine sim_bind (sim_lift _) (fun rest => ?_)
      refine sim_bind (biosElems_sim h nc z fuel rest _ st') (fun x => ?_)
      obtain ⟨es, st''⟩ := x
      exact sim_pure _

theorem bios_sim (h : HooksG) (nc : NvarCost) (z : Nat) (buf : Bytes) (fr : Option FlashRegion) (st : St) :
    Sim (biosC h nc z buf fr st) (parseBiosG h z buf fr st) := by
  unfold biosC parseBiosG
  refine sim_bind (sim_lift _) (fun own => ?_)
  refine sim_bind (biosElems_sim h nc z _ buf 0 st) (fun x => ?_)
  obtain ⟨es, st'⟩ := x
  exact sim_pure _

theorem regions_sim (h : HooksG) (nc : NvarCost) (z : Nat) (buf : Bytes) (nr : Nat) :
    ∀ (frs : List FlashRegion) (i : Nat) (st : St),
    Sim (regionsC h nc z buf nr frs i st) (parseRegionsG h z buf nr frs i st)
  | [], i, st => by rw [regionsC, parseRegionsG]; exact sim_pure _
  | fr :: frs, i, st => by
    rw [regionsC, parseRegionsG]
    refine sim_tick ?_
    refine sim_ite (sim_pure _) ?_
    refine sim_ite (regions_sim h nc z buf nr frs (i + 1) st) ?_
    refine sim_bind (sim_lift _) (fun rbuf => ?_)
    refine sim_bind ?_ (fun x => ?_)
    · refine sim_ite ?_ ?_
      · refine sim_bind (bios_sim h nc z rbuf (some fr) st) (fun x => ?_)
        obtain ⟨b, st'⟩ := x
        exact sim_pure _
      · refine sim_ite ?_ ?_
        · exact sim_bind (sim_lift _) (fun r => sim_pure _)
        · exact sim_bind (sim_lift _) (fun own => sim_pure _)
    · obtain ⟨r, st'⟩ := x
      simp only []
      refine sim_bind (regions_sim h nc z buf nr frs (i + 1) st') (fun x => ?_)
      obtain ⟨rs, st''⟩ := x
      exact sim_pure _

theorem flash_sim (h : HooksG) (nc : NvarCost) (z : Nat) (buf : Bytes) (st : St) :
    Sim (flashC h nc z buf st) (parseFlashG h z buf st) := by
  unfold flashC parseFlashG
  refine sim_ite sim_err ?_
  refine sim_bind (sim_lift _) (fun fbuf => ?_)
  refine sim_bind (sim_lift _) (fun _ => ?_)
  refine sim_bind (sim_lift _) (fun d0 => ?_)
  refine sim_bind (sim_lift _) (fun ifd => ?_)
  cases hr : ifd.region.regions[0]? with
  | none => exact sim_lift _
  | some bios =>
    simp only []
    refine sim_ite sim_err ?_
    refine sim_bind (regions_sim h nc z buf _ _ 0 st) (fun x => ?_)
    obtain ⟨rs, st'⟩ := x
    simp only []
    refine sim_bind (sim_lift _) (fun rs' => ?_)
    exact sim_pure _

theorem parseWith_sim (h : HooksG) (nc : NvarCost) (z : Nat) (buf : Bytes) (st : St) :
    Sim (parseWithC h nc z buf st) (parseWithG h z buf st) := by
  unfold parseWithC parseWithG
  refine sim_bind (sim_lift _) (fun r => ?_)
  cases r with
  | some ms =>
    simp only []
    refine sim_bind (flash_sim h nc z buf st) (fun x => ?_)
    obtain ⟨f, st'⟩ := x
    exact sim_pure _
  | none =>
    simp only []
    refine sim_bind (bios_sim h nc z buf none st) (fun x => ?_)
    obtain ⟨b, st'⟩ := x
    exact sim_pure _

/-! ### bounds -/

def ScanQ (data : Bytes) (offset : Nat) (k : Cost) (r : Option Nat) (k' : Cost) : Prop :=
  k'.dec = k.dec ∧
  match r with
  | some o => offset ≤ o ∧ o + 4 < data.length ∧ k'.steps ≤ k.steps + (o - offset) / 8 + 1
  | none => k'.steps ≤ k.steps + (data.length - offset + 3) / 8

theorem scanSigC_post (data : Bytes) : ∀ (fuel offset : Nat) (m : Meter) (k : Cost),
    data.length ≤ offset + 4 + 8 * fuel →
    PostC (scanSigC data fuel offset) m k (fun r _ k' => ScanQ data offset k r k')
      (fun k' => k'.dec = k.dec ∧ k'.steps ≤ k.steps + (data.length - offset + 3) / 8)
  | 0, offset, m, k, hf => by
    rw [scanSigC]
    refine postC_ite (fun _ => ?_) (fun _ => postC_pure ⟨rfl, by simp only []; omega⟩)
    omega
  | fuel+1, offset, m, k, hf => by
    rw [scanSigC]
    refine postC_ite (fun hlt => ?_) (fun _ => postC_pure ⟨rfl, by simp only []; omega⟩)
    try simp only []
    refine postC_bind_tick ?_
    refine postC_bind_lift (R := fun _ _ => True) (post'_sliceG trivial) ⟨rfl, by simp only []; omega⟩ ?_
    intro w m1 _
    refine postC_ite (fun _ => postC_pure ⟨rfl, by simp only []; omega⟩) (fun _ => ?_)
    refine postC_mono (scanSigC_post data fuel (offset + 8) m1 _ (by omega)) (fun r _ k' hq => ?_) (fun k' hq => ?_)
    · obtain ⟨hd, hq⟩ := hq
      refine ⟨hd, ?_⟩
      cases r with
      | none => simp only [] at hq ⊢; omega
      | some o => simp only [] at hq ⊢; omega
    · obtain ⟨hd, hq⟩ := hq
      exact ⟨hd, by simp only [] at hq ⊢; omega⟩

def FindQ (data : Bytes) (k : Cost) (r : Option Nat) (k' : Cost) : Prop :=
  k'.dec = k.dec ∧
  match r with
  | some off => off + 44 < data.length ∧ k'.steps ≤ k.steps + off / 8 + 2
  | none => k'.steps ≤ k.steps + data.length / 8 + 1

theorem findFvOffsetC_post (data : Bytes) (m : Meter) (k : Cost) :
    PostC (findFvOffsetC data) m k (fun r _ k' => FindQ data k r k')
      (fun k' => k'.dec = k.dec ∧ k'.steps ≤ k.steps + data.length / 8 + 1) := by
  unfold findFvOffsetC
  refine postC_ite (fun _ => postC_pure ⟨rfl, by simp only []; omega⟩) (fun _ => ?_)
  refine postC_bind (postC_mono (scanSigC_post data _ 32 m k (by omega)) (fun _ _ _ hq => hq)
    (fun k' hq => ⟨hq.1, by have := hq.2; omega⟩)) ?_
  intro r m1 k1 ⟨hd, hq⟩
  split
  · rename_i o
    simp only [] at hq
    refine postC_ite (fun _ => postC_pure ⟨hd, by simp only []; omega⟩) (fun _ => postC_pure ⟨hd, by simp only []; omega⟩)
  · simp only [] at hq
    exact postC_pure ⟨hd, by simp only []; omega⟩

/-- the element loop of a BIOS region over `n` bytes -/
def Td (k k' : Cost) (n : Nat) : Prop :=
  k'.steps + 3 * k.dec ≤ k.steps + 3 * n + 2 + 3 * k'.dec ∧ k.dec ≤ k'.dec

theorem biosElemsC_post (h : HooksG) (nc : NvarCost) (hnc : NvarBd nc) (hcodec : CodecBounded h) (hnvar : NvarOk h)
    (z : Nat) : ∀ (fuel : Nat) (buf : Bytes) (abs : Nat) (st : St) (m : Meter) (k : Cost),
    buf.length < 2^63 → buf.length < fuel →
    PostC (biosElemsC h nc z fuel buf abs st) m k (fun _ _ k' => Td k k' buf.length) (fun k' => Td k k' buf.length)
  | 0, buf, abs, st, m, k, hb, hf => by omega
  | fuel+1, buf, abs, st, m, k, hb, hf => by
    rw [biosElemsC]
    refine postC_bind_tick ?_
    refine postC_bind (postC_mono (findFvOffsetC_post buf m _) (fun _ _ _ hq => hq) (fun k' hq => ?_)) ?_
    · simp only [Td] at hq ⊢; omega
    intro r m1 k1 ⟨hd, hq⟩
    simp only [] at hd
    split
    · simp only [] at hq
      refine postC_pure ?_
      simp only [Td]; omega
    · rename_i off
      simp only [] at hq
      obtain ⟨hoff, hsteps⟩ := hq
      simp only []
      have hE1 : Td k k1 buf.length := by simp only [Td]; omega
      refine postC_bind_lift (R := fun _ _ => True) ?_ hE1 ?_
      · split
        · exact post'_bind (post'_sliceToG (fun _ => post'_pure trivial))
        · exact post'_pure trivial
      intro pre m2 _
      refine postC_bind_lift (R := fun r _ => r = buf.drop off) (post'_sliceFromG rfl) hE1 ?_
      intro vb m3 hvb
      subst hvb
      have hl : (buf.drop off).length = buf.length - off := by simp
      have ihc := (mutual_cost h (innerZ h z) (innerCostZ h nc z) nc (innerCostZ_bd h nc hnc hcodec z) hnc hcodec
        (fuelFor (buf.drop off))).2.2.2.2 (buf.drop off) (abs + off) false st m3 k1 (by rw [hl]; omega)
        (by unfold fuelFor; omega)
      obtain ⟨ihok, iherr⟩ := postC_model (fv_sim h (innerZ h z) (innerCostZ h nc z) nc (fuelFor (buf.drop off))
        (buf.drop off) (abs + off) false st) ihc
      have hsafe := newFvG_post h hcodec hnvar z (buf.drop off) (abs + off) false st m3 (by rw [hl]; omega)
      refine postC_bind_call (fun e hee => ?_) (fun r m4 hr => ?_)
      · have := iherr e hee
        rw [hl] at this
        unfold newFvCostK
        simp only [Bd, Td] at this ⊢
        omega
      · obtain ⟨fv, st'⟩ := r
        have hq := ihok (fv, st') m4 hr
        unfold Post at hsafe
        unfold newFvG at hr
        unfold newFvG at hsafe
        rw [hr] at hsafe
        obtain ⟨⟨_, hwf⟩, _⟩ := hsafe
        have h64 : 64 ≤ fv.info.length := by
          cases fv with
          | mk i b fs => simp only [FvWf] at hwf; simpa [Fv.info] using hwf.2.2.2
        simp only [FvCQ] at hq
        rw [hl] at hq
        obtain ⟨hbd, hsz⟩ := hq
        simp only []
        unfold newFvCostK
        refine postC_ite (fun _ => postC_err ?_) (fun _ => ?_)
        · simp only [Bd, Td] at hbd ⊢; omega
        · have hEc : Td k (costOf (fvC h (innerZ h z) (innerCostZ h nc z) nc (fuelFor (List.drop off buf)) (List.drop off buf)
              (abs + off) false st) m3 k1) buf.length := by
            simp only [Bd, Td] at hbd ⊢; omega
          refine postC_bind_lift (R := fun r _ => r = buf.drop (off + fv.info.length)) (post'_sliceFromG rfl) hEc ?_
          intro rest m5 hrest
          subst hrest
          have hrl : (buf.drop (off + fv.info.length)).length = buf.length - (off + fv.info.length) := by simp
          have hrec := biosElemsC_post h nc hnc hcodec hnvar z fuel (buf.drop (off + fv.info.length))
            (abs + off + fv.info.length) st' m5
            (costOf (fvC h (innerZ h z) (innerCostZ h nc z) nc (fuelFor (List.drop off buf)) (List.drop off buf)
              (abs + off) false st) m3 k1) (by rw [hrl]; omega) (by rw [hrl]; omega)
          rw [hrl] at hrec
          have hconv : ∀ k3, Td (costOf (fvC h (innerZ h z) (innerCostZ h nc z) nc (fuelFor (List.drop off buf)) (List.drop off buf)
              (abs + off) false st) m3 k1) k3 (buf.length - (off + fv.info.length)) → Td k k3 buf.length := by
            intro k3 hk3
            simp only [Bd, Td] at hbd hk3 ⊢
            omega
          refine postC_bind (postC_mono hrec (fun _ _ k3 hk3 => hconv k3 hk3) (fun k3 hk3 => hconv k3 hk3)) ?_
          intro r6 m6 k6 hk6
          obtain ⟨es, st''⟩ := r6
          exact postC_pure hk6

theorem biosC_post (h : HooksG) (nc : NvarCost) (hnc : NvarBd nc) (hcodec : CodecBounded h) (hnvar : NvarOk h)
    (z : Nat) (buf : Bytes) (fr : Option FlashRegion) (st : St) (m : Meter) (k : Cost) (hb : buf.length < 2^63) :
    PostC (biosC h nc z buf fr st) m k (fun _ _ k' => Td k k' buf.length) (fun k' => Td k k' buf.length) := by
  unfold biosC
  refine postC_bind_lift (R := fun _ _ => True) (post'_of_post (post_cloneG trivial)) (by simp only [Td]; omega) ?_
  intro own m1 _
  refine postC_bind (biosElemsC_post h nc hnc hcodec hnvar z _ buf 0 st m1 k hb (by omega)) ?_
  intro r m2 k2 hk2
  obtain ⟨es, st'⟩ := r
  exact postC_pure hk2

/-- the region walk: one step per table entry, the BIOS region (entry 0) by `biosC` -/
def Rd (k k' : Cost) (n r : Nat) : Prop :=
  k'.steps + 3 * k.dec ≤ k.steps + 3 * n + 2 + r + 3 * k'.dec ∧ k.dec ≤ k'.dec

theorem regionsC_post (h : HooksG) (nc : NvarCost) (hnc : NvarBd nc) (hcodec : CodecBounded h) (hnvar : NvarOk h)
    (z : Nat) (buf : Bytes) (nr : Nat) (hb : buf.length < 2^63) :
    ∀ (frs : List FlashRegion) (i : Nat) (st : St) (m : Meter) (k : Cost),
    PostC (regionsC h nc z buf nr frs i st) m k
      (fun _ _ k' => if i = 0 then Rd k k' buf.length frs.length else Rd k k' 0 frs.length ∧ k'.steps ≤ k.steps + frs.length)
      (fun k' => if i = 0 then Rd k k' buf.length frs.length else Rd k k' 0 frs.length ∧ k'.steps ≤ k.steps + frs.length)
  | [], i, st, m, k => by
    rw [regionsC]
    refine postC_pure ?_
    split <;> simp only [Rd, List.length_nil] <;> omega
  | fr :: frs, i, st, m, k => by
    rw [regionsC]
    refine postC_bind_tick ?_
    have hstop : (if i = 0 then Rd k { k with steps := k.steps + 1 } buf.length (fr :: frs).length
        else Rd k { k with steps := k.steps + 1 } 0 (fr :: frs).length ∧
          ({ k with steps := k.steps + 1 } : Cost).steps ≤ k.steps + (fr :: frs).length) := by
      split <;> simp only [Rd, List.length_cons] <;> omega
    refine postC_ite (fun _ => postC_pure hstop) (fun _ => ?_)
    have hskip : ∀ k', (if i + 1 = 0 then Rd { k with steps := k.steps + 1 } k' buf.length frs.length
          else Rd { k with steps := k.steps + 1 } k' 0 frs.length ∧ k'.steps ≤ k.steps + 1 + frs.length) →
        (if i = 0 then Rd k k' buf.length (fr :: frs).length
          else Rd k k' 0 (fr :: frs).length ∧ k'.steps ≤ k.steps + (fr :: frs).length) := by
      intro k' hk'
      rw [if_neg (by omega)] at hk'
      split <;> simp only [Rd, List.length_cons] at hk' ⊢ <;> omega
    refine postC_ite (fun _ => ?_) (fun hacc => ?_)
    · exact postC_mono (regionsC_post h nc hnc hcodec hnvar z buf nr hb frs (i + 1) st m _)
        (fun _ _ k' hk' => hskip k' hk') (fun k' hk' => hskip k' hk')
    · refine postC_bind_lift (R := fun r _ => r.length ≤ buf.length) (post'_sliceG (by simp; omega)) hstop ?_
      intro rbuf m1 hrl
      refine postC_bind (R := fun _ _ k' => if i = 0 then Td { k with steps := k.steps + 1 } k' buf.length
          else k' = { k with steps := k.steps + 1 }) ?_ ?_
      · refine postC_ite (fun hi0 => ?_) (fun hi0 => ?_)
        · have hbio := biosC_post h nc hnc hcodec hnvar z rbuf (some fr) st m1 { k with steps := k.steps + 1 } (by omega)
          have hconv : ∀ k', Td { k with steps := k.steps + 1 } k' rbuf.length →
              Td { k with steps := k.steps + 1 } k' buf.length := by
            intro k' hk'
            simp only [Td] at hk' ⊢; omega
          refine postC_bind (postC_mono hbio (fun _ _ k' hk' => hconv k' hk') (fun k' hk' => ?_)) ?_
          · have := hconv k' hk'
            rw [if_pos hi0]
            simp only [Td, Rd, List.length_cons] at this ⊢; omega
          · intro r m2 k2 hk2
            obtain ⟨b, st'⟩ := r
            exact postC_pure (by rw [if_pos hi0]; exact hk2)
        · refine postC_ite (fun _ => ?_) (fun _ => ?_)
          · refine postC_bind_lift (R := fun _ _ => True) (post'_of_post (post_mono (newMeRegionG_post _ _ _) (fun _ _ _ => trivial)))
              hstop ?_
            intro r m2 _
            exact postC_pure (by rw [if_neg hi0])
          · refine postC_bind_lift (R := fun _ _ => True) (post'_of_post (post_cloneG trivial)) hstop ?_
            intro own m2 _
            exact postC_pure (by rw [if_neg hi0])
      · intro r m2 k2 hk2
        obtain ⟨r, st'⟩ := r
        simp only []
        have hrec := regionsC_post h nc hnc hcodec hnvar z buf nr hb frs (i + 1) st' m2 k2
        have hconv : ∀ k', (if i + 1 = 0 then Rd k2 k' buf.length frs.length
              else Rd k2 k' 0 frs.length ∧ k'.steps ≤ k2.steps + frs.length) →
            (if i = 0 then Rd k k' buf.length (fr :: frs).length
              else Rd k k' 0 (fr :: frs).length ∧ k'.steps ≤ k.steps + (fr :: frs).length) := by
          intro k' hk'
          rw [if_neg (by omega)] at hk'
          by_cases hi0 : i = 0
          · rw [if_pos hi0] at hk2 ⊢
            simp only [Td, Rd, List.length_cons] at hk2 hk' ⊢; omega
          · rw [if_neg hi0] at hk2 ⊢
            subst hk2
            simp only [Rd, List.length_cons] at hk' ⊢; omega
        refine postC_bind (postC_mono hrec (fun _ _ k' hk' => hconv k' hk') (fun k' hk' => hconv k' hk')) ?_
        intro r3 m3 k3 hk3
        obtain ⟨rs, st''⟩ := r3
        exact postC_pure hk3

/-- the whole parse of `n` bytes -/
def Pd (k k' : Cost) (n : Nat) : Prop :=
  k'.steps + 3 * k.dec ≤ k.steps + 3 * n + 17 + 3 * k'.dec ∧ k.dec ≤ k'.dec

theorem flashC_post (h : HooksG) (nc : NvarCost) (hnc : NvarBd nc) (hcodec : CodecBounded h) (hnvar : NvarOk h)
    (z : Nat) (buf : Bytes) (st : St) (m : Meter) (k : Cost) (hb : buf.length < 2^63) :
    PostC (flashC h nc z buf st) m k (fun _ _ k' => Pd k k' buf.length) (fun k' => Pd k k' buf.length) := by
  unfold flashC
  have hE : Pd k k buf.length := by simp only [Pd]; omega
  refine postC_ite (fun _ => postC_err hE) (fun _ => ?_)
  refine postC_bind_lift (R := fun _ _ => True) (post'_of_post (post_cloneG trivial)) hE ?_
  intro fbuf m1 _
  refine postC_bind_lift (R := fun _ _ => True) (post'_allocG trivial) hE ?_
  intro _ m2 _
  refine postC_bind_lift (R := fun _ _ => True) (post'_sliceToG (fun _ => trivial)) hE ?_
  intro d0 m3 _
  refine postC_bind_lift (post'_of_post (parseDescriptorG_post d0 m3)) hE ?_
  intro ifd m4 hd
  have h15 := hd.1
  split
  · exact hE
  · refine postC_ite (fun _ => postC_err hE) (fun _ => ?_)
    have hreg := regionsC_post h nc hnc hcodec hnvar z buf ifd.map.numberOfRegions hb ifd.region.regions 0 st m4 k
    simp only [if_true, h15] at hreg
    have hconv : ∀ k', Rd k k' buf.length 15 → Pd k k' buf.length := by
      intro k' hk'
      simp only [Rd, Pd] at hk' ⊢; omega
    refine postC_bind (postC_mono hreg (fun _ _ k' hk' => hconv k' hk') (fun k' hk' => hconv k' hk')) ?_
    intro r m5 k5 hk5
    obtain ⟨rs, st'⟩ := r
    simp only []
    refine postC_bind_lift (R := fun _ _ => True) ?_ hk5 ?_
    · unfold Post'
      split <;> trivial
    · intro rs' m6 _
      exact postC_pure hk5

theorem parseWithC_post (h : HooksG) (nc : NvarCost) (hnc : NvarBd nc) (hcodec : CodecBounded h) (hnvar : NvarOk h)
    (z : Nat) (buf : Bytes) (st : St) (m : Meter) (k : Cost) (hb : buf.length < 2^63) :
    PostC (parseWithC h nc z buf st) m k (fun _ _ k' => Pd k k' buf.length) (fun k' => Pd k k' buf.length) := by
  unfold parseWithC
  have hE : Pd k k buf.length := by simp only [Pd]; omega
  refine postC_bind_lift (R := fun _ _ => True) (by unfold Post'; split <;> trivial) hE ?_
  intro r m1 _
  split
  · refine postC_bind (flashC_post h nc hnc hcodec hnvar z buf st m1 k hb) ?_
    intro r2 m2 k2 hk2
    obtain ⟨f, st'⟩ := r2
    exact postC_pure hk2
  · have hbio := biosC_post h nc hnc hcodec hnvar z buf none st m1 k hb
    have hconv : ∀ k', Td k k' buf.length → Pd k k' buf.length := by
      intro k' hk'
      simp only [Td, Pd] at hk' ⊢; omega
    refine postC_bind (postC_mono hbio (fun _ _ k' hk' => hconv k' hk') (fun k' hk' => hconv k' hk')) ?_
    intro r2 m2 k2 hk2
    obtain ⟨b, st'⟩ := r2
    exact postC_pure hk2

/-- **uefi.Parse**: on every run — a tree, an error or a fault — at most `3·|bs| + 3·dec + 17` steps -/
theorem parseCost_le (h : HooksG) (nc : NvarCost) (hnc : NvarBd nc) (hcodec : CodecBounded h) (hnvar : NvarOk h)
    (z : Nat) (buf : Bytes) (m : Meter) (hb : buf.length < 2^63) :
    (parseCost h nc z buf m).steps ≤ 3 * buf.length + 3 * (parseCost h nc z buf m).dec + 17 := by
  unfold parseCost
  have := postC_cost (P := fun k' => Pd {} k' buf.length) (parseWithC_post h nc hnc hcodec hnvar z buf {} m {} hb)
  simp only [Pd] at this
  omega

/-- the cost function is the cost of the model's own run: the counting body computes what `parseWithG` computes -/
theorem parseCost_faithful (h : HooksG) (nc : NvarCost) (z : Nat) (buf : Bytes) (m : Meter) (k : Cost) :
    (parseWithC h nc z buf {} m k).1 = parseWithG h z buf {} m :=
  parseWith_sim h nc z buf {} m k

end Fiano.Uefi.Total
