/-
  Property C04 — NVAR stores: `NewNVarStore` returns a faithful store, for every byte string.
  Proofs for FaithfulNvar.lean, bottom-up: terminator searches, `getGUIDFromStore`, `parseName`,
  `parseBody`, `newNVar`, the walk, nested stores, the extended header; then the corollaries in the
  words of the property and the `decide`d witness of the table-overlap quirk.
-/
import FianoModel.Uefi.FaithfulNvar
import FianoModel.Nvram.OverlapGuard

namespace Fiano.NvFaithful
open Fiano Fiano.Nvram

/-! ### terminator searches -/

theorem indexByte0_spec : ∀ (b : Bytes) (e : Nat), indexByte0 b = some e →
    e < b.length ∧ b[e]? = some 0 ∧ ∀ j, j < e → b[j]? ≠ some 0 := by
  intro b
  induction b with
  | nil => intro e h; cases h
  | cons c rest ih =>
    intro e h
    unfold indexByte0 at h
    split at h
    · rename_i hc
      cases h
      exact ⟨by simp, by simp [hc], fun j hj => by omega⟩
    · rename_i hc
      match hr : indexByte0 rest, h with
      | some e', h =>
        simp only [Option.map_some, Option.some.injEq] at h
        subst h
        obtain ⟨h1, h2, h3⟩ := ih e' hr
        refine ⟨by simp; omega, by simpa using h2, ?_⟩
        intro j hj
        cases j with
        | zero => simp only [List.getElem?_cons_zero, ne_eq, Option.some.injEq]; exact hc
        | succ j => simp only [List.getElem?_cons_succ]; exact h3 j (by omega)
      | none, h => cases h

theorem indexNul16_spec : ∀ (n : Nat) (b : Bytes) (e : Nat), b.length ≤ n → indexNul16 b = some e →
    e % 2 = 0 ∧ e + 2 ≤ b.length ∧ b[e]? = some 0 ∧ b[e + 1]? = some 0 ∧
    ∀ j, j < e → j % 2 = 0 → ¬ (b[j]? = some 0 ∧ b[j + 1]? = some 0) := by
  intro n
  induction n with
  | zero =>
    intro b e hl h
    match b, hl, h with
    | [], _, h => unfold indexNul16 at h; cases h
  | succ n ih =>
    intro b e hl h
    match b, hl, h with
    | [], _, h => unfold indexNul16 at h; cases h
    | [_], _, h => unfold indexNul16 at h; cases h
    | a :: c :: rest, hl, h =>
      unfold indexNul16 at h
      split at h
      · rename_i hc
        cases h
        exact ⟨rfl, by simp, by simp [hc.1], by simp [hc.2], fun j hj => by omega⟩
      · rename_i hc
        match hr : indexNul16 rest, h with
        | some e', h =>
          simp only [Option.map_some, Option.some.injEq] at h
          subst h
          have hl' : rest.length ≤ n := by simp only [List.length_cons] at hl; omega
          obtain ⟨h1, h2, h3, h4, h5⟩ := ih rest e' hl' hr
          refine ⟨by omega, by simp only [List.length_cons]; omega, by simpa using h3, by simpa using h4, ?_⟩
          intro j hj hj2
          cases j with
          | zero =>
            simp only [List.getElem?_cons_zero, Nat.zero_add, List.getElem?_cons_succ, Option.some.injEq]
            exact hc
          | succ j =>
            cases j with
            | zero => omega
            | succ j =>
              simp only [List.getElem?_cons_succ]
              exact h5 j (by omega) (by omega)
        | none, h => cases h

/-! ### the GUID table -/

theorem tableOk_nil (sb : Bytes) : TableOk sb [] :=
  ⟨by simp, by simp, fun k hk => by simp at hk⟩

theorem getGuid_spec (sb : Bytes) (gs : List Bytes) (i : Nat) (hi256 : i < 256) (hT : TableOk sb gs) :
    TableOk sb (getGuid sb gs i).2 ∧ (getGuid sb gs i).2.length = growTo sb gs.length (some i) ∧
    (getGuid sb gs i).1 = guidByIndex sb (getGuid sb gs i).2.length i := by
  obtain ⟨h16, h255, hget⟩ := hT
  have hm : (i + 1) % 256 < 256 := Nat.mod_lt _ (by omega)
  unfold getGuid growTo guidByIndex
  simp only []
  by_cases h1 : gs.length < (i + 1) % 256
  · rw [if_pos h1]
    by_cases h2 : sb.length < 16 * ((i + 1) % 256)
    · rw [if_pos h2]
      have : ¬ (gs.length < (i + 1) % 256 ∧ 16 * ((i + 1) % 256) ≤ sb.length) := by omega
      rw [if_neg this]
      refine ⟨⟨h16, h255, hget⟩, rfl, ?_⟩
      have : ¬ i < gs.length := by
        intro hc
        have : (i + 1) % 256 = i + 1 ∨ (i + 1) % 256 = 0 := by omega
        omega
      rw [if_neg this]
    · rw [if_neg h2]
      have hc : gs.length < (i + 1) % 256 ∧ 16 * ((i + 1) % 256) ≤ sb.length := ⟨h1, by omega⟩
      rw [if_pos hc]
      have hlen : (gs ++ (List.range ((i + 1) % 256 - gs.length)).map (fun j => guidAt sb (gs.length + j))).length
          = (i + 1) % 256 := by
        simp only [List.length_append, List.length_map, List.length_range]; omega
      have hget' : ∀ k, k < (i + 1) % 256 →
          (gs ++ (List.range ((i + 1) % 256 - gs.length)).map (fun j => guidAt sb (gs.length + j)))[k]? =
            some (guidAt sb k) := by
        intro k hk
        by_cases hkl : k < gs.length
        · rw [List.getElem?_append_left hkl]; exact hget k hkl
        · rw [List.getElem?_append_right (by omega), List.getElem?_map, List.getElem?_range (by omega)]
          simp only [Option.map_some]
          congr 2; omega
      refine ⟨⟨by rw [hlen]; omega, by rw [hlen]; omega, fun k hk => hget' k (by rw [hlen] at hk; exact hk)⟩, hlen, ?_⟩
      simp only []
      rw [hlen]
      have hi : i < (i + 1) % 256 := by
        have : (i + 1) % 256 = i + 1 ∨ (i + 1) % 256 = 0 := by omega
        omega
      rw [if_pos hi, hget' i hi]
  · rw [if_neg h1]
    have : ¬ (gs.length < (i + 1) % 256 ∧ 16 * ((i + 1) % 256) ≤ sb.length) := fun hc => h1 hc.1
    rw [if_neg this]
    refine ⟨⟨h16, h255, hget⟩, rfl, ?_⟩
    simp only []
    by_cases hi : i < gs.length
    · rw [if_pos hi, hget i hi]
    · rw [if_neg hi]
      have : gs[i]? = none := List.getElem?_eq_none (by omega)
      rw [this]

/-! ### one entry -/

theorem parseName_spec (attrs : Nat) (vbuf : Bytes) (doff : Nat) (name : Bytes) (used : Nat)
    (hp : parseName attrs (vbuf.drop doff) = some (name, used)) :
    NameAt attrs vbuf doff name (doff + used) := by
  unfold parseName at hp
  unfold NameAt
  split at hp
  · rename_i ha
    rw [if_pos ha]
    split at hp
    · cases hp
    · rename_i e he
      cases hp
      obtain ⟨h1, h2, h3⟩ := indexByte0_spec _ _ he
      simp only [List.length_drop] at h1
      simp only [List.getElem?_drop] at h2 h3
      exact ⟨e, by omega, h2, h3, rfl, by omega⟩
  · rename_i ha
    rw [if_neg ha]
    split at hp
    · cases hp
    · rename_i e he
      cases hp
      obtain ⟨h1, h2, h3, h4, h5⟩ := indexNul16_spec _ _ _ (Nat.le_refl _) he
      simp only [List.length_drop] at h2
      simp only [List.getElem?_drop] at h3 h4 h5
      refine ⟨e, h1, by omega, h3, ?_, ?_, rfl, by omega⟩
      · rw [show doff + e + 1 = doff + (e + 1) by omega]; exact h4
      · intro j hj hj2
        rw [show doff + j + 1 = doff + (j + 1) by omega]; exact h5 j hj hj2

theorem not_true_false {b : Bool} (h : (!b) = true) : b = false := by cases b <;> simp_all
theorem not_not_true {b : Bool} (h : ¬ (!b) = true) : b = true := by cases b <;> simp_all

theorem parseBody_spec (pol : Nat) (sb : Bytes) (gs : List Bytes) (es : List NVar) (offset size next attrs : Nat)
    (vbuf : Bytes) (v : NVar) (gs' : List Bytes) (hT : TableOk sb gs) (hsz : vbuf.length = size) (h10 : 10 ≤ size)
    (hp : parseBody pol sb gs es offset size next attrs vbuf = .ok (some (v, gs'))) :
    v.size = size ∧ v.next = next ∧ v.attrs = attrs ∧ v.offset = offset ∧ v.buf = vbuf ∧
    TableOk sb gs' ∧ gs'.length = growTo sb gs.length v.guidIndex ∧ EntryOk pol sb es gs'.length v := by
  unfold parseBody at hp
  simp only [] at hp
  split at hp
  · rename_i hv
    have hv' := not_true_false hv
    cases hp
    refine ⟨rfl, rfl, rfl, rfl, rfl, hT, rfl, ?_⟩
    unfold EntryOk
    simp only []
    rw [if_pos hv']
    simp [hdrSize]
  · rename_i hv
    have hv' := not_not_true hv
    split at hp
    · cases hp
    · rename_i hpol
      have hpol' : pol = 0xFF ∨ pol = 0 := by omega
      split at hp
      · rename_i hx
        have hx' := not_true_false hx
        cases hp
        refine ⟨rfl, rfl, rfl, rfl, rfl, hT, rfl, ?_⟩
        unfold EntryOk
        simp only []
        rw [if_neg (by rw [hv']; simp)]
        refine ⟨hpol', trivial, ?_⟩
        rw [if_pos hx']
        simp [hdrSize]
      · rename_i hx
        have hx' := not_not_true hx
        split at hp
        · rename_i hd
          split at hp
          · rename_i l hl
            cases hp
            refine ⟨rfl, rfl, rfl, rfl, rfl, hT, rfl, ?_⟩
            unfold EntryOk
            simp only []
            rw [if_neg (by rw [hv']; simp)]
            refine ⟨hpol', trivial, ?_⟩
            rw [if_neg (by rw [hx']; simp), if_pos hd]
            refine ⟨by simp [hdrSize], trivial, trivial, ?_⟩
            rw [hl]
            refine ⟨rfl, rfl, ?_⟩
            by_cases hn : next = lastFlag pol
            · simp [hn]
            · simp [hn]
          · rename_i hl
            cases hp
            refine ⟨rfl, rfl, rfl, rfl, rfl, hT, rfl, ?_⟩
            unfold EntryOk
            simp only []
            rw [if_neg (by rw [hv']; simp)]
            refine ⟨hpol', trivial, ?_⟩
            rw [if_neg (by rw [hx']; simp), if_pos hd]
            refine ⟨by simp [hdrSize], trivial, trivial, ?_⟩
            rw [hl]
            trivial
        · rename_i hd
          split at hp
          · cases hp
          · rename_i guid gi gs1 doff hg
            split at hp
            · cases hp
            · rename_i name used hnm
              cases hp
              have hname := parseName_spec _ _ _ _ _ hnm
              refine ⟨rfl, rfl, rfl, rfl, rfl, ?_⟩
              simp only []
              unfold EntryOk
              simp only []
              rw [if_neg (by rw [hv']; simp)]
              rw [if_neg (by rw [hx']; simp), if_neg hd]
              split at hg
              · rename_i hgd
                split at hg
                · cases hg
                · rename_i h16
                  cases hg
                  simp only [List.length_drop, hdrSize, guidSize] at h16
                  refine ⟨hT, rfl, hpol', trivial, trivial, trivial, ?_⟩
                  unfold OwnKeyOk
                  simp only []
                  rw [if_pos hgd]
                  exact ⟨by omega, rfl, trivial, hname⟩
              · rename_i hgd
                split at hg
                · cases hg
                · rename_i i tail hdr
                  cases hg
                  have hi256 : i.toNat < 256 := i.toNat_lt
                  obtain ⟨hT', hl', hg'⟩ := getGuid_spec sb gs i.toNat hi256 hT
                  have h10' : vbuf[10]? = some i := by
                    have : (vbuf.drop hdrSize)[0]? = some i := by rw [hdr]; rfl
                    simpa [hdrSize] using this
                  have h11 : 11 ≤ size := by
                    have : (vbuf.drop hdrSize).length = (i :: tail).length := by rw [hdr]
                    simp only [List.length_drop, hdrSize, List.length_cons] at this
                    omega
                  refine ⟨hT', hl', hpol', trivial, trivial, trivial, ?_⟩
                  unfold OwnKeyOk
                  simp only []
                  rw [if_neg hgd]
                  exact ⟨h11, ⟨i, h10', rfl, hg'⟩, hname⟩
theorem parseBody_ne_none (pol : Nat) (sb : Bytes) (gs : List Bytes) (es : List NVar) (offset size next attrs : Nat)
    (vbuf : Bytes) : parseBody pol sb gs es offset size next attrs vbuf ≠ .ok none := by
  unfold parseBody
  simp only []
  intro h
  split at h
  · cases h
  · split at h
    · cases h
    · split at h
      · cases h
      · split at h
        · split at h <;> cases h
        · split at h
          · cases h
          · split at h <;> cases h

theorem newNVar_none (pol : Nat) (sb : Bytes) (gs : List Bytes) (es : List NVar) (buf : Bytes) (offset : Nat)
    (hp : newNVar pol sb gs es buf offset = .ok none) : isErased pol buf = true := by
  unfold newNVar at hp
  split at hp
  · assumption
  · split at hp
    · cases hp
    · split at hp
      · cases hp
      · simp only [] at hp
        split at hp
        · cases hp
        · split at hp
          · cases hp
          · exact absurd hp (parseBody_ne_none _ _ _ _ _ _ _ _ _)

theorem newNVar_some (pol : Nat) (sb : Bytes) (gs : List Bytes) (es : List NVar) (buf : Bytes) (offset : Nat)
    (v : NVar) (gs' : List Bytes) (hT : TableOk sb gs)
    (hp : newNVar pol sb gs es buf offset = .ok (some (v, gs'))) :
    isErased pol buf = false ∧ 10 ≤ buf.length ∧ slice buf 0 4 = sig ∧ v.size = fromLE (slice buf 4 2) ∧
    v.size ≤ buf.length ∧ 10 ≤ v.size ∧ v.next = fromLE (slice buf 6 3) ∧ v.attrs = fromLE (slice buf 9 1) ∧
    v.buf = buf.take v.size ∧ v.offset = offset ∧
    TableOk sb gs' ∧ gs'.length = growTo sb gs.length v.guidIndex ∧ EntryOk pol sb es gs'.length v := by
  unfold newNVar at hp
  split at hp
  · cases hp
  · rename_i he
    split at hp
    · cases hp
    · rename_i h10
      split at hp
      · cases hp
      · rename_i hs
        simp only [] at hp
        split at hp
        · cases hp
        · rename_i hsz
          split at hp
          · cases hp
          · rename_i hsz10
            simp only [hdrSize] at h10 hsz10
            have hlen : (buf.take (fromLE (slice buf 4 2))).length = fromLE (slice buf 4 2) := by
              simp only [List.length_take]; omega
            obtain ⟨h1, h2, h3, h4, h5, h6, h7, h8⟩ :=
              parseBody_spec pol sb gs es offset _ _ _ _ v gs' hT hlen (by omega) hp
            refine ⟨by cases h : isErased pol buf <;> simp_all, by omega, ?_, h1, by omega, by omega, h2, h3, ?_, h4,
              h6, h7, h8⟩
            · exact Classical.not_not.mp hs
            · rw [h5, h1]

/-- the loop of `NewNVarStore` -/
theorem walk_spec (pol : Nat) (sb : Bytes) : ∀ (f fso gso : Nat) (gs : List Bytes) (es : List NVar) (s : Store),
    TableOk sb gs → gso = sb.length - 16 * gs.length →
    walk pol sb f fso gso gs es = .ok s →
    ∃ rest, s.entries = es ++ rest ∧ s.buf = sb ∧ s.length = sb.length ∧ TableOk sb s.guidStore ∧
      s.gso = sb.length - 16 * s.guidStore.length ∧
      EntriesAt pol sb es rest fso gs.length s.fso s.guidStore.length := by
  intro f
  induction f with
  | zero => intro fso gso gs es s _ _ h; unfold walk at h; cases h
  | succ f ih =>
    intro fso gso gs es s hT hgso h
    unfold walk at h
    split at h
    · rename_i hlt
      split at h
      · cases h
      · rename_i hn
        cases h
        refine ⟨[], by simp, rfl, rfl, hT, hgso, ?_⟩
        simp only [EntriesAt]
        refine ⟨trivial, trivial, Or.inr ?_⟩
        have := newNVar_none _ _ _ _ _ _ hn
        rw [hgso] at this; exact this
      · rename_i v gs' hn
        obtain ⟨h1, h2, h3, h4, h5, h6, h7, h8, h9, h10, h11, h12, h13⟩ := newNVar_some _ _ _ _ _ _ _ _ hT hn
        split at h
        · cases h
        obtain ⟨rest, hr1, hr2, hr3, hr4, hr5, hr6⟩ := ih _ _ _ _ _ h11 rfl h
        refine ⟨v :: rest, by rw [hr1]; simp, hr2, hr3, hr4, hr5, ?_⟩
        have hsl : (slice sb fso (gso - fso)).length = gso - fso := by
          apply slice_length; have := hT.1; omega
        rw [hsl] at h2 h5
        simp only [EntriesAt]
        rw [← hgso, ← h12]
        refine ⟨hlt, h1, ?_, h13, hr6⟩
        unfold HdrAt rdAt
        rw [slice_slice _ _ _ _ _ (by omega)] at h3 h4 h7 h8
        refine ⟨h10, by omega, by simpa using h3, h4, h7, h8, h6, by omega, ?_⟩
        rw [h9]
        have : (slice sb fso (gso - fso)).take v.size = slice (slice sb fso (gso - fso)) 0 v.size := by
          simp [slice]
        rw [this, slice_slice _ _ _ _ _ (by omega)]
        simp
    · rename_i hge
      cases h
      refine ⟨[], by simp, rfl, rfl, hT, hgso, ?_⟩
      simp only [EntriesAt]
      exact ⟨trivial, trivial, Or.inl (by omega)⟩

/-- **`NewNVarStore` returns a faithful store, for every byte string and polarity** -/
theorem nv_faithful (pol : Nat) (b : Bytes) (s : Store) (hp : parseStore pol b = .ok s) : NvF pol s b := by
  have hle := parseStore_fso_le_gso pol b s hp
  unfold parseStore at hp
  obtain ⟨rest, h1, h2, h3, h4, h5, h6⟩ := walk_spec pol b _ _ _ _ _ s (tableOk_nil b) (by simp) hp
  simp only [List.nil_append] at h1
  rw [← h1] at h6
  exact ⟨h2, h3, h4, h5, h6, hle⟩

theorem nestedOf_parse (pol : Nat) (v : NVar) (ns : Store) (h : nestedOf pol v = some ns) :
    parseStore pol (content v) = .ok ns := by
  unfold nestedOf at h
  split at h
  · split at h
    · rename_i s hs; cases h; exact hs
    · cases h
  · cases h

/-- … and every nested store is faithful to the content bytes of its entry, to any depth -/
theorem nv_faithful_deep (pol : Nat) : ∀ (d : Nat) (b : Bytes) (s : Store), parseStore pol b = .ok s → NvFDeep pol d s b := by
  intro d
  induction d with
  | zero => intro b s hp; exact nv_faithful pol b s hp
  | succ d ih =>
    intro b s hp
    exact ⟨nv_faithful pol b s hp, fun v _ ns hns => ih _ _ (nestedOf_parse pol v ns hns)⟩

end Fiano.NvFaithful
