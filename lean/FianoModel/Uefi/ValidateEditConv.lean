/-
  C09a for edited trees (follow-up wp-c09c): `extraB` is the **weakest** hypothesis that can stand in
  `ve_validImage_validates` — it is implied by the conclusion, for every tree and state, with no other
  assumption:

      validate t st = []  →  extraB t st = true                                  (`ve_extra_of_clean`)

  so that on an image the reader accepts, parsed with `readAlikeB`, validate is clean **iff** `extraB` holds
  (`ve_clean_iff_extra`): `extraB` is exactly the part of validate that the reader's rules do not imply.
  Core Lean only.
-/
import FianoModel.Uefi.ValidateEditTop

namespace Fiano.Uefi.C09
open Fiano Fiano.Uefi

mutual

theorem ve_xSection_of_clean : ∀ (s : Section), vSection s = [] → xSection s = true
  | .mk i buf encap, h => by
    rw [vSection] at h
    have hn : vNodes encap = [] := (List.append_eq_nil_iff.mp h).2
    rw [xSection]
    by_cases h2 : i.type = 2
    · rw [if_pos h2]; exact List.isEmpty_iff.mpr hn
    · rw [if_neg h2]; exact ve_xNodes_of_clean encap hn

theorem ve_xNodes_of_clean : ∀ (ns : List Node), vNodes ns = [] → xNodes ns = true
  | [], _ => by rw [xNodes]
  | .sec s :: ns, h => by
    rw [vNodes] at h
    obtain ⟨h1, h2⟩ := List.append_eq_nil_iff.mp h
    rw [xNodes, ve_xSection_of_clean s h1, ve_xNodes_of_clean ns h2]; rfl
  | .fv v :: ns, h => by
    rw [vNodes] at h
    obtain ⟨h1, h2⟩ := List.append_eq_nil_iff.mp h
    rw [xNodes, ve_xFv_of_clean v h1, ve_xNodes_of_clean ns h2]; rfl

theorem ve_xSections_of_clean : ∀ (ss : List Section), vSections ss = [] → xSections ss = true
  | [], _ => by rw [xSections]
  | s :: ss, h => by
    rw [vSections] at h
    obtain ⟨h1, h2⟩ := List.append_eq_nil_iff.mp h
    rw [xSections, ve_xSection_of_clean s h1, ve_xSections_of_clean ss h2]; rfl

theorem ve_xFile_of_clean : ∀ (f : File), vFile f = [] → xFile f = true
  | .mk i buf secs, h => by
    rw [vFile] at h
    have h2 := (List.append_eq_nil_iff.mp h).2
    rw [xFile]
    by_cases hnv : i.nvar.isSome = true
    · rw [if_pos hnv]
    · rw [if_neg hnv] at h2 ⊢
      exact ve_xSections_of_clean secs h2

theorem ve_xFiles_of_clean : ∀ (fs : List File), vFiles fs = [] → xFiles fs = true
  | [], _ => by rw [xFiles]
  | f :: fs, h => by
    rw [vFiles] at h
    obtain ⟨h1, h2⟩ := List.append_eq_nil_iff.mp h
    rw [xFiles, ve_xFile_of_clean f h1, ve_xFiles_of_clean fs h2]; rfl

theorem ve_xFv_of_clean : ∀ (v : Fv), vFv v = [] → xFv v = true
  | .mk i buf files, h => by
    rw [vFv] at h
    obtain ⟨h1, h2⟩ := List.append_eq_nil_iff.mp h
    have ok := (validateFvNode_nil_iff _ _).mp h1
    rw [xFv, ok.guid, ve_xFiles_of_clean files h2]
    simp [ok.rev]

end

theorem ve_xElems_of_clean (pol : UInt8) : ∀ (es : List BiosElem), vBiosElems pol es = [] → xElems pol es = true
  | [], _ => by rw [xElems]
  | .pad b o :: es, h => by
    rw [vBiosElems] at h
    rw [xElems]; exact ve_xElems_of_clean pol es h
  | .fv v :: es, h => by
    rw [vBiosElems] at h
    obtain ⟨h12, h3⟩ := List.append_eq_nil_iff.mp h
    obtain ⟨h1, h2⟩ := List.append_eq_nil_iff.mp h12
    have hp : polOfAttrs v.info.attrs = pol := by
      by_cases c : polOfAttrs v.info.attrs = pol
      · exact c
      · rw [if_pos c] at h2; cases h2
    rw [xElems, ve_xFv_of_clean v h1, ve_xElems_of_clean pol es h3]
    simp [hp]

theorem ve_xBios_of_clean (pol : UInt8) (b : BiosRegion) (h : vBios pol b = []) : xBios pol b = true := by
  unfold vBios at h
  obtain ⟨h12, h3⟩ := List.append_eq_nil_iff.mp h
  obtain ⟨h1, h2⟩ := List.append_eq_nil_iff.mp h12
  have hany : b.elems.any BiosElem.isFv = true := by
    by_cases c : b.elems.any BiosElem.isFv = true
    · exact c
    · rw [if_neg c] at h2; cases h2
  unfold xBios
  rw [hany, ve_xElems_of_clean pol b.elems h3]
  cases hb : b.fr with
  | none => rfl
  | some fr =>
    rw [hb] at h1
    simp only at h1
    by_cases c : fr.valid = true
    · simp [c]
    · rw [if_pos c] at h1; cases h1

theorem ve_xRegions_of_clean (pol : UInt8) : ∀ (rs : List Region), vRegions pol rs = [] → xRegions pol rs = true
  | [], _ => by rw [xRegions]
  | r :: rs, h => by
    rw [vRegions] at h
    obtain ⟨h1, h2⟩ := List.append_eq_nil_iff.mp h
    rw [xRegions, ve_xRegions_of_clean pol rs h2, Bool.and_true]
    cases r with
    | bios b => rw [vRegion] at h1; rw [xRegion]; exact ve_xBios_of_clean pol b h1
    | me b fr =>
      rw [vRegion] at h1; rw [xRegion]
      by_cases c : fr.valid = true
      · exact c
      · rw [if_pos c] at h1; cases h1
    | raw b fr t =>
      rw [vRegion] at h1; rw [xRegion]
      by_cases c : fr.valid = true
      · exact c
      · rw [if_pos c] at h1; cases h1

/-- **`extraB` is implied by a clean validate** — for every tree and state, nothing else assumed -/
theorem ve_extra_of_clean (t : Tree) (st : St) (h : validate t st = []) : extraB t st = true := by
  cases t with
  | bios b => exact ve_xBios_of_clean st.pol b h
  | flash f =>
    unfold validate at h
    simp only at h
    unfold vFlash at h
    obtain ⟨h12, h3⟩ := List.append_eq_nil_iff.mp h
    obtain ⟨_, h2⟩ := List.append_eq_nil_iff.mp h12
    unfold extraB
    simp only
    unfold xFlash
    rw [ve_xRegions_of_clean st.pol f.regions h3, List.isEmpty_iff.mpr h2]; rfl

/-- on an image the reader accepts, read as the specification reads it, **validate is clean iff `extraB`
    holds** -/
theorem ve_clean_iff_extra (h : Hooks) (hb : h.BoundedCodecs) (hlaw : h.NvLaw) (fuel : Nat) (bs : Bytes)
    (st st' : St) (t : Tree) (hp : parseWith h fuel bs st = .ok (t, st')) (hv : Valid.validImage bs = true)
    (hL : bs.length < 65536 * 4096) (hRA : readAlikeB t = true) :
    validate t st' = [] ↔ extraB t st' = true :=
  ⟨ve_extra_of_clean t st', ve_validImage_validates h hb hlaw fuel bs st st' t hp hv hL hRA⟩

end Fiano.Uefi.C09
