/-
  C05 (follow-up wp-c05b) — the additional Go-semantics primitives that `visitors.Assemble` needs, and
  the triple `PostA` ("safe up to address-space exhaustion").

  The parsers only *read* buffers; `Assemble` *builds* them (`append`, `make`, `bytes.Buffer`).  A Go slice
  has an `int` length: `append` / `make` whose result would have `2^63` elements or more do not return
  (`growslice: len out of range` / `makeslice: len out of range`, in practice the process is long dead
  of memory exhaustion).  The model makes that explicit: every `append` / `make` goes through `fitsG`,
  which faults with the one distinguished site `hugeSite` when the new length does not fit.  All other
  arithmetic of `Assemble` is `uint64` with wrap-around, exactly as in Go; because every buffer that
  exists has passed `fitsG`, the proofs may use `len < 2^63` for it, and nothing else about sizes.

  `PostA x m Q` : running `x` from meter `m` gives a value satisfying `Q`, or an ordinary error, or the
  `hugeSite` fault — never any other panic (slice / index / nil dereference / `log.Fatalf`), never out
  of fuel.  `Post` (TotalBase.lean) is the special case that excludes `hugeSite` as well.
-/
import FianoModel.Uefi.TotalBase

namespace Fiano
namespace GoM

/-- the only fault `PostA` tolerates: a slice that would not fit an `int` length -/
def hugeSite : String := "runtime: len out of range (a slice of 2^63 bytes or more)"

/-- a slice length must fit an `int` -/
def fitsG (n : Nat) : GoM Unit := if n < 2 ^ 63 then pure () else goPanic hugeSite

/-- `make([]byte, n)` for a `uint64` value `n` -/
def makeG (n : Nat) : GoM Unit := do
  fitsG n
  allocG n 1

/-- `b = append(b, x...)` with `len(b) = cur`, `len(x) = add`: the appended bytes are charged to the meter
    (the Go runtime's growth policy multiplies that by a constant) -/
def appendG (cur add : Nat) : GoM Unit := do
  fitsG (cur + add)
  allocG add 1

/-- `binary.LittleEndian.PutUint16/32/64(b, v)`: `_ = b[k-1]` -/
def putG (site : String) (b : Bytes) (k : Nat) : GoM Unit :=
  if k ≤ b.length then pure () else goPanic site

/-- dereference of a nil pointer / interface -/
def nilG {α} (site : String) : GoM α := goPanic ("nil dereference: " ++ site)

/-- `log.Fatalf` (process exit) -/
def fatalG {α} (site : String) : GoM α := goPanic ("log.Fatalf: " ++ site)

/-! ### the triple -/

def PostA {α} (x : GoM α) (m : Meter) (Q : α → Meter → Prop) : Prop :=
  match x m with
  | .ok (a, m') => Q a m'
  | .error .err => True
  | .error (.panic s) => s = hugeSite
  | .error .fuel => False

/-- a result is *safe up to address-space exhaustion*: a value, an ordinary error, or `hugeSite` -/
def SafeA {α} (r : Except Fault (α × Meter)) : Prop :=
  match r with
  | .ok _ => True
  | .error .err => True
  | .error (.panic s) => s = hugeSite
  | .error .fuel => False

instance {α} (r : Except Fault (α × Meter)) : Decidable (SafeA r) := by
  unfold SafeA; split <;> infer_instance

theorem postA_safe {α} {x : GoM α} {m : Meter} {Q : α → Meter → Prop} (h : PostA x m Q) : SafeA (x m) := by
  unfold PostA at h; unfold SafeA
  cases hx : x m with
  | ok r => trivial
  | error e => rw [hx] at h; cases e <;> simp_all

theorem postA_of_post {α} {x : GoM α} {m : Meter} {Q : α → Meter → Prop} (h : Post x m Q) : PostA x m Q := by
  unfold Post at h; unfold PostA
  cases hx : x m with
  | ok r => obtain ⟨a, m'⟩ := r; rw [hx] at h; exact h
  | error e => rw [hx] at h; cases e <;> simp_all

theorem postA_mono {α} {x : GoM α} {m : Meter} {Q Q' : α → Meter → Prop}
    (h : PostA x m Q) (hq : ∀ a m', Q a m' → Q' a m') : PostA x m Q' := by
  unfold PostA at *
  cases hx : x m with
  | ok r => obtain ⟨a, m'⟩ := r; rw [hx] at h; exact hq a m' h
  | error e => rw [hx] at h; cases e <;> simp_all

theorem postA_pure {α} {a : α} {m : Meter} {Q : α → Meter → Prop} (h : Q a m) :
    PostA (pure a : GoM α) m Q := postA_of_post (post_pure h)

theorem postA_err {α} {m : Meter} {Q : α → Meter → Prop} : PostA (err : GoM α) m Q := postA_of_post post_err

theorem postA_bind {α β} {x : GoM α} {f : α → GoM β} {m : Meter} {Q : β → Meter → Prop}
    (h : PostA x m (fun a m' => PostA (f a) m' Q)) : PostA (x >>= f) m Q := by
  unfold PostA at h ⊢
  simp only [bind, StateT.bind]
  cases hx : x m with
  | ok r =>
    obtain ⟨a, m'⟩ := r
    rw [hx] at h
    simpa [Except.bind, PostA] using h
  | error e => rw [hx] at h; cases e <;> simp_all [Except.bind]

theorem postA_bind' {α β} {x : GoM α} {f : α → GoM β} {m : Meter} {Q : β → Meter → Prop}
    {R : α → Meter → Prop} (hx : PostA x m R) (hf : ∀ a m', R a m' → PostA (f a) m' Q) :
    PostA (x >>= f) m Q :=
  postA_bind (postA_mono hx hf)

theorem postA_ite {α} {c : Prop} [Decidable c] {x y : GoM α} {m : Meter} {Q : α → Meter → Prop}
    (hx : c → PostA x m Q) (hy : ¬ c → PostA y m Q) : PostA (if c then x else y) m Q := by
  split
  · exact hx ‹_›
  · exact hy ‹_›

/-! ### primitives -/

theorem postA_fitsG {n : Nat} {m : Meter} {Q : Unit → Meter → Prop} (hq : n < 2 ^ 63 → Q () m) :
    PostA (fitsG n) m Q := by
  unfold fitsG
  split
  · exact postA_pure (hq ‹_›)
  · simp [PostA, goPanic]

theorem postA_makeG {n : Nat} {m : Meter} {Q : Unit → Meter → Prop}
    (hq : n < 2 ^ 63 → Q () { m with alloc := m.alloc + n }) : PostA (makeG n) m Q := by
  unfold makeG
  refine postA_bind (postA_fitsG (fun hn => ?_))
  exact postA_of_post (post_allocG (by simpa using hq hn))

theorem postA_appendG {cur add : Nat} {m : Meter} {Q : Unit → Meter → Prop}
    (hq : cur + add < 2 ^ 63 → Q () { m with alloc := m.alloc + add }) : PostA (appendG cur add) m Q := by
  unfold appendG
  refine postA_bind (postA_fitsG (fun hn => ?_))
  exact postA_of_post (post_allocG (by simpa using hq hn))

theorem postA_putG {site : String} {b : Bytes} {k : Nat} {m : Meter} {Q : Unit → Meter → Prop}
    (h : k ≤ b.length) (hq : Q () m) : PostA (putG site b k) m Q := by
  unfold putG
  rw [if_pos h]
  exact postA_pure hq

theorem postA_sliceG {site : String} {b : Bytes} {lo hi : Nat} {m : Meter} {Q : Bytes → Meter → Prop}
    (h : lo ≤ hi ∧ hi ≤ b.length) (hq : Q ((b.drop lo).take (hi - lo)) m) : PostA (sliceG site b lo hi) m Q :=
  postA_of_post (post_sliceG h hq)

theorem postA_sliceFromG {site : String} {b : Bytes} {lo : Nat} {m : Meter} {Q : Bytes → Meter → Prop}
    (h : lo ≤ b.length) (hq : Q (b.drop lo) m) : PostA (sliceFromG site b lo) m Q :=
  postA_of_post (post_sliceFromG h hq)

theorem postA_sliceToG {site : String} {b : Bytes} {hi : Nat} {m : Meter} {Q : Bytes → Meter → Prop}
    (h : hi ≤ b.length) (hq : Q (b.take hi) m) : PostA (sliceToG site b hi) m Q :=
  postA_of_post (post_sliceToG h hq)

end GoM
end Fiano
