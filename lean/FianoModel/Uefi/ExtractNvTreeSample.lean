/-
  Non-vacuity of the tree-level round trip WITH an NVAR store (follow-up wp-c07c): the 184-byte image of
  Uefi/ExtractNvarSample.lean (one volume, one RAW file with the NVAR GUID whose store holds two live variables
  of the same name and GUID) with the file's header checksum as `Assemble` writes it.  Parsed with C10's
  `NewNVarStore` / `asmStore` as NVAR hooks it satisfies `okNvTree` (but not `okTree`: it has a store), `pwTree`,
  `nvUtf8Tree`, `TopPol`; three files are extracted; one `Assemble` pass over the loaded directory, the direct
  save, and `utk DIR save` (two passes) all return the image.
-/
import FianoModel.Uefi.ExtractNvTreeDefs
import FianoModel.Uefi.ExtractNvarSample
import FianoModel.Uefi.ExtractPathsBase

namespace Fiano.Uefi.NvTreeSample
open Fiano Fiano.Uefi

open Spec in
def fvN : FvI :=
  .ffs (List.replicate 16 0) false 0x0004FEFF 2 0 [⟨24, 8⟩] none
    [ .leaf guidNVAR 162 0xAA 1 0 0xF8 false NvSample.store ] 36

def bytes : Bytes := Spec.ser (.bios ⟨[([], fvN)], []⟩)

def hP : Hooks := c10Hooks Hooks.none 0xFF

def isOk (r : Except Err Bytes) (b : Bytes) : Bool :=
  match r with
  | .ok x => x == b
  | .error _ => false

def holds : Bool :=
  match parseWith hP (defaultFuel bytes) bytes {} with
  | .ok (t, st) =>
    okNvTree t && !okTree t && pwTree t && nvUtf8Tree 0xFF t && TopPol st.pol t && st.pol == 0xFF &&
      (extractDir t).length == 3 &&
      isOk (extractLoadAsmNv Hooks.none 0xFF goJunk t) bytes &&
      isOk (asmWith hP t st) bytes &&
      isOk (extractSaveNv Hooks.none 0xFF hP goJunk t) bytes
  | .error _ => false

theorem sample_nvtree_holds : bytes.length = 184 ∧ holds = true := by decide +kernel

end Fiano.Uefi.NvTreeSample
