/-
  C02 (follow-up wp-c02b), `parse_establishes_TreeOk`, part 9: the flash descriptor, reader side.
  The reader's rules F1–F4 look at the first 4 KiB and at the size of the image only: on every image
  with this descriptor and this size its verdict is its verdict on the BIOS region (`flashHdr_est`).
-/
import FianoModel.Uefi.ParseOk8

namespace Fiano.Uefi
open Fiano
open EditArith

/-- the descriptor parameters the reader derives from an image -/
def rdMs (b : Bytes) : Nat := if (b.drop 16).take 4 = Valid.flashSig then 20 else 4
def rdFrba (b : Bytes) : Nat := Valid.fld b (rdMs b + 2) 1 * 16
def rdNr (b : Bytes) : Nat := Valid.fld b (rdMs b + 3) 1

theorem flashOk_unfold (b : Bytes) :
    Valid.flashOk b =
      (if b.length < 4096 ∨ b.length % 4096 ≠ 0 then false
       else if rdFrba b + 64 > 4096 then false
       else
         Valid.tiles 16 (Valid.described b (rdFrba b) (rdNr b)) 1 (b.length / 4096) &&
         match (Valid.described b (rdFrba b) (rdNr b)).find? (fun r => r.1 = 0) with
         | none => false
         | some (_, base, limit) => Valid.biosOk ((b.drop (base * 4096)).take ((limit + 1 - base) * 4096))) := rfl

theorem filterMap_congr' {α β : Type} (f g : α → Option β) : ∀ (l : List α), (∀ x ∈ l, f x = g x) →
    l.filterMap f = l.filterMap g
  | [], _ => rfl
  | a :: l, h => by
    rw [List.filterMap_cons, List.filterMap_cons, h a (by simp), filterMap_congr' f g l (fun x hx => h x (by simp [hx]))]

theorem described_congr (b b' : Bytes) (frba nr : Nat) (hl : b.length = b'.length) (ht : b.take 4096 = b'.take 4096)
    (hf : frba + 64 ≤ 4096) : Valid.described b frba nr = Valid.described b' frba nr := by
  unfold Valid.described
  apply filterMap_congr'
  intro i hi
  have hi15 : i < 15 := by simpa using hi
  rw [fld_of_take_eq b b' 4096 (frba + 4 + 4 * i) 2 ht (by omega),
      fld_of_take_eq b b' 4096 (frba + 6 + 4 * i) 2 ht (by omega), hl]

theorem rdParams_congr (b b' : Bytes) (ht : b.take 4096 = b'.take 4096) :
    rdMs b = rdMs b' ∧ rdFrba b = rdFrba b' ∧ rdNr b = rdNr b' := by
  have hms : rdMs b = rdMs b' := by
    unfold rdMs
    rw [window_of_take_eq b b' 4096 16 4 ht (by omega)]
  have hle : rdMs b' ≤ 20 := by unfold rdMs; split <;> omega
  refine ⟨hms, ?_, ?_⟩
  · unfold rdFrba
    rw [hms, fld_of_take_eq b b' 4096 _ 1 ht (by omega)]
  · unfold rdNr
    rw [hms, fld_of_take_eq b b' 4096 _ 1 ht (by omega)]

theorem hasFlashSig_congr (b b' : Bytes) (hl : b.length = b'.length) (ht : b.take 4096 = b'.take 4096) :
    Valid.hasFlashSig b = Valid.hasFlashSig b' := by
  unfold Valid.hasFlashSig
  rw [hl, window_of_take_eq b b' 4096 16 4 ht (by omega)]
  have : b.take 4 = b'.take 4 := by
    have := window_of_take_eq b b' 4096 0 4 ht (by omega)
    simpa using this
  rw [this]

/-- the first described region is the BIOS region, read off the table entry FLREG1 -/
theorem described_find0 (b : Bytes) (frba nr : Nat) (x : Nat × Nat × Nat)
    (h : (Valid.described b frba nr).find? (fun r => r.1 = 0) = some x) :
    x = (0, Valid.fld b (frba + 4) 2, Valid.fld b (frba + 6) 2) ∧
    (x.2.2 > 0 ∧ x.2.2 ≥ x.2.1 ∧ x.2.2 ≠ 0xFFFF ∧ x.2.1 ≠ 0xFFFF ∧ x.2.1 * 4096 < b.length ∧
      (x.2.2 + 1) * 4096 ≤ b.length ∧ (nr = 0 ∨ 0 < nr)) := by
  unfold Valid.described at h
  have hr : List.range 15 = 0 :: (List.range 14).map (· + 1) := by decide
  rw [hr, List.filterMap_cons] at h
  simp only [Nat.mul_zero, Nat.add_zero] at h
  split at h
  · -- entry 0 is not described: no other entry has index 0
    exfalso
    rw [List.find?_eq_some_iff_append] at h
    obtain ⟨hx, as, bs, hsplit, _⟩ := h
    have hmem : x ∈ as ++ x :: bs := by simp
    rw [← hsplit, List.mem_filterMap] at hmem
    obtain ⟨i, hi, hfi⟩ := hmem
    rw [List.mem_map] at hi
    obtain ⟨j, _, rfl⟩ := hi
    split at hfi
    · cases hfi
      simp at hx
    · cases hfi
  · rename_i y hy
    split at hy
    · rename_i hcond
      cases hy
      rw [List.find?_cons_of_pos (by simp)] at h
      cases h
      exact ⟨rfl, hcond⟩
    · cases hy

/-- **the reader's verdict on an image with this descriptor and this size** -/
theorem flashHdr_est (image : Bytes) (hs : Valid.hasFlashSig image = true) (hv : Valid.flashOk image = true) :
    ∃ base limit, FlashHdr (image.take 4096) image.length base limit ∧
      base = Valid.fld image (rdFrba image + 4) 2 ∧ limit = Valid.fld image (rdFrba image + 6) 2 ∧
      4096 ≤ image.length ∧ image.length % 4096 = 0 ∧ rdFrba image + 64 ≤ 4096 ∧
      (limit > 0 ∧ limit ≥ base ∧ limit ≠ 0xFFFF ∧ base ≠ 0xFFFF ∧ base * 4096 < image.length ∧
        (limit + 1) * 4096 ≤ image.length ∧ (rdNr image = 0 ∨ 0 < rdNr image)) ∧
      Valid.biosOk ((image.drop (base * 4096)).take ((limit + 1 - base) * 4096)) = true := by
  rw [flashOk_unfold] at hv
  split at hv
  · cases hv
  · rename_i hlen
    split at hv
    · cases hv
    · rename_i hfr
      simp only [Bool.and_eq_true] at hv
      obtain ⟨htiles, hbios⟩ := hv
      split at hbios
      · cases hbios
      · rename_i i0 base limit hfind
        obtain ⟨hx, hcond⟩ := described_find0 image _ _ _ hfind
        simp only [Prod.mk.injEq] at hx
        obtain ⟨_, hbase, hlimit⟩ := hx
        simp only at hcond
        have h4096 : 4096 ≤ image.length := by omega
        have hdl : (image.take 4096).length = 4096 := by rw [List.length_take]; omega
        refine ⟨base, limit, ⟨hdl, fun X hX => ?_⟩, hbase, hlimit, h4096, by omega, by omega, hcond, hbios⟩
        -- any image with this descriptor and this size
        have hl : (image.take 4096 ++ X).length = image.length := by simp only [List.length_append]; omega
        have ht : (image.take 4096 ++ X).take 4096 = image.take 4096 := by
          rw [List.take_append_of_le_length (by omega), List.take_of_length_le (by omega)]
        have ht' : (image.take 4096 ++ X).take 4096 = image.take 4096 := ht
        have htt : (image.take 4096 ++ X).take 4096 = (image).take 4096 := ht
        obtain ⟨_, hfrba, hnr⟩ := rdParams_congr (image.take 4096 ++ X) image htt
        unfold Valid.validImage
        rw [hasFlashSig_congr _ image hl htt, hs]
        simp only [if_true]
        rw [flashOk_unfold, hl, hfrba, hnr, described_congr _ image _ _ hl htt (by omega)]
        rw [if_neg hlen, if_neg hfr, htiles, Bool.true_and, hfind]

end Fiano.Uefi
