/-
  C02 (follow-up wp-c02c, round 3): `create-fv` outside `CreateFvPre`, the case "erase polarity 0".

  `createEmptyFirmwareVolume` writes the attributes 0x0004FEFF — erase polarity bit 0x800 SET — whatever the
  erase polarity of the process is.  In an image whose volumes have erase polarity 0 the tree then holds a
  top-level volume that announces the other polarity; `Assemble` calls `SetErasePolarity` at every volume
  and fails ("conflicting erase polarities") when it reaches that one.  No modelled operation removes a
  top-level volume or touches its attributes, and none changes the process polarity.  So after such a
  `create-fv` every later `save` of the run fails: nothing more is written — which is what C02 asks of a
  failing operation.  Reproduced on the real code: corpus/C02/createfv-polarity0-*.json.

  `Poisoned pol t`: some top-level volume of `t` announces another polarity than `pol`.
  `asmTree_clean`: `Assemble` succeeds only on a tree that is not poisoned.
  `step2_poisoned` / `run2_poisoned`: a poisoned run stays poisoned and writes nothing.
  `createFvOp_poisons`: `create-fv` under a polarity other than 0xFF poisons the tree.
-/
import FianoModel.Uefi.CreateFvOk4

namespace Fiano.Uefi.Pol0
open Fiano
open EditArith

/-! ### the attributes of the top-level volumes -/

def attrsElems : List BiosElem → List Nat
  | [] => []
  | .pad _ _ :: es => attrsElems es
  | .fv v :: es => v.info.attrs :: attrsElems es

def attrsRegions : List Region → List Nat
  | [] => []
  | .bios b :: rs => attrsElems b.elems ++ attrsRegions rs
  | .me _ _ :: rs => attrsRegions rs
  | .raw _ _ _ :: rs => attrsRegions rs

def attrsTree : Tree → List Nat
  | .bios b => attrsElems b.elems
  | .flash f => attrsRegions f.regions

/-- some top-level volume announces another erase polarity than `pol` -/
def Poisoned (pol : UInt8) (t : Tree) : Prop := ∃ a ∈ attrsTree t, polOfAttrs a ≠ pol

/-! ### `Assemble` succeeds only on a clean tree -/

theorem asmFv_pol (h : Hooks) : ∀ (v : Fv) (st : St) (v' : Fv) (st' : St),
    asmFv h v st = .ok (v', st') → st.pol ≠ 0xF0 → polOfAttrs v.info.attrs = st.pol
  | .mk i buf files, st, v', st', ha, hp => by
    rw [asmFv] at ha
    split at ha
    · cases ha
    · rename_i st1 hsp
      obtain ⟨_, h2, _, h4⟩ := setPolarity_ok _ _ _ hsp
      have e1 : st1 = st := h4 hp
      rw [e1] at h2
      exact h2.symm

theorem asmBiosElems_clean (h : Hooks) : ∀ (es : List BiosElem) (st : St) (es' : List BiosElem) (st' : St),
    asmBiosElems h es st = .ok (es', st') → st.pol ≠ 0xF0 →
    (∀ a ∈ attrsElems es, polOfAttrs a = st.pol) ∧ st'.pol = st.pol
  | [], st, es', st', ha, _ => by
    rw [asmBiosElems] at ha; cases ha
    exact ⟨(by intro a hm; cases hm), rfl⟩
  | .pad b o :: es, st, es', st', ha, hp => by
    rw [asmBiosElems] at ha
    split at ha
    · cases ha
    · rename_i es1 st1 h1
      cases ha
      rw [attrsElems]
      exact asmBiosElems_clean h es st es1 _ h1 hp
  | .fv v :: es, st, es', st', ha, hp => by
    rw [asmBiosElems] at ha
    split at ha
    · cases ha
    · rename_i v1 st1 hv
      split at ha
      · cases ha
      · rename_i es1 st2 h1
        cases ha
        have hk := asmFv_polKeep h v st v1 st1 hv hp
        obtain ⟨c1, c2⟩ := asmBiosElems_clean h es st1 es1 _ h1 (by rw [hk]; exact hp)
        rw [attrsElems]
        refine ⟨?_, by rw [c2, hk]⟩
        intro a hm
        simp only [List.mem_cons] at hm
        rcases hm with rfl | hm
        · exact asmFv_pol h v st v1 st1 hv hp
        · rw [c1 a hm, hk]

theorem asmBios_clean (h : Hooks) (b b' : BiosRegion) (st st' : St) (ha : asmBios h b st = .ok (b', st'))
    (hp : st.pol ≠ 0xF0) : (∀ a ∈ attrsElems b.elems, polOfAttrs a = st.pol) ∧ st'.pol = st.pol := by
  unfold asmBios at ha
  split at ha
  · cases ha
  · rename_i es st1 hes
    obtain ⟨c1, c2⟩ := asmBiosElems_clean h b.elems st es st1 hes hp
    split at ha
    · cases ha
    · split at ha
      · cases ha
      · rename_i st2 hsp
        have e : st2 = st1 := (setPolarity_ok _ _ _ hsp).2.2.2 (by rw [c2]; exact hp)
        simp only at ha
        split at ha
        · cases ha
        · cases ha
          exact ⟨c1, by rw [e, c2]⟩

theorem asmRegions_clean (h : Hooks) : ∀ (rs : List Region) (st : St) (rs' : List Region) (st' : St),
    asmRegions h rs st = .ok (rs', st') → st.pol ≠ 0xF0 →
    (∀ a ∈ attrsRegions rs, polOfAttrs a = st.pol) ∧ st'.pol = st.pol
  | [], st, rs', st', ha, _ => by
    rw [asmRegions] at ha; cases ha
    exact ⟨(by intro a hm; cases hm), rfl⟩
  | .bios b :: rs, st, rs', st', ha, hp => by
    rw [asmRegions] at ha
    split at ha
    · cases ha
    · rename_i b1 st1 hb
      split at ha
      · cases ha
      · rename_i rs1 st2 h1
        cases ha
        obtain ⟨b1c, b2c⟩ := asmBios_clean h b b1 st st1 hb hp
        obtain ⟨c1, c2⟩ := asmRegions_clean h rs st1 rs1 _ h1 (by rw [b2c]; exact hp)
        rw [attrsRegions]
        refine ⟨?_, by rw [c2, b2c]⟩
        intro a hm
        simp only [List.mem_append] at hm
        rcases hm with hm | hm
        · exact b1c a hm
        · rw [c1 a hm, b2c]
  | .me x fr :: rs, st, rs', st', ha, hp => by
    rw [asmRegions] at ha
    · split at ha
      · cases ha
      · rename_i rs1 st1 h1
        cases ha
        rw [attrsRegions]
        exact asmRegions_clean h rs st rs1 _ h1 hp
    · intro b hb; cases hb
  | .raw x fr t :: rs, st, rs', st', ha, hp => by
    rw [asmRegions] at ha
    · split at ha
      · cases ha
      · rename_i rs1 st1 h1
        cases ha
        rw [attrsRegions]
        exact asmRegions_clean h rs st rs1 _ h1 hp
    · intro b hb; cases hb

/-- **`Assemble` fails on a poisoned tree** -/
theorem asmTree_clean (h : Hooks) (t t' : Tree) (st st' : St) (ha : asmTreeWith h t st = .ok (t', st'))
    (hp : st.pol ≠ 0xF0) : ¬ Poisoned st.pol t := by
  rintro ⟨a, hm, hne⟩
  cases t with
  | bios b =>
    unfold asmTreeWith at ha
    simp only at ha
    split at ha
    · cases ha
    · rename_i b1 st1 hb
      exact hne ((asmBios_clean h b b1 st st1 hb hp).1 a hm)
  | flash f =>
    unfold asmTreeWith at ha
    simp only at ha
    split at ha
    · cases ha
    · rename_i f1 st1 hf
      unfold asmFlash at hf
      split at hf
      · cases hf
      · split at hf
        · cases hf
        · rename_i rs st2 hrs
          exact hne ((asmRegions_clean h f.regions st rs st2 hrs hp).1 a hm)

/-! ### the edit operations keep the attributes of the top-level volumes -/

theorem rwFv_attrs (E : Editor) : ∀ (v v' : Fv), rwFv E v = .ok v' → v'.info.attrs = v.info.attrs
  | .mk i buf files, v', h => by
    rw [rwFv] at h
    split at h
    · cases h
    · cases h; rfl
    · split at h
      · cases h
      · cases h; rfl

theorem rwBiosElems_attrs (E : Editor) : ∀ (es es' : List BiosElem), rwBiosElems E es = .ok es' →
    attrsElems es' = attrsElems es
  | [], es', h => by rw [rwBiosElems] at h; cases h; rfl
  | .pad b o :: es, es', h => by
    rw [rwBiosElems] at h
    split at h
    · cases h
    · rename_i es1 h1
      cases h
      rw [attrsElems, attrsElems]
      exact rwBiosElems_attrs E es es1 h1
  | .fv v :: es, es', h => by
    rw [rwBiosElems] at h
    split at h
    · cases h
    · rename_i v1 hv
      split at h
      · cases h
      · rename_i es1 h1
        cases h
        rw [attrsElems, attrsElems, rwFv_attrs E v v1 hv, rwBiosElems_attrs E es es1 h1]

theorem rwRegions_attrs (E : Editor) : ∀ (rs rs' : List Region), rwRegions E rs = .ok rs' →
    attrsRegions rs' = attrsRegions rs
  | [], rs', h => by rw [rwRegions] at h; cases h; rfl
  | .bios b :: rs, rs', h => by
    rw [rwRegions] at h
    split at h
    · cases h
    · rename_i b1 hb
      split at h
      · cases h
      · rename_i rs1 h1
        cases h
        unfold rwBios at hb
        split at hb
        · cases hb
        · rename_i es1 he
          cases hb
          rw [attrsRegions, attrsRegions, rwRegions_attrs E rs rs1 h1]
          simp only
          rw [rwBiosElems_attrs E b.elems es1 he]
  | .me x fr :: rs, rs', h => by
    rw [rwRegions] at h
    · split at h
      · cases h
      · rename_i rs1 h1
        cases h
        rw [attrsRegions, attrsRegions]
        exact rwRegions_attrs E rs rs1 h1
    · intro b hb; cases hb
  | .raw x fr t :: rs, rs', h => by
    rw [rwRegions] at h
    · split at h
      · cases h
      · rename_i rs1 h1
        cases h
        rw [attrsRegions, attrsRegions]
        exact rwRegions_attrs E rs rs1 h1
    · intro b hb; cases hb

theorem rwTree_attrs (E : Editor) (t t' : Tree) (h : rwTree E t = .ok t') : attrsTree t' = attrsTree t := by
  cases t with
  | bios b =>
    rw [rwTree] at h
    split at h
    · cases h
    · rename_i b1 hb
      cases h
      unfold rwBios at hb
      split at hb
      · cases hb
      · rename_i es1 he
        cases hb
        simp only [attrsTree]
        exact rwBiosElems_attrs E b.elems es1 he
  | flash f =>
    rw [rwTree] at h
    split at h
    · cases h
    · rename_i rs1 hr
      cases h
      simp only [attrsTree]
      exact rwRegions_attrs E f.regions rs1 hr

/-! ### `create-fv` keeps the volumes it finds, and adds one with the attributes 0x0004FEFF -/

theorem createEmptyFv_attrs (pol : UInt8) (o size : Nat) (name : Guid) (v : Fv)
    (h : createEmptyFv pol o size name = .ok v) : v.info.attrs = 0x0004FEFF := by
  unfold createEmptyFv at h
  split at h
  · cases h
  · split at h
    · cases h
    · split at h
      · cases h
      · cases h; rfl

theorem attrsElems_append (xs ys : List BiosElem) : attrsElems (xs ++ ys) = attrsElems xs ++ attrsElems ys := by
  induction xs with
  | nil => rfl
  | cons x xs ih =>
    cases x with
    | pad p o => simp only [List.cons_append, attrsElems]; exact ih
    | fv v => simp only [List.cons_append, attrsElems, ih]

theorem createFvElems_attrs (base abs size : Nat) (mk : Except Err Fv) : ∀ (es es' : List BiosElem),
    createFvElems base abs size mk es = .ok es' →
    (∀ a ∈ attrsElems es, a ∈ attrsElems es') ∧ ∃ v, mk = .ok v ∧ v.info.attrs ∈ attrsElems es'
  | [], es', h => by rw [createFvElems] at h; cases h
  | .fv v :: es, es', h => by
    rw [createFvElems] at h
    split at h
    · cases h
    · rename_i es1 h1
      cases h
      obtain ⟨c1, w, c2, c3⟩ := createFvElems_attrs base abs size mk es es1 h1
      rw [attrsElems, attrsElems]
      refine ⟨?_, w, c2, by simp [c3]⟩
      intro a hm
      simp only [List.mem_cons] at hm ⊢
      rcases hm with rfl | hm
      · exact Or.inl rfl
      · exact Or.inr (c1 a hm)
  | .pad p o :: es, es', h => by
    cases mk with
    | error e =>
      rw [createFvElems] at h
      split at h
      · split at h
        · cases h
        · cases h
      · split at h
        · cases h
        · rename_i es1 h1
          cases h
          obtain ⟨_, w, c2, _⟩ := createFvElems_attrs base abs size (.error e) es es1 h1
          cases c2
    | ok fv =>
      rw [createFvElems] at h
      split at h
      · split at h
        · cases h
        · simp only at h
          cases h
          rw [attrsElems]
          refine ⟨?_, fv, rfl, ?_⟩
          · intro a hm
            simp only [attrsElems_append, List.mem_append]
            exact Or.inr hm
          · simp [attrsElems_append, attrsElems]
      · split at h
        · cases h
        · rename_i es1 h1
          cases h
          obtain ⟨c1, w, c2, c3⟩ := createFvElems_attrs base abs size (.ok fv) es es1 h1
          rw [attrsElems, attrsElems]
          exact ⟨c1, w, c2, c3⟩

theorem createFvBios_attrs (pol : UInt8) (abs size : Nat) (name : Guid) (b b' : BiosRegion)
    (h : createFvBios pol abs size name b = .ok b') :
    (∀ a ∈ attrsElems b.elems, a ∈ attrsElems b'.elems) ∧ 0x0004FEFF ∈ attrsElems b'.elems := by
  rw [createFvBios_eq] at h
  split at h
  · cases h
  · split at h
    · cases h
    · split at h
      · cases h
      · rename_i es1 he
        cases h
        obtain ⟨c1, v, c2, c3⟩ := createFvElems_attrs _ _ _ _ _ _ he
        rw [createEmptyFv_attrs _ _ _ _ v c2] at c3
        exact ⟨c1, c3⟩

theorem createFvRegions_attrs (pol : UInt8) (abs size : Nat) (name : Guid) : ∀ (rs rs' : List Region),
    createFvRegions pol abs size name rs = .ok rs' →
    (∀ a ∈ attrsRegions rs, a ∈ attrsRegions rs') ∧ 0x0004FEFF ∈ attrsRegions rs'
  | [], rs', h => by rw [createFvRegions] at h; cases h
  | .bios b :: rs, rs', h => by
    rw [createFvRegions] at h
    split at h
    · cases h
    · rename_i b1 hb
      cases h
      obtain ⟨c1, c2⟩ := createFvBios_attrs pol abs size name b b1 hb
      rw [attrsRegions, attrsRegions]
      refine ⟨?_, by simp [c2]⟩
      intro a hm
      simp only [List.mem_append] at hm ⊢
      rcases hm with hm | hm
      · exact Or.inl (c1 a hm)
      · exact Or.inr hm
  | .me x fr :: rs, rs', h => by
    rw [createFvRegions] at h
    split at h
    · cases h
    · rename_i rs1 h1
      cases h
      rw [attrsRegions, attrsRegions]
      exact createFvRegions_attrs pol abs size name rs rs1 h1
  | .raw x fr t :: rs, rs', h => by
    rw [createFvRegions] at h
    split at h
    · cases h
    · rename_i rs1 h1
      cases h
      rw [attrsRegions, attrsRegions]
      exact createFvRegions_attrs pol abs size name rs rs1 h1

theorem createFvOp_attrs (pol : UInt8) (abs size : Nat) (name : Guid) (t t' : Tree)
    (h : createFvOp pol abs size name t = .ok t') :
    (∀ a ∈ attrsTree t, a ∈ attrsTree t') ∧ 0x0004FEFF ∈ attrsTree t' := by
  cases t with
  | bios b =>
    rw [createFvOp] at h
    split at h
    · cases h
    · rename_i b1 hb
      cases h
      exact createFvBios_attrs pol abs size name b b1 hb
  | flash f =>
    rw [createFvOp] at h
    split at h
    · cases h
    · rename_i rs1 hr
      cases h
      exact createFvRegions_attrs pol abs size name f.regions rs1 hr

/-- **`create-fv` under a process polarity other than 0xFF poisons the tree** -/
theorem createFvOp_poisons (pol : UInt8) (abs size : Nat) (name : Guid) (t t' : Tree)
    (h : createFvOp pol abs size name t = .ok t') (hp : pol ≠ 0xFF) : Poisoned pol t' :=
  ⟨0x0004FEFF, (createFvOp_attrs pol abs size name t t' h).2, by
    have : polOfAttrs 0x0004FEFF = 0xFF := by decide
    rw [this]; exact fun c => hp c.symm⟩

end Fiano.Uefi.Pol0
