/-
  asm (tree x) reproduces ser x for sections, files and volumes (mutual induction over the grammar),
  threading the erase polarity and the visitor's `useFFS3` flag.
-/
import FianoModel.Uefi.Lemmas.AsmFv

namespace Fiano.Uefi
open Fiano Fiano.Uefi.Spec

theorem asmSection_nil (i : SecInfo) (buf : Bytes) (st : St) :
    asmSection Hooks.none (.mk i buf []) st =
      (match regenLeaf i with
       | .error e => .error e
       | .ok none => .ok (.mk i buf [], st)
       | .ok (some body) =>
         match genSecHeader i body with
         | .error e => .error e
         | .ok (i', buf') => .ok (.mk i' buf' [], noteLarge i'.extSize st)) := by
  rw [asmSection, asmNodes]
  rfl

theorem noteLarge_pol (n : Nat) (st : St) : (noteLarge n st).pol = st.pol := by
  unfold noteLarge; split <;> rfl

theorem noteLarge_flag (n : Nat) (st : St) (h : (noteLarge n st).ffs3 = true) : st.ffs3 = true ∨ n > 0xFFFFFF := by
  unfold noteLarge at h
  split at h
  · right; assumption
  · left; exact h

theorem canonInfo_type (t n ord : Nat) : (canonInfo t n ord).type = t := by
  unfold canonInfo; split <;> rfl
theorem canonInfo_ts (t n ord : Nat) : (canonInfo t n ord).ts = none := by
  unfold canonInfo; split <;> rfl
theorem canonInfo_order (t n ord : Nat) : (canonInfo t n ord).fileOrder = ord := by
  unfold canonInfo; split <;> rfl
theorem canonInfo_extSize (t n ord : Nat) : (canonInfo t n ord).extSize = canonSecSize n := by
  unfold canonInfo canonSecSize; split <;> simp [secInfoOf]

/-- **sec_regen_id** for a regenerated leaf section: the body `body` regenerated from the decoded
    fields, wrapped by `GenSecHeader`, is the canonical section -/
theorem asm_regen (i : SecInfo) (buf body : Bytes) (t ord : Nat) (st : St)
    (hi : i.type = t ∧ i.ts = none ∧ i.fileOrder = ord) (ht2 : t ≠ 0x02)
    (hregen : regenLeaf i = .ok (some body)) (hsz : body.length + 8 < 0xFFFFFFFF) :
    ∃ s' st', asmSection Hooks.none (.mk i buf []) st = .ok (s', st') ∧ s'.buf = canonSec t body ∧
      st'.pol = st.pol ∧ (st'.ffs3 = true → st.ffs3 = true ∨ bigSize (canonSecSize body.length) = true) := by
  obtain ⟨h1, h2, h3⟩ := hi
  have hg := genSecHeader_canon i body h2 (by rw [h1]; exact ht2) hsz
  rw [asmSection_nil, hregen]
  simp only [hg]
  refine ⟨_, _, rfl, by simp [Section.buf, h1], noteLarge_pol _ _, ?_⟩
  intro hf
  rcases noteLarge_flag _ _ hf with h | h
  · left; exact h
  · right
    simp only [canonInfo_extSize] at h
    simp [bigSize, h]

end Fiano.Uefi

namespace Fiano.Uefi
open Fiano Fiano.Uefi.Spec

/-- the attribute word of a volume of the grammar -/
def attrsOfFv : FvI → Nat
  | .ffs _ _ a _ _ _ _ _ _ => a
  | .other _ _ a _ _ _ _ => a

theorem regenLeaf_none (i : SecInfo) (h15 : i.type ≠ 0x15) (h14 : i.type ≠ 0x14) (hd : isDepexType i.type = false) :
    regenLeaf i = .ok none := by
  unfold regenLeaf
  simp only [h15, h14, hd, if_false, Bool.false_eq_true]

theorem setPolarity_keep (attrs : Nat) (st : St) (h : attrs &&& 0x800 ≠ 0) (hp : st.pol = 0xFF) :
    setPolarity (polOfAttrs attrs) st = .ok st := by
  rw [setPolarity_ff attrs st h (Or.inl hp)]
  cases st; simp_all

theorem anyBigFiles_cons (f : FileI) (fs : List FileI) :
    anyBigFiles (f :: fs) = (anyBigFiles [f] || anyBigFiles fs) := by
  cases f <;> simp [anyBigFiles, Bool.or_assoc]

theorem allV3Files_cons (f : FileI) (fs : List FileI) :
    allV3Files (f :: fs) = (allV3Files [f] && allV3Files fs) := by
  cases f <;> simp [allV3Files]

set_option maxHeartbeats 1600000 in
mutual

theorem asm_sec : ∀ (s : SecI), wfSec s = true → ∀ (ord : Nat) (st : St), st.pol = 0xFF →
    (st.ffs3 = true → allV3Sec s = true) →
    ∃ s' st', asmSection Hooks.none (treeSec s ord) st = .ok (s', st') ∧ s'.buf = serSec s ∧ st'.pol = 0xFF ∧
      (st'.ffs3 = true → st.ffs3 = true ∨ anyBigSec s = true)
  | .leaf t ext body, h, ord, st, hp, _ => by
    simp only [wfSec, Bool.and_eq_true] at h
    obtain ⟨⟨hleaf, _⟩, _⟩ := h
    simp only [leafSecType, Bool.and_eq_true, decide_eq_true_eq, bne_iff_ne, ne_eq, Bool.not_eq_true'] at hleaf
    obtain ⟨⟨⟨⟨⟨_, _⟩, h14⟩, h15⟩, _⟩, hdep⟩ := hleaf
    refine ⟨treeSec (.leaf t ext body) ord, st, ?_, rfl, hp, fun hf => Or.inl hf⟩
    simp only [treeSec]
    rw [asmSection_nil, regenLeaf_none _ (by simpa [secInfoOf] using h15) (by simpa [secInfoOf] using h14)
      (by simpa [secInfoOf] using hdep)]
  | .guided ext g doff attrs body, _, ord, st, hp, _ => by
    refine ⟨treeSec (.guided ext g doff attrs body) ord, st, ?_, rfl, hp, fun hf => Or.inl hf⟩
    simp only [treeSec]
    rw [asmSection_nil, regenLeaf_none _ (by simp [secInfoOf]) (by simp [secInfoOf]) (by simp [secInfoOf, isDepexType])]
  | .ui name, h, ord, st, hp, _ => by
    simp only [wfSec, Bool.and_eq_true, decide_eq_true_eq] at h
    have := asm_regen { canonInfo 0x15 (utf8ToUcs2 name).length ord with name := name } (serSec (.ui name))
      (utf8ToUcs2 name) 0x15 ord st
      ⟨by simp [canonInfo_type], by simp [canonInfo_ts], by simp [canonInfo_order]⟩ (by decide)
      (by simp [regenLeaf, canonInfo_type]) h.2
    obtain ⟨s', st', h1, h2, h3, h4⟩ := this
    exact ⟨s', st', by simpa [treeSec] using h1, by simpa [serSec] using h2, by rw [h3]; exact hp,
      by simpa [anyBigSec] using h4⟩
  | .version build ver, h, ord, st, hp, _ => by
    simp only [wfSec, Bool.and_eq_true, decide_eq_true_eq] at h
    have hl : (leN 2 build ++ utf8ToUcs2 ver).length = 2 + (utf8ToUcs2 ver).length := by simp
    have := asm_regen { canonInfo 0x14 (2 + (utf8ToUcs2 ver).length) ord with build := build, version := ver }
      (serSec (.version build ver)) (leN 2 build ++ utf8ToUcs2 ver) 0x14 ord st
      ⟨by simp [canonInfo_type], by simp [canonInfo_ts], by simp [canonInfo_order]⟩ (by decide)
      (by simp [regenLeaf, canonInfo_type]) (by rw [hl]; omega)
    obtain ⟨s', st', h1, h2, h3, h4⟩ := this
    exact ⟨s', st', by simpa [treeSec] using h1, by simpa [serSec] using h2, by rw [h3]; exact hp,
      by rw [hl] at h4; simpa [anyBigSec] using h4⟩
  | .depex t ops, h, ord, st, hp, _ => by
    simp only [wfSec, Bool.and_eq_true, decide_eq_true_eq] at h
    obtain ⟨⟨hd, hops⟩, hsz⟩ := h
    obtain ⟨ht, hk, h2, h15, h14, h17⟩ := isDepex_types t hd
    have hl := encodeOps_length ops (wfOps_guid ops hops)
    have := asm_regen { canonInfo t (opsSize ops) ord with depex := ops } (serSec (.depex t ops))
      (encodeOps ops) t ord st
      ⟨by simp [canonInfo_type], by simp [canonInfo_ts], by simp [canonInfo_order]⟩ h2
      (by simp [regenLeaf, canonInfo_type, h15, h14, hd, encodeDepEx_eq ops hops]) (by rw [hl]; omega)
    obtain ⟨s', st', h1, h2', h3, h4⟩ := this
    exact ⟨s', st', by simpa [treeSec] using h1, by simpa [serSec] using h2', by rw [h3]; exact hp,
      by rw [hl] at h4; simpa [anyBigSec] using h4⟩
  | .fvimg fv, h, ord, st, hp, hv => by
    simp only [wfSec, Bool.and_eq_true, decide_eq_true_eq] at h
    obtain ⟨v', st1, hv1, hbuf, _, hp1, hf1⟩ := asm_fv fv h.1 0 true st hp (by simpa [allV3Sec] using hv)
    have hl := length_serFv fv h.1
    have hts : (canonInfo 0x17 (sizeFv fv) ord).ts = none := canonInfo_ts _ _ _
    have hty : (canonInfo 0x17 (sizeFv fv) ord).type = 0x17 := canonInfo_type _ _ _
    have hg := genSecHeader_canon (canonInfo 0x17 (sizeFv fv) ord) (serFv fv) hts (by rw [hty]; decide)
      (by rw [hl]; exact h.2)
    simp only [treeSec]
    rw [asmSection, asmNodes, hv1]
    simp only [asmNodes]
    have hjoin : joinPad4 (List.map Node.buf [Node.fv v']) [] = serFv fv := by
      simp [joinPad4, Node.buf, hbuf, align4_zero]
    simp only [hjoin, hty, show (0x17 : Nat) ≠ 0x02 by decide, if_false, hg]
    refine ⟨_, _, rfl, by simp [Section.buf, serSec], by rw [noteLarge_pol]; exact hp1, ?_⟩
    intro hf
    rcases noteLarge_flag _ _ hf with h' | h'
    · left; exact hf1 h'
    · right
      simp only [canonInfo_extSize, hl] at h'
      simp [anyBigSec, bigSize, h']

theorem asm_secs : ∀ (ss : List SecI), wfSecs ss = true → ∀ (idx : Nat) (st : St), st.pol = 0xFF →
    ((st.ffs3 = true ∨ anyBigSecs ss = true) → allV3Secs ss = true) →
    ∃ ss' st', asmSections Hooks.none (treeSecs ss idx) st = .ok (ss', st') ∧
      ss'.map Section.buf = ss.map serSec ∧ st'.pol = 0xFF ∧
      (st'.ffs3 = true → st.ffs3 = true ∨ anyBigSecs ss = true)
  | [], _, idx, st, hp, _ => ⟨[], st, by simp [treeSecs, asmSections], rfl, hp, fun h => Or.inl h⟩
  | s :: ss, h, idx, st, hp, hv => by
    have ⟨hs, hss⟩ := wfSecs_cons h
    have hvs : st.ffs3 = true → allV3Sec s = true := by
      intro hf
      have := hv (Or.inl hf)
      simp only [allV3Secs, Bool.and_eq_true] at this
      exact this.1
    obtain ⟨s', st1, h1, hb1, hp1, hf1⟩ := asm_sec s hs idx st hp hvs
    have hvss : (st1.ffs3 = true ∨ anyBigSecs ss = true) → allV3Secs ss = true := by
      intro hc
      have : st.ffs3 = true ∨ anyBigSecs (s :: ss) = true := by
        rcases hc with hc | hc
        · rcases hf1 hc with h' | h'
          · left; exact h'
          · right; simp [anyBigSecs, h']
        · right; simp [anyBigSecs, hc]
      have := hv this
      simp only [allV3Secs, Bool.and_eq_true] at this
      exact this.2
    obtain ⟨ss', st2, h2, hb2, hp2, hf2⟩ := asm_secs ss hss (idx + 1) st1 hp1 hvss
    refine ⟨s' :: ss', st2, ?_, by simp [hb1, hb2], hp2, ?_⟩
    · simp only [treeSecs, asmSections, h1, h2]
    · intro hf
      rcases hf2 hf with h' | h'
      · rcases hf1 h' with h'' | h''
        · left; exact h''
        · right; simp [anyBigSecs, h'']
      · right; simp [anyBigSecs, h']

theorem asm_file : ∀ (f : FileI), wfFile f = true → ∀ (st : St), st.pol = 0xFF →
    ((st.ffs3 = true ∨ anyBigFiles [f] = true) → allV3Files [f] = true) →
    ∃ f' st', asmFile Hooks.none (treeFile f) st = .ok (f', st') ∧ f'.buf = serFile f ∧
      f'.info.attrs = storedAttrs f ∧ st'.pol = 0xFF ∧
      (st'.ffs3 = true → st.ffs3 = true ∨ anyBigFiles [f] = true)
  | .leaf g ckh ckf t a stt ext body, _, st, hp, _ => by
    refine ⟨treeFile (.leaf g ckh ckf t a stt ext body), st, ?_, rfl, rfl, hp, fun h => Or.inl h⟩
    simp only [treeFile]
    rw [asmFile]
    simp only [asmSections]
  | .sect g t a stt secs, h, st, hp, hv => by
    have w := wfFile_sect h
    have hsl := length_serSecs secs 0 w.hsecs
    simp only [Nat.zero_add] at hsl
    have hvs : (st.ffs3 = true ∨ anyBigSecs secs = true) → allV3Secs secs = true := by
      intro hc
      have : st.ffs3 = true ∨ anyBigFiles [.sect g t a stt secs] = true := by
        rcases hc with hc | hc
        · left; exact hc
        · right; simp [anyBigFiles, hc]
      have := hv this
      simpa [allV3Files] using this
    obtain ⟨ss', st1, h1, hb1, hp1, hf1⟩ := asm_secs secs w.hsecs 0 st hp hvs
    have hne : ss' ≠ [] := by
      intro hc
      rw [hc] at hb1
      have : secs = [] := by
        cases secs with
        | nil => rfl
        | cons s ss => simp at hb1
      exact w.hne this
    obtain ⟨s0, ss0, hss⟩ : ∃ s0 ss0, ss' = s0 :: ss0 := by
      cases ss' with
      | nil => exact absurd rfl hne
      | cons a b => exact ⟨a, b, rfl⟩
    have hjoin : joinPad4 (ss'.map Section.buf) [] = serSecs 0 secs := by
      rw [hb1, joinPad4_serSecs secs [] w.hsecs (by simp only [List.length_nil]; have := w.hsize; omega)]
      simp
    simp only [treeFile]
    rw [asmFile]
    simp only [h1]
    rw [hss] at hjoin ⊢
    simp only [hjoin, hsl, setSize_sect]
    have hck := checksumAndAssemble_id g t (sectAttrs a (sizeSecs 0 secs)) stt
      (if a &&& 0x40 ≠ 0 then 0 - sum8 (serSecs 0 secs) else (0xAA : UInt8)).toNat
      (decide (24 + sizeSecs 0 secs ≥ 0xFFFFFF))
      ((if decide (24 + sizeSecs 0 secs ≥ 0xFFFFFF) then 32 else 24) + sizeSecs 0 secs)
      (if decide (24 + sizeSecs 0 secs ≥ 0xFFFFFF) then 32 else 24) (serSecs 0 secs) w.hg
      (by rw [sectAttrs_large]; simp)
    refine ⟨_, _, rfl, ?_, ?_, by rw [noteLarge_pol]; exact hp1, ?_⟩
    · simp only [File.buf]
      rw [sectAttrs_40] at hck
      have e1 : (if 24 + sizeSecs 0 secs ≥ 0xFFFFFF then 0xFFFFFF else 24 + sizeSecs 0 secs) =
          (if decide (24 + sizeSecs 0 secs ≥ 0xFFFFFF) = true then 0xFFFFFF else
            (if decide (24 + sizeSecs 0 secs ≥ 0xFFFFFF) = true then 32 else 24) + sizeSecs 0 secs) := by
        by_cases hb : 24 + sizeSecs 0 secs ≥ 0xFFFFFF <;> simp [hb]
      have e2 : (if 24 + sizeSecs 0 secs ≥ 0xFFFFFF then 32 + sizeSecs 0 secs else 24 + sizeSecs 0 secs) =
          (if decide (24 + sizeSecs 0 secs ≥ 0xFFFFFF) = true then 32 else 24) + sizeSecs 0 secs := by
        by_cases hb : 24 + sizeSecs 0 secs ≥ 0xFFFFFF <;> simp [hb]
      have e3 : (if 24 + sizeSecs 0 secs ≥ 0xFFFFFF then 32 else 24) =
          (if decide (24 + sizeSecs 0 secs ≥ 0xFFFFFF) = true then 32 else 24) := by
        by_cases hb : 24 + sizeSecs 0 secs ≥ 0xFFFFFF <;> simp [hb]
      rw [e1, e2]
      simp only [serFile, hsl]
      exact hck
    · simp [File.info, checksumAndAssemble, storedAttrs]
    · intro hf
      rcases noteLarge_flag _ _ hf with h' | h'
      · rcases hf1 h' with h'' | h''
        · left; exact h''
        · right; simp [anyBigFiles, h'']
      · right
        have : 24 + sizeSecs 0 secs ≥ 0xFFFFFF := by
          by_cases hb : 24 + sizeSecs 0 secs ≥ 0xFFFFFF
          · exact hb
          · simp [hb] at h'; omega
        simp [anyBigFiles, this]

theorem asm_files : ∀ (fs : List FileI) (off len : Nat), wfFiles off len fs = true → ∀ (st : St), st.pol = 0xFF →
    ((st.ffs3 = true ∨ anyBigFiles fs = true) → allV3Files fs = true) →
    ∃ fs' st', asmFiles Hooks.none (treeFiles fs) st = .ok (fs', st') ∧
      fs'.map (fun f => (f.info.attrs, f.buf)) = fs.map (fun f => (storedAttrs f, serFile f)) ∧
      st'.pol = 0xFF ∧ (st'.ffs3 = true → st.ffs3 = true ∨ anyBigFiles fs = true)
  | [], _, _, _, st, hp, _ => ⟨[], st, by simp [treeFiles, asmFiles], rfl, hp, fun h => Or.inl h⟩
  | f :: fs, off, len, h, st, hp, hv => by
    obtain ⟨hwf, _, _, _, hrest⟩ := wfFiles_cons h
    have hvf : (st.ffs3 = true ∨ anyBigFiles [f] = true) → allV3Files [f] = true := by
      intro hc
      have : st.ffs3 = true ∨ anyBigFiles (f :: fs) = true := by
        rcases hc with hc | hc
        · left; exact hc
        · right; rw [anyBigFiles_cons]; simp [hc]
      have := hv this
      rw [allV3Files_cons] at this
      simp only [Bool.and_eq_true] at this
      exact this.1
    obtain ⟨f', st1, h1, hb1, ha1, hp1, hf1⟩ := asm_file f hwf st hp hvf
    have hvfs : (st1.ffs3 = true ∨ anyBigFiles fs = true) → allV3Files fs = true := by
      intro hc
      have : st.ffs3 = true ∨ anyBigFiles (f :: fs) = true := by
        rw [anyBigFiles_cons]
        rcases hc with hc | hc
        · rcases hf1 hc with h' | h'
          · left; exact h'
          · right; simp [h']
        · right; simp [hc]
      have := hv this
      rw [allV3Files_cons] at this
      simp only [Bool.and_eq_true] at this
      exact this.2
    obtain ⟨fs', st2, h2, hb2, hp2, hf2⟩ := asm_files fs _ len hrest st1 hp1 hvfs
    refine ⟨f' :: fs', st2, ?_, by simp [hb1, ha1, hb2], hp2, ?_⟩
    · simp only [treeFiles, asmFiles, h1, h2]
    · intro hf
      rw [anyBigFiles_cons]
      rcases hf2 hf with h' | h'
      · rcases hf1 h' with h'' | h''
        · left; exact h''
        · right; simp [h'']
      · right; simp [h']

theorem asm_fv : ∀ (v : FvI), wfFv v = true → ∀ (off : Nat) (rz : Bool) (st : St), st.pol = 0xFF →
    (st.ffs3 = true → allV3Fv v = true) →
    ∃ v' st', asmFv Hooks.none (treeFv v off rz) st = .ok (v', st') ∧ v'.buf = serFv v ∧
      v'.info.attrs = attrsOfFv v ∧ st'.pol = 0xFF ∧ (st'.ffs3 = true → st.ffs3 = true)
  | .other zv g attrs rev rsv blocks body, h, off, rz, st, hp, _ => by
    have w := wfFv_other h
    refine ⟨treeFv (.other zv g attrs rev rsv blocks body) off rz, st, ?_, rfl,
      by simp only [treeFv, Fv.info, attrsOfFv], hp, id⟩
    simp only [treeFv]
    rw [asmFv, setPolarity_keep attrs st w.hpol hp]
    simp only [asmFiles]
  | .ffs zv v3 attrs rev rsv blocks ext files free, h, off, rz, st, hp, hv => by
    have w := wfFv_ffs h
    have hvf : (st.ffs3 = true ∨ anyBigFiles files = true) → allV3Files files = true := by
      intro hc
      rcases hc with hc | hc
      · have := hv hc
        simp only [allV3Fv, Bool.and_eq_true] at this
        exact this.2
      · exact (w.hbig hc).2
    obtain ⟨fs', st1, h1, hb1, hp1, hf1⟩ := asm_files files _ _ w.hfiles st hp hvf
    have etree : treeFv (.ffs zv v3 attrs rev rsv blocks ext files free) off rz =
        Fv.mk (treeFv (.ffs zv v3 attrs rev rsv blocks ext files free) off rz).info
          (serFv (.ffs zv v3 attrs rev rsv blocks ext files free)) (treeFiles files) := rfl
    have hattrs : (treeFv (.ffs zv v3 attrs rev rsv blocks ext files free) off rz).info.attrs = attrs := rfl
    rw [etree, asmFv, hattrs, setPolarity_keep attrs st w.hpol hp]
    simp only [h1]
    by_cases hnil : files = []
    · subst hnil
      have : fs' = [] := by simpa using hb1
      subst this
      refine ⟨Fv.mk (treeFv (.ffs zv v3 attrs rev rsv blocks ext [] free) off rz).info
          (serFv (.ffs zv v3 attrs rev rsv blocks ext [] free)) [], st1, rfl, rfl,
        by simp only [treeFv, Fv.info, attrsOfFv], hp1, ?_⟩
      intro hf
      rcases hf1 hf with h' | h'
      · exact h'
      · simp [anyBigFiles] at h'
    · obtain ⟨g0, gr, hfs'⟩ : ∃ g0 gr, fs' = g0 :: gr := by
        cases fs' with
        | nil =>
          cases files with
          | nil => exact absurd rfl hnil
          | cons a b => simp at hb1
        | cons a b => exact ⟨a, b, rfl⟩
      have hlen := length_serFv _ h
      simp only [sizeFv] at hlen
      have hpre := preBytes_length blocks ext (fun e he => (w.hext e he).1)
      have hgl := guid_v3_length v3
      -- the flag reaches the relayout only in an FFSv3 volume
      have hswap : ¬ (st1.ffs3 = true ∧ (if v3 then guidFFS3 else guidFFS2) = guidFFS2) := by
        intro ⟨hf, hg⟩
        have hv3 : v3 = true := by
          rcases hf1 hf with h' | h'
          · have := hv h'
            simp only [allV3Fv, Bool.and_eq_true, Bool.or_eq_true, List.isEmpty_iff] at this
            rcases this.1 with h'' | h''
            · exact absurd h'' hnil
            · exact h''
          · exact (w.hbig h').1
        rw [hv3] at hg
        exact absurd hg (by decide)
      obtain ⟨b0, bs, hblk⟩ : ∃ b0 bs, blocks = b0 :: bs := by
        rcases w.hnb with h' | h'
        · exact absurd h' hnil
        · cases blocks with
          | nil => exact absurd rfl h'
          | cons a b => exact ⟨a, b, rfl⟩
      have hend := endFiles_ge files (preLen blocks ext)
      have htake : (serFv (.ffs zv v3 attrs rev rsv blocks ext files free)).take (preLen blocks ext) =
          fvHeaderCk zv (if v3 then guidFFS3 else guidFFS2) (endFiles (preLen blocks ext) files + free) attrs
            (ehoOf blocks ext) rsv rev blocks ++ preBytes blocks ext := by
        simp only [serFv, List.append_assoc]
        rw [← List.append_assoc]
        have hA : (fvHeaderCk zv (if v3 then guidFFS3 else guidFFS2) (endFiles (preLen blocks ext) files + free) attrs
            (ehoOf blocks ext) rsv rev blocks ++ preBytes blocks ext).length = preLen blocks ext := by
          simp only [List.length_append, fvHeaderCk_length _ _ _ _ _ _ _ _ w.hzv hgl]; exact hpre
        exact take_left_len _ _ _ hA
      have hplace := placeFiles_fixed files (preLen blocks ext) _
        (fvHeaderCk zv (if v3 then guidFFS3 else guidFFS2) (endFiles (preLen blocks ext) files + free) attrs
            (ehoOf blocks ext) rsv rev blocks ++ preBytes blocks ext) w.hfiles
        (by simp only [List.length_append, fvHeaderCk_length _ _ _ _ _ _ _ _ w.hzv hgl]; exact hpre)
        (by have := w.hlenlt; omega)
      have hflen := length_serFiles files (preLen blocks ext) _ w.hfiles
      have hnl : (fvHeaderCk zv (if v3 then guidFFS3 else guidFFS2) (endFiles (preLen blocks ext) files + free) attrs
            (ehoOf blocks ext) rsv rev blocks ++ (preBytes blocks ext ++ serFiles (preLen blocks ext) files)).length =
          endFiles (preLen blocks ext) files := by
        simp only [List.length_append, fvHeaderCk_length _ _ _ _ _ _ _ _ w.hzv hgl]; omega
      have hfin := finishFv_id (treeFv (.ffs zv v3 attrs rev rsv blocks ext files free) off rz).info zv
        (if v3 then guidFFS3 else guidFFS2) (endFiles (preLen blocks ext) files + free) attrs (ehoOf blocks ext)
        rsv rev b0 bs (preBytes blocks ext ++ serFiles (preLen blocks ext) files) st1
        (by simp [treeFv, Fv.info]) (by simp [treeFv, Fv.info, hblk]) (by simp [treeFv, Fv.info])
        (by simp [treeFv, Fv.info, hblk]) w.hzv hgl (by rw [← hblk]; exact w.hhdr)
        (by rw [← hblk, hnl]; omega) hp1 hswap
      rw [← hblk] at hfin
      have hrel : relayoutFv (treeFv (.ffs zv v3 attrs rev rsv blocks ext files free) off rz).info
          (serFv (.ffs zv v3 attrs rev rsv blocks ext files free)) fs' st1 =
          .ok ({ (treeFv (.ffs zv v3 attrs rev rsv blocks ext files free) off rz).info with
                 freeSpace := (endFiles (preLen blocks ext) files + free + 18446744073709551616 -
                   align8 (endFiles (preLen blocks ext) files)) % 18446744073709551616 },
               serFv (.ffs zv v3 attrs rev rsv blocks ext files free), { st1 with ffs3 := false }) := by
        unfold relayoutFv
        have hi1 : (treeFv (.ffs zv v3 attrs rev rsv blocks ext files free) off rz).info.length =
            endFiles (preLen blocks ext) files + free := by simp [treeFv, Fv.info]
        have hi2 : (treeFv (.ffs zv v3 attrs rev rsv blocks ext files free) off rz).info.dataOffset =
            preLen blocks ext := by simp [treeFv, Fv.info]
        have hi3 : (treeFv (.ffs zv v3 attrs rev rsv blocks ext files free) off rz).info.blocks.isEmpty = false := by
          simp [treeFv, Fv.info, hblk]
        rw [hi1, hi2, hi3, hlen, if_neg (by omega), if_neg (by decide), if_neg (by omega), htake, hp1]
        have hmap : List.map (fun f => (f.info.attrs, f.buf)) fs' =
            List.map (fun f => (storedAttrs f, serFile f)) files := hb1
        rw [hmap, hplace]
        dsimp only
        rw [List.append_assoc, hfin, hnl]
        have e : endFiles (preLen blocks ext) files + free - endFiles (preLen blocks ext) files = free := by omega
        rw [e]
        simp only [serFv, List.append_assoc, hp1]
      subst hfs'
      simp only [hrel]
      exact ⟨Fv.mk { (treeFv (.ffs zv v3 attrs rev rsv blocks ext files free) off rz).info with
                 freeSpace := (endFiles (preLen blocks ext) files + free + 18446744073709551616 -
                   align8 (endFiles (preLen blocks ext) files)) % 18446744073709551616 }
               (serFv (.ffs zv v3 attrs rev rsv blocks ext files free)) (g0 :: gr),
             { st1 with ffs3 := false }, rfl, rfl, by simp only [treeFv, Fv.info, attrsOfFv], hp1,
             fun hc => Bool.noConfusion hc⟩

end

end Fiano.Uefi
